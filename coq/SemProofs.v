(* SemProofs.v — invariants of the semaphore model, for any number of threads and steps. *)
From FV Require Import Base SemModel.
Open Scope Z_scope.

Lemma pc_eqb_eq a b : pc_eqb a b = true -> a = b.
Proof. destruct a, b; cbn; congruence. Qed.

Lemma at_pc_true s t p : at_pc s t p = true -> nth_error (pcs s) t = Some p.
Proof.
  unfold at_pc. destruct (nth_error (pcs s) t) as [q|]; [|discriminate].
  intros H. apply pc_eqb_eq in H. congruence.
Qed.

Lemma mutex_free_true s : mutex_free s = true -> mutex s = None.
Proof. unfold mutex_free. destruct (mutex s); congruence. Qed.

(* Inversion of [fire]: one goal per label with the guards turned into hypotheses. *)
Tactic Notation "fire_inv" ident(H) :=
  unfold fire, set_pc in H;
  repeat match type of H with
         | (if ?a then _ else _) = Some _ =>
             let E1 := fresh "G" in destruct a eqn:E1; [|discriminate H]
         | match ?x with _ => _ end = Some _ =>
             let E1 := fresh "G" in destruct x eqn:E1; try discriminate H
         end;
  try (injection H as <-);
  repeat match goal with
         | G : _ && _ = true |- _ => apply andb_prop in G; destruct G
         end;
  repeat match goal with
         | G : at_pc _ _ _ = true |- _ => apply at_pc_true in G
         | G : mutex_free _ = true |- _ => apply mutex_free_true in G
         | G : (_ <? _) = true |- _ => apply Z.ltb_lt in G
         | G : (_ <=? _) = true |- _ => apply Z.leb_le in G
         | G : (_ =? _) = true |- _ => apply Z.eqb_eq in G
         | G : negb (Nat.eqb _ _) = true |- _ => apply negb_true_iff, Nat.eqb_neq in G
         end.

(* nested update at two distinct indices: make the side conditions available *)
Ltac upd2 :=
  match goal with
  | Hi : nth_error ?l ?i = Some ?a, Hj : nth_error ?l ?j = Some ?b |- context[upd (upd ?l ?i ?x) ?j ?y] =>
      let Hne := fresh "Hne" in let Hj' := fresh "Hj'" in
      assert (Hne : i <> j) by (first [assumption | congruence | (intro; subst; congruence)]);
      assert (Hj' : nth_error (upd l i x) j = Some b) by (erewrite nth_upd_other; eauto)
  end.

(* -------------------------------------------------------------------------------------------
   I1: accounting.  Every permit is in the counter, held by a guard, or on its way back. *)
Definition Acct (permits : Z) (s : st) : Prop :=
  count s + holders s + cnt isPreInc (pcs s) = permits.

Lemma Acct_init' p n : Acct p (init p n).
Proof.
  unfold Acct, init, holders; cbn [count held pcs].
  rewrite zsum_repeat0, cnt_repeat_false by reflexivity. lia.
Qed.

Lemma Acct_fire p s l s' : Acct p s -> fire s l = Some s' -> Acct p s'.
Proof.
  unfold Acct, holders. intros HA H. destruct l; fire_inv H; cbn [count held pcs];
    try upd2;
    try (erewrite !cnt_upd by eassumption); try (erewrite !zsum_upd by eassumption);
    cbn [isPreInc]; lia.
Qed.

(* I2: lower bound of the counter *)
Definition Low (permits : Z) (s : st) : Prop := Z.min permits 0 <= count s.

Lemma Low_fire p s l s' : Low p s -> fire s l = Some s' -> Low p s'.
Proof.
  unfold Low. intros HL H. destruct l; fire_inv H; cbn [count]; lia.
Qed.

(* I3: the two per-thread lists have the same length *)
Definition Shape (s : st) : Prop := length (held s) = length (pcs s).

Lemma Shape_fire s l s' : Shape s -> fire s l = Some s' -> Shape s'.
Proof.
  unfold Shape. intros HS H. destruct l; fire_inv H; cbn [held pcs];
    try upd2; try (erewrite !upd_length by eassumption); assumption.
Qed.

(* I4: mutual exclusion — the mutex is held exactly by the thread inside a critical section *)
Definition Mx (s : st) : Prop :=
  match mutex s with
  | None => cnt holdsMutex (pcs s) = 0
  | Some t => cnt holdsMutex (pcs s) = 1 /\ exists p, nth_error (pcs s) t = Some p /\ holdsMutex p = true
  end.

Lemma Mx_keep c m l h c' h' t q0 q1 :
  Mx (mkSt c m l h) -> nth_error l t = Some q0 -> holdsMutex q0 = holdsMutex q1 ->
  Mx (mkSt c' m (upd l t q1) h').
Proof.
  unfold Mx; cbn [mutex pcs]. intros HM Ht Hq.
  erewrite cnt_upd by eassumption. rewrite Hq.
  destruct m as [m|].
  - destruct HM as (HC & q & Hm & Hh). split; [destruct (holdsMutex q1); lia|].
    destruct (Nat.eq_dec t m) as [->|Hne].
    + exists q1. split; [eapply nth_upd_same; eassumption|]. congruence.
    + exists q. split; auto. erewrite nth_upd_other; eauto.
  - destruct (holdsMutex q1); lia.
Qed.

Lemma Mx_lock c l h c' h' t q0 q1 :
  Mx (mkSt c None l h) -> nth_error l t = Some q0 -> holdsMutex q1 = true ->
  Mx (mkSt c' (Some t) (upd l t q1) h').
Proof.
  unfold Mx; cbn [mutex pcs]. intros HM Ht Hq.
  assert (holdsMutex q0 = false) as Hq0.
  { destruct (holdsMutex q0) eqn:E; auto. pose proof (cnt_ge1 holdsMutex _ _ _ Ht E). lia. }
  erewrite cnt_upd by eassumption. rewrite Hq, Hq0. split; [lia|].
  exists q1. split; [eapply nth_upd_same; eassumption|assumption].
Qed.

Lemma Mx_unlock c m l h c' h' t q0 q1 :
  Mx (mkSt c m l h) -> nth_error l t = Some q0 -> holdsMutex q0 = true -> holdsMutex q1 = false ->
  Mx (mkSt c' None (upd l t q1) h').
Proof.
  unfold Mx; cbn [mutex pcs]. intros HM Ht Hq0 Hq1.
  erewrite cnt_upd by eassumption. rewrite Hq0, Hq1.
  pose proof (cnt_ge1 holdsMutex _ _ _ Ht Hq0).
  destruct m as [m|]; [destruct HM as (HC & _)|]; lia.
Qed.

Lemma Mx_fire s l s' : Mx s -> fire s l = Some s' -> Mx s'.
Proof.
  intros HM H. destruct s as [c m pl hl].
  destruct l; fire_inv H; cbn [count mutex pcs held] in *; subst;
    try (eapply Mx_keep; [eassumption|eassumption|reflexivity]);
    try (eapply Mx_lock; [eassumption|eassumption|reflexivity]);
    try (eapply Mx_unlock; [eassumption|eassumption|reflexivity|reflexivity]).
  - (* notify some: two non-holder updates *)
    upd2. eapply Mx_keep with (q0 := NotR) (c := c) (h := hl); [|eassumption|reflexivity].
    eapply Mx_keep with (q0 := Sleep); [eassumption|eassumption|reflexivity].
  - (* send: pcs and mutex untouched *)
    exact HM.
Qed.

(* I5: the wake-up invariant.  While somebody sleeps, every available permit is covered by a
   release that has incremented but not yet notified, or by a thread that has been woken and
   will re-check the counter under the mutex. *)
Definition Wake (s : st) : Prop :=
  sleepers s > 0 -> Z.max (count s) 0 <= cnt isNot (pcs s) + cnt isK (pcs s).

Lemma Wake_fire s l s' : Wake s -> fire s l = Some s' -> Wake s'.
Proof.
  unfold Wake, sleepers. intros HW H.
  pose proof (cnt_nonneg isSleep (pcs s)). pose proof (cnt_nonneg isNot (pcs s)).
  pose proof (cnt_nonneg isK (pcs s)).
  destruct l; fire_inv H; cbn [count pcs] in *; try exact HW;
    try upd2;
    erewrite !cnt_upd by eassumption; cbn [isSleep isNot isK];
    try match goal with G : nth_error (pcs s) _ = Some ChkA |- _ =>
          pose proof (cnt_ge1 isK _ _ _ G eq_refl) end;
    lia.
Qed.

(* ------------------------------------------------------------------------------------------- *)
Record Inv (permits : Z) (s : st) : Prop :=
  { inv_acct : Acct permits s; inv_low : Low permits s; inv_shape : Shape s;
    inv_mx : Mx s; inv_wake : Wake s }.

Lemma Inv_init p n : Inv p (init p n).
Proof.
  split.
  - apply Acct_init'.
  - unfold Low, init; cbn; lia.
  - unfold Shape, init; cbn. now rewrite !repeat_length.
  - unfold Mx, init; cbn. apply cnt_repeat_false; reflexivity.
  - unfold Wake, sleepers, init; cbn [pcs]. rewrite cnt_repeat_false by reflexivity. lia.
Qed.

Lemma Inv_fire p s l s' : Inv p s -> fire s l = Some s' -> Inv p s'.
Proof.
  intros [] H. split; eauto using Acct_fire, Low_fire, Shape_fire, Mx_fire, Wake_fire.
Qed.

Theorem reachable_Inv p n s : reachable p n s -> Inv p s.
Proof.
  induction 1 as [|s s' _ IH [l Hl]]; [apply Inv_init | eapply Inv_fire; eauto].
Qed.

(* ---- safety ---- *)
Theorem sem_safety p n s : reachable p n s ->
  count s + holders s + cnt isPreInc (pcs s) = p /\
  (0 <= p -> 0 <= count s /\ holders s <= p).
Proof.
  intros HR. destruct (reachable_Inv _ _ _ HR) as [HA HL _ _ _].
  split; [exact HA|]. intros Hp. unfold Acct, Low in *.
  pose proof (cnt_nonneg isPreInc (pcs s)). lia.
Qed.

Theorem sem_mutual_exclusion p n s t u pt pu : reachable p n s ->
  nth_error (pcs s) t = Some pt -> holdsMutex pt = true ->
  nth_error (pcs s) u = Some pu -> holdsMutex pu = true -> t = u /\ mutex s = Some t.
Proof.
  intros HR Ht Hpt Hu Hpu. destruct (reachable_Inv _ _ _ HR) as [_ _ _ HM _]. unfold Mx in HM.
  destruct (mutex s) as [m|].
  - destruct HM as (HC & q & Hq & Hh).
    assert (forall x px, nth_error (pcs s) x = Some px -> holdsMutex px = true -> x = m) as Huniq.
    { intros x px Hx Hpx. destruct (Nat.eq_dec x m) as [|Hne]; auto. exfalso.
      (* two distinct indices satisfying the predicate force cnt >= 2 *)
      assert (Hc := cnt_upd holdsMutex (pcs s) x Idle px Hx). rewrite Hpx in Hc. cbn [holdsMutex] in Hc.
      assert (Hm' : nth_error (upd (pcs s) x Idle) m = Some q) by (erewrite nth_upd_other; eauto).
      pose proof (cnt_ge1 holdsMutex _ _ _ Hm' Hh). lia. }
    rewrite (Huniq _ _ Ht Hpt), (Huniq _ _ Hu Hpu). auto.
  - pose proof (cnt_ge1 holdsMutex _ _ _ Ht Hpt). lia.
Qed.

(* ---- no lost wake-up ---- *)
Theorem sem_no_lost_wakeup p n s : reachable p n s ->
  sleepers s > 0 -> Z.max (count s) 0 <= cnt isNot (pcs s) + cnt isK (pcs s).
Proof. intros HR. exact (inv_wake _ _ (reachable_Inv _ _ _ HR)). Qed.

(* ---- restored ---- *)
Definition all_idle (s : st) : Prop := forall t q, nth_error (pcs s) t = Some q -> q = Idle.

Lemma cnt_all_idle (f : pc -> bool) s : f Idle = false -> all_idle s -> cnt f (pcs s) = 0.
Proof.
  intros Hf Ha. pose proof (cnt_nonneg f (pcs s)).
  destruct (Z.eq_dec (cnt f (pcs s)) 0) as [|Hne]; auto.
  destruct (cnt_pos_exists f (pcs s)) as (i & y & Hi & Hy); [lia|].
  rewrite (Ha _ _ Hi) in Hy. congruence.
Qed.

Theorem sem_restored p n s : reachable p n s -> all_idle s -> holders s = 0 -> count s = p.
Proof.
  intros HR Ha Hh. destruct (reachable_Inv _ _ _ HR) as [HA _ _ _ _]. unfold Acct in HA.
  rewrite (cnt_all_idle isPreInc s eq_refl Ha) in HA. lia.
Qed.

(* ---- progress: enabledness of internal steps ---- *)
Lemma fire_at s t p : nth_error (pcs s) t = Some p -> at_pc s t p = true.
Proof. unfold at_pc. intros ->. destruct p; reflexivity. Qed.

(* In a state satisfying the invariants, a thread that is neither Idle nor asleep implies that
   SOME internal step is enabled (its own, or the mutex holder's). *)
Lemma holder_can_step p s t q : Inv p s -> nth_error (pcs s) t = Some q -> holdsMutex q = true ->
  exists s', istep s s'.
Proof.
  intros HI Ht Hq. destruct q; try discriminate.
  - (* ChkA *) destruct (Z_lt_le_dec 0 (count s)) as [Hc|Hc].
    + assert (exists h, nth_error (held s) t = Some h) as [h Hh].
      { destruct (nth_error (held s) t) eqn:E; eauto. exfalso.
        apply nth_error_None in E. assert (t < length (pcs s))%nat by (apply nth_error_Some; congruence).
        pose proof (inv_shape _ _ HI) as HS. unfold Shape in HS. lia. }
      eexists. exists (LTake t). split; [reflexivity|]. unfold fire.
      rewrite (fire_at _ _ _ Ht). apply Z.ltb_lt in Hc. rewrite Hc. cbn [andb]. rewrite Hh. reflexivity.
    + eexists. exists (LWait t). split; [reflexivity|]. unfold fire.
      rewrite (fire_at _ _ _ Ht). apply Z.leb_le in Hc. rewrite Hc. reflexivity.
  - eexists. exists (LUnlockA t). split; [reflexivity|]. unfold fire. rewrite (fire_at _ _ _ Ht). reflexivity.
  - eexists. exists (LInc t). split; [reflexivity|]. unfold fire. rewrite (fire_at _ _ _ Ht). reflexivity.
Qed.

Lemma busy_can_step p s t q : Inv p s -> nth_error (pcs s) t = Some q -> q <> Idle -> q <> Sleep ->
  exists s', istep s s'.
Proof.
  intros HI Ht Hn1 Hn2.
  destruct (holdsMutex q) eqn:Hh; [eapply holder_can_step; eauto|].
  (* t does not hold the mutex; if somebody does, that thread can step *)
  pose proof (inv_mx _ _ HI) as HM. unfold Mx in HM.
  destruct (mutex s) as [m|] eqn:Em.
  { destruct HM as (_ & qm & Hqm & Hhm). eapply holder_can_step; eauto. }
  assert (Hfree : mutex_free s = true) by (unfold mutex_free; rewrite Em; reflexivity).
  destruct q; try discriminate; try congruence.
  - eexists. exists (LLockA t). split; [reflexivity|]. unfold fire. rewrite (fire_at _ _ _ Ht), Hfree. reflexivity.
  - eexists. exists (LRelock t). split; [reflexivity|]. unfold fire. rewrite (fire_at _ _ _ Ht), Hfree. reflexivity.
  - eexists. exists (LLockR t). split; [reflexivity|]. unfold fire. rewrite (fire_at _ _ _ Ht), Hfree. reflexivity.
  - (* NotR *) destruct (Z.eq_dec (cnt isSleep (pcs s)) 0) as [Hz|Hz].
    + eexists. exists (LNotify t None). split; [reflexivity|]. unfold fire.
      rewrite (fire_at _ _ _ Ht). apply Z.eqb_eq in Hz. rewrite Hz. reflexivity.
    + pose proof (cnt_nonneg isSleep (pcs s)).
      destruct (cnt_pos_exists isSleep (pcs s)) as (u & y & Hu & Hy); [lia|].
      destruct y; try discriminate.
      eexists. exists (LNotify t (Some u)). split; [reflexivity|]. unfold fire.
      rewrite (fire_at _ _ _ Ht), (fire_at _ _ _ Hu). reflexivity.
Qed.

(* A free permit while somebody sleeps is never a stuck situation. *)
Theorem sem_wakeup_progress p n s : reachable p n s -> count s > 0 -> sleepers s > 0 ->
  exists s', istep s s'.
Proof.
  intros HR Hc Hs. pose proof (reachable_Inv _ _ _ HR) as HI.
  pose proof (inv_wake _ _ HI Hs) as HW.
  pose proof (cnt_nonneg isNot (pcs s)). pose proof (cnt_nonneg isK (pcs s)).
  assert (0 < cnt isNot (pcs s) \/ 0 < cnt isK (pcs s)) as [Hp|Hp] by lia.
  - destruct (cnt_pos_exists _ _ Hp) as (t & q & Ht & Hq). destruct q; try discriminate.
    eapply busy_can_step; eauto; congruence.
  - destruct (cnt_pos_exists _ _ Hp) as (t & q & Ht & Hq). destruct q; try discriminate;
    eapply busy_can_step; eauto; congruence.
Qed.

(* ---- settling: internal steps always terminate, and where they stop nobody waits in vain ---- *)
Definition wpc (q : pc) : nat :=
  match q with
  | Idle | Sleep => 0 | UnlA => 1 | ChkA => 2 | Woken | WantA => 3 | NotR => 4 | IncR => 5 | WantR => 6
  end.
Definition weight (s : st) : nat := fold_right (fun q a => (wpc q + a)%nat) 0%nat (pcs s).

Lemma weight_upd l i x y : nth_error l i = Some y ->
  (fold_right (fun q a => wpc q + a) 0 (upd l i x) + wpc y = fold_right (fun q a => wpc q + a) 0 l + wpc x)%nat.
Proof.
  revert i; induction l as [|a l IH]; intros [|i] H; cbn [nth_error] in *; try discriminate.
  - injection H as ->. unfold upd. cbn [firstn skipn app fold_right]. lia.
  - specialize (IH i H). unfold upd in *. cbn [firstn skipn app fold_right] in *. lia.
Qed.

Lemma istep_weight s s' : istep s s' -> (weight s' < weight s)%nat.
Proof.
  intros (l & Hint & H). unfold weight.
  destruct l; try discriminate Hint; fire_inv H; cbn [pcs]; try upd2;
    repeat match goal with
           | G : nth_error ?l ?t = Some ?q |- context[upd ?l ?t ?x] =>
               lazymatch goal with
               | _ : (fold_right _ 0 (upd l t x) + _ = _)%nat |- _ => fail
               | _ => pose proof (weight_upd l t x q G)
               end
           end; cbn [wpc] in *; lia.
Qed.

Theorem sem_internal_terminates : forall s, Acc (fun s' s => istep s s') s.
Proof.
  intros s. remember (weight s) as w eqn:Hw. revert s Hw.
  induction w as [w IH] using lt_wf_ind. intros s ->.
  constructor. intros s' Hs. eapply IH; [apply istep_weight; eassumption|reflexivity].
Qed.

Theorem sem_settled p n s : reachable p n s -> (forall s', ~ istep s s') ->
  (forall t q, nth_error (pcs s) t = Some q -> q = Idle \/ q = Sleep) /\
  (sleepers s > 0 -> count s <= 0).
Proof.
  intros HR Hstuck. pose proof (reachable_Inv _ _ _ HR) as HI.
  assert (Hall : forall t q, nth_error (pcs s) t = Some q -> q = Idle \/ q = Sleep).
  { intros t q Ht. destruct q; auto;
      (exfalso; destruct (busy_can_step p s t _ HI Ht) as [s' Hs']; [discriminate|discriminate|];
       eapply Hstuck; eauto). }
  split; [exact Hall|].
  intros Hs. destruct (Z_le_gt_dec (count s) 0) as [|Hc]; auto.
  destruct (sem_wakeup_progress _ _ _ HR Hc Hs) as [s' Hs']. exfalso. eapply Hstuck; eauto.
Qed.

(* ---- validated traces are model paths ---- *)
Lemma fire_all_reachable p n ls : forall s s', reachable p n s -> fire_all s ls = Some s' -> reachable p n s'.
Proof.
  induction ls as [|l ls IH]; cbn [fire_all]; intros s s' HR H.
  - injection H as <-. exact HR.
  - destruct (fire s l) as [s1|] eqn:E; cbn [bind] in H; [|discriminate].
    eapply IH; [|eassumption]. eapply r_step; [eassumption|]. exists l. exact E.
Qed.

Theorem apply_event_reachable p n s e s' : reachable p n s -> apply_event s e = Some s' -> reachable p n s'.
Proof.
  unfold apply_event. intros HR H.
  destruct (labels_of s e) as [|l ls] eqn:El; [discriminate|].
  destruct (fire_all s (l :: ls)) as [s1|] eqn:E; cbn [bind] in H; [|discriminate].
  assert (reachable p n s1) by (eapply fire_all_reachable; eauto).
  destruct e; try (injection H as <-; assumption);
    unfold check_count in H; destruct (count s1 =? v); try discriminate; injection H as <-; assumption.
Qed.

Theorem validate_reachable p n es : forall s i s', reachable p n s ->
  validate s es i = (None, s') -> reachable p n s'.
Proof.
  induction es as [|e es IH]; cbn [validate]; intros s i s' HR H.
  - injection H as <-. exact HR.
  - destruct (apply_event s e) as [s1|] eqn:E; [|discriminate].
    eapply IH; [|eassumption]. eapply apply_event_reachable; eauto.
Qed.
