(* Props_C04.v — property C04: a stale report never removes changed data.
   Statements only.  History model (DedupeModel.v, last section): `group` reads member m at time
   [hr m] when its bytes are D; afterwards an ARBITRARY list [hops m] of ordinary operations (rewrite
   with the same or another length, append, truncate, touch, unlink, recreate, replace by a directory /
   fifo / symlink), each stamping mtime := its time; the dedupe run stats the paths at the end of the
   history ([final], [stat_of]) and runs with --modified-before tsc (by default the header's time stamp,
   possibly truncated to ms: tsc <= ts).  The header's stamp is the time `group` STARTED (main.rs run_group).  [hist_safe]: every file a command removes / replaces / moves
   still has the bytes D the group was built on, an unchanged member holding D is not acted upon by any
   command, and every link target is such a member.
   Quantification: all contents, member lists, histories, the five operations, all configurations
   (patterns, priorities, n, isolated roots, match-links, no-check-size).
   Boundary, stated honestly: was_modified uses `>`, so an operation stamped EXACTLY tsc..ts is not
   detected; the hypotheses below therefore demand ts < t (strictly) for every operation. *)
From Coq Require Import Permutation Sorted.
From FV Require Import Base SortLib DedupeModel DedupeProofs DedupeProofs3.
Open Scope Z_scope.

(* THE PROPERTY.  run_group stamps the report before the scan starts ([stamped_before_reads], main.rs since
   8227c8a), the dedupe run uses that stamp (or an earlier one: ms truncation) as cut-off, and every ordinary
   operation made after a member was read stamps its own time: then every such change - while `group` is still
   running or afterwards - is harmless. *)
Theorem C04_full : forall D members op c sm glen ts tsc,
  NoDup (map (fun m => mpath (hbase m)) members) ->
  mbefore c = Some tsc -> tsc <= ts ->
  stamped_before_reads ts members ->
  (forall m t o, In m members -> In (t, o) (hops m) -> hr m < t) ->
  hist_safe D members (hist_run D members op c sm glen).
Proof. exact c04_safe. Qed.
Print Assumptions C04_full.

(* Whatever the stamp is (e.g. a library user calling write_report, which stamps the time of the call): every
   change stamped later than it is harmless. *)
Theorem C04_after_report : forall D members op c sm glen ts tsc,
  NoDup (map (fun m => mpath (hbase m)) members) ->
  mbefore c = Some tsc -> tsc <= ts ->
  (forall m t o, In m members -> In (t, o) (hops m) -> ts < t) ->
  hist_safe D members (hist_run D members op c sm glen).
Proof. exact c04_after_report. Qed.
Print Assumptions C04_after_report.

(* the text report truncates the time stamp to milliseconds: that only moves the cut-off earlier *)
Theorem C04_trunc_le : forall t, trunc_ms t <= t.
Proof. exact trunc_ms_le. Qed.
Print Assumptions C04_trunc_le.

(* The guards one by one: a member whose metadata cannot be read (missing file, dangling link) skips
   the whole group; a checked member with a newer (or unreadable) mtime makes partition refuse the
   group; whatever partition decides on is a regular file of the recorded length (unless
   --no-check-size / transform) not modified after the cut-off. *)
Theorem C04_missing_skips_group : forall op c sm glen ms,
  In None ms -> group_cmds (dedupe_group op c sm glen ms) = [].
Proof. exact c04_missing_skips_group. Qed.
Print Assumptions C04_missing_skips_group.

Theorem C04_newer_mtime_skips_group : forall c glen ms ts v,
  mbefore c = Some ts -> In v (survivors c glen ms) ->
  (match mmtime v with Some t => ts < t | None => True end) -> partition c glen ms = Err EModified.
Proof. exact c04_newer_mtime_skips_group. Qed.
Print Assumptions C04_newer_mtime_skips_group.

Theorem C04_changed_left_out : forall c glen ms kept dropped v, partition c glen ms = Ok (kept, dropped) ->
  In v (kept ++ dropped) ->
  In v ms /\ mfile v = true /\ (no_size c = false -> mlen v = glen) /\
  (forall ts t, mbefore c = Some ts -> mmtime v = Some t -> t <= ts).
Proof. exact c04_changed_left_out. Qed.
Print Assumptions C04_changed_left_out.

(* ------------------------------------------------------------------ K1 (repaired by 8227c8a) *)
(* The old witness: a, b = "AAAA" read at 10, b rewritten with "BBBB" at 15.  With the stamp taken before the
   scan (5 <= 10) the premises of C04_full hold and the run skips the group ... *)
Definition k1_cfg_fixed : dcfg := mkCfg None (fun _ => false) (fun _ => true) [] false false (Some 5) [].
Example C04_K1_regression :
  stamped_before_reads 5 k1_members /\
  (forall m t o, In m k1_members -> In (t, o) (hops m) -> hr m < t) /\
  group_cmds (hist_run k1_D k1_members OpRemove k1_cfg_fixed (fun _ _ => true) 4) = [].
Proof.
  split; [|split].
  - intros m [<-|[<-|[]]]; cbn; lia.
  - exact (proj1 (proj2 c04_k1_witness)).
  - vm_compute. reflexivity.
Qed.
(* ... whereas a stamp taken when the report is written (20, after the reads) is NOT enough: b is removed
   although nobody else holds "BBBB" (what the code did before the fix; what a regression would do). *)
Example C04_stamp_at_write_time_unsafe :
  ~ stamped_before_reads 20 k1_members /\
  ~ hist_safe k1_D k1_members (hist_run k1_D k1_members OpRemove k1_cfg (fun _ _ => true) 4).
Proof.
  split; [|exact (proj2 (proj2 c04_k1_witness))].
  intros H. specialize (H _ (or_introl eq_refl)). cbn in H. lia.
Qed.

(* ------------------------------------------------------------------ non-vacuity *)
(* three members; c is rewritten (different length) and d replaced by a directory after the report;
   the run with the default configuration still issues a command (for b) and is safe *)
Definition ex4_members : list hmember :=
  [mkHm (k1_meta 97 10) 10 1 []; mkHm (k1_meta 98 11) 11 1 [];
   mkHm (k1_meta 100 13) 12 1 [(30, HReplaceNonReg)]].
Example C04_premises_inhabited :
  (forall m t o, In m ex4_members -> In (t, o) (hops m) -> 20 < t) /\
  exists x, In x (group_cmds (hist_run k1_D ex4_members OpRemove k1_cfg (fun _ _ => true) 4)).
Proof.
  split.
  - intros m t o [<-|[<-|[<-|[]]]]; cbn [hops]; intros []; try contradiction. injection H as <- <-. lia.
  - eexists. vm_compute. left. reflexivity.
Qed.
(* ... while a newer same-length rewrite makes the whole group be skipped *)
Example C04_skip_inhabited :
  group_cmds (hist_run k1_D [mkHm (k1_meta 97 10) 10 1 []; mkHm (k1_meta 98 11) 10 1 [(25, HWrite [66; 66; 66; 66]%N)]]
                       OpRemove k1_cfg (fun _ _ => true) 4) = [].
Proof. vm_compute. reflexivity. Qed.
