(* TextProofs6.v — engine T, proofs part 6 (C10): read_report (write_text r) = r, and the
   truncation theorem (every cut strictly inside a group is rejected; K4 was repaired in /repo 2eccdb7). *)
From FV Require Import Base TextModel TextProofs TextProofs2 TextProofs3 TextProofs4 TextProofs5.
Open Scope N_scope.

#[local] Opaque dec.
#[local] Arguments h_version {TS} _.
#[local] Arguments h_ts {TS} _.
#[local] Arguments h_command {TS} _.
#[local] Arguments h_base_dir {TS} _.
#[local] Arguments h_stats {TS} _.
#[local] Arguments mkHeader {TS} _ _ _ _ _.
#[local] Arguments HOk {TS} _ _.
#[local] Arguments RepText {TS} _ _ _.

(* ------------------------------------------------------------------------------------------ *)
(* decoding a prefix of an STFU-8 string gives a prefix of the decoded bytes *)

Lemma ocons_some x o d : ocons x o = Some d -> exists d', o = Some d' /\ d = x :: d'.
Proof. destruct o as [d'|]; cbn; intros [= <-]. exists d'. split; reflexivity. Qed.

Lemma omap_app_some (c : list N) o d : option_map (app c) o = Some d -> exists d', o = Some d' /\ d = c ++ d'.
Proof. destruct o as [d'|]; cbn; intros [= <-]. exists d'. split; reflexivity. Qed.

Lemma decode_prefix : forall n e1, (length e1 <= n)%nat -> forall e2 d d1,
  stfu8_decode (e1 ++ e2) = Some d -> stfu8_decode e1 = Some d1 -> exists d2, d = d1 ++ d2.
Proof.
  induction n as [|n IH]; intros e1 Hl e2 d d1 H H1.
  - destruct e1; [|cbn in Hl; lia]. cbn in H1. injection H1 as <-. exists d. reflexivity.
  - destruct e1 as [|b r]; [cbn in H1; injection H1 as <-; exists d; reflexivity|].
    cbn [app stfu8_decode] in H, H1. cbn [length] in Hl.
    destruct (b =? 92) eqn:Eb.
    + destruct r as [|e r1]; [discriminate|]. cbn [app] in H.
      assert (K : forall x rr, (length rr <= n)%nat ->
                  ocons x (stfu8_decode (rr ++ e2)) = Some d -> ocons x (stfu8_decode rr) = Some d1 ->
                  exists d2, d = d1 ++ d2).
      { intros x rr Hr A B. apply ocons_some in A as [da [A ->]]. apply ocons_some in B as [db [B ->]].
        destruct (IH rr Hr e2 da db A B) as [d2 ->]. exists d2. reflexivity. }
      cbn [length] in Hl.
      destruct (e =? 116); [apply (K 9 r1); [lia|assumption|assumption]|].
      destruct (e =? 110); [apply (K 10 r1); [lia|assumption|assumption]|].
      destruct (e =? 114); [apply (K 13 r1); [lia|assumption|assumption]|].
      destruct (e =? 92); [apply (K 92 r1); [lia|assumption|assumption]|].
      destruct (e =? 120).
      { destruct r1 as [|h [|k r2]]; try discriminate. cbn [app] in H.
        destruct (unhex2 h k) as [v|]; [|discriminate]. apply (K v r2); [cbn [length] in Hl; lia|assumption|assumption]. }
      destruct (e =? 117); [|discriminate].
      destruct r1 as [|h1 [|h2 [|h3 [|h4 [|h5 [|h6 r2]]]]]]; try discriminate. cbn [app] in H.
      destruct (unhex2 h1 h2) as [a|]; [|discriminate]. destruct (unhex2 h3 h4) as [b'|]; [|discriminate].
      destruct (unhex2 h5 h6) as [c|]; [|discriminate].
      destruct (is_scalar (a * 65536 + b' * 256 + c)); [|discriminate].
      apply omap_app_some in H as [da [A ->]]. apply omap_app_some in H1 as [db [B ->]].
      destruct (IH r2 ltac:(cbn [length] in Hl; lia) e2 da db A B) as [d2 ->]. exists d2. rewrite app_assoc. reflexivity.
    + apply ocons_some in H as [da [A ->]]. apply ocons_some in H1 as [db [B ->]].
      destruct (IH r ltac:(lia) e2 da db A B) as [d2 ->]. exists d2. reflexivity.
Qed.

(* ------------------------------------------------------------------------------------------ *)
(* cutting a concatenation of lines *)

Lemma firstn_concat (ls : list (list N)) : forall k, (k < length (concat ls))%nat ->
  exists j l x y, nth_error ls j = Some l /\ l = x ++ y /\ y <> [] /\
                  firstn k (concat ls) = concat (firstn j ls) ++ x /\
                  k = (length (concat (firstn j ls)) + length x)%nat.
Proof.
  induction ls as [|l ls IH]; intros k Hk; [cbn in Hk; lia|].
  cbn [concat] in *. rewrite app_length in Hk.
  destruct (Nat.ltb_spec k (length l)) as [Hlt|Hge].
  - exists 0%nat, l, (firstn k l), (skipn k l). repeat split.
    + symmetry. apply firstn_skipn.
    + intros E. apply (f_equal (@length N)) in E. rewrite skipn_length in E. cbn in E. lia.
    + cbn [firstn concat app]. rewrite firstn_app. replace (k - length l)%nat with 0%nat by lia.
      rewrite firstn_O, app_nil_r. reflexivity.
    + cbn [firstn concat length]. rewrite firstn_length. lia.
  - destruct (IH (k - length l)%nat ltac:(lia)) as (j & l' & x & y & Hn & El & Hy & Hf & Hk').
    exists (S j), l', x, y. repeat split; try assumption.
    + cbn [firstn concat]. rewrite firstn_app, firstn_all2 by lia. rewrite Hf, app_assoc. reflexivity.
    + cbn [firstn concat]. rewrite app_length. lia.
Qed.

Lemma in_trim_end cs y : In y (concat (trim_end_cs cs)) -> In y (concat cs).
Proof.
  destruct (trim_end_prefix cs) as [suf E]. intros H. rewrite E, concat_app. apply in_or_app. left. exact H.
Qed.

Lemma in_trim_start cs y : In y (concat (trim_start_cs cs)) -> In y (concat cs).
Proof.
  destruct (trim_start_suffix cs) as [pre E]. intros H. rewrite E, concat_app. apply in_or_app. right. exact H.
Qed.

(* trim of an ASCII string that starts with a non-blank byte *)
Lemma str_trim_head b l : Forall (fun y => y < 128) (b :: l) -> is_whitespace [b] = false ->
  exists t, str_trim (b :: l) = b :: t /\ forall y, In y t -> In y l.
Proof.
  intros Ha Hb. unfold str_trim. rewrite (str_chars_ascii _ Ha). cbn [single map].
  rewrite trim_start_id by assumption.
  set (L := [b] :: map (fun x => [x]) l).
  destruct (trim_end_prefix L) as [suf Es].
  pose proof (trim_end_nonempty [] [b] (map (fun x => [x]) l) Hb) as Hne. cbn [app] in Hne. fold L in Hne.
  assert (Hin : forall y, In y (concat (trim_end_cs L)) -> In y (concat L)) by (intros y; apply in_trim_end).
  destruct (trim_end_cs L) as [|c t]; [contradiction|].
  unfold L in Es. cbn [app] in Es. injection Es as E1 E2. subst c.
  exists (concat t). split; [reflexivity|]. intros y Hy.
  assert (Hy' : In y (concat (map (fun x => [x]) l))).
  { rewrite E2, concat_app. apply in_or_app. left. exact Hy. }
  fold (single l) in Hy'. rewrite concat_single in Hy'. exact Hy'.
Qed.

(* the group-header regex needs a colon *)
Lemma re_group_header_colon l r : re_group_header l = Some r -> In 58 l.
Proof.
  unfold re_group_header.
  pose proof (span_concat is_hexl l) as C0. destruct (span is_hexl l) as [hx r0].
  destruct (nonempty hx); [|discriminate].
  destruct (strip_prefix S_COMMA r0) as [r1|] eqn:E1; [|discriminate].
  pose proof (span_concat is_digit r1) as C1. destruct (span is_digit r1) as [d1 r2].
  destruct (nonempty d1); [|discriminate].
  destruct (strip_prefix S_B r2) as [r3|] eqn:E2; [|discriminate].
  pose proof (span_concat (fun b => negb (b =? 42)) r3) as C2. destruct (span (fun b => negb (b =? 42)) r3) as [x r4].
  destruct (nonempty x && (last x 0 =? 32)); [|discriminate].
  destruct (strip_prefix S_STAR r4) as [r5|] eqn:E3; [|discriminate].
  pose proof (span_concat is_digit r5) as C3. destruct (span is_digit r5) as [d2 r6].
  destruct (nonempty d2); [|discriminate].
  destruct r6 as [|c r7]; [discriminate|]. destruct (c =? 58) eqn:Ec; [|discriminate]. intros _.
  apply N.eqb_eq in Ec. subst c.
  assert (P : forall p a b', strip_prefix p a = Some b' -> forall y, In y b' -> In y a).
  { induction p as [|q p IHp]; intros a b' H y Hy; cbn in H.
    - injection H as <-. exact Hy.
    - destruct a as [|z a']; [discriminate|]. destruct (q =? z); [|discriminate]. right. eapply IHp; eassumption. }
  rewrite <- C0. apply in_or_app. right. apply (P _ _ _ E1).
  rewrite <- C1. apply in_or_app. right. apply (P _ _ _ E2).
  rewrite <- C2. apply in_or_app. right. apply (P _ _ _ E3).
  rewrite <- C3. apply in_or_app. right. left. reflexivity.
Qed.

Section Truncation.
Variable human : N -> list N.
Variable TS : Type.
Variable fmt_ts : TS -> list N.
Variable parse_ts : list N -> option TS.
Variable ts_ok : TS -> Prop.
Hypothesis human_ok : forall n, human n <> [] /\
  Forall (fun b => 32 <= b < 127 /\ b <> 42 /\ b <> 41 /\ b <> 58) (human n).
Hypothesis ts_roundtrip : forall t, ts_ok t ->
  Forall (fun b => 32 <= b < 127) (fmt_ts t) /\ parse_ts (str_trim (fmt_ts t)) = Some t.

Local Notation write_group_header := (TextModel.write_group_header human).
Local Notation write_group := (TextModel.write_group human).
Local Notation write_header := (TextModel.write_header human TS fmt_ts).
Local Notation write_text := (TextModel.write_text human TS fmt_ts).
Local Notation read_report := (TextModel.read_report TS parse_ts).
Local Notation header_ok := (header_ok TS ts_ok).
Local Notation gh_text := (gh_text human).

(* ---- the whole report ---- *)

Lemma lossy_cons_ascii b l : b < 128 -> lossy (b :: l) = [b] :: lossy l.
Proof.
  intros H. unfold lossy. change (b :: l) with ([b] ++ l).
  rewrite (seg_cons_good false [b] l (wf_ascii b H)). reflexivity.
Qed.

Lemma write_header_starts h : exists r, write_header h = 35 :: r.
Proof. unfold TextModel.write_header. eexists. reflexivity. Qed.

Lemma read_groups_app gs : Forall group_ok gs -> forall fuel st, (length gs < fuel)%nat ->
  read_groups fuel (flat_map write_group gs ++ st) =
  let (gs', e) := read_groups (fuel - length gs) st in (gs ++ gs', e).
Proof.
  induction 1 as [|g gs Hg Hgs IH]; intros fuel st Hf.
  - cbn [flat_map app length]. rewrite Nat.sub_0_r. destruct (read_groups fuel st). reflexivity.
  - destruct fuel; [cbn in Hf; lia|]. cbn [flat_map]. rewrite <- app_assoc.
    rewrite (read_group_ok human human_ok g _ _ Hg). rewrite IH by (cbn in Hf; lia).
    cbn [length Nat.sub]. destruct (read_groups (fuel - length gs) st). reflexivity.
Qed.

Lemma read_report_groups h st : header_ok h ->
  read_report (write_header h ++ st) =
  let (gs, e) := read_groups (S (length st)) st in RepText h gs e.
Proof.
  intros Hh. unfold TextModel.read_report. destruct (write_header_starts h) as [r Er].
  rewrite Er. cbn [app]. rewrite lossy_cons_ascii by lia.
  change (chr [35] 123) with false. change (chr [35] 35) with true. cbv iota.
  change (35 :: r ++ st) with ((35 :: r) ++ st). rewrite <- Er.
  rewrite (read_header_ok human TS fmt_ts parse_ts ts_ok human_ok ts_roundtrip h st Hh). reflexivity.
Qed.

Lemma text_roundtrip h gs : header_ok h -> Forall group_ok gs ->
  read_report (write_text h gs) = RepText h gs GEnd.
Proof.
  intros Hh Hg. unfold TextModel.write_text. rewrite (read_report_groups h _ Hh).
  rewrite (read_groups_ok human human_ok gs Hg); [reflexivity|].
  pose proof (groups_length human gs). lia.
Qed.

(* ---- truncation ---- *)

Definition group_lines (g : group) : list (list N) :=
  (gh_text g ++ [10]) :: map write_path_line (g_files g).

Lemma write_group_lines g : write_group g = concat (group_lines g).
Proof.
  unfold TextModel.write_group, group_lines. rewrite (write_group_header_eq human). cbn [concat]. f_equal.
  induction (g_files g) as [|p f IH]; [reflexivity|]. cbn [flat_map map concat]. rewrite IH. reflexivity.
Qed.

Lemma read_paths_eof m : read_paths (S m) [] = RPErr.
Proof. reflexivity. Qed.

Lemma strip_prefix_some p a b' : strip_prefix p a = Some b' -> a = p ++ b'.
Proof.
  revert a. induction p as [|q p IH]; intros a H; cbn in H; [injection H as <-; reflexivity|].
  destruct a as [|z a']; [discriminate|]. destruct (N.eqb_spec q z) as [->|]; [|discriminate].
  cbn [app]. f_equal. apply IH. assumption.
Qed.

(* an unterminated, non-empty last line is rejected (read_paths requires the line feed) *)
Lemma read_paths_partial x m : x <> [] -> ~ In 10 x -> read_paths (S m) x = RPErr.
Proof.
  intros Hx Hn. cbn [read_paths].
  destruct (read_line_tail x Hn) as [R|R]; rewrite R; [reflexivity|].
  destruct x as [|x0 xr]; [contradiction|]. cbv beta iota.
  replace (last (x0 :: xr) 0 =? 10) with false; [reflexivity|].
  symmetry. apply N.eqb_neq. intros E. apply Hn. rewrite <- E.
  destruct (@exists_last _ (x0 :: xr) ltac:(discriminate)) as [l' [z Ez]]. rewrite Ez, last_last.
  apply in_or_app. right. left. reflexivity.
Qed.

(* a proper prefix of a path line contains no line feed *)
Lemma path_line_prefix_no_nl p x y : path_ok p -> write_path_line p = x ++ y -> y <> [] -> ~ In 10 x.
Proof.
  intros Hp E Hy.
  destruct (path_line_props p Hp) as (e & Ee & Se & Ne).
  unfold write_path_line in E. rewrite Ee in E.
  destruct (@exists_last _ y Hy) as [y' [z Ey]]. subst y.
  assert (Ec : S_INDENT ++ 47 :: e = x ++ y').
  { change (S_INDENT ++ (47 :: e) ++ NL) with ((S_INDENT ++ 47 :: e) ++ [10]) in E.
    rewrite app_assoc in E. apply app_inj_tail in E as [E1 _]. exact E1. }
  assert (Hc : no_ctl (x ++ y')).
  { rewrite <- Ec. apply no_ctl_app. split; [repeat constructor; lia|assumption]. }
  apply no_ctl_app in Hc as [Hcx _]. apply no_ctl_not_in; [assumption|lia].
Qed.

(* complete lines of the first files, then the end of the stream or an unterminated rest *)
Lemma read_paths_cut : forall fs, Forall path_ok fs -> forall m x, ~ In 10 x -> (length fs < m)%nat ->
  read_paths m (flat_map write_path_line fs ++ x) = RPErr.
Proof.
  induction 1 as [|p fs Hp Hf IH]; intros m x Hn Hm.
  - cbn [flat_map app length] in *. destruct m as [|m]; [lia|].
    destruct x as [|x0 xr]; [reflexivity|]. apply read_paths_partial; [discriminate|assumption].
  - destruct m as [|m]; [cbn [length] in Hm; lia|].
    cbn [flat_map]. rewrite <- app_assoc, (read_path_line p _ _ Hp). rewrite IH; [reflexivity|assumption|].
    cbn [length] in Hm. lia.
Qed.

Lemma min_to_nat a b : N.to_nat (N.min (N.of_nat a) (N.of_nat b)) = Nat.min a b.
Proof. rewrite <- Nat2N.inj_min, Nat2N.id. reflexivity. Qed.

(* reading a group text that was cut anywhere strictly inside fails *)
Lemma read_cut_group g k fuel : group_ok g -> g_files g <> [] ->
  (0 < k < length (write_group g))%nat ->
  read_groups (S fuel) (firstn k (write_group g)) = ([], GErr).
Proof.
  intros Hg Hfne Hk. pose proof Hg as (Hne & Hb & Hlen & Hp & Hcnt).
  rewrite write_group_lines in *.
  destruct (firstn_concat (group_lines g) k ltac:(lia)) as (j & l & x & y & Hn & El & Hy & Hf & Ek).
  rewrite Hf. destruct j as [|j].
  - (* the cut is in the group header line *)
    cbn [group_lines nth_error] in Hn. injection Hn as <-. cbn [firstn concat app length] in *.
    assert (Hx : x <> []) by (intros ->; cbn in Ek; lia).
    destruct (@exists_last _ y Hy) as [y' [z Ey]]. subst y. rewrite app_assoc in El.
    apply app_inj_tail in El as [El <-].
    destruct (gh_text_shape human human_ok g Hg) as (b & t & Eg & Hxb & Hasc & H58).
    pose proof (is_hexl_lt _ Hxb) as Rb.
    destruct y' as [|y0 yr].
    + (* only the line feed is missing: the header is accepted, then the stream ends *)
      rewrite app_nil_r in El. subst x.
      cbn [read_groups]. cbn [length read_group_header].
      destruct (read_line_tail (gh_text g)) as [R|R].
      { apply no_ctl_not_in; [|lia]. rewrite Eg. eapply Forall_weaken; [|exact Hasc]. cbv beta. intros; lia. }
      { exfalso. unfold read_line in R. rewrite span_all in R.
        - cbn [fst] in R. rewrite (str_chars_ascii (gh_text g)) in R; [discriminate|].
          rewrite Eg. eapply Forall_weaken; [|exact Hasc]. cbv beta. intros; lia.
        - apply Forall_forall. intros c Hc. apply negb_true_iff, N.eqb_neq. intros ->.
          rewrite Eg in Hc. rewrite Forall_forall in Hasc. specialize (Hasc 10 Hc). lia. }
      rewrite R.
      assert (Et : str_trim (gh_text g) = gh_text g).
      { rewrite Eg. unfold str_trim. rewrite str_chars_ascii.
        2:{ eapply Forall_weaken; [|exact Hasc]. cbv beta. intros; lia. }
        cbn [single map]. rewrite trim_start_id by (apply ws_false_range; lia).
        change ([b] :: map (fun y => [y]) (t ++ [58])) with ([b] :: single (t ++ [58])).
        rewrite single_app. cbn [single map]. rewrite app_comm_cons.
        rewrite trim_end_hit; [|apply ws_false_range; lia|constructor].
        rewrite concat_app. cbn [concat app]. fold (single t). rewrite concat_single, ?app_nil_r. reflexivity. }
      rewrite Et. rewrite Eg at 1.
      replace (b =? 35) with false by (symmetry; apply N.eqb_neq; intros ->; vm_compute in Hxb; discriminate).
      rewrite <- (app_nil_r (gh_text g)) at 1. rewrite (re_group_header_ok human human_ok g [] Hg).
      rewrite (hex_roundtrip _ Hb), (parse_u64_dec _ Hlen), (parse_u64_dec _ Hcnt).
      cbn [length]. rewrite min_to_nat.
      destruct (g_files g) as [|f0 fr]; [contradiction|]. cbn [length Nat.min]. reflexivity.
    + (* a proper prefix of the header text: no colon *)
      assert (Hpre : exists t', b :: t = x ++ t').
      { rewrite Eg in El. destruct (@exists_last _ (y0 :: yr) ltac:(discriminate)) as [w [z Ew]].
        rewrite Ew, app_assoc in El. change (b :: t ++ [58]) with ((b :: t) ++ [58]) in El.
        apply app_inj_tail in El as [El _]. exists w. exact El. }
      destruct Hpre as [t' Et'].
      destruct x as [|x0 xr]; [contradiction|]. cbn [app] in Et'. injection Et' as <- Et'.
      assert (Hax : Forall (fun c => 32 <= c < 128) (b :: xr)).
      { pose proof (Forall_inv Hasc) as A1. pose proof (Forall_inv_tail Hasc) as A2. constructor; [assumption|].
        rewrite Et', <- app_assoc in A2. apply Forall_app in A2 as [A2 _]. exact A2. }
      cbn [read_groups]. cbn [read_group_header].
      destruct (read_line_tail (b :: xr)) as [R|R].
      { apply no_ctl_not_in; [|lia]. eapply Forall_weaken; [|exact Hax]. cbv beta. intros; lia. }
      { rewrite R. reflexivity. }
      rewrite R.
      destruct (str_trim_head b xr) as [tt [Ett Hin]].
      { eapply Forall_weaken; [|exact Hax]. cbv beta. intros; lia. }
      { apply ws_false_range. lia. }
      rewrite Ett.
      replace (b =? 35) with false by (symmetry; apply N.eqb_neq; intros ->; vm_compute in Hxb; discriminate).
      destruct (re_group_header (b :: tt)) as [r|] eqn:Er; [|reflexivity].
      exfalso. apply re_group_header_colon in Er. apply H58. destruct Er as [E|Hi]; [left; exact E|].
      right. rewrite Et'. apply in_or_app. left. apply Hin. exact Hi.
  - (* the header line is complete, j-1 further lines are complete, x is part of path line j *)
    cbn [group_lines nth_error firstn concat] in *.
    rewrite nth_error_map in Hn.
    destruct (nth_error (g_files g) j) as [p|] eqn:Enp; [|discriminate]. cbn in Hn. injection Hn as <-.
    rewrite firstn_map in *.
    assert (Hcat : forall fs, concat (map write_path_line fs) = flat_map write_path_line fs).
    { induction fs as [|a fs IHf]; [reflexivity|]. cbn. rewrite IHf. reflexivity. }
    rewrite Hcat in *.
    rewrite <- (app_assoc (gh_text g ++ [10])).
    rewrite <- (write_group_header_eq human g).
    cbn [read_groups]. rewrite (read_group_header_ok human human_ok g _ _ Hg).
    assert (Hjl : (j < length (g_files g))%nat) by (apply nth_error_Some; congruence).
    assert (Hpj : path_ok p).
    { rewrite Forall_forall in Hp. apply Hp. eapply nth_error_In; eassumption. }
    assert (Hfj : Forall path_ok (firstn j (g_files g))).
    { apply Forall_forall. intros q Hq. rewrite Forall_forall in Hp. apply Hp.
      rewrite <- (firstn_skipn j (g_files g)). apply in_or_app. left. exact Hq. }
    assert (Hlj : length (firstn j (g_files g)) = j) by (rewrite firstn_length; lia).
    rewrite min_to_nat.
    rewrite read_paths_cut; [reflexivity|assumption| |].
    + apply (path_line_prefix_no_nl p x y Hpj); [exact El|assumption].
    + rewrite Hlj. rewrite app_length.
      pose proof (path_lines_length (firstn j (g_files g))) as Hpl. rewrite Hlj in Hpl.
      apply Nat.min_glb_lt; lia.
Qed.

Lemma truncation h gs g k : header_ok h -> Forall group_ok gs -> group_ok g -> g_files g <> [] ->
  (0 < k < length (write_group g))%nat ->
  read_report (write_header h ++ flat_map write_group gs ++ firstn k (write_group g)) = RepText h gs GErr.
Proof.
  intros Hh Hgs Hg Hf Hk. rewrite (read_report_groups h _ Hh).
  rewrite (read_groups_app gs Hgs).
  2:{ rewrite app_length. pose proof (groups_length human gs). lia. }
  rewrite app_length.
  pose proof (groups_length human gs) as Hl.
  destruct (S (length (flat_map write_group gs) + length (firstn k (write_group g))) - length gs)%nat as [|fuel] eqn:Ef; [lia|].
  rewrite (read_cut_group g k fuel Hg Hf Hk). rewrite app_nil_r. reflexivity.
Qed.

End Truncation.

(* ------------------------------------------------------------------------------------------ *)
(* a concrete instance of the parameters (used for the K4 witness and the non-vacuity examples):
   sizes printed as "<n> B", a one-value timestamp type printed as "T" *)

Definition human_demo (n : N) : list N := dec n ++ [32; 66].

Lemma human_demo_ok : forall n, human_demo n <> [] /\
  Forall (fun b => 32 <= b < 127 /\ b <> 42 /\ b <> 41 /\ b <> 58) (human_demo n).
Proof.
  intros n. unfold human_demo. destruct (dec_props n) as [Hne Hd]. apply digits_range in Hd. split.
  - destruct (dec n); [contradiction|discriminate].
  - apply Forall_app. split; [|repeat constructor; lia].
    eapply Forall_weaken; [|exact Hd]. cbv beta. intros; lia.
Qed.

Definition fmt_demo (t : unit) : list N := [84].
Definition parse_demo (l : list N) : option unit := Some tt.

Lemma ts_demo_ok : forall t : unit, True ->
  Forall (fun b => 32 <= b < 127) (fmt_demo t) /\ parse_demo (str_trim (fmt_demo t)) = Some t.
Proof. intros [] _. split; [repeat constructor; lia|reflexivity]. Qed.

Lemma json_path_roundtrip p : path_ok p -> path_from_escaped (path_to_escaped p) = POk p.
Proof. apply path_decode_encode. Qed.

(* K4 regression (see Props_C10.v): the old witness — group with the one path /ab, cut before the final "b" and
   the line feed — and a hand-edited report whose last path line merely lacks its line feed *)
Definition k4_header : header unit :=
  @mkHeader unit [48; 46; 51; 53; 46; 48] tt [[102; 99]; [97; 32; 98]] [47; 119]
           (Some (mkStats 1 1 7 0 0 0 0)).
Definition k4_group : group := mkGroup [73; 22] 7 [[47; 97; 98]].
