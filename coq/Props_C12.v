(* Props_C12.v — property C12: the hash cache never changes results.
   Statements only; every proof is `exact <lemma of CacheProofs*>`.

   Quantification: ANY hash function H and transform T (parameters), any initial world w0, any
   history h of unbounded length whose events are edits (create / rewrite same or other length /
   append / truncate / touch / rename / unlink and re-create with the same inode number / hard
   link), runs `EvRun a tr p` of `group --cache` with any algorithm a, any transform configuration
   tr and ANY program p of hasher calls (any chunk positions and lengths = any prefix/suffix size;
   what is asked next may depend on every earlier answer; p may stop anywhere = interrupted run),
   and `EvLose` (any subset of the entries is lost: crash before the flush).

   Hypotheses (they appear in the statements):
     stamp_determines  at any two moments of the history, equal (dev, ino, ms AS THE CACHE COMPUTES
                       IT = rounded towards zero, length) => equal content.  This is the property's proviso ("each content
                       change also changes the mtime at ms resolution or the length"), read over
                       pairs of moments so that it also covers inode reuse.  It EXCLUDES: a same-size
                       rewrite that keeps the mtime within the same millisecond (excluded_same_ms
                       below shows the stale answer), setting an old mtime back onto other content of
                       the same size (KC4 below: the step-by-step reading of the proviso allows it), `cp -p`
                       onto a reused inode with equal length.  C12_same_result_hashed_moments weakens it to
                       collisions between a HASHED moment and the present.
     nul_free          the transform command strings contain no NUL byte (they are command line arguments);
                       with it "the tree id determines the transform configuration" is a theorem
                       (C12_tree_id_injective), no longer a hypothesis.
   Modelling assumptions (not hypotheses of the theorems, see notes/K.md): the world does not change
   during a run (no write between the stat and the read of one call); T is a function of the file
   content only; a hasher with a transform is only asked hash_transformed, one without only
   hash_file (group.rs); I/O failures are a field of the call (c_io) and `nofail` restricts the
   comparison to calls whose read succeeds (a cache hit answers without reading).

   History: three defect classes were found with this model and are repaired in /repo; the model follows the
   repaired code and they are regression Examples below: KC1 every mtime before 1970 stored as 0 ms (db63622),
   KC2 --in-place / --no-copy missing from the tree id (2b878ef), KC3 transform ids that coincided ("<none>",
   flag text inside the command) (ea68843: the parts of the id are now separated by NUL).
   Rounding (an observation, not a finding): timestamp_ms rounds TOWARDS ZERO, so (-1 ms, +1 ms) is one stamp and a
   whole negative millisecond shares its stamp with the 1 ms below it; `stamp_determines` is stated with that
   value.  The form with the mtime rounded DOWN needs `preepoch_whole_ms` (C12_same_result_rounded_down);
   C12_epoch_bucket shows why. *)
From FV Require Import Base CacheModel CacheProofs CacheProofs2 CacheProofs3 CacheProofs4.
Open Scope N_scope.

(* Invariant over unbounded histories: after any prefix h1 of the history, every entry
   (tree, (id, pos, len)) -> (mt, fl, dl, hash) of the cache is correct — hash = H a (chunk pos len data)
   and dl = len (no transform), resp. dl = |T data| and hash = H a (T data) (transform) — for EVERY
   configuration (a, tr) of the history that maps to that tree and EVERY moment of the whole history
   (earlier or later) at which inode id has the stamp (mt, fl). *)
Theorem C12_entries_valid :
  forall (H : N -> bytes -> hashv) (T : tconf -> bytes -> option bytes) (h : list event) (w0 : world),
  stamp_determines (moments H T ([], w0) h) -> nul_free (confs h) ->
  forall h1 h2, h = h1 ++ h2 ->
  forall t k e, In ((t, k), e) (fst (exec H T ([], w0) h1)) ->
  forall a tr, In (a, tr) (confs h) -> tree_of a tr = t ->
  forall w i, In w (moments H T ([], w0) h) -> inode_of w (key_id k) = Some i ->
    code_ms (i_mtime i) = e_mt e -> nlen (i_data i) = e_fl e ->
    match tr with
    | None => e_h e = H a (chunk (key_pos k) (key_len k) (i_data i)) /\ e_dl e = key_len k
    | Some cf => key_pos k = 0 /\ exists d', T cf (i_data i) = Some d' /\ e_dl e = nlen d' /\ e_h e = H a d'
    end.
Proof. exact entries_valid_nul_free. Qed.
Print Assumptions C12_entries_valid.

(* At every moment (after any history), a run with ANY configuration (a, tr) of ANY program of
   hasher calls gets from the cached hasher exactly the answers of the uncached hasher; hence
   every function of the hashes — group_files is one such program p — returns the same result
   with and without --cache.  Earlier runs with other algorithms / transforms / chunk sizes,
   renames, links, interrupted runs and lost entries are all inside h. *)
Theorem C12_same_result :
  forall (H : N -> bytes -> hashv) (T : tconf -> bytes -> option bytes)
         (h : list event) (w0 : world) (a : N) (tr : option tconf) (R : Type) (p : prog R),
  stamp_determines (moments H T ([], w0) h) -> nul_free ((a, tr) :: confs h) -> nofail p ->
  fst (run_cached H T a tr p (fst (exec H T ([], w0) h)) (snd (exec H T ([], w0) h)))
  = run_plain H T a tr p (snd (exec H T ([], w0) h)).
Proof. exact same_result_nul_free. Qed.
Print Assumptions C12_same_result.

(* The sharp form of the proviso for the unmodified code: only a collision between a moment at which SOME RUN HASHED
   (the only possible origin of an entry) and the present can matter.  Strictly weaker hypothesis than
   stamp_determines: stamps may return to values they had in states that no run ever saw. *)
Theorem C12_same_result_hashed_moments :
  forall (H : N -> bytes -> hashv) (T : tconf -> bytes -> option bytes)
         (h : list event) (w0 : world) (a : N) (tr : option tconf) (R : Type) (p : prog R),
  (forall w1 w2 id i1 i2, In w1 (run_moments H T ([], w0) h) -> In w2 [snd (exec H T ([], w0) h)] ->
     inode_of w1 id = Some i1 -> inode_of w2 id = Some i2 ->
     code_ms (i_mtime i1) = code_ms (i_mtime i2) -> nlen (i_data i1) = nlen (i_data i2) -> i_data i1 = i_data i2) ->
  nul_free ((a, tr) :: confs h) -> nofail p ->
  fst (run_cached H T a tr p (fst (exec H T ([], w0) h)) (snd (exec H T ([], w0) h)))
  = run_plain H T a tr p (snd (exec H T ([], w0) h)).
Proof. exact same_result_hashed_moments_nul_free. Qed.
Print Assumptions C12_same_result_hashed_moments.

(* The same with the mtime rounded DOWN to milliseconds (the usual reading of "millisecond resolution"). *)
Theorem C12_same_result_rounded_down :
  forall (H : N -> bytes -> hashv) (T : tconf -> bytes -> option bytes)
         (h : list event) (w0 : world) (a : N) (tr : option tconf) (R : Type) (p : prog R),
  mtime_determines (moments H T ([], w0) h) ->
  preepoch_whole_ms (moments H T ([], w0) h) ->
  nul_free ((a, tr) :: confs h) ->
  nofail p ->
  fst (run_cached H T a tr p (fst (exec H T ([], w0) h)) (snd (exec H T ([], w0) h)))
  = run_plain H T a tr p (snd (exec H T ([], w0) h)).
Proof. exact same_result_rounded_down. Qed.
Print Assumptions C12_same_result_rounded_down.

(* The tree id determines the configuration: among configurations whose command strings are NUL-free, equal sled
   trees mean equal (algorithm, command, in_place, copy) — in particular a transform never shares the tree of
   "no transform". *)
Theorem C12_tree_id_injective : forall cs, nul_free cs ->
  forall a1 t1 a2 t2, In (a1, t1) cs -> In (a2, t2) cs -> tree_of a1 t1 = tree_of a2 t2 -> a1 = a2 /\ t1 = t2.
Proof.
  exact (fun cs Hn a1 t1 a2 t2 I1 I2 E => conj (tree_of_algo a1 t1 a2 t2 E) (nul_free_no_alias cs Hn a1 t1 a2 t2 I1 I2 E)).
Qed.
Print Assumptions C12_tree_id_injective.

(* Why switching algorithm / transform / prefix-suffix sizes cannot matter: an entry is served only
   for the same tree, the same (file id, chunk position, chunk length) and the same (ms, length). *)
Theorem C12_get_put : forall t k m c t' k' m' dl h,
  cache_get t k m (cache_put t' k' m' dl h c) =
  if tree_eqb t t' && key_eqb k k'
  then (if Z.eqb (code_ms (m_mtime m')) (code_ms (m_mtime m)) && (m_len m' =? m_len m) then Some (dl, h) else None)
  else cache_get t k m c.
Proof. exact cache_get_put. Qed.
Print Assumptions C12_get_put.

(* the flags printed by the model driver and used by the check to classify a case are sound *)
Theorem C12_checkers_sound : forall ws,
  (stamp_determines_b ws = true -> stamp_determines ws) /\
  (mtime_determines_b ws = true -> mtime_determines ws) /\
  (preepoch_fraction_b ws = false -> preepoch_whole_ms ws).
Proof.
  exact (fun ws => conj (stamp_determines_b_sound ws) (conj (mtime_determines_b_sound ws) (preepoch_fraction_b_sound ws))).
Qed.
Print Assumptions C12_checkers_sound.

(* ---- KC4, the limit of the guarantee: RETURNING STAMPS.  If the proviso is read step by step ("each content change
        changes the mtime or length relative to the state before it": stepwise_b) instead of pairwise, a touch followed
        by a same-size rewrite that sets the first mtime back satisfies it, and the entry of the first state is served
        unless something re-hashed the same key in between. ---- *)
Lemma C12_KC4_witness :
  stepwise_b (moments Hx Tid ([], empty_world) hRet) = true /\
  stamp_determines_b (moments Hx Tid ([], empty_world) hRet) = false /\
  nofail (probe 1 0 3) /\
  cached_answer Hx Tid hRet 0 None (probe 1 0 3) = RHash (Hx 0 [97; 98; 99]) /\
  plain_answer Hx Tid hRet 0 None (probe 1 0 3) = RHash (Hx 0 [97; 98; 100]).
Proof. exact returning_stamp_stale. Qed.

(* The stored stamp on the machine type.  cache.rs computes `as_millis() as u64` (at or after the epoch) or
   `(as_millis() as u64).wrapping_neg()` (before it); the model keeps the signed millisecond count code_ms.  For every mtime
   within 2^63 ms of the epoch the u64, read as a two's complement number, IS code_ms, and two mtimes get the same u64 stamp iff
   they agree in code_ms: the validation `stamp equal /\ length equal` of HashCache::get compares exactly what the model
   compares (a stamp that mixes units - seconds * 1000 + microseconds - does not: CacheProofs4.mixed_units_not_injective). *)
Theorem C12_stamp_u64_is_code_ms :
  forall mt, in_range mt -> signed64 (stamp_u64 mt) = code_ms mt.
Proof. exact stamp_u64_signed. Qed.
Print Assumptions C12_stamp_u64_is_code_ms.

Theorem C12_stamp_u64_injective :
  forall a b, in_range a -> in_range b -> (stamp_u64 a = stamp_u64 b <-> code_ms a = code_ms b).
Proof. exact stamp_u64_injective. Qed.
Print Assumptions C12_stamp_u64_injective.

Example C12_stamp_u64_inhabited :
  in_range 1700000000123456789 /\ in_range (-1500000) /\
  stamp_u64 1700000000123456789 = 1700000000123%Z /\
  stamp_u64 (-1500000) = 18446744073709551615%Z /\ code_ms (-1500000) = (-1)%Z /\
  stamp_u64 (-999999) = 0%Z /\ stamp_u64 999999 = 0%Z.
Proof. exact stamp_u64_examples. Qed.

(* run; touch; run; rewrite with the first mtime; run — safe, because put overwrote the entry in the touched state *)
Example C12_returning_stamp_refreshed :
  stepwise_b (moments Hx Tid ([], empty_world) hRetRefreshed) = true /\
  stamp_determines_b (moments Hx Tid ([], empty_world) hRetRefreshed) = false /\
  lookup (tree_of 0 None) (id7, 0, 3) (fst (state_after hRetRefreshed)) = Some (mkE 6%Z 3 3 (Hx 0 [97; 98; 99])) /\
  cached_answer Hx Tid hRetRefreshed 0 None (probe 1 0 3) = plain_answer Hx Tid hRetRefreshed 0 None (probe 1 0 3).
Proof. exact returning_stamp_refreshed. Qed.

(* ... but stale again when the refreshing write was lost in a crash, or the middle run used another algorithm *)
Example C12_returning_stamp_not_refreshed :
  cached_answer Hx Tid hRetLost 0 None (probe 1 0 3) = RHash (Hx 0 [97; 98; 99]) /\
  plain_answer Hx Tid hRetLost 0 None (probe 1 0 3) = RHash (Hx 0 [97; 98; 100]) /\
  stepwise_b (moments Hx Tid ([], empty_world) hRetOtherAlgo) = true /\
  cached_answer Hx Tid hRetOtherAlgo 0 None (probe 1 0 3) = RHash (Hx 0 [97; 98; 99]) /\
  plain_answer Hx Tid hRetOtherAlgo 0 None (probe 1 0 3) = RHash (Hx 0 [97; 98; 100]).
Proof. exact returning_stamp_not_refreshed. Qed.

(* a stamp returning to a state that no run hashed: pairwise hypothesis false, the sharp one true, answers equal *)
Example C12_returning_stamp_unhashed :
  stamp_determines_b (moments Hx Tid ([], empty_world) hRetUnhashed) = false /\
  stamp_det2 (run_moments Hx Tid ([], empty_world) hRetUnhashed) [snd (state_after hRetUnhashed)] /\
  cached_answer Hx Tid hRetUnhashed 0 None (probe 1 0 3) = plain_answer Hx Tid hRetUnhashed 0 None (probe 1 0 3).
Proof. exact returning_stamp_unhashed. Qed.

(* ---- regression examples for the repaired classes ---- *)
(* mtimes before the epoch get distinct (negative) stamps: the rewrite from -5 s to -9 s is seen *)
Example C12_preepoch_distinct :
  stamp_determines (moments Hx Tid ([], empty_world) hK1) /\
  lookup (tree_of 0 None) (id7, 0, 1) (fst (exec Hx Tid ([], empty_world) hK1)) = Some (mkE (-5000)%Z 1 1 (Hx 0 [97])) /\
  cached_answer Hx Tid hK1 0 None (probe 1 0 1) = RHash (Hx 0 [98]) /\
  plain_answer Hx Tid hK1 0 None (probe 1 0 1) = RHash (Hx 0 [98]).
Proof. exact ex_preepoch. Qed.

(* the same command with and without --in-place: two trees, no stale answer although the transforms differ *)
Example C12_inplace_switch :
  tree_of 0 (Some (sedc true)) <> tree_of 0 (Some (sedc false)) /\
  nul_free ((0, Some (sedc true)) :: confs hK2) /\
  Tip (sedc true) [97; 98] <> Tip (sedc false) [97; 98] /\
  cached_answer Hx Tip hK2 0 (Some (sedc true)) (probe 1 0 2) = plain_answer Hx Tip hK2 0 (Some (sedc true)) (probe 1 0 2).
Proof. exact ex_inplace_switch. Qed.

(* a command that reads "<none>" has its own tree *)
Example C12_none_named :
  tree_of 0 (Some nonec) <> tree_of 0 None /\
  nul_free ((0, Some nonec) :: confs hK3) /\
  cached_answer Hx Thead hK3 0 (Some nonec) (probe 1 0 2) = plain_answer Hx Thead hK3 0 (Some nonec) (probe 1 0 2).
Proof. exact ex_none_named. Qed.

(* 's $IN --in-place' as the command vs 's $IN' with --in-place: two trees *)
Example C12_flag_text :
  tree_of 0 (Some cA) <> tree_of 0 (Some cB) /\
  nul_free ((0, Some cB) :: confs hK3b) /\
  Tip cA [97; 98] <> Tip cB [97; 98] /\
  cached_answer Hx Tip hK3b 0 (Some cB) (probe 1 0 2) = plain_answer Hx Tip hK3b 0 (Some cB) (probe 1 0 2).
Proof. exact ex_flag_text. Qed.

(* the 2 ms wide stamp around the epoch: different milliseconds when rounded down, one stamp for the cache *)
Example C12_epoch_bucket :
  mtime_determines_b (moments Hx Tid ([], empty_world) hEpoch) = true /\
  stamp_determines_b (moments Hx Tid ([], empty_world) hEpoch) = false /\
  preepoch_fraction_b (moments Hx Tid ([], empty_world) hEpoch) = true /\
  cached_answer Hx Tid hEpoch 0 None (probe 1 0 1) = RHash (Hx 0 [97]) /\
  plain_answer Hx Tid hEpoch 0 None (probe 1 0 1) = RHash (Hx 0 [98]).
Proof. exact epoch_bucket. Qed.

(* ---- what the proviso excludes: same-size rewrite inside the same millisecond -> stale answer ---- *)
Example C12_proviso_is_needed :
  stamp_determines_b (moments Hx Tid ([], empty_world) hSame) = false /\
  cached_answer Hx Tid hSame 0 None (probe 1 0 3) = RHash (Hx 0 [97; 98; 99]) /\
  plain_answer Hx Tid hSame 0 None (probe 1 0 3) = RHash (Hx 0 [97; 98; 100]).
Proof. exact excluded_same_ms. Qed.

(* ---- non-vacuity: the hypotheses hold in histories where the cache is really consulted ---- *)
(* same-size rewrite that changes the mtime: the old entry stays in the map and is not served *)
Example C12_rewrite_invalidates :
  stamp_determines (moments Hx Tid ([], empty_world) hRewrite) /\
  tree_faithful Tid ((0, None) :: confs hRewrite) /\
  lookup (tree_of 0 None) (id7, 0, 3) (fst (state_after hRewrite)) = Some (mkE 5%Z 3 3 (Hx 0 [97; 98; 99])) /\
  (exists m, meta_of (snd (state_after hRewrite)) 1 = Some m /\
             cache_get (tree_of 0 None) (id7, 0, 3) m (fst (state_after hRewrite)) = None) /\
  cached_answer Hx Tid hRewrite 0 None (probe 1 0 3) = RHash (Hx 0 [97; 98; 100]).
Proof. exact ex_rewrite_invalidated. Qed.

(* rename: the entry is served under the new name, the run stores nothing *)
Example C12_rename_reuses :
  stamp_determines (moments Hx Tid ([], empty_world) hRename) /\
  (exists m, meta_of (snd (state_after hRename)) 2 = Some m /\
             cache_get (tree_of 0 None) (id7, 0, 3) m (fst (state_after hRename)) = Some (3, Hx 0 [97; 98; 99])) /\
  snd (run_cached Hx Tid 0 None (probe 2 0 3) (fst (state_after hRename)) (snd (state_after hRename))) = fst (state_after hRename) /\
  cached_answer Hx Tid hRename 0 None (probe 2 0 3) = plain_answer Hx Tid hRename 0 None (probe 2 0 3).
Proof. exact ex_rename_reused. Qed.

(* inode reuse: unlink, then another file gets the same inode number with another mtime *)
Example C12_inode_reuse :
  stamp_determines (moments Hx Tid ([], empty_world) hReuse) /\
  lookup (tree_of 0 None) (id7, 0, 3) (fst (state_after hReuse)) = Some (mkE 5%Z 3 3 (Hx 0 [97; 98; 99])) /\
  cached_answer Hx Tid hReuse 0 None (probe 2 0 3) = RHash (Hx 0 [120; 121; 122]).
Proof. exact ex_inode_reuse. Qed.

(* algorithm / transform / chunk-size switches, hard link, interrupted run, lost entries, append, truncate, touch *)
Example C12_switches :
  stamp_determines (moments Hx Tid ([], empty_world) hSwitch) /\
  tree_faithful Tid ((2, None) :: confs hSwitch) /\
  length (fst (state_after hSwitch)) = 4%nat /\
  cached_answer Hx Tid hSwitch 2 None (probe 3 0 4) = RHash (Hx 2 [97; 98]).
Proof. exact ex_switches. Qed.
