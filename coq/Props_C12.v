(* Props_C12.v — property C12: the hash cache never changes results.
   Statements only; every proof is `exact <lemma of CacheProofs*>`.

   Quantification: ANY hash function H and transform T (parameters), any initial world w0, any
   history h of unbounded length whose events are edits (create / rewrite same or other length /
   append / truncate / touch / rename / unlink and re-create with the same inode number / hard
   link), runs `EvRun a tr p` of `group --cache` with any algorithm a, any transform configuration
   tr and ANY program p of hasher calls (any chunk positions and lengths = any prefix/suffix size;
   what is asked next may depend on every earlier answer; p may stop anywhere = interrupted run),
   and `EvLose` (any subset of the entries is lost: crash before the flush).

   Hypotheses (they appear in the statements):
     stamp_determines  at any two moments of the history, equal (dev, ino, ms AS THE CACHE COMPUTES
                       IT, length) => equal content.  This is the property's proviso ("each content
                       change also changes the mtime at ms resolution or the length"), read over
                       pairs of moments so that it also covers inode reuse.  It EXCLUDES: a same-size
                       rewrite that keeps the mtime within the same millisecond (excluded_same_ms
                       below shows the stale answer), setting an old mtime back, `cp -p` onto a
                       reused inode with equal length.
     tree_faithful     configurations that map to the same sled tree denote the same transform.
   Modelling assumptions (not hypotheses of the theorems, see notes/K.md): the world does not change
   during a run (no write between the stat and the read of one call); T is a function of the file
   content only; a hasher with a transform is only asked hash_transformed, one without only
   hash_file (group.rs); I/O failures are a field of the call (c_io) and `nofail` restricts the
   comparison to calls whose read succeeds (a cache hit answers without reading).

   Found while modelling (confirmed on the real binary, see notes/K.md): the property as worded fails in
   three classes, each with a witness below and excluded by an explicit hypothesis in
   C12_same_result_except_K:
     KC1  mtimes before 1970 are all stored as 0 ms      (~ no_preepoch)
     KC2  --in-place is not part of the tree id          (~ flags_irrelevant)
     KC3  a transform command "<none>" aliases the tree of "no transform"   (~ no_none_cmd)  *)
From FV Require Import Base CacheModel CacheProofs CacheProofs2 CacheProofs3.
Open Scope N_scope.

(* Invariant over unbounded histories: after any prefix h1 of the history, every entry
   (tree, (id, pos, len)) -> (mt, fl, dl, hash) of the cache is correct — hash = H a (chunk pos len data)
   and dl = len (no transform), resp. dl = |T data| and hash = H a (T data) (transform) — for EVERY
   configuration (a, tr) of the history that maps to that tree and EVERY moment of the whole history
   (earlier or later) at which inode id has the stamp (mt, fl). *)
Theorem C12_entries_valid :
  forall (H : N -> bytes -> hashv) (T : tconf -> bytes -> option bytes) (h : list event) (w0 : world),
  stamp_determines (moments H T ([], w0) h) -> tree_faithful T (confs h) ->
  forall h1 h2, h = h1 ++ h2 ->
  forall t k e, In ((t, k), e) (fst (exec H T ([], w0) h1)) ->
  forall a tr, In (a, tr) (confs h) -> tree_of a tr = t ->
  forall w i, In w (moments H T ([], w0) h) -> inode_of w (key_id k) = Some i ->
    code_ms (i_mtime i) = e_mt e -> nlen (i_data i) = e_fl e ->
    match tr with
    | None => e_h e = H a (chunk (key_pos k) (key_len k) (i_data i)) /\ e_dl e = key_len k
    | Some cf => key_pos k = 0 /\ exists d', T cf (i_data i) = Some d' /\ e_dl e = nlen d' /\ e_h e = H a d'
    end.
Proof. exact entries_valid_reachable. Qed.
Print Assumptions C12_entries_valid.

(* At every moment (after any history), a run with ANY configuration (a, tr) of ANY program of
   hasher calls gets from the cached hasher exactly the answers of the uncached hasher; hence
   every function of the hashes — group_files is one such program p — returns the same result
   with and without --cache.  Earlier runs with other algorithms / transforms / chunk sizes,
   renames, links, interrupted runs and lost entries are all inside h. *)
Theorem C12_same_result :
  forall (H : N -> bytes -> hashv) (T : tconf -> bytes -> option bytes)
         (h : list event) (w0 : world) (a : N) (tr : option tconf) (R : Type) (p : prog R),
  stamp_determines (moments H T ([], w0) h) -> tree_faithful T ((a, tr) :: confs h) -> nofail p ->
  fst (run_cached H T a tr p (fst (exec H T ([], w0) h)) (snd (exec H T ([], w0) h)))
  = run_plain H T a tr p (snd (exec H T ([], w0) h)).
Proof. exact same_result. Qed.
Print Assumptions C12_same_result.

(* The same from the property's own wording of the proviso (the REAL millisecond mtime), outside
   the three classes KC1-KC3. *)
Theorem C12_same_result_except_K :
  forall (H : N -> bytes -> hashv) (T : tconf -> bytes -> option bytes)
         (h : list event) (w0 : world) (a : N) (tr : option tconf) (R : Type) (p : prog R),
  mtime_determines (moments H T ([], w0) h) ->
  no_preepoch (moments H T ([], w0) h) ->
  no_none_cmd ((a, tr) :: confs h) -> flags_irrelevant T ((a, tr) :: confs h) ->
  nofail p ->
  fst (run_cached H T a tr p (fst (exec H T ([], w0) h)) (snd (exec H T ([], w0) h)))
  = run_plain H T a tr p (snd (exec H T ([], w0) h)).
Proof. exact same_result_except_K. Qed.
Print Assumptions C12_same_result_except_K.

(* Why switching algorithm / transform / prefix-suffix sizes cannot matter: an entry is served only
   for the same tree, the same (file id, chunk position, chunk length) and the same (ms, length). *)
Theorem C12_get_put : forall t k m c t' k' m' dl h,
  cache_get t k m (cache_put t' k' m' dl h c) =
  if tree_eqb t t' && key_eqb k k'
  then (if (code_ms (m_mtime m') =? code_ms (m_mtime m)) && (m_len m' =? m_len m) then Some (dl, h) else None)
  else cache_get t k m c.
Proof. exact cache_get_put. Qed.
Print Assumptions C12_get_put.

(* the flags printed by the model driver and used by the check to classify a case are sound *)
Theorem C12_checkers_sound : forall ws,
  (stamp_determines_b ws = true -> stamp_determines ws) /\
  (mtime_determines_b ws = true -> mtime_determines ws) /\
  (preepoch_b ws = false -> no_preepoch ws).
Proof. exact (fun ws => conj (stamp_determines_b_sound ws) (conj (mtime_determines_b_sound ws) (preepoch_b_sound ws))). Qed.
Print Assumptions C12_checkers_sound.

(* ---- witnesses: the three classes really break the property as worded (hypotheses of
        C12_same_result_except_K all hold except the named one, and the answers differ) ---- *)
Lemma C12_KC1_witness :
  mtime_determines (moments Hx Tid ([], empty_world) hK1) /\
  no_none_cmd ((0, None) :: confs hK1) /\ flags_irrelevant Tid ((0, None) :: confs hK1) /\
  nofail (probe 1 0 1) /\
  ~ no_preepoch (moments Hx Tid ([], empty_world) hK1) /\
  cached_answer Hx Tid hK1 0 None (probe 1 0 1) <> plain_answer Hx Tid hK1 0 None (probe 1 0 1).
Proof. exact KC1_witness. Qed.

Lemma C12_KC2_witness :
  mtime_determines (moments Hx Tip ([], empty_world) hK2) /\ no_preepoch (moments Hx Tip ([], empty_world) hK2) /\
  no_none_cmd ((0, Some (sedc true)) :: confs hK2) /\
  nofail (probe 1 0 2) /\
  (t_cmd (sedc true) = t_cmd (sedc false) /\ Tip (sedc true) [97; 98] <> Tip (sedc false) [97; 98]) /\
  cached_answer Hx Tip hK2 0 (Some (sedc true)) (probe 1 0 2) <> plain_answer Hx Tip hK2 0 (Some (sedc true)) (probe 1 0 2).
Proof. exact KC2_witness. Qed.

Lemma C12_KC3_witness :
  mtime_determines (moments Hx Thead ([], empty_world) hK3) /\ no_preepoch (moments Hx Thead ([], empty_world) hK3) /\
  flags_irrelevant Thead ((0, Some nonec) :: confs hK3) /\
  nofail (probe 1 0 2) /\
  t_cmd nonec = none_str /\
  cached_answer Hx Thead hK3 0 (Some nonec) (probe 1 0 2) <> plain_answer Hx Thead hK3 0 (Some nonec) (probe 1 0 2).
Proof. exact KC3_witness. Qed.

(* ---- what the proviso excludes: same-size rewrite inside the same millisecond -> stale answer ---- *)
Example C12_proviso_is_needed :
  stamp_determines_b (moments Hx Tid ([], empty_world) hSame) = false /\
  cached_answer Hx Tid hSame 0 None (probe 1 0 3) = RHash (Hx 0 [97; 98; 99]) /\
  plain_answer Hx Tid hSame 0 None (probe 1 0 3) = RHash (Hx 0 [97; 98; 100]).
Proof. exact excluded_same_ms. Qed.

(* ---- non-vacuity: the hypotheses hold in histories where the cache is really consulted ---- *)
(* same-size rewrite that changes the mtime: the old entry stays in the map and is not served *)
Example C12_rewrite_invalidates :
  stamp_determines (moments Hx Tid ([], empty_world) hRewrite) /\
  tree_faithful Tid ((0, None) :: confs hRewrite) /\
  lookup (tree_of 0 None) (id7, 0, 3) (fst (state_after hRewrite)) = Some (mkE 5 3 3 (Hx 0 [97; 98; 99])) /\
  (exists m, meta_of (snd (state_after hRewrite)) 1 = Some m /\
             cache_get (tree_of 0 None) (id7, 0, 3) m (fst (state_after hRewrite)) = None) /\
  cached_answer Hx Tid hRewrite 0 None (probe 1 0 3) = RHash (Hx 0 [97; 98; 100]).
Proof. exact ex_rewrite_invalidated. Qed.

(* rename: the entry is served under the new name, the run stores nothing *)
Example C12_rename_reuses :
  stamp_determines (moments Hx Tid ([], empty_world) hRename) /\
  (exists m, meta_of (snd (state_after hRename)) 2 = Some m /\
             cache_get (tree_of 0 None) (id7, 0, 3) m (fst (state_after hRename)) = Some (3, Hx 0 [97; 98; 99])) /\
  snd (run_cached Hx Tid 0 None (probe 2 0 3) (fst (state_after hRename)) (snd (state_after hRename))) = fst (state_after hRename) /\
  cached_answer Hx Tid hRename 0 None (probe 2 0 3) = plain_answer Hx Tid hRename 0 None (probe 2 0 3).
Proof. exact ex_rename_reused. Qed.

(* inode reuse: unlink, then another file gets the same inode number with another mtime *)
Example C12_inode_reuse :
  stamp_determines (moments Hx Tid ([], empty_world) hReuse) /\
  lookup (tree_of 0 None) (id7, 0, 3) (fst (state_after hReuse)) = Some (mkE 5 3 3 (Hx 0 [97; 98; 99])) /\
  cached_answer Hx Tid hReuse 0 None (probe 2 0 3) = RHash (Hx 0 [120; 121; 122]).
Proof. exact ex_inode_reuse. Qed.

(* algorithm / transform / chunk-size switches, hard link, interrupted run, lost entries, append, truncate, touch *)
Example C12_switches :
  stamp_determines (moments Hx Tid ([], empty_world) hSwitch) /\
  tree_faithful Tid ((2, None) :: confs hSwitch) /\
  length (fst (state_after hSwitch)) = 4%nat /\
  cached_answer Hx Tid hSwitch 2 None (probe 3 0 4) = RHash (Hx 2 [97; 98]).
Proof. exact ex_switches. Qed.
