(* Props_C17.v — property C17: shell quoting of paths and arguments is lossless.
   Statements only; every proof is `exact <lemma of TextProofs*>`.
   Model: coq/TextModel.v (arg.rs quote/split/join as they are now, stfu8-0.2.6 encode_u8/decode_u8,
   std UTF-8 validation, a bash fragment).  Byte strings are `list N` with every element < 256.
   Quantification: ALL non-empty byte strings / ALL lists of them (no length or alphabet bound);
   the bash theorem additionally needs NUL-freeness (an OS argument cannot contain NUL). *)
From FV Require Import Base TextModel TextProofs TextProofs2 TextProofs3.
Open Scope N_scope.

(* fclones' own splitter reads a quoted argument back as exactly the same bytes ... *)
Theorem C17_split_quote : forall a : list N,
  a <> [] -> Forall (fun b => b < 256) a -> split (quote a) = SOk [a].
Proof. exact split_quote'. Qed.
Print Assumptions C17_split_quote.

(* ... and a joined command line as the same list of arguments (never Err, never a panic). *)
Theorem C17_join : forall l : list (list N),
  Forall (fun a => a <> [] /\ Forall (fun b => b < 256) a) l -> split (join l) = SOk l.
Proof. exact split_join. Qed.
Print Assumptions C17_join.

(* bash (model bash_words: bare words with tilde/comment recognition at word start, '...', $'...')
   decodes the joined line to the same arguments. *)
Theorem C17_bash : forall l : list (list N),
  Forall (fun a => (a <> [] /\ Forall (fun b => b < 256) a) /\ Forall (fun b => b <> 0) a) l ->
  bash_words (join l) = Some l.
Proof. exact bash_join. Qed.
Print Assumptions C17_bash.

(* A word that quote prints bare contains no character that is active in bash and does not start
   with `~` or `#` (every active character is in SPECIAL_CHARS). *)
Theorem C17_bare_words_inactive : forall a : list N,
  (a <> [] /\ Forall (fun b => b < 256) a) -> quote a = a ->
  existsb needs_dollar (lossy a) = false -> existsb is_special (lossy a) = false ->
  hd_error a <> Some 126 /\ hd_error a <> Some 35 /\ Forall (fun b => bare_ok b = true) a.
Proof. exact bare_word_inactive. Qed.
Print Assumptions C17_bare_words_inactive.

(* The quoted form is a Rust String (valid UTF-8) whatever bytes the argument has. *)
Theorem C17_quoted_is_utf8 : forall a : list N,
  Forall (fun b => b < 256) a -> exists cs, str_chars (quote a) = Some cs.
Proof. exact quote_is_utf8. Qed.
Print Assumptions C17_quoted_is_utf8.

(* Non-vacuity / sanity: the three quoting styles, the F1 witness (a multi-byte character before an
   escaped quote), invalid UTF-8, a lone tilde, and what the splitter does on input quote never emits. *)
Example C17_ex_styles :
  quote [97; 98] = [97; 98] /\ quote [97; 32; 98] = [39; 97; 32; 98; 39] /\
  quote [97; 10] = [36; 39; 97; 92; 110; 39] /\ quote [126] = [39; 126; 39] /\
  quote [255] = [36; 39; 92; 120; 70; 70; 39].
Proof. vm_compute. repeat split. Qed.
Example C17_ex_f1_witness : split (quote [197; 188; 39; 100]) = SOk [[197; 188; 39; 100]].
Proof. vm_compute. reflexivity. Qed.
Example C17_ex_join :
  split (join [[197; 197; 188; 255]; [126]; [39; 92; 32]]) = SOk [[197; 197; 188; 255]; [126]; [39; 92; 32]]
  /\ bash_words (join [[197; 197; 188; 255]; [126]; [39; 92; 32]]) = Some [[197; 197; 188; 255]; [126]; [39; 92; 32]].
Proof. vm_compute. split; reflexivity. Qed.
Example C17_ex_bash_tilde_rejected : bash_words [126] = None /\ bash_words [97; 32; 126; 98] = None.
Proof. vm_compute. split; reflexivity. Qed.
Example C17_ex_split_errors :
  split [39; 97] = SErr /\ split [36; 97] = SErr /\ split [255] = SNotStr /\
  split [36; 39; 92; 120; 52; 39] = SErr.
Proof. vm_compute. repeat split. Qed.
