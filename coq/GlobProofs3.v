(* GlobProofs3.v — engine P, part 3: the emitted text, regex_with's anchor stripping, the fixed
   prefix of regex.rs and the conservativity of the partial match (C16_partial_conservative). *)
From Coq Require Import List NArith Bool Arith Lia.
From FV Require Import Base GlobModel GlobProofs GlobProofs2.
Import ListNotations.
Open Scope N_scope.

(* ---- the emitted text ---- *)
Lemma show_to_re_cons x t : show_re (to_re (x :: t)) = show_re (to_re1 x) ++ show_re (to_re t).
Proof. reflexivity. Qed.

Lemma show_to_re_app a b : show_re (to_re (a ++ b)) = show_re (to_re a) ++ show_re (to_re b).
Proof.
  induction a as [|x a IH]; [reflexivity|].
  cbn [app]. rewrite !show_to_re_cons, IH, app_assoc. reflexivity.
Qed.

Lemma not_meta c : is_meta c = false ->
  c <> 92 /\ c <> 46 /\ c <> 43 /\ c <> 42 /\ c <> 63 /\ c <> 40 /\ c <> 41 /\ c <> 124 /\ c <> 91 /\
  c <> 93 /\ c <> 123 /\ c <> 125 /\ c <> 94 /\ c <> 36.
Proof.
  unfold is_meta, meta_chars. cbn [existsb]. rewrite !orb_false_iff, !N.eqb_neq. tauto.
Qed.

Lemma meta_not_alnum c : is_meta c = true -> alnum c = false.
Proof.
  unfold is_meta, meta_chars. cbn [existsb]. rewrite !orb_true_iff, !N.eqb_eq.
  intros H. repeat (destruct H as [->|H]; [reflexivity|]). discriminate H.
Qed.

(* every token's text is non-empty; first character *)
Lemma show1_head x : exists c t, show_re (to_re1 x) = c :: t /\ c <> 94.
Proof.
  destruct x as [c| | | | |neg b|l|k l]; cbn [to_re1 show_re]; try (eexists _, _; split; [reflexivity|discriminate]).
  - unfold escape1. destruct (is_meta c) eqn:E; eexists _, _; (split; [reflexivity|]); [discriminate|].
    apply not_meta in E. tauto.
  - destruct k; cbn [show_re app]; eexists _, _; (split; [reflexivity|discriminate]).
Qed.

(* last character: a literal, or something that is neither a backslash nor a dollar *)
Lemma show1_last x : (exists c, to_re1 x = RChr c) \/
  exists B k, show_re (to_re1 x) = B ++ [k] /\ k <> 92 /\ k <> 36.
Proof.
  destruct x as [c| | | | |neg b|l|k l]; cbn [to_re1 show_re].
  - left; eauto.
  - right. exists [91; 94; 47], 93. repeat split; discriminate.
  - right. exists [91; 94; 47; 93], 42. repeat split; discriminate.
  - right. exists [40; 63; 115; 58; 46; 42], 41. repeat split; discriminate.
  - left; eauto.
  - right. exists (91 :: (if neg then [94] else []) ++ b), 93. cbn [app]. rewrite <- app_assoc.
    repeat split; discriminate.
  - right. eexists (40 :: _), 41. cbn [app]. repeat split; discriminate.
  - right. destruct k; cbn [show_re].
    + eexists _, 63. repeat split; discriminate.
    + eexists _, 42. repeat split; discriminate.
    + eexists _, 43. repeat split; discriminate.
    + eexists (40 :: _), 41. cbn [app]. repeat split; discriminate.
    + eexists (40 :: 63 :: 33 :: _), 41. cbn [app]. repeat split; discriminate.
Qed.

(* ---- regex_with's stripping of ^ and $ is the identity on emitted text ---- *)
Definition tail_inv (R : str) : Prop :=        (* R = reversed text *)
  Nat.even (count_bs R) = true /\
  match R with c :: r => c = 36 -> Nat.even (count_bs r) = false | [] => True end.

Lemma tail_inv_show g : tail_inv (rev (show_re (to_re g))).
Proof.
  induction g as [|x g IH] using rev_ind.
  - split; cbn; auto.
  - rewrite show_to_re_app. change (to_re [x]) with (RSeq (to_re1 x) REps). cbn [show_re].
    rewrite app_nil_r. destruct IH as [IH1 IH2].
    destruct (show1_last x) as [(c & E)|(B & k & E & Hk1 & Hk2)]; rewrite E.
    + cbn [show_re]. unfold escape1. destruct (is_meta c) eqn:Em.
      * rewrite rev_app_distr. cbn [rev app]. split.
        -- cbn [count_bs]. destruct (N.eqb_spec c 92); auto;
             try (change (92 =? 92) with true; cbn iota; rewrite Nat.even_succ_succ; auto).
        -- intros ->. cbn [count_bs]. change (92 =? 92) with true. cbn iota.
           rewrite Nat.even_succ, <- Nat.negb_even, IH1. reflexivity.
      * rewrite rev_app_distr. cbn [rev app]. apply not_meta in Em. split.
        -- cbn [count_bs]. destruct (N.eqb_spec c 92); auto; tauto.
        -- intros ->. tauto.
    + rewrite app_assoc, rev_app_distr. cbn [rev app]. split.
      * cbn [count_bs]. destruct (N.eqb_spec k 92); auto; congruence.
      * intros ->. congruence.
Qed.

Lemma strip_carets_show g : strip_carets (show_re (to_re g)) = show_re (to_re g).
Proof.
  destruct g as [|x g]; [reflexivity|]. rewrite show_to_re_cons.
  destruct (show1_head x) as (c & t & -> & Hc). cbn [app strip_carets].
  destruct (N.eqb_spec c 94); congruence.
Qed.

Theorem strip_anchors_show g : strip_anchors (show_re (to_re g)) = show_re (to_re g).
Proof.
  unfold strip_anchors. rewrite strip_carets_show.
  destruct (tail_inv_show g) as [_ H]. destruct (rev (show_re (to_re g))) as [|c r] eqn:E.
  - cbn. rewrite <- (rev_involutive (show_re (to_re g))), E. reflexivity.
  - cbn [strip_dollars_rev]. destruct (N.eqb_spec c 36) as [->|Hn].
    + rewrite (H eq_refl). cbn [andb]. rewrite <- E. apply rev_involutive.
    + cbn [andb]. rewrite <- E. apply rev_involutive.
Qed.

(* ---- get_fixed_prefix on emitted text ---- *)
Definition is_lit (x : gl) : option N :=
  match x with GLit c => Some c | GSep => Some 47 | _ => None end.

Fixpoint lit_prefix (g : list gl) : str :=
  match g with
  | [] => []
  | x :: t => match is_lit x with Some c => c :: lit_prefix t | None => [] end
  end.

Fixpoint all_lit (g : list gl) : bool :=
  match g with
  | [] => true
  | x :: t => match is_lit x with Some _ => all_lit t | None => false end
  end.

Lemma fp_loop_lit c rest acc : fp_loop (escape1 c ++ rest) acc = fp_loop rest (c :: acc).
Proof.
  unfold escape1. destruct (is_meta c) eqn:E.
  - cbn [app fp_loop]. change (92 =? 92) with true. cbn iota. rewrite (meta_not_alnum c E). reflexivity.
  - apply not_meta in E. cbn [app fp_loop].
    assert (H : forall k, c <> k -> (c =? k) = false) by (intros k; apply N.eqb_neq).
    unfold fp_stop. rewrite !H by tauto. reflexivity.
Qed.

Lemma fp_loop_nonlit x rest acc : is_lit x = None ->
  fp_loop (show_re (to_re1 x) ++ rest) acc = (rev acc, None).
Proof.
  destruct x as [c| | | | |neg b|l|k l]; cbn [is_lit]; intros H; try discriminate;
    cbn [to_re1 show_re app]; try reflexivity.
  destruct k; cbn [show_re app]; reflexivity.
Qed.

Lemma is_lit_re x c : is_lit x = Some c -> to_re1 x = RChr c.
Proof. destruct x; cbn; intros H; try discriminate; injection H as <-; reflexivity. Qed.

Lemma fp_loop_show g : forall acc,
  fp_loop (show_re (to_re g) ++ [36]) acc
  = (rev acc ++ lit_prefix g, if all_lit g then Some 0 else None).
Proof.
  induction g as [|x g IH]; intros acc.
  - cbn. rewrite app_nil_r. reflexivity.
  - rewrite show_to_re_cons, <- app_assoc. cbn [lit_prefix all_lit]. destruct (is_lit x) as [c|] eqn:E.
    + rewrite (is_lit_re x c E). cbn [show_re]. rewrite fp_loop_lit, IH. cbn [rev].
      rewrite <- app_assoc. reflexivity.
    + rewrite fp_loop_nonlit by auto. rewrite app_nil_r. reflexivity.
Qed.

Theorem pat_fixed_spec ci g :
  pat_fixed (mkpat ci g) = (lit_prefix g, if all_lit g then Some 0 else None).
Proof.
  unfold pat_fixed, anchored_text, pat_text, pat_re. cbn [pat_g].
  rewrite strip_anchors_show. cbn [get_fixed_prefix]. change (94 =? 94) with true. cbn iota.
  rewrite fp_loop_show. reflexivity.
Qed.

(* ---- matching strings start with the fixed prefix ---- *)
Definition nrm (ci : bool) (c : N) : N := if ci then lower c else c.

Lemma ceq_nrm ci x c : ceq ci x c = true <-> nrm ci x = nrm ci c.
Proof. destruct ci; cbn; apply N.eqb_eq. Qed.

Lemma gmatch_lit_prefix ci g : forall p, gmatch ci g p ->
  exists p1 p2, p = p1 ++ p2 /\ map (nrm ci) p1 = map (nrm ci) (lit_prefix g) /\
                (all_lit g = true -> p2 = []).
Proof.
  induction g as [|x g IH]; intros p H.
  - inversion H; subst. exists [], []. auto.
  - inversion H as [|x' g' s1 s2 H1 H2]; subst. cbn [lit_prefix all_lit].
    destruct (is_lit x) as [c|] eqn:E.
    + apply IH in H2 as (p1 & p2 & -> & Hp & Hall).
      assert (exists d, s1 = [d] /\ nrm ci d = nrm ci c) as (d & -> & Hd).
      { destruct x; cbn in E; try discriminate; injection E as <-; inversion H1; subst.
        - eexists; split; eauto. symmetry. apply ceq_nrm; auto.
        - eexists; split; eauto. }
      exists (d :: p1), p2. split; [reflexivity|]. split; [cbn [map]; rewrite Hd, Hp; reflexivity|auto].
    + exists [], (s1 ++ s2). repeat split; auto. discriminate.
Qed.

(* key lemma: what the regex matcher takes for equal, the pruning takes for equal as well *)
Lemma ceq_peq ci x c : ceq ci x c = true -> peq ci x c = true.
Proof.
  unfold ceq, peq. destruct ci; intros H.
  - rewrite H. cbn [andb orb]. apply orb_true_r.
  - rewrite H. reflexivity.
Qed.

Lemma zip_prefix ci : forall F p1 p2 q r,
  map (nrm ci) p1 = map (nrm ci) F -> p1 ++ p2 = q ++ r ->
  zip_all_peq ci F q = true.
Proof.
  induction F as [|x F IH]; intros p1 p2 q r Hm E; [reflexivity|].
  destruct p1 as [|c p1]; [discriminate|]. cbn [map] in Hm. injection Hm as Hc Hm.
  destruct q as [|d q]; [reflexivity|]. cbn [app] in E. injection E as -> E.
  cbn [zip_all_peq]. rewrite (ceq_peq ci x d) by (apply ceq_nrm; auto). cbn [andb]. eapply IH; eauto.
Qed.

(* C16_partial_conservative: the partial match accepts EVERY prefix of a matching string *)
Theorem partial_conservative ci g p q r :
  gmatch ci g p -> p = q ++ r -> pat_matches_partially (mkpat ci g) q = true.
Proof.
  intros H E. unfold pat_matches_partially. rewrite pat_fixed_spec. cbn [pat_ci].
  apply gmatch_lit_prefix in H as (p1 & p2 & Ep & Hm & Hall).
  unfold partial_match. cbn [fst snd].
  assert (Z : zip_all_peq ci (lit_prefix g) q = true).
  { apply (zip_prefix ci (lit_prefix g) p1 p2 q r); [exact Hm|congruence]. }
  destruct (all_lit g); auto.
  rewrite (Hall eq_refl), app_nil_r in Ep. subst p.
  assert (L : length p1 = length (lit_prefix g)).
  { rewrite <- (map_length (nrm ci) p1), Hm, map_length. reflexivity. }
  assert (Lq : (length q <= length p1)%nat).
  { rewrite E, app_length. lia. }
  destruct (N.ltb_spec (N.of_nat (length (lit_prefix g)) + 0) (N.of_nat (length q))); [lia|auto].
Qed.
