(* SortLib.v — stable insertion sort and the lemma "stable sorts applied last-key-first =
   lexicographic sort".  Generic (no model content).  Owned by engine D.
   Definitions first (they are extracted as part of the dedupe model), lemmas below. *)
From Coq Require Import List Bool Arith Lia Permutation Sorted.
Import ListNotations.

Section Defs.
  Context {A : Type}.
  (* [le x y = true]: x may stay in front of y.  The new element is put in front of the first
     element it may precede, so elements that compare equal keep their input order
     (Rust's slice::sort_by_key is a stable sort). *)
  Fixpoint sinsert (le : A -> A -> bool) (x : A) (l : list A) : list A :=
    match l with
    | [] => [x]
    | y :: r => if le x y then x :: y :: r else y :: sinsert le x r
    end.
  Definition ssort (le : A -> A -> bool) (l : list A) : list A := fold_right (sinsert le) [] l.

  (* elements paired with their position *)
  Definition indexed (l : list A) : list (nat * A) := combine (seq 0 (length l)) l.
End Defs.

Section Lemmas.
  Context {A : Type}.
  Implicit Types (le : A -> A -> bool) (l : list A).

  Lemma sinsert_perm le x l : Permutation (sinsert le x l) (x :: l).
  Proof.
    induction l as [|y r IH]; cbn [sinsert]; auto.
    destruct (le x y); auto.
    eapply perm_trans; [apply perm_skip, IH|apply perm_swap].
  Qed.

  Lemma ssort_perm le l : Permutation (ssort le l) l.
  Proof.
    induction l as [|x l IH]; cbn [ssort fold_right]; auto.
    eapply perm_trans; [apply sinsert_perm|]. apply perm_skip, IH.
  Qed.

  Lemma ssort_length le l : length (ssort le l) = length l.
  Proof. apply Permutation_length, ssort_perm. Qed.

  Lemma ssort_in le l x : In x (ssort le l) <-> In x l.
  Proof.
    split; apply Permutation_in; [apply ssort_perm|apply Permutation_sym, ssort_perm].
  Qed.

  Definition total le := forall a b, le a b = true \/ le b a = true.
  Definition transitive le := forall a b c, le a b = true -> le b c = true -> le a c = true.

  (* lexicographic product of a preorder given as a boolean comparison with any relation T *)
  Definition lexprod le (T : A -> A -> Prop) (a b : A) : Prop :=
    (le a b = true /\ le b a = false) \/ (le a b = true /\ le b a = true /\ T a b).

  Lemma lexprod_le le T a b : lexprod le T a b -> le a b = true.
  Proof. intros [[H _]|[H _]]; exact H. Qed.

  Lemma sinsert_lex le (T : A -> A -> Prop) x l : total le -> transitive le ->
    StronglySorted (lexprod le T) l -> Forall (T x) l ->
    StronglySorted (lexprod le T) (sinsert le x l).
  Proof.
    intros Htot Htr. induction l as [|y r IH]; intros Hs Hx; cbn [sinsert].
    - constructor; constructor.
    - inversion Hs as [|? ? Hs' Hall]; subst. inversion Hx as [|? ? Txy Hx']; subst.
      destruct (le x y) eqn:E.
      + constructor; [exact Hs|]. constructor.
        * destruct (le y x) eqn:E2; [right|left]; auto.
        * rewrite Forall_forall in *. intros z Hz.
          pose proof (lexprod_le _ _ _ _ (Hall z Hz)) as Hyz.
          pose proof (Htr _ _ _ E Hyz) as Hxz.
          destruct (le z x) eqn:E3; [right|left]; auto.
      + constructor; [apply IH; auto|].
        assert (Hyx : le y x = true) by (destruct (Htot x y); congruence).
        rewrite Forall_forall in *. intros z Hz.
        apply (Permutation_in _ (sinsert_perm le x r)) in Hz. destruct Hz as [<-|Hz].
        * left; auto.
        * apply Hall, Hz.
  Qed.

  (* a stable sort of a T-sorted list is sorted by "le, then T" *)
  Lemma ssort_lex le (T : A -> A -> Prop) l : total le -> transitive le ->
    StronglySorted T l -> StronglySorted (lexprod le T) (ssort le l).
  Proof.
    intros Htot Htr. induction l as [|x l IH]; intros Hs; cbn [ssort fold_right].
    - constructor.
    - inversion Hs as [|? ? Hs' Hall]; subst.
      apply sinsert_lex; [exact Htot|exact Htr|apply IH, Hs'|].
      rewrite Forall_forall in *. intros z Hz. apply Hall. apply (ssort_in le l z). exact Hz.
  Qed.

  Lemma ssort_sorted le l : total le -> transitive le ->
    StronglySorted (fun a b => le a b = true) (ssort le l).
  Proof.
    intros Htot Htr.
    assert (H : StronglySorted (lexprod le (fun _ _ => True)) (ssort le l)).
    { apply ssort_lex; auto. clear. induction l; constructor; auto. apply Forall_forall; auto. }
    revert H. generalize (ssort le l). induction l0 as [|a r IH]; intros H; constructor;
      inversion H; subst; auto.
    eapply Forall_impl; [|eassumption]. intros b Hb. eapply lexprod_le, Hb.
  Qed.

  (* two sorted permutations w.r.t. an asymmetric relation are equal *)
  Lemma sorted_perm_unique (R : A -> A -> Prop) l1 l2 : (forall a b, R a b -> R b a -> False) ->
    StronglySorted R l1 -> StronglySorted R l2 -> Permutation l1 l2 -> l1 = l2.
  Proof.
    intros Has. revert l2. induction l1 as [|a l1 IH]; intros l2 H1 H2 Hp.
    - apply Permutation_nil in Hp. auto.
    - destruct l2 as [|b l2]; [apply Permutation_sym, Permutation_nil in Hp; discriminate|].
      inversion H1 as [|? ? H1' Ha]; subst. inversion H2 as [|? ? H2' Hb]; subst.
      rewrite Forall_forall in Ha, Hb.
      assert (a = b) as <-.
      { pose proof (Permutation_in a Hp (or_introl eq_refl)) as [E|Hin]; [auto|].
        pose proof (Permutation_in b (Permutation_sym Hp) (or_introl eq_refl)) as [E|Hin2]; [auto|].
        exfalso. apply (Has a b); auto. }
      f_equal. apply IH; auto. eapply Permutation_cons_inv, Hp.
  Qed.

  Lemma StronglySorted_rev (R : A -> A -> Prop) l :
    StronglySorted R l -> StronglySorted (fun a b => R b a) (rev l).
  Proof.
    induction 1 as [|a l Hs IH Ha]; cbn [rev]; [constructor|].
    assert (G : forall l1 x, StronglySorted (fun a b => R b a) l1 -> Forall (fun y => R x y) l1 ->
                             StronglySorted (fun a b => R b a) (l1 ++ [x])).
    { clear. induction l1 as [|y l1 IH]; intros x Hs Hx; cbn [app].
      - constructor; constructor.
      - inversion Hs; subst. inversion Hx; subst. constructor; [apply IH; auto|].
        apply Forall_app; split; auto. }
    apply G; auto. rewrite Forall_forall in *. intros y Hy. apply Ha, in_rev, Hy.
  Qed.

  Lemma StronglySorted_impl (R S : A -> A -> Prop) l : (forall a b, In a l -> In b l -> R a b -> S a b) ->
    StronglySorted R l -> StronglySorted S l.
  Proof.
    induction l as [|a l IH]; intros Hi Hs; [constructor|].
    inversion Hs as [|? ? Hs' Ha]; subst. constructor.
    - apply IH; auto. intros x y Hx Hy. apply Hi; right; auto.
    - rewrite Forall_forall in *. intros y Hy. apply Hi; [left; auto|right; auto|auto].
  Qed.

  Lemma StronglySorted_filter (R : A -> A -> Prop) p l :
    StronglySorted R l -> StronglySorted R (filter p l).
  Proof.
    induction 1 as [|a l Hs IH Ha]; cbn [filter]; [constructor|].
    destruct (p a); auto. constructor; auto.
    rewrite Forall_forall in *. intros y Hy. apply filter_In in Hy. apply Ha, Hy.
  Qed.
End Lemmas.

(* sorting commutes with a projection the comparison factors through *)
Lemma ssort_map {A B} (f : A -> B) (le : B -> B -> bool) (l : list A) :
  map f (ssort (fun x y => le (f x) (f y)) l) = ssort le (map f l).
Proof.
  induction l as [|x l IH]; cbn [ssort fold_right map]; auto.
  fold (ssort (fun x y => le (f x) (f y)) l). fold (ssort le (map f l)). rewrite <- IH.
  generalize (ssort (fun x y => le (f x) (f y)) l). intros r.
  induction r as [|y r IHr]; cbn [sinsert map]; auto.
  destruct (le (f x) (f y)); cbn [map]; auto. f_equal. apply IHr.
Qed.

Lemma indexed_snd {A} (l : list A) : map snd (indexed l) = l.
Proof.
  unfold indexed. generalize 0. induction l as [|x l IH]; intros n; cbn [length seq combine map snd]; auto.
  f_equal. apply IH.
Qed.

Lemma indexed_length {A} (l : list A) : length (indexed l) = length l.
Proof. rewrite <- (indexed_snd l) at 2. rewrite map_length. reflexivity. Qed.

Lemma indexed_sorted {A} (l : list A) :
  StronglySorted (fun a b : nat * A => fst a < fst b) (indexed l).
Proof.
  unfold indexed. generalize 0.
  induction l as [|x l IH]; intros n; cbn [length seq combine]; constructor; auto.
  apply Forall_forall. intros [i y] Hin. apply in_combine_l in Hin. apply in_seq in Hin. cbn [fst]. lia.
Qed.

Lemma indexed_fst_lt {A} (l : list A) p : In p (indexed l) -> fst p < length l.
Proof.
  destruct p as [i y]. unfold indexed. intros Hin. apply in_combine_l in Hin. apply in_seq in Hin.
  cbn [fst]. lia.
Qed.
