(* Extract_T.v — extraction of the text-codec model for the correspondence harness. *)
From Coq Require Import Extraction ExtrOcamlBasic.
From FV Require Import Base TextModel.
Extraction Language OCaml.
Extraction "extracted/ex_T.ml" quote split join stfu8_encode stfu8_decode lossy str_chars
  bash_words SPECIAL_CHARS
  write_text read_report path_from_escaped path_to_escaped path_norm dec hex_encode str_trim
  N.of_nat Z.of_N.
