(* EffectsProofs9.v — engine X, part 9: the statements of Props_C02.v, assembled from parts 1-8 (Props_C02.v
   only contains `exact`). *)
From Coq Require Import Permutation.
From FV Require Import Base SortLib DedupeModel DedupeProofs.
From FV Require Import FsModel AtomicModel AtomicProofs AtomicProofs2 AtomicProofs3 AtomicProofs4.
From FV Require Import EffectsModel EffectsProofs EffectsProofs2 EffectsProofs3 EffectsProofs4 EffectsProofs5
  EffectsProofs6 EffectsProofs7 EffectsProofs8 EffectsWitness.
Open Scope N_scope.

Lemma c02_order_independent_l : forall ax e sl op c sm s r,
  run_ok ax e sl op c sm s r ->
  let cs := map (fcmd_of e) (run_cmds ax op c sm s r) in
  plan_ok sl s cs /\
  forall cs', Permutation cs cs' ->
    obs_eq s (final_fs sl cs s) (final_fs sl cs' s) /\
    Forall (fun x => x = IOk) (sresults (whole_run sl cs s)) /\ Forall (fun x => x = IOk) (sresults (whole_run sl cs' s)).
Proof.
  intros ax e sl op c sm s r H. split; [exact (clause_plan ax e sl op c sm s r H)|].
  intros cs' HP. exact (c02_order ax e sl op c sm s r H cs' HP).
Qed.

Lemma c02_contents_preserved_except_k2_l : forall ax e sl op c sm s r,
  run_ok ax e sl op c sm s r ->
  let cs := map (fcmd_of e) (run_cmds ax op c sm s r) in
  ~ K2 s r cs ->
  forall cs', Permutation cs cs' ->
    (forall b, stored s b -> stored (final_fs sl cs' s) b) /\
    (forall p, ~ In p (rpaths r) -> (forall q, In q (rpaths r) -> p <> tmp_of e q) -> untouched s (final_fs sl cs' s) p).
Proof. intros ax e sl op c sm s r H cs HK cs' HP. exact (c02_contents ax e sl op c sm s r H cs' HK HP). Qed.

Lemma c02_replicas_untouched_l : forall ax e sl op c sm s r,
  run_ok ax e sl op c sm s r ->
  let cs := map (fcmd_of e) (run_cmds ax op c sm s r) in
  forall cs' g files part kept dropped, Permutation cs cs' ->
    In g r -> group_files ax s g = Some files -> In part (group_parts op files) ->
    partition c (glen g) part = Ok (kept, dropped) ->
    exists ks ds, kept = concat ks /\ dropped = concat ds /\
      Permutation (ks ++ ds) (subgroups c (survivors c (glen g) part)) /\
      (Nat.min (nkeep c) (length (subgroups c (survivors c (glen g) part))) <= length ks)%nat /\
      forall sg m, In sg ks -> In m sg -> untouched s (final_fs sl cs' s) (mpath m).
Proof. intros ax e sl op c sm s r H cs cs' g files part kept dropped. exact (c02_replicas ax e sl op c sm s r H cs' g files part kept dropped). Qed.

Lemma c02_links_read_back_except_k7_l : forall ax e sl op c sm s r,
  run_ok ax e sl op c sm s r ->
  op = OpSoftLink \/ op = OpHardLink \/ op = OpRefLink ->
  let cs := map (fcmd_of e) (run_cmds ax op c sm s r) in
  ~ K7 s cs ->
  forall cs', Permutation cs cs' ->
  forall p i d, names s p = Some (NFile i) -> inodes s i = Some d -> rread (final_fs sl cs' s) p = Some (ibytes d).
Proof. intros ax e sl op c sm s r H Hop cs HK cs' HP. exact (c02_links ax e sl op c sm s r H cs' Hop HK HP). Qed.

Lemma c02_move_safe_l : forall ax e dir c sm s r sl o i,
  report_ok s r -> wf s -> victims_regular s (run_cmds ax (OpMove dir) c sm s r) ->
  let cs := map (fcmd_of e) (run_cmds ax (OpMove dir) c sm s r) in
  forall cs', Permutation cs cs' ->
    let st := sfs (run_script sl o i cs' s) in
    (forall b, stored s b -> stored st b) /\
    (forall p j, ~ In p (rpaths r) -> names s p = Some (NFile j) -> untouched s st p) /\
    (forall p, names s p = Some NDir -> names st p = Some NDir) /\
    (forall m j, In m (all_kept ax (OpMove dir) c s r) -> names s (mpath m) = Some (NFile j) -> untouched s st (mpath m)).
Proof. intros ax e dir c sm s r sl o i Hro Hwf Hreg cs cs' HP. exact (c02_move ax e dir c sm s r Hro Hwf Hreg sl o i cs' HP). Qed.

Lemma c02_move_readable_l : forall ax e dir c sm s r sl o i,
  report_ok s r -> wf s -> victims_regular s (run_cmds ax (OpMove dir) c sm s r) ->
  let cs := map (fcmd_of e) (run_cmds ax (OpMove dir) c sm s r) in
  forall cs', Permutation cs cs' ->
  let out := run_script sl o i cs' s in
  forall fc res, In (fc, res) (combine cs' (sresults out)) -> res = IOk ->
  forall i0 d0, names s (victim fc) = Some (NFile i0) -> inodes s i0 = Some d0 ->
  exists j dj, names (sfs out) (move_target_of fc) = Some (NFile j) /\ inodes (sfs out) j = Some dj /\ ibytes dj = ibytes d0.
Proof. intros ax e dir c sm s r sl o i Hro Hwf Hreg cs cs' HP. exact (c02_move_readable ax e dir c sm s r Hro Hwf Hreg sl o i cs' HP). Qed.

Lemma c02_k2_witness_l : exists ax e op c sm s r,
  (forall sl, run_ok ax e sl op c sm s r) /\
  let cs := map (fcmd_of e) (run_cmds ax op c sm s r) in
  K2 s r cs /\ exists b, stored s b /\ forall sl, ~ stored (final_fs sl cs s) b.
Proof.
  exists w_ax, w_env, OpRemove, k2_cfg, w_sm, k2_s, k2_r. split; [exact k2_run_ok|]. split; [exact k2_is_K2|].
  exists CONTENT. split; [exact (proj1 (k2_loses_content true))|]. intros sl. exact (proj2 (k2_loses_content sl)).
Qed.

Lemma c02_k7_witness_l : exists ax e c sm s r p i d,
  run_ok ax e true OpHardLink c sm s r /\
  let cs := map (fcmd_of e) (run_cmds ax OpHardLink c sm s r) in
  K7 s cs /\ names s p = Some (NFile i) /\ inodes s i = Some d /\ rread (final_fs true cs s) p <> Some (ibytes d).
Proof.
  exists w_ax, w_env, (w_cfg []), w_sm, k7_s, k7_r, (P3 99 100 70), 2, (mkInode CONTENT 6%Z).
  split; [exact k7_run_ok|]. split; [exact k7_is_K7|]. split; [exact (proj1 k7_not_read_back)|]. split; [vm_compute; reflexivity|].
  destruct k7_not_read_back as (_ & _ & H & _). fold k7_cmds. rewrite H. discriminate.
Qed.

Lemma c02_order_symlink_victim_witness_l : exists s c1 c2 p,
  names (final_fs true [c1; c2] s) p <> names (final_fs true [c2; c1] s) p /\
  processed_count (whole_run true [c1; c2] s) <> processed_count (whole_run true [c2; c1] s).
Proof.
  exists n6_s, (FRemove (P2 121 102)), (FRemove (P2 121 108)), (P2 121 108).
  destruct n6_order_dependent as (H1 & H2 & H3 & H4). rewrite H1, H2, H3, H4. split; discriminate.
Qed.
