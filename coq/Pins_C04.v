(* Pins_C04.v — the statements of Props_C04.v, pinned: weakening a theorem there breaks this file. *)
From Coq Require Import Permutation Sorted.
From FV Require Import Base SortLib DedupeModel DedupeProofs DedupeProofs3 Props_C04.
Open Scope Z_scope.
Check C04_full : forall D members op c sm glen ts tsc,
  NoDup (map (fun m => mpath (hbase m)) members) ->
  mbefore c = Some tsc -> tsc <= ts ->
  stamped_before_reads ts members ->
  (forall m t o, In m members -> In (t, o) (hops m) -> hr m < t) ->
  hist_safe D members (hist_run D members op c sm glen).
Check C04_after_report : forall D members op c sm glen ts tsc,
  NoDup (map (fun m => mpath (hbase m)) members) ->
  mbefore c = Some tsc -> tsc <= ts ->
  (forall m t o, In m members -> In (t, o) (hops m) -> ts < t) ->
  hist_safe D members (hist_run D members op c sm glen).
Check C04_trunc_le : forall t, trunc_ms t <= t.
Check C04_missing_skips_group : forall op c sm glen ms,
  In None ms -> group_cmds (dedupe_group op c sm glen ms) = [].
Check C04_newer_mtime_skips_group : forall c glen ms ts v,
  mbefore c = Some ts -> In v (survivors c glen ms) ->
  (match mmtime v with Some t => ts < t | None => True end) -> partition c glen ms = Err EModified.
Check C04_changed_left_out : forall c glen ms kept dropped v, partition c glen ms = Ok (kept, dropped) ->
  In v (kept ++ dropped) ->
  In v ms /\ mfile v = true /\ (no_size c = false -> mlen v = glen) /\
  (forall ts t, mbefore c = Some ts -> mmtime v = Some t -> t <= ts).
