(* ScriptModel.v — the dry-run side of a dedupe run (engine X; property C11).  NO proofs here.

   Modelled code (as it is now):
     dedupe.rs  FsCommand::to_shell_str (Unix branch)                         ==> [render]
                Path::quote = arg::quote(to_path_buf bytes)                   ==> TextModel.quote ∘ [path_bytes]
                FsCommand::space_to_reclaim, log_script (channel + PriorityQueue<_, Reverse<index>>,
                next_group_index, counting)                                   ==> [log_loop], [log_script]
     main.rs    run_dedupe lines 228-242: ONE script, consumed by log_script (dry run) or run_script
                                                                              ==> [run_dedupe]
   and what `bash` + coreutils do with the printed lines (assumptions about bash / coreutils, §8):
     bash splits a line into words (TextModel.bash_words, engine T); then
       rm P = unlink(P)      mv A B = rename(A, B)      ln T L = linkat(T, L) without following T
       ln -s T L = symlink(T, L)      cp A B = copy;  a failing line does not stop the script
                                                                              ==> [sh_line], [sh_run]
   The 24 random characters of a temp name are the parameter [sfx] (as in EffectsModel.env). *)
From FV Require Import Base SortLib TextModel.
From FV Require Import DedupeModel.
From FV Require Import FsModel AtomicModel EffectsModel.
Open Scope N_scope.

(* ---------------------------------------------------------------- paths as byte strings *)
Definition slash : N := 47.
Fixpoint join_comps (l : list comp) : list N :=
  match l with
  | [] => []
  | [c] => c
  | c :: r => c ++ slash :: join_comps r
  end.
(* Path::to_path_buf: the root component "/" is not followed by another separator *)
Definition path_bytes (p : path) : list N :=
  match p with
  | c :: rest => if comp_eqb c root_c then slash :: join_comps rest else join_comps p
  | [] => []
  end.

(* what the kernel makes of a path string: components between separators, a leading "/" is the root *)
Fixpoint split_slash (l : list N) (cur : comp) : list comp :=
  match l with
  | [] => match cur with [] => [] | _ => [cur] end
  | b :: r => if b =? slash then (match cur with [] => split_slash r [] | _ => cur :: split_slash r [] end)
              else split_slash r (cur ++ [b])
  end.
Definition parse_path (l : list N) : path :=
  match l with
  | b :: _ => if b =? slash then root_c :: split_slash l [] else split_slash l []
  | [] => []
  end.

(* a path as fclones holds it: absolute, at least one component below the root, every component a non-empty
   byte string without '/' and NUL (what a directory entry can be) *)
Definition comp_ok (c : comp) : Prop := c <> [] /\ Forall (fun b => b <> slash /\ b <> 0 /\ b < 256) c.
Definition wf_path (p : path) : Prop := exists rest, p = root_c :: rest /\ rest <> [] /\ Forall comp_ok rest.

(* ---------------------------------------------------------------- to_shell_str *)
Definition W_rm : list N := [114; 109].
Definition W_mv : list N := [109; 118].
Definition W_ln : list N := [108; 110].
Definition W_s : list N := [45; 115].                       (* -s *)
Definition W_cp : list N := [99; 112].
Definition W_reflink : list N :=                            (* --reflink=always *)
  [45; 45; 114; 101; 102; 108; 105; 110; 107; 61; 97; 108; 119; 97; 121; 115].
Definition sp : list N := [32].

Definition qp (p : path) : list N := quote (path_bytes p).
Definition tmp_path (sfx : path -> comp) (p : path) : path := temp_of p (sfx p).

(* format!("rm {path}") etc.: literal words, quoted paths, single spaces *)
Definition render (sfx : path -> comp) (c : cmd) : list (list N) :=
  match c with
  | Remove m => [W_rm ++ sp ++ qp (mpath m)]
  | SoftLink t l =>
      [W_mv ++ sp ++ qp (mpath l) ++ sp ++ qp (tmp_path sfx (mpath l));
       W_ln ++ sp ++ W_s ++ sp ++ qp (mpath t) ++ sp ++ qp (mpath l);
       W_rm ++ sp ++ qp (tmp_path sfx (mpath l))]
  | HardLink t l =>
      [W_mv ++ sp ++ qp (mpath l) ++ sp ++ qp (tmp_path sfx (mpath l));
       W_ln ++ sp ++ qp (mpath t) ++ sp ++ qp (mpath l);
       W_rm ++ sp ++ qp (tmp_path sfx (mpath l))]
  | RefLink t l =>
      [W_mv ++ sp ++ qp (mpath l) ++ sp ++ qp (tmp_path sfx (mpath l));
       W_cp ++ sp ++ W_reflink ++ sp ++ qp (mpath t) ++ sp ++ qp (mpath l);
       W_rm ++ sp ++ qp (tmp_path sfx (mpath l))]
  | Move src tgt rn =>
      if rn then [W_mv ++ sp ++ qp (mpath src) ++ sp ++ qp tgt]
      else [W_cp ++ sp ++ qp (mpath src) ++ sp ++ qp tgt; W_rm ++ sp ++ qp (mpath src)]
  end.

(* the words of each line as bash should see them *)
Definition shell_words (sfx : path -> comp) (c : cmd) : list (list (list N)) :=
  match c with
  | Remove m => [[W_rm; path_bytes (mpath m)]]
  | SoftLink t l =>
      [[W_mv; path_bytes (mpath l); path_bytes (tmp_path sfx (mpath l))];
       [W_ln; W_s; path_bytes (mpath t); path_bytes (mpath l)];
       [W_rm; path_bytes (tmp_path sfx (mpath l))]]
  | HardLink t l =>
      [[W_mv; path_bytes (mpath l); path_bytes (tmp_path sfx (mpath l))];
       [W_ln; path_bytes (mpath t); path_bytes (mpath l)];
       [W_rm; path_bytes (tmp_path sfx (mpath l))]]
  | RefLink t l =>
      [[W_mv; path_bytes (mpath l); path_bytes (tmp_path sfx (mpath l))];
       [W_cp; W_reflink; path_bytes (mpath t); path_bytes (mpath l)];
       [W_rm; path_bytes (tmp_path sfx (mpath l))]]
  | Move src tgt rn =>
      if rn then [[W_mv; path_bytes (mpath src); path_bytes tgt]]
      else [[W_cp; path_bytes (mpath src); path_bytes tgt]; [W_rm; path_bytes (mpath src)]]
  end.

(* ---------------------------------------------------------------- bash + coreutils *)
Definition sh_line (now : Z) (ws : list (list N)) : option call :=
  match ws with
  | [w; p] => if bytes_eqb w W_rm then Some (Unlink (parse_path p)) else None
  | [w; a; b] =>
      if bytes_eqb w W_mv then Some (Rename (parse_path a) (parse_path b))
      else if bytes_eqb w W_ln then Some (Link (parse_path a) (parse_path b))
      else if bytes_eqb w W_cp then Some (CopyTo (parse_path a) (parse_path b) now)
      else None
  | [w; o; a; b] =>
      if bytes_eqb w W_ln && bytes_eqb o W_s then Some (Symlink (parse_path a) (parse_path b)) else None
  | _ => None
  end.

(* bash runs the lines one after the other; a failing command does not stop the script.
   None = a line that bash would not read as the model expects (outside the modelled fragment). *)
Fixpoint sh_run (now : Z) (lines : list (list N)) (s : fs) : option fs :=
  match lines with
  | [] => Some s
  | l :: rest =>
      match bash_words l with
      | Some ws => match sh_line now ws with
                   | Some c => sh_run now rest (snd (nat_call c s))
                   | None => None
                   end
      | None => None
      end
  end.

(* ---------------------------------------------------------------- log_script *)
Section LogScript.
  Context {A : Type}.

  (* PriorityQueue with priority Reverse(index): peek / pop return the entry with the smallest index *)
  Fixpoint pq_min (q : list (nat * A)) : option (nat * A) :=
    match q with
    | [] => None
    | x :: r => match pq_min r with
                | Some y => if (fst x <=? fst y)%nat then Some x else Some y
                | None => Some x
                end
    end.
  Fixpoint pq_remove (i : nat) (q : list (nat * A)) : list (nat * A) :=
    match q with
    | [] => []
    | x :: r => if (fst x =? i)%nat then r else x :: pq_remove i r
    end.

  (* while let Some((group, _)) = queue.peek() { if group.index != next { break }; next += 1; pop; print } *)
  Fixpoint drain (fuel : nat) (q : list (nat * A)) (next : nat) (out : list A) : list (nat * A) * nat * list A :=
    match fuel with
    | O => (q, next, out)
    | S f => match pq_min q with
             | Some (i, x) => if (i =? next)%nat then drain f (pq_remove i q) (S next) (out ++ [x]) else (q, next, out)
             | None => (q, next, out)
             end
    end.

  (* while let Ok((group_index, commands)) = rx.recv() { queue.push(..); drain } *)
  Fixpoint log_loop (arrivals : list (nat * A)) (q : list (nat * A)) (next : nat) (out : list A) : list A :=
    match arrivals with
    | [] => out
    | a :: r => let '(q', n', o') := drain (S (length q)) (a :: q) next out in log_loop r q' n' o'
    end.

  Fixpoint indexed_from (k : nat) (l : list A) : list (nat * A) :=
    match l with [] => [] | x :: r => (k, x) :: indexed_from (S k) r end.
End LogScript.

(* what log_script prints and returns for the items arriving in the order [arrivals] *)
Record log_out := mkLog { lines : list (list N); lcount : nat; lbytes : N }.
Definition log_script (sfx : path -> comp) (arrivals : list (nat * list cmd)) : log_out :=
  let printed := concat (log_loop arrivals [] 0%nat []) in
  mkLog (flat_map (render sfx) printed) (length printed)
        (fold_right (fun c acc => mlen (cmd_victim c) + acc) 0 printed).

(* main.rs run_dedupe: the script is built once; dry_run selects the consumer *)
Inductive dedupe_result := DryRun (o : log_out) | RealRun (o : script_out) (reclaimed_space : N).
Definition run_dedupe (dry_run : bool) (ax : aux) (e : env) (sl : bool) (op : dop) (c : dcfg)
  (sm : path -> path -> bool) (r : report) (s : fs)
  (arrival : list (nat * list cmd) -> list (nat * list cmd))       (* the schedule of the parallel iterator *)
  (order : list cmd -> list cmd) : dedupe_result :=
  let script := script_items ax op c sm s r in
  if dry_run then DryRun (log_script (sfx e) (arrival (indexed_from 0 script)))
  else let cs := order (concat script) in
       let o := whole_run sl (map (fcmd_of e) cs) s in
       RealRun o (reclaimed cs (sresults o)).
