(* Extract_X.v — extraction of the whole-run model (engine X: C02, C11) for the correspondence harness. *)
From Coq Require Import Extraction ExtrOcamlBasic.
From FV Require Import Base SortLib TextModel.
From FV Require Import DedupeModel.
From FV Require Import FsModel AtomicModel EffectsModel ScriptModel.
Extraction Language OCaml.
Definition d_keep_rule := DedupeModel.keep_rule.
Definition d_drop_rule := DedupeModel.drop_rule.
Extraction "extracted/ex_X.ml" empty_fs set_name set_inode set_locks names inodes locks next norm parent temp_of
  is_query ncall nofault steps prog_of run view_of follow file_bytes
  stat_fs group_script script_items run_cmds fcmd_of whole_run final_fs reclaimed processed_count dedupe_run
  rread cmd_writes
  path_bytes parse_path render shell_words sh_run log_script log_loop indexed_from run_dedupe
  d_keep_rule d_drop_rule bash_words quote N.of_nat Z.of_N.
