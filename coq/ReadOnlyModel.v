(* ReadOnlyModel.v — executable model of the file-system calls `fclones group` and the
   `--dry-run` dedupe commands issue THEMSELVES (engine R, property C07).  No proofs in this file.

   Modelled code (current sources, F8 already fixed):
     transform.rs  Transform::new          validation of $IN / --in-place, probe spawn (stdin/stdout/stderr null, killed and
                                           waited for), create_temp_dir: on failure `?` returns the error — no fallback
                                           location, nothing else happens
                   make_args               substitution of $IN / $OUT, Input::{StdIn,Named,Copied},
                                           Output::{StdOut,Named,InPlace}; a replaced Input/Output value is
                                           dropped (its Drop runs) at the moment it is replaced
                   build_command           prepare_input_file (std::fs::copy), File::open for stdin, mkfifo
                   execute                 spawn, stderr reaper (opens the pipe for writing), File::open of
                                           the pipe / of the in-place file
                   Drop for Input, Drop for Output (InPlace => no-op), Drop for Transform (remove_dir_all)
     config.rs     build_transform         --no-copy sets copy := false
     hasher.rs     hash_transformed        cache hit => the transform does not run at all;  open_noatime (read-only)
     main.rs       run_group               check_can_create_output_file creates the -o file FIRST, then group_files,
                                           then write_report;  run_dedupe: dry_run => log_script, else run_script
     dedupe.rs     log_script              formats the commands, executes nothing
     cache.rs      HashCache::open_default database under the user cache dir

   A command string is abstracted to the sequence of its tokens ([TLit] literal text, [TIn] = $IN,
   [TOut] = $OUT, [TVar] any other $name, which is substituted by its own name); argument boundaries do
   not matter for the plan.  So the model covers ALL command strings, not only one per combination
   (e.g. `$IN` twice: two fresh temp names, the first Input::Copied value is dropped = an unlink of a
   file that was never created).

   Paths are symbolic: what matters for C07 is the CLASS of a path.
   Platform: unix.  `"OUT" if cfg!(windows)` in Transform::new means that on unix `$OUT` is never
   noticed by the validation, hence `--in-place` together with `$OUT` is NOT rejected there
   ([windows] below is the value of cfg!(windows)). *)
From FV Require Import Base.

Inductive pclass :=
| Tmp        (* under the per-run temp dir  $TMPDIR/fclones-<uuid>  (the dir itself included) *)
| Orig       (* a scanned file itself *)
| CacheDir   (* the hash database under the user cache dir *)
| OutFile.   (* the file named by -o *)

(* [f] = index of the scanned file the path belongs to *)
Inductive path :=
| PTmpDir
| PTmpIn (f k : nat)     (* k-th fresh random_tmp_file_name() made for file f *)
| PTmpOut (f : nat)      (* Transform::output(input) = tmp_dir/hash128(input) *)
| POrig (f : nat)
| PCache
| POutFile.

Definition class (p : path) : pclass :=
  match p with
  | PTmpDir | PTmpIn _ _ | PTmpOut _ => Tmp
  | POrig _ => Orig
  | PCache => CacheDir
  | POutFile => OutFile
  end.

Definition pclass_eqb (a b : pclass) : bool :=
  match a, b with
  | Tmp, Tmp | Orig, Orig | CacheDir, CacheDir | OutFile, OutFile => true
  | _, _ => false
  end.

Definition path_eqb (a b : path) : bool :=
  match a, b with
  | PTmpDir, PTmpDir | PCache, PCache | POutFile, POutFile => true
  | PTmpIn f k, PTmpIn g j => Nat.eqb f g && Nat.eqb k j
  | PTmpOut f, PTmpOut g => Nat.eqb f g
  | POrig f, POrig g => Nat.eqb f g
  | _, _ => false
  end.

(* ---- command tokens and their substitution ------------------------------------------------- *)
Inductive tok := TLit | TIn | TOut | TVar.
Inductive asub := SLit | SVar | SPath (p : path).

Definition is_in (x : tok) : bool := match x with TIn => true | _ => false end.
Definition is_out (x : tok) : bool := match x with TOut => true | _ => false end.

(* ---- the I/O handles ------------------------------------------------------------------------- *)
Inductive input := InStdIn (p : path) | InNamed (p : path) | InCopied (src tgt : path).
Inductive output := OutStdOut | OutNamed (p : path) | OutInPlace (p : path).

Definition input_path (i : input) : path :=
  match i with InStdIn p => p | InNamed p => p | InCopied _ t => t end.

(* ---- file-system calls issued by fclones itself ---------------------------------------------- *)
Inductive call :=
| CMkdirAll (p : path)         (* create_dir_all *)
| CCopy (src dst : path)       (* std::fs::copy: reads src, creates/overwrites dst *)
| CMkfifo (p : path)
| COpenW (p : path)            (* OpenOptions::new().write(true).open(p): no create *)
| COpenR (p : path)            (* File::open / open_noatime: read-only *)
| CCreate (p : path)           (* File::create *)
| CDbWrite (p : path)          (* sled writes below p *)
| CRemoveFile (p : path)
| CRemoveDirAll (p : path).

Definition mutating (c : call) : bool := match c with COpenR _ => false | _ => true end.

(* the path a call may modify (for the read-only open: the path it opens) *)
Definition target (c : call) : path :=
  match c with
  | CMkdirAll p | CMkfifo p | COpenW p | COpenR p | CCreate p | CDbWrite p
  | CRemoveFile p | CRemoveDirAll p => p
  | CCopy _ d => d
  end.

Inductive stdin_kind := StdinNull | StdinFile (p : path).   (* StdinFile: a read-only fd *)

Inductive event :=
| Call (c : call)
| Spawn (args : list asub) (sin : stdin_kind).   (* the external program is launched with these *)

Inductive stage := SProbe | SMkTmp | SCopy | SOpenIn | SMkfifo | SSpawn | SWait | SOpenOut.

Inductive cfg_error := EOutConflictsInPlace | EInRequired | EEmptyCommand | ENotRunnable | ETmpDirFailed.

Record transform := mkT { t_copy : bool; t_in_place : bool }.

Inductive result := Ok (t : transform) | Err (e : cfg_error).

Definition windows : bool := false.    (* cfg!(windows) *)

Definition is_nil {A} (l : list A) : bool := match l with [] => true | _ => false end.

(* Transform::new(command, in_place).  [fails s] = the environment makes stage s fail when reached. *)
Definition transform_new (fails : stage -> bool) (toks : list tok) (in_place : bool)
  : list event * result :=
  let has_in := existsb is_in toks in
  let has_out := windows && existsb is_out toks in
  if in_place && has_out then ([], Err EOutConflictsInPlace)
  else if in_place && negb has_in then ([], Err EInRequired)
  else if is_nil toks then ([], Err EEmptyCommand)
  else if fails SProbe then ([Spawn [] StdinNull], Err ENotRunnable)
  else if fails SMkTmp then ([Spawn [] StdinNull; Call (CMkdirAll PTmpDir)], Err ETmpDirFailed)
  else ([Spawn [] StdinNull; Call (CMkdirAll PTmpDir)], Ok (mkT has_in in_place)).

(* GroupConfig::build_transform *)
Definition build_transform (fails : stage -> bool) (toks : list tok) (in_place no_copy : bool)
  : list event * result :=
  match transform_new fails toks in_place with
  | (evs, Ok t) => (evs, Ok (if no_copy then mkT false (t_in_place t) else t))
  | r => r
  end.

Definition drop_input (i : input) : list event :=
  match i with InCopied _ t => [Call (CRemoveFile t)] | _ => [] end.

Definition drop_output (o : output) : list event :=
  match o with OutNamed t => [Call (CRemoveFile t)] | _ => [] end.    (* InPlace: no-op *)

(* ---- make_args -------------------------------------------------------------------------------- *)
Record mstate := mkMS { ms_k : nat; ms_in : input; ms_out : output; ms_subs : list asub; ms_evs : list event }.

Definition ms_init (f : nat) : mstate := mkMS 0 (InStdIn (POrig f)) OutStdOut [] [].

Definition step_tok (t : transform) (f : nat) (s : mstate) (x : tok) : mstate :=
  match x with
  | TIn =>
      if t_copy t then
        let tgt := PTmpIn f (ms_k s) in
        mkMS (S (ms_k s)) (InCopied (POrig f) tgt) (ms_out s) (ms_subs s ++ [SPath tgt])
             (ms_evs s ++ drop_input (ms_in s))
      else
        mkMS (ms_k s) (InNamed (POrig f)) (ms_out s) (ms_subs s ++ [SPath (POrig f)])
             (ms_evs s ++ drop_input (ms_in s))
  | TOut =>
      mkMS (ms_k s) (ms_in s) (OutNamed (PTmpOut f)) (ms_subs s ++ [SPath (PTmpOut f)])
           (ms_evs s ++ drop_output (ms_out s))
  | TLit => mkMS (ms_k s) (ms_in s) (ms_out s) (ms_subs s ++ [SLit]) (ms_evs s)
  | TVar => mkMS (ms_k s) (ms_in s) (ms_out s) (ms_subs s ++ [SVar]) (ms_evs s)
  end.

Definition subst_all (t : transform) (f : nat) (toks : list tok) : mstate :=
  fold_left (step_tok t f) toks (ms_init f).

(* (args, input_conf, output_conf, calls issued by the Drops of replaced values) *)
Definition make_args (t : transform) (f : nat) (toks : list tok)
  : list asub * input * output * list event :=
  let s := subst_all t f toks in
  if t_in_place t
  then (ms_subs s, ms_in s, OutInPlace (input_path (ms_in s)), ms_evs s ++ drop_output (ms_out s))
  else (ms_subs s, ms_in s, ms_out s, ms_evs s).

(* ---- build_command + execute + drop of Execution ------------------------------------------- *)
Fixpoint run_steps (fails : stage -> bool) (steps : list (option stage * list event))
  : list event * bool :=
  match steps with
  | [] => ([], true)
  | (st, evs) :: rest =>
      if match st with Some s => fails s | None => false end then (evs, false)
      else let (e, ok) := run_steps fails rest in (evs ++ e, ok)
  end.

Definition stdin_of (i : input) : stdin_kind :=
  match i with InStdIn p => StdinFile p | _ => StdinNull end.

Definition steps_of (args : list asub) (i : input) (o : output) : list (option stage * list event) :=
  (* build_command *)
  match i with
  | InCopied s t => [(Some SCopy, [Call (CCopy s t)])]
  | InStdIn p => [(Some SOpenIn, [Call (COpenR p)])]
  | InNamed _ => []
  end ++
  match o with OutNamed p => [(Some SMkfifo, [Call (CMkfifo p)])] | _ => [] end ++
  (* execute *)
  [(Some SSpawn, [Spawn args (stdin_of i)])] ++
  match o with
  | OutStdOut => []
  | OutNamed p => [(None, [Call (COpenW p)]);               (* stderr reaper thread, after the child exits *)
                   (Some SOpenOut, [Call (COpenR p)])]
  | OutInPlace p => [(Some SWait, []); (Some SOpenOut, [Call (COpenR p)])]   (* child's stdout is null, not a pipe *)
  end.

(* Transform::run for file f + hashing + drop of the Execution (success: fields _input, _output in
   declaration order; failure: the locals / parameters in reverse order).  Returns (events, ok). *)
Definition run_file_ok (t : transform) (f : nat) (toks : list tok) (fails : stage -> bool)
  : list event * bool :=
  match make_args t f toks with
  | (args, i, o, evs0) =>
      let (evs, ok) := run_steps fails (steps_of args i o) in
      (evs0 ++ evs ++ (if ok then drop_input i ++ drop_output o else drop_output o ++ drop_input i), ok)
  end.

Definition run_file t f toks fails : list event := fst (run_file_ok t f toks fails).

(* per scanned file: is its hash in the cache, and which stages fail *)
Record file_env := mkFE { fe_hit : bool; fe_fails : stage -> bool }.

(* FileHasher::hash_transformed *)
Definition hash_transformed (t : transform) (cache : bool) (f : nat) (toks : list tok) (e : file_env)
  : list event :=
  if cache && fe_hit e then []
  else let (evs, ok) := run_file_ok t f toks (fe_fails e) in
       evs ++ (if cache && ok then [Call (CDbWrite PCache)] else []).

(* FileHasher::hash_file & co. without a transform *)
Definition hash_plain (cache : bool) (f : nat) (e : file_env) : list event :=
  if cache && fe_hit e then []
  else Call (COpenR (POrig f)) :: (if cache then [Call (CDbWrite PCache)] else []).

Fixpoint per_file (h : nat -> file_env -> list event) (f : nat) (files : list file_env) : list event :=
  match files with
  | [] => []
  | e :: rest => h f e ++ per_file h (S f) rest
  end.

Record group_cfg := mkG { g_transform : option (list tok); g_in_place : bool; g_no_copy : bool;
                          g_cache : bool; g_output : bool }.

Definition cache_open (g : group_cfg) : list event :=
  if g_cache g then [Call (CMkdirAll PCache); Call (CDbWrite PCache)] else [].

Definition write_report (g : group_cfg) : list event :=
  if g_output g then [Call (CCreate POutFile)] else [].

(* main.rs check_can_create_output_file: the -o file is created (and left empty) before anything else *)
Definition check_output (g : group_cfg) : list event := write_report g.

(* `fclones group`: every file-system call fclones itself issues besides reading directories/metadata,
   files processed one after the other (see notes/R.md for interleavings). *)
Definition group_run (fails : stage -> bool) (g : group_cfg) (files : list file_env) : list event :=
  check_output g ++
  match g_transform g with
  | None => cache_open g ++ per_file (hash_plain (g_cache g)) 0 files ++ write_report g
  | Some toks =>
      match build_transform fails toks (g_in_place g) (g_no_copy g) with
      | (evs, Err _) => evs                                        (* "Invalid transform": nothing else happens *)
      | (evs, Ok t) =>
          evs ++ cache_open g ++ per_file (fun f e => hash_transformed t (g_cache g) f toks e) 0 files
              ++ [Call (CRemoveDirAll PTmpDir)] ++ write_report g
      end
  end.

(* ---- dedupe commands ------------------------------------------------------------------------ *)
Inductive fscmd := FRemove (f : nat) | FSoftLink (tgt lnk : nat) | FHardLink (tgt lnk : nat)
                 | FRefLink (tgt lnk : nat) | FMove (f : nat).

(* number of shell lines FsCommand::to_shell_str prints is irrelevant here: one abstract line per command *)
Definition log_script (script : list (nat * list fscmd)) : list fscmd := concat (map snd script).

(* a real run touches the file each command is about (refined by engines D and A) *)
Definition exec_cmd (c : fscmd) : list event :=
  match c with
  | FRemove f | FMove f => [Call (CRemoveFile (POrig f))]
  | FSoftLink _ l | FHardLink _ l | FRefLink _ l => [Call (CRemoveFile (POrig l)); Call (CCreate (POrig l))]
  end.

Record dedupe_outcome := mkDO { printed : list fscmd; d_events : list event }.

(* main.rs run_dedupe: the branch on dedupe_config.dry_run *)
Definition run_dedupe (dry_run output : bool) (script : list (nat * list fscmd)) : dedupe_outcome :=
  if dry_run
  then mkDO (log_script script) (if output then [Call (CCreate POutFile)] else [])
  else mkDO [] (concat (map exec_cmd (concat (map snd script)))).

(* ---- interpretation over the set of existing temp paths ------------------------------------- *)
Definition is_tmp (p : path) : bool := pclass_eqb (class p) Tmp.

Definition remove_path (p : path) (st : list path) : list path :=
  filter (fun q => negb (path_eqb p q)) st.

Definition add_tmp (p : path) (st : list path) : list path := if is_tmp p then p :: st else st.

Definition tmp_paths_of (args : list asub) : list path :=
  flat_map (fun a => match a with SPath p => if is_tmp p then [p] else [] | _ => [] end) args.

(* [prog] = whether the external program is assumed to create every temp path it is handed *)
Definition exec_event (prog : bool) (st : list path) (e : event) : list path :=
  match e with
  | Call (CMkdirAll p) | Call (CMkfifo p) | Call (CCreate p) | Call (CCopy _ p) => add_tmp p st
  | Call (CRemoveFile p) => remove_path p st
  | Call (CRemoveDirAll p) => if path_eqb p PTmpDir then [] else remove_path p st
  | Call _ => st
  | Spawn args _ => if prog then tmp_paths_of args ++ st else st
  end.

Definition exec_events (prog : bool) (evs : list event) (st : list path) : list path :=
  fold_left (exec_event prog) evs st.

(* ---- the 16 combinations as a table --------------------------------------------------------- *)
Definition cmd_of (has_in has_out : bool) : list tok :=
  TLit :: (if has_in then [TIn] else []) ++ (if has_out then [TOut] else []).

Definition no_fail (_ : stage) : bool := false.

Definition calls_of (evs : list event) : list call :=
  flat_map (fun e => match e with Call c => [c] | _ => [] end) evs.

Definition mutating_calls (evs : list event) : list call := filter mutating (calls_of evs).

Definition all_mutating_tmp (evs : list event) : bool :=
  forallb (fun c => pclass_eqb (class (target c)) Tmp) (mutating_calls evs).

Definition handed_orig (evs : list event) : bool :=
  existsb (fun e => match e with
                    | Spawn args _ => existsb (fun a => match a with SPath (POrig _) => true | _ => false end) args
                    | _ => false end) evs.

Definition bools := [false; true].
Definition all_cfgs : list (bool * bool * bool * bool) :=
  flat_map (fun a => flat_map (fun b => flat_map (fun c => map (fun d => (a, b, c, d)) bools) bools) bools) bools.

Definition stages := [SProbe; SMkTmp; SCopy; SOpenIn; SMkfifo; SSpawn; SWait; SOpenOut].
Definition fail_at (s : option stage) (x : stage) : bool :=
  match s with
  | None => false
  | Some s => match s, x with
              | SProbe, SProbe | SMkTmp, SMkTmp | SCopy, SCopy | SOpenIn, SOpenIn | SMkfifo, SMkfifo
              | SSpawn, SSpawn | SWait, SWait | SOpenOut, SOpenOut => true
              | _, _ => false
              end
  end.

(* what one table row says: error, or (input handle, output handle, mutating calls for one file) *)
Inductive row :=
| RErr (e : cfg_error)
| ROk (copy : bool) (i : input) (o : output) (muts : list call).

Definition row_of (c : bool * bool * bool * bool) : row :=
  match c with
  | (has_in, has_out, in_place, no_copy) =>
      let toks := cmd_of has_in has_out in
      match build_transform no_fail toks in_place no_copy with
      | (_, Err e) => RErr e
      | (_, Ok t) =>
          match make_args t 0 toks with
          | (_, i, o, _) => ROk (t_copy t) i o (mutating_calls (run_file t 0 toks no_fail))
          end
      end
  end.

Definition mode_table : list row := map row_of all_cfgs.

(* the sweep used by C07_transform_paths_16: all 16 combinations x every single failure point *)
Definition sweep_ok : bool :=
  forallb (fun c =>
    match c with
    | (has_in, has_out, in_place, no_copy) =>
        let toks := cmd_of has_in has_out in
        forallb (fun fs =>
          let fails := fail_at fs in
          let g := mkG (Some toks) in_place no_copy false false in
          let evs := group_run fails g [mkFE false fails] in
          all_mutating_tmp evs
          && implb (handed_orig evs) (has_in && no_copy)
          && match fs with None => Bool.eqb (handed_orig evs) (has_in && no_copy) | Some _ => true end
          && match build_transform fails toks in_place no_copy with
             | (_, Ok _) => is_nil (exec_events true evs [])
             | (_, Err _) => true       (* a failed create_dir_all is the only call: see transform_new *)
             end) (None :: map Some stages)
    end) all_cfgs.
