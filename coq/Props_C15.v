(* Props_C15.v — property C15: an unreadable or vanishing file affects only itself.  Statements only.
   The fault oracle `fails : stage -> file -> bool` of the nondeterminism record makes the hash of a chunk (or the
   transform) fail; the model then drops the run of the file's inode at that stage (hasher.rs *_or_log_err -> None,
   group.rs rehash).  Directory / stat / readlink faults belong to the walk (engine W) and to the runtime half
   (vlib/props/c15.py with shim/rdshim.c), which also observes warnings, exit status and termination.

   C15_isolated: for EVERY fault oracle — path-specific ones included —, every order and schedule: a file whose
   content class has no failing member is reported iff its class satisfies the filter, as exactly its class, i.e.
   exactly as in a fault-free run; and for all classes no file is listed twice, only scanned files are listed and no
   class is split among the files reported.
   C15_sound_under_faults: every reported group still contains only identical files (C01 holds for every oracle).
   C15_failed_never_duplicate_except_K5 (+ _transform): with an inode-determined oracle a file whose read fails at
   the prefix (contents, transform) stage is in no reported group with more than one inode that was keyed by that
   stage: it is never reported as a duplicate of anything.
   Known finding K5 (not fixed): with a PATH-specific failure on the representative of a hard-link run the other links
   of the inode are dropped too (C15_K5_witness).
   Not claimed: DESIGN's formulation "= the fault-free run on the scanned files minus the failing ones, hashes
   included" is false for the code and the model for legitimate reasons (a never-read unreadable file of unique size
   is reported by --unique / --rf-over 0; the printed hash of a group can depend on which stage last keyed it); the
   theorems above are the provable content. *)
From FV Require Import Base ListLib GroupModel GroupProofs GroupProofs2 GroupProofs3 GroupProofs4 GroupProofs5 GroupProofs8 GroupProofs9 GroupWitness.
Open Scope N_scope.

Theorem C15_isolated :
  forall (H : list N -> hash) (T : list N -> option (list N)) (c : gcfg) (n : nd) (scanned : list file),
    wf_nd n -> wf_ids scanned -> wf_len scanned -> wf_paths scanned -> collision_free H c scanned ->
    transform c = false -> skip_content c = false ->
    let out := group_files H T c n scanned in
    (forall f, ok c scanned f -> clean c n scanned f ->
       ((exists g, In g out /\ In f (gfiles g)) <-> qualifies c scanned f) /\
       (forall g, In g out -> In f (gfiles g) -> is_class c scanned f (gfiles g))) /\
    (NoDup (all_files out) /\ forall f, In f (all_files out) -> ok c scanned f) /\
    (forall g g' f f', In g out -> In g' out -> In f (gfiles g) -> In f' (gfiles g') -> fdata f = fdata f' -> g = g').
Proof. exact c15_isolated_clean. Qed.
Print Assumptions C15_isolated.

Theorem C15_sound_under_faults :
  forall (H : list N -> hash) (T : list N -> option (list N)) (c : gcfg) (n : nd) (scanned : list file),
    wf_nd n -> wf_ids scanned -> wf_len scanned -> collision_free H c scanned ->
    skip_content c = false -> transform c = false ->
    forall g, In g (group_files H T c n scanned) ->
    forall f f', In f (gfiles g) -> In f' (gfiles g) -> fdata f = fdata f' /\ glen g = N.of_nat (length (fdata f)).
Proof. exact c01_sound. Qed.
Print Assumptions C15_sound_under_faults.

Theorem C15_failed_never_duplicate_except_K5 :
  forall (H : list N -> hash) (T : list N -> option (list N)) (c : gcfg) (n : nd) (scanned : list file),
    wf_nd n -> inode_determined n -> transform c = false -> skip_content c = false ->
    forall g, In g (group_files H T c n scanned) ->
      one_id (gfiles g) \/
      ((forall f, In f (gfiles g) -> fails n StPrefix f = false) /\
       (prefix_len_of c (remove_same_files c (group_by_size c (filter (size_ok c) scanned))) <= glen g ->
        forall f, In f (gfiles g) -> fails n StContents f = false)).
Proof. exact c15_failed_not_duplicate. Qed.
Print Assumptions C15_failed_never_duplicate_except_K5.

Theorem C15_failed_never_reported_transform_except_K5 :
  forall (H : list N -> hash) (T : list N -> option (list N)) (c : gcfg) (n : nd) (scanned : list file),
    wf_nd n -> inode_determined n -> transform c = true ->
    forall g f, In g (group_files H T c n scanned) -> In f (gfiles g) -> fails n StTransform f = false.
Proof. exact c15_failed_not_reported_transform. Qed.
Print Assumptions C15_failed_never_reported_transform_except_K5.

Theorem C15_K5_witness :
  exists (H : list N -> hash) (T : list N -> option (list N)) (c : gcfg) (n : nd) (a b x : file),
    wf_nd n /\ wf_ids [a; b; x] /\ fid a = fid b /\ fpath a <> fpath b /\
    (forall st f, fails n st f = true -> fpath f = fpath a) /\ (forall st, fails n st b = false) /\
    group_files H T c n [a; b; x] = [] /\
    exists g f, In g (group_files H T c (nd_of_mode 0) [b; x]) /\ In f (gfiles g) /\ fpath f = fpath b.
Proof. exact k5_witness. Qed.
Print Assumptions C15_K5_witness.

(* Non-vacuity: two copies (class X) and two other copies (class Y) one of which cannot be read (inode-determined
   oracle: inode 4 fails everywhere).  Class X has no failing member and is reported; of class Y only one readable
   file is left, which is no duplicate. *)
Definition c15_files : list file :=
  [mkf 97 1 6 [1;2;3;4;5;6]; mkf 98 2 6 [1;2;3;4;5;6]; mkf 99 4 6 [1;2;3;4;5;7]; mkf 100 5 6 [1;2;3;4;5;7]].
Definition c15_nd : nd := mknd (fun _ _ l => isort loc_leb l) (fun _ l => l) (fun _ f => snd (fid f) =? 4).
Example C15_instance :
  wf_nd c15_nd /\ inode_determined c15_nd /\ clean ex_cfg c15_nd c15_files (mkf 97 1 6 [1;2;3;4;5;6]) /\
  fails c15_nd StPrefix (mkf 99 4 6 [1;2;3;4;5;7]) = true /\
  shows (group_files toyH idT ex_cfg c15_nd c15_files) = [(6, [[[47]; [97]]; [[47]; [98]]])].
Proof.
  split; [split; intros; cbn; [apply isort_perm|apply Permutation.Permutation_refl]|].
  split; [intros a b st E; cbn [c15_nd fails]; rewrite E; reflexivity|].
  split; [|split; [reflexivity|vm_compute; reflexivity]].
  intros x st [Hx _] E. destruct Hx as [<-|[<-|[<-|[<-|[]]]]]; try reflexivity; cbn in E; discriminate.
Qed.
