(* Props_C15.v — property C15: an unreadable or vanishing file affects only itself.  Statements only.
   The fault oracle `fails : stage -> file -> bool` of the nondeterminism record is PER PATH: it makes the hash of a chunk
   (or the transform) of that path fail.  rehash (K5 repaired) tries the members of a run of one inode in turn, always with
   the old hash of the first member: members whose own read fails are left out (hasher.rs *_or_log_err -> None, a warning
   each), the first member that hashes is the representative for itself and the members after it; if every member fails
   the run disappears (C15_run_semantics).  Directory / stat / readlink faults belong to the walk (engine W) and to the
   runtime half (vlib/props/c15.py with shim/rdshim.c), which also observes warnings, exit status and termination.

   C15_readable_not_lost — for EVERY per-path oracle, order and schedule: a file that can itself be read at every stage is
   never lost because of ANY other failure (of another path of its inode — the former K5 —, or of other files): it is
   reported as soon as the readable members of its class satisfy an over-replication filter (resp. its class satisfies
   an under-replication filter); the group that holds it contains every readable member of its class, only members of
   its class, and passes the final filter; no file is listed twice, only scanned files are listed, no class is split.
   C15_isolated — corollary: a class none of whose members ever fails is reported iff it qualifies, as exactly the class.
   C15_sound_under_faults — every reported group still contains only identical files.
   C15_keyed_has_readable_path (+ _transform) — for every oracle: every member of a reported group with more than one inode
   shares its inode with a path that was read successfully at the prefix stage (and at the contents stage when the
   group was keyed there); C15_failed_never_duplicate (+ _transform): with an inode-determined oracle the member itself
   did not fail, i.e. a file whose read failed is never reported as a duplicate of anything.
   What remains, stated honestly (C15_unread_path_reported): a path that comes AFTER the representative in its run is
   never read at that stage, so its own unreadability goes unnoticed and it is reported with the representative's hash
   (it IS the same inode, so the report is not wrong about contents; it is wrong about readability of that path).
   Not claimed: DESIGN's formulation "= the fault-free run on the scanned files minus the failing ones, hashes
   included" (false for code and model: never-read unreadable files, stale hashes). *)
From FV Require Import Base ListLib GroupModel GroupProofs GroupProofs2 GroupProofs3 GroupProofs4 GroupProofs5 GroupProofs6 GroupProofs8 GroupProofs9 GroupWitness.
Open Scope N_scope.

Theorem C15_run_semantics :
  forall (hf : hash_fn) (old : hash) (run : list item),
    ((forall x, In x run -> hf (snd x) old = None) /\ hash_from hf old run = []) \/
    (exists pre rep suf h len, run = pre ++ rep :: suf /\ (forall x, In x pre -> hf (snd x) old = None) /\
        hf (snd rep) old = Some (h, len) /\
        hash_from hf old run = map (fun y => (h, set_len (snd y) len)) (rep :: suf)).
Proof. exact hash_from_spec. Qed.
Print Assumptions C15_run_semantics.

Theorem C15_readable_not_lost :
  forall (H : list N -> hash) (T : list N -> option (list N)) (c : gcfg) (n : nd) (scanned : list file),
    wf_nd n -> wf_ids scanned -> wf_len scanned -> wf_paths scanned -> collision_free H c scanned ->
    transform c = false -> skip_content c = false ->
    let out := group_files H T c n scanned in
    (forall f, ok c scanned f -> readable n f ->
       (qual_r c n scanned f -> exists g, In g out /\ In f (gfiles g)) /\
       (forall g, In g out -> In f (gfiles g) ->
          (forall x, ok c scanned x -> readable n x -> fdata x = fdata f -> In x (gfiles g)) /\
          (forall x, In x (gfiles g) -> ok c scanned x /\ fdata x = fdata f) /\ matches_strictly c g = true)) /\
    (NoDup (all_files out) /\ forall f, In f (all_files out) -> ok c scanned f) /\
    (forall g g' f f', In g out -> In g' out -> In f (gfiles g) -> In f' (gfiles g') -> fdata f = fdata f' -> g = g').
Proof. exact c15_readable. Qed.
Print Assumptions C15_readable_not_lost.

Theorem C15_isolated :
  forall (H : list N -> hash) (T : list N -> option (list N)) (c : gcfg) (n : nd) (scanned : list file),
    wf_nd n -> wf_ids scanned -> wf_len scanned -> wf_paths scanned -> collision_free H c scanned ->
    transform c = false -> skip_content c = false ->
    let out := group_files H T c n scanned in
    (forall f, ok c scanned f -> clean c n scanned f ->
       ((exists g, In g out /\ In f (gfiles g)) <-> qualifies c scanned f) /\
       (forall g, In g out -> In f (gfiles g) -> is_class c scanned f (gfiles g))) /\
    (NoDup (all_files out) /\ forall f, In f (all_files out) -> ok c scanned f) /\
    (forall g g' f f', In g out -> In g' out -> In f (gfiles g) -> In f' (gfiles g') -> fdata f = fdata f' -> g = g').
Proof. exact c15_isolated_clean. Qed.
Print Assumptions C15_isolated.

Theorem C15_sound_under_faults :
  forall (H : list N -> hash) (T : list N -> option (list N)) (c : gcfg) (n : nd) (scanned : list file),
    wf_nd n -> wf_ids scanned -> wf_len scanned -> collision_free H c scanned ->
    skip_content c = false -> transform c = false ->
    forall g, In g (group_files H T c n scanned) ->
    forall f f', In f (gfiles g) -> In f' (gfiles g) -> fdata f = fdata f' /\ glen g = N.of_nat (length (fdata f)).
Proof. exact c01_sound. Qed.
Print Assumptions C15_sound_under_faults.

Theorem C15_keyed_has_readable_path :
  forall (H : list N -> hash) (T : list N -> option (list N)) (c : gcfg) (n : nd) (scanned : list file),
    wf_nd n -> transform c = false -> skip_content c = false ->
    forall g, In g (group_files H T c n scanned) ->
      one_id (gfiles g) \/
      ((forall f, In f (gfiles g) -> exists rep, fid rep = fid f /\ fails n StPrefix rep = false) /\
       (prefix_len_of c (remove_same_files c (group_by_size c (filter (size_ok c) scanned))) <= glen g ->
        forall f, In f (gfiles g) -> exists rep, fid rep = fid f /\ fails n StContents rep = false)).
Proof. exact c15_keyed_has_readable_path. Qed.
Print Assumptions C15_keyed_has_readable_path.

Theorem C15_keyed_has_readable_path_transform :
  forall (H : list N -> hash) (T : list N -> option (list N)) (c : gcfg) (n : nd) (scanned : list file),
    wf_nd n -> transform c = true ->
    forall g f, In g (group_files H T c n scanned) -> In f (gfiles g) ->
      exists rep, fid rep = fid f /\ fails n StTransform rep = false.
Proof. exact c15_transform_has_readable_path. Qed.
Print Assumptions C15_keyed_has_readable_path_transform.

Theorem C15_failed_never_duplicate :
  forall (H : list N -> hash) (T : list N -> option (list N)) (c : gcfg) (n : nd) (scanned : list file),
    wf_nd n -> inode_determined n -> transform c = false -> skip_content c = false ->
    forall g, In g (group_files H T c n scanned) ->
      one_id (gfiles g) \/
      ((forall f, In f (gfiles g) -> fails n StPrefix f = false) /\
       (prefix_len_of c (remove_same_files c (group_by_size c (filter (size_ok c) scanned))) <= glen g ->
        forall f, In f (gfiles g) -> fails n StContents f = false)).
Proof. exact c15_failed_not_duplicate. Qed.
Print Assumptions C15_failed_never_duplicate.

Theorem C15_failed_never_reported_transform :
  forall (H : list N -> hash) (T : list N -> option (list N)) (c : gcfg) (n : nd) (scanned : list file),
    wf_nd n -> inode_determined n -> transform c = true ->
    forall g f, In g (group_files H T c n scanned) -> In f (gfiles g) -> fails n StTransform f = false.
Proof. exact c15_failed_not_reported_transform. Qed.
Print Assumptions C15_failed_never_reported_transform.

(* The former K5 witness, now a regression instance: /a, /b hard links, /c a copy, only the PATH /a unreadable (not
   inode-determined); /a is tried first and left out, /b and /c are reported. *)
Example C15_K5_regression :
  wf_nd k5_nd /\ fid k5_a = fid k5_b /\ ~ inode_determined k5_nd /\
  (forall st f, fails k5_nd st f = true -> fpath f = fpath k5_a) /\
  shows (group_files toyH idT k5_cfg k5_nd [k5_a; k5_b; k5_c]) = [(3, [[[47]; [98]]; [[47]; [99]]])].
Proof.
  split; [exact k5_wf_nd|]. split; [reflexivity|]. split; [exact k5_not_inode_determined|]. split; [exact k5_only_a|exact k5_regression].
Qed.
(* What remains: with the links in the order /b, /a the unreadable /a comes after the representative, is never read and
   is reported. *)
Example C15_unread_path_reported :
  wf_nd k5_nd_rev /\ fails k5_nd_rev StPrefix k5_a = true /\
  shows (group_files toyH idT k5_cfg k5_nd_rev [k5_a; k5_b; k5_c]) = [(3, [[[47]; [97]]; [[47]; [98]]; [[47]; [99]]])].
Proof. split; [exact k5_wf_nd_rev|]. split; [reflexivity|exact k5_unread_path_reported]. Qed.

(* Non-vacuity: two copies (class X) and two other copies (class Y) one of which cannot be read (inode-determined
   oracle: inode 4 fails everywhere).  Class X has no failing member and is reported; of class Y only one readable
   file is left, which is no duplicate. *)
Definition c15_files : list file :=
  [mkf 97 1 6 [1;2;3;4;5;6]; mkf 98 2 6 [1;2;3;4;5;6]; mkf 99 4 6 [1;2;3;4;5;7]; mkf 100 5 6 [1;2;3;4;5;7]].
Definition c15_nd : nd := mknd (fun _ _ l => isort loc_leb l) (fun _ l => l) (fun _ f => snd (fid f) =? 4).
Example C15_instance :
  wf_nd c15_nd /\ inode_determined c15_nd /\ clean ex_cfg c15_nd c15_files (mkf 97 1 6 [1;2;3;4;5;6]) /\
  readable c15_nd (mkf 100 5 6 [1;2;3;4;5;7]) /\
  fails c15_nd StPrefix (mkf 99 4 6 [1;2;3;4;5;7]) = true /\
  shows (group_files toyH idT ex_cfg c15_nd c15_files) = [(6, [[[47]; [97]]; [[47]; [98]]])].
Proof.
  split; [split; intros; cbn; [apply isort_perm|apply Permutation.Permutation_refl]|].
  split; [intros a b st E; cbn [c15_nd fails]; rewrite E; reflexivity|].
  split; [|split; [intros st; reflexivity|split; [reflexivity|vm_compute; reflexivity]]].
  intros x st [Hx _] E. destruct Hx as [<-|[<-|[<-|[<-|[]]]]]; try reflexivity; cbn in E; discriminate.
Qed.
