(* WalkProofs.v — the declarative reading of the scan options (`selected`) and the link between
   one task of the model (`step`) and that reading.  Engine W, property C09.
   Further parts: WalkProofs2.v (work-list lemmas: soundness, completeness without link following,
   termination), WalkProofs3.v (completeness with link following under route-independent options,
   pruning conservativity, deduplication, witnesses of the known findings). *)
From FV Require Import Base WalkModel.
From Coq Require Import Permutation.
Open Scope N_scope.

(* ---------------------------------------------------------------------------------------------- *)
(* small generic facts *)

Lemma path_eqb_true a b : path_eqb a b = true <-> a = b.
Proof. unfold path_eqb. destruct (path_eq_dec a b); split; congruence. Qed.

Lemma mem_true p l : mem p l = true <-> In p l.
Proof. unfold mem. destruct (in_dec path_eq_dec p l); split; auto; discriminate. Qed.

Lemma mem_false p l : mem p l = false <-> ~ In p l.
Proof. unfold mem. destruct (in_dec path_eq_dec p l); split; auto; try discriminate; tauto. Qed.

Definition prefix (d p : path) : Prop := exists r, p = d ++ r.

Lemma prefix_refl p : prefix p p.
Proof. exists []. now rewrite app_nil_r. Qed.

Lemma prefix_trans a b c : prefix a b -> prefix b c -> prefix a c.
Proof. intros [r ->] [s ->]. exists (r ++ s). now rewrite app_assoc. Qed.

Lemma parent_is_spec d q : parent_is d q = true <-> exists n, q = d ++ [n].
Proof.
  unfold parent_is. destruct q as [|a q].
  - split; [discriminate|]. intros [n H]. destruct d; discriminate.
  - rewrite path_eqb_true. split.
    + intros <-. exists (last (a :: q) []). apply app_removelast_last. discriminate.
    + intros [n ->]. apply removelast_last.
Qed.

Lemma lookup_in_keys t p nd : lookup t p = Some nd -> In p (keys t).
Proof.
  unfold keys. rewrite nodup_In. induction t as [|[q n] t IH]; cbn; [discriminate|].
  destruct (path_eq_dec q p); auto.
Qed.

Lemma keys_NoDup t : NoDup (keys t).
Proof. apply NoDup_nodup. Qed.

Lemma children_spec t d q : In q (children t d) <-> In q (keys t) /\ exists n, q = d ++ [n].
Proof. unfold children. rewrite filter_In, parent_is_spec. tauto. Qed.

Lemma children_prefix t d q : In q (children t d) -> prefix d q.
Proof. rewrite children_spec. intros [_ [n ->]]. now exists [n]. Qed.

Lemma children_NoDup t d : NoDup (children t d).
Proof. apply NoDup_filter, keys_NoDup. Qed.

(* the directory filter of visit_path looks at the path itself, or (regular file, link) at its parent *)
Lemma filter_parent_prefixes (sd : path -> bool) p :
  (forall d, prefix d p -> d <> p -> sd d = true) -> filter_parent sd p = true.
Proof.
  intros H. unfold filter_parent. destruct p as [|a q]; [reflexivity|]. apply H.
  - exists [last (a :: q) []]. apply app_removelast_last. discriminate.
  - intros E. assert (Hl : length (removelast (a :: q)) = length (a :: q)) by now rewrite E.
    rewrite (app_removelast_last (l := a :: q) []) in Hl at 2 by discriminate.
    rewrite app_length in Hl. cbn in Hl. lia.
Qed.

Lemma filter_ok_prefixes (sd : path -> bool) nd p :
  (forall d, prefix d p -> (d = p -> is_file_kind nd = false /\ is_link_kind nd = false) -> sd d = true) ->
  filter_ok sd nd p = true.
Proof.
  intros H. unfold filter_ok, is_file_kind, is_link_kind in *. destruct (n_kind nd) eqn:Ek.
  - apply filter_parent_prefixes. intros d Hd Hne. apply H; auto. intros E. congruence.
  - apply H; [apply prefix_refl|auto].
  - apply filter_parent_prefixes. intros d Hd Hne. apply H; auto. intros E. congruence.
  - apply H; [apply prefix_refl|auto].
Qed.

Lemma filter_ok_all (sd : path -> bool) nd p : (forall d, prefix d p -> sd d = true) -> filter_ok sd nd p = true.
Proof. intros H. apply filter_ok_prefixes. auto. Qed.

Lemma filter_ok_mono (sd1 sd2 : path -> bool) nd p :
  (forall d, sd1 d = true -> sd2 d = true) -> filter_ok sd1 nd p = true -> filter_ok sd2 nd p = true.
Proof. intros H. unfold filter_ok, filter_parent. destruct (n_kind nd); auto; destruct p; auto. Qed.

(* ---------------------------------------------------------------------------------------------- *)
Section Spec.
  Variable sel_file : path -> bool.
  Variable sel_dir : path -> bool.
  Variable ign1 : path -> path -> bool -> bool.
  Variable t : tree.
  Variable c : config.

  Notation step := (step sel_file sel_dir ign1 t c).
  Notation ignored := (ignored ign1).

  (* ------------------------------------------------------------------------------------------ *)
  (* The declarative reading.  A "visit" is a task: the path looked at, the number of directory
     levels below the input path, the ignore files collected on the way, the device of the input
     path.  `pr` switches directory pruning (the matches_dir tests) on; the documented meaning of the
     options is pr = false.                                                                      *)

  (* the visit passes the per-entry tests: the entry exists, (visit_path only, with pruning: the directory
     filter accepts the parent of a regular file / the path itself for every other entry type), its name is not hidden unless --hidden or it is visited at level 0 (an input path,
     or what an input path that is a link points to), no ignore file collected on the way matches it
     unless --no-ignore *)
  Definition enters (pr : bool) (tk : task) (nd : node) : Prop :=
    lookup t (t_path tk) = Some nd /\
    (t_kind tk = TPath -> pr = true -> filter_ok sel_dir nd (t_path tk) = true) /\
    (c_hidden c = true \/ t_level tk = 0 \/ name_hidden (t_path tk) = false) /\
    (c_no_ignore c = true \/ ignored (t_stack tk) (t_path tk) (is_dir_kind nd) = false).

  Definition listed (q : path) : Prop :=
    kind_at t is_dir_kind q = true \/ kind_at t is_link_kind q = true \/ kind_at t is_file_kind q = true.

  Inductive edge (pr : bool) (tk : task) : task -> Prop :=
  | E_child nd q :
      enters pr tk nd -> n_kind nd = KDir ->
      t_level tk < c_depth c ->                                        (* --depth *)
      (pr = true -> sel_dir (t_path tk) = true) ->
      (c_one_fs c = true -> same_fs t (t_path tk) (t_dev tk) = true) ->     (* --one-fs *)
      In q (children t (t_path tk)) -> listed q ->
      edge pr tk (mkTask TEntry q (t_level tk + 1)
                         (if c_no_ignore c then t_stack tk else t_stack tk ++ [t_path tk]) (t_dev tk))
  | E_link nd ab tg target tnd :
      enters pr tk nd -> n_kind nd = KLink ab tg ->
      c_follow c = true ->                                             (* --follow-links *)
      resolve_link t (t_path tk) ab tg = Some (target, tnd) ->
      (is_file_kind tnd = true -> c_report c = false) ->               (* with -S links to files are reported, not followed *)
      (c_one_fs c = true -> same_fs t target (t_dev tk) = true) ->
      edge pr tk (mkTask TPath target (t_level tk) (t_stack tk) (t_dev tk)).

  (* the visit reports x: a regular file, or (with -S) a link whose final target is a regular file,
     that the selector matches *)
  Definition emits (pr : bool) (tk : task) (x : path) : Prop :=
    exists nd, enters pr tk nd /\ x = t_path tk /\ sel_file x = true /\
      (is_file_kind nd = true \/
       exists ab tg target tnd, n_kind nd = KLink ab tg /\ c_report c = true /\
                                resolve_link t (t_path tk) ab tg = Some (target, tnd) /\ is_file_kind tnd = true).

  Inductive visits (pr : bool) (roots : list (list comp)) : task -> Prop :=
  | V_root tk : In tk (root_tasks t c roots) -> visits pr roots tk
  | V_step tk tk' : visits pr roots tk -> edge pr tk tk' -> visits pr roots tk'.

  Definition selected (pr : bool) (roots : list (list comp)) (x : path) : Prop :=
    exists tk, visits pr roots tk /\ emits pr tk x.

  (* what the input paths contribute (Walk::run) *)
  Lemma root_tasks_spec roots tk :
    In tk (root_tasks t c roots) <->
    exists raw nd, In raw roots /\ stat t (absolute t raw) = Some nd /\
                   (is_dir_kind nd = true -> c_depth c <> 0) /\
                   tk = mkTask TPath (absolute t raw) 0 [] (n_dev nd).
  Proof.
    unfold root_tasks. rewrite in_flat_map. split.
    - intros (raw & Hin & H). unfold root_task in H.
      destruct (stat t (absolute t raw)) as [nd|] eqn:E; [|destruct H].
      destruct (is_dir_kind nd && (c_depth c =? 0)) eqn:E2; [destruct H|].
      destruct H as [<-|[]]. exists raw, nd. repeat split; auto.
      intros Hd Hz. rewrite Hd in E2. apply N.eqb_eq in Hz. rewrite Hz in E2. discriminate.
    - intros (raw & nd & Hin & Hs & Hd & ->). exists raw. split; auto.
      unfold root_task. rewrite Hs.
      destruct (is_dir_kind nd) eqn:E; cbn [andb].
      + destruct (N.eqb_spec (c_depth c) 0) as [Hz|Hz]; [now elim Hd|now left].
      + now left.
  Qed.

  (* pruning only removes visits *)
  Lemma enters_mono tk nd : enters true tk nd -> enters false tk nd.
  Proof. intros (H1 & H2 & H3 & H4). repeat split; auto; discriminate. Qed.

  Lemma edge_mono tk tk' : edge true tk tk' -> edge false tk tk'.
  Proof.
    intros H. destruct H.
    - eapply E_child; eauto using enters_mono; discriminate.
    - eapply E_link; eauto using enters_mono.
  Qed.

  Lemma visits_mono roots tk : visits true roots tk -> visits false roots tk.
  Proof. induction 1; [now apply V_root|eapply V_step; eauto using edge_mono]. Qed.

  Lemma selected_mono roots x : selected true roots x -> selected false roots x.
  Proof.
    intros (tk & Hv & nd & He & H). exists tk. split; [now apply visits_mono|].
    exists nd. split; auto using enters_mono.
  Qed.

  (* ------------------------------------------------------------------------------------------ *)
  (* one task of the model against the declarative reading *)

  Definition news0 (tk : task) : list task := fst (fst (step [] tk)).
  Definition outs0 (tk : task) : list path := snd (step [] tk).

  Lemma sorted_entries_In d q : In q (sorted_entries t d) <-> In q (children t d) /\ listed q.
  Proof.
    unfold sorted_entries, listed. rewrite !in_app_iff, !filter_In. tauto.
  Qed.

  (* the tests before the visited set is consulted: the entry exists, (visit_path) matches_dir, not hidden *)
  Definition pre_b (tk : task) : option node :=
    match lookup t (t_path tk) with
    | None => None
    | Some nd =>
      if (match t_kind tk with TPath => filter_ok sel_dir nd (t_path tk) | TEntry => true end)
           && negb (negb (c_hidden c) && (0 <? t_level tk) && name_hidden (t_path tk))
      then Some nd else None
    end.

  Definition ign_b (tk : task) (nd : node) : bool :=
    negb (c_no_ignore c) && ignored (t_stack tk) (t_path tk) (is_dir_kind nd).

  (* what the task does after the visited set has been consulted *)
  Definition body (tk : task) (nd : node) : list task * list path :=
    if ign_b tk nd then ([], [])
    else match n_kind nd with
         | KFile _ => ([], visit_file sel_file (t_path tk))
         | KDir => (visit_dir sel_dir t c (t_path tk) (t_level tk) (t_stack tk) (t_dev tk), [])
         | KLink ab tg => visit_link sel_file t c (t_path tk) ab tg (t_level tk) (t_stack tk) (t_dev tk)
         | KOther => ([], [])
         end.

  (* normal form of one task *)
  Lemma step_eq vis tk :
    step vis tk =
    match pre_b tk with
    | None => ([], vis, [])
    | Some nd =>
      if c_follow c && mem (t_path tk) vis then ([], vis, [])
      else (fst (body tk nd), (if c_follow c then t_path tk :: vis else vis), snd (body tk nd))
    end.
  Proof.
    unfold step, pre_b, body, ign_b. destruct (lookup t (t_path tk)) as [nd|]; [|reflexivity].
    unfold visit_entry.
    destruct (t_kind tk).
    - destruct (filter_ok sel_dir nd (t_path tk)); cbn [andb]; [|reflexivity].
      destruct (negb (c_hidden c) && (0 <? t_level tk) && name_hidden (t_path tk)); cbn [negb]; [reflexivity|].
      destruct (c_follow c && mem (t_path tk) vis); [reflexivity|].
      destruct (negb (c_no_ignore c) && ignored (t_stack tk) (t_path tk) (is_dir_kind nd)); [reflexivity|].
      destruct (n_kind nd); try reflexivity.
    - cbn [andb].
      destruct (negb (c_hidden c) && (0 <? t_level tk) && name_hidden (t_path tk)); cbn [negb]; [reflexivity|].
      destruct (c_follow c && mem (t_path tk) vis); [reflexivity|].
      destruct (negb (c_no_ignore c) && ignored (t_stack tk) (t_path tk) (is_dir_kind nd)); [reflexivity|].
      destruct (n_kind nd); try reflexivity.
  Qed.

  Lemma enters_true_iff tk nd : enters true tk nd <-> pre_b tk = Some nd /\ ign_b tk nd = false.
  Proof.
    unfold enters, pre_b, ign_b. split.
    - intros (H1 & H2 & H3 & H4). rewrite H1. split.
      + assert (E1 : match t_kind tk with TPath => filter_ok sel_dir nd (t_path tk) | TEntry => true end = true).
        { destruct (t_kind tk); auto. }
        rewrite E1. cbn [andb].
        destruct H3 as [-> | [-> | ->]]; cbn; [reflexivity| |].
        * now rewrite andb_false_r.
        * now rewrite andb_false_r.
      + destruct H4 as [-> | ->]; cbn; auto. now rewrite andb_false_r.
    - intros [H1 H2]. destruct (lookup t (t_path tk)) as [nd'|]; [|discriminate].
      destruct (match t_kind tk with TPath => filter_ok sel_dir nd' (t_path tk) | TEntry => true end) eqn:E1; [|discriminate].
      cbn [andb] in H1.
      destruct (negb (c_hidden c) && (0 <? t_level tk) && name_hidden (t_path tk)) eqn:E2; [discriminate|].
      cbn [negb] in H1. injection H1 as ->. repeat split; auto.
      + intros Hk _. now rewrite Hk in E1.
      + destruct (c_hidden c); cbn in E2; auto.
        destruct (0 <? t_level tk) eqn:El; cbn in E2; auto.
        apply N.ltb_ge in El. right. left. lia.
      + destruct (c_no_ignore c); cbn in H2; auto.
  Qed.

  Lemma news0_eq tk : news0 tk = match pre_b tk with Some nd => fst (body tk nd) | None => [] end.
  Proof.
    unfold news0. rewrite step_eq. destruct (pre_b tk); [|reflexivity].
    cbn [mem]. replace (c_follow c && mem (t_path tk) []) with false; [reflexivity|].
    unfold mem. destruct (in_dec path_eq_dec (t_path tk) []) as [[]|]. now rewrite andb_false_r.
  Qed.

  Lemma outs0_eq tk : outs0 tk = match pre_b tk with Some nd => snd (body tk nd) | None => [] end.
  Proof.
    unfold outs0. rewrite step_eq. destruct (pre_b tk); [|reflexivity].
    replace (c_follow c && mem (t_path tk) []) with false; [reflexivity|].
    unfold mem. destruct (in_dec path_eq_dec (t_path tk) []) as [[]|]. now rewrite andb_false_r.
  Qed.

  (* the tasks spawned by a task are exactly the declarative edges (with pruning) *)
  Lemma news0_edge tk tk' : In tk' (news0 tk) <-> edge true tk tk'.
  Proof.
    rewrite news0_eq. split.
    - destruct (pre_b tk) as [nd|] eqn:Ep; [|intros []].
      unfold body. destruct (ign_b tk nd) eqn:Ei; [intros []|].
      assert (He : enters true tk nd) by (apply enters_true_iff; auto).
      destruct (n_kind nd) as [len| |ab tg|] eqn:Ek; cbn [fst]; try (intros []).
      + (* directory *)
        unfold visit_dir.
        destruct (c_depth c <=? t_level tk) eqn:Ed; [intros []|].
        destruct (sel_dir (t_path tk)) eqn:Es; cbn [negb]; [|intros []].
        destruct (c_one_fs c && negb (same_fs t (t_path tk) (t_dev tk))) eqn:Eo; [intros []|].
        rewrite in_map_iff. intros (q & <- & Hq). apply sorted_entries_In in Hq. destruct Hq as [Hq Hl].
        eapply E_child; eauto.
        * apply N.leb_gt in Ed. exact Ed.
        * intros Ho. rewrite Ho in Eo. cbn in Eo. now destruct (same_fs t (t_path tk) (t_dev tk)).
      + (* link *)
        unfold visit_link.
        destruct (c_follow c || c_report c) eqn:Efr; [|intros []].
        destruct (resolve_link t (t_path tk) ab tg) as [[target tnd]|] eqn:Er; [|intros []].
        destruct (is_file_kind tnd && c_report c) eqn:Efk; [intros []|].
        destruct (c_follow c && (negb (c_one_fs c) || same_fs t target (t_dev tk))) eqn:Ef; [|intros []].
        cbn [fst]. intros [<-|[]].
        apply andb_true_iff in Ef. destruct Ef as [Ef Eo].
        eapply E_link; eauto.
        * intros Hf. rewrite Hf in Efk. cbn in Efk. exact Efk.
        * intros Ho. rewrite Ho in Eo. cbn in Eo. exact Eo.
    - intros H. destruct H as [nd q He Hk Hd Hs Ho Hq Hl | nd ab tg target tnd He Hk Hf Hr Hfk Ho].
      + apply enters_true_iff in He. destruct He as [-> Hi].
        unfold body. rewrite Hi, Hk. cbn [fst]. unfold visit_dir.
        apply N.leb_gt in Hd. rewrite Hd. rewrite (Hs eq_refl). cbn [negb].
        replace (c_one_fs c && negb (same_fs t (t_path tk) (t_dev tk))) with false.
        2:{ destruct (c_one_fs c); cbn; auto. now rewrite Ho. }
        apply in_map_iff. exists q. split; auto. apply sorted_entries_In. auto.
      + apply enters_true_iff in He. destruct He as [-> Hi].
        unfold body. rewrite Hi, Hk. unfold visit_link. rewrite Hf. cbn [orb]. rewrite Hr.
        replace (is_file_kind tnd && c_report c) with false.
        2:{ destruct (is_file_kind tnd); cbn; auto. now rewrite Hfk. }
        replace (negb (c_one_fs c) || same_fs t target (t_dev tk)) with true.
        2:{ destruct (c_one_fs c); cbn; auto. now rewrite Ho. }
        cbn. now left.
  Qed.

  (* the paths sent to the consumer by a task are exactly the declarative reports (with pruning) *)
  Lemma outs0_emits tk x : In x (outs0 tk) <-> emits true tk x.
  Proof.
    rewrite outs0_eq. split.
    - destruct (pre_b tk) as [nd|] eqn:Ep; [|intros []].
      unfold body. destruct (ign_b tk nd) eqn:Ei; [intros []|].
      assert (He : enters true tk nd) by (apply enters_true_iff; auto).
      destruct (n_kind nd) as [len| |ab tg|] eqn:Ek; cbn [snd]; try (intros []).
      + unfold visit_file. destruct (sel_file (t_path tk)) eqn:Es; [|intros []].
        intros [<-|[]]. exists nd. split; [exact He|]. split; [reflexivity|]. split; [exact Es|].
        left. unfold is_file_kind. now rewrite Ek.
      + unfold visit_link.
        destruct (c_follow c || c_report c) eqn:Efr; [|intros []].
        destruct (resolve_link t (t_path tk) ab tg) as [[target tnd]|] eqn:Er; [|intros []].
        destruct (is_file_kind tnd && c_report c) eqn:Efk.
        * cbn [snd]. unfold visit_file. destruct (sel_file (t_path tk)) eqn:Es; [|intros []].
          intros [<-|[]]. apply andb_true_iff in Efk. destruct Efk as [Hfk Hrp].
          exists nd. split; [exact He|]. split; [reflexivity|]. split; [exact Es|].
          right. exists ab, tg, target, tnd. auto.
        * destruct (c_follow c && (negb (c_one_fs c) || same_fs t target (t_dev tk))); intros [].
    - intros (nd & He & -> & Hs & Hk). apply enters_true_iff in He. destruct He as [-> Hi].
      unfold body. rewrite Hi. destruct Hk as [Hk | (ab & tg & target & tnd & Hk & Hrp & Hr & Hfk)].
      + unfold is_file_kind in Hk. destruct (n_kind nd); try discriminate.
        cbn [snd]. unfold visit_file. rewrite Hs. now left.
      + rewrite Hk. unfold visit_link. rewrite Hrp, orb_true_r, Hr, Hfk. cbn.
        unfold visit_file. rewrite Hs. now left.
  Qed.

  (* a task run against a visited set does nothing, or what it does with an empty visited set *)
  Lemma step_sub vis tk new vis' o :
    step vis tk = (new, vis', o) ->
    (new = [] /\ o = [] /\ vis' = vis) \/
    (new = news0 tk /\ o = outs0 tk /\ vis' = (if c_follow c then t_path tk :: vis else vis) /\
     (c_follow c = true -> ~ In (t_path tk) vis) /\ exists nd, pre_b tk = Some nd).
  Proof.
    rewrite step_eq, news0_eq, outs0_eq. destruct (pre_b tk) as [nd|].
    - destruct (c_follow c && mem (t_path tk) vis) eqn:E.
      + intros H. injection H as <- <- <-. now left.
      + intros H. injection H as <- <- <-. right. repeat split; eauto.
        intros Hf. rewrite Hf in E. cbn in E. now apply mem_false.
    - intros H. injection H as <- <- <-. now left.
  Qed.

  Lemma step_nofollow vis tk : c_follow c = false -> step vis tk = (news0 tk, vis, outs0 tk).
  Proof.
    intros Hf. rewrite step_eq, news0_eq, outs0_eq, Hf. cbn [andb]. now destruct (pre_b tk).
  Qed.
  (* the three things a task can do, told apart *)
  Lemma step_cases vis tk new vis' o :
    step vis tk = (new, vis', o) ->
    (pre_b tk = None /\ new = [] /\ o = [] /\ vis' = vis) \/
    (exists nd, pre_b tk = Some nd /\ c_follow c = true /\ In (t_path tk) vis /\ new = [] /\ o = [] /\ vis' = vis) \/
    (exists nd, pre_b tk = Some nd /\ (c_follow c = true -> ~ In (t_path tk) vis) /\
                new = news0 tk /\ o = outs0 tk /\ vis' = (if c_follow c then t_path tk :: vis else vis)).
  Proof.
    rewrite step_eq, news0_eq, outs0_eq. destruct (pre_b tk) as [nd|].
    - destruct (c_follow c && mem (t_path tk) vis) eqn:E.
      + intros H. injection H as <- <- <-. right. left. apply andb_true_iff in E. destruct E as [E1 E2].
        apply mem_true in E2. exists nd. auto 10.
      + intros H. injection H as <- <- <-. right. right. exists nd. repeat split; auto.
        intros Hf. rewrite Hf in E. cbn in E. now apply mem_false.
    - intros H. injection H as <- <- <-. now left.
  Qed.
End Spec.
