(* EffectsProofs4.v — engine X, part 4: from a report to a plan.  The commands that dedupe() emits for a report
   that satisfies C01 /\ C03 w.r.t. the current state form a [plan_ok] plan (operations other than move):
   victims are pairwise different report paths, never a retained path, temps are fresh siblings. *)
From Coq Require Import Permutation.
From FV Require Import Base SortLib DedupeModel DedupeProofs.
From FV Require Import FsModel AtomicModel AtomicProofs AtomicProofs2 AtomicProofs3 AtomicProofs4.
From FV Require Import EffectsModel EffectsProofs EffectsProofs2 EffectsProofs3.
Open Scope N_scope.

(* ---------------------------------------------------------------- sub-multisets *)
Definition subperm {A} (l l' : list A) : Prop := exists r, Permutation (l ++ r) l'.

Lemma subperm_refl {A} (l : list A) : subperm l l.
Proof. exists []. now rewrite app_nil_r. Qed.
Lemma subperm_nil {A} (l : list A) : subperm [] l.
Proof. exists l. reflexivity. Qed.
Lemma subperm_perm {A} (l l' : list A) : Permutation l l' -> subperm l l'.
Proof. intros H. exists []. now rewrite app_nil_r. Qed.
Lemma subperm_trans {A} (a b c : list A) : subperm a b -> subperm b c -> subperm a c.
Proof.
  intros (r1 & H1) (r2 & H2). exists (r1 ++ r2). rewrite app_assoc.
  eapply perm_trans; [apply Permutation_app_tail, H1|exact H2].
Qed.
Lemma subperm_app {A} (a a' b b' : list A) : subperm a a' -> subperm b b' -> subperm (a ++ b) (a' ++ b').
Proof.
  intros (r1 & H1) (r2 & H2). exists (r1 ++ r2).
  eapply perm_trans; [|apply Permutation_app; [exact H1|exact H2]].
  rewrite <- !app_assoc. apply Permutation_app_head. rewrite !app_assoc. apply Permutation_app_tail. apply Permutation_app_comm.
Qed.
Lemma subperm_app_l {A} (a b : list A) : subperm a (a ++ b).
Proof. exists b. reflexivity. Qed.
Lemma subperm_app_r {A} (a b : list A) : subperm b (a ++ b).
Proof. exists a. apply Permutation_app_comm. Qed.
Lemma subperm_map {A B} (f : A -> B) (l l' : list A) : subperm l l' -> subperm (map f l) (map f l').
Proof. intros (r & H). exists (map f r). rewrite <- map_app. now apply Permutation_map. Qed.
Lemma subperm_filter {A} (p : A -> bool) (l : list A) : subperm (filter p l) l.
Proof. exists (filter (fun x => negb (p x)) l). apply filter_split_perm. Qed.
Lemma subperm_NoDup {A} (l l' : list A) : subperm l l' -> NoDup l' -> NoDup l.
Proof.
  intros (r & H) Hn. apply (Permutation_NoDup (Permutation_sym H)) in Hn. now apply NoDup_app_inv in Hn.
Qed.
Lemma subperm_in {A} (l l' : list A) x : subperm l l' -> In x l -> In x l'.
Proof. intros (r & H) Hx. apply (Permutation_in _ H). apply in_or_app. auto. Qed.
Lemma subperm_concat {A} (ls ls' : list (list A)) : Forall2 subperm ls ls' -> subperm (concat ls) (concat ls').
Proof. induction 1; cbn [concat]; [apply subperm_refl|]. now apply subperm_app. Qed.

(* ---------------------------------------------------------------- metadata of the report paths *)
Lemma opt_seq_map_some {A B} (f : A -> option B) (l : list A) (r : list B) :
  opt_seq (map f l) = Some r -> Forall2 (fun a b => f a = Some b) l r.
Proof.
  revert r; induction l as [|a l IH]; intros r; cbn [map opt_seq].
  - intros H; injection H as <-. constructor.
  - destruct (f a) as [b|] eqn:E; [|discriminate]. destruct (opt_seq (map f l)) as [r'|]; [|discriminate].
    intros H; injection H as <-. constructor; auto.
Qed.
Lemma stat_fs_path ax s p m : stat_fs ax s p = Some m -> mpath m = p.
Proof.
  unfold stat_fs. destruct (rresolve LINK_FUEL s p) as [q i| |]; try discriminate.
  - destruct (inodes s i); [|discriminate]. intros H; injection H as <-. reflexivity.
  - intros H; injection H as <-. reflexivity.
Qed.
Lemma stat_files ax s ps files : opt_seq (map (stat_fs ax s) ps) = Some files ->
  map mpath files = ps /\ forall m, In m files -> stat_fs ax s (mpath m) = Some m.
Proof.
  intros H. apply opt_seq_map_some in H. induction H as [|p m ps files Hpm H IH]; [split; [reflexivity|intros m []]|].
  destruct IH as [IH1 IH2]. pose proof (stat_fs_path _ _ _ _ Hpm) as E. split.
  - cbn [map]. now rewrite E, IH1.
  - intros m' [<-|Hm]; [now rewrite E|auto].
Qed.

(* ---------------------------------------------------------------- the decisions of one group *)
Definition gparts (op : dop) (files : list meta) : list (list meta) :=
  if cross_device_disallowed op then by_device files else [files].
Lemma gparts_perm op files : Permutation (concat (gparts op files)) files.
Proof. unfold gparts. destruct (cross_device_disallowed op); [apply by_device_perm|cbn; now rewrite app_nil_r]. Qed.

(* (kept, dropped) of every part whose partition succeeded *)
Definition decision (c : dcfg) (glen : N) (part : list meta) : list meta * list meta :=
  match partition c glen part with Ok kd => kd | _ => ([], []) end.
Definition part_cmds (op : dop) (c : dcfg) (sm : path -> path -> bool) (glen : N) (part : list meta) : list cmd :=
  match partition c glen part with
  | Ok (k, d) => match script_o op sm k d with Ok l => l | _ => [] end
  | _ => []
  end.

Lemma group_cmds_parts op c sm glen ms files : opt_seq ms = Some files ->
  group_cmds (dedupe_group op c sm glen ms) = flat_map (part_cmds op c sm glen) (gparts op files).
Proof.
  intros E. unfold dedupe_group. rewrite E. cbn [group_cmds]. fold (gparts op files).
  induction (gparts op files) as [|part ps IH]; cbn [map flat_map]; [reflexivity|].
  rewrite IH. f_equal. unfold part_cmds. cbn [snd]. destruct (partition c glen part) as [[k d]| |]; reflexivity.
Qed.
Lemma group_cmds_nometa op c sm glen ms : opt_seq ms = None -> group_cmds (dedupe_group op c sm glen ms) = [].
Proof. intros E. unfold dedupe_group. now rewrite E. Qed.

Lemma part_cmds_spec op c sm glen part :
  map cmd_victim (part_cmds op c sm glen part) = snd (decision c glen part) /\
  (forall x t, In x (part_cmds op c sm glen part) -> cmd_target x = Some t -> In t (fst (decision c glen part))).
Proof.
  unfold part_cmds, decision. destruct (partition c glen part) as [[k d]| |] eqn:E; cbn [fst snd]; try (split; [reflexivity|intros x t []]).
  destruct (c08_script op sm _ _ _ _ _ E) as (cmds & Hs & Hv & Ht). rewrite Hs. split; [exact Hv|].
  intros x t Hx Hxt. eapply Ht; eauto.
Qed.
Lemma decision_sub c glen part : subperm (fst (decision c glen part) ++ snd (decision c glen part)) part.
Proof.
  unfold decision. destruct (partition c glen part) as [[k d]| |] eqn:E; cbn [fst snd app]; try apply subperm_nil.
  eapply subperm_trans; [apply subperm_perm, (c08_members _ _ _ _ _ E)|].
  unfold survivors. destruct (no_size c).
  - apply subperm_filter.
  - eapply subperm_trans; apply subperm_filter.
Qed.

(* kept ++ dropped over all parts of a group is a sub-multiset of the group's files *)
Definition group_kd (op : dop) (c : dcfg) (glen : N) (files : list meta) : list meta :=
  flat_map (fun part => fst (decision c glen part) ++ snd (decision c glen part)) (gparts op files).
Lemma group_kd_sub op c glen files : subperm (group_kd op c glen files) files.
Proof.
  eapply subperm_trans; [|apply subperm_perm, (gparts_perm op files)].
  unfold group_kd. induction (gparts op files) as [|part ps IH]; cbn [flat_map concat]; [apply subperm_refl|].
  apply subperm_app; [apply decision_sub|exact IH].
Qed.

(* ---------------------------------------------------------------- the decisions of the whole run *)
Section Run.
  Variables (ax : aux) (op : dop) (c : dcfg) (sm : path -> path -> bool) (s : fs).

  Definition gfiles (g : rgroup) : list meta :=
    match opt_seq (map (stat_fs ax s) (gpaths g)) with Some f => f | None => [] end.
  Definition gdecisions (g : rgroup) : list (list meta * list meta) :=
    match opt_seq (map (stat_fs ax s) (gpaths g)) with
    | Some f => map (decision c (glen g)) (gparts op f)
    | None => []
    end.
  Definition decisions (r : report) : list (list meta * list meta) := flat_map gdecisions r.
  Definition all_dropped (r : report) : list meta := flat_map snd (decisions r).
  Definition all_kept (r : report) : list meta := flat_map fst (decisions r).

  Lemma group_script_victims g : map cmd_victim (group_script ax op c sm s g) = flat_map snd (gdecisions g).
  Proof.
    unfold group_script, gdecisions. destruct (opt_seq (map (stat_fs ax s) (gpaths g))) as [files|] eqn:E.
    - rewrite (group_cmds_parts _ _ _ _ _ _ E).
      induction (gparts op files) as [|part ps IH]; cbn [flat_map map]; [reflexivity|].
      rewrite map_app, IH. f_equal. apply part_cmds_spec.
    - now rewrite (group_cmds_nometa _ _ _ _ _ E).
  Qed.
  Lemma group_script_targets g x t : In x (group_script ax op c sm s g) -> cmd_target x = Some t ->
    In t (flat_map fst (gdecisions g)).
  Proof.
    unfold group_script, gdecisions. destruct (opt_seq (map (stat_fs ax s) (gpaths g))) as [files|] eqn:E.
    - rewrite (group_cmds_parts _ _ _ _ _ _ E). intros Hx Ht. apply in_flat_map in Hx. destruct Hx as (part & Hp & Hx).
      apply in_flat_map. exists (decision c (glen g) part). split; [now apply in_map|].
      eapply part_cmds_spec; eauto.
    - rewrite (group_cmds_nometa _ _ _ _ _ E). intros [].
  Qed.

  Lemma run_victims r : map cmd_victim (run_cmds ax op c sm s r) = all_dropped r.
  Proof.
    unfold run_cmds, script_items, all_dropped, decisions.
    induction r as [|g r IH]; cbn [map concat flat_map]; [reflexivity|].
    rewrite map_app, flat_map_app, IH, group_script_victims. reflexivity.
  Qed.
  Lemma run_targets r x t : In x (run_cmds ax op c sm s r) -> cmd_target x = Some t -> In t (all_kept r).
  Proof.
    unfold run_cmds, script_items, all_kept, decisions.
    induction r as [|g r IH]; cbn [map concat flat_map]; [intros []|].
    intros Hx Ht. rewrite flat_map_app. apply in_or_app. apply in_app_or in Hx. destruct Hx as [Hx|Hx].
    - left. eapply group_script_targets; eauto.
    - right. apply IH; auto.
  Qed.

  (* kept and dropped files of all decisions, as paths, are a sub-multiset of the report paths *)
  Lemma pairs_perm {A} (ps : list (list A * list A)) :
    Permutation (flat_map snd ps ++ flat_map fst ps) (flat_map (fun kd => fst kd ++ snd kd) ps).
  Proof.
    induction ps as [|[k d] ps IH]; cbn [flat_map fst snd]; [reflexivity|].
    eapply perm_trans; [|apply Permutation_app_head, IH].
    rewrite <- !app_assoc.
    eapply perm_trans; [apply Permutation_app_head, Permutation_app_swap_app|]. apply Permutation_app_swap_app.
  Qed.

  Lemma gdecisions_sub g : subperm (map mpath (flat_map (fun kd => fst kd ++ snd kd) (gdecisions g))) (gpaths g).
  Proof.
    unfold gdecisions. destruct (opt_seq (map (stat_fs ax s) (gpaths g))) as [files|] eqn:E; [|apply subperm_nil].
    destruct (stat_files _ _ _ _ E) as [Hm _]. rewrite <- Hm. apply subperm_map.
    rewrite flat_map_concat_map, map_map, <- flat_map_concat_map. apply group_kd_sub.
  Qed.

  Lemma decisions_sub r : subperm (map mpath (all_dropped r ++ all_kept r)) (rpaths r).
  Proof.
    eapply subperm_trans; [apply subperm_map, subperm_perm, pairs_perm|].
    unfold decisions, rpaths. induction r as [|g r IH]; cbn [flat_map map concat]; [apply subperm_refl|].
    rewrite flat_map_app, map_app. apply subperm_app; [apply gdecisions_sub|exact IH].
  Qed.

  (* the members of every decision are report paths of ONE group, with their metadata *)
  Lemma decision_member r m : In m (all_dropped r ++ all_kept r) ->
    exists g, In g r /\ In (mpath m) (gpaths g) /\ stat_fs ax s (mpath m) = Some m.
  Proof.
    intros Hm. apply (Permutation_in _ (pairs_perm (decisions r))) in Hm.
    unfold decisions in Hm. apply in_flat_map in Hm. destruct Hm as (kd & Hkd & Hm).
    apply in_flat_map in Hkd. destruct Hkd as (g & Hg & Hkd). exists g. split; [exact Hg|].
    unfold gdecisions in Hkd. destruct (opt_seq (map (stat_fs ax s) (gpaths g))) as [files|] eqn:E; [|destruct Hkd].
    destruct (stat_files _ _ _ _ E) as [Hmp Hst].
    apply in_map_iff in Hkd. destruct Hkd as (part & <- & Hpart).
    assert (Hmf : In m files).
    { apply (Permutation_in _ (gparts_perm op files)). apply in_concat. exists part. split; [exact Hpart|].
      eapply subperm_in; [apply decision_sub|exact Hm]. }
    split; [|auto]. rewrite <- Hmp. now apply in_map.
  Qed.

  (* a command, its victim and its retained file belong to one report group *)
  Lemma cmd_in_group r x : In x (run_cmds ax op c sm s r) ->
    exists g, In g r /\ In (mpath (cmd_victim x)) (gpaths g) /\ stat_fs ax s (mpath (cmd_victim x)) = Some (cmd_victim x) /\
              forall t, cmd_target x = Some t -> In (mpath t) (gpaths g) /\ stat_fs ax s (mpath t) = Some t.
  Proof.
    unfold run_cmds, script_items. intros Hx. apply in_concat in Hx. destruct Hx as (l & Hl & Hx).
    apply in_map_iff in Hl. destruct Hl as (g & <- & Hg). exists g. split; [exact Hg|].
    unfold group_script in Hx.
    destruct (c08_dedupe_group _ _ _ _ _ _ Hx) as (files & part & kept & dropped & E & Hpf & Hpart & Hv & Ht).
    destruct (stat_files _ _ _ _ E) as [Hmp Hst].
    assert (Hsub : forall m, In m (kept ++ dropped) -> In m files).
    { intros m Hm. apply Hpf. pose proof (decision_sub c (glen g) part) as Hd. unfold decision in Hd. rewrite Hpart in Hd.
      eapply subperm_in; eauto. }
    assert (Hvf : In (cmd_victim x) files) by (apply Hsub, in_or_app; auto).
    split; [rewrite <- Hmp; now apply in_map|]. split; [auto|].
    intros t Hxt. assert (Htf : In t files) by (apply Hsub, in_or_app; left; auto).
    split; [rewrite <- Hmp; now apply in_map|auto].
  Qed.
End Run.

(* ---------------------------------------------------------------- facts about single report paths *)
Lemma stat_fs_regular ax s p i d m : names s p = Some (NFile i) -> inodes s i = Some d -> stat_fs ax s p = Some m ->
  mmtime m = Some (imtime d).
Proof. intros E Ed. unfold stat_fs. rewrite (rresolve_file _ _ _ _ E), Ed. intros H; injection H as <-. reflexivity. Qed.

Lemma NoDup_app_intro {A} (a b : list A) : NoDup a -> NoDup b -> (forall x, In x a -> ~ In x b) -> NoDup (a ++ b).
Proof.
  induction a as [|x a IH]; cbn [app]; intros Ha Hb Hd; [exact Hb|].
  inversion Ha as [|? ? Hx Hr]; subst. constructor.
  - intros Hin. apply in_app_or in Hin. destruct Hin as [Hin|Hin]; [auto|]. apply (Hd x); [left; reflexivity|exact Hin].
  - apply IH; auto. intros y Hy. apply Hd. right. exact Hy.
Qed.

Lemma victim_fcmd e x : victim (fcmd_of e x) = mpath (cmd_victim x).
Proof. destruct x; reflexivity. Qed.
Lemma retained_fcmd e x : cmd_retained (fcmd_of e x) = option_map mpath (cmd_target x).
Proof. destruct x; reflexivity. Qed.
Lemma tmp_fcmd e x t : cmd_tmp (fcmd_of e x) = Some t -> t = tmp_of e (mpath (cmd_victim x)).
Proof. destruct x; cbn [fcmd_of cmd_tmp cmd_victim]; intros H; try discriminate; injection H as <-; reflexivity. Qed.

Lemma temps_sub e cs : subperm (temps (map (fcmd_of e) cs)) (map (tmp_of e) (map (fun x => mpath (cmd_victim x)) cs)).
Proof.
  unfold temps. induction cs as [|x cs IH]; cbn [map flat_map]; [apply subperm_refl|].
  change (tmp_of e (mpath (cmd_victim x)) :: map (tmp_of e) (map (fun x0 => mpath (cmd_victim x0)) cs))
    with ([tmp_of e (mpath (cmd_victim x))] ++ map (tmp_of e) (map (fun x0 => mpath (cmd_victim x0)) cs)).
  apply subperm_app; [|exact IH].
  destruct (cmd_tmp (fcmd_of e x)) as [t|] eqn:E; [|apply subperm_nil]. rewrite (tmp_fcmd _ _ _ E). apply subperm_refl.
Qed.

(* ---------------------------------------------------------------- the script of a report is a plan *)
Section ReportPlan.
  Variables (ax : aux) (e : env) (sl : bool) (op : dop) (c : dcfg) (sm : path -> path -> bool) (s : fs) (r : report).
  Hypothesis Hro : report_ok s r.
  Hypothesis Henv : env_ok e s r.
  Hypothesis Hwf : wf s.
  Hypothesis Hop : is_move op = false.
  Let cs := run_cmds ax op c sm s r.
  Hypothesis Hlock : victims_lockable sl s cs.
  Hypothesis Hrl : reflinks_regular s cs.

  Let V := map (fun x => mpath (cmd_victim x)) cs.

  Lemma V_dropped : V = map mpath (all_dropped ax op c s r).
  Proof. unfold V, cs. rewrite <- (run_victims ax op c sm s r), map_map. reflexivity. Qed.
  Lemma VK_sub : subperm (V ++ map mpath (all_kept ax op c s r)) (rpaths r).
  Proof. rewrite V_dropped, <- map_app. apply decisions_sub. Qed.
  Lemma V_sub : subperm V (rpaths r).
  Proof. eapply subperm_trans; [apply subperm_app_l|apply VK_sub]. Qed.
  Lemma V_in p : In p V -> In p (rpaths r).
  Proof. apply subperm_in, V_sub. Qed.
  Lemma VK_nodup : NoDup (V ++ map mpath (all_kept ax op c s r)).
  Proof. destruct Hro as (Hn & _). eapply subperm_NoDup; [apply VK_sub|exact Hn]. Qed.

  Lemma map_victim_fcs : map victim (map (fcmd_of e) cs) = V.
  Proof. unfold V. rewrite map_map. apply map_ext. intros x. apply victim_fcmd. Qed.

  Lemma temps_in t : In t (temps (map (fcmd_of e) cs)) -> exists p, In p V /\ t = tmp_of e p.
  Proof.
    intros Ht. pose proof (subperm_in _ _ _ (temps_sub e cs) Ht) as H. fold V in H.
    apply in_map_iff in H. destruct H as (p & <- & Hp). eauto.
  Qed.
  Lemma retained_in t : In t (retained (map (fcmd_of e) cs)) -> In t (map mpath (all_kept ax op c s r)).
  Proof.
    unfold retained. intros Ht. apply in_flat_map in Ht. destruct Ht as (fc & Hfc & Ht).
    apply in_map_iff in Hfc. destruct Hfc as (x & <- & Hx). rewrite retained_fcmd in Ht.
    destruct (cmd_target x) as [m|] eqn:E; cbn [option_map] in Ht; [|destruct Ht]. destruct Ht as [<-|[]].
    apply in_map. eapply run_targets; eauto.
  Qed.
  Lemma kept_in_report t : In t (map mpath (all_kept ax op c s r)) -> In t (rpaths r).
  Proof. intros Ht. eapply subperm_in; [apply VK_sub|]. apply in_or_app. right. exact Ht. Qed.

  Lemma report_foot_nodup : NoDup (map victim (map (fcmd_of e) cs) ++ temps (map (fcmd_of e) cs)).
  Proof.
    rewrite map_victim_fcs. destruct Henv as (Hnt & Hfresh).
    apply NoDup_app_intro.
    - eapply subperm_NoDup; [apply V_sub|]. apply Hro.
    - eapply subperm_NoDup; [apply temps_sub|]. fold V.
      eapply subperm_NoDup; [apply subperm_map, V_sub|exact Hnt].
    - intros x Hx Ht. destruct (temps_in _ Ht) as (p & Hp & ->).
      destruct (Hfresh p (V_in _ Hp)) as (_ & _ & _ & Hnot). apply Hnot. apply V_in. exact Hx.
  Qed.

  Lemma report_apart a t : In a (map victim (map (fcmd_of e) cs) ++ temps (map (fcmd_of e) cs)) ->
    In t (retained (map (fcmd_of e) cs)) -> a <> t.
  Proof.
    rewrite map_victim_fcs. intros Ha Ht. apply retained_in in Ht. apply in_app_or in Ha. destruct Ha as [Ha|Ha].
    - pose proof VK_nodup as Hn. apply NoDup_app_inv in Hn. destruct Hn as (_ & _ & Hd). intros ->. eapply Hd; eauto.
    - destruct (temps_in _ Ha) as (p & Hp & ->). destruct Henv as (_ & Hfresh).
      destruct (Hfresh p (V_in _ Hp)) as (_ & _ & _ & Hnot). intros E. apply Hnot. rewrite E. now apply kept_in_report.
  Qed.

  Lemma report_cmd_ok x : In x cs -> cmd_ok sl s (fcmd_of e x).
  Proof.
    intros Hx. destruct (cmd_in_group ax op c sm s r x Hx) as (g & Hg & Hvg & Hvs & Htg).
    destruct Hro as (Hnd & Hnorm & Hcont). destruct (Hcont g Hg) as (b & Hb).
    set (a := mpath (cmd_victim x)) in *.
    assert (Har : In a (rpaths r)) by (unfold rpaths; apply in_concat; exists (gpaths g); split; [now apply in_map|exact Hvg]).
    destruct (Hnorm a Har) as (Hna & _ & Hda).
    destruct (rread_names _ _ _ (Hb a Hvg)) as (na & Ena & Hnad).
    assert (Hvok : victim_ok sl s a).
    { split; [exact Hna|]. exists na. split; [exact Ena|]. split; [exact Hnad|].
      destruct Hlock as [->|Hl]; [left; reflexivity|right]. destruct (Hl x Hx) as (i & Ei & Li). fold a in Ei.
      exists i. split; [congruence|exact Li]. }
    destruct Henv as (_ & Hfresh). destruct (Hfresh a Har) as (Htn & Htf & Htp & Htnot).
    assert (Htok : tmp_ok s a (tmp_of e a)) by (repeat split; auto).
    assert (HaV : In a V) by (unfold V; apply in_map_iff; exists x; auto).
    (* facts about the retained file of a link command *)
    assert (Htgt : forall t, cmd_target x = Some t ->
              norm (mpath t) = mpath t /\ mpath t <> a /\ mpath t <> tmp_of e a /\ In (mpath t) (gpaths g)).
    { intros t Et. destruct (Htg t Et) as (Htin & _).
      assert (Htr : In (mpath t) (rpaths r)) by (unfold rpaths; apply in_concat; exists (gpaths g); split; [now apply in_map|exact Htin]).
      split; [apply Hnorm; exact Htr|]. split; [|split; [|exact Htin]].
      - pose proof VK_nodup as Hn. apply NoDup_app_inv in Hn. destruct Hn as (_ & _ & Hd). intros E.
        apply (Hd a HaV). rewrite <- E. apply in_map. eapply run_targets; eauto.
      - intros E. apply Htnot. rewrite <- E. exact Htr. }
    destruct x as [m|t l|t l|t l|src tgt rn]; cbn [fcmd_of cmd_ok cmd_victim cmd_target] in *.
    - exact Hvok.
    - destruct (Htgt t eq_refl) as (H1 & H2 & H3 & _).
      split; [exact Hvok|]. split; [exact Htok|]. split; [exact H1|]. split; [exact H2|exact H3].
    - destruct (Htgt t eq_refl) as (H1 & H2 & H3 & H4).
      split; [exact Hvok|]. split; [exact Htok|]. split; [exact H1|]. split; [exact H2|]. split; [exact H3|].
      destruct (rread_names _ _ _ (Hb _ H4)) as (nt & Ent & Hntd). exists nt. auto.
    - destruct (Htgt t eq_refl) as (H1 & H2 & H3 & H4).
      split; [exact Hna|]. split; [exact Htok|]. split; [exact H1|]. split; [exact H2|]. split; [exact H3|]. split; [exact Hwf|].
      destruct (Hrl t l Hx) as (i0 & it & El & Et & Hii). fold a in El.
      destruct (rread_regular _ _ _ _ (Hb a Hvg) El) as (d0 & Ed0 & Eb0).
      destruct (rread_regular _ _ _ _ (Hb _ H4) Et) as (dt & Edt & Ebt).
      exists i0, d0, it, dt. repeat split; auto; try congruence.
      + rewrite (stat_fs_regular _ _ _ _ _ _ El Ed0 Hvs). reflexivity.
      + destruct Hlock as [->|Hl]; [left; reflexivity|right]. destruct (Hl _ Hx) as (i & Ei & Li). cbn [cmd_victim] in Ei. fold a in Ei. congruence.
    - (* Move: excluded *)
      exfalso. clear - Hx Hop. unfold cs, run_cmds, script_items in Hx. apply in_concat in Hx. destruct Hx as (l0 & Hl0 & Hx).
      apply in_map_iff in Hl0. destruct Hl0 as (g & <- & _). unfold group_script, dedupe_group in Hx.
      destruct (opt_seq _) as [files|]; [|destruct Hx]. cbn [group_cmds] in Hx. apply in_flat_map in Hx. destruct Hx as (pr & Hpr & Hx).
      apply in_map_iff in Hpr. destruct Hpr as (part & <- & _). cbn [snd] in Hx.
      destruct (partition c (glen g) part) as [[k d]| |]; try (destruct Hx; fail).
      unfold script_o in Hx. destruct d; [destruct Hx|]. destruct k; [destruct Hx|]. apply in_map_iff in Hx. destruct Hx as (y & Hy & _).
      destruct op; cbn in Hop; discriminate.
  Qed.

  Theorem report_plan : plan_ok sl s (map (fcmd_of e) cs).
  Proof.
    split; [|split].
    - rewrite Forall_forall. intros fc Hfc. apply in_map_iff in Hfc. destruct Hfc as (x & <- & Hx). now apply report_cmd_ok.
    - apply report_foot_nodup.
    - apply report_apart.
  Qed.
End ReportPlan.
