(* Props_C13.v — property C13: results are deterministic and independent of performance settings.
   Statements only.
   C13_schedule_independent: the WHOLE final output of the model (groups, their order after the stable sort by
   Reverse((len, u128_prefix)), the order of the paths inside every group after sort_by_path, lengths, hashes) is the
   same list for any two nondeterminism records (processing order inside every device = the unstable sort by location
   and whatever the extent lookup returned, hence every choice of runs and representatives; arrival order at the
   collecting thread) and any two orders of the scanned table (walk order, order of the input paths, --stdin).
   No collision hypothesis is needed: the list handed to the final sort is itself canonical (regrouped groups are
   ordered by their full key, passed-through groups keep the canonical order of the previous stage), so even ties of
   the 128-bit prefix cannot expose the schedule.  Read faults are excluded (C15).
   C13_partition_independent: two configurations that select and filter alike but differ in the hash function,
   --max-prefix-size, --max-suffix-size, the device kinds (and the schedule) report the same partition.
   Thread pools, rayon, channels and the cache are NOT modelled: that the real report body is identical under every
   --threads specification, root permutation, --stdin and repeated runs, and that every run terminates, is observed
   by vlib/props/c13.py on the binary, not proved.  Termination of the model is totality (not a statement about
   threads); C13_rx_loop_ends is a counter model of the one blocking loop rehash owns besides the semaphore (C19). *)
From FV Require Import Base ListLib GroupModel GroupProofs GroupProofs2 GroupProofs3 GroupProofs4 GroupProofs5 GroupProofs6 GroupProofs7 GroupWitness.
From Coq Require Import Permutation.
Open Scope N_scope.

Theorem C13_schedule_independent :
  forall (H : list N -> hash) (T : list N -> option (list N)) (c : gcfg) (n1 n2 : nd) (s1 s2 : list file),
    wf_nd n1 -> wf_nd n2 ->
    (forall st f, fails n1 st f = false) -> (forall st f, fails n2 st f = false) ->
    Permutation s1 s2 -> wf_ids s1 -> wf_len s1 -> wf_paths s1 ->
    group_files H T c n1 s1 = group_files H T c n2 s2.
Proof. exact c13_schedule_independent. Qed.
Print Assumptions C13_schedule_independent.

Theorem C13_partition_independent :
  forall (H1 H2 : list N -> hash) (T1 T2 : list N -> option (list N)) (c1 c2 : gcfg) (n1 n2 : nd) (s : list file),
    same_selection c1 c2 -> wf_nd n1 -> wf_nd n2 ->
    (forall st f, fails n1 st f = false) -> (forall st f, fails n2 st f = false) ->
    wf_ids s -> wf_len s -> wf_paths s -> collision_free H1 c1 s -> collision_free H2 c2 s ->
    transform c1 = false -> transform c2 = false -> skip_content c1 = false -> skip_content c2 = false ->
    (forall g f, In g (group_files H1 T1 c1 n1 s) -> In f (gfiles g) ->
       exists g', In g' (group_files H2 T2 c2 n2 s) /\ glen g' = glen g /\ Permutation (gfiles g) (gfiles g')) /\
    (forall g f, In g (group_files H2 T2 c2 n2 s) -> In f (gfiles g) ->
       exists g', In g' (group_files H1 T1 c1 n1 s) /\ glen g' = glen g /\ Permutation (gfiles g) (gfiles g')).
Proof. exact c13_partition_independent. Qed.
Print Assumptions C13_partition_independent.

(* the orders the final sorts use are total orders (so "sorted" determines the list) *)
Theorem C13_orders_total :
  good_cmp path_cmp /\ good_cmp key_cmp /\ good_cmp fid_cmp.
Proof. split; [exact good_path|split; [exact good_key|exact good_fid]]. Qed.
Print Assumptions C13_orders_total.

(* the result channel: when every sender clone has been dropped and the queue is drained, recv fails and the loop ends *)
Theorem C13_rx_loop_ends :
  forall tr live' queued', chan_run (1%nat, 0%nat) tr = Some (live', queued') ->
    count_ev EvDrop tr = S (count_ev EvClone tr) -> count_ev EvRecv tr = count_ev EvSend tr ->
    live' = 0%nat /\ queued' = 0%nat /\ chan_step (live', queued') EvRecv = None /\ chan_step (live', queued') EvSend = None.
Proof. exact rx_loop_ends. Qed.
Print Assumptions C13_rx_loop_ends.

(* Non-vacuity: the table of Props_C01 under three different schedules and a reversed scan order *)
Example C13_instance :
  wf_nd (nd_of_mode 1) /\ wf_nd (nd_of_mode 2) /\
  group_files toyH idT ex_cfg (nd_of_mode 0) ex_files = group_files toyH idT ex_cfg (nd_of_mode 1) (rev ex_files) /\
  group_files toyH idT ex_cfg (nd_of_mode 0) ex_files = group_files toyH idT ex_cfg (nd_of_mode 2) (rev ex_files) /\
  shows (group_files toyH idT ex_cfg (nd_of_mode 2) (rev ex_files)) = [(6, [[[47]; [97]]; [[47]; [98]]])].
Proof.
  split; [split; intros; cbn; [rewrite isort_perm; symmetry; apply Permutation_rev|symmetry; apply Permutation_rev]|].
  split; [split; intros; cbn; [symmetry; apply Permutation_rev|apply isort_perm]|].
  split; [vm_compute; reflexivity|]. split; vm_compute; reflexivity.
Qed.

(* ---- input paths on --stdin (config.rs input_paths after fix 96dbe61; StdinModel.v, qualified).  "The body is the same
   whether the input paths are given as arguments or on standard input": a list of paths written one per line is read back
   EXACTLY - every byte string without a line feed that does not end in a carriage return: names that are not UTF-8, names
   ending in blanks or tabs, empty lines; CRLF terminators lose their CR; a last line without terminator counts. ---- *)
From FV Require StdinModel StdinProofs.

Theorem C13_stdin_paths_read_back :
  forall ps : list (list N),
    (forall p, In p ps -> StdinProofs.no_nl p /\ last p 0%N <> 13%N) ->
    StdinModel.stdin_paths (concat (map (fun p => p ++ [10%N]) ps)) = ps.
Proof. exact StdinProofs.stdin_roundtrip. Qed.
Print Assumptions C13_stdin_paths_read_back.

Theorem C13_stdin_paths_crlf :
  forall ps : list (list N),
    (forall p, In p ps -> StdinProofs.no_nl p) ->
    StdinModel.stdin_paths (concat (map (fun p => p ++ [13%N; 10%N]) ps)) = ps.
Proof. exact StdinProofs.stdin_roundtrip_crlf. Qed.
Print Assumptions C13_stdin_paths_crlf.

Theorem C13_stdin_last_line_unterminated :
  forall (ps : list (list N)) (p : list N),
    (forall q, In q ps -> StdinProofs.no_nl q /\ last q 0%N <> 13%N) ->
    StdinProofs.no_nl p -> p <> [] -> last p 0%N <> 13%N ->
    StdinModel.stdin_paths (concat (map (fun q => q ++ [10%N]) ps) ++ p) = ps ++ [p].
Proof. exact StdinProofs.stdin_last_unterminated. Qed.
Print Assumptions C13_stdin_last_line_unterminated.

Example C13_stdin_paths_inhabited :
  StdinModel.stdin_paths ([100; 233; 10] ++ [111; 32; 9; 10] ++ [10] ++ [97; 13; 10] ++ [122])%N
  = [[100; 233]; [111; 32; 9]; []; [97]; [122]]%N.
Proof. exact StdinProofs.stdin_example. Qed.

