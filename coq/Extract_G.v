(* Extract_G.v — extraction of the staged-grouping model for the correspondence harness. *)
From Coq Require Import Extraction ExtrOcamlBasic.
From FV Require Import Base ListLib GroupModel.
Extraction Language OCaml.
Extraction "extracted/ex_G.ml" group_files_gen pipeline nd_of_mode subgroups subgroup_count matches matches_strictly
  missing_count redundant_count unique_count sort_by_id sort_by_path
  min_prefix_len max_prefix_len suffix_len suffix_threshold hxor u128_prefix initial_loc path_cmp N.of_nat Z.of_N.
