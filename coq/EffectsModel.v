(* EffectsModel.v — the effect of a WHOLE dedupe run on the file system (engine X; properties C02, C11).
   NO proofs here.  This file only COMPOSES the finished models:

     engine D  (DedupeModel.v)   what the run decides: fetch_files_metadata, per-device split, partition,
                                 dedupe_script  ==>  list of [cmd] per report group  (dedupe.rs `dedupe`)
     engine A  (FsModel.v, AtomicModel.v)   what a command does: [prog_of] / [run] over primitive calls

   Modelled glue (code as it is now):
     dedupe.rs  PathAndMetadata::new = fs::metadata(path) (stat FOLLOWING symlinks)       ==> [stat_fs]
                dedupe(): groups.enumerate().map(fetch metadata; split by device; partition; script)
                                                                                          ==> [group_script], [run_cmds]
                FsCommand fields -> the operands of execute(): paths, temp_file(), recorded mtime
                                                                                          ==> [fcmd_of]
                run_script: every command executed, Err logged, Ok counted with its length ==> [whole_run], [reclaimed]
     main.rs    run_dedupe: one script, consumed either by log_script or by run_script      (ScriptModel.v)

   The order in which run_script executes the commands is unspecified (rayon): a run is the fold of
   [prog_of] over ANY permutation of the commands; theorems quantify over the permutation.

   What the file system does not record (device, atime, btime, ctime) is the parameter [aux]; random
   temp-file suffixes and clock values are the parameter [env].  Symbolic links: FsModel follows only
   absolute, normalised targets; [rfollow] below is the relative-aware reading used to OBSERVE a state
   (a relative target is resolved from the directory of the link, which is what makes K7 visible). *)
From FV Require Import Base SortLib.
From FV Require Import DedupeModel.
From FV Require Import FsModel AtomicModel.
Open Scope N_scope.

(* ---------------------------------------------------------------- link resolution as the kernel does it *)
(* relative-aware link resolution: a target that does not start with "/" is taken from the link's directory
   (FsModel.follow only handles absolute normalised targets; on those the two agree) *)
Definition is_abs (p : path) : bool := match p with c :: _ => comp_eqb c root_c | [] => false end.
Definition link_dest (p t : path) : path := if is_abs t then norm t else norm (parent p ++ t).
Inductive rrres := RRFile (q : path) (i : N) | RRDir | RRNone.
Fixpoint rresolve (fuel : nat) (s : fs) (p : path) : rrres :=
  match names s p with
  | None => RRNone
  | Some NDir => RRDir
  | Some (NFile i) => RRFile p i
  | Some (NLink t) => match fuel with O => RRNone | S f => rresolve f s (link_dest p t) end
  end.
(* the bytes a reader gets at p (open follows links) *)
Definition rread (s : fs) (p : path) : option (list N) :=
  match rresolve LINK_FUEL s p with
  | RRFile _ i => option_map ibytes (inodes s i)
  | _ => None
  end.

(* ---------------------------------------------------------------- metadata of a report path *)
Record aux := mkAux {
  adev : N -> N;                    (* device of an inode *)
  aatime : N -> option Z; abtime : N -> option Z;
  actime : N -> Z * Z
}.

(* fs::metadata(p): follows symbolic links; a dangling path gives an error (None) *)
Definition stat_fs (ax : aux) (s : fs) (p : path) : option meta :=
  match rresolve LINK_FUEL s p with
  | RRFile _ i =>
      match inodes s i with
      | Some d => Some (mkMeta p (adev ax i) i (N.of_nat (length (ibytes d))) true (Some (imtime d))
                               (aatime ax i) (abtime ax i) (actime ax i))
      | None => None
      end
  | RRDir => Some (mkMeta p 0 0 0 false None None None (0%Z, 0%Z))       (* a directory: not a regular file *)
  | RRNone => None
  end.

(* ---------------------------------------------------------------- the report and the script *)
Record rgroup := mkGroup { glen : N; gpaths : list path }.
Definition report := list rgroup.

Definition group_script (ax : aux) (op : dop) (c : dcfg) (sm : path -> path -> bool) (s : fs) (g : rgroup)
  : list cmd :=
  group_cmds (dedupe_group op c sm (glen g) (map (stat_fs ax s) (gpaths g))).

(* (index, commands) for every report group, in report order: the items of the parallel iterator *)
Definition script_items (ax : aux) (op : dop) (c : dcfg) (sm : path -> path -> bool) (s : fs) (r : report)
  : list (list cmd) := map (group_script ax op c sm s) r.
Definition run_cmds (ax : aux) (op : dop) (c : dcfg) (sm : path -> path -> bool) (s : fs) (r : report)
  : list cmd := concat (script_items ax op c sm s r).

(* ---------------------------------------------------------------- from FsCommand to the executed program *)
Record env := mkEnv {
  sfx : path -> comp;               (* the 24 random alphanumerics chosen for the temp sibling of a path *)
  clock : path -> Z                 (* the time stamped by writes of the command acting on a path *)
}.
Definition zdef (o : option Z) : Z := match o with Some z => z | None => 0%Z end.

Definition fcmd_of (e : env) (c : cmd) : fcmd :=
  match c with
  | Remove m => FRemove (mpath m)
  | SoftLink t l => FSoftLink (mpath t) (mpath l) (temp_of (mpath l) (sfx e (mpath l)))
  | HardLink t l => FHardLink (mpath t) (mpath l) (temp_of (mpath l) (sfx e (mpath l)))
  | RefLink t l => FRefLink (mpath t) (mpath l) (temp_of (mpath l) (sfx e (mpath l)))
                              (zdef (mmtime l)) 0%Z (clock e (mpath l)) (clock e (mpath l))
  | Move src tgt rn => FMove (mpath src) tgt rn (clock e (mpath src))
  end.

(* run_script, fault-free: the commands in the given order *)
Definition whole_run (sl : bool) (cs : list fcmd) (s : fs) : script_out := run_script sl nofault 0 cs s.
Definition final_fs (sl : bool) (cs : list fcmd) (s : fs) : fs := sfs (whole_run sl cs s).

(* DedupeResult: processed_count and reclaimed_space (sum of the recorded lengths of the Ok commands) *)
Fixpoint reclaimed (cs : list cmd) (rs : list io) : N :=
  match cs, rs with
  | c :: cs', r :: rs' => (if is_ok r then mlen (cmd_victim c) else 0) + reclaimed cs' rs'
  | _, _ => 0
  end.

(* a whole `fclones <op>` run on a report: decide from the state, then execute (any order [perm]) *)
Definition dedupe_run (ax : aux) (e : env) (sl : bool) (op : dop) (c : dcfg) (sm : path -> path -> bool)
  (r : report) (s : fs) : script_out :=
  whole_run sl (map (fcmd_of e) (run_cmds ax op c sm s r)) s.

(* ---------------------------------------------------------------- observations (continued) *)
(* a content is "stored in a regular file" *)
Definition stored (s : fs) (b : list N) : Prop :=
  exists p i d, names s p = Some (NFile i) /\ inodes s i = Some d /\ ibytes d = b.

(* p names the same inode with the same bytes and mtime (link count and ctime are not modelled) *)
Definition untouched (s st : fs) (p : path) : Prop := same_file s st p p.

(* ---------------------------------------------------------------- footprints and local preconditions *)
(* the names a command writes (operands are normalised paths, see [cmd_ok]) ... *)
Definition cmd_writes (c : fcmd) : list path :=
  match c with
  | FRemove a => [a]
  | FSoftLink _ a tmp | FHardLink _ a tmp => [a; tmp]
  | FRefLink _ _ tmp _ _ _ _ => [tmp]
  | FMove src tgt _ _ => [src; norm tgt]
  end.
Definition wrote (c : fcmd) (p : path) : bool := existsb (path_eqb p) (cmd_writes c).
(* ... and the node it leaves there, computed in the state in which it starts *)
Definition cmd_post (s : fs) (c : fcmd) (p : path) : option node :=
  match c with
  | FRemove _ => None
  | FSoftLink t a _ => if path_eqb p a then Some (NLink t) else None
  | FHardLink t a _ => if path_eqb p a then names s t else None
  | FRefLink _ _ _ _ _ _ _ => None
  | FMove src tgt _ _ => if path_eqb p (norm tgt) then names s src else None
  end.
(* the names a command depends on without writing them *)
Definition cmd_reads (c : fcmd) : list path :=
  match c with
  | FHardLink t _ _ | FRefLink t _ _ _ _ _ _ => [t]
  | _ => []
  end.

(* what a command needs in the state in which it starts (fault-free, no foreign lock on its victim):
   the victim is a non-directory (a REGULAR file when the lock probe is on: the probe opens the path,
   following links), the temp sibling is free, the directory exists; a hard link needs its source to
   exist (any non-directory: a symlink is linked as such, K7); a reflink needs regular files with
   equal bytes on distinct inodes, and the recorded mtime is the victim's. *)
Definition victim_ok (sl : bool) (s : fs) (a : path) : Prop :=
  norm a = a /\ exists n, names s a = Some n /\ n <> NDir /\ (sl = false \/ exists i, n = NFile i /\ locks s i = false).
Definition tmp_ok (s : fs) (a tmp : path) : Prop :=
  norm tmp = tmp /\ names s tmp = None /\ parent tmp = parent a /\ is_dir s (parent a) = true.
Definition cmd_ok (sl : bool) (s : fs) (c : fcmd) : Prop :=
  match c with
  | FRemove a => victim_ok sl s a
  | FSoftLink t a tmp => victim_ok sl s a /\ tmp_ok s a tmp /\ norm t = t /\ t <> a /\ t <> tmp
  | FHardLink t a tmp => victim_ok sl s a /\ tmp_ok s a tmp /\ norm t = t /\ t <> a /\ t <> tmp /\
                         exists nt, names s t = Some nt /\ nt <> NDir
  | FRefLink t a tmp mt _ _ _ =>
      norm a = a /\ tmp_ok s a tmp /\ norm t = t /\ t <> a /\ t <> tmp /\ wf s /\
      exists i0 d0 it dt, names s a = Some (NFile i0) /\ inodes s i0 = Some d0 /\ names s t = Some (NFile it) /\
                          inodes s it = Some dt /\ it <> i0 /\ ibytes dt = ibytes d0 /\ mt = imtime d0 /\
                          (sl = false \/ locks s i0 = false)
  | FMove _ _ _ _ => False          (* Move has its own development (EffectsProofs4) *)
  end.

Definition temps (cs : list fcmd) : list path :=
  flat_map (fun c => match cmd_tmp c with Some t => [t] | None => [] end) cs.
Definition retained (cs : list fcmd) : list path :=
  flat_map (fun c => match cmd_retained c with Some t => [t] | None => [] end) cs.

(* A plan: every command can start in s; the write footprints (victims, temps) are pairwise disjoint;
   nothing written is the retained file of a link. *)
Definition plan_ok (sl : bool) (s : fs) (cs : list fcmd) : Prop :=
  Forall (cmd_ok sl s) cs /\ NoDup (map victim cs ++ temps cs) /\
  (forall a t, In a (map victim cs ++ temps cs) -> In t (retained cs) -> a <> t).

(* the final names of a plan, written down without reference to any execution order *)
Definition plan_names (s : fs) (cs : list fcmd) (p : path) : option node :=
  match find (fun c => wrote c p) cs with
  | Some c => cmd_post s c p
  | None => names s p
  end.

(* observational equality of two final states of runs from s: same names, same inodes among those that
   existed in s (inodes created during the run are temporary and unreachable), same locks *)
Definition obs_eq (s st st' : fs) : Prop :=
  (forall p, names st p = names st' p) /\ (forall i, i < next s -> inodes st i = inodes st' i) /\
  (forall i, locks st i = locks st' i).

(* ---------------------------------------------------------------- hypotheses about a report *)
Definition rpaths (r : report) : list path := concat (map gpaths r).

(* C03 /\ C01 for r w.r.t. s: no path is listed twice (in particular the groups are pairwise disjoint), and
   the members of a group read the same bytes (through symbolic links if -S reported links); report paths are
   absolute normalised paths of existing directory entries *)
Definition report_ok (s : fs) (r : report) : Prop :=
  NoDup (rpaths r) /\
  (forall p, In p (rpaths r) -> norm p = p /\ is_abs p = true /\ is_dir s (parent p) = true) /\
  (forall g, In g r -> exists b, forall p, In p (gpaths g) -> rread s p = Some b).

(* the temp names chosen by temp_file(): siblings, fresh, pairwise different (24 random alphanumerics) *)
Definition tmp_of (e : env) (p : path) : path := temp_of p (sfx e p).
Definition env_ok (e : env) (s : fs) (r : report) : Prop :=
  NoDup (map (tmp_of e) (rpaths r)) /\
  forall p, In p (rpaths r) -> norm (tmp_of e p) = tmp_of e p /\ names s (tmp_of e p) = None /\
                               parent (tmp_of e p) = parent p /\ ~ In (tmp_of e p) (rpaths r).

(* the lock probe can succeed: locking is off, or every victim is a regular file not locked by another process *)
Definition victims_lockable (sl : bool) (s : fs) (cs : list cmd) : Prop :=
  sl = false \/ forall x, In x cs -> exists i, names s (mpath (cmd_victim x)) = Some (NFile i) /\ locks s i = false.

(* reflink commands act on regular files with distinct inodes *)
Definition reflinks_regular (s : fs) (cs : list cmd) : Prop :=
  forall t l, In (RefLink t l) cs -> exists i0 it, names s (mpath l) = Some (NFile i0) /\
                                                 names s (mpath t) = Some (NFile it) /\ it <> i0.

Definition is_move (op : dop) : bool := match op with OpMove _ => true | _ => false end.

(* everything a fault-free run of remove / link / link --soft / dedupe needs *)
Definition run_ok (ax : aux) (e : env) (sl : bool) (op : dop) (c : dcfg) (sm : path -> path -> bool) (s : fs) (r : report) : Prop :=
  report_ok s r /\ env_ok e s r /\ wf s /\ is_move op = false /\
  victims_lockable sl s (run_cmds ax op c sm s r) /\ reflinks_regular s (run_cmds ax op c sm s r).

(* the part of the run decided for one report group: its files as dedupe() sees them, the device classes, and
   for every class the (kept, dropped) split when partition succeeds *)
Definition group_files (ax : aux) (s : fs) (g : rgroup) : option (list meta) := opt_seq (map (stat_fs ax s) (gpaths g)).
Definition group_parts (op : dop) (files : list meta) : list (list meta) :=
  if cross_device_disallowed op then by_device files else [files].

(* every victim is a regular file (no symbolic link reported by -S is dropped) *)
Definition victims_regular (s : fs) (cs : list cmd) : Prop :=
  forall x, In x cs -> exists i d, names s (mpath (cmd_victim x)) = Some (NFile i) /\ inodes s i = Some d.

(* a run of `move`: every source is a regular file of s (a normalised path), no source twice *)
Definition move_src_ok (s : fs) (c : fcmd) : Prop :=
  match c with
  | FMove src _ _ _ => norm src = src /\ exists i d, names s src = Some (NFile i) /\ inodes s i = Some d
  | _ => False
  end.
Definition moves_ok (s : fs) (cs : list fcmd) : Prop := Forall (move_src_ok s) cs /\ NoDup (map victim cs) /\ wf s.
Definition move_target_of (c : fcmd) : path := match c with FMove _ tgt _ _ => norm tgt | _ => [] end.

(* ---------------------------------------------------------------- known findings as predicates *)
(* K2: a report member that is kept (no command acts on it) is a symbolic link, and the file it
   resolves to is the victim of a command (possible when link and target count as different
   replicas: --isolate + -S). *)
Definition K2 (s : fs) (r : report) (cs : list fcmd) : Prop :=
  exists g p t q i, In g r /\ In p (gpaths g) /\ names s p = Some (NLink t) /\ ~ In p (map victim cs) /\
                    rresolve LINK_FUEL s p = RRFile q i /\ In q (map victim cs).
(* K7: a link command whose source (the first retained path) is a symbolic link.  For `link` (FHardLink) the
   victim becomes a second name of the SYMLINK, whose relative target then resolves from the victim's directory. *)
Definition K7 (s : fs) (cs : list fcmd) : Prop :=
  exists c t x, In c cs /\ cmd_retained c = Some t /\ names s t = Some (NLink x).
