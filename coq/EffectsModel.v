(* EffectsModel.v — the effect of a WHOLE dedupe run on the file system (engine X; properties C02, C11).
   NO proofs here.  This file only COMPOSES the finished models:

     engine D  (DedupeModel.v)   what the run decides: fetch_files_metadata, per-device split, partition,
                                 dedupe_script  ==>  list of [cmd] per report group  (dedupe.rs `dedupe`)
     engine A  (FsModel.v, AtomicModel.v)   what a command does: [prog_of] / [run] over primitive calls

   Modelled glue (code as it is now):
     dedupe.rs  PathAndMetadata::new = fs::metadata(path) (stat FOLLOWING symlinks)       ==> [stat_fs]
                dedupe(): groups.enumerate().map(fetch metadata; split by device; partition; script)
                                                                                          ==> [group_script], [run_cmds]
                FsCommand fields -> the operands of execute(): paths, temp_file(), recorded mtime
                                                                                          ==> [fcmd_of]
                run_script: every command executed, Err logged, Ok counted with its length ==> [whole_run], [reclaimed]
     main.rs    run_dedupe: one script, consumed either by log_script or by run_script      (ScriptModel.v)

   The order in which run_script executes the commands is unspecified (rayon): a run is the fold of
   [prog_of] over ANY permutation of the commands; theorems quantify over the permutation.

   What the file system does not record (device, atime, btime, ctime) is the parameter [aux]; random
   temp-file suffixes and clock values are the parameter [env].  Symbolic links: FsModel follows only
   absolute, normalised targets; [rfollow] below is the relative-aware reading used to OBSERVE a state
   (a relative target is resolved from the directory of the link, which is what makes K7 visible). *)
From FV Require Import Base SortLib.
From FV Require Import DedupeModel.
From FV Require Import FsModel AtomicModel.
Open Scope N_scope.

(* ---------------------------------------------------------------- metadata of a report path *)
Record aux := mkAux {
  adev : N -> N;                    (* device of an inode *)
  aatime : N -> option Z; abtime : N -> option Z;
  actime : N -> Z * Z
}.

(* fs::metadata(p): follows symbolic links; a dangling path gives an error (None) *)
Definition stat_fs (ax : aux) (s : fs) (p : path) : option meta :=
  match follow s p with
  | RFound _ (NFile i) =>
      match inodes s i with
      | Some d => Some (mkMeta p (adev ax i) i (N.of_nat (length (ibytes d))) true (Some (imtime d))
                                 (aatime ax i) (abtime ax i) (actime ax i))
      | None => None
      end
  | RFound _ _ => Some (mkMeta p 0 0 0 false None None None (0%Z, 0%Z))       (* a directory: not a regular file *)
  | _ => None
  end.

(* ---------------------------------------------------------------- the report and the script *)
Record rgroup := mkGroup { glen : N; gpaths : list path }.
Definition report := list rgroup.

Definition group_script (ax : aux) (op : dop) (c : dcfg) (sm : path -> path -> bool) (s : fs) (g : rgroup)
  : list cmd :=
  group_cmds (dedupe_group op c sm (glen g) (map (stat_fs ax s) (gpaths g))).

(* (index, commands) for every report group, in report order: the items of the parallel iterator *)
Definition script_items (ax : aux) (op : dop) (c : dcfg) (sm : path -> path -> bool) (s : fs) (r : report)
  : list (list cmd) := map (group_script ax op c sm s) r.
Definition run_cmds (ax : aux) (op : dop) (c : dcfg) (sm : path -> path -> bool) (s : fs) (r : report)
  : list cmd := concat (script_items ax op c sm s r).

(* ---------------------------------------------------------------- from FsCommand to the executed program *)
Record env := mkEnv {
  sfx : path -> comp;               (* the 24 random alphanumerics chosen for the temp sibling of a path *)
  clock : path -> Z                 (* the time stamped by writes of the command acting on a path *)
}.
Definition zdef (o : option Z) : Z := match o with Some z => z | None => 0%Z end.

Definition fcmd_of (e : env) (c : cmd) : fcmd :=
  match c with
  | Remove m => FRemove (mpath m)
  | SoftLink t l => FSoftLink (mpath t) (mpath l) (temp_of (mpath l) (sfx e (mpath l)))
  | HardLink t l => FHardLink (mpath t) (mpath l) (temp_of (mpath l) (sfx e (mpath l)))
  | RefLink t l => FRefLink (mpath t) (mpath l) (temp_of (mpath l) (sfx e (mpath l)))
                              (zdef (mmtime l)) 0%Z (clock e (mpath l)) (clock e (mpath l))
  | Move src tgt rn => FMove (mpath src) tgt rn (clock e (mpath src))
  end.

(* run_script, fault-free: the commands in the given order *)
Definition whole_run (sl : bool) (cs : list fcmd) (s : fs) : script_out := run_script sl nofault 0 cs s.
Definition final_fs (sl : bool) (cs : list fcmd) (s : fs) : fs := sfs (whole_run sl cs s).

(* DedupeResult: processed_count and reclaimed_space (sum of the recorded lengths of the Ok commands) *)
Fixpoint reclaimed (cs : list cmd) (rs : list io) : N :=
  match cs, rs with
  | c :: cs', r :: rs' => (if is_ok r then mlen (cmd_victim c) else 0) + reclaimed cs' rs'
  | _, _ => 0
  end.

(* a whole `fclones <op>` run on a report: decide from the state, then execute (any order [perm]) *)
Definition dedupe_run (ax : aux) (e : env) (sl : bool) (op : dop) (c : dcfg) (sm : path -> path -> bool)
  (r : report) (s : fs) : script_out :=
  whole_run sl (map (fcmd_of e) (run_cmds ax op c sm s r)) s.

(* ---------------------------------------------------------------- observations *)
(* relative-aware link resolution: a target that does not start with "/" is taken from the link's directory *)
Definition is_abs (p : path) : bool := match p with c :: _ => comp_eqb c root_c | [] => false end.
Definition link_dest (p t : path) : path := if is_abs t then norm t else norm (parent p ++ t).
Inductive rrres := RRFile (i : N) | RRDir | RRNone.
Fixpoint rresolve (fuel : nat) (s : fs) (p : path) : rrres :=
  match names s p with
  | None => RRNone
  | Some NDir => RRDir
  | Some (NFile i) => RRFile i
  | Some (NLink t) => match fuel with O => RRNone | S f => rresolve f s (link_dest p t) end
  end.
(* the bytes a reader gets at p (open follows links) *)
Definition rread (s : fs) (p : path) : option (list N) :=
  match rresolve LINK_FUEL s p with
  | RRFile i => option_map ibytes (inodes s i)
  | _ => None
  end.

(* a content is "stored in a regular file" *)
Definition stored (s : fs) (b : list N) : Prop :=
  exists p i d, names s p = Some (NFile i) /\ inodes s i = Some d /\ ibytes d = b.

(* p names the same inode with the same bytes and mtime (link count and ctime are not modelled) *)
Definition untouched (s st : fs) (p : path) : Prop := same_file s st p p.

(* ---------------------------------------------------------------- footprints *)
(* the names a command may write, and the other names whose value it depends on *)
Definition cmd_writes (c : fcmd) : list path :=
  match c with
  | FRemove a => [norm a]
  | FSoftLink _ a tmp | FHardLink _ a tmp => [norm a; norm tmp]
  | FRefLink _ a tmp _ _ _ _ => [norm tmp]
  | FMove src tgt _ _ => [norm src; norm tgt]
  end.
Definition cmd_reads (c : fcmd) : list path :=
  match c with
  | FRemove _ => []
  | FSoftLink _ a _ => [parent (norm a)]
  | FHardLink t a _ | FRefLink t a _ _ _ _ _ => [norm t; parent (norm a)]
  | FMove _ _ _ _ => []
  end.

(* ---------------------------------------------------------------- known findings as predicates *)
(* K2: a report member that is kept (no command acts on it) is a symbolic link, and the file it
   resolves to is the victim of a command (possible when link and target count as different
   replicas: --isolate + -S). *)
Definition K2 (s : fs) (r : report) (cs : list fcmd) : Prop :=
  exists g p t q n, In g r /\ In p (gpaths g) /\ names s p = Some (NLink t) /\ ~ In p (map victim cs) /\
                    follow s p = RFound q n /\ In q (map victim cs).
(* K7: a hard-link command whose source (the first retained path) is a symbolic link *)
Definition K7 (s : fs) (cs : list fcmd) : Prop :=
  exists t a tmp x, In (FHardLink t a tmp) cs /\ names s t = Some (NLink x).
