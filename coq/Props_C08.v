(* Props_C08.v — property C08: dedupe obeys keep/drop patterns, priorities, link sets and -n.
   Statements only; every proof is `exact <lemma of DedupeProofs / DedupeProofs2>`.
   Quantification: every configuration c (keep / may_drop are ARBITRARY functions of the path, so the
   theorems hold for any pattern set; any isolated roots, priority list, n), every recorded group
   length, every list of member metadata (any size, any hard-link structure, any times).
   `partition` is the model of dedupe.rs `partition`; `survivors` are the members that pass the
   regular-file and length checks; `subgroups` is FileSubGroup::group in report order. *)
From Coq Require Import Permutation Sorted.
From FV Require Import Base SortLib DedupeModel DedupeProofs DedupeProofs2.

(* What a sub-group is: the sub-groups partition the checked members; each is closed under "same
   isolated root, or - outside every root and without --match-links - same file id", and contains
   nothing else. *)
Theorem C08_subgroups : forall (c : dcfg) (files : list meta),
  let subs := subgroups c files in
  Permutation (concat subs) files /\
  (forall g, In g subs -> g <> []) /\
  (forall g a b, In g subs -> In a g -> In b files -> same_sub c a b = true -> In b g) /\
  (forall g a b, In g subs -> In a g -> In b g -> same_sub c a b = true \/ g = [a]).
Proof.
  intros c files. repeat split.
  - apply subgroups_perm.
  - apply subgroups_nonempty.
  - apply subgroups_closed.
  - apply subgroups_homogeneous.
Qed.
Print Assumptions C08_subgroups.

(* No member of a sub-group containing a keep match is dropped. *)
Theorem C08_keep : forall c glen ms kept dropped, partition c glen ms = Ok (kept, dropped) ->
  forall a b, In a dropped -> In b (survivors c glen ms) -> b = a \/ same_sub c a b = true ->
  keep c (mpath b) = false.
Proof. exact c08_keep. Qed.
Print Assumptions C08_keep.

(* Every dropped file's sub-group consists of may_drop files only. *)
Theorem C08_drop_only_matching : forall c glen ms kept dropped, partition c glen ms = Ok (kept, dropped) ->
  forall a b, In a dropped -> In b (survivors c glen ms) -> b = a \/ same_sub c a b = true ->
  may_drop c (mpath b) = true.
Proof. exact c08_drop_only_matching. Qed.
Print Assumptions C08_drop_only_matching.

(* Every sub-group is wholly kept or wholly dropped, and every checked member is decided. *)
Theorem C08_atomic : forall c glen ms kept dropped, partition c glen ms = Ok (kept, dropped) ->
  (exists ks ds, kept = concat ks /\ dropped = concat ds /\
                 Permutation (ks ++ ds) (subgroups c (survivors c glen ms))) /\
  Permutation (kept ++ dropped) (survivors c glen ms) /\
  (forall a b, In b (survivors c glen ms) -> same_sub c a b = true ->
               (In a dropped -> In b dropped) /\ (In a kept -> In b kept)).
Proof.
  intros c glen ms kept dropped H. split; [|split].
  - exact (c08_atomic _ _ _ _ _ H).
  - exact (c08_members _ _ _ _ _ H).
  - exact (c08_atomic_pairs _ _ _ _ _ H).
Qed.
Print Assumptions C08_atomic.

(* At least min (max 1 n) #sub-groups sub-groups are kept (nkeep c = max 1 n, n defaulting to 1). *)
Theorem C08_n : forall c glen ms kept dropped, partition c glen ms = Ok (kept, dropped) ->
  exists ks ds, kept = concat ks /\ dropped = concat ds /\
                Permutation (ks ++ ds) (subgroups c (survivors c glen ms)) /\
                Nat.min (nkeep c) (length (subgroups c (survivors c glen ms))) <= length ks.
Proof. exact c08_n. Qed.
Print Assumptions C08_n.

(* Rank, for EVERY priority list: there is an ordering of the sub-groups that is a permutation of the report
   order, strictly sorted by the lexicographic reading of the priority list ([lex_lt]: first priority most
   significant; `top` = reversed report order and `bottom` = report order decide everything, so the priorities
   listed after the first of them do not matter; report position is the final tie-break) - hence unique -, and the
   dropped sub-groups are exactly the droppable ones that are not among the first (max 1 n - #forced-kept)
   droppable ones in that order. *)
Theorem C08_rank : forall c glen ms kept dropped, partition c glen ms = Ok (kept, dropped) ->
  exists order : list (nat * sub),
    Permutation order (indexed (subgroups c (survivors c glen ms))) /\
    StronglySorted (lex_lt (prio c)) order /\
    let forced_kept := filter (forced c) (map snd order) in
    let droppable := filter (fun g => negb (forced c g)) (map snd order) in
    let quota := nkeep c - length forced_kept in
    dropped = concat (skipn quota droppable) /\
    kept = concat (forced_kept ++ firstn quota droppable).
Proof. exact c08_rank. Qed.
Print Assumptions C08_rank.

(* ... and that ordering, hence the result, is determined by the specification alone. *)
Theorem C08_rank_unique : forall c glen ms k1 d1 k2 d2 o1 o2,
  rank_spec c glen ms k1 d1 o1 -> rank_spec c glen ms k2 d2 o2 -> o1 = o2 /\ k1 = k2 /\ d1 = d2.
Proof. exact rank_order_unique. Qed.
Print Assumptions C08_rank_unique.

(* K9 (repaired by /repo 7054be1): group a, b, c (report order) created in the order c, b, a;
   --priority top --priority newest now keeps c and drops b, a - the lexicographic reading (the code used to keep a). *)
Example C08_K9_regression :
  partition k9_cfg 4 k9_group = Ok ([k9_file 99 12 10], [k9_file 98 11 20; k9_file 97 10 30]) /\
  exists order, rank_spec k9_cfg 4 k9_group [k9_file 99 12 10] [k9_file 98 11 20; k9_file 97 10 30] order.
Proof. exact c08_k9_regression. Qed.

(* The model of run_dedupe's merge of the recorded `group` configuration equals passing the same
   options explicitly; options given on the dedupe command line win (or are or-ed). *)
Theorem C08_inherit : forall h c glen ms,
  n_opt c = None -> iso c = [] -> mlinks c = false -> no_size c = false -> mbefore c = None ->
  partition (merge h c) glen ms = partition (explicit h c) glen ms.
Proof. exact c08_inherit. Qed.
Print Assumptions C08_inherit.

Theorem C08_inherit_cli_wins : forall h c,
  (forall n, n_opt c = Some n -> n_opt (merge h c) = Some n) /\
  (iso c <> [] -> iso (merge h c) = iso c) /\
  mlinks (merge h c) = (mlinks c || h_mlinks h) /\
  no_size (merge h c) = (no_size c || h_transform h) /\
  (forall t, mbefore c = Some t -> mbefore (merge h c) = Some t) /\
  (n_opt c = None -> nkeep (merge h c) = Nat.max 1 (group_rf_over h)) /\
  keep (merge h c) = keep c /\ may_drop (merge h c) = may_drop c /\ prio (merge h c) = prio c.
Proof. exact c08_inherit_cli_wins. Qed.
Print Assumptions C08_inherit_cli_wins.

(* The two assertions of the code never fire, the commands act exactly on the dropped files, and
   every link target is the first kept file. *)
Theorem C08_no_panic : forall c glen ms, partition c glen ms <> Panic.
Proof. exact partition_no_panic. Qed.
Print Assumptions C08_no_panic.

Theorem C08_script : forall op sm c glen ms kept dropped, partition c glen ms = Ok (kept, dropped) ->
  exists cmds, script_o op sm kept dropped = Ok cmds /\ map cmd_victim cmds = dropped /\
               forall x t, In x cmds -> cmd_target x = Some t -> hd_error kept = Some t /\ In t kept.
Proof. exact c08_script. Qed.
Print Assumptions C08_script.

(* dedupe() on one report group: every command comes from a successful partition of the group (or of
   one of its device classes) and acts on a file that partition dropped. *)
Theorem C08_dedupe_group : forall op c sm glen ms x, In x (group_cmds (dedupe_group op c sm glen ms)) ->
  exists files part kept dropped,
    opt_seq ms = Some files /\ (forall f, In f part -> In f files) /\
    partition c glen part = Ok (kept, dropped) /\ In (cmd_victim x) dropped /\
    (forall t, cmd_target x = Some t -> In t kept).
Proof. exact c08_dedupe_group. Qed.
Print Assumptions C08_dedupe_group.

(* ------------------------------------------------------------------ non-vacuity *)
(* a group with a hard-link pair, an isolated root, a keep pattern and n = 2 in which something is
   dropped and something is force-kept; priorities newest, top, oldest (what follows top is ignored) *)
Definition ex_p (r f : N) : path := [[47%N]; [r]; [f]].
Definition ex_m (r f ino : N) (bt : Z) : meta :=
  mkMeta (ex_p r f) 1 ino 4 true (Some 100%Z) (Some 100%Z) (Some bt) (7%Z, 0%Z).
Definition ex_cfg : dcfg :=
  mkCfg (Some 2) (fun p => match p with [_; _; [107%N]] => true | _ => false end) (fun _ => true)
        [[[47%N]; [49%N]]] false false (Some 500%Z) [Newest; Top; Oldest].
Definition ex_group : list meta :=
  [ex_m 48 97 10 30; ex_m 48 98 10 30; ex_m 49 99 11 20; ex_m 49 100 12 10; ex_m 50 107 13 5; ex_m 50 101 14 40;
   ex_m 50 102 15 40].
Example C08_premises_inhabited :
  exists kept dropped, partition ex_cfg 4 ex_group = Ok (kept, dropped) /\ dropped <> [] /\
    length (subgroups ex_cfg (survivors ex_cfg 4 ex_group)) = 5 /\
    exists g, In g (subgroups ex_cfg (survivors ex_cfg 4 ex_group)) /\ forced ex_cfg g = true.
Proof.
  eexists _, _. split; [vm_compute; reflexivity|]. split; [discriminate|]. split.
  - vm_compute. reflexivity.
  - exists [ex_m 50 107 13 5]. split; [vm_compute; tauto|vm_compute; reflexivity].
Qed.
