(* AtomicModel.v — the dedupe commands of fclones as PROGRAMS over primitive file-system calls
   (engine A; properties C05, C18, C20).  NO proofs here.

   Modelled code (fclones/src, current tree):
     dedupe.rs  FsCommand::{maybe_lock, remove, symlink, hardlink, check_can_rename, mkdirs,
                unsafe_rename, unsafe_copy, move_rename, move_copy, temp_file, safe_remove, execute},
                run_script (counting), std::fs::create_dir_all (as called by mkdirs)
     reflink.rs reflink (Linux branch), linux_reflink, reflink_overwrite, restore_metadata(TimestampOnly)
     lock.rs    FileLock::new = open(O_WRONLY) + fcntl(F_SETLK, F_WRLCK); Drop = fcntl(F_UNLCK).
                `let _ = Self::maybe_lock(..)?` drops the guard IMMEDIATELY: the lock is only a
                check-then-act probe (stated, not a finding): OpenW; LockW; UnlockW; then the command.
                Errors whose kind is Unsupported (EOPNOTSUPP / ENOTSUP, from the open or the fcntl)
                are swallowed by maybe_lock and the command proceeds unlocked.

   prog R  = Ret r | Do call k | Warn k      (k receives the call's result; Warn = log.warn)
   oracle  = nat -> option fault             (index = position among the calls of the fault class)
   steps o i p s  = the executed calls with their pre/post states; [states] = every state a crash can
   expose; [run] = final state, result, next oracle index, warnings, injected faults delivered.    *)
From FV Require Import Base FsModel.
Open Scope N_scope.

Inductive prog (R : Type) : Type :=
| Ret (r : R)
| Do (c : call) (k : res -> prog R)
| Warn (k : prog R).
Arguments Ret {R} r.
Arguments Do {R} c k.
Arguments Warn {R} k.

Definition oracle := nat -> option fault.
Definition nofault : oracle := fun _ => None.

(* the fault the oracle delivers to call c at class index i *)
Definition fault_for (o : oracle) (i : nat) (c : call) : option fault := if is_query c then None else o i.
Definition next_idx (i : nat) (c : call) : nat := if is_query c then i else S i.
Definition injected (o : oracle) (i : nat) (c : call) : nat :=
  match fault_for o i c with Some _ => 1%nat | None => 0%nat end.

Record step := mkStep { scall : call; sres : res; spre : fs; spost : fs; sinj : bool }.

Fixpoint steps {R} (o : oracle) (i : nat) (p : prog R) (s : fs) : list step :=
  match p with
  | Ret _ => []
  | Warn k => steps o i k s
  | Do c k =>
      let f := fault_for o i c in
      let rs := do_call f c s in
      mkStep c (fst rs) s (snd rs) (match f with Some _ => true | None => false end)
      :: steps o (next_idx i c) (k (fst rs)) (snd rs)
  end.

(* every state observable at a crash point: the start, the inside of a CopyTo, the state after each call *)
Definition states_of (s : fs) (l : list step) : list fs :=
  s :: flat_map (fun st => mids (scall st) (spre st) ++ [spost st]) l.
Definition states {R} (o : oracle) (i : nat) (p : prog R) (s : fs) : list fs := states_of s (steps o i p s).

Record outcome (R : Type) := mkOut { ofs : fs; ores : R; oidx : nat; owarn : nat; ofaults : nat }.
Arguments mkOut {R}.
Arguments ofs {R}.
Arguments ores {R}.
Arguments oidx {R}.
Arguments owarn {R}.
Arguments ofaults {R}.

Fixpoint run_acc {R} (o : oracle) (i : nat) (p : prog R) (s : fs) (w nf : nat) : outcome R :=
  match p with
  | Ret r => mkOut s r i w nf
  | Warn k => run_acc o i k s (S w) nf
  | Do c k =>
      let rs := do_call (fault_for o i c) c s in
      run_acc o (next_idx i c) (k (fst rs)) (snd rs) w (injected o i c + nf)
  end.
Definition run {R} (o : oracle) (i : nat) (p : prog R) (s : fs) : outcome R := run_acc o i p s 0 0.

(* ---------------------------------------------------------------- commands *)
Inductive io := IOk | IErr.
Definition is_ok (r : io) : bool := match r with IOk => true | IErr => false end.
Definition ok_of (r : res) : io := match r with ROk => IOk | RErr _ => IErr end.

(* error.rs error_kind: ENOTSUP = EOPNOTSUPP on Linux -> ErrorKind::Unsupported *)
Definition unsupported (e : err) : bool := match e with EOPNOTSUPP => true | _ => false end.

(* maybe_lock + immediate drop of the guard *)
Definition lock_prelude (sl : bool) (a : path) (k : prog io) : prog io :=
  if sl then
    Do (OpenW a) (fun r =>
      match r with
      | RErr e => if unsupported e then k else Ret IErr
      | ROk => Do (LockW a) (fun r2 =>
                 match r2 with
                 | ROk => Do (UnlockW a) (fun _ => k)
                 | RErr e => if unsupported e then k else Ret IErr
                 end)
      end)
  else k.

(* safe_remove(path, f): rename to temp, f, roll back on error, remove temp on success *)
Definition safe_remove (a tmp : path) (f : call) : prog io :=
  Do (Rename a tmp) (fun r =>
    match r with
    | RErr _ => Ret IErr
    | ROk =>
        Do f (fun rf =>
          match rf with
          | RErr _ => Do (Rename tmp a) (fun rb => match rb with ROk => Ret IErr | RErr _ => Warn (Ret IErr) end)
          | ROk => Do (Unlink tmp) (fun ru => match ru with ROk => Ret IOk | RErr _ => Warn (Ret IOk) end)
          end)
    end).

(* std::fs::create_dir_all (the iterative implementation of the toolchain in use, rustc 1.95) as called
   by FsCommand::mkdirs.  Phase 1 walks the ancestors deepest first until a mkdir succeeds or hits an
   existing directory, remembering the ones that failed with NotFound; phase 2 creates those, shallowest
   first.  Only AlreadyExists is forgiven (when the path is a directory); every other error is returned. *)
Fixpoint mk_up {R} (pending : list path) (k : res -> prog R) : prog R :=
  match pending with
  | [] => k ROk
  | d :: rest =>
      Do (Mkdir d) (fun r =>
        match r with
        | ROk => mk_up rest k
        | RErr EEXIST => Do (IsDir d) (fun q => match q with ROk => mk_up rest k | RErr _ => k (RErr EEXIST) end)
        | RErr e => k (RErr e)
        end)
  end.
Fixpoint mk_down {R} (fuel : nat) (d : path) (pending : list path) (k : res -> prog R) : prog R :=
  match d with
  | [] | [_] => mk_up pending k                                 (* "" or the root: nothing to create here *)
  | _ =>
    Do (Mkdir d) (fun r =>
      match r with
      | ROk => mk_up pending k
      | RErr ENOENT => match fuel with
                       | S f => mk_down f (parent d) (d :: pending) k
                       | O => mk_up (d :: pending) k
                       end
      | RErr EEXIST => Do (IsDir d) (fun q => match q with ROk => mk_up pending k | RErr _ => k (RErr EEXIST) end)
      | RErr e => k (RErr e)
      end)
  end.
Definition mkdirs {R} (fuel : nat) (d : path) (k : res -> prog R) : prog R := mk_down fuel d [] k.
Definition mkdirs_of (tgt : path) {R} (k : res -> prog R) : prog R :=
  let d := norm (parent tgt) in mkdirs (length d) d k.

(* move_rename / move_copy *)
(* check_can_rename: fs::symlink_metadata(target).is_ok() => "Target already exists" (LExists does not follow
   links: a dangling symbolic link at the target blocks the move too — K6 fixed by 041ee27) *)
(* Since 730c76a both functions create the target's parent directories FIRST and look the target up SECOND: the
   lookup of `newdir/../out/f` is only reliable once every directory named on the way (here newdir) exists.  The
   model's [norm] is lexical, i.e. it resolves `d/..` as if d existed; with this order of calls that assumption holds
   by construction at the time of the lookup and of the rename / copy. *)
Definition move_rename (src tgt : path) (k : io -> prog io) : prog io :=
  mkdirs_of tgt (fun rm =>
    match rm with
    | RErr _ => k IErr
    | ROk => Do (LExists tgt) (fun e =>
               match e with
               | ROk => k IErr                                 (* "Target already exists" *)
               | RErr _ => Do (Rename src tgt) (fun rr => k (ok_of rr))
               end)
    end).
Definition move_copy (src tgt : path) (now : Z) : prog io :=
  mkdirs_of tgt (fun rm =>
    match rm with
    | RErr _ => Ret IErr
    | ROk => Do (LExists tgt) (fun e =>
               match e with
               | ROk => Ret IErr
               | RErr _ => Do (CopyTo src tgt now) (fun rc =>
                             match rc with
                             | RErr _ => Ret IErr
                             | ROk => Do (Unlink src) (fun ru => Ret (ok_of ru))
                             end)
               end)
    end).

(* reflink.rs, Linux: linux_reflink then restore_metadata(link, TimestampOnly); the parent
   directory's timestamps are restored afterwards whatever the result (failure => warning) *)
Definition remove_temporary (tmp : path) (k : prog io) : prog io :=
  Do (Unlink tmp) (fun r => match r with ROk => k | RErr _ => Warn k end).
Definition undo_dedupe (tmp a : path) (k : prog io) : prog io :=
  Do (Rename tmp a) (fun r => match r with ROk => k | RErr _ => Warn k end).

Definition linux_reflink (t a tmp : path) (now1 now2 : Z) (k : io -> prog io) : prog io :=
  (* reflink_overwrite(link, tmp): File::open(link)?, open(tmp, create+write)?, FICLONE *)
  Do (OpenR a) (fun r0 =>
    match r0 with
    | RErr _ => remove_temporary tmp (k IErr)
    | ROk =>
      Do (Create tmp now1) (fun r1 =>
        match r1 with
        | RErr _ => remove_temporary tmp (k IErr)
        | ROk =>
          Do (CloneTo a tmp now1) (fun r2 =>
            match r2 with
            | RErr _ => remove_temporary tmp (k IErr)
            | ROk =>
              (* reflink_overwrite(target, link) *)
              Do (OpenR t) (fun r3 =>
                match r3 with
                | RErr _ => undo_dedupe tmp a (k IErr)
                | ROk =>
                  Do (Create a now2) (fun r4 =>
                    match r4 with
                    | RErr _ => undo_dedupe tmp a (k IErr)
                    | ROk =>
                      Do (CloneTo t a now2) (fun r5 =>
                        match r5 with
                        | RErr _ => undo_dedupe tmp a (k IErr)
                        | ROk => remove_temporary tmp (k IOk)
                        end)
                    end)
                end)
            end)
        end)
    end).

Definition reflink (t a tmp : path) (mt pmt now1 now2 : Z) : prog io :=
  Do (Exists (parent a)) (fun pm =>            (* dest_parent.metadata(), remembered *)
    linux_reflink t a tmp now1 now2 (fun r =>
      let finish (res : io) : prog io :=
        match pm with
        | ROk => Do (Utimes (parent a) pmt) (fun ru => match ru with ROk => Ret res | RErr _ => Warn (Ret res) end)
        | RErr _ => Warn (Ret res)
        end in
      match r with
      | IErr => finish IErr
      | IOk => Do (Utimes a mt) (fun ru => finish (ok_of ru))
      end)).

(* FsCommand.  [tmp] = the temp_file() choice; [mt] / [pmt] = recorded mtime of the link / its parent;
   [now..] = clock values stamped by writes. *)
Inductive fcmd :=
| FRemove (a : path)
| FSoftLink (t a tmp : path)
| FHardLink (t a tmp : path)
| FRefLink (t a tmp : path) (mt pmt now1 now2 : Z)
| FMove (src tgt : path) (use_rename : bool) (now : Z).

(* file_to_remove *)
Definition victim (c : fcmd) : path :=
  match c with
  | FRemove a | FSoftLink _ a _ | FHardLink _ a _ | FRefLink _ a _ _ _ _ _ | FMove a _ _ _ => a
  end.

(* FsCommand::execute *)
Definition prog_of (sl : bool) (c : fcmd) : prog io :=
  match c with
  | FRemove a => lock_prelude sl a (Do (Unlink a) (fun r => Ret (ok_of r)))
  | FSoftLink t a tmp => lock_prelude sl a (safe_remove a tmp (Symlink t a))
  | FHardLink t a tmp => lock_prelude sl a (safe_remove a tmp (Link t a))
  | FRefLink t a tmp mt pmt now1 now2 => lock_prelude sl a (reflink t a tmp mt pmt now1 now2)
  | FMove src tgt use_rename now =>
      lock_prelude sl src
        (if use_rename
         then move_rename src tgt (fun r => match r with IOk => Ret IOk | IErr => move_copy src tgt now end)
         else move_copy src tgt now)
  end.

(* fault-free big step (engine D: fold exec) *)
Definition exec (sl : bool) (c : fcmd) (s : fs) : fs * io :=
  let r := run nofault 0 (prog_of sl c) s in (ofs r, ores r).

(* run_script: commands in order, each Err logged as a warning, only Ok results counted *)
Record script_out := mkSOut { sfs : fs; sresults : list io; sidx : nat; swarn : nat }.
Fixpoint run_script (sl : bool) (o : oracle) (i : nat) (cs : list fcmd) (s : fs) : script_out :=
  match cs with
  | [] => mkSOut s [] i 0
  | c :: rest =>
      let r := run o i (prog_of sl c) s in
      let t := run_script sl o (oidx r) rest (ofs r) in
      mkSOut (sfs t) (ores r :: sresults t) (sidx t)
             (owarn r + (if is_ok (ores r) then 0 else 1) + swarn t)%nat
  end.
Definition processed_count (t : script_out) : nat := length (filter is_ok (sresults t)).

Fixpoint script_steps (sl : bool) (o : oracle) (i : nat) (cs : list fcmd) (s : fs) : list step :=
  match cs with
  | [] => []
  | c :: rest =>
      let r := run o i (prog_of sl c) s in
      steps o i (prog_of sl c) s ++ script_steps sl o (oidx r) rest (ofs r)
  end.

(* ---------------------------------------------------------------- specification vocabulary
   (used by the statements of Props_C05 / Props_C18 / Props_C20; still no proofs here) *)

(* the file that was at path p in state s is at path q in state st, node and inode (bytes, mtime) intact *)
Definition same_file (s st : fs) (p q : path) : Prop :=
  names st q = names s p /\ forall i, names s p = Some (NFile i) -> inodes st i = inodes s i.

Definition cmd_tmp (c : fcmd) : option path :=
  match c with
  | FSoftLink _ _ tmp | FHardLink _ _ tmp | FRefLink _ _ tmp _ _ _ _ => Some tmp
  | _ => None
  end.
Definition cmd_retained (c : fcmd) : option path :=
  match c with
  | FSoftLink t _ _ | FHardLink t _ _ | FRefLink t _ _ _ _ _ _ => Some t
  | _ => None
  end.

(* the three disjuncts of C05 *)
Definition orig_at_path (c : fcmd) (s st : fs) : Prop := same_file s st (victim c) (victim c).
Definition orig_at_temp (c : fcmd) (s st : fs) : Prop :=
  match cmd_tmp c with Some tmp => same_file s st (victim c) tmp | None => False end.
(* "already completely replaced by a link, clone or copy of identical bytes" (for Remove: removed) *)
Definition replaced (c : fcmd) (s st : fs) : Prop :=
  exists b0, file_bytes s (victim c) = Some b0 /\
  match c with
  | FRemove a => names st a = None
  | FSoftLink t a _ => names st a = Some (NLink t) /\ file_bytes st a = Some b0
  | FHardLink t a _ => names st a = names s t /\ file_bytes st a = Some b0
  | FRefLink _ a _ _ _ _ _ => file_bytes st a = Some b0
  | FMove _ tgt _ _ => file_bytes st (norm tgt) = Some b0
  end.
Definition crash_inv (c : fcmd) (s st : fs) : Prop :=
  orig_at_path c s st \/ orig_at_temp c s st \/ replaced c s st.
Definition retained_untouched (c : fcmd) (s st : fs) : Prop :=
  match cmd_retained c with Some t => same_file s st t t | None => True end.

(* preconditions: what dedupe() guarantees about a command it emits (the victim is a regular file, the
   retained file is a different regular file with identical bytes) plus the assumptions on temp_file() *)
Definition link_pre (s : fs) (t a tmp : path) (d0 : inode) : Prop :=
  norm t = t /\ norm tmp = tmp /\ names s tmp = None /\ t <> a /\ t <> tmp /\ a <> tmp /\
  parent a <> a /\ parent a <> tmp /\ parent tmp = parent a /\ is_dir s (parent a) = true /\
  exists it dt, names s t = Some (NFile it) /\ inodes s it = Some dt /\ ibytes dt = ibytes d0.
Definition pre (c : fcmd) (s : fs) : Prop :=
  exists i0 d0, names s (victim c) = Some (NFile i0) /\ inodes s i0 = Some d0 /\ norm (victim c) = victim c /\
  match c with
  | FRemove _ => True
  | FSoftLink t a tmp | FHardLink t a tmp => link_pre s t a tmp d0
  | FRefLink t a tmp _ _ _ _ => link_pre s t a tmp d0 /\ wf s /\ names s t <> Some (NFile i0)
  | FMove _ _ _ _ => wf s
  end.

(* the original path is back exactly as it was and no temp is left behind; for RefLink the path may be
   served by the backup clone (another inode, identical bytes): equality of what an observer sees *)
Definition restored (c : fcmd) (s st : fs) : Prop :=
  match c with
  | FRemove a | FMove a _ _ _ => same_file s st a a
  | FSoftLink _ a tmp | FHardLink _ a tmp => same_file s st a a /\ names st tmp = None
  | FRefLink _ a tmp _ _ _ _ => view_of st a = view_of s a /\ names st tmp = None
  end.

(* where the bytes are when the operation failed AND its roll-back failed too (two injected faults):
   Soft/HardLink: intact at the temp sibling; RefLink: the path still shows the same bytes (a failed
   clone is all-or-nothing, so a failing roll-back rename leaves the original in place and the backup
   clone beside it) *)
Definition err_double (c : fcmd) (s st : fs) : Prop :=
  match c with
  | FSoftLink _ _ _ | FHardLink _ _ _ => orig_at_temp c s st
  | FRefLink _ a _ _ _ _ _ => view_of st a = view_of s a
  | _ => False
  end.

(* well-formed absolute path as produced by Path::from: root first, no "." component after it *)
Definition wf_abs (p : path) : Prop := exists rest, p = root_c :: rest /\ ~ In dot_c rest.

(* programs that never ask for a lock *)
Inductive nolock {R} : prog R -> Prop :=
| NL_Ret r : nolock (Ret r)
| NL_Warn k : nolock k -> nolock (Warn k)
| NL_Do c k : (forall a, c <> LockW a) -> (forall r, nolock (k r)) -> nolock (Do c k).

(* only directories were added (create_dir_all): base state s, later state st *)
Definition dirs_added (s st : fs) : Prop :=
  (forall q, names st q = names s q \/ (names s q = None /\ names st q = Some NDir)) /\
  inodes st = inodes s /\ locks st = locks s /\ next st = next s.

(* a symbolic link whose chain does not end in anything (Path::exists() is false); the class of K6, now refused *)
Definition dangling_link (s : fs) (p : path) : Prop :=
  (exists t, names s p = Some (NLink t)) /\ exists_follow s p = false.
