(* TextProofs2.v — engine T, proofs part 2 (C17): split (join (map quote as)) = as, by running the
   11-state machine of arg::split over the character list of the quoted string with the invariant
   "word = decoded prefix, state = the state the quoting style chosen by quote leads to". *)
From FV Require Import Base TextModel TextProofs.
Open Scope N_scope.

(* an OS argument: non-empty byte string *)
Definition arg_ok (a : list N) : Prop := a <> [] /\ is_bytes a.

(* ------------------------------------------------------------------------------------------ *)
(* small facts about chr and the predicates of quote *)

Lemma chr_long c x : (2 <= length c)%nat -> chr c x = false.
Proof. destruct c as [|b [|b' c']]; cbn; intros; try lia; reflexivity. Qed.

Lemma existsb_false_in {A} (f : A -> bool) l x : existsb f l = false -> In x l -> f x = false.
Proof.
  intros H Hi. destruct (f x) eqn:E; [|reflexivity]. rewrite <- H. symmetry.
  apply existsb_exists. exists x. split; assumption.
Qed.

Lemma not_special_chr c x : is_special c = false -> existsb (N.eqb x) SPECIAL_CHARS = true -> chr c x = false.
Proof.
  unfold is_special. intros H Hx. apply existsb_exists in Hx as [y [Hy E]]. apply N.eqb_eq in E. subst y.
  eapply existsb_false_in; eassumption.
Qed.

Lemma not_dollar_chr c : needs_dollar c = false -> chr c 10 = false /\ chr c 39 = false.
Proof.
  destruct c as [|b [|b' c']]; cbn [needs_dollar chr]; intros H; try (split; reflexivity).
  b2p. split; apply N.eqb_neq; lia.
Qed.

Lemma needs_dollar_fffd : needs_dollar FFFD = true.
Proof. reflexivity. Qed.

Lemma no_dollar_no_fffd lz : existsb needs_dollar lz = false -> ~ In FFFD lz.
Proof. intros H Hi. pose proof (existsb_false_in _ _ _ H Hi) as E. rewrite needs_dollar_fffd in E. discriminate. Qed.

(* ------------------------------------------------------------------------------------------ *)
(* the quoted string as a list of characters *)

Definition single (l : list N) : list (list N) := map (fun x => [x]) l.

Lemma concat_single l : concat (single l) = l.
Proof. induction l as [|b l IH]; [reflexivity|]. cbn. f_equal. exact IH. Qed.

Lemma single_app l1 l2 : single (l1 ++ l2) = single l1 ++ single l2.
Proof. apply map_app. Qed.

Lemma single_wf l : Forall (fun x => x < 128) l -> Forall wf_char (single l).
Proof. induction 1; cbn; constructor; [apply wf_ascii; assumption|assumption]. Qed.

(* characters of escq (enc_chunk ch) *)
Definition etoks (ch : chunk) : list (list N) :=
  match ch with
  | CGood c => match c with [b] => single (escq (maybe_ascii b)) | _ => [c] end
  | CBad bs => single (escq (flat_map maybe_ascii bs))
  end.

Lemma etoks_concat ch : chunk_ok ch -> concat (etoks ch) = escq (enc_chunk ch).
Proof.
  destruct ch as [c|bs]; cbn [etoks enc_chunk chunk_ok]; [|intros _; apply concat_single].
  intros [_ [[b [-> _]]|[Hl Hh]]]; [apply concat_single|].
  destruct c as [|b0 [|b1 c']]; [cbn in Hl; lia|cbn in Hl; lia|].
  cbn [concat]. rewrite app_nil_r. symmetry. apply escq_high. assumption.
Qed.

Lemma escq_maybe_ascii_lt b : b < 256 -> Forall (fun x => x < 128) (escq (maybe_ascii b)).
Proof.
  intros Hb. destruct (maybe_ascii_shape b) as [->| ->| ->| ->|Hn Hr|Hn Hr];
    try (cbn; repeat constructor; lia).
  - assert (H1 : b / 16 < 16) by (apply N.div_lt_upper_bound; lia).
    assert (H2 : b mod 16 < 16) by (apply N.mod_lt; lia).
    pose proof (hexU_range _ H1) as R1. pose proof (hexU_range _ H2) as R2.
    unfold escq. cbn [flat_map app].
    change (92 =? 39) with false. change (120 =? 39) with false. cbv iota.
    replace (hexU (b / 16) =? 39) with false by (symmetry; apply N.eqb_neq; lia).
    replace (hexU (b mod 16) =? 39) with false by (symmetry; apply N.eqb_neq; lia).
    cbn [app]. repeat constructor; lia.
  - unfold escq. cbn [flat_map app]. destruct (b =? 39); cbn [app]; repeat constructor; lia.
Qed.

Lemma escq_flat_lt bs : is_bytes bs -> Forall (fun x => x < 128) (escq (flat_map maybe_ascii bs)).
Proof.
  induction 1 as [|b bs Hb Hbs IH]; [constructor|].
  cbn [flat_map]. rewrite escq_app. apply Forall_app. split; [apply escq_maybe_ascii_lt; assumption|assumption].
Qed.

Lemma etoks_wf ch : chunk_ok ch -> is_bytes (cbytes ch) -> Forall wf_char (etoks ch).
Proof.
  destruct ch as [c|bs]; cbn [etoks chunk_ok cbytes].
  - intros [Hw [[b [-> Hb]]|[Hl Hh]]] Hby.
    + apply single_wf, escq_maybe_ascii_lt. lia.
    + destruct c as [|b0 [|b1 c']]; [cbn in Hl; lia|cbn in Hl; lia|]. constructor; [assumption|constructor].
  - intros _ Hby. apply single_wf, escq_flat_lt. assumption.
Qed.

(* sequences of characters the DollarQuoted / DollarQuotedBackslash states run over without
   seeing a closing quote: plain characters and backslash pairs *)
Inductive dq_units : list (list N) -> Prop :=
| dqu_nil : dq_units []
| dqu_one c r : chr c 92 = false -> chr c 39 = false -> dq_units r -> dq_units (c :: r)
| dqu_esc c r : dq_units r -> dq_units ([92] :: c :: r).

Lemma dq_units_app l1 l2 : dq_units l1 -> dq_units l2 -> dq_units (l1 ++ l2).
Proof. induction 1; intros H2; cbn [app]; [assumption|apply dqu_one; auto|apply dqu_esc; auto]. Qed.

Lemma dq_units_maybe_ascii b : b < 256 -> dq_units (single (escq (maybe_ascii b))).
Proof.
  intros Hb. destruct (maybe_ascii_shape b) as [->| ->| ->| ->|Hn Hr|Hn Hr];
    try (cbn; apply dqu_esc; constructor).
  - assert (H1 : b / 16 < 16) by (apply N.div_lt_upper_bound; lia).
    assert (H2 : b mod 16 < 16) by (apply N.mod_lt; lia).
    pose proof (hexU_range _ H1) as R1. pose proof (hexU_range _ H2) as R2.
    unfold escq. cbn [flat_map app].
    change (92 =? 39) with false. change (120 =? 39) with false. cbv iota.
    replace (hexU (b / 16) =? 39) with false by (symmetry; apply N.eqb_neq; lia).
    replace (hexU (b mod 16) =? 39) with false by (symmetry; apply N.eqb_neq; lia).
    cbn [app single map]. apply dqu_esc.
    apply dqu_one; [cbn; apply N.eqb_neq; lia|cbn; apply N.eqb_neq; lia|].
    apply dqu_one; [cbn; apply N.eqb_neq; lia|cbn; apply N.eqb_neq; lia|constructor].
  - unfold escq. cbn [flat_map app]. destruct (b =? 39) eqn:E; cbn [app single map].
    + apply dqu_esc. constructor.
    + apply dqu_one; [cbn; apply N.eqb_neq; assumption|cbn; assumption|constructor].
Qed.

Lemma dq_units_flat bs : is_bytes bs -> dq_units (single (escq (flat_map maybe_ascii bs))).
Proof.
  induction 1 as [|b bs Hb Hbs IH]; [constructor|].
  cbn [flat_map]. rewrite escq_app, single_app. apply dq_units_app; [apply dq_units_maybe_ascii; assumption|assumption].
Qed.

Lemma etoks_units ch : chunk_ok ch -> is_bytes (cbytes ch) -> dq_units (etoks ch).
Proof.
  destruct ch as [c|bs]; cbn [etoks chunk_ok cbytes].
  - intros [Hw [[b [-> Hb]]|[Hl Hh]]] Hby.
    + apply dq_units_maybe_ascii. lia.
    + destruct c as [|b0 [|b1 c']]; [cbn in Hl; lia|cbn in Hl; lia|].
      apply dqu_one; [reflexivity|reflexivity|constructor].
  - intros _ Hby. apply dq_units_flat. assumption.
Qed.

Definition qtoks (a : list N) : list (list N) := flat_map etoks (seg true a).

Lemma chunks_bytes chs : is_bytes (concat (map cbytes chs)) -> Forall (fun ch => is_bytes (cbytes ch)) chs.
Proof.
  induction chs as [|ch chs IH]; intros H; [constructor|].
  cbn [map concat] in H. apply is_bytes_app in H as [H1 H2]. constructor; [assumption|apply IH; assumption].
Qed.

Lemma qtoks_spec a : is_bytes a ->
  concat (qtoks a) = escq (stfu8_encode a) /\ Forall wf_char (qtoks a) /\ dq_units (qtoks a).
Proof.
  intros Hb. unfold qtoks, stfu8_encode.
  pose proof (seg_ok true a) as Hok.
  assert (Hby : Forall (fun ch => is_bytes (cbytes ch)) (seg true a)).
  { apply chunks_bytes. rewrite seg_concat. assumption. }
  induction Hok as [|ch chs Hc Hcs IH]; [repeat split; constructor|].
  inversion Hby as [|? ? Hb1 Hb2]; subst. destruct (IH Hb2) as (I1 & I2 & I3).
  cbn [flat_map]. rewrite concat_app, escq_app, I1, (etoks_concat ch Hc). repeat split.
  - apply Forall_app. split; [apply etoks_wf; assumption|assumption].
  - apply dq_units_app; [apply etoks_units; assumption|assumption].
Qed.

Definition qchars (a : list N) : list (list N) :=
  let lz := lossy a in
  if existsb needs_dollar lz then [36] :: [39] :: qtoks a ++ [[39]]
  else if existsb is_special lz then [39] :: lz ++ [[39]]
  else lz.

Lemma wf_list_of_good cs : Forall good_char cs -> Forall wf_char cs.
Proof. induction 1 as [|c cs [Hc _] _ IH]; constructor; assumption. Qed.

Lemma qchars_spec a : is_bytes a -> concat (qchars a) = quote a /\ Forall wf_char (qchars a).
Proof.
  intros Hb. unfold qchars, quote. destruct (qtoks_spec a Hb) as (Q1 & Q2 & _).
  destruct (existsb needs_dollar (lossy a)) eqn:E1.
  - split.
    + cbn [concat app]. rewrite concat_app, Q1. cbn [concat app]. reflexivity.
    + constructor; [apply wf_ascii; lia|]. constructor; [apply wf_ascii; lia|].
      apply Forall_app. split; [assumption|]. constructor; [apply wf_ascii; lia|constructor].
  - destruct (lossy_valid a (no_dollar_no_fffd _ E1)) as [L1 L2]. apply wf_list_of_good in L2.
    destruct (existsb is_special (lossy a)).
    + split.
      * cbn [concat app]. rewrite concat_app. cbn [concat app]. reflexivity.
      * constructor; [apply wf_ascii; lia|]. apply Forall_app. split; [assumption|].
        constructor; [apply wf_ascii; lia|constructor].
    + split; [reflexivity|assumption].
Qed.

(* ------------------------------------------------------------------------------------------ *)
(* runs of the state machine *)

Section Runs.
Variable s : list N.

Lemma step_delim_dollar r pos dqs word words :
  split_go s ([36] :: r) Delim pos dqs word words = split_go s r Dollar (pos + 1) dqs word words.
Proof. reflexivity. Qed.

Lemma step_dollar_quote r pos dqs word words :
  split_go s ([39] :: r) Dollar pos dqs word words = split_go s r DolQ (pos + 1) (pos + 1) word words.
Proof. reflexivity. Qed.

Lemma step_dolq_close r pos dqs word words :
  split_go s ([39] :: r) DolQ pos dqs word words =
  match str_slice s dqs pos with
  | None => SPanic
  | Some sl => match stfu8_decode (unescq sl) with
               | None => SErr
               | Some d => split_go s r Unq (pos + 1) dqs (word ++ d) words
               end
  end.
Proof. reflexivity. Qed.

Lemma step_delim_sq r pos dqs word words :
  split_go s ([39] :: r) Delim pos dqs word words = split_go s r SQ (pos + 1) dqs word words.
Proof. reflexivity. Qed.

Lemma step_sq_close r pos dqs word words :
  split_go s ([39] :: r) SQ pos dqs word words = split_go s r Unq (pos + 1) dqs word words.
Proof. reflexivity. Qed.

Lemma step_unq_space r pos dqs word words :
  split_go s ([32] :: r) Unq pos dqs word words = split_go s r Delim (pos + 1) dqs [] (word :: words).
Proof. reflexivity. Qed.

Definition unq_plain (c : list N) : Prop :=
  chr c 39 = false /\ chr c 34 = false /\ chr c 92 = false /\ chr c 36 = false /\ is_ws3 c = false.

Lemma run_unq rest dqs words : forall cs pos word, Forall unq_plain cs ->
  split_go s (cs ++ rest) Unq pos dqs word words =
  split_go s rest Unq (pos + length (concat cs)) dqs (word ++ concat cs) words.
Proof.
  induction cs as [|c cs IH]; intros pos word H.
  - cbn [app concat length]. rewrite Nat.add_0_r, app_nil_r. reflexivity.
  - inversion H as [|? ? (H1 & H2 & H3 & H4 & H5) Hr]; subst.
    cbn [app split_go]. rewrite H1, H2, H3, H4, H5. rewrite IH by assumption.
    cbn [concat]. rewrite app_length, Nat.add_assoc, app_assoc. reflexivity.
Qed.

Lemma run_sq rest dqs words : forall cs pos word, Forall (fun c => chr c 39 = false) cs ->
  split_go s (cs ++ rest) SQ pos dqs word words =
  split_go s rest SQ (pos + length (concat cs)) dqs (word ++ concat cs) words.
Proof.
  induction cs as [|c cs IH]; intros pos word H.
  - cbn [app concat length]. rewrite Nat.add_0_r, app_nil_r. reflexivity.
  - inversion H as [|? ? H1 Hr]; subst.
    cbn [app split_go]. rewrite H1. rewrite IH by assumption.
    cbn [concat]. rewrite app_length, Nat.add_assoc, app_assoc. reflexivity.
Qed.

Lemma run_dolq rest dqs word words : forall cs, dq_units cs -> forall pos,
  split_go s (cs ++ rest) DolQ pos dqs word words =
  split_go s rest DolQ (pos + length (concat cs)) dqs word words.
Proof.
  induction 1 as [|c r H1 H2 Hr IH|c r Hr IH]; intros pos.
  - cbn [app concat length]. rewrite Nat.add_0_r. reflexivity.
  - cbn [app split_go]. rewrite H1, H2, IH. cbn [concat]. rewrite app_length, Nat.add_assoc. reflexivity.
  - cbn [app split_go]. change (chr [92] 92) with true. cbv iota. rewrite IH.
    cbn [concat]. rewrite !app_length, !Nat.add_assoc. reflexivity.
Qed.

End Runs.

(* slicing the middle out of a string at character boundaries *)
Lemma is_char_boundary_app p q :
  match q with [] => True | b :: _ => is_cont b = false end -> is_char_boundary (p ++ q) (length p) = true.
Proof.
  intros H. unfold is_char_boundary. destruct (length p) eqn:E; [reflexivity|]. rewrite <- E.
  rewrite nth_error_app2 by lia. rewrite Nat.sub_diag. destruct q as [|b q'].
  - cbn [nth_error]. rewrite app_nil_r. apply Nat.eqb_refl.
  - cbn [nth_error]. rewrite H. reflexivity.
Qed.

Lemma str_slice_mid p mid q :
  match mid ++ q with [] => True | b :: _ => is_cont b = false end ->
  match q with [] => True | b :: _ => is_cont b = false end ->
  str_slice (p ++ mid ++ q) (length p) (length p + length mid) = Some mid.
Proof.
  intros H1 H2. unfold str_slice.
  assert (E1 : (length p <=? length p + length mid)%nat = true) by (apply Nat.leb_le; lia).
  assert (E2 : (length p + length mid <=? length (p ++ mid ++ q))%nat = true).
  { apply Nat.leb_le. rewrite !app_length. lia. }
  rewrite E1, E2, (is_char_boundary_app p (mid ++ q) H1).
  replace (p ++ mid ++ q) with ((p ++ mid) ++ q) at 1 by (rewrite app_assoc; reflexivity).
  replace (length p + length mid)%nat with (length (p ++ mid)) at 1 by apply app_length.
  rewrite (is_char_boundary_app (p ++ mid) q H2). cbn [andb].
  rewrite skipn_app, skipn_all, Nat.sub_diag. cbn [skipn app].
  replace (length p + length mid - length p)%nat with (length mid) by lia.
  rewrite firstn_app, firstn_all, Nat.sub_diag. cbn [firstn]. rewrite app_nil_r. reflexivity.
Qed.

Lemma concat_wf_hd cs r : Forall wf_char cs ->
  match r with [] => True | b :: _ => is_cont b = false end ->
  match concat cs ++ r with [] => True | b :: _ => is_cont b = false end.
Proof.
  intros H Hr. destruct H as [|c cs Hc Hcs]; [exact Hr|].
  cbn [concat]. rewrite <- app_assoc. apply wf_char_hd_not_cont. assumption.
Qed.

(* ------------------------------------------------------------------------------------------ *)
(* one quoted word *)

Lemma split_word a : arg_ok a -> forall pre post rest dqs words,
  exists dqs',
    split_go (pre ++ quote a ++ post) (qchars a ++ rest) Delim (length pre) dqs [] words =
    split_go (pre ++ quote a ++ post) rest Unq (length pre + length (quote a)) dqs' a words.
Proof.
  intros [Hne Hb] pre post rest dqs words.
  destruct (qtoks_spec a Hb) as (Q1 & Q2 & Q3).
  unfold qchars, quote. destruct (existsb needs_dollar (lossy a)) eqn:E1.
  - (* $'...' *)
    set (mid := escq (stfu8_encode a)) in *.
    set (s := pre ++ ([36; 39] ++ mid ++ [39]) ++ post).
    exists (length pre + 1 + 1)%nat.
    cbn [app]. rewrite step_delim_dollar, step_dollar_quote.
    rewrite <- (app_assoc (qtoks a) [[39]] rest). rewrite run_dolq by assumption. cbn [app]. rewrite step_dolq_close.
    assert (Hs : s = (pre ++ [36; 39]) ++ mid ++ (39 :: post)).
    { unfold s. rewrite <- !app_assoc. reflexivity. }
    assert (Hsl : str_slice s (length pre + 1 + 1) (length pre + 1 + 1 + length (concat (qtoks a))) = Some mid).
    { rewrite Hs, Q1. fold mid.
      replace (length pre + 1 + 1)%nat with (length (pre ++ [36; 39])) by (rewrite app_length; cbn; lia).
      apply str_slice_mid; [|reflexivity].
      rewrite <- Q1. apply concat_wf_hd; [assumption|reflexivity]. }
    rewrite Hsl. unfold mid. rewrite unescq_escq, (stfu8_roundtrip a Hb). cbn [app].
    f_equal. rewrite Q1. fold mid. cbn [length]. rewrite app_length. cbn [length]. lia.
  - pose proof (no_dollar_no_fffd _ E1) as Hnf.
    destruct (lossy_valid a Hnf) as [L1 L2].
    assert (Hnd : Forall (fun c => chr c 10 = false /\ chr c 39 = false) (lossy a)).
    { apply Forall_forall. intros c Hc. apply not_dollar_chr. eapply existsb_false_in; eassumption. }
    destruct (existsb is_special (lossy a)) eqn:E2.
    + (* '...' *)
      exists dqs. cbn [app]. rewrite step_delim_sq. rewrite <- (app_assoc (lossy a) [[39]] rest).
      rewrite run_sq.
      2:{ eapply Forall_impl; [|exact Hnd]. intros c [_ H]. exact H. }
      cbn [app]. rewrite step_sq_close. rewrite L1. cbn [app].
      f_equal. cbn [length]. rewrite app_length. cbn [length]. lia.
    + (* bare *)
      exists dqs. rewrite L1.
      assert (Hpl : Forall (fun c => unq_plain c /\ chr c 35 = false) (lossy a)).
      { apply Forall_forall. intros c Hc.
        pose proof (existsb_false_in _ _ _ E2 Hc) as Hs.
        rewrite Forall_forall in Hnd. destruct (Hnd c Hc) as [N1 N2].
        unfold unq_plain, is_ws3. rewrite N1.
        rewrite !(not_special_chr c _ Hs) by reflexivity. repeat split; reflexivity. }
      destruct (lossy a) as [|c cs] eqn:EL; [cbn in L1; congruence|].
      inversion Hpl as [|? ? [(P1 & P2 & P3 & P4 & P5) P6] Hcs]; subst.
      cbn [app split_go]. rewrite P1, P2, P3, P5, P4, P6.
      rewrite run_unq.
      2:{ eapply Forall_impl; [|exact Hcs]. intros c' [H _]. exact H. }
      cbn [concat]. rewrite app_length, Nat.add_assoc. reflexivity.
Qed.

(* ------------------------------------------------------------------------------------------ *)
(* join *)

Fixpoint jchars (l : list (list N)) : list (list N) :=
  match l with
  | [] => []
  | a :: r => match r with [] => qchars a | _ :: _ => qchars a ++ [32] :: jchars r end
  end.

Lemma jchars_cons2 a b r : jchars (a :: b :: r) = qchars a ++ [32] :: jchars (b :: r).
Proof. reflexivity. Qed.

Lemma join_one a : join [a] = quote a.
Proof. reflexivity. Qed.

Lemma join_cons2 a b r : join (a :: b :: r) = quote a ++ [32] ++ join (b :: r).
Proof. reflexivity. Qed.

Lemma jchars_spec l : Forall is_bytes l -> concat (jchars l) = join l /\ Forall wf_char (jchars l).
Proof.
  induction 1 as [|a r Ha Hr IH]; [split; [reflexivity|constructor]|].
  destruct (qchars_spec a Ha) as [Q1 Q2]. destruct r as [|b r'].
  - cbn [jchars]. rewrite join_one. split; assumption.
  - destruct IH as [I1 I2]. rewrite jchars_cons2, join_cons2. split.
    + rewrite concat_app. cbn [concat]. rewrite Q1, I1. reflexivity.
    + apply Forall_app. split; [assumption|]. constructor; [apply wf_ascii; lia|assumption].
Qed.

Lemma split_join_go : forall l, l <> [] -> Forall arg_ok l -> forall pre dqs words,
  split_go (pre ++ join l) (jchars l) Delim (length pre) dqs [] words = SOk (rev words ++ l).
Proof.
  induction l as [|a r IH]; intros Hne Hok pre dqs words; [contradiction|].
  inversion Hok as [|? ? Ha Hr]; subst. destruct r as [|b r'].
  - cbn [jchars]. rewrite join_one.
    destruct (split_word a Ha pre [] [] dqs words) as [dqs' E].
    rewrite !app_nil_r in E. rewrite E. reflexivity.
  - rewrite jchars_cons2, join_cons2.
    destruct (split_word a Ha pre ([32] ++ join (b :: r')) ([32] :: jchars (b :: r')) dqs words) as [dqs' E].
    rewrite E. rewrite step_unq_space.
    replace (pre ++ quote a ++ [32] ++ join (b :: r')) with ((pre ++ quote a ++ [32]) ++ join (b :: r'))
      by (rewrite <- !app_assoc; reflexivity).
    replace (length pre + length (quote a) + 1)%nat with (length (pre ++ quote a ++ [32]))
      by (rewrite !app_length; cbn [length]; lia).
    rewrite IH; [|discriminate|assumption].
    cbn [rev]. rewrite <- app_assoc. reflexivity.
Qed.

Lemma arg_ok_bytes l : Forall arg_ok l -> Forall is_bytes l.
Proof. apply Forall_impl. intros a [_ H]. exact H. Qed.

Lemma split_join l : Forall arg_ok l -> split (join l) = SOk l.
Proof.
  intros Hok. destruct l as [|a r]; [reflexivity|].
  destruct (jchars_spec (a :: r) (arg_ok_bytes _ Hok)) as [J1 J2].
  unfold split. rewrite <- J1 at 1. rewrite (str_chars_of_chars _ J2).
  apply (split_join_go (a :: r) ltac:(discriminate) Hok [] 0%nat []).
Qed.

Lemma split_quote a : arg_ok a -> split (quote a) = SOk [a].
Proof. intros H. rewrite <- join_one. apply split_join. constructor; [assumption|constructor]. Qed.

Lemma split_quote' (a : list N) : a <> [] -> Forall (fun b => b < 256) a -> split (quote a) = SOk [a].
Proof. intros H1 H2. apply split_quote. split; assumption. Qed.

Lemma quote_is_utf8 (a : list N) : Forall (fun b => b < 256) a -> exists cs, str_chars (quote a) = Some cs.
Proof.
  intros H. destruct (qchars_spec a H) as [Q1 Q2]. exists (qchars a).
  rewrite <- Q1. apply str_chars_of_chars. assumption.
Qed.
