(* GlobProofs.v — engine P, part 1: the specification of regex matching (`rmatch`, what the regex
   crate is trusted to implement on the emitted fragment) and the proof that the executable
   derivative matcher of GlobModel.v decides it. *)
From Coq Require Import List NArith Bool Arith Lia.
From FV Require Import Base GlobModel.
Import ListNotations.
Open Scope N_scope.

Inductive rmatch (ci : bool) : re -> str -> Prop :=
| MEps : rmatch ci REps []
| MChr x c : ceq ci x c = true -> rmatch ci (RChr x) [c]
| MNoSep c : c <> 47 -> rmatch ci RNoSep [c]
| MAnyStar s : rmatch ci RAnyStar s
| MSet neg b c : set_has ci neg b c = true -> rmatch ci (RSet neg b) [c]
| MSeq a b s1 s2 : rmatch ci a s1 -> rmatch ci b s2 -> rmatch ci (RSeq a b) (s1 ++ s2)
| MAltL a b s : rmatch ci a s -> rmatch ci (RAlt a b) s
| MAltR a b s : rmatch ci b s -> rmatch ci (RAlt a b) s
| MStar0 r : rmatch ci (RStar r) []
| MStarS r s1 s2 : rmatch ci r s1 -> rmatch ci (RStar r) s2 -> rmatch ci (RStar r) (s1 ++ s2)
| MPlus r s1 s2 : rmatch ci r s1 -> rmatch ci (RStar r) s2 -> rmatch ci (RPlus r) (s1 ++ s2)
| MOpt0 r : rmatch ci (ROpt r) []
| MOpt1 r s : rmatch ci r s -> rmatch ci (ROpt r) s
| MGroup r s : rmatch ci r s -> rmatch ci (RGroup r) s.
(* REmp and RLookNot match nothing *)

#[export] Hint Constructors rmatch : core.

Ltac inv H := inversion H; subst; clear H.

Section Deriv.
Variable ci : bool.
Notation rm := (rmatch ci).

(* inversion lemmas with fixed shapes *)
Lemma emp_inv s : rm REmp s -> False.  Proof. intros H; inversion H. Qed.
Lemma look_inv r s : rm (RLookNot r) s -> False.  Proof. intros H; inversion H. Qed.
Lemma eps_inv s : rm REps s -> s = [].  Proof. intros H; inversion H; auto. Qed.
Lemma chr_inv x s : rm (RChr x) s -> exists c, s = [c] /\ ceq ci x c = true.
Proof. intros H; inversion H; subst; eauto. Qed.
Lemma nosep_inv s : rm RNoSep s -> exists c, s = [c] /\ c <> 47.
Proof. intros H; inversion H; subst; eauto. Qed.
Lemma set_inv neg b s : rm (RSet neg b) s -> exists c, s = [c] /\ set_has ci neg b c = true.
Proof. intros H; inversion H; subst; eauto. Qed.
Lemma seq_inv a b s : rm (RSeq a b) s -> exists s1 s2, s = s1 ++ s2 /\ rm a s1 /\ rm b s2.
Proof. intros H; inversion H; subst; eauto. Qed.
Lemma alt_inv a b s : rm (RAlt a b) s -> rm a s \/ rm b s.
Proof. intros H; inversion H; subst; auto. Qed.
Lemma star_inv r s : rm (RStar r) s ->
  s = [] \/ exists s1 s2, s = s1 ++ s2 /\ rm r s1 /\ rm (RStar r) s2.
Proof. intros H; inversion H; subst; [left; auto|right; eauto 10]. Qed.
Lemma plus_inv r s : rm (RPlus r) s -> exists s1 s2, s = s1 ++ s2 /\ rm r s1 /\ rm (RStar r) s2.
Proof. intros H; inversion H; subst; eauto. Qed.
Lemma opt_inv r s : rm (ROpt r) s -> s = [] \/ rm r s.
Proof. intros H; inversion H; subst; auto. Qed.
Lemma group_inv r s : rm (RGroup r) s -> rm r s.
Proof. intros H; inversion H; subst; auto. Qed.

Lemma rm_seq_cons a b c s1 s2 : rm a (c :: s1) -> rm b s2 -> rm (RSeq a b) (c :: s1 ++ s2).
Proof. intros. change (c :: s1 ++ s2) with ((c :: s1) ++ s2). auto. Qed.
Lemma rm_seq_nil a b s : rm a [] -> rm b s -> rm (RSeq a b) s.
Proof. intros. change s with ([] ++ s). auto. Qed.

Lemma nullable_spec r : nullable r = true <-> rm r [].
Proof.
  induction r; cbn [nullable].
  - split; intros H; [discriminate|destruct (emp_inv _ H)].
  - split; auto.
  - split; intros H; [discriminate|]. apply chr_inv in H as (x & E & _). discriminate.
  - split; intros H; [discriminate|]. apply nosep_inv in H as (x & E & _). discriminate.
  - split; auto.
  - split; intros H; [discriminate|]. apply set_inv in H as (x & E & _). discriminate.
  - rewrite andb_true_iff, IHr1, IHr2. split.
    + intros [H1 H2]. apply rm_seq_nil; auto.
    + intros H. apply seq_inv in H as (s1 & s2 & E & H1 & H2).
      symmetry in E. apply app_eq_nil in E as [-> ->]. auto.
  - rewrite orb_true_iff, IHr1, IHr2. split.
    + intros [H|H]; auto.
    + apply alt_inv.
  - split; auto.
  - rewrite IHr. split.
    + intros H. change (@nil N) with (@nil N ++ []). auto.
    + intros H. apply plus_inv in H as (s1 & s2 & E & H1 & H2).
      symmetry in E. apply app_eq_nil in E as [-> ->]. auto.
  - split; auto.
  - rewrite IHr. split; intros H; [auto|apply group_inv; auto].
  - split; intros H; [discriminate|destruct (look_inv _ _ H)].
Qed.

Lemma mkseq_spec a b s : rm (mkseq a b) s <-> rm (RSeq a b) s.
Proof.
  split; intros H.
  - destruct a; cbn [mkseq] in H;
      try (destruct (emp_inv _ H); fail);
      try (apply rm_seq_nil; auto; fail);
      destruct b; auto; destruct (emp_inv _ H).
  - apply seq_inv in H as (s1 & s2 & -> & H1 & H2).
    destruct a; cbn [mkseq];
      try (destruct (emp_inv _ H1); fail);
      try (apply eps_inv in H1; subst; auto; fail);
      destruct b; auto; destruct (emp_inv _ H2).
Qed.

Lemma mkalt_spec a b s : rm (mkalt a b) s <-> rm (RAlt a b) s.
Proof.
  split; intros H.
  - destruct a; cbn [mkalt] in H; auto; destruct b; auto.
  - apply alt_inv in H as [H|H].
    + destruct a; cbn [mkalt]; try (destruct (emp_inv _ H); fail); destruct b; auto.
    + destruct a; cbn [mkalt]; auto; destruct b; auto; destruct (emp_inv _ H).
Qed.

(* splitting a star match that starts with the character c *)
Lemma star_cons_inv r c s : rm (RStar r) (c :: s) ->
  exists s1 s2, s = s1 ++ s2 /\ rm r (c :: s1) /\ rm (RStar r) s2.
Proof.
  intros H. remember (RStar r) as r0 eqn:E. remember (c :: s) as t eqn:Et.
  revert E Et. induction H as [| | | | | | | | |r' s1 s2 H1 IH1 H2 IH2| | | |]; intros E Et; try discriminate.
  injection E as ->. destruct s1 as [|x s1]; cbn [app] in Et.
  - apply IH2; auto.
  - injection Et as -> <-. exists s1, s2. auto.
Qed.

Lemma deriv_spec r : forall d s, rm (deriv ci d r) s <-> rm r (d :: s).
Proof.
  induction r; intros d s; cbn [deriv].
  - split; intros H; destruct (emp_inv _ H).
  - split; intros H; [destruct (emp_inv _ H)|apply eps_inv in H; discriminate].
  - destruct (ceq ci c d) eqn:E; split; intros H.
    + apply eps_inv in H as ->. auto.
    + apply chr_inv in H as (x & Ex & _). injection Ex as E1 E2; subst. auto.
    + destruct (emp_inv _ H).
    + apply chr_inv in H as (x & Ex & Hx). injection Ex as E1 E2; subst. congruence.
  - destruct (N.eqb_spec d 47) as [->|Hn]; split; intros H.
    + destruct (emp_inv _ H).
    + apply nosep_inv in H as (x & Ex & Hx). injection Ex as E1 E2; subst. congruence.
    + apply eps_inv in H as ->. auto.
    + apply nosep_inv in H as (x & Ex & Hx). injection Ex as E1 E2; subst. auto.
  - split; auto.
  - destruct (set_has ci neg body d) eqn:E; split; intros H.
    + apply eps_inv in H as ->. auto.
    + apply set_inv in H as (x & Ex & _). injection Ex as E1 E2; subst. auto.
    + destruct (emp_inv _ H).
    + apply set_inv in H as (x & Ex & Hx). injection Ex as E1 E2; subst. congruence.
  - destruct (nullable r1) eqn:En.
    + rewrite mkalt_spec. split; intros H.
      * apply alt_inv in H as [H|H].
        -- apply mkseq_spec in H. apply seq_inv in H as (s1 & s2 & -> & H1 & H2).
           apply rm_seq_cons; auto. apply IHr1; auto.
        -- apply rm_seq_nil; [apply nullable_spec; auto|apply IHr2; auto].
      * apply seq_inv in H as (s1 & s2 & E & H1 & H2). destruct s1 as [|x s1]; cbn [app] in E.
        -- subst s2. apply MAltR. apply IHr2; auto.
        -- injection E as -> ->. apply MAltL. apply mkseq_spec. constructor; auto. apply IHr1; auto.
    + rewrite mkseq_spec. split; intros H.
      * apply seq_inv in H as (s1 & s2 & -> & H1 & H2). apply rm_seq_cons; auto. apply IHr1; auto.
      * apply seq_inv in H as (s1 & s2 & E & H1 & H2). destruct s1 as [|x s1]; cbn [app] in E.
        -- apply nullable_spec in H1. congruence.
        -- injection E as -> ->. constructor; auto. apply IHr1; auto.
  - rewrite mkalt_spec. split; intros H; apply alt_inv in H as [H|H].
    + apply MAltL, IHr1; auto.
    + apply MAltR, IHr2; auto.
    + apply MAltL, IHr1; auto.
    + apply MAltR, IHr2; auto.
  - rewrite mkseq_spec. split; intros H.
    + apply seq_inv in H as (s1 & s2 & -> & H1 & H2). apply IHr in H1.
      change (d :: s1 ++ s2) with ((d :: s1) ++ s2). auto.
    + apply star_cons_inv in H as (s1 & s2 & -> & H1 & H2). constructor; auto. apply IHr; auto.
  - rewrite mkseq_spec. split; intros H.
    + apply seq_inv in H as (s1 & s2 & -> & H1 & H2). apply IHr in H1.
      change (d :: s1 ++ s2) with ((d :: s1) ++ s2). auto.
    + apply plus_inv in H as (s1 & s2 & E & H1 & H2). destruct s1 as [|x s1]; cbn [app] in E.
      * subst s2. apply star_cons_inv in H2 as (t1 & t2 & -> & H3 & H4). constructor; auto. apply IHr; auto.
      * injection E as -> ->. constructor; auto. apply IHr; auto.
  - split; intros H.
    + apply MOpt1, IHr; auto.
    + apply opt_inv in H as [H|H]; [discriminate|apply IHr; auto].
  - split; intros H.
    + apply MGroup, IHr; auto.
    + apply group_inv in H. apply IHr; auto.
  - split; intros H; [destruct (emp_inv _ H)|destruct (look_inv _ _ H)].
Qed.

(* the executable matcher decides rmatch *)
Theorem re_match_spec : forall s r, re_match ci r s = true <-> rm r s.
Proof.
  induction s as [|c s IH]; intros r; cbn [re_match].
  - apply nullable_spec.
  - rewrite IH. apply deriv_spec.
Qed.

Theorem re_match_prefix_spec : forall s r,
  re_match_prefix ci r s = true <->
  exists s1 s2, s = s1 ++ s2 /\ rm r s1 /\ at_boundary s2 = true.
Proof.
  induction s as [|c s IH]; intros r; cbn [re_match_prefix].
  - rewrite orb_false_r, andb_true_r, nullable_spec. split.
    + intros H. exists [], []. auto.
    + intros (s1 & s2 & E & H & _). symmetry in E. apply app_eq_nil in E as [-> ->]. auto.
  - rewrite orb_true_iff, andb_true_iff, nullable_spec, IH. split.
    + intros [[H B]|(s1 & s2 & -> & H & B)].
      * exists [], (c :: s). auto.
      * exists (c :: s1), s2. repeat split; auto. apply deriv_spec; auto.
    + intros (s1 & s2 & E & H & B). destruct s1 as [|x s1].
      * cbn [app] in E. subst s2. auto.
      * cbn [app] in E. injection E as E1 E2; subst. right. exists s1, s2. repeat split; auto. apply deriv_spec; auto.
Qed.

End Deriv.
