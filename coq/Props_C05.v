(* Props_C05.v — property C05: replacing a file is atomic with respect to crashes and I/O errors.
   Statements only; every proof is `exact <lemma of AtomicProofs4>`.

   Quantification: every command program (fcmd = Remove | SoftLink | HardLink | RefLink(linux) |
   Move with use_rename = true (rename, falling back to copy) / false (copy)), with and without the
   lock prelude, EVERY fault oracle o (any set of failing calls, any errno, any partial copy), every
   start index, every state s meeting the command's precondition [pre], every crash point.

   Vocabulary (AtomicModel.v): same_file s st p q = the file that was at p in s is at q in st with node and
   inode (bytes, mtime) intact; orig_at_path / orig_at_temp / replaced = the three disjuncts of the
   property; retained_untouched = the retained file's node and inode are unchanged; restored = the
   original path is back (exactly; for RefLink: what an observer reads at the path is the same — the path
   may be served by the backup clone) and no temp file is left. *)
From FV Require Import Base FsModel AtomicModel AtomicProofs AtomicProofs2 AtomicProofs3 AtomicProofs4 TempNameModel TempNameProofs.
Open Scope N_scope.

(* Every state a crash (SIGKILL) can expose — before / after every call and inside std::fs::copy. *)
Theorem C05_crash_invariant : forall (sl : bool) (c : fcmd) (s : fs) (o : oracle) (i : nat) (st : fs),
  pre c s -> In st (states o i (prog_of sl c) s) ->
  (orig_at_path c s st \/ orig_at_temp c s st \/ replaced c s st) /\ retained_untouched c s st.
Proof. exact c05_crash_invariant. Qed.
Print Assumptions C05_crash_invariant.

(* At most one injected failure and the run returns: either Err with the original path restored, or Ok
   with the file completely replaced (the failure hit a call whose error the code tolerates: the clean-up
   unlink of the temp => a warning is logged; an Unsupported lock; the rename of move, which falls back to
   copy; the parent-directory timestamp restore => warning).  Err results are logged and not counted:
   C05_counted_iff_ok. *)
Theorem C05_single_fault_restores : forall (sl : bool) (c : fcmd) (s : fs) (o : oracle) (i : nat),
  pre c s ->
  let r := run o i (prog_of sl c) s in
  (ofaults r <= 1)%nat ->
  (ores r = IErr /\ restored c s (ofs r)) \/
  (ores r = IOk /\ replaced c s (ofs r) /\
   match cmd_tmp c with Some tmp => names (ofs r) tmp = None \/ (1 <= owarn r)%nat | None => True end).
Proof. exact c05_single_fault. Qed.
Print Assumptions C05_single_fault_restores.

(* The boundary of the "no crash" clause: an Err result WITHOUT a restored path happens only when at
   least two calls failed (the operation and its roll-back), a warning was logged, and then the bytes are
   intact at the temp sibling (Soft/HardLink) / still readable at the path (RefLink). *)
Theorem C05_double_fault : forall (sl : bool) (c : fcmd) (s : fs) (o : oracle) (i : nat),
  pre c s ->
  let r := run o i (prog_of sl c) s in
  ores r = IErr -> ~ restored c s (ofs r) ->
  (2 <= ofaults r)%nat /\ (1 <= owarn r)%nat /\ err_double c s (ofs r).
Proof. exact c05_double_fault. Qed.
Print Assumptions C05_double_fault.

(* run_script: processed_count = number of commands whose program returned Ok; one result per command,
   in order; every Err result is logged as a warning. *)
Theorem C05_counted_iff_ok : forall (sl : bool) (o : oracle) (i : nat) (cs : list fcmd) (s : fs),
  let t := run_script sl o i cs s in
  processed_count t = length (filter is_ok (sresults t)) /\ length (sresults t) = length cs /\
  (length (filter (fun r => negb (is_ok r)) (sresults t)) <= swarn t)%nat /\
  (forall c rest, cs = c :: rest ->
     sresults t = ores (run o i (prog_of sl c) s)
                  :: sresults (run_script sl o (oidx (run o i (prog_of sl c) s)) rest (ofs (run o i (prog_of sl c) s)))).
Proof. exact c05_counted_iff_ok. Qed.
Print Assumptions C05_counted_iff_ok.

(* ---------------------------------------------------------------- non-vacuity *)
Definition ex_w : path := [root_c; [119]].
Definition ex_t : path := [root_c; [119]; [102; 49]].            (* /w/f1  retained *)
Definition ex_a : path := [root_c; [119]; [102; 50]].            (* /w/f2  dropped  *)
Definition ex_tmp : path := temp_of ex_a [116; 109; 112].        (* /w/f2.tmp *)
Definition ex_tgt : path := mv_target [root_c; [111]] ex_a.      (* /o/./w/f2 *)
Definition ex_s : fs :=
  create_at (create_at (set_name (set_name empty_fs [root_c] (Some NDir)) ex_w (Some NDir))
                       ex_t (mkInode [104; 105] 100)) ex_a (mkInode [104; 105] 101).

Lemma ex_wf : wf ex_s.
Proof. unfold ex_s. repeat first [apply wf_create | apply wf_set_dir | apply wf_empty]. Qed.

Example C05_pre_inhabited :
  pre (FRemove ex_a) ex_s /\ pre (FSoftLink ex_t ex_a ex_tmp) ex_s /\ pre (FHardLink ex_t ex_a ex_tmp) ex_s /\
  pre (FRefLink ex_t ex_a ex_tmp 101 0 (-1) (-2)) ex_s /\ pre (FMove ex_a ex_tgt true (-3)) ex_s /\
  pre (FMove ex_a ex_tgt false (-3)) ex_s.
Proof.
  assert (L : link_pre ex_s ex_t ex_a ex_tmp (mkInode [104; 105] 101)).
  { unfold link_pre.
    do 10 (split; [first [reflexivity | vm_compute; congruence]|]).
    exists 1, (mkInode [104; 105] 100). split; [reflexivity|]. split; reflexivity. }
  assert (D : names ex_s ex_t <> Some (NFile 2)) by (vm_compute; congruence).
  pose proof ex_wf as W.
  repeat (split; [exists 2, (mkInode [104; 105] 101); split; [reflexivity|]; split; [reflexivity|]; split; [reflexivity|]; auto|]).
  exists 2, (mkInode [104; 105] 101); split; [reflexivity|]; split; [reflexivity|]; split; [reflexivity|]; auto.
Qed.

(* fault-free runs succeed; a single failure of the link call is rolled back; when the roll-back fails too
   the bytes sit at the temp sibling and a warning was logged *)
Definition fail_at (ks : list nat) : oracle := fun i => if existsb (Nat.eqb i) ks then Some (mkFault EIO None) else None.
Example C05_runs :
  let c := FHardLink ex_t ex_a ex_tmp in
  let r0 := run nofault 0 (prog_of true c) ex_s in
  let r1 := run (fail_at [4%nat]) 0 (prog_of true c) ex_s in
  let r2 := run (fail_at [4%nat; 5%nat]) 0 (prog_of true c) ex_s in
  (ores r0 = IOk /\ names (ofs r0) ex_a = Some (NFile 1) /\ names (ofs r0) ex_tmp = None) /\
  (ores r1 = IErr /\ ofaults r1 = 1%nat /\ names (ofs r1) ex_a = Some (NFile 2) /\ names (ofs r1) ex_tmp = None) /\
  (ores r2 = IErr /\ ofaults r2 = 2%nat /\ owarn r2 = 1%nat /\ names (ofs r2) ex_a = None /\ names (ofs r2) ex_tmp = Some (NFile 2)).
Proof. vm_compute. repeat split; reflexivity. Qed.

(* the crash states of Move(copy) really contain the partial copies (start, exists, 3 mkdir, 3 prefixes of the 2-byte copy, copy, unlink) *)
Example C05_move_copy_states :
  length (states nofault 0 (prog_of false (FMove ex_a ex_tgt false (-3))) ex_s) = 10%nat.
Proof. vm_compute. reflexivity. Qed.

(* ---- the temporary name itself (dedupe.rs FsCommand::temp_file; names are byte lists).  The theorems above take "a fresh
   sibling name" as an operand; these say that the name the code builds exists as a name at all: it fits into NAME_MAX for
   EVERY victim name (since fix d75e85d: a name longer than 230 bytes is shortened first), starts with a prefix of the victim's
   name, is <name>.<suffix> unchanged for names of at most 230 bytes, and the cut never splits a UTF-8 sequence. ---- *)
Theorem C05_temp_name_fits :
  forall name sfx, length sfx = 24%nat -> (length (temp_name name sfx) <= 255)%nat.
Proof. exact temp_name_fits. Qed.
Print Assumptions C05_temp_name_fits.

Theorem C05_temp_name_prefix_of_victim :
  forall name, exists r, name = temp_stem name ++ r.
Proof. exact temp_stem_prefix. Qed.
Print Assumptions C05_temp_name_prefix_of_victim.

Theorem C05_temp_name_short_unchanged :
  forall name sfx, (length name <= 230)%nat -> temp_name name sfx = name ++ 46%N :: sfx.
Proof. exact temp_name_short. Qed.
Print Assumptions C05_temp_name_short_unchanged.

Theorem C05_temp_name_cut_at_char_boundary :
  forall name, (max_stem < length name)%nat ->
    temp_stem name = [] \/ is_cont (nth (length (temp_stem name)) name 0%N) = false.
Proof. exact temp_stem_boundary. Qed.
Print Assumptions C05_temp_name_cut_at_char_boundary.

Example C05_temp_name_inhabited :
  length long_name = 240%nat /\ temp_stem long_name = repeat 97%N 229 /\
  temp_stem (repeat 97%N 255) = repeat 97%N 230 /\ temp_stem (repeat 97%N 230) = repeat 97%N 230 /\
  length (temp_name long_name (repeat 65%N 24)) = 254%nat.
Proof. exact temp_stem_example. Qed.

