(* Pins_C17.v — the statements of Props_C17.v, pinned: weakening a theorem there breaks this file. *)
From FV Require Import Base TextModel Props_C17.
Open Scope N_scope.
Check C17_split_quote : forall a : list N,
  a <> [] -> Forall (fun b => b < 256) a -> split (quote a) = SOk [a].
Check C17_join : forall l : list (list N),
  Forall (fun a => a <> [] /\ Forall (fun b => b < 256) a) l -> split (join l) = SOk l.
Check C17_bash : forall l : list (list N),
  Forall (fun a => (a <> [] /\ Forall (fun b => b < 256) a) /\ Forall (fun b => b <> 0) a) l ->
  bash_words (join l) = Some l.
Check C17_bare_words_inactive : forall a : list N,
  (a <> [] /\ Forall (fun b => b < 256) a) -> quote a = a ->
  existsb needs_dollar (lossy a) = false -> existsb is_special (lossy a) = false ->
  hd_error a <> Some 126 /\ hd_error a <> Some 35 /\ Forall (fun b => bare_ok b = true) a.
Check C17_quoted_is_utf8 : forall a : list N,
  Forall (fun b => b < 256) a -> exists cs, str_chars (quote a) = Some cs.
