(* Extract_R.v — extraction of the read-only model (engine R) for the correspondence harness. *)
From Coq Require Import Extraction ExtrOcamlBasic.
From FV Require Import Base ReadOnlyModel.
Extraction Language OCaml.
Extraction "extracted/ex_R.ml" build_transform make_args run_file_ok group_run run_dedupe exec_events
  mutating target class fail_at no_fail mode_table all_cfgs cmd_of N.of_nat Z.of_N.
