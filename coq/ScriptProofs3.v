(* ScriptProofs3.v — engine X (C11), part 3: log_script and run_script agree on what is processed (same commands,
   groups in report order) and on the summary, for every arrival order and every execution order. *)
From Coq Require Import Permutation.
From FV Require Import Base SortLib TextModel.
From FV Require Import DedupeModel DedupeProofs.
From FV Require Import FsModel AtomicModel AtomicProofs AtomicProofs2 AtomicProofs3 AtomicProofs4.
From FV Require Import EffectsModel EffectsProofs EffectsProofs2 EffectsProofs3 EffectsProofs4 EffectsProofs5 ScriptModel ScriptProofs.
Open Scope N_scope.

Definition vbytes (cs : list cmd) : N := fold_right (fun c acc => mlen (cmd_victim c) + acc) 0 cs.

Lemma vbytes_perm cs cs' : Permutation cs cs' -> vbytes cs = vbytes cs'.
Proof. induction 1; cbn [vbytes fold_right] in *; try lia. fold (vbytes l) in *. fold (vbytes l') in *. lia. Qed.

Lemma reclaimed_all_ok cs : forall rs, length rs = length cs -> Forall (fun x => x = IOk) rs -> reclaimed cs rs = vbytes cs.
Proof.
  induction cs as [|c cs IH]; intros [|r rs] Hl Hf; cbn [reclaimed vbytes fold_right length] in *; try lia.
  inversion Hf as [|? ? Hr Hrs]; subst. cbn [is_ok]. fold (vbytes cs). rewrite IH by (auto; lia). reflexivity.
Qed.
Lemma processed_all_ok t : Forall (fun x => x = IOk) (sresults t) -> processed_count t = length (sresults t).
Proof.
  unfold processed_count. induction (sresults t) as [|r rs IH]; intros Hf; [reflexivity|].
  inversion Hf as [|? ? Hr Hrs]; subst. cbn [filter is_ok length]. now rewrite IH.
Qed.

(* what log_script prints: the commands of the script, group after group in report order *)
Theorem log_script_spec sfx (script : list (list cmd)) arrivals : Permutation arrivals (indexed_from 0 script) ->
  let lo := log_script sfx arrivals in
  lines lo = flat_map (render sfx) (concat script) /\ lcount lo = length (concat script) /\ lbytes lo = vbytes (concat script).
Proof.
  intros HP. unfold log_script. rewrite (log_loop_in_order script arrivals HP). cbn [lines lcount lbytes]. auto.
Qed.

Section Summary.
  Variables (ax : aux) (e : env) (sl : bool) (op : dop) (c : dcfg) (sm : path -> path -> bool) (s : fs) (r : report).
  Hypothesis Hok : run_ok ax e sl op c sm s r.
  Let script := script_items ax op c sm s r.

  Theorem summary_agrees arrivals cs' : Permutation arrivals (indexed_from 0 script) -> Permutation (concat script) cs' ->
    let lo := log_script (sfx e) arrivals in
    let ro := whole_run sl (map (fcmd_of e) cs') s in
    lcount lo = processed_count ro /\ lbytes lo = reclaimed cs' (sresults ro).
  Proof.
    intros HPa HPc. destruct (log_script_spec (sfx e) script arrivals HPa) as (_ & Hc & Hb).
    cbn zeta. rewrite Hc, Hb.
    assert (HPf : Permutation (map (fcmd_of e) (run_cmds ax op c sm s r)) (map (fcmd_of e) cs')) by (apply Permutation_map; exact HPc).
    destruct (c02_order ax e sl op c sm s r Hok _ HPf) as (_ & _ & Hres).
    assert (Hlen : length (sresults (whole_run sl (map (fcmd_of e) cs') s)) = length cs').
    { unfold whole_run. rewrite run_script_results_length, map_length. reflexivity. }
    split.
    - rewrite (processed_all_ok _ Hres), Hlen. apply Permutation_length. exact HPc.
    - rewrite (reclaimed_all_ok _ _ Hlen Hres). apply vbytes_perm. exact HPc.
  Qed.
End Summary.
