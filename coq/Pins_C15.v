(* Pins_C15.v — the statements of Props_C15.v, pinned. *)
From FV Require Import Base ListLib GroupModel GroupProofs GroupProofs2 GroupProofs3 GroupProofs4 GroupProofs5 GroupProofs8 GroupProofs9 GroupWitness Props_C15.
Open Scope N_scope.
Check C15_isolated :
  forall (H : list N -> hash) (T : list N -> option (list N)) (c : gcfg) (n : nd) (scanned : list file),
    wf_nd n -> wf_ids scanned -> wf_len scanned -> wf_paths scanned -> collision_free H c scanned ->
    transform c = false -> skip_content c = false ->
    let out := group_files H T c n scanned in
    (forall f, ok c scanned f -> clean c n scanned f ->
       ((exists g, In g out /\ In f (gfiles g)) <-> qualifies c scanned f) /\
       (forall g, In g out -> In f (gfiles g) -> is_class c scanned f (gfiles g))) /\
    (NoDup (all_files out) /\ forall f, In f (all_files out) -> ok c scanned f) /\
    (forall g g' f f', In g out -> In g' out -> In f (gfiles g) -> In f' (gfiles g') -> fdata f = fdata f' -> g = g').
Check C15_sound_under_faults :
  forall (H : list N -> hash) (T : list N -> option (list N)) (c : gcfg) (n : nd) (scanned : list file),
    wf_nd n -> wf_ids scanned -> wf_len scanned -> collision_free H c scanned ->
    skip_content c = false -> transform c = false ->
    forall g, In g (group_files H T c n scanned) ->
    forall f f', In f (gfiles g) -> In f' (gfiles g) -> fdata f = fdata f' /\ glen g = N.of_nat (length (fdata f)).
Check C15_failed_never_duplicate_except_K5 :
  forall (H : list N -> hash) (T : list N -> option (list N)) (c : gcfg) (n : nd) (scanned : list file),
    wf_nd n -> inode_determined n -> transform c = false -> skip_content c = false ->
    forall g, In g (group_files H T c n scanned) ->
      one_id (gfiles g) \/
      ((forall f, In f (gfiles g) -> fails n StPrefix f = false) /\
       (prefix_len_of c (remove_same_files c (group_by_size c (filter (size_ok c) scanned))) <= glen g ->
        forall f, In f (gfiles g) -> fails n StContents f = false)).
Check C15_failed_never_reported_transform_except_K5 :
  forall (H : list N -> hash) (T : list N -> option (list N)) (c : gcfg) (n : nd) (scanned : list file),
    wf_nd n -> inode_determined n -> transform c = true ->
    forall g f, In g (group_files H T c n scanned) -> In f (gfiles g) -> fails n StTransform f = false.
Check C15_K5_witness :
  exists (H : list N -> hash) (T : list N -> option (list N)) (c : gcfg) (n : nd) (a b x : file),
    wf_nd n /\ wf_ids [a; b; x] /\ fid a = fid b /\ fpath a <> fpath b /\
    (forall st f, fails n st f = true -> fpath f = fpath a) /\ (forall st, fails n st b = false) /\
    group_files H T c n [a; b; x] = [] /\
    exists g f, In g (group_files H T c (nd_of_mode 0) [b; x]) /\ In f (gfiles g) /\ fpath f = fpath b.
Check (eq_refl : clean = fun c n scanned f => forall x st, ok c scanned x -> fdata x = fdata f -> fails n st x = false).
Check (eq_refl : inode_determined = fun n => forall a b st, fid a = fid b -> fails n st a = fails n st b).
Check (eq_refl : one_id = fun fs => forall f f', In f fs -> In f' fs -> fid f = fid f').
