(* Pins_C15.v — the statements of Props_C15.v, pinned. *)
From FV Require Import Base ListLib GroupModel GroupProofs GroupProofs2 GroupProofs3 GroupProofs4 GroupProofs5 GroupProofs6 GroupProofs8 GroupProofs9 GroupWitness Props_C15.
Open Scope N_scope.
Check C15_run_semantics :
  forall (hf : hash_fn) (old : hash) (run : list item),
    ((forall x, In x run -> hf (snd x) old = None) /\ hash_from hf old run = []) \/
    (exists pre rep suf h len, run = pre ++ rep :: suf /\ (forall x, In x pre -> hf (snd x) old = None) /\
        hf (snd rep) old = Some (h, len) /\
        hash_from hf old run = map (fun y => (h, set_len (snd y) len)) (rep :: suf)).
Check C15_readable_not_lost :
  forall (H : list N -> hash) (T : list N -> option (list N)) (c : gcfg) (n : nd) (scanned : list file),
    wf_nd n -> wf_ids scanned -> wf_len scanned -> wf_paths scanned -> collision_free H c scanned ->
    transform c = false -> skip_content c = false ->
    let out := group_files H T c n scanned in
    (forall f, ok c scanned f -> readable n f ->
       (qual_r c n scanned f -> exists g, In g out /\ In f (gfiles g)) /\
       (forall g, In g out -> In f (gfiles g) ->
          (forall x, ok c scanned x -> readable n x -> fdata x = fdata f -> In x (gfiles g)) /\
          (forall x, In x (gfiles g) -> ok c scanned x /\ fdata x = fdata f) /\ matches_strictly c g = true)) /\
    (NoDup (all_files out) /\ forall f, In f (all_files out) -> ok c scanned f) /\
    (forall g g' f f', In g out -> In g' out -> In f (gfiles g) -> In f' (gfiles g') -> fdata f = fdata f' -> g = g').
Check C15_isolated :
  forall (H : list N -> hash) (T : list N -> option (list N)) (c : gcfg) (n : nd) (scanned : list file),
    wf_nd n -> wf_ids scanned -> wf_len scanned -> wf_paths scanned -> collision_free H c scanned ->
    transform c = false -> skip_content c = false ->
    let out := group_files H T c n scanned in
    (forall f, ok c scanned f -> clean c n scanned f ->
       ((exists g, In g out /\ In f (gfiles g)) <-> qualifies c scanned f) /\
       (forall g, In g out -> In f (gfiles g) -> is_class c scanned f (gfiles g))) /\
    (NoDup (all_files out) /\ forall f, In f (all_files out) -> ok c scanned f) /\
    (forall g g' f f', In g out -> In g' out -> In f (gfiles g) -> In f' (gfiles g') -> fdata f = fdata f' -> g = g').
Check C15_sound_under_faults :
  forall (H : list N -> hash) (T : list N -> option (list N)) (c : gcfg) (n : nd) (scanned : list file),
    wf_nd n -> wf_ids scanned -> wf_len scanned -> collision_free H c scanned ->
    skip_content c = false -> transform c = false ->
    forall g, In g (group_files H T c n scanned) ->
    forall f f', In f (gfiles g) -> In f' (gfiles g) -> fdata f = fdata f' /\ glen g = N.of_nat (length (fdata f)).
Check C15_keyed_has_readable_path :
  forall (H : list N -> hash) (T : list N -> option (list N)) (c : gcfg) (n : nd) (scanned : list file),
    wf_nd n -> transform c = false -> skip_content c = false ->
    forall g, In g (group_files H T c n scanned) ->
      one_id (gfiles g) \/
      ((forall f, In f (gfiles g) -> exists rep, fid rep = fid f /\ fails n StPrefix rep = false) /\
       (prefix_len_of c (remove_same_files c (group_by_size c (filter (size_ok c) scanned))) <= glen g ->
        forall f, In f (gfiles g) -> exists rep, fid rep = fid f /\ fails n StContents rep = false)).
Check C15_keyed_has_readable_path_transform :
  forall (H : list N -> hash) (T : list N -> option (list N)) (c : gcfg) (n : nd) (scanned : list file),
    wf_nd n -> transform c = true ->
    forall g f, In g (group_files H T c n scanned) -> In f (gfiles g) ->
      exists rep, fid rep = fid f /\ fails n StTransform rep = false.
Check C15_failed_never_duplicate :
  forall (H : list N -> hash) (T : list N -> option (list N)) (c : gcfg) (n : nd) (scanned : list file),
    wf_nd n -> inode_determined n -> transform c = false -> skip_content c = false ->
    forall g, In g (group_files H T c n scanned) ->
      one_id (gfiles g) \/
      ((forall f, In f (gfiles g) -> fails n StPrefix f = false) /\
       (prefix_len_of c (remove_same_files c (group_by_size c (filter (size_ok c) scanned))) <= glen g ->
        forall f, In f (gfiles g) -> fails n StContents f = false)).
Check C15_failed_never_reported_transform :
  forall (H : list N -> hash) (T : list N -> option (list N)) (c : gcfg) (n : nd) (scanned : list file),
    wf_nd n -> inode_determined n -> transform c = true ->
    forall g f, In g (group_files H T c n scanned) -> In f (gfiles g) -> fails n StTransform f = false.
Check (eq_refl : readable = fun n f => forall st, fails n st f = false).
Check (eq_refl : clean = fun c n scanned f => forall x st, ok c scanned x -> fdata x = fdata f -> fails n st x = false).
Check (eq_refl : qual_r = fun c n scanned f =>
  exists cl R, is_class c scanned f cl /\ NoDup R /\ (forall x, In x R <-> In x cl /\ readable n x) /\
    match repl c with Over rf => rf < subgroup_count c R | Under k => subgroup_count c cl < k end).
Check (eq_refl : inode_determined = fun n => forall a b st, fid a = fid b -> fails n st a = fails n st b).
Check (eq_refl : one_id = fun fs => forall f f', In f fs -> In f' fs -> fid f = fid f').
