(* Pins_C16.v — the statements of Props_C16.v, pinned: weakening a theorem there breaks this file. *)
From FV Require Import Base GlobModel GlobProofs GlobProofs2 GlobProofs3 GlobProofs4 Props_C16.
Open Scope N_scope.
Check C16_matcher_decides_regex : forall ci s r, re_match ci r s = true <-> rmatch ci r s.
Check C16_translate : forall ci txt p, compile_glob ci txt = Ok p -> forall s,
  (pat_matches p s = true <-> gmatch ci (pat_g p) s) /\
  (rmatch ci (to_re (pat_g p)) s <-> gmatch ci (pat_g p) s).
Check C16_translate_ast : forall ci g, wf g -> forall s, rmatch ci (to_re g) s <-> gmatch ci g s.
Check C16_parse_wf : forall txt g, parse_glob txt = Ok g -> wf g.
Check C16_emitted_text : forall g, strip_anchors (show_re (to_re g)) = show_re (to_re g).
Check C16_literal : forall l, toks_ok l ->
  let w := map snd l in
  compile_glob false (toks_text l) = Ok (mkpat false (map GLit w)) /\
  pat_text (mkpat false (map GLit w)) = escape w /\
  (forall s, pat_matches (mkpat false (map GLit w)) s = true <-> s = w) /\
  (forall s, gmatch false (map GLit w) s <-> s = w).
Check C16_ignore_case : forall g s g' s',
  gmatch true g s -> fold_glob g' = fold_glob g -> map lower s' = map lower s -> gmatch true g' s'.
Check C16_partial_conservative : forall ci g p q r,
  gmatch ci g p -> p = q ++ r -> pat_matches_partially (mkpat ci g) q = true.
Check C16_partial_conservative_compiled : forall pt p q r, wf (pat_g pt) ->
  pat_matches pt p = true -> p = q ++ r -> pat_matches_partially pt q = true.
Check C16_partial_conservative_abs : forall base pt p q r, wf (pat_g pt) ->
  pat_matches (abs_pattern base pt) p = true -> p = q ++ r ->
  pat_matches_partially (abs_pattern base pt) q = true.
Check C16_fixed_prefix : forall ci g,
  pat_fixed (mkpat ci g) = (lit_prefix g, if all_lit g then Some 0 else None).
Check C16_matches_dir_conservative : forall s p d,
  sel_excl s = nil -> Forall (fun q => wf (pat_g q)) (sel_paths s) ->
  matches_full_path s p = true ->
  (with_absolute s d = with_absolute s p \/
   exists r, path_string (with_absolute s p) = append_sep (path_string (with_absolute s d)) ++ r) ->
  matches_dir s d = true.
Check C16_matches_prefix : forall ci txt p, compile_glob ci txt = Ok p -> forall s,
  pat_matches_prefix p s = true <->
  exists s1 s2, s = s1 ++ s2 /\ gmatch ci (pat_g p) s1 /\ (s2 = nil \/ exists t, s2 = 47 :: t).
