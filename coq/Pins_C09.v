(* Pins_C09.v — the statements of Props_C09.v, pinned: weakening a theorem there breaks this file. *)
From FV Require Import Base WalkModel WalkProofs WalkProofs2 WalkProofs3 WalkProofs4 WalkProofs5 Props_C09.
Open Scope N_scope.
Check C09_sound :
  forall sel_file sel_dir ign1 t c sched roots l x,
    walk sel_file sel_dir ign1 t c sched roots = Done l -> In x l ->
    selected sel_file sel_dir ign1 t c true roots x /\ selected sel_file sel_dir ign1 t c false roots x.
Check C09_exact :
  forall sel_file sel_dir ign1 t c sched roots l x,
    conservative sel_file sel_dir ->
    c_follow c = false ->
    scan sel_file sel_dir ign1 t c sched roots = Done l ->
    (In x l <-> selected sel_file sel_dir ign1 t c false roots x /\ size_ok t c x = true).
Check C09_exact_exclude :
  forall sel_file sel_dir ign1 t c excl sched roots l x,
    (forall p d, sel_file p = true -> prefix d p -> d <> p ->
                 sel_dir d = true \/ exists d', prefix d' d /\ excl d' = true) ->
    (forall d d', excl d' = true -> prefix d' d -> sel_dir d = false) ->
    (forall p, sel_file p = true -> excl p = false) ->
    c_follow c = false ->
    scan sel_file sel_dir ign1 t c sched roots = Done l ->
    (In x l <-> selected sel_file (not_below excl) ign1 t c true roots x /\ size_ok t c x = true).
Check C09_exact_follow_partial :
  forall sel_file sel_dir ign1 t c sched roots l x,
    c_follow c = true -> c_no_ignore c = true -> c_one_fs c = false ->
    N.of_nat (length (keys t)) < c_depth c -> (forall p, sel_dir p = true) ->
    (c_hidden c = true \/ forall p, In p (keys t) -> name_hidden p = false) ->
    scan sel_file sel_dir ign1 t c sched roots = Done l ->
    (In x l <-> selected sel_file sel_dir ign1 t c false roots x /\ size_ok t c x = true).
Check C09_N1_witness :
  exists t c roots s1 s2 l1 l2 x,
    c_follow c = true /\ conservative all_true all_true /\
    walk all_true all_true no_ign t c s1 roots = Done l1 /\
    walk all_true all_true no_ign t c s2 roots = Done l2 /\
    In x l1 /\ selected all_true all_true no_ign t c false roots x /\ ~ In x l2.
Check C09_N2_witness :
  exists sel_file sel_dir t c roots x,
    conservative sel_file sel_dir /\ c_follow c = true /\
    selected sel_file sel_dir no_ign t c false roots x /\
    walk sel_file sel_dir no_ign t c sched_lifo roots = Done [] /\
    walk sel_file sel_dir no_ign t c sched_fifo roots = Done [].
Check C09_prune_conservative :
  forall sel_file sel_dir ign1 t c sched sched' roots l l' x,
    conservative sel_file sel_dir -> c_follow c = false ->
    walk sel_file sel_dir ign1 t c sched roots = Done l ->
    walk sel_file (fun _ => true) ign1 t c sched' roots = Done l' ->
    (In x l <-> In x l').
Check C09_cycles_terminate :
  forall sel_file sel_dir ign1 t c sched roots fuel,
    (walk_bound t c roots <= fuel)%nat ->
    exists l, run sel_file sel_dir ign1 t c sched fuel (root_tasks t c roots) [] [] = Done l.
Check C09_overlap_no_loss :
  forall sel_file sel_dir ign1 t c sched roots l,
    scan sel_file sel_dir ign1 t c sched roots = Done l ->
    NoDup l /\
    (conservative sel_file sel_dir -> c_follow c = false ->
     forall roots0 x, incl roots0 roots -> selected sel_file sel_dir ign1 t c false roots0 x ->
                      size_ok t c x = true -> In x l).
Check C09_follow_delivers_once :
  forall sel_file sel_dir ign1 t c sched roots l,
    c_follow c = true ->
    walk sel_file sel_dir ign1 t c sched roots = Done l -> NoDup l.
Check C09_follow_scan_is_walk :
  forall sel_file sel_dir ign1 t c sched roots found,
    c_follow c = true ->
    walk sel_file sel_dir ign1 t c sched roots = Done found ->
    scan sel_file sel_dir ign1 t c sched roots = Done (filter (size_ok t c) found).
Check C09_missing_input_path_ignored :
  forall sel_file sel_dir ign1 t c sched r1 bad r2,
    stat t (absolute t bad) = None ->
    walk sel_file sel_dir ign1 t c sched (r1 ++ bad :: r2) = walk sel_file sel_dir ign1 t c sched (r1 ++ r2) /\
    scan sel_file sel_dir ign1 t c sched (r1 ++ bad :: r2) = scan sel_file sel_dir ign1 t c sched (r1 ++ r2).
(* the definitions the statements rest on, pinned as well *)
Check conservative : (path -> bool) -> (path -> bool) -> Prop.
Check (eq_refl : conservative = fun sel_file sel_dir => forall p d, sel_file p = true -> prefix d p -> sel_dir d = true).
Check (eq_refl : prefix = fun d p => exists r, p = d ++ r).
Check (eq_refl : not_below = fun excl d => negb (existsb excl (prefixes d))).
Check (eq_refl : prefixes = fun d => map (fun n => firstn n d) (seq 0 (S (length d)))).
