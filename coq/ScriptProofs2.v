(* ScriptProofs2.v — engine X (C11), part 2: the printed lines of Remove / HardLink / SoftLink, read by bash
   (engine T's model, theorem C17_bash) and interpreted with coreutils semantics, have the same effect as the
   real execution of the command; accounting of log_script vs run_script. *)
From Coq Require Import Permutation.
From FV Require Import Base SortLib TextModel Props_C17.
From FV Require Import DedupeModel.
From FV Require Import FsModel AtomicModel AtomicProofs AtomicProofs2 EffectsModel EffectsProofs EffectsProofs2 ScriptModel ScriptProofs.
Open Scope N_scope.

(* ---------------------------------------------------------------- path strings *)
Lemma split_comp c : Forall (fun b => b <> slash /\ b <> 0 /\ b < 256) c -> forall l cur, split_slash (c ++ l) cur = split_slash l (cur ++ c).
Proof.
  induction 1 as [|b c (Hb & _) Hc IH]; intros l cur; cbn [app split_slash]; [now rewrite app_nil_r|].
  destruct (N.eqb_spec b slash) as [->|_]; [congruence|]. rewrite IH, <- app_assoc. reflexivity.
Qed.
Lemma split_join rest : Forall comp_ok rest -> rest <> [] -> split_slash (join_comps rest) [] = rest.
Proof.
  induction 1 as [|c r (Hne & Hc) Hr IH]; intros Hn; [congruence|]. cbn [join_comps].
  destruct r as [|c' r'].
  - rewrite <- (app_nil_r c) at 1. rewrite (split_comp c Hc). cbn [split_slash app]. destruct c; [congruence|reflexivity].
  - rewrite (split_comp c Hc). cbn [split_slash app]. change (slash =? slash) with true. cbn iota.
    destruct c as [|b c0]; [congruence|]. f_equal. apply IH. discriminate.
Qed.
Lemma path_bytes_wf p : wf_path p -> exists rest, p = root_c :: rest /\ path_bytes p = slash :: join_comps rest.
Proof. intros (rest & -> & _). exists rest. split; reflexivity. Qed.
Lemma parse_path_bytes p : wf_path p -> parse_path (path_bytes p) = p.
Proof.
  intros (rest & -> & Hn & Hr). change (path_bytes (root_c :: rest)) with (slash :: join_comps rest).
  unfold parse_path. change (slash =? slash) with true. cbn iota. cbn [split_slash]. change (slash =? slash) with true. cbn iota.
  now rewrite (split_join rest Hr Hn).
Qed.

Definition bytes_ok (l : list N) : Prop := (l <> [] /\ Forall (fun b => b < 256) l) /\ Forall (fun b => b <> 0) l.
Lemma join_comps_ok rest : Forall comp_ok rest -> Forall (fun b => b <> 0 /\ b < 256) (join_comps rest).
Proof.
  induction 1 as [|c r (Hne & Hc) Hr IH]; cbn [join_comps]; [constructor|].
  assert (Hc' : Forall (fun b => b <> 0 /\ b < 256) c) by (eapply Forall_impl; [|exact Hc]; cbn; tauto).
  destruct r; [exact Hc'|]. apply Forall_app. split; [exact Hc'|]. constructor; [unfold slash; split; [discriminate|reflexivity]|exact IH].
Qed.
Lemma path_bytes_ok p : wf_path p -> bytes_ok (path_bytes p).
Proof.
  intros (rest & -> & Hn & Hr). change (path_bytes (root_c :: rest)) with (slash :: join_comps rest).
  pose proof (join_comps_ok rest Hr) as H. split; [split; [discriminate|]|].
  - constructor; [reflexivity|]. eapply Forall_impl; [|exact H]. cbn; tauto.
  - constructor; [discriminate|]. eapply Forall_impl; [|exact H]. cbn; tauto.
Qed.

(* ---------------------------------------------------------------- the literal words *)
Lemma quote_rm : quote W_rm = W_rm. Proof. vm_compute. reflexivity. Qed.
Lemma quote_mv : quote W_mv = W_mv. Proof. vm_compute. reflexivity. Qed.
Lemma quote_ln : quote W_ln = W_ln. Proof. vm_compute. reflexivity. Qed.
Lemma quote_s : quote W_s = W_s. Proof. vm_compute. reflexivity. Qed.
Lemma lit_ok w : w = W_rm \/ w = W_mv \/ w = W_ln \/ w = W_s -> bytes_ok w.
Proof.
  intros [->|[->|[->| ->]]]; (split; [split; [discriminate|]|]); repeat constructor; discriminate.
Qed.

Lemma bash_line ws : Forall bytes_ok ws -> bash_words (join ws) = Some ws.
Proof. intros H. apply C17_bash. exact H. Qed.

(* every printed line of Remove / HardLink / SoftLink is the `join` of its words, so bash reads back the words *)
Definition printable (x : cmd) : Prop := match x with Remove _ | HardLink _ _ | SoftLink _ _ => True | _ => False end.
Definition cmd_paths_wf (sfx : path -> comp) (x : cmd) : Prop :=
  wf_path (mpath (cmd_victim x)) /\ wf_path (tmp_path sfx (mpath (cmd_victim x))) /\
  match x with SoftLink t _ | HardLink t _ | RefLink t _ => wf_path (mpath t) | _ => True end.

Lemma render_join sfx x : printable x -> render sfx x = map join (shell_words sfx x).
Proof.
  destruct x; cbn [printable]; intros []; cbn [render shell_words map]; unfold join, qp; cbn [map intercalate];
    rewrite ?quote_rm, ?quote_mv, ?quote_ln, ?quote_s; reflexivity.
Qed.

Lemma render_bash sfx x : printable x -> cmd_paths_wf sfx x ->
  map bash_words (render sfx x) = map Some (shell_words sfx x).
Proof.
  intros Hp (Hv & Ht & Hx). rewrite (render_join _ _ Hp).
  pose proof (path_bytes_ok _ Hv) as Bv. pose proof (path_bytes_ok _ Ht) as Bt.
  destruct x; cbn [printable] in Hp; try destruct Hp; cbn [shell_words map cmd_victim] in *;
    try (pose proof (path_bytes_ok _ Hx) as Bx);
    repeat (rewrite bash_line; [|repeat (apply Forall_cons; [first [assumption | apply lit_ok; tauto]|]); apply Forall_nil]); reflexivity.
Qed.

(* ---------------------------------------------------------------- coreutils on the words *)
Lemma sh_line_rm now p : sh_line now [W_rm; p] = Some (Unlink (parse_path p)).
Proof. reflexivity. Qed.
Lemma sh_line_mv now a b : sh_line now [W_mv; a; b] = Some (Rename (parse_path a) (parse_path b)).
Proof. reflexivity. Qed.
Lemma sh_line_ln now a b : sh_line now [W_ln; a; b] = Some (Link (parse_path a) (parse_path b)).
Proof. reflexivity. Qed.
Lemma sh_line_lns now a b : sh_line now [W_ln; W_s; a; b] = Some (Symlink (parse_path a) (parse_path b)).
Proof. reflexivity. Qed.

Lemma sh_run_cons now ws rest s c : Forall bytes_ok ws -> sh_line now ws = Some c ->
  sh_run now (join ws :: rest) s = sh_run now rest (snd (nat_call c s)).
Proof. intros Hw Hc. cbn [sh_run]. now rewrite (bash_line ws Hw), Hc. Qed.

Ltac fok := repeat (apply Forall_cons; [first [assumption | apply lit_ok; tauto]|]); apply Forall_nil.

Theorem script_same_effect e sl now s x : printable x -> cmd_paths_wf (sfx e) x -> cmd_ok sl s (fcmd_of e x) ->
  sh_run now (render (sfx e) x) s = Some (fst (ev (prog_of sl (fcmd_of e x)) s)).
Proof.
  intros Hp (Hv & Ht & Hx) Hok. rewrite (render_join _ _ Hp).
  pose proof (path_bytes_ok _ Hv) as Bv. pose proof (path_bytes_ok _ Ht) as Bt.
  destruct x as [m|t l|t l|t l|src tgt rn]; cbn [printable] in Hp; try destruct Hp;
    cbn [shell_words map cmd_victim fcmd_of cmd_ok] in *.
  - (* Remove *)
    pose proof (victim_lock_ok _ _ _ Hok) as Hl. destruct Hok as (Hn & n & Ea & Hnd & _).
    pose proof (clean_norm _ Hn) as Ca.
    erewrite sh_run_cons; [|fok|apply sh_line_rm]. cbn [sh_run].
    rewrite (parse_path_bytes _ Hv), (ev_remove sl _ s n Ca Ea Hnd Hl). cbn [fst].
    change (nat_call (Unlink (mpath m)) s) with (do_call None (Unlink (mpath m)) s). now rewrite (unlink_ok _ _ _ Ca Ea Hnd).
  - (* SoftLink *)
    pose proof (path_bytes_ok _ Hx) as Bx.
    destruct Hok as (Hvok & (Hnt & Etmp & Hpp & Hdir) & Hn_t & Hta & Httmp).
    pose proof (victim_lock_ok _ _ _ Hvok) as Hl. destruct Hvok as (Hn & na & Ea & Hnd & _).
    pose proof (clean_norm _ Hn) as Ca. pose proof (clean_norm _ Hnt) as Ctmp. pose proof (clean_norm _ Hn_t) as Ct.
    erewrite sh_run_cons; [|fok|apply sh_line_mv].
    erewrite sh_run_cons; [|fok|apply sh_line_lns].
    erewrite sh_run_cons; [|fok|apply sh_line_rm]. cbn [sh_run].
    rewrite !(parse_path_bytes _ Hv), !(parse_path_bytes _ Ht), (parse_path_bytes _ Hx).
    destruct (softlink_call_ok s (mpath t) (mpath l) _ na Ca Ct Ea Hnd Etmp Hdir) as (Hc & E3).
    unfold tmp_path in *.
    rewrite (calls_safe_remove_ok s (mpath l) _ na Ca Ctmp Ea Hnd Etmp Hpp Hdir _ _ Hc E3).
    rewrite (ev_softlink s (mpath t) (mpath l) _ na Ca Ct Ctmp Ea Hnd Etmp Hpp Hdir sl Hl). reflexivity.
  - (* HardLink *)
    pose proof (path_bytes_ok _ Hx) as Bx.
    destruct Hok as (Hvok & (Hnt & Etmp & Hpp & Hdir) & Hn_t & Hta & Httmp & nt & Et & Hntd).
    pose proof (victim_lock_ok _ _ _ Hvok) as Hl. destruct Hvok as (Hn & na & Ea & Hnd & _).
    pose proof (clean_norm _ Hn) as Ca. pose proof (clean_norm _ Hnt) as Ctmp. pose proof (clean_norm _ Hn_t) as Ct.
    erewrite sh_run_cons; [|fok|apply sh_line_mv].
    erewrite sh_run_cons; [|fok|apply sh_line_ln].
    erewrite sh_run_cons; [|fok|apply sh_line_rm]. cbn [sh_run].
    rewrite !(parse_path_bytes _ Hv), !(parse_path_bytes _ Ht), (parse_path_bytes _ Hx).
    destruct (hardlink_call_ok s (mpath t) (mpath l) _ na nt Ca Ct Ea Hnd Etmp Hdir Hta Httmp Et Hntd) as (Hc & E3).
    unfold tmp_path in *.
    rewrite (calls_safe_remove_ok s (mpath l) _ na Ca Ctmp Ea Hnd Etmp Hpp Hdir _ _ Hc E3).
    rewrite (ev_hardlink s (mpath t) (mpath l) _ na nt Ca Ct Ctmp Ea Hnd Etmp Hpp Hdir Hta Httmp sl Et Hntd Hl). reflexivity.
Qed.
