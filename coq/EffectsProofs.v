(* EffectsProofs.v — engine X, part 1: fault-free evaluation of the command programs.
     [ev]         the fault-free big step as a plain recursive evaluator; [run nofault] and [exec] agree with it
     closed forms for Remove / SoftLink / HardLink (victim: any non-directory node; retained: any non-directory node,
     so the K2 / K7 situations are inside), for RefLink and for the lock probe. *)
From FV Require Import Base FsModel AtomicModel AtomicProofs AtomicProofs2 AtomicProofs3.
Open Scope N_scope.

(* ---------------------------------------------------------------- the fault-free evaluator *)
Fixpoint ev {R} (p : prog R) (s : fs) : fs * R :=
  match p with
  | Ret r => (s, r)
  | Warn k => ev k s
  | Do c k => ev (k (fst (nat_call c s))) (snd (nat_call c s))
  end.
(* number of warnings of the fault-free run *)
Fixpoint evw {R} (p : prog R) (s : fs) : nat :=
  match p with
  | Ret _ => 0%nat
  | Warn k => S (evw k s)
  | Do c k => evw (k (fst (nat_call c s))) (snd (nat_call c s))
  end.

Lemma fault_for_nofault i c : fault_for nofault i c = None.
Proof. unfold fault_for, nofault. destruct (is_query c); reflexivity. Qed.
Lemma injected_nofault i c : injected nofault i c = 0%nat.
Proof. unfold injected. now rewrite fault_for_nofault. Qed.

Lemma run_acc_nofault {R} (p : prog R) : forall i s w nf,
  ofs (run_acc nofault i p s w nf) = fst (ev p s) /\ ores (run_acc nofault i p s w nf) = snd (ev p s) /\
  owarn (run_acc nofault i p s w nf) = (w + evw p s)%nat /\ ofaults (run_acc nofault i p s w nf) = nf.
Proof.
  induction p as [r|c k IH|k IH]; intros i s w nf; cbn [run_acc ev evw].
  - cbn. repeat split; lia.
  - rewrite fault_for_nofault, injected_nofault. cbn [do_call]. apply IH.
  - destruct (IH i s (S w) nf) as (H1 & H2 & H3 & H4). repeat split; auto. lia.
Qed.
Lemma run_nofault {R} (p : prog R) i s :
  ofs (run nofault i p s) = fst (ev p s) /\ ores (run nofault i p s) = snd (ev p s).
Proof. destruct (run_acc_nofault p i s 0 0) as (H1 & H2 & _). split; assumption. Qed.
Lemma exec_ev sl c s : exec sl c s = ev (prog_of sl c) s.
Proof.
  unfold exec. destruct (run_nofault (prog_of sl c) 0 s) as [H1 H2]. rewrite H1, H2. now destruct (ev (prog_of sl c) s).
Qed.

(* run_script without faults = fold of ev *)
Fixpoint ev_script (sl : bool) (cs : list fcmd) (s : fs) : fs * list io :=
  match cs with
  | [] => (s, [])
  | c :: rest => let r := ev (prog_of sl c) s in
                 let t := ev_script sl rest (fst r) in (fst t, snd r :: snd t)
  end.
Lemma run_script_nofault sl cs : forall i s,
  sfs (run_script sl nofault i cs s) = fst (ev_script sl cs s) /\
  sresults (run_script sl nofault i cs s) = snd (ev_script sl cs s).
Proof.
  induction cs as [|c cs IH]; intros i s; cbn [run_script ev_script sfs sresults fst snd]; [auto|].
  destruct (run_nofault (prog_of sl c) i s) as [H1 H2]. rewrite H1, H2.
  destruct (IH (oidx (run nofault i (prog_of sl c) s)) (fst (ev (prog_of sl c) s))) as [H3 H4].
  rewrite H3, H4. auto.
Qed.

Lemma ev_script_app sl a b s :
  ev_script sl (a ++ b) s = (fst (ev_script sl b (fst (ev_script sl a s))),
                             snd (ev_script sl a s) ++ snd (ev_script sl b (fst (ev_script sl a s)))).
Proof.
  revert s; induction a as [|c a IH]; intros s; cbn [app ev_script fst snd].
  - now destruct (ev_script sl b s).
  - rewrite IH. reflexivity.
Qed.

(* ---------------------------------------------------------------- the lock probe *)
(* the victim can be probed: no locking, or it resolves to a regular file whose inode is not locked *)
Definition lock_ok (sl : bool) (s : fs) (a : path) : Prop :=
  sl = false \/ exists q i, follow s a = RFound q (NFile i) /\ locks s i = false.

Lemma nat_call_clean1 (f : path -> call) a s : (forall x, ncall (f x) = f (norm x)) -> clean a ->
  nat_call (f a) s = nat_ncall (f a) s.
Proof. intros H Ca. unfold nat_call. rewrite H, norm_of_clean by auto. reflexivity. Qed.

Lemma ev_prelude_ok sl a (k : prog io) s : clean a -> lock_ok sl s a -> ev (lock_prelude sl a k) s = ev k s.
Proof.
  intros Ca [->|(q & i & F & L)]; [reflexivity|].
  unfold lock_prelude. destruct sl; [|reflexivity].
  cbn [ev]. unfold nat_call. cbn [ncall]. rewrite (norm_of_clean a) by auto. cbn [nat_ncall]. rewrite F. cbn [fst snd ev].
  unfold nat_call. cbn [ncall]. rewrite (norm_of_clean a) by auto. cbn [nat_ncall]. rewrite F, L. cbn [fst snd ev]. reflexivity.
Qed.
(* the probe never changes the state *)
Lemma ev_prelude_cases sl a (k : prog io) s : ev (lock_prelude sl a k) s = ev k s \/ ev (lock_prelude sl a k) s = (s, IErr).
Proof.
  unfold lock_prelude. destruct sl; [|left; reflexivity]. cbn [ev].
  assert (E1 : snd (nat_call (OpenW a) s) = s) by (apply (stateless_nat (OpenW a) s I)).
  rewrite E1. destruct (fst (nat_call (OpenW a) s)) as [|e].
  - cbn [ev]. assert (E2 : snd (nat_call (LockW a) s) = s) by (apply (stateless_nat (LockW a) s I)).
    rewrite E2. destruct (fst (nat_call (LockW a) s)) as [|e].
    + cbn [ev]. left. reflexivity.
    + destruct (unsupported e); [left|right]; reflexivity.
  - destruct (unsupported e); [left|right]; reflexivity.
Qed.

(* ---------------------------------------------------------------- Remove *)
Lemma ev_remove sl a s n : clean a -> names s a = Some n -> n <> NDir -> lock_ok sl s a ->
  ev (prog_of sl (FRemove a)) s = (set_name s a None, IOk).
Proof.
  intros Ca Ea Hn Hl. cbn [prog_of]. rewrite ev_prelude_ok by auto. cbn [ev].
  change (nat_call (Unlink a) s) with (do_call None (Unlink a) s). rewrite (unlink_ok _ _ _ Ca Ea Hn). reflexivity.
Qed.

(* ---------------------------------------------------------------- SoftLink / HardLink *)
Section LinkOk.
  Variables (s : fs) (t a tmp : path) (na nt : node).
  Hypothesis Ca : clean a.
  Hypothesis Ct : clean t.
  Hypothesis Ctmp : clean tmp.
  Hypothesis Ea : names s a = Some na.
  Hypothesis Hna : na <> NDir.
  Hypothesis Etmp : names s tmp = None.
  Hypothesis Hpp : parent tmp = parent a.
  Hypothesis Hdir : is_dir s (parent a) = true.
  Hypothesis Hta : t <> a.
  Hypothesis Httmp : t <> tmp.

  Lemma lk_atmp : a <> tmp. Proof. congruence. Qed.
  Lemma lk_pa : parent a <> a.
  Proof. intros E. unfold is_dir in Hdir. rewrite E, Ea in Hdir. destruct na; congruence. Qed.
  Lemma lk_ptmp : parent a <> tmp.
  Proof. intros E. unfold is_dir in Hdir. rewrite E, Etmp in Hdir. discriminate. Qed.

  Let s1 := set_name (set_name s a None) tmp (Some na).

  Lemma lk_rename : do_call None (Rename a tmp) s = (ROk, s1).
  Proof. apply rename_ok; auto. now rewrite Hpp. Qed.
  Lemma lk_s1_a : names s1 a = None.
  Proof. pose proof lk_atmp. unfold s1. now nsimp. Qed.
  Lemma lk_s1_dir : is_dir s1 (parent a) = true.
  Proof. pose proof lk_pa. pose proof lk_ptmp. unfold s1. now nsimp. Qed.
  Lemma lk_s1_t : names s1 t = names s t.
  Proof. unfold s1. now nsimp. Qed.

  Lemma ev_safe_remove_ok (f : call) (s3 : fs) :
    do_call None f s1 = (ROk, s3) -> names s3 tmp = Some na ->
    ev (safe_remove a tmp f) s = (set_name s3 tmp None, IOk).
  Proof.
    intros Hf E3. unfold safe_remove. cbn [ev].
    change (nat_call (Rename a tmp) s) with (do_call None (Rename a tmp) s). rewrite lk_rename. cbn [fst snd ev].
    change (nat_call f s1) with (do_call None f s1). rewrite Hf. cbn [fst snd ev].
    change (nat_call (Unlink tmp) s3) with (do_call None (Unlink tmp) s3).
    rewrite (unlink_ok _ _ _ Ctmp E3 Hna). reflexivity.
  Qed.

  (* the same three calls issued one after the other (what `mv; ln; rm` do) end in the same state *)
  Lemma calls_safe_remove_ok (f : call) (s3 : fs) :
    do_call None f s1 = (ROk, s3) -> names s3 tmp = Some na ->
    snd (nat_call (Unlink tmp) (snd (nat_call f (snd (nat_call (Rename a tmp) s))))) = set_name s3 tmp None.
  Proof.
    intros Hf E3.
    change (nat_call (Rename a tmp) s) with (do_call None (Rename a tmp) s). rewrite lk_rename. cbn [snd].
    change (nat_call f s1) with (do_call None f s1). rewrite Hf. cbn [snd].
    change (nat_call (Unlink tmp) s3) with (do_call None (Unlink tmp) s3).
    rewrite (unlink_ok _ _ _ Ctmp E3 Hna). reflexivity.
  Qed.
  Lemma hardlink_call_ok : names s t = Some nt -> nt <> NDir ->
    do_call None (Link t a) s1 = (ROk, set_name s1 a (Some nt)) /\ names (set_name s1 a (Some nt)) tmp = Some na.
  Proof.
    intros Et Hnt. split.
    - apply link_ok; auto using lk_s1_a, lk_s1_dir. rewrite lk_s1_t. exact Et.
    - pose proof lk_atmp. nsimp. unfold s1. now nsimp.
  Qed.
  Lemma softlink_call_ok :
    do_call None (Symlink t a) s1 = (ROk, set_name s1 a (Some (NLink t))) /\ names (set_name s1 a (Some (NLink t))) tmp = Some na.
  Proof.
    split.
    - apply symlink_ok; auto using lk_s1_a, lk_s1_dir.
    - pose proof lk_atmp. nsimp. unfold s1. now nsimp.
  Qed.

  Lemma ev_hardlink sl : names s t = Some nt -> nt <> NDir -> lock_ok sl s a ->
    ev (prog_of sl (FHardLink t a tmp)) s = (set_name (set_name s1 a (Some nt)) tmp None, IOk).
  Proof.
    intros Et Hnt Hl. cbn [prog_of]. rewrite ev_prelude_ok by auto.
    apply ev_safe_remove_ok.
    - apply link_ok; auto using lk_s1_a, lk_s1_dir. rewrite lk_s1_t. exact Et.
    - pose proof lk_atmp. nsimp. unfold s1. now nsimp.
  Qed.

  Lemma ev_softlink sl : lock_ok sl s a ->
    ev (prog_of sl (FSoftLink t a tmp)) s = (set_name (set_name s1 a (Some (NLink t))) tmp None, IOk).
  Proof.
    intros Hl. cbn [prog_of]. rewrite ev_prelude_ok by auto.
    apply ev_safe_remove_ok.
    - apply symlink_ok; auto using lk_s1_a, lk_s1_dir.
    - pose proof lk_atmp. nsimp. unfold s1. now nsimp.
  Qed.
End LinkOk.

(* ---------------------------------------------------------------- RefLink (regular files) *)
Section RefLinkOk.
  Variables (s : fs) (t a tmp : path) (mt pmt now1 now2 : Z) (i0 : N) (d0 : inode) (it : N) (dt : inode).
  Hypothesis Ea : names s a = Some (NFile i0).
  Hypothesis Ed : inodes s i0 = Some d0.
  Hypothesis Ca : clean a.
  Hypothesis Ct : clean t.
  Hypothesis Ctmp : clean tmp.
  Hypothesis Etmp : names s tmp = None.
  Hypothesis Hta : t <> a.
  Hypothesis Httmp : t <> tmp.
  Hypothesis Hpp : parent tmp = parent a.
  Hypothesis Hdir : is_dir s (parent a) = true.
  Hypothesis Et : names s t = Some (NFile it).
  Hypothesis Edt : inodes s it = Some dt.
  Hypothesis Hwf : wf s.
  Hypothesis Hiti0 : it <> i0.

  Let nx := next s.
  Let s1 := create_at s tmp (mkInode [] now1).
  Let s2 := set_inode s1 nx (mkInode (ibytes d0) now1).
  Let s4 := set_inode s2 i0 (mkInode (ibytes dt) now2).
  Let s5 := set_name s4 tmp None.
  Definition reflink_final : fs := set_inode s5 i0 (mkInode (ibytes dt) mt).

  Lemma rl_atmp : a <> tmp. Proof. congruence. Qed.
  Lemma rl_i0 : i0 <> nx. Proof. destruct Hwf as [H _]. specialize (H _ _ Ea). unfold nx. lia. Qed.
  Lemma rl_it : it <> nx. Proof. destruct Hwf as [H _]. specialize (H _ _ Et). unfold nx. lia. Qed.
  Lemma rl_pdir : names s (parent a) = Some NDir.
  Proof. unfold is_dir in Hdir. destruct (names s (parent a)) as [[| |]|]; congruence. Qed.
  Lemma rl_pa : parent a <> a. Proof. intros E. pose proof rl_pdir as H. rewrite E, Ea in H. discriminate. Qed.
  Lemma rl_ptmp : parent a <> tmp. Proof. intros E. pose proof rl_pdir as H. rewrite E, Etmp in H. discriminate. Qed.

  Lemma ev_reflink sl : lock_ok sl s a ->
    ev (prog_of sl (FRefLink t a tmp mt pmt now1 now2)) s = (reflink_final, IOk).
  Proof.
    intros Hl. pose proof rl_atmp as Hat. pose proof rl_i0 as Hi0. pose proof rl_it as Hit.
    pose proof rl_pa as Hpa. pose proof rl_ptmp as Hpt. pose proof rl_pdir as Hpd.
    assert (Cpa : clean (parent a)) by auto using clean_parent.
    cbn [prog_of]. rewrite ev_prelude_ok by auto. unfold reflink. cbn [ev].
    (* Exists (parent a) *)
    assert (Hex : fst (nat_call (Exists (parent a)) s) = ROk) by (apply (exists_dir _ _ Cpa Hpd)).
    assert (Hex2 : snd (nat_call (Exists (parent a)) s) = s) by (apply (stateless_nat (Exists (parent a)) s I)).
    rewrite Hex, Hex2. unfold linux_reflink. cbn [ev].
    (* OpenR a *)
    assert (Ho : fst (nat_call (OpenR a) s) = ROk) by (apply (openr_file _ _ _ Ca Ea)).
    assert (Ho2 : snd (nat_call (OpenR a) s) = s) by (apply (stateless_nat (OpenR a) s I)).
    rewrite Ho, Ho2. cbn [ev].
    (* Create tmp *)
    change (nat_call (Create tmp now1) s) with (do_call None (Create tmp now1) s).
    rewrite create_new by (auto; rewrite Hpp; auto). cbn [fst snd ev]. fold s1.
    assert (E1a : names s1 a = Some (NFile i0)) by (unfold s1; rewrite names_create_other by congruence; exact Ea).
    assert (E1i : inodes s1 i0 = Some d0) by (unfold s1; rewrite inodes_create_other by (apply not_eq_sym; exact Hi0); exact Ed).
    assert (E1t : names s1 tmp = Some (NFile nx)) by (unfold s1; apply names_create_same).
    (* Clone a -> tmp *)
    change (nat_call (CloneTo a tmp now1) s1) with (do_call None (CloneTo a tmp now1) s1).
    rewrite (clone_ok a tmp now1 s1 i0 d0 nx) by auto. cbn [fst snd ev]. fold s2.
    assert (E2a : names s2 a = Some (NFile i0)) by exact E1a.
    assert (E2t : names s2 t = Some (NFile it)).
    { unfold s2, s1. nsimp. rewrite names_create_other by congruence. exact Et. }
    assert (E2it : inodes s2 it = Some dt).
    { unfold s2, s1. rewrite inodes_set_inode_other by (apply not_eq_sym; exact Hit).
      rewrite inodes_create_other by (apply not_eq_sym; exact Hit). exact Edt. }
    (* OpenR t *)
    assert (Ho3 : fst (nat_call (OpenR t) s2) = ROk) by (apply (openr_file _ _ _ Ct E2t)).
    assert (Ho4 : snd (nat_call (OpenR t) s2) = s2) by (apply (stateless_nat (OpenR t) s2 I)).
    rewrite Ho3, Ho4. cbn [ev].
    (* Create a: exists *)
    change (nat_call (Create a now2) s2) with (do_call None (Create a now2) s2).
    rewrite (create_existing a now2 s2 i0) by auto. cbn [fst snd ev].
    (* Clone t -> a *)
    change (nat_call (CloneTo t a now2) s2) with (do_call None (CloneTo t a now2) s2).
    rewrite (clone_ok t a now2 s2 it dt i0) by auto. cbn [fst snd ev]. fold s4.
    (* remove the temp *)
    unfold remove_temporary. cbn [ev].
    change (nat_call (Unlink tmp) s4) with (do_call None (Unlink tmp) s4).
    rewrite (unlink_ok tmp s4 (NFile nx)) by (auto; discriminate). cbn [fst snd ev]. fold s5.
    (* restore the time stamp of the link *)
    assert (E5a : names s5 a = Some (NFile i0)) by (unfold s5; nsimp; exact E1a).
    assert (E5i : inodes s5 i0 = Some (mkInode (ibytes dt) now2)) by (unfold s5, s4; nsimp; apply inodes_set_inode_same).
    change (nat_call (Utimes a mt) s5) with (do_call None (Utimes a mt) s5).
    rewrite (utimes_file a mt s5 i0 _ Ca E5a E5i). cbn [fst snd ev ibytes ok_of]. fold reflink_final.
    (* the parent directory's time stamp *)
    assert (E6p : names reflink_final (parent a) = Some NDir).
    { unfold reflink_final, s5, s4, s2, s1. nsimp. rewrite names_create_other by congruence. exact Hpd. }
    change (nat_call (Utimes (parent a) pmt) reflink_final) with (do_call None (Utimes (parent a) pmt) reflink_final).
    rewrite (utimes_dir _ pmt _ Cpa E6p). reflexivity.
  Qed.

  (* what the final state looks like *)
  Lemma reflink_final_names q : names reflink_final q = names s q.
  Proof.
    unfold reflink_final, s5, s4, s2, s1. nsimp.
    destruct (path_eqb_spec tmp q) as [<-|Hn].
    - now rewrite names_set_same.
    - rewrite names_set_other by auto. nsimp. now rewrite names_create_other by auto.
  Qed.
  Lemma reflink_final_inodes i : i <> nx ->
    inodes reflink_final i = if N.eqb i i0 then Some (mkInode (ibytes dt) mt) else inodes s i.
  Proof.
    intros Hi. unfold reflink_final. destruct (N.eqb_spec i i0) as [->|Hn].
    - apply inodes_set_inode_same.
    - rewrite inodes_set_inode_other by congruence. unfold s5, s4. nsimp.
      rewrite inodes_set_inode_other by congruence. unfold s2. rewrite inodes_set_inode_other by congruence.
      unfold s1. unfold nx in Hi. now rewrite inodes_create_other by congruence.
  Qed.
  Lemma reflink_final_next : next reflink_final = next s + 1. Proof. reflexivity. Qed.
  Lemma reflink_final_locks : locks reflink_final = locks s. Proof. reflexivity. Qed.
End RefLinkOk.
