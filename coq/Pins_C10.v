(* Pins_C10.v — the statements of Props_C10.v, pinned: weakening a theorem there breaks this file. *)
From FV Require Import Base TextModel TextProofs3 TextProofs5 TextProofs6 Props_C10.
Open Scope N_scope.
Check C10_stfu8 : forall b : list N,
  Forall (fun x => x < 256) b -> stfu8_decode (stfu8_encode b) = Some b.
Check C10_json_roundtrip : forall p : list N,
  path_ok p -> path_from_escaped (path_to_escaped p) = POk p.
Check C10_text_roundtrip :
  forall (human : N -> list N) (TS : Type) (fmt_ts : TS -> list N) (parse_ts : list N -> option TS)
         (ts_ok : TS -> Prop),
  (forall n, human n <> [] /\
             Forall (fun b => 32 <= b < 127 /\ b <> 42 /\ b <> 41 /\ b <> 58) (human n)) ->
  (forall t, ts_ok t -> Forall (fun b => 32 <= b < 127) (fmt_ts t) /\
                        parse_ts (str_trim (fmt_ts t)) = Some t) ->
  forall (h : header TS) (gs : list group),
  header_ok TS ts_ok h -> Forall group_ok gs ->
  read_report TS parse_ts (write_text human TS fmt_ts h gs) = RepText TS h gs GEnd.
Check C10_truncation :
  forall (human : N -> list N) (TS : Type) (fmt_ts : TS -> list N) (parse_ts : list N -> option TS)
         (ts_ok : TS -> Prop),
  (forall n, human n <> [] /\
             Forall (fun b => 32 <= b < 127 /\ b <> 42 /\ b <> 41 /\ b <> 58) (human n)) ->
  (forall t, ts_ok t -> Forall (fun b => 32 <= b < 127) (fmt_ts t) /\
                        parse_ts (str_trim (fmt_ts t)) = Some t) ->
  forall (h : header TS) (gs : list group) (g : group) (k : nat),
  header_ok TS ts_ok h -> Forall group_ok gs -> group_ok g -> g_files g <> [] ->
  (0 < k < length (write_group human g))%nat ->
  read_report TS parse_ts
    (write_header human TS fmt_ts h ++ flat_map (write_group human) gs ++ firstn k (write_group human g))
  = RepText TS h gs GErr.
