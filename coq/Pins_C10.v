From FV Require Import Base TextModel Props_C10.
Open Scope N_scope.
Check C10_stfu8 : forall b : list N, Forall (fun x => x < 256) b -> stfu8_decode (stfu8_encode b) = Some b.
