(* GlobProofs2.v — engine P, part 2: the documented glob semantics `gmatch` and the proof that the
   translation glob -> regex preserves it (C16_translate). *)
From Coq Require Import List NArith Bool Arith Lia.
From FV Require Import Base GlobModel GlobProofs.
Import ListNotations.
Open Scope N_scope.

(* ---- case folding: everything is decided by computation on the finite modelled domain ---- *)
Lemma small_forall (P : N -> bool) (n : nat) :
  forallb P (map N.of_nat (seq 0 n)) = true -> forall c, c < N.of_nat n -> P c = true.
Proof.
  intros H c Hc. rewrite forallb_forall in H. apply H.
  rewrite <- (N2Nat.id c). apply in_map. apply in_seq. lia.
Qed.

Lemma lower_big c : 383 <= c -> lower c = c.
Proof.
  intros H. unfold lower, between.
  assert (L : forall k, k < 383 -> (c <=? k) = false) by (intros k Hk; apply N.leb_gt; lia).
  assert (E : (c =? 376) = false) by (apply N.eqb_neq; lia).
  rewrite !L, E by lia. rewrite !andb_false_r. reflexivity.
Qed.

Lemma upper_big c : 383 <= c -> upper c = c.
Proof.
  intros H. unfold upper, between.
  assert (L : forall k, k < 383 -> (c <=? k) = false) by (intros k Hk; apply N.leb_gt; lia).
  assert (E : (c =? 255) = false) by (apply N.eqb_neq; lia).
  rewrite !L, E by lia. rewrite !andb_false_r. reflexivity.
Qed.

Lemma by_domain (P : N -> bool) :
  forallb P (map N.of_nat (seq 0 383)) = true -> (forall c, 383 <= c -> P c = true) -> forall c, P c = true.
Proof.
  intros H1 H2 c. destruct (N.lt_ge_cases c 383) as [H|H]; auto.
  apply (small_forall P 383); auto.
Qed.

Lemma lower_idem c : lower (lower c) = lower c.
Proof.
  apply N.eqb_eq. revert c. apply by_domain; [vm_compute; reflexivity|].
  intros c H. rewrite !(lower_big c H). apply N.eqb_refl.
Qed.

Lemma lower_sep c : lower c = 47 <-> c = 47.
Proof.
  assert (H : forall c, Bool.eqb (lower c =? 47) (c =? 47) = true).
  { apply by_domain; [vm_compute; reflexivity|]. intros x Hx. rewrite (lower_big x Hx). apply eqb_reflx. }
  specialize (H c). apply eqb_prop in H. rewrite <- !N.eqb_eq, H. tauto.
Qed.

Lemma ceq_sep ci c : ceq ci 47 c = true <-> c = 47.
Proof.
  destruct ci; cbn [ceq].
  - change (lower 47) with 47. rewrite N.eqb_eq. split; intros H; [apply lower_sep; auto|].
    symmetry. apply lower_sep; auto.
  - rewrite N.eqb_eq. split; auto.
Qed.

(* The documented semantics (pattern.rs doc comment of glob_with + the property text):
   `?` one character except '/', `*` any sequence without '/', `**` any sequence (newlines
   included), `[..]`/`[!..]` one character in / not in the set, `{a,b}` and `@(a|b)` exactly one of
   the alternatives, `?(..)` at most one, `+(..)` at least one, `*(..)` any number of occurrences,
   every other (or escaped) character itself; with ci literals and classes are compared modulo
   case (ceq, set_has).  `!(..)` has no rule: it is outside the property. *)
Inductive gmatch1 (ci : bool) : gl -> str -> Prop :=
| GM_lit x c : ceq ci x c = true -> gmatch1 ci (GLit x) [c]
| GM_one c : c <> 47 -> gmatch1 ci GOne [c]
| GM_star s : ~ In 47 s -> gmatch1 ci GStar s
| GM_dstar s : gmatch1 ci GDStar s
| GM_sep : gmatch1 ci GSep [47]
| GM_class neg b c : set_has ci neg b c = true -> gmatch1 ci (GClass neg b) [c]
| GM_alt alts a s : In a alts -> gmatch ci a s -> gmatch1 ci (GAlt alts) s
| GM_once alts a s : In a alts -> gmatch ci a s -> gmatch1 ci (GExt EOnce alts) s
| GM_opt0 alts : gmatch1 ci (GExt EOpt alts) []
| GM_opt1 alts a s : In a alts -> gmatch ci a s -> gmatch1 ci (GExt EOpt alts) s
| GM_many0 alts : gmatch1 ci (GExt EMany alts) []
| GM_manyS alts a s1 s2 : In a alts -> gmatch ci a s1 -> gmatch1 ci (GExt EMany alts) s2 ->
    gmatch1 ci (GExt EMany alts) (s1 ++ s2)
| GM_plus alts a s1 s2 : In a alts -> gmatch ci a s1 -> gmatch1 ci (GExt EMany alts) s2 ->
    gmatch1 ci (GExt EPlus alts) (s1 ++ s2)
with gmatch (ci : bool) : list gl -> str -> Prop :=
| GM_nil : gmatch ci [] []
| GM_cons g gs s1 s2 : gmatch1 ci g s1 -> gmatch ci gs s2 -> gmatch ci (g :: gs) (s1 ++ s2).

Scheme gmatch1_mind := Minimality for gmatch1 Sort Prop
  with gmatch_mind := Minimality for gmatch Sort Prop.
Combined Scheme gmatch_mutind from gmatch1_mind, gmatch_mind.

#[export] Hint Constructors gmatch1 gmatch : core.

(* nested induction principle for gl *)
Section gl_ind2.
  Variable P : gl -> Prop.
  Hypothesis HLit : forall c, P (GLit c).
  Hypothesis HOne : P GOne.
  Hypothesis HStar : P GStar.
  Hypothesis HDStar : P GDStar.
  Hypothesis HSep : P GSep.
  Hypothesis HClass : forall neg b, P (GClass neg b).
  Hypothesis HAlt : forall alts, Forall (Forall P) alts -> P (GAlt alts).
  Hypothesis HExt : forall k alts, Forall (Forall P) alts -> P (GExt k alts).
  Fixpoint gl_ind2 (g : gl) : P g :=
    let seq := fix seq (l : list gl) : Forall P l :=
      match l with [] => Forall_nil _ | x :: t => Forall_cons x (gl_ind2 x) (seq t) end in
    let alts := fix alts (l : list (list gl)) : Forall (Forall P) l :=
      match l with [] => Forall_nil _ | a :: r => Forall_cons a (seq a) (alts r) end in
    match g with
    | GLit c => HLit c | GOne => HOne | GStar => HStar | GDStar => HDStar | GSep => HSep
    | GClass neg b => HClass neg b
    | GAlt l => HAlt l (alts l)
    | GExt k l => HExt k l (alts l)
    end.
End gl_ind2.

(* well-formed: no empty alternative list (the parser never produces one, see parse_wf), and no
   !( ) *)
Inductive wf1 : gl -> Prop :=
| WLit c : wf1 (GLit c) | WOne : wf1 GOne | WStar : wf1 GStar | WDStar : wf1 GDStar | WSep : wf1 GSep
| WClass neg b : wf1 (GClass neg b)
| WAlt l : l <> [] -> Forall (Forall wf1) l -> wf1 (GAlt l)
| WExt k l : l <> [] -> Forall (Forall wf1) l -> wf1 (GExt k l).
Definition wf (l : list gl) : Prop := Forall wf1 l.

Section Translate.
Variable ci : bool.
Notation rm := (rmatch ci).

Lemma to_re_cons x t : to_re (x :: t) = RSeq (to_re1 x) (to_re t).
Proof. reflexivity. Qed.
Lemma to_re_alts_cons a r : to_re_alts (a :: r) = match r with [] => to_re a | _ :: _ => RAlt (to_re a) (to_re_alts r) end.
Proof. reflexivity. Qed.

Lemma star_nosep s : rm (RStar RNoSep) s <-> ~ In 47 s.
Proof.
  split.
  - intros H. remember (RStar RNoSep) as r eqn:E. revert E.
    induction H as [| | | | | | | | |r' s1 s2 H1 IH1 H2 IH2| | | |]; intros E; try discriminate.
    + intros [].
    + injection E as ->. apply nosep_inv in H1 as (c & -> & Hc). cbn. intros [Hx|Hx]; [congruence|].
      apply IH2; auto.
  - induction s as [|c s IH]; intros H; [constructor|].
    change (c :: s) with ([c] ++ s). constructor.
    + constructor. intros ->. apply H. left; auto.
    + apply IH. intros Hx. apply H. right; auto.
Qed.

Lemma seq_translate l : Forall (fun g => forall s, rm (to_re1 g) s <-> gmatch1 ci g s) l ->
  forall s, rm (to_re l) s <-> gmatch ci l s.
Proof.
  induction 1 as [|g l Hg Hl IH]; intros s.
  - split; intros H.
    + apply eps_inv in H as ->. constructor.
    + inversion H; subst. constructor.
  - rewrite to_re_cons. split; intros H.
    + apply seq_inv in H as (s1 & s2 & -> & H1 & H2). constructor; [apply Hg|apply IH]; auto.
    + inversion H; subst. constructor; [apply Hg|apply IH]; auto.
Qed.

Lemma alts_translate l : l <> [] ->
  Forall (fun a => forall s, rm (to_re a) s <-> gmatch ci a s) l ->
  forall s, rm (to_re_alts l) s <-> exists a, In a l /\ gmatch ci a s.
Proof.
  intros Hne H. induction H as [|a r Ha Hr IH]; [congruence|]. intros s.
  rewrite to_re_alts_cons. destruct r as [|b r].
  - rewrite Ha. split.
    + intros H. exists a. split; [left|]; auto.
    + intros (a' & [<-|[]] & H). auto.
  - split.
    + intros H. apply alt_inv in H as [H|H].
      * exists a. split; [left; auto|apply Ha; auto].
      * apply IH in H as (a' & Hin & H); [|discriminate]. exists a'. split; [right|]; auto.
    + intros (a' & [<-|Hin] & H).
      * apply MAltL, Ha; auto.
      * apply MAltR, IH; [discriminate|]. eauto.
Qed.

(* star of a group vs *( ) *)
Lemma many_translate l r : (forall s, rm r s <-> exists a, In a l /\ gmatch ci a s) ->
  forall s, rm (RStar (RGroup r)) s <-> gmatch1 ci (GExt EMany l) s.
Proof.
  intros Hr s. split.
  - intros H. remember (RStar (RGroup r)) as r0 eqn:E. revert E.
    induction H as [| | | | | | | | |r' s1 s2 H1 IH1 H2 IH2| | | |]; intros E; try discriminate.
    + constructor.
    + injection E as ->. apply group_inv in H1. apply Hr in H1 as (a & Hin & Ha).
      eapply GM_manyS; eauto.
  - intros H. remember (GExt EMany l) as g eqn:E. revert E.
    induction H as [| | | | | | | | | | |alts a s1 s2 Hin Ha H2 IH2|]; intros E; try discriminate.
    + constructor.
    + injection E as ->. constructor; auto. constructor. apply Hr. eauto.
Qed.

Lemma translate1 g : wf1 g -> forall s, rm (to_re1 g) s <-> gmatch1 ci g s.
Proof.
  induction g as [c| | | | |neg b|l IH|k l IH] using gl_ind2; intros Hwf s; cbn [to_re1].
  - split; intros H.
    + apply chr_inv in H as (x & -> & Hx). auto.
    + inversion H; subst. auto.
  - split; intros H.
    + apply nosep_inv in H as (x & -> & Hx). auto.
    + inversion H; subst. auto.
  - rewrite star_nosep. split; intros H; [auto|inversion H; auto].
  - split; auto.
  - split; intros H.
    + apply chr_inv in H as (x & -> & Hx). apply ceq_sep in Hx as ->. constructor.
    + inversion H; subst. constructor. apply ceq_sep; auto.
  - split; intros H.
    + apply set_inv in H as (x & -> & Hx). auto.
    + inversion H; subst. auto.
  - inversion Hwf as [| | | | | |l' Hne Hall|]; subst.
    assert (A : forall s, rm (to_re_alts l) s <-> exists a, In a l /\ gmatch ci a s).
    { apply alts_translate; auto. rewrite Forall_forall in *. intros a Ha. apply seq_translate.
      specialize (IH a Ha). specialize (Hall a Ha). rewrite Forall_forall in *. intros g Hg. apply IH; auto. }
    change (alts_re (seq_re to_re1) l) with (to_re_alts l). split; intros H.
    + apply group_inv in H. apply A in H as (a & Hin & Ha). eauto.
    + inversion H; subst. constructor. apply A. eauto.
  - inversion Hwf as [| | | | | | |k' l' Hne Hall]; subst.
    assert (A : forall s, rm (to_re_alts l) s <-> exists a, In a l /\ gmatch ci a s).
    { apply alts_translate; auto. rewrite Forall_forall in *. intros a Ha. apply seq_translate.
      specialize (IH a Ha). specialize (Hall a Ha). rewrite Forall_forall in *. intros g Hg. apply IH; auto. }
    change (alts_re (seq_re to_re1) l) with (to_re_alts l). destruct k.
    + split; intros H.
      * apply opt_inv in H as [->|H]; [constructor|]. apply group_inv in H. apply A in H as (a & Hin & Ha). eauto.
      * inversion H; subst; [constructor|]. apply MOpt1. constructor. apply A. eauto.
    + apply many_translate; auto.
    + split; intros H.
      * apply plus_inv in H as (s1 & s2 & -> & H1 & H2). apply group_inv in H1. apply A in H1 as (a & Hin & Ha).
        eapply GM_plus; eauto. apply (many_translate l (to_re_alts l)); auto.
      * inversion H; subst. constructor.
        -- constructor. apply A. eauto.
        -- apply (many_translate l (to_re_alts l)); auto.
    + split; intros H.
      * apply group_inv in H. apply A in H as (a & Hin & Ha). eauto.
      * inversion H; subst. constructor. apply A. eauto.
    + split; intros H; [destruct (look_inv _ _ _ H)|inversion H].
Qed.

Theorem translate g : wf g -> forall s, rm (to_re g) s <-> gmatch ci g s.
Proof.
  intros H. apply seq_translate. unfold wf in H. rewrite Forall_forall in *. intros x Hx. apply translate1; auto.
Qed.

End Translate.

(* ---- the parser only produces well-formed ASTs ---- *)
Ltac destruct_matches H :=
  repeat (match type of H with
          | context [match ?x with _ => _ end] => destruct x eqn:?
          end; try discriminate H).

Lemma parse_wf_fuel f :
  (forall sc s g r, p_token f sc s = POk g r -> wf1 g) /\
  (forall sc s gs r, p_seq f sc s = POk gs r -> Forall wf1 gs) /\
  (forall sc sep s l r, p_alts f sc sep s = POk l r -> l <> [] /\ Forall (Forall wf1) l) /\
  (forall sc sep s l r, p_alts_rest f sc sep s = POk l r -> Forall (Forall wf1) l).
Proof.
  induction f as [|f (IHt & IHs & IHa & IHr)].
  - repeat split; intros; discriminate.
  - split; [|split; [|split]].
    + intros sc s g r H. cbn [p_token] in H. destruct_matches H;
        injection H as <- <-; try constructor;
        try (match goal with E : p_alts _ _ _ _ = POk _ _ |- _ => apply IHa in E as [? ?] end; auto).
    + intros sc s gs r H. cbn [p_seq] in H. destruct_matches H; injection H as <- <-; eauto.
    + intros sc sep s l r H. cbn [p_alts] in H. destruct_matches H; injection H as <- <-.
      split; [discriminate|]. eauto.
    + intros sc sep s l r H. cbn [p_alts_rest] in H. destruct_matches H; injection H as <- <-; eauto.
Qed.

Theorem parse_wf txt g : parse_glob txt = Ok g -> wf g.
Proof.
  unfold parse_glob. intros H. destruct (p_seq (parse_fuel txt) STop txt) as [gs [|? ?]| |] eqn:E; try discriminate.
  injection H as <-. eapply (proj1 (proj2 (parse_wf_fuel _))); eauto.
Qed.
