(* Pins_C19.v — the statements of Props_C19.v, pinned: weakening a theorem there breaks this file. *)
From FV Require Import Base SemModel SemProofs Props_C19.
Open Scope Z_scope.
Check C19_safety : forall (permits : Z) (n : nat) (s : st), reachable permits n s ->
  count s + holders s + cnt isPreInc (pcs s) = permits /\
  (0 <= permits -> 0 <= count s /\ holders s <= permits).
Check C19_mutual_exclusion : forall permits n s t u pt pu, reachable permits n s ->
  nth_error (pcs s) t = Some pt -> holdsMutex pt = true ->
  nth_error (pcs s) u = Some pu -> holdsMutex pu = true -> t = u /\ mutex s = Some t.
Check C19_no_lost_wakeup : forall permits n s, reachable permits n s ->
  sleepers s > 0 -> Z.max (count s) 0 <= cnt isNot (pcs s) + cnt isK (pcs s).
Check C19_wakeup_progress : forall permits n s, reachable permits n s ->
  count s > 0 -> sleepers s > 0 -> exists s', istep s s'.
Check C19_internal_terminates : forall s, Acc (fun s' s => istep s s') s.
Check C19_settled : forall permits n s, reachable permits n s -> (forall s', ~ istep s s') ->
  (forall t q, nth_error (pcs s) t = Some q -> q = Idle \/ q = Sleep) /\
  (sleepers s > 0 -> count s <= 0).
Check C19_restored : forall permits n s, reachable permits n s ->
  all_idle s -> holders s = 0 -> count s = permits.
Check C19_validated_traces_are_model_paths : forall permits n es s i s', reachable permits n s ->
  validate s es i = (None, s') -> reachable permits n s'.
