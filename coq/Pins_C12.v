(* Pins_C12.v — the statements of Props_C12.v, pinned: weakening a theorem there breaks this file. *)
From FV Require Import Base CacheModel CacheProofs CacheProofs2 CacheProofs3 Props_C12.
Open Scope N_scope.
Check C12_entries_valid :
  forall (H : N -> bytes -> hashv) (T : tconf -> bytes -> option bytes) (h : list event) (w0 : world),
  stamp_determines (moments H T ([], w0) h) -> tree_faithful T (confs h) ->
  forall h1 h2, h = h1 ++ h2 ->
  forall t k e, In ((t, k), e) (fst (exec H T ([], w0) h1)) ->
  forall a tr, In (a, tr) (confs h) -> tree_of a tr = t ->
  forall w i, In w (moments H T ([], w0) h) -> inode_of w (key_id k) = Some i ->
    code_ms (i_mtime i) = e_mt e -> nlen (i_data i) = e_fl e ->
    match tr with
    | None => e_h e = H a (chunk (key_pos k) (key_len k) (i_data i)) /\ e_dl e = key_len k
    | Some cf => key_pos k = 0 /\ exists d', T cf (i_data i) = Some d' /\ e_dl e = nlen d' /\ e_h e = H a d'
    end.
Check C12_same_result :
  forall (H : N -> bytes -> hashv) (T : tconf -> bytes -> option bytes)
         (h : list event) (w0 : world) (a : N) (tr : option tconf) (R : Type) (p : prog R),
  stamp_determines (moments H T ([], w0) h) -> tree_faithful T ((a, tr) :: confs h) -> nofail p ->
  fst (run_cached H T a tr p (fst (exec H T ([], w0) h)) (snd (exec H T ([], w0) h)))
  = run_plain H T a tr p (snd (exec H T ([], w0) h)).
Check C12_same_result_except_K :
  forall (H : N -> bytes -> hashv) (T : tconf -> bytes -> option bytes)
         (h : list event) (w0 : world) (a : N) (tr : option tconf) (R : Type) (p : prog R),
  mtime_determines (moments H T ([], w0) h) ->
  no_preepoch (moments H T ([], w0) h) ->
  no_none_cmd ((a, tr) :: confs h) -> flags_irrelevant T ((a, tr) :: confs h) ->
  nofail p ->
  fst (run_cached H T a tr p (fst (exec H T ([], w0) h)) (snd (exec H T ([], w0) h)))
  = run_plain H T a tr p (snd (exec H T ([], w0) h)).
Check C12_get_put : forall t k m c t' k' m' dl h,
  cache_get t k m (cache_put t' k' m' dl h c) =
  if tree_eqb t t' && key_eqb k k'
  then (if (code_ms (m_mtime m') =? code_ms (m_mtime m)) && (m_len m' =? m_len m) then Some (dl, h) else None)
  else cache_get t k m c.
Check C12_checkers_sound : forall ws,
  (stamp_determines_b ws = true -> stamp_determines ws) /\
  (mtime_determines_b ws = true -> mtime_determines ws) /\
  (preepoch_b ws = false -> no_preepoch ws).
Check C12_KC1_witness :
  mtime_determines (moments Hx Tid ([], empty_world) hK1) /\
  no_none_cmd ((0, None) :: confs hK1) /\ flags_irrelevant Tid ((0, None) :: confs hK1) /\
  nofail (probe 1 0 1) /\
  ~ no_preepoch (moments Hx Tid ([], empty_world) hK1) /\
  cached_answer Hx Tid hK1 0 None (probe 1 0 1) <> plain_answer Hx Tid hK1 0 None (probe 1 0 1).
Check C12_KC2_witness :
  mtime_determines (moments Hx Tip ([], empty_world) hK2) /\ no_preepoch (moments Hx Tip ([], empty_world) hK2) /\
  no_none_cmd ((0, Some (sedc true)) :: confs hK2) /\
  nofail (probe 1 0 2) /\
  (t_cmd (sedc true) = t_cmd (sedc false) /\ Tip (sedc true) [97; 98] <> Tip (sedc false) [97; 98]) /\
  cached_answer Hx Tip hK2 0 (Some (sedc true)) (probe 1 0 2) <> plain_answer Hx Tip hK2 0 (Some (sedc true)) (probe 1 0 2).
Check C12_KC3_witness :
  mtime_determines (moments Hx Thead ([], empty_world) hK3) /\ no_preepoch (moments Hx Thead ([], empty_world) hK3) /\
  flags_irrelevant Thead ((0, Some nonec) :: confs hK3) /\
  nofail (probe 1 0 2) /\
  t_cmd nonec = none_str /\
  cached_answer Hx Thead hK3 0 (Some nonec) (probe 1 0 2) <> plain_answer Hx Thead hK3 0 (Some nonec) (probe 1 0 2).
