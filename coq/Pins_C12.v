(* Pins_C12.v — the statements of Props_C12.v, pinned: weakening a theorem there breaks this file. *)
From FV Require Import Base CacheModel CacheProofs CacheProofs2 CacheProofs3 CacheProofs4 Props_C12.
Open Scope N_scope.
Check C12_entries_valid :
  forall (H : N -> bytes -> hashv) (T : tconf -> bytes -> option bytes) (h : list event) (w0 : world),
  stamp_determines (moments H T ([], w0) h) -> nul_free (confs h) ->
  forall h1 h2, h = h1 ++ h2 ->
  forall t k e, In ((t, k), e) (fst (exec H T ([], w0) h1)) ->
  forall a tr, In (a, tr) (confs h) -> tree_of a tr = t ->
  forall w i, In w (moments H T ([], w0) h) -> inode_of w (key_id k) = Some i ->
    code_ms (i_mtime i) = e_mt e -> nlen (i_data i) = e_fl e ->
    match tr with
    | None => e_h e = H a (chunk (key_pos k) (key_len k) (i_data i)) /\ e_dl e = key_len k
    | Some cf => key_pos k = 0 /\ exists d', T cf (i_data i) = Some d' /\ e_dl e = nlen d' /\ e_h e = H a d'
    end.
Check C12_same_result :
  forall (H : N -> bytes -> hashv) (T : tconf -> bytes -> option bytes)
         (h : list event) (w0 : world) (a : N) (tr : option tconf) (R : Type) (p : prog R),
  stamp_determines (moments H T ([], w0) h) -> nul_free ((a, tr) :: confs h) -> nofail p ->
  fst (run_cached H T a tr p (fst (exec H T ([], w0) h)) (snd (exec H T ([], w0) h)))
  = run_plain H T a tr p (snd (exec H T ([], w0) h)).
Check C12_same_result_hashed_moments :
  forall (H : N -> bytes -> hashv) (T : tconf -> bytes -> option bytes)
         (h : list event) (w0 : world) (a : N) (tr : option tconf) (R : Type) (p : prog R),
  (forall w1 w2 id i1 i2, In w1 (run_moments H T ([], w0) h) -> In w2 [snd (exec H T ([], w0) h)] ->
     inode_of w1 id = Some i1 -> inode_of w2 id = Some i2 ->
     code_ms (i_mtime i1) = code_ms (i_mtime i2) -> nlen (i_data i1) = nlen (i_data i2) -> i_data i1 = i_data i2) ->
  nul_free ((a, tr) :: confs h) -> nofail p ->
  fst (run_cached H T a tr p (fst (exec H T ([], w0) h)) (snd (exec H T ([], w0) h)))
  = run_plain H T a tr p (snd (exec H T ([], w0) h)).
Check C12_same_result_rounded_down :
  forall (H : N -> bytes -> hashv) (T : tconf -> bytes -> option bytes)
         (h : list event) (w0 : world) (a : N) (tr : option tconf) (R : Type) (p : prog R),
  mtime_determines (moments H T ([], w0) h) ->
  preepoch_whole_ms (moments H T ([], w0) h) ->
  nul_free ((a, tr) :: confs h) ->
  nofail p ->
  fst (run_cached H T a tr p (fst (exec H T ([], w0) h)) (snd (exec H T ([], w0) h)))
  = run_plain H T a tr p (snd (exec H T ([], w0) h)).
Check C12_tree_id_injective : forall cs, nul_free cs ->
  forall a1 t1 a2 t2, In (a1, t1) cs -> In (a2, t2) cs -> tree_of a1 t1 = tree_of a2 t2 -> a1 = a2 /\ t1 = t2.
Check C12_get_put : forall t k m c t' k' m' dl h,
  cache_get t k m (cache_put t' k' m' dl h c) =
  if tree_eqb t t' && key_eqb k k'
  then (if Z.eqb (code_ms (m_mtime m')) (code_ms (m_mtime m)) && (m_len m' =? m_len m) then Some (dl, h) else None)
  else cache_get t k m c.
Check C12_checkers_sound : forall ws,
  (stamp_determines_b ws = true -> stamp_determines ws) /\
  (mtime_determines_b ws = true -> mtime_determines ws) /\
  (preepoch_fraction_b ws = false -> preepoch_whole_ms ws).
Check C12_KC4_witness :
  stepwise_b (moments Hx Tid ([], empty_world) hRet) = true /\
  stamp_determines_b (moments Hx Tid ([], empty_world) hRet) = false /\
  nofail (probe 1 0 3) /\
  cached_answer Hx Tid hRet 0 None (probe 1 0 3) = RHash (Hx 0 [97; 98; 99]) /\
  plain_answer Hx Tid hRet 0 None (probe 1 0 3) = RHash (Hx 0 [97; 98; 100]).

Check C12_stamp_u64_is_code_ms :
  forall mt, in_range mt -> signed64 (stamp_u64 mt) = code_ms mt.
Check C12_stamp_u64_injective :
  forall a b, in_range a -> in_range b -> (stamp_u64 a = stamp_u64 b <-> code_ms a = code_ms b).
Check (eq_refl : stamp_u64 = fun mt => if (0 <=? mt)%Z then ((Z.quot mt 1000000) mod two64)%Z
                                      else ((two64 - (Z.quot (- mt) 1000000) mod two64) mod two64)%Z).
Check (eq_refl : signed64 = fun u => if (u <? two63)%Z then u else (u - two64)%Z).
Check (eq_refl : in_range = fun mt => (- (two63 * 1000000) < mt < two63 * 1000000)%Z).
Check (eq_refl : two64 = (2 ^ 64)%Z).
Check (eq_refl : two63 = (2 ^ 63)%Z).
