(* Props_C02.v — property C02: deduplication never destroys the last copy of any content.
   Statements only; every proof is `exact <lemma of EffectsProofs* / EffectsWitness>`.

   Model (coq/EffectsModel.v): a whole run = the commands dedupe() emits for every report group
   (engine D: stat of the report paths -> per-device split -> partition -> dedupe_script), turned into the
   programs of engine A (fcmd_of: temp names, recorded mtime) and executed by AtomicModel.run_script.
     run_cmds ax op c sm s r   the commands for report r in state s  (c : ANY dedupe config: -n, priorities,
                               keep / drop predicates, isolated roots, match-links ...; op : the operation)
     final_fs sl cs s          the state after the FAULT-FREE execution of the list cs (sl = lock probe on/off)
   The order in which run_script executes is unspecified (rayon): every theorem quantifies over an arbitrary
   permutation cs' of the commands.
   Hypotheses (run_ok): C01 /\ C03 for the report w.r.t. s (report_ok: no path twice, members of a group read the
   same bytes, paths normalised and absolute), fresh pairwise different temp siblings (env_ok), wf s, no foreign
   lock on a victim and - when the lock probe is on - victims are regular files (victims_lockable), reflinks act
   on regular files with distinct inodes.  nlink and ctime are not part of the model (they necessarily change).
   Known findings, NOT fixed, stated as exceptions with machine-checked witnesses: K2, K7.
   `move` (theorems C02_move_safe, C02_move_readable) is proved by a frame argument for EVERY fault oracle, not only fault-free. *)
From Coq Require Import Permutation.
From FV Require Import Base SortLib DedupeModel DedupeProofs.
From FV Require Import FsModel AtomicModel AtomicProofs AtomicProofs2 AtomicProofs3 AtomicProofs4.
From FV Require Import EffectsModel EffectsProofs EffectsProofs2 EffectsProofs3 EffectsProofs4 EffectsProofs5
  EffectsProofs6 EffectsProofs7 EffectsProofs8 EffectsWitness EffectsProofs9.
Open Scope N_scope.

(* The commands of one run (remove / link / link --soft / dedupe) have pairwise disjoint write footprints
   (victims and temp siblings: NoDup) and never write what another command reads (no written name is a
   retained link source); every command can start in s; hence the fold over ANY permutation ends in
   the same observable state (names, every inode that existed, locks) and every command succeeds. *)
Theorem C02_order_independent : forall ax e sl op c sm s r,
  run_ok ax e sl op c sm s r ->
  let cs := map (fcmd_of e) (run_cmds ax op c sm s r) in
  plan_ok sl s cs /\
  forall cs', Permutation cs cs' ->
    obs_eq s (final_fs sl cs s) (final_fs sl cs' s) /\
    Forall (fun x => x = IOk) (sresults (whole_run sl cs s)) /\ Forall (fun x => x = IOk) (sresults (whole_run sl cs' s)).
Proof. exact c02_order_independent_l. Qed.
Print Assumptions C02_order_independent.

(* Every content stored in a regular file of s is stored in a regular file of the final state, in every order;
   paths outside the report (and not a temp name) are untouched: same inode, same bytes, same mtime.
   Exception K2: a kept symlink whose target is dropped. *)
Theorem C02_contents_preserved_except_K2 : forall ax e sl op c sm s r,
  run_ok ax e sl op c sm s r ->
  let cs := map (fcmd_of e) (run_cmds ax op c sm s r) in
  ~ K2 s r cs ->
  forall cs', Permutation cs cs' ->
    (forall b, stored s b -> stored (final_fs sl cs' s) b) /\
    (forall p, ~ In p (rpaths r) -> (forall q, In q (rpaths r) -> p <> tmp_of e q) -> untouched s (final_fs sl cs' s) p).
Proof. exact c02_contents_preserved_except_k2_l. Qed.
Print Assumptions C02_contents_preserved_except_K2.

(* For every device class `part` of every report group whose partition succeeds: at least
   min (max 1 n) #sub-groups sub-groups are kept (engine D, C08_n) and EVERY path of every kept sub-group still
   names the same inode with the same bytes and mtime at the end of the run. *)
Theorem C02_replicas_untouched : forall ax e sl op c sm s r,
  run_ok ax e sl op c sm s r ->
  let cs := map (fcmd_of e) (run_cmds ax op c sm s r) in
  forall cs' g files part kept dropped, Permutation cs cs' ->
    In g r -> group_files ax s g = Some files -> In part (group_parts op files) ->
    partition c (glen g) part = Ok (kept, dropped) ->
    exists ks ds, kept = concat ks /\ dropped = concat ds /\
      Permutation (ks ++ ds) (subgroups c (survivors c (glen g) part)) /\
      (Nat.min (nkeep c) (length (subgroups c (survivors c (glen g) part))) <= length ks)%nat /\
      forall sg m, In sg ks -> In m sg -> untouched s (final_fs sl cs' s) (mpath m).
Proof. exact c02_replicas_untouched_l. Qed.
Print Assumptions C02_replicas_untouched.

(* link / link --soft / dedupe: every path that was a regular file reads back exactly the same bytes (through the
   new symlink for --soft).  Exception K7: the retained path is a symlink. *)
Theorem C02_links_read_back_except_K7 : forall ax e sl op c sm s r,
  run_ok ax e sl op c sm s r ->
  op = OpSoftLink \/ op = OpHardLink \/ op = OpRefLink ->
  let cs := map (fcmd_of e) (run_cmds ax op c sm s r) in
  ~ K7 s cs ->
  forall cs', Permutation cs cs' ->
  forall p i d, names s p = Some (NFile i) -> inodes s i = Some d -> rread (final_fs sl cs' s) p = Some (ibytes d).
Proof. exact c02_links_read_back_except_k7_l. Qed.
Print Assumptions C02_links_read_back_except_K7.

(* move: in every order AND under every fault oracle o (not only fault-free): every stored content stays stored;
   regular files outside the report, directories, and the regular files of the kept sub-groups are untouched.
   (Hypotheses: the victims are regular files; no assumption on the target directory at all.) *)
Theorem C02_move_safe : forall ax e dir c sm s r sl o i,
  report_ok s r -> wf s -> victims_regular s (run_cmds ax (OpMove dir) c sm s r) ->
  let cs := map (fcmd_of e) (run_cmds ax (OpMove dir) c sm s r) in
  forall cs', Permutation cs cs' ->
    let st := sfs (run_script sl o i cs' s) in
    (forall b, stored s b -> stored st b) /\
    (forall p j, ~ In p (rpaths r) -> names s p = Some (NFile j) -> untouched s st p) /\
    (forall p, names s p = Some NDir -> names st p = Some NDir) /\
    (forall m j, In m (all_kept ax (OpMove dir) c s r) -> names s (mpath m) = Some (NFile j) -> untouched s st (mpath m)).
Proof. exact c02_move_safe_l. Qed.
Print Assumptions C02_move_safe.

(* move: a command that reported Ok has left the bytes of its source in a regular file AT its target
   (move_target_of fc = norm (move_target DIR source)), and they are still there at the end of the run (any order,
   any oracle).  Since fix 041ee27 the existence check does not follow links, so nothing can sit at the target. *)
Theorem C02_move_readable : forall ax e dir c sm s r sl o i,
  report_ok s r -> wf s -> victims_regular s (run_cmds ax (OpMove dir) c sm s r) ->
  let cs := map (fcmd_of e) (run_cmds ax (OpMove dir) c sm s r) in
  forall cs', Permutation cs cs' ->
  let out := run_script sl o i cs' s in
  forall fc res, In (fc, res) (combine cs' (sresults out)) -> res = IOk ->
  forall i0 d0, names s (victim fc) = Some (NFile i0) -> inodes s i0 = Some d0 ->
  exists j dj, names (sfs out) (move_target_of fc) = Some (NFile j) /\ inodes (sfs out) j = Some dj /\ ibytes dj = ibytes d0.
Proof. exact c02_move_readable_l. Qed.
Print Assumptions C02_move_readable.

(* K2 (known finding, not fixed): `group -S --isolate r1 r2` with r1/L -> r2/T, then `remove`: every hypothesis of
   the theorems holds, K2 holds, and the only copy of the content is gone (L dangles). *)
Theorem C02_K2_witness : exists ax e op c sm s r,
  (forall sl, run_ok ax e sl op c sm s r) /\
  let cs := map (fcmd_of e) (run_cmds ax op c sm s r) in
  K2 s r cs /\ exists b, stored s b /\ forall sl, ~ stored (final_fs sl cs s) b.
Proof. exact c02_k2_witness_l. Qed.
Print Assumptions C02_K2_witness.

(* K7 (known finding, not fixed): with -S the first retained path a/L is a symlink to ../b/T; `link` makes c/d/F a
   second name of the SYMLINK; its relative target resolves from c/d, so F no longer reads back its bytes. *)
Theorem C02_K7_witness : exists ax e c sm s r p i d,
  run_ok ax e true OpHardLink c sm s r /\
  let cs := map (fcmd_of e) (run_cmds ax OpHardLink c sm s r) in
  K7 s cs /\ names s p = Some (NFile i) /\ inodes s i = Some d /\ rread (final_fs true cs s) p <> Some (ibytes d).
Proof. exact c02_k7_witness_l. Qed.
Print Assumptions C02_K7_witness.

(* Outside the hypotheses (observation N6): with the lock probe ON and a symlink victim whose target is a victim too
   (possible with -S), the result DOES depend on the order: the probe opens the link after its target is gone. *)
Theorem C02_order_symlink_victim_witness : exists s c1 c2 p,
  names (final_fs true [c1; c2] s) p <> names (final_fs true [c2; c1] s) p /\
  processed_count (whole_run true [c1; c2] s) <> processed_count (whole_run true [c2; c1] s).
Proof. exact c02_order_symlink_victim_witness_l. Qed.
Print Assumptions C02_order_symlink_victim_witness.

(* ------------------------------------------------------------------ non-vacuity *)
(* b/T and c/d/F hold the same bytes, e/U other bytes; report [T; F]; every operation but move: the hypotheses
   hold, exactly one command is emitted, neither K2 nor K7 *)
Example C02_premises_inhabited : forall sl op, is_move op = false ->
  run_ok w_ax w_env sl op (w_cfg []) w_sm ex_s ex_r /\
  length (run_cmds w_ax op (w_cfg []) w_sm ex_s ex_r) = 1%nat /\
  ~ K2 ex_s ex_r (map (fcmd_of w_env) (run_cmds w_ax op (w_cfg []) w_sm ex_s ex_r)) /\
  ~ K7 ex_s (map (fcmd_of w_env) (run_cmds w_ax op (w_cfg []) w_sm ex_s ex_r)).
Proof.
  intros sl op Hop. split; [exact (ex_run_ok sl op Hop)|]. split; [rewrite ex_run_cmds; reflexivity|].
  split; [exact (ex_no_K2 op)|exact (ex_no_K7 op)].
Qed.
Example C02_move_premises_inhabited :
  report_ok ex_s ex_r /\ wf ex_s /\ victims_regular ex_s (run_cmds w_ax (OpMove (P1 109)) (w_cfg []) w_sm ex_s ex_r) /\
  run_cmds w_ax (OpMove (P1 109)) (w_cfg []) w_sm ex_s ex_r <> [].
Proof.
  split; [exact ex_report_ok|]. split; [exact ex_wf|]. rewrite ex_run_cmds. split; [|discriminate].
  intros x [<-|[]]. exists 2, (mkInode CONTENT 6%Z). vm_compute. auto.
Qed.
