(* WalkProofs4.v — the statements of Props_C09.v assembled from WalkProofs{,2,3}.v, independence of
   the declarative reading from matches_dir, and the vm_compute witnesses of the known findings
   N1 (route-insensitive visited set) and N2 (pruning along a link route). *)
From FV Require Import Base WalkModel WalkProofs WalkProofs2 WalkProofs3.
Open Scope N_scope.

(* ---------------------------------------------------------------------------------------------- *)
(* the declarative reading (pr = false) does not mention matches_dir at all *)
Section Indep.
  Variable sel_file : path -> bool.
  Variables sd1 sd2 : path -> bool.
  Variable ign1 : path -> path -> bool -> bool.
  Variable t : tree.
  Variable c : config.

  Lemma enters_false_indep tk nd : enters sd1 ign1 t c false tk nd -> enters sd2 ign1 t c false tk nd.
  Proof. intros (H1 & _ & H3 & H4). repeat split; auto. intros _ H. discriminate. Qed.

  Lemma edge_false_indep tk tk' : edge sd1 ign1 t c false tk tk' -> edge sd2 ign1 t c false tk tk'.
  Proof.
    intros H. destruct H.
    - eapply E_child; eauto using enters_false_indep. discriminate.
    - eapply E_link; eauto using enters_false_indep.
  Qed.

  Lemma visits_false_indep roots tk : visits sd1 ign1 t c false roots tk -> visits sd2 ign1 t c false roots tk.
  Proof. induction 1; [now apply V_root|eapply V_step; eauto using edge_false_indep]. Qed.

  Lemma selected_false_indep roots x :
    selected sel_file sd1 ign1 t c false roots x -> selected sel_file sd2 ign1 t c false roots x.
  Proof.
    intros (tk & Hv & nd & He & H). exists tk. split; [now apply visits_false_indep|].
    exists nd. split; auto using enters_false_indep.
  Qed.
End Indep.

(* ---------------------------------------------------------------------------------------------- *)
(* two pruning functions compared (used for --exclude: the code's matches_dir against the
   declarative "not inside an excluded directory") *)
Section TwoPrunings.
  Variable sel_file : path -> bool.
  Variables sd1 sd2 : path -> bool.
  Variable ign1 : path -> path -> bool -> bool.
  Variable t : tree.
  Variable c : config.

  (* pointwise weaker pruning keeps every visit — any configuration *)
  Lemma enters_true_mono tk nd :
    (forall d, sd1 d = true -> sd2 d = true) ->
    enters sd1 ign1 t c true tk nd -> enters sd2 ign1 t c true tk nd.
  Proof.
    intros Hm (H1 & H2 & H3 & H4). repeat split; auto.
    intros Hk Ht. eapply filter_ok_mono; eauto.
  Qed.

  Lemma visits_true_mono roots tk :
    (forall d, sd1 d = true -> sd2 d = true) ->
    visits sd1 ign1 t c true roots tk -> visits sd2 ign1 t c true roots tk.
  Proof.
    intros Hm Hv. induction Hv as [tk Hin | tk tk' Hv IH Hed]; [now apply V_root|].
    eapply V_step; [exact IH|].
    destruct Hed as [nd q He Hk Hd Hs Ho Hq Hl | nd ab tg target tnd He Hk Hf Hr Hfk Ho].
    - eapply E_child; eauto using enters_true_mono.
    - eapply E_link; eauto using enters_true_mono.
  Qed.

  Lemma selected_true_mono roots x :
    (forall d, sd1 d = true -> sd2 d = true) ->
    selected sel_file sd1 ign1 t c true roots x -> selected sel_file sd2 ign1 t c true roots x.
  Proof.
    intros Hm (tk & Hv & nd & He & Hx). exists tk. split; [now apply visits_true_mono|].
    exists nd. split; [|exact Hx]. eapply enters_true_mono; eauto.
  Qed.

  (* without link following the visits on the way to a path are its prefixes: pruning that accepts
     all proper prefixes of the path — and the path itself unless it is a regular file or a link,
     whose own path is never filtered — keeps the visit *)
  Lemma visits_prune2 pr roots tk :
    c_follow c = false -> visits sd1 ign1 t c pr roots tk ->
    (forall d, prefix d (t_path tk) ->
               (d = t_path tk -> kind_at t is_file_kind (t_path tk) = false /\ kind_at t is_link_kind (t_path tk) = false) ->
               sd2 d = true) ->
    visits sd2 ign1 t c true roots tk.
  Proof.
    intros Hnf Hv. induction Hv as [tk Hin | tk tk' Hv IH Hed]; intros Hsd.
    - now apply V_root.
    - destruct Hed as [nd q He Hk Hd Hs Ho Hq Hl | nd ab tg target tnd He Hk Hf]; [|congruence].
      cbn [t_path] in Hsd.
      assert (Hq' := Hq). apply children_spec in Hq'. destruct Hq' as [_ [n Hqn]].
      assert (Hsd' : forall d, prefix d (t_path tk) -> sd2 d = true).
      { intros d [r Hd']. apply Hsd.
        - exists (r ++ [n]). rewrite Hqn, Hd'. now rewrite app_assoc.
        - intros E. exfalso. assert (Hlen : length d = length q) by now rewrite E.
          rewrite Hqn, Hd', !app_length in Hlen. cbn in Hlen. lia. }
      apply V_step with (tk := tk).
      + apply IH. intros d Hd' _. now apply Hsd'.
      + destruct He as (H1 & H2 & H3 & H4).
        assert (Hself : sd2 (t_path tk) = true) by apply Hsd', prefix_refl.
        assert (Hfo : filter_ok sd2 nd (t_path tk) = true) by (apply filter_ok_all; exact Hsd').
        assert (He' : enters sd2 ign1 t c true tk nd) by (repeat split; auto).
        eapply E_child; eauto.
  Qed.

  Lemma selected_prune2 pr roots x :
    c_follow c = false ->
    (forall d, prefix d x -> (d = x -> kind_at t is_file_kind x = false /\ kind_at t is_link_kind x = false) -> sd2 d = true) ->
    selected sel_file sd1 ign1 t c pr roots x -> selected sel_file sd2 ign1 t c true roots x.
  Proof.
    intros Hnf Hsd (tk & Hv & nd & He & -> & Hs & Hk).
    exists tk. split; [eapply visits_prune2; eauto|].
    destruct He as (H1 & H2 & H3 & H4).
    assert (Hfo : filter_ok sd2 nd (t_path tk) = true).
    { apply filter_ok_prefixes. intros d Hd Hf. apply Hsd; auto.
      intros E. unfold kind_at. rewrite H1. auto. }
    exists nd. split; [|auto]. repeat split; auto.
  Qed.
End TwoPrunings.

(* the prefixes of a path, and "not inside an excluded directory" *)
Definition prefixes (d : path) : list path := map (fun n => firstn n d) (seq 0 (S (length d))).
Definition not_below (excl : path -> bool) (d : path) : bool := negb (existsb excl (prefixes d)).

Lemma prefixes_spec d d' : In d' (prefixes d) <-> prefix d' d.
Proof.
  unfold prefixes, prefix. rewrite in_map_iff. split.
  - intros (n & <- & _). exists (skipn n d). symmetry. apply firstn_skipn.
  - intros [r ->]. exists (length d'). split.
    + rewrite firstn_app, Nat.sub_diag, firstn_all. cbn. now rewrite app_nil_r.
    + apply in_seq. rewrite app_length. lia.
Qed.

Lemma not_below_true excl d : not_below excl d = true <-> forall d', prefix d' d -> excl d' = false.
Proof.
  unfold not_below. rewrite negb_true_iff. split.
  - intros H d' Hp. destruct (excl d') eqn:E; auto.
    assert (existsb excl (prefixes d) = true); [|congruence].
    apply existsb_exists. exists d'. split; auto. now apply prefixes_spec.
  - intros H. destruct (existsb excl (prefixes d)) eqn:E; auto.
    apply existsb_exists in E. destruct E as (d' & Hin & He). apply prefixes_spec in Hin.
    rewrite (H d' Hin) in He. discriminate.
Qed.

(* ---------------------------------------------------------------------------------------------- *)
Section Statements.
  Variable sel_file : path -> bool.
  Variable sel_dir : path -> bool.
  Variable ign1 : path -> path -> bool -> bool.
  Variable t : tree.
  Variable c : config.

  Lemma stmt_sound sched roots l x :
    walk sel_file sel_dir ign1 t c sched roots = Done l -> In x l ->
    selected sel_file sel_dir ign1 t c true roots x /\ selected sel_file sel_dir ign1 t c false roots x.
  Proof.
    intros H Hx. assert (Hs := walk_sound _ _ _ _ _ _ _ _ _ H Hx). split; auto. now apply selected_mono.
  Qed.

  Lemma stmt_exact sched roots l x :
    conservative sel_file sel_dir -> c_follow c = false ->
    scan sel_file sel_dir ign1 t c sched roots = Done l ->
    (In x l <-> selected sel_file sel_dir ign1 t c false roots x /\ size_ok t c x = true).
  Proof.
    intros Hc Hnf H. destruct (scan_spec _ _ _ _ _ _ _ _ H) as (l0 & Hw & _ & Hl).
    rewrite Hl. rewrite (walk_exact_nofollow _ _ _ _ _ _ _ _ x Hc Hnf Hw). tauto.
  Qed.

  (* with --exclude: matches_dir rejects a directory on the way to a matching file only because an
     exclude pattern matches that directory or one above it (hypothesis 1: the prefix match is component
     aligned), it does reject everything at or below an excluded path (hypothesis 2), and a path that
     an exclude pattern matches is not accepted as a file (hypothesis 3); the declarative reading then
     is "reachable without entering an excluded directory" = pruning with `not_below excl` *)
  Lemma prefix_snoc (d' p : path) n : prefix d' (p ++ [n]) -> prefix d' p \/ d' = p ++ [n].
  Proof.
    intros [r Hr]. destruct r as [|a0 r0].
    - right. now rewrite app_nil_r in Hr.
    - left. destruct (@exists_last _ (a0 :: r0)) as (r' & a & E); [discriminate|].
      rewrite E, app_assoc in Hr. apply app_inj_tail in Hr. destruct Hr as [-> _]. now exists r'.
  Qed.

  Lemma selected_not_excluded excl roots x :
    c_follow c = false -> (forall p, sel_file p = true -> excl p = false) ->
    selected sel_file (not_below excl) ign1 t c true roots x ->
    forall d', prefix d' x -> excl d' = false.
  Proof.
    intros Hnf HC (tk & Hv & nd & (H1 & H2 & H3 & H4) & -> & Hsf & _) d' Hp.
    destruct Hv as [tk Hin | tk0 tk Hv Hed].
    - apply root_tasks_spec in Hin. destruct Hin as (raw & nd0 & _ & _ & _ & ->).
      cbn [t_path t_kind] in *. specialize (H2 eq_refl eq_refl).
      assert (Hpar : filter_parent (not_below excl) (absolute t raw) = true -> excl d' = false).
      { (* a regular file or a link: its parent was filtered, the path itself is not excluded (hypothesis 3) *)
        unfold filter_parent. intros Hfp.
        destruct (absolute t raw) as [|a q] eqn:Ea.
        - destruct Hp as [r Hr]. destruct d'; [now apply HC|discriminate].
        - rewrite (app_removelast_last (l := a :: q) []) in Hp by discriminate.
          destruct (prefix_snoc _ _ _ Hp) as [Hp' | ->].
          + exact (proj1 (not_below_true excl _) Hfp d' Hp').
          + rewrite <- (app_removelast_last (l := a :: q) []) by discriminate. now apply HC. }
      unfold filter_ok in H2. destruct (n_kind nd).
      + exact (Hpar H2).
      + exact (proj1 (not_below_true excl _) H2 d' Hp).
      + exact (Hpar H2).
      + exact (proj1 (not_below_true excl _) H2 d' Hp).
    - destruct Hed as [nd0 q He Hk Hd Hs Ho Hq Hl | nd0 ab tg target tnd He Hk Hf]; [|congruence].
      cbn [t_path] in *. apply children_spec in Hq. destruct Hq as [_ [n ->]].
      destruct (prefix_snoc _ _ _ Hp) as [Hp' | ->].
      + exact (proj1 (not_below_true excl _) (Hs eq_refl) d' Hp').
      + now apply HC.
  Qed.

  Lemma stmt_exact_exclude excl sched roots l x :
    (forall p d, sel_file p = true -> prefix d p -> d <> p ->
                 sel_dir d = true \/ exists d', prefix d' d /\ excl d' = true) ->
    (forall d d', excl d' = true -> prefix d' d -> sel_dir d = false) ->
    (forall p, sel_file p = true -> excl p = false) ->
    c_follow c = false ->
    scan sel_file sel_dir ign1 t c sched roots = Done l ->
    (In x l <-> selected sel_file (not_below excl) ign1 t c true roots x /\ size_ok t c x = true).
  Proof.
    intros HA HB HC Hnf H. destruct (scan_spec _ _ _ _ _ _ _ _ H) as (l0 & Hw & _ & Hl).
    rewrite Hl.
    assert (Hiff : In x l0 <-> selected sel_file (not_below excl) ign1 t c true roots x); [|tauto].
    split.
    - intros Hx. apply (walk_sound _ _ _ _ _ _ _ _ _ Hw) in Hx.
      eapply selected_true_mono; [|exact Hx].
      intros d Hd. apply not_below_true. intros d' Hp. destruct (excl d') eqn:E; auto.
      rewrite (HB d d' E Hp) in Hd. discriminate.
    - intros Hs.
      assert (Hsel : sel_file x = true).
      { destruct Hs as (tk & _ & nd & _ & _ & Hsf & _). exact Hsf. }
      assert (Hkind : kind_at t is_file_kind x = true \/ kind_at t is_link_kind x = true).
      { destruct Hs as (tk & _ & nd & (Hlk & _) & -> & _ & Hk). unfold kind_at. rewrite Hlk.
        destruct Hk as [Hk | (ab & tg & target & tnd & Hk & _)]; [now left|right].
        unfold is_link_kind. now rewrite Hk. }
      pose proof (selected_not_excluded excl roots x Hnf HC Hs) as Hne.
      assert (Hsd : forall d, prefix d x ->
                (d = x -> kind_at t is_file_kind x = false /\ kind_at t is_link_kind x = false) -> sel_dir d = true).
      { intros d Hd Hself.
        assert (Hne' : d <> x).
        { intros E. destruct (Hself E) as [Hf Hk]. destruct Hkind as [H' | H']; congruence. }
        destruct (HA x d Hsel Hd Hne') as [Hok | (d' & Hp & E)]; auto.
        rewrite (Hne d' (prefix_trans _ _ _ Hp Hd)) in E. discriminate. }
      apply (selected_prune2 sel_file (not_below excl) sel_dir ign1 t c true roots x Hnf Hsd) in Hs.
      apply produces_selected in Hs. unfold walk in Hw. eapply run_complete_nofollow; eauto.
  Qed.

  Lemma stmt_exact_follow sched roots l x :
    c_follow c = true -> c_no_ignore c = true -> c_one_fs c = false ->
    N.of_nat (length (keys t)) < c_depth c -> (forall p, sel_dir p = true) ->
    (c_hidden c = true \/ forall p, In p (keys t) -> name_hidden p = false) ->
    scan sel_file sel_dir ign1 t c sched roots = Done l ->
    (In x l <-> selected sel_file sel_dir ign1 t c false roots x /\ size_ok t c x = true).
  Proof.
    intros H1 H2 H3 H4 H5 H6 H. destruct (scan_spec _ _ _ _ _ _ _ _ H) as (l0 & Hw & _ & Hl).
    rewrite Hl. rewrite (walk_exact_follow _ _ _ _ _ _ H1 H2 H3 H4 H5 H6 _ _ x Hw). tauto.
  Qed.

  Lemma stmt_prune sched sched' roots l l' x :
    conservative sel_file sel_dir -> c_follow c = false ->
    walk sel_file sel_dir ign1 t c sched roots = Done l ->
    walk sel_file (fun _ => true) ign1 t c sched' roots = Done l' ->
    (In x l <-> In x l').
  Proof.
    intros Hc Hnf H H'.
    rewrite (walk_exact_nofollow _ _ _ _ _ _ _ _ x Hc Hnf H).
    assert (Hc' : conservative sel_file (fun _ => true)) by (intros ? ? ? ?; reflexivity).
    rewrite (walk_exact_nofollow _ _ _ _ _ _ _ _ x Hc' Hnf H').
    split; apply selected_false_indep.
  Qed.

  Lemma stmt_terminate sched roots fuel :
    (walk_bound t c roots <= fuel)%nat ->
    exists l, run sel_file sel_dir ign1 t c sched fuel (root_tasks t c roots) [] [] = Done l.
  Proof. intros H. apply run_terminates. unfold walk_bound in H. lia. Qed.

  Lemma stmt_overlap sched roots l :
    scan sel_file sel_dir ign1 t c sched roots = Done l ->
    NoDup l /\
    (conservative sel_file sel_dir -> c_follow c = false ->
     forall roots0 x, incl roots0 roots -> selected sel_file sel_dir ign1 t c false roots0 x ->
                      size_ok t c x = true -> In x l).
  Proof.
    intros H. destruct (scan_spec _ _ _ _ _ _ _ _ H) as (l0 & Hw & Hnd & Hl). split; auto.
    intros Hc Hnf roots0 x Hi Hs Hsz. apply Hl. split; auto.
    apply (walk_exact_nofollow _ _ _ _ _ _ _ _ x Hc Hnf Hw).
    eapply selected_roots_mono; eauto.
  Qed.
End Statements.

(* ---------------------------------------------------------------------------------------------- *)
(* witnesses.  The tree  /d/f (2 bytes), /a/l -> ../d ; directory d is listed before a. *)
Definition nA : comp := [97].
Definition nD : comp := [100].
Definition nL : comp := [108].
Definition nF : comp := [102].
Definition wtree : tree :=
  [ ([], mkNode KDir 1); ([nD], mkNode KDir 1); ([nA], mkNode KDir 1);
    ([nD; nF], mkNode (KFile 2) 1); ([nA; nL], mkNode (KLink false [dotdot; nD]) 1) ].
Definition all_true (p : path) : bool := true.
Definition no_ign (d p : path) (b : bool) : bool := false.
Definition huge : N := 18446744073709551615.

(* N1: --follow-links --depth 2 on the root: the LIFO schedule (rayon with one thread) reaches /d
   first through /a/l at level 2 = depth, records it and never descends; FIFO finds /d/f. *)
Definition wcfg1 : config := mkConfig 2 false true false true false 0 huge.

Lemma N1_witness :
  walk all_true all_true no_ign wtree wcfg1 sched_fifo [[]] = Done [[nD; nF]] /\
  walk all_true all_true no_ign wtree wcfg1 sched_lifo [[]] = Done [].
Proof. split; vm_compute; reflexivity. Qed.

(* N2: input path /a, --follow-links, --path '/d/**': sel_file = "is /d/f", sel_dir = "is a prefix of
   /d/f" (conservative); /a is not a prefix, so the walk stops at the input path, but /d/f is
   reachable through /a/l and matches. *)
Definition wcfg2 : config := mkConfig huge false true false true false 0 huge.
Definition wsel_file (p : path) : bool := path_eqb p [nD; nF].
Definition wsel_dir (p : path) : bool := pe p [nD; nF].

Lemma wsel_conservative : conservative wsel_file wsel_dir.
Proof.
  intros p d Hp Hd. unfold wsel_file in Hp. apply path_eqb_true in Hp. subst p.
  unfold wsel_dir. now apply pe_spec.
Qed.

Lemma N2_selected : selected wsel_file wsel_dir no_ign wtree wcfg2 false [[nA]] [nD; nF].
Proof.
  pose (tk0 := mkTask TPath [nA] 0 [] 1).
  pose (tk1 := mkTask TEntry [nA; nL] 1 [] 1).
  pose (tk2 := mkTask TPath [nD] 1 [] 1).
  pose (tk3 := mkTask TEntry [nD; nF] 2 [] 1).
  assert (V0 : visits wsel_dir no_ign wtree wcfg2 false [[nA]] tk0).
  { apply V_root. vm_compute. now left. }
  assert (E01 : edge wsel_dir no_ign wtree wcfg2 false tk0 tk1).
  { apply (E_child wsel_dir no_ign wtree wcfg2 false tk0 (mkNode KDir 1) [nA; nL]).
    - repeat split; try (now left); try (now right); try (right; now right); try (intros; discriminate).
    - reflexivity.
    - vm_compute. reflexivity.
    - discriminate.
    - discriminate.
    - vm_compute. now left.
    - right. left. reflexivity. }
  assert (E12 : edge wsel_dir no_ign wtree wcfg2 false tk1 tk2).
  { apply (E_link wsel_dir no_ign wtree wcfg2 false tk1 (mkNode (KLink false [dotdot; nD]) 1) false [dotdot; nD] [nD] (mkNode KDir 1)).
    - repeat split; try (now left); try (now right); try (right; now right); try (intros; discriminate).
    - reflexivity.
    - reflexivity.
    - vm_compute. reflexivity.
    - discriminate.
    - discriminate. }
  assert (E23 : edge wsel_dir no_ign wtree wcfg2 false tk2 tk3).
  { apply (E_child wsel_dir no_ign wtree wcfg2 false tk2 (mkNode KDir 1) [nD; nF]).
    - repeat split; try (now left); try (now right); try (right; now right); try (intros; discriminate).
    - reflexivity.
    - vm_compute. reflexivity.
    - discriminate.
    - discriminate.
    - vm_compute. now left.
    - right. right. reflexivity. }
  exists tk3. split.
  - eapply V_step; [eapply V_step; [eapply V_step; [exact V0|exact E01]|exact E12]|exact E23].
  - exists (mkNode (KFile 2) 1). split; [|split; [reflexivity|split; [reflexivity|now left]]].
    repeat split; try (now left); try (now right); try (right; now right); try (intros; discriminate).
Qed.

Lemma N2_lost : walk wsel_file wsel_dir no_ign wtree wcfg2 sched_lifo [[nA]] = Done [] /\
                walk wsel_file wsel_dir no_ign wtree wcfg2 sched_fifo [[nA]] = Done [].
Proof. split; vm_compute; reflexivity. Qed.

Lemma stmt_N1 :
  exists t c roots s1 s2 l1 l2 x,
    c_follow c = true /\ conservative all_true all_true /\
    walk all_true all_true no_ign t c s1 roots = Done l1 /\
    walk all_true all_true no_ign t c s2 roots = Done l2 /\
    In x l1 /\ selected all_true all_true no_ign t c false roots x /\ ~ In x l2.
Proof.
  exists wtree, wcfg1, [[]], sched_fifo, sched_lifo, [[nD; nF]], [], [nD; nF].
  destruct N1_witness as [H1 H2].
  split; [reflexivity|]. split; [intros ? ? ? ?; reflexivity|]. split; [exact H1|]. split; [exact H2|].
  split; [now left|]. split; [|intros []].
  eapply stmt_sound; [exact H1|now left].
Qed.

Lemma stmt_N2 :
  exists sel_file sel_dir t c roots x,
    conservative sel_file sel_dir /\ c_follow c = true /\
    selected sel_file sel_dir no_ign t c false roots x /\
    walk sel_file sel_dir no_ign t c sched_lifo roots = Done [] /\
    walk sel_file sel_dir no_ign t c sched_fifo roots = Done [].
Proof.
  exists wsel_file, wsel_dir, wtree, wcfg2, [[nA]], [nD; nF].
  destruct N2_lost as [H1 H2].
  split; [exact wsel_conservative|]. split; [reflexivity|]. split; [exact N2_selected|]. split; assumption.
Qed.

(* non-vacuity material: the same tree without link following (the hypotheses of the exact theorem) and
   with link following under route-independent options *)
Definition wcfg3 : config := mkConfig 2 false false false false false 1 huge.
Lemma ex_nofollow : scan all_true all_true no_ign wtree wcfg3 sched_lifo [[]; [nD]] = Done [[nD; nF]].
Proof. vm_compute. reflexivity. Qed.
Lemma ex_follow : scan all_true all_true no_ign wtree wcfg2 sched_lifo [[]] = Done [[nD; nF]]
                  /\ N.of_nat (length (keys wtree)) < c_depth wcfg2
                  /\ (forall p, In p (keys wtree) -> name_hidden p = false).
Proof.
  split; [vm_compute; reflexivity|]. split; [vm_compute; reflexivity|].
  intros p H. vm_compute in H. repeat (destruct H as [<-|H]; [reflexivity|]). destruct H.
Qed.
(* the input path itself may be hidden (walk.rs tests hidden names only at level > 0): /.h/f is found
   from the input path /.h without --hidden, but not from / *)
Definition nH : comp := [46; 104].
Definition htree : tree := [ ([], mkNode KDir 1); ([nH], mkNode KDir 1); ([nH; nF], mkNode (KFile 2) 1) ].
Lemma ex_hidden_root :
  scan all_true all_true no_ign htree wcfg3 sched_lifo [[nH]] = Done [[nH; nF]] /\
  scan all_true all_true no_ign htree wcfg3 sched_lifo [[]] = Done [].
Proof. split; vm_compute; reflexivity. Qed.

(* --exclude /a on the witness tree: excl = "is /a", matches_dir rejects /a and everything below,
   matches_full_path rejects /a itself; the three hypotheses of stmt_exact_exclude hold *)
Definition xexcl (p : path) : bool := path_eqb p [nA].
Definition xsel_dir (d : path) : bool := negb (pe [nA] d).
Definition xsel_file (p : path) : bool := negb (path_eqb p [nA]).
Lemma ex_exclude :
  (forall p d, xsel_file p = true -> prefix d p -> d <> p ->
               xsel_dir d = true \/ exists d', prefix d' d /\ xexcl d' = true) /\
  (forall d d', xexcl d' = true -> prefix d' d -> xsel_dir d = false) /\
  (forall p, xsel_file p = true -> xexcl p = false) /\
  scan xsel_file xsel_dir no_ign wtree wcfg3 sched_lifo [[]] = Done [[nD; nF]].
Proof.
  split; [|split; [|split]].
  - intros p d _ _ _. unfold xsel_dir. destruct (pe [nA] d) eqn:E; [right|now left].
    exists [nA]. split; [now apply pe_spec|]. unfold xexcl. now apply path_eqb_true.
  - intros d d' E Hp. unfold xexcl in E. apply path_eqb_true in E. subst d'.
    unfold xsel_dir. apply pe_spec in Hp. now rewrite Hp.
  - intros p H. unfold xsel_file in H. unfold xexcl. now destruct (path_eqb p [nA]).
  - vm_compute. reflexivity.
Qed.

