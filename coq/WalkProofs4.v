(* WalkProofs4.v — the statements of Props_C09.v assembled from WalkProofs{,2,3}.v, independence of
   the declarative reading from matches_dir, and the vm_compute witnesses of the known findings
   N1 (route-insensitive visited set) and N2 (pruning along a link route). *)
From FV Require Import Base WalkModel WalkProofs WalkProofs2 WalkProofs3.
Open Scope N_scope.

(* ---------------------------------------------------------------------------------------------- *)
(* the declarative reading (pr = false) does not mention matches_dir at all *)
Section Indep.
  Variable sel_file : path -> bool.
  Variables sd1 sd2 : path -> bool.
  Variable ign1 : path -> path -> bool -> bool.
  Variable t : tree.
  Variable c : config.

  Lemma enters_false_indep tk nd : enters sd1 ign1 t c false tk nd -> enters sd2 ign1 t c false tk nd.
  Proof. intros (H1 & _ & H3 & H4). repeat split; auto. intros _ H. discriminate. Qed.

  Lemma edge_false_indep tk tk' : edge sd1 ign1 t c false tk tk' -> edge sd2 ign1 t c false tk tk'.
  Proof.
    intros H. destruct H.
    - eapply E_child; eauto using enters_false_indep. discriminate.
    - eapply E_link; eauto using enters_false_indep.
  Qed.

  Lemma visits_false_indep roots tk : visits sd1 ign1 t c false roots tk -> visits sd2 ign1 t c false roots tk.
  Proof. induction 1; [now apply V_root|eapply V_step; eauto using edge_false_indep]. Qed.

  Lemma selected_false_indep roots x :
    selected sel_file sd1 ign1 t c false roots x -> selected sel_file sd2 ign1 t c false roots x.
  Proof.
    intros (tk & Hv & nd & He & H). exists tk. split; [now apply visits_false_indep|].
    exists nd. split; auto using enters_false_indep.
  Qed.
End Indep.

(* ---------------------------------------------------------------------------------------------- *)
Section Statements.
  Variable sel_file : path -> bool.
  Variable sel_dir : path -> bool.
  Variable ign1 : path -> path -> bool -> bool.
  Variable t : tree.
  Variable c : config.

  Lemma stmt_sound sched roots l x :
    walk sel_file sel_dir ign1 t c sched roots = Done l -> In x l ->
    selected sel_file sel_dir ign1 t c true roots x /\ selected sel_file sel_dir ign1 t c false roots x.
  Proof.
    intros H Hx. assert (Hs := walk_sound _ _ _ _ _ _ _ _ _ H Hx). split; auto. now apply selected_mono.
  Qed.

  Lemma stmt_exact sched roots l x :
    conservative sel_file sel_dir -> c_follow c = false ->
    scan sel_file sel_dir ign1 t c sched roots = Done l ->
    (In x l <-> selected sel_file sel_dir ign1 t c false roots x /\ size_ok t c x = true).
  Proof.
    intros Hc Hnf H. destruct (scan_spec _ _ _ _ _ _ _ _ H) as (l0 & Hw & _ & Hl).
    rewrite Hl. rewrite (walk_exact_nofollow _ _ _ _ _ _ _ _ x Hc Hnf Hw). tauto.
  Qed.

  Lemma stmt_exact_follow sched roots l x :
    c_follow c = true -> c_no_ignore c = true -> c_one_fs c = false ->
    N.of_nat (length (keys t)) < c_depth c -> (forall p, sel_dir p = true) ->
    (c_hidden c = true \/ forall p, In p (keys t) -> name_hidden p = false) ->
    scan sel_file sel_dir ign1 t c sched roots = Done l ->
    (In x l <-> selected sel_file sel_dir ign1 t c false roots x /\ size_ok t c x = true).
  Proof.
    intros H1 H2 H3 H4 H5 H6 H. destruct (scan_spec _ _ _ _ _ _ _ _ H) as (l0 & Hw & _ & Hl).
    rewrite Hl. rewrite (walk_exact_follow _ _ _ _ _ _ H1 H2 H3 H4 H5 H6 _ _ x Hw). tauto.
  Qed.

  Lemma stmt_prune sched sched' roots l l' x :
    conservative sel_file sel_dir -> c_follow c = false ->
    walk sel_file sel_dir ign1 t c sched roots = Done l ->
    walk sel_file (fun _ => true) ign1 t c sched' roots = Done l' ->
    (In x l <-> In x l').
  Proof.
    intros Hc Hnf H H'.
    rewrite (walk_exact_nofollow _ _ _ _ _ _ _ _ x Hc Hnf H).
    assert (Hc' : conservative sel_file (fun _ => true)) by (intros ? ? ? ?; reflexivity).
    rewrite (walk_exact_nofollow _ _ _ _ _ _ _ _ x Hc' Hnf H').
    split; apply selected_false_indep.
  Qed.

  Lemma stmt_terminate sched roots fuel :
    (walk_bound t c roots <= fuel)%nat ->
    exists l, run sel_file sel_dir ign1 t c sched fuel (root_tasks t c roots) [] [] = Done l.
  Proof. intros H. apply run_terminates. unfold walk_bound in H. lia. Qed.

  Lemma stmt_overlap sched roots l :
    scan sel_file sel_dir ign1 t c sched roots = Done l ->
    NoDup l /\
    (conservative sel_file sel_dir -> c_follow c = false ->
     forall roots0 x, incl roots0 roots -> selected sel_file sel_dir ign1 t c false roots0 x ->
                      size_ok t c x = true -> In x l).
  Proof.
    intros H. destruct (scan_spec _ _ _ _ _ _ _ _ H) as (l0 & Hw & Hnd & Hl). split; auto.
    intros Hc Hnf roots0 x Hi Hs Hsz. apply Hl. split; auto.
    apply (walk_exact_nofollow _ _ _ _ _ _ _ _ x Hc Hnf Hw).
    eapply selected_roots_mono; eauto.
  Qed.
End Statements.

(* ---------------------------------------------------------------------------------------------- *)
(* witnesses.  The tree  /d/f (2 bytes), /a/l -> ../d ; directory d is listed before a. *)
Definition nA : comp := [97].
Definition nD : comp := [100].
Definition nL : comp := [108].
Definition nF : comp := [102].
Definition wtree : tree :=
  [ ([], mkNode KDir 1); ([nD], mkNode KDir 1); ([nA], mkNode KDir 1);
    ([nD; nF], mkNode (KFile 2) 1); ([nA; nL], mkNode (KLink false [dotdot; nD]) 1) ].
Definition all_true (p : path) : bool := true.
Definition no_ign (d p : path) (b : bool) : bool := false.
Definition huge : N := 18446744073709551615.

(* N1: --follow-links --depth 2 on the root: the LIFO schedule (rayon with one thread) reaches /d
   first through /a/l at level 2 = depth, records it and never descends; FIFO finds /d/f. *)
Definition wcfg1 : config := mkConfig 2 false true false true false 0 huge.

Lemma N1_witness :
  walk all_true all_true no_ign wtree wcfg1 sched_fifo [[]] = Done [[nD; nF]] /\
  walk all_true all_true no_ign wtree wcfg1 sched_lifo [[]] = Done [].
Proof. split; vm_compute; reflexivity. Qed.

(* N2: input path /a, --follow-links, --path '/d/**': sel_file = "is /d/f", sel_dir = "is a prefix of
   /d/f" (conservative); /a is not a prefix, so the walk stops at the input path, but /d/f is
   reachable through /a/l and matches. *)
Definition wcfg2 : config := mkConfig huge false true false true false 0 huge.
Definition wsel_file (p : path) : bool := path_eqb p [nD; nF].
Definition wsel_dir (p : path) : bool := pe p [nD; nF].

Lemma wsel_conservative : conservative wsel_file wsel_dir.
Proof.
  intros p d Hp Hd. unfold wsel_file in Hp. apply path_eqb_true in Hp. subst p.
  unfold wsel_dir. now apply pe_spec.
Qed.

Lemma N2_selected : selected wsel_file wsel_dir no_ign wtree wcfg2 false [[nA]] [nD; nF].
Proof.
  pose (tk0 := mkTask TPath [nA] 0 [] 1).
  pose (tk1 := mkTask TEntry [nA; nL] 1 [] 1).
  pose (tk2 := mkTask TPath [nD] 1 [] 1).
  pose (tk3 := mkTask TEntry [nD; nF] 2 [] 1).
  assert (V0 : visits wsel_dir no_ign wtree wcfg2 false [[nA]] tk0).
  { apply V_root. vm_compute. now left. }
  assert (E01 : edge wsel_dir no_ign wtree wcfg2 false tk0 tk1).
  { apply (E_child wsel_dir no_ign wtree wcfg2 false tk0 (mkNode KDir 1) [nA; nL]).
    - repeat split; try (now left); try (now right); try (right; now right); try (intros; discriminate).
    - reflexivity.
    - vm_compute. reflexivity.
    - discriminate.
    - discriminate.
    - vm_compute. now left.
    - right. left. reflexivity. }
  assert (E12 : edge wsel_dir no_ign wtree wcfg2 false tk1 tk2).
  { apply (E_link wsel_dir no_ign wtree wcfg2 false tk1 (mkNode (KLink false [dotdot; nD]) 1) false [dotdot; nD] [nD] (mkNode KDir 1)).
    - repeat split; try (now left); try (now right); try (right; now right); try (intros; discriminate).
    - reflexivity.
    - reflexivity.
    - vm_compute. reflexivity.
    - discriminate.
    - discriminate. }
  assert (E23 : edge wsel_dir no_ign wtree wcfg2 false tk2 tk3).
  { apply (E_child wsel_dir no_ign wtree wcfg2 false tk2 (mkNode KDir 1) [nD; nF]).
    - repeat split; try (now left); try (now right); try (right; now right); try (intros; discriminate).
    - reflexivity.
    - vm_compute. reflexivity.
    - discriminate.
    - discriminate.
    - vm_compute. now left.
    - right. right. reflexivity. }
  exists tk3. split.
  - eapply V_step; [eapply V_step; [eapply V_step; [exact V0|exact E01]|exact E12]|exact E23].
  - exists (mkNode (KFile 2) 1). split; [|split; [reflexivity|split; [reflexivity|now left]]].
    repeat split; try (now left); try (now right); try (right; now right); try (intros; discriminate).
Qed.

Lemma N2_lost : walk wsel_file wsel_dir no_ign wtree wcfg2 sched_lifo [[nA]] = Done [] /\
                walk wsel_file wsel_dir no_ign wtree wcfg2 sched_fifo [[nA]] = Done [].
Proof. split; vm_compute; reflexivity. Qed.

Lemma stmt_N1 :
  exists t c roots s1 s2 l1 l2 x,
    c_follow c = true /\ conservative all_true all_true /\
    walk all_true all_true no_ign t c s1 roots = Done l1 /\
    walk all_true all_true no_ign t c s2 roots = Done l2 /\
    In x l1 /\ selected all_true all_true no_ign t c false roots x /\ ~ In x l2.
Proof.
  exists wtree, wcfg1, [[]], sched_fifo, sched_lifo, [[nD; nF]], [], [nD; nF].
  destruct N1_witness as [H1 H2].
  split; [reflexivity|]. split; [intros ? ? ? ?; reflexivity|]. split; [exact H1|]. split; [exact H2|].
  split; [now left|]. split; [|intros []].
  eapply stmt_sound; [exact H1|now left].
Qed.

Lemma stmt_N2 :
  exists sel_file sel_dir t c roots x,
    conservative sel_file sel_dir /\ c_follow c = true /\
    selected sel_file sel_dir no_ign t c false roots x /\
    walk sel_file sel_dir no_ign t c sched_lifo roots = Done [] /\
    walk sel_file sel_dir no_ign t c sched_fifo roots = Done [].
Proof.
  exists wsel_file, wsel_dir, wtree, wcfg2, [[nA]], [nD; nF].
  destruct N2_lost as [H1 H2].
  split; [exact wsel_conservative|]. split; [reflexivity|]. split; [exact N2_selected|]. split; assumption.
Qed.

(* non-vacuity material: the same tree without link following (the hypotheses of the exact theorem) and
   with link following under route-independent options *)
Definition wcfg3 : config := mkConfig 2 false false false false false 1 huge.
Lemma ex_nofollow : scan all_true all_true no_ign wtree wcfg3 sched_lifo [[]; [nD]] = Done [[nD; nF]].
Proof. vm_compute. reflexivity. Qed.
Lemma ex_follow : scan all_true all_true no_ign wtree wcfg2 sched_lifo [[]] = Done [[nD; nF]]
                  /\ N.of_nat (length (keys wtree)) < c_depth wcfg2
                  /\ (forall p, In p (keys wtree) -> name_hidden p = false).
Proof.
  split; [vm_compute; reflexivity|]. split; [vm_compute; reflexivity|].
  intros p H. vm_compute in H. repeat (destruct H as [<-|H]; [reflexivity|]). destruct H.
Qed.
(* the input path itself may be hidden (walk.rs tests hidden names only at level > 0): /.h/f is found
   from the input path /.h without --hidden, but not from / *)
Definition nH : comp := [46; 104].
Definition htree : tree := [ ([], mkNode KDir 1); ([nH], mkNode KDir 1); ([nH; nF], mkNode (KFile 2) 1) ].
Lemma ex_hidden_root :
  scan all_true all_true no_ign htree wcfg3 sched_lifo [[nH]] = Done [[nH; nF]] /\
  scan all_true all_true no_ign htree wcfg3 sched_lifo [[]] = Done [].
Proof. split; vm_compute; reflexivity. Qed.
