(* AtomicProofs4.v — engine A, part 4: the property-level corollaries (C05), move_target and the
   existence check (C18), foreign locks (C20), and helpers to build well-formed example states. *)
From FV Require Import Base FsModel AtomicModel AtomicProofs AtomicProofs2 AtomicProofs3.
Open Scope N_scope.

(* ---------------------------------------------------------------- C05 *)
Lemma c05_crash_invariant sl c s o i st : pre c s -> In st (states o i (prog_of sl c) s) ->
  (orig_at_path c s st \/ orig_at_temp c s st \/ replaced c s st) /\ retained_untouched c s st.
Proof. intros Hp Hin. exact (safe_states _ _ _ _ (cmd_safe sl c s Hp) o i st Hin). Qed.

Lemma c05_result sl c s o i : pre c s ->
  let r := run o i (prog_of sl c) s in
  (ores r = IOk -> replaced c s (ofs r) /\
                   match cmd_tmp c with Some tmp => names (ofs r) tmp = None \/ (1 <= owarn r)%nat | None => True end) /\
  (ores r = IErr -> restored c s (ofs r) \/ ((2 <= ofaults r)%nat /\ (1 <= owarn r)%nat /\ err_double c s (ofs r))).
Proof. intros Hp. exact (safe_final _ _ _ _ (cmd_safe sl c s Hp) o i). Qed.

Lemma c05_single_fault sl c s o i : pre c s ->
  let r := run o i (prog_of sl c) s in
  (ofaults r <= 1)%nat ->
  (ores r = IErr /\ restored c s (ofs r)) \/
  (ores r = IOk /\ replaced c s (ofs r) /\
   match cmd_tmp c with Some tmp => names (ofs r) tmp = None \/ (1 <= owarn r)%nat | None => True end).
Proof.
  intros Hp r Hf. destruct (c05_result sl c s o i Hp) as [Hok Herr]. fold r in Hok, Herr.
  destruct (ores r) eqn:E.
  - right. split; auto.
  - left. split; auto. destruct (Herr eq_refl) as [H|[H _]]; [exact H|lia].
Qed.

Lemma c05_double_fault sl c s o i : pre c s ->
  let r := run o i (prog_of sl c) s in
  ores r = IErr -> ~ restored c s (ofs r) ->
  (2 <= ofaults r)%nat /\ (1 <= owarn r)%nat /\ err_double c s (ofs r).
Proof.
  intros Hp r He Hn. destruct (c05_result sl c s o i Hp) as [_ Herr]. fold r in Herr.
  destruct (Herr He) as [H|H]; [contradiction|exact H].
Qed.

Lemma run_script_results_length sl o cs : forall i s, length (sresults (run_script sl o i cs s)) = length cs.
Proof. induction cs as [|c cs IH]; intros i s; cbn [run_script sresults length]; auto. Qed.

Lemma run_script_warn_ge sl o cs : forall i s,
  (length (filter (fun r => negb (is_ok r)) (sresults (run_script sl o i cs s))) <= swarn (run_script sl o i cs s))%nat.
Proof.
  induction cs as [|c cs IH]; intros i s; cbn [run_script sresults swarn filter length]; [lia|].
  specialize (IH (oidx (run o i (prog_of sl c) s)) (ofs (run o i (prog_of sl c) s))).
  destruct (ores (run o i (prog_of sl c) s)); cbn [is_ok negb length]; lia.
Qed.

Lemma c05_counted_iff_ok sl o i cs s :
  let t := run_script sl o i cs s in
  processed_count t = length (filter is_ok (sresults t)) /\ length (sresults t) = length cs /\
  (length (filter (fun r => negb (is_ok r)) (sresults t)) <= swarn t)%nat /\
  (forall c rest, cs = c :: rest ->
     sresults t = ores (run o i (prog_of sl c) s)
                  :: sresults (run_script sl o (oidx (run o i (prog_of sl c) s)) rest (ofs (run o i (prog_of sl c) s)))).
Proof.
  cbn zeta. split; [reflexivity|]. split; [apply run_script_results_length|]. split; [apply run_script_warn_ge|].
  intros c rest ->. reflexivity.
Qed.

(* ---------------------------------------------------------------- C18: move_target *)
Lemma c18_shape d rest : mv_target d (root_c :: rest) = d ++ dot_c :: (match rest with [] => [dot_c] | _ => rest end).
Proof. reflexivity. Qed.

Lemma c18_injective d p p' : wf_abs p -> wf_abs p' -> mv_target d p = mv_target d p' -> p = p'.
Proof.
  intros (r & -> & Hr) (r' & -> & Hr'). rewrite !c18_shape. intros H.
  apply app_inv_head in H. injection H as H.
  destruct r as [|x r], r' as [|x' r']; auto.
  - injection H as <- <-. exfalso. apply Hr'. left; reflexivity.
  - injection H as -> ->. exfalso. apply Hr. left; reflexivity.
  - now rewrite H.
Qed.

(* ---------------------------------------------------------------- C18: the existence check *)
(* a program whose every run from s ends in s with an error, whatever the oracle *)
Definition refuses (p : prog io) (s : fs) : Prop :=
  forall o i w nf, let r := run_acc o i p s w nf in ofs r = s /\ ores r = IErr /\ owarn r = w.

Lemma do_call_stateless f c s :
  match c with OpenW _ | LockW _ | UnlockW _ | Exists _ | IsDir _ | OpenR _ | LExists _ => True | _ => False end ->
  snd (do_call f c s) = s.
Proof.
  intros H. destruct f as [ft|]; [|apply stateless_nat; exact H].
  unfold do_call. destruct (is_query c); [apply (stateless_nat c s H)|].
  cbn [snd]. apply fail_nstate_not_copy. intros a b now. destruct c; cbn [ncall]; try congruence; contradiction.
Qed.

Lemma refuses_prelude sl a k s : refuses k s -> refuses (lock_prelude sl a k) s.
Proof.
  intros Hk. unfold lock_prelude. destruct sl; [|exact Hk].
  intros o i w nf. cbn [run_acc].
  rewrite (do_call_stateless _ (OpenW a) s I).
  destruct (fst (do_call (fault_for o i (OpenW a)) (OpenW a) s)) as [|e].
  - cbn [run_acc]. rewrite (do_call_stateless _ (LockW a) s I).
    destruct (fst (do_call _ (LockW a) s)) as [|e].
    + cbn [run_acc]. rewrite (do_call_stateless _ (UnlockW a) s I). apply Hk.
    + destruct (unsupported e); [apply Hk|cbn [run_acc ofs ores owarn]; auto].
  - destruct (unsupported e); [apply Hk|cbn [run_acc ofs ores owarn]; auto].
Qed.

Lemma exists_true_when_resolves s p : names s p <> None -> ~ dangling_link s p -> exists_follow s p = true.
Proof.
  intros Hn Hd. destruct (exists_follow s p) eqn:E; auto. exfalso. apply Hd. split; [|exact E].
  unfold exists_follow, follow, LINK_FUEL in E. cbn [resolve] in E.
  destruct (names s p) as [[i| |t]|]; try discriminate; eauto. congruence.
Qed.

(* the lock probe never changes the state, whatever its calls answer (no assumption on the file) *)
Lemma safe_prelude_any (P : fs -> Prop) (Q : fs -> io -> nat -> nat -> Prop) sl a k s w nf :
  P s -> (forall nf', Q s IErr w nf') -> (forall nf', safe P Q k s w nf') -> safe P Q (lock_prelude sl a k) s w nf.
Proof.
  intros HP HQ Hk. unfold lock_prelude. destruct sl; [|apply Hk].
  assert (Hstep : forall c (kk : res -> prog io) nf0,
             match c with OpenW _ | LockW _ | UnlockW _ => True | _ => False end ->
             (forall r nf', safe P Q (kk r) s w nf') -> safe P Q (Do c kk) s w nf0).
  { intros c kk nf0 Hc Hkk. cbn [safe]. split; [exact HP|]. split.
    - rewrite mids_nocopy; [intros m []|]. intros x y z. destruct c; try contradiction; discriminate.
    - intros f _. rewrite (do_call_stateless f c s); [apply Hkk|]. destruct c; try contradiction; exact I. }
  apply Hstep; [exact I|]. intros [|e] nf1.
  - apply Hstep; [exact I|]. intros [|e] nf2.
    + apply Hstep; [exact I|]. intros _ nf3. apply Hk.
    + destruct (unsupported e); [apply Hk|cbn [safe]; auto].
  - destruct (unsupported e); [apply Hk|cbn [safe]; auto].
Qed.

(* programs that never log a warning *)
Inductive nowarn {R} : prog R -> Prop :=
| NW_Ret r : nowarn (Ret r)
| NW_Do c k : (forall r, nowarn (k r)) -> nowarn (Do c k).
Lemma nowarn_run {R} (p : prog R) : nowarn p -> forall o i s w nf, owarn (run_acc o i p s w nf) = w.
Proof. induction 1 as [r|c k Hk IH]; intros o i s w nf; cbn [run_acc]; [reflexivity|apply IH]. Qed.
Lemma nowarn_mk_up {R} (k : res -> prog R) pending : (forall r, nowarn (k r)) -> nowarn (mk_up pending k).
Proof.
  intros Hk. induction pending as [|d rest IH]; cbn [mk_up]; auto.
  constructor. intros [|e]; auto. destruct e; auto. constructor. intros [|e']; auto.
Qed.
Lemma nowarn_mk_down {R} (k : res -> prog R) fuel : forall d pending, (forall r, nowarn (k r)) -> nowarn (mk_down fuel d pending k).
Proof.
  induction fuel as [|f IH]; intros d pending Hk; destruct d as [|c1 [|c2 d']]; cbn [mk_down];
    try (apply nowarn_mk_up; auto);
    (constructor; intros [|e]; [apply nowarn_mk_up; auto|]; destruct e; auto;
     try (apply nowarn_mk_up; auto);
     constructor; intros [|e']; auto; apply nowarn_mk_up; auto).
Qed.
Ltac nw := repeat first [ apply NW_Ret | apply NW_Do; intros [|?] | apply nowarn_mk_down; intros [|?] ].
Lemma nowarn_move sl src tgt rn now : nowarn (prog_of sl (FMove src tgt rn now)).
Proof.
  assert (Hc : nowarn (move_copy src tgt now)) by (unfold move_copy, mkdirs_of, mkdirs; nw).
  assert (Hb : nowarn (if rn then move_rename src tgt (fun r => match r with IOk => Ret IOk | IErr => move_copy src tgt now end)
                       else move_copy src tgt now)).
  { destruct rn; [|exact Hc]. unfold move_rename, mkdirs_of, mkdirs. nw; auto. all: cbn [ok_of]; auto; nw. }
  cbn [prog_of]. unfold lock_prelude. destruct sl; [|exact Hb].
  constructor. intros [|e].
  - constructor. intros [|e]; [constructor; intros _; exact Hb|destruct (unsupported e); [exact Hb|constructor]].
  - destruct (unsupported e); [exact Hb|constructor].
Qed.

(* Something exists at the target: whatever the oracle does, Move ends with Err and the only thing that can have happened
   to the file system is that missing DIRECTORIES were created (mkdirs runs before the check since 730c76a): every name
   and every inode that existed is unchanged, in the final state and in every state a crash can expose. *)
Lemma c18_no_overwrite_safe sl src tgt rn now s : names s (norm tgt) <> None ->
  safe (dirs_added s) (fun st r _ _ => dirs_added s st /\ r = IErr) (prog_of sl (FMove src tgt rn now)) s 0 0.
Proof.
  intros Hn.
  set (P := dirs_added s). set (Q := fun (st : fs) (r : io) (_ _ : nat) => dirs_added s st /\ r = IErr).
  assert (Hlex : forall st, dirs_added s st -> lexists st (norm tgt) = true).
  { intros st Hd. unfold lexists. destruct (names s (norm tgt)) as [n|] eqn:E; [|congruence].
    now rewrite (dirs_added_keeps _ _ _ _ Hd E). }
  assert (Hcopy : forall st w nf, dirs_added s st -> safe P Q (move_copy src tgt now) st w nf).
  { intros st w nf Hd. unfold move_copy. apply (mkdirs_of_safe P Q st).
    - intros st' Hd'. eapply dirs_added_trans; eauto.
    - intros st' r w' nf' Hd'. assert (Hd2 : dirs_added s st') by (eapply dirs_added_trans; eauto).
      destruct r as [|e]; [|cbn [safe]; unfold Q; auto].
      apply safe_Do_query_eval; [reflexivity|exact Hd2|].
      rewrite lexists_eval_norm, (Hlex st' Hd2). cbn [safe]. unfold Q; auto.
    - apply dirs_added_refl. }
  cbn [prog_of]. apply safe_prelude_any; [apply dirs_added_refl|intros; split; [apply dirs_added_refl|reflexivity]|].
  intros nf'. destruct rn; [|apply Hcopy, dirs_added_refl].
  unfold move_rename. apply (mkdirs_of_safe P Q s); [intros st' Hd'; exact Hd'| |apply dirs_added_refl].
  intros st r w' nf0 Hd. destruct r as [|e]; [|apply Hcopy; auto].
  apply safe_Do_query_eval; [reflexivity|exact Hd|].
  rewrite lexists_eval_norm, (Hlex st Hd). apply Hcopy; auto.
Qed.

Lemma c18_no_overwrite sl src tgt rn now s : names s (norm tgt) <> None ->
  forall o i,
    (forall st, In st (states o i (prog_of sl (FMove src tgt rn now)) s) -> dirs_added s st) /\
    let r := run o i (prog_of sl (FMove src tgt rn now)) s in dirs_added s (ofs r) /\ ores r = IErr /\ owarn r = 0%nat.
Proof.
  intros Hn o i. pose proof (c18_no_overwrite_safe sl src tgt rn now s Hn) as Hs. split.
  - intros st Hin. exact (safe_states _ _ _ _ Hs o i st Hin).
  - pose proof (safe_final _ _ _ _ Hs o i) as [H1 H2]. cbn zeta. split; [exact H1|]. split; [exact H2|].
    unfold run. apply nowarn_run, nowarn_move.
Qed.

Lemma c18_copy_then_delete sl src tgt rn now s o i st : pre (FMove src tgt rn now) s ->
  In st (states o i (prog_of sl (FMove src tgt rn now)) s) ->
  same_file s st src src \/ (file_bytes s src <> None /\ file_bytes st (norm tgt) = file_bytes s src).
Proof.
  intros Hp Hin. destruct (c05_crash_invariant sl _ s o i st Hp Hin) as [[H|[H|H]] _].
  - left. exact H.
  - destruct H.
  - right. destruct H as (b0 & Hb & H). cbn in H, Hb. rewrite Hb, H. split; congruence.
Qed.

(* ---------------------------------------------------------------- C20 *)
Definition not_unsupported (o : oracle) (i : nat) : Prop :=
  match o i with Some ft => unsupported (ferr ft) = false | None => True end.

Lemma c20_locked_cmd c s o i i0 : norm (victim c) = victim c -> names s (victim c) = Some (NFile i0) -> locks s i0 = true ->
  not_unsupported o i -> not_unsupported o (S i) ->
  let r := run o i (prog_of true c) s in
  ofs r = s /\ ores r = IErr /\ owarn r = 0%nat /\ (oidx r = S i \/ oidx r = S (S i)).
Proof.
  intros Hn Ea Hl H1 H2.
  assert (Ca : clean (victim c)) by (apply clean_norm; exact Hn).
  assert (G : forall k, let r := run o i (lock_prelude true (victim c) k) s in
              ofs r = s /\ ores r = IErr /\ owarn r = 0%nat /\ (oidx r = S i \/ oidx r = S (S i))).
  { intros k. unfold run, lock_prelude. cbn [run_acc]. cbn [fault_for is_query next_idx].
    unfold not_unsupported in H1, H2.
    destruct (o i) as [ft|] eqn:E1.
    - rewrite do_call_fault by reflexivity. cbn [fst snd]. rewrite H1. cbn [run_acc ofs ores owarn oidx]. auto.
    - rewrite (openw_ok _ _ _ Ca Ea). cbn [fst snd run_acc]. cbn [fault_for is_query next_idx].
      destruct (o (S i)) as [ft|] eqn:E2.
      + rewrite do_call_fault by reflexivity. cbn [fst snd]. rewrite H2. cbn [run_acc ofs ores owarn oidx]. auto.
      + rewrite (lockw_file _ _ _ Ca Ea), Hl. cbn [fst snd unsupported run_acc ofs ores owarn oidx]. auto. }
  destruct c; cbn [prog_of victim] in *; apply G.
Qed.

Lemma c20_locked_script c rest s o i i0 : norm (victim c) = victim c -> names s (victim c) = Some (NFile i0) ->
  locks s i0 = true -> not_unsupported o i -> not_unsupported o (S i) ->
  exists j, (j = S i \/ j = S (S i)) /\
    let t := run_script true o i (c :: rest) s in
    let t' := run_script true o j rest s in
    sfs t = sfs t' /\ sresults t = IErr :: sresults t' /\ processed_count t = processed_count t' /\
    swarn t = S (swarn t') /\ sidx t = sidx t'.
Proof.
  intros Hn Ea Hl H1 H2. destruct (c20_locked_cmd c s o i i0 Hn Ea Hl H1 H2) as (Hs & Hr & Hw & Hi).
  exists (oidx (run o i (prog_of true c) s)). split; [exact Hi|].
  cbn [run_script sfs sresults swarn sidx]. rewrite Hs, Hr, Hw. unfold processed_count. cbn [sresults filter is_ok]. auto.
Qed.

(* with should_lock = false the lock table is never read *)
Lemma resolve_locks fuel s l p : resolve fuel (set_locks s l) p = resolve fuel s p.
Proof. revert p; induction fuel as [|f IH]; intros p; cbn [resolve names set_locks]; destruct (names s p) as [[i| |t]|]; auto. Qed.
Lemma follow_locks s l p : follow (set_locks s l) p = follow s p.
Proof. apply resolve_locks. Qed.
Lemma is_dir_locks s l p : is_dir (set_locks s l) p = is_dir s p.
Proof. reflexivity. Qed.
Lemma write_target_locks s l p : write_target (set_locks s l) p = write_target s p.
Proof. unfold write_target. rewrite follow_locks. destruct (follow s p) as [q [i| |t]|q|]; auto. Qed.
Lemma file_bytes_locks s l p : file_bytes (set_locks s l) p = file_bytes s p.
Proof. unfold file_bytes. rewrite follow_locks. destruct (follow s p) as [q [i| |t]|q|]; auto. Qed.
Lemma exists_follow_locks s l p : exists_follow (set_locks s l) p = exists_follow s p.
Proof. unfold exists_follow. now rewrite follow_locks. Qed.
Lemma lexists_locks s l p : lexists (set_locks s l) p = lexists s p.
Proof. reflexivity. Qed.

Ltac head_destruct :=
  repeat (match goal with
          | |- (match ?x with _ => _ end) = _ => destruct x
          | |- (if ?x then _ else _) = _ => destruct x
          end; cbn [fst snd]).

Lemma partial_copy_locks s l a b now n : partial_copy (set_locks s l) a b now n = set_locks (partial_copy s a b now n) l.
Proof.
  unfold partial_copy. rewrite follow_locks, write_target_locks. change (inodes (set_locks s l)) with (inodes s).
  head_destruct; reflexivity.
Qed.

Lemma nat_ncall_locks c s l : (forall a, c <> LockW a) ->
  nat_ncall c (set_locks s l) = (fst (nat_ncall c s), set_locks (snd (nat_ncall c s)) l).
Proof.
  intros Hc. destruct c; cbn [nat_ncall]; try (exfalso; eapply Hc; reflexivity);
    unfold src_bytes; rewrite ?follow_locks, ?write_target_locks, ?file_bytes_locks, ?exists_follow_locks, ?lexists_locks, ?is_dir_locks;
    change (names (set_locks s l)) with (names s); change (inodes (set_locks s l)) with (inodes s);
    head_destruct; reflexivity.
Qed.

Lemma do_call_locks f c s l : (forall a, c <> LockW a) ->
  do_call f c (set_locks s l) = (fst (do_call f c s), set_locks (snd (do_call f c s)) l).
Proof.
  intros Hc.
  assert (Hnat : nat_call c (set_locks s l) = (fst (nat_call c s), set_locks (snd (nat_call c s)) l)).
  { unfold nat_call. apply nat_ncall_locks. intros a. destruct c; cbn [ncall]; try discriminate. exfalso; eapply Hc; reflexivity. }
  unfold do_call. destruct f as [ft|]; [|exact Hnat].
  destruct (is_query c); [exact Hnat|]. cbn [fst snd]. f_equal.
  destruct c; cbn [ncall fail_nstate]; try reflexivity.
  destruct (fpartial ft); [|reflexivity]. apply partial_copy_locks.
Qed.

Lemma nolock_run {R} (p : prog R) : nolock p -> forall o i s l w nf,
  let r := run_acc o i p s w nf in let r' := run_acc o i p (set_locks s l) w nf in
  ofs r' = set_locks (ofs r) l /\ ores r' = ores r /\ oidx r' = oidx r /\ owarn r' = owarn r /\ ofaults r' = ofaults r.
Proof.
  induction 1 as [r|k Hk IH|c k Hc Hk IH]; intros o i s l w nf; cbn [run_acc].
  - cbn. auto.
  - apply IH.
  - rewrite (do_call_locks _ c s l Hc). cbn [fst snd]. apply IH.
Qed.

Lemma nolock_mk_up {R} (k : res -> prog R) pending : (forall r, nolock (k r)) -> nolock (mk_up pending k).
Proof.
  intros Hk. induction pending as [|d rest IH]; cbn [mk_up]; auto.
  constructor; [intros; discriminate|]. intros [|e]; auto. destruct e; auto.
  constructor; [intros; discriminate|]. intros [|e']; auto.
Qed.
Lemma nolock_mk_down {R} (k : res -> prog R) fuel : forall d pending, (forall r, nolock (k r)) -> nolock (mk_down fuel d pending k).
Proof.
  induction fuel as [|f IH]; intros d pending Hk; destruct d as [|c1 [|c2 d']]; cbn [mk_down];
    try (apply nolock_mk_up; auto);
    (constructor; [intros; discriminate|]; intros [|e]; [apply nolock_mk_up; auto|]; destruct e; auto;
     try (apply nolock_mk_up; auto);
     constructor; [intros; discriminate|]; intros [|e']; auto; apply nolock_mk_up; auto).
Qed.

Ltac nl := repeat first [ apply NL_Ret | apply NL_Warn
                        | apply NL_Do; [intros; discriminate|intros [|?]]
                        | apply nolock_mk_down; intros [|?] ].
Lemma nolock_prog_of c : nolock (prog_of false c).
Proof.
  destruct c; cbn [prog_of lock_prelude].
  - nl.
  - unfold safe_remove. nl.
  - unfold safe_remove. nl.
  - unfold reflink, linux_reflink, remove_temporary, undo_dedupe. nl.
  - assert (Hc : nolock (move_copy src tgt now)).
    { unfold move_copy, mkdirs_of, mkdirs. nl. }
    destruct use_rename; [|exact Hc]. unfold move_rename, mkdirs_of, mkdirs. nl; auto.
    all: cbn [ok_of]; auto; nl.
Qed.

Lemma c20_no_lock_flag c o i s l :
  let r := run o i (prog_of false c) s in let r' := run o i (prog_of false c) (set_locks s l) in
  ofs r' = set_locks (ofs r) l /\ ores r' = ores r /\ oidx r' = oidx r /\ owarn r' = owarn r /\ ofaults r' = ofaults r.
Proof. apply nolock_run. apply nolock_prog_of. Qed.

(* ---------------------------------------------------------------- building well-formed example states *)
Lemma wf_empty : wf empty_fs.
Proof. split; intros; cbn in *; congruence. Qed.
Lemma wf_set_dir s p : wf s -> wf (set_name s p (Some NDir)).
Proof.
  intros [H1 H2]. split; [|exact H2]. intros q i. destruct (path_eqb_spec p q) as [->|Hn].
  - rewrite names_set_same. discriminate.
  - rewrite names_set_other by auto. apply H1.
Qed.
Lemma wf_set_link s p t : wf s -> wf (set_name s p (Some (NLink t))).
Proof.
  intros [H1 H2]. split; [|exact H2]. intros q i. destruct (path_eqb_spec p q) as [->|Hn].
  - rewrite names_set_same. discriminate.
  - rewrite names_set_other by auto. apply H1.
Qed.
Lemma wf_create s p d : wf s -> wf (create_at s p d).
Proof.
  intros [H1 H2]. split.
  - intros q i. destruct (path_eqb_spec p q) as [->|Hn].
    + rewrite names_create_same. intros E; injection E as <-. cbn [next create_at]. lia.
    + rewrite names_create_other by auto. intros E. specialize (H1 _ _ E). cbn [next create_at]. lia.
  - intros i Hi. cbn [next create_at] in Hi. rewrite inodes_create_other by lia. apply H2. lia.
Qed.
Lemma wf_link s p i q : wf s -> names s q = Some (NFile i) -> wf (set_name s p (Some (NFile i))).
Proof.
  intros [H1 H2] E. split; [|exact H2]. intros r j. destruct (path_eqb_spec p r) as [->|Hn].
  - rewrite names_set_same. intros E'; injection E' as <-. eapply H1; eauto.
  - rewrite names_set_other by auto. apply H1.
Qed.
Lemma wf_set_locks s l : wf s -> wf (set_locks s l).
Proof. intros [H1 H2]. split; auto. Qed.
