(* GroupProofs.v — engine G, part 1: equality tests, FileSubGroup::group (partition, counting rule,
   monotonicity), sorting helpers.  Used by Props_C06 directly and by GroupProofs2/3 (C01, C03). *)
From FV Require Import Base ListLib GroupModel.
From Coq Require Import Permutation.
Open Scope N_scope.

(* ------------------------------------------------------------------ equality tests *)
Lemma lex_cmp_eq {A} (cmp : A -> A -> comparison) :
  (forall x y, cmp x y = Eq <-> x = y) -> forall a b, lex_cmp cmp a b = Eq <-> a = b.
Proof.
  intros Hc. induction a as [|x a IH]; destruct b as [|y b]; cbn [lex_cmp]; try (split; [discriminate|discriminate]).
  - tauto.
  - destruct (cmp x y) eqn:E.
    + apply Hc in E. subst. rewrite IH. split; [intros ->; auto|intros H; inversion H; auto].
    + split; [discriminate|]. intros H. inversion H; subst. assert (cmp y y = Eq) by (apply Hc; auto). congruence.
    + split; [discriminate|]. intros H. inversion H; subst. assert (cmp y y = Eq) by (apply Hc; auto). congruence.
Qed.

Lemma bytes_cmp_eq a b : bytes_cmp a b = Eq <-> a = b.
Proof. apply lex_cmp_eq. intros x y. apply N.compare_eq_iff. Qed.

Lemma cmp_eqb_spec c : cmp_eqb c = true <-> c = Eq.
Proof. destruct c; cbn; split; congruence. Qed.

Lemma bytes_eqb_spec a b : bytes_eqb a b = true <-> a = b.
Proof. unfold bytes_eqb. rewrite cmp_eqb_spec. apply bytes_cmp_eq. Qed.

Lemma path_eqb_spec p q : path_eqb p q = true <-> p = q.
Proof. unfold path_eqb. rewrite cmp_eqb_spec. apply lex_cmp_eq. apply bytes_cmp_eq. Qed.

Lemma fid_eqb_spec a b : fid_eqb a b = true <-> a = b.
Proof.
  unfold fid_eqb. destruct a as [a1 a2], b as [b1 b2]. cbn [fst snd].
  rewrite andb_true_iff, !N.eqb_eq. split; [intros [-> ->]; auto|intros H; inversion H; auto].
Qed.

Lemma same_id_spec f g : same_id f g = true <-> fid f = fid g.
Proof. apply fid_eqb_spec. Qed.
Lemma same_id_refl f : same_id f f = true. Proof. apply same_id_spec; auto. Qed.
Lemma same_id_sym f g : same_id f g = same_id g f.
Proof.
  destruct (same_id f g) eqn:E1, (same_id g f) eqn:E2; auto.
  - apply same_id_spec in E1. symmetry in E1. apply same_id_spec in E1. congruence.
  - apply same_id_spec in E2. symmetry in E2. apply same_id_spec in E2. congruence.
Qed.
Lemma same_id_trans f g h : same_id f g = true -> same_id g h = true -> same_id f h = true.
Proof. rewrite !same_id_spec. congruence. Qed.

Lemma same_path_spec f g : same_path f g = true <-> fpath f = fpath g.
Proof. apply path_eqb_spec. Qed.

Lemma key_eqb_spec (a b : key) : key_eqb a b = true <-> a = b.
Proof.
  unfold key_eqb. destruct a as [a1 a2], b as [b1 b2]. cbn [fst snd].
  rewrite andb_true_iff, N.eqb_eq, bytes_eqb_spec. split; [intros [-> ->]; auto|intros H; inversion H; auto].
Qed.

Lemma N_eqb_spec' a b : N.eqb a b = true <-> a = b. Proof. apply N.eqb_eq. Qed.

Lemma set_len_same f : set_len f (flen f) = f.
Proof. destruct f; reflexivity. Qed.
Lemma set_len_fid f n : fid (set_len f n) = fid f. Proof. reflexivity. Qed.
Lemma set_len_fdata f n : fdata (set_len f n) = fdata f. Proof. reflexivity. Qed.
Lemma set_len_fpath f n : fpath (set_len f n) = fpath f. Proof. reflexivity. Qed.
Lemma set_len_fdev f n : fdev (set_len f n) = fdev f. Proof. reflexivity. Qed.
Lemma set_len_flen f n : flen (set_len f n) = n. Proof. reflexivity. Qed.

(* ------------------------------------------------------------------ generic partition by indexed predicates *)
Lemma partition_perm {A I} (p : I -> A -> bool) (idxs : list I) (l : list A) :
  (forall x i j, In x l -> In i idxs -> In j idxs -> p i x = true -> p j x = true -> i = j) ->
  NoDup idxs ->
  Permutation (concat (map (fun i => filter (p i) l) idxs)
               ++ filter (fun x => negb (existsb (fun i => p i x) idxs)) l) l.
Proof.
  revert l. induction idxs as [|k ks IH]; intros l Hdis Hnd; cbn [map concat existsb app].
  - rewrite filter_all_true; auto.
  - inversion Hnd as [|? ? Hk Hnd']; subst.
    set (l' := filter (fun x => negb (p k x)) l).
    assert (E1 : map (fun i => filter (p i) l) ks = map (fun i => filter (p i) l') ks).
    { apply map_ext_in. intros i Hi. unfold l'. rewrite filter_filter. apply filter_ext_in'. intros x Hx.
      destruct (p k x) eqn:E; cbn [negb andb]; auto.
      destruct (p i x) eqn:E2; auto. exfalso.
      assert (k = i) by (eapply Hdis; eauto; [left|right]; auto). subst. contradiction. }
    assert (E2 : filter (fun x => negb (p k x || existsb (fun i => p i x) ks)) l
                 = filter (fun x => negb (existsb (fun i => p i x) ks)) l').
    { unfold l'. rewrite filter_filter. apply filter_ext_in'. intros x Hx.
      destruct (p k x); cbn [orb negb andb]; auto. }
    rewrite E1, E2. rewrite <- app_assoc. rewrite IH; auto.
    + apply filter_split_perm.
    + intros x i j Hx Hi Hj. unfold l' in Hx. apply filter_In in Hx. destruct Hx as [Hx _].
      apply Hdis; auto; right; auto.
Qed.

Lemma concat_filter_nonempty {A} (ll : list (list A)) : concat (filter nonempty ll) = concat ll.
Proof.
  induction ll as [|l ll IH]; cbn [filter concat]; auto.
  destruct l as [|x l]; cbn [nonempty concat app]; auto. rewrite IH. auto.
Qed.

(* ------------------------------------------------------------------ first_root *)
Lemma first_root_from_bounds rs p : forall i j, first_root_from i rs p = Some j -> (i <= j < i + length rs)%nat.
Proof.
  induction rs as [|r rs IH]; cbn [first_root_from length]; intros i j H; [discriminate|].
  destruct (is_prefix_of r p).
  - inversion H; subst. lia.
  - apply IH in H. lia.
Qed.

Lemma first_root_bound rs f j : first_root rs f = Some j -> (j < length rs)%nat.
Proof. unfold first_root. intros H. apply first_root_from_bounds in H. lia. Qed.

(* the first root is a prefix of the path, and no earlier root is *)
Lemma first_root_from_spec rs p : forall i j, first_root_from i rs p = Some j ->
  exists r, nth_error rs (j - i) = Some r /\ is_prefix_of r p = true /\
            forall k r', (k < j - i)%nat -> nth_error rs k = Some r' -> is_prefix_of r' p = false.
Proof.
  induction rs as [|r rs IH]; cbn [first_root_from]; intros i j H; [discriminate|].
  destruct (is_prefix_of r p) eqn:E.
  - inversion H; subst. rewrite Nat.sub_diag. exists r. repeat split; auto. intros k r' Hk. lia.
  - pose proof (first_root_from_bounds _ _ _ _ H) as Hb.
    destruct (IH _ _ H) as (r0 & Hn & Hp & Hmin).
    exists r0. replace (j - i)%nat with (S (j - S i)) by lia. cbn [nth_error]. repeat split; auto.
    intros k r' Hk Hnk. destruct k as [|k]; cbn [nth_error] in Hnk.
    + inversion Hnk; subst; auto.
    + apply (Hmin k r'); auto. lia.
Qed.

Lemma first_root_none rs p : forall i, first_root_from i rs p = None -> forall r, In r rs -> is_prefix_of r p = false.
Proof.
  induction rs as [|r rs IH]; cbn [first_root_from]; intros i H r0 Hr; [destruct Hr|].
  destruct (is_prefix_of r p) eqn:E; [discriminate|].
  destruct Hr as [<-|Hr]; auto. eapply IH; eauto.
Qed.

Lemma no_root_spec rs f :
  no_root rs f = negb (existsb (fun i => in_root rs i f) (seq 0 (length rs))).
Proof.
  unfold no_root, in_root. destruct (first_root rs f) as [j|] eqn:E.
  - symmetry. apply negb_false_iff. apply existsb_exists. exists j. split; [|apply Nat.eqb_refl].
    apply in_seq. apply first_root_bound in E. lia.
  - symmetry. apply negb_true_iff. apply not_true_iff_false. intros H. apply existsb_exists in H.
    destruct H as (i & _ & H). discriminate.
Qed.

Lemma in_root_disjoint rs f i j : in_root rs i f = true -> in_root rs j f = true -> i = j.
Proof.
  unfold in_root. destruct (first_root rs f); [|discriminate]. intros H1 H2.
  apply Nat.eqb_eq in H1, H2. congruence.
Qed.

(* ------------------------------------------------------------------ subgroups: partition *)
Definition prefix_groups (rs : list path) (fs : list file) : list (list file) :=
  map (fun i => filter (in_root rs i) fs) (seq 0 (length rs)).
Definition other_groups (rs : list path) (byid : bool) (fs : list file) : list (list file) :=
  let rest := filter (no_root rs) fs in
  if byid then classes same_id rest else map (fun f => [f]) rest.

Lemma subgroups_unfold rs b fs : subgroups rs b fs = filter nonempty (prefix_groups rs fs ++ other_groups rs b fs).
Proof. reflexivity. Qed.

Lemma concat_singletons {A} (l : list A) : concat (map (fun x => [x]) l) = l.
Proof. induction l as [|x l IH]; cbn [map concat app]; congruence. Qed.

Lemma other_groups_perm rs b fs : Permutation (concat (other_groups rs b fs)) (filter (no_root rs) fs).
Proof.
  unfold other_groups. destruct b.
  - apply classes_perm; [apply same_id_refl|apply same_id_sym|apply same_id_trans].
  - rewrite concat_singletons. auto.
Qed.

Lemma subgroups_perm rs b fs : Permutation (concat (subgroups rs b fs)) fs.
Proof.
  rewrite subgroups_unfold, concat_filter_nonempty, concat_app.
  rewrite other_groups_perm.
  erewrite (filter_ext_in' (no_root rs)); [|intros x _; apply no_root_spec].
  apply partition_perm; [|apply seq_NoDup].
  intros x i j _ _ _. apply in_root_disjoint.
Qed.

Lemma subgroups_in rs b fs f : In f (concat (subgroups rs b fs)) <-> In f fs.
Proof. split; apply Permutation_in; [|symmetry]; apply subgroups_perm. Qed.

(* ------------------------------------------------------------------ subgroups: counting *)
Lemma filter_nonempty_app {A} (a b : list (list A)) :
  length (filter nonempty (a ++ b)) = (length (filter nonempty a) + length (filter nonempty b))%nat.
Proof. rewrite filter_app, app_length. auto. Qed.

Lemma filter_nonempty_all {A} (l : list (list A)) : (forall x, In x l -> x <> []) -> filter nonempty l = l.
Proof.
  intros H. apply filter_all_true. intros x Hx. specialize (H x Hx). destruct x; [congruence|reflexivity].
Qed.

Lemma nonempty_filter_existsb {A} (p : A -> bool) l : nonempty (filter p l) = existsb p l.
Proof.
  induction l as [|x l IH]; cbn [filter existsb nonempty]; auto.
  destruct (p x); cbn [nonempty orb]; auto.
Qed.

Lemma prefix_groups_count rs fs :
  length (filter nonempty (prefix_groups rs fs))
  = length (filter (fun i => existsb (in_root rs i) fs) (seq 0 (length rs))).
Proof.
  unfold prefix_groups. generalize (seq 0 (length rs)) as idx.
  induction idx as [|i idx IH]; cbn [map filter]; auto.
  rewrite nonempty_filter_existsb. destruct (existsb (in_root rs i) fs); cbn [length]; auto.
Qed.

Lemma classes_length {A} (eqb : A -> A -> bool) l : length (classes eqb l) = length (uniq_by eqb l).
Proof. unfold classes. apply map_length. Qed.

Lemma classes_nonempty {A} (eqb : A -> A -> bool) (Hr : forall x, eqb x x = true) l c :
  In c (classes eqb l) -> c <> [].
Proof.
  unfold classes. intros H. apply in_map_iff in H. destruct H as (x & <- & Hx).
  apply uniq_by_incl in Hx. intros E.
  assert (Hin : In x (filter (eqb x) l)) by (apply filter_In; auto).
  rewrite E in Hin. destruct Hin.
Qed.

Definition roots_hit (rs : list path) (fs : list file) : nat :=
  length (filter (fun i => existsb (in_root rs i) fs) (seq 0 (length rs))).
Definition rest_count (rs : list path) (byid : bool) (fs : list file) : nat :=
  let rest := filter (no_root rs) fs in
  if byid then length (uniq_by same_id rest) else length rest.

Lemma subgroups_length rs b fs : length (subgroups rs b fs) = (roots_hit rs fs + rest_count rs b fs)%nat.
Proof.
  rewrite subgroups_unfold, filter_nonempty_app, prefix_groups_count. unfold roots_hit, rest_count. f_equal.
  rewrite filter_nonempty_all.
  - unfold other_groups. destruct b; [apply classes_length|apply map_length].
  - unfold other_groups. intros x Hx. destruct b.
    + eapply classes_nonempty; eauto. apply same_id_refl.
    + apply in_map_iff in Hx. destruct Hx as (? & <- & _). discriminate.
Qed.

(* the representatives chosen by uniq_by carry exactly the distinct ids *)
Lemma uniq_ids_NoDup fs : NoDup (map fid (uniq_by same_id fs)).
Proof.
  apply NoDup_map_inj_in.
  - intros x y Hx Hy E.
    pose proof (uniq_by_pairwise same_id fs) as Hp.
    revert Hx Hy. generalize dependent (uniq_by same_id fs). intros l Hp.
    induction Hp as [|z l Hz Hl IH]; intros Hx Hy; [destruct Hx|].
    destruct Hx as [->|Hx], Hy as [->|Hy]; auto.
    + specialize (Hz y Hy). apply same_id_spec in E. congruence.
    + specialize (Hz x Hx). symmetry in E. apply same_id_spec in E. congruence.
  - apply (pairwise_neq_NoDup same_id same_id_refl). apply uniq_by_pairwise.
Qed.

Lemma uniq_ids_spec fs i : In i (map fid (uniq_by same_id fs)) <-> exists f, In f fs /\ fid f = i.
Proof.
  split.
  - intros H. apply in_map_iff in H. destruct H as (f & E & Hf). exists f. split; auto. eapply uniq_by_incl; eauto.
  - intros (f & Hf & E).
    destruct (uniq_by_covers same_id same_id_refl same_id_trans fs f Hf) as (y & Hy & Hyf).
    apply same_id_spec in Hyf. apply in_map_iff. exists y. split; auto. congruence.
Qed.

(* "the number of distinct file ids among fs is k" *)
Definition distinct_ids (fs : list file) (k : nat) : Prop :=
  exists ids, NoDup ids /\ (forall i, In i ids <-> exists f, In f fs /\ fid f = i) /\ length ids = k.

Lemma distinct_ids_uniq fs : distinct_ids fs (length (uniq_by same_id fs)).
Proof.
  exists (map fid (uniq_by same_id fs)). split; [apply uniq_ids_NoDup|]. split; [apply uniq_ids_spec|apply map_length].
Qed.

Lemma distinct_ids_fun fs k k' : distinct_ids fs k -> distinct_ids fs k' -> k = k'.
Proof.
  intros (l & Hn & Hs & <-) (l' & Hn' & Hs' & <-).
  apply Nat.le_antisymm; apply NoDup_incl_length; auto; intros i Hi.
  - apply Hs'. apply Hs. auto.
  - apply Hs. apply Hs'. auto.
Qed.

(* in_root, spelled out: root number i is a component-wise prefix of the path and no earlier root is *)
Lemma in_root_spec rs i f : in_root rs i f = true <->
  exists r, nth_error rs i = Some r /\ is_prefix_of r (fpath f) = true /\
            forall k r', (k < i)%nat -> nth_error rs k = Some r' -> is_prefix_of r' (fpath f) = false.
Proof.
  unfold in_root, first_root. split.
  - destruct (first_root_from 0 rs (fpath f)) as [j|] eqn:E; [|discriminate]. intros H. apply Nat.eqb_eq in H. subst j.
    apply first_root_from_spec in E. rewrite Nat.sub_0_r in E. exact E.
  - intros (r & Hn & Hp & Hmin).
    destruct (first_root_from 0 rs (fpath f)) as [j|] eqn:E.
    + apply Nat.eqb_eq. apply first_root_from_spec in E. rewrite Nat.sub_0_r in E.
      destruct E as (r0 & Hn0 & Hp0 & Hmin0).
      destruct (Nat.lt_trichotomy i j) as [Hlt|[->|Hgt]]; auto.
      * specialize (Hmin0 i r Hlt Hn). congruence.
      * specialize (Hmin j r0 Hgt Hn0). congruence.
    + exfalso. assert (is_prefix_of r (fpath f) = false); [|congruence].
      eapply first_root_none; eauto. eapply nth_error_In; eauto.
Qed.

(* ------------------------------------------------------------------ monotonicity / permutation invariance *)
Lemma filter_length_mono {A} (p q : A -> bool) l : (forall x, In x l -> p x = true -> q x = true) ->
  (length (filter p l) <= length (filter q l))%nat.
Proof.
  induction l as [|x l IH]; cbn [filter length]; intros H; auto.
  assert (IH' := IH (fun y Hy => H y (or_intror Hy))).
  destruct (p x) eqn:E.
  - rewrite (H x (or_introl eq_refl) E). cbn [length]. lia.
  - destruct (q x); cbn [length]; lia.
Qed.

Lemma existsb_incl {A} (p : A -> bool) l l' : incl l l' -> existsb p l = true -> existsb p l' = true.
Proof. intros Hi H. apply existsb_exists in H. destruct H as (x & Hx & Hp). apply existsb_exists. exists x. auto. Qed.

Lemma roots_hit_mono rs fs fs' : incl fs fs' -> (roots_hit rs fs <= roots_hit rs fs')%nat.
Proof. intros Hi. unfold roots_hit. apply filter_length_mono. intros i _. apply existsb_incl; auto. Qed.

Lemma incl_filter {A} (p : A -> bool) l l' : incl l l' -> incl (filter p l) (filter p l').
Proof. intros Hi x Hx. apply filter_In in Hx. apply filter_In. split; [apply Hi|]; tauto. Qed.

Lemma NoDup_filter' {A} (p : A -> bool) l : NoDup l -> NoDup (filter p l).
Proof.
  induction 1 as [|x l Hx Hl IH]; cbn [filter]; [constructor|].
  destruct (p x); auto. constructor; auto. intros H. apply filter_In in H. tauto.
Qed.

Lemma rest_count_mono rs b fs fs' : NoDup fs -> incl fs fs' ->
  (rest_count rs b fs <= rest_count rs b fs')%nat.
Proof.
  intros Hnd Hi. unfold rest_count. destruct b.
  - rewrite <- (map_length fid (uniq_by same_id (filter (no_root rs) fs))).
    rewrite <- (map_length fid (uniq_by same_id (filter (no_root rs) fs'))).
    apply NoDup_incl_length; [apply uniq_ids_NoDup|].
    intros i Hi'. apply uniq_ids_spec in Hi'. destruct Hi' as (f & Hf & E). apply uniq_ids_spec.
    exists f. split; auto. eapply incl_filter; eauto.
  - apply NoDup_incl_length; [apply NoDup_filter'; auto|apply incl_filter; auto].
Qed.

Lemma subgroup_count_mono c fs fs' : NoDup fs -> incl fs fs' ->
  subgroup_count c fs <= subgroup_count c fs'.
Proof.
  intros Hnd Hi. unfold subgroup_count. rewrite !subgroups_length.
  pose proof (roots_hit_mono (roots c) fs fs' Hi). pose proof (rest_count_mono (roots c) (by_id c) fs fs' Hnd Hi). lia.
Qed.

Lemma subgroup_count_perm c fs fs' : NoDup fs -> Permutation fs fs' -> subgroup_count c fs = subgroup_count c fs'.
Proof.
  intros Hnd Hp. apply N.le_antisymm; apply subgroup_count_mono; auto.
  - intros x. apply Permutation_in; auto.
  - eapply Permutation_NoDup; eauto.
  - intros x. apply Permutation_in; symmetry; auto.
Qed.

(* ------------------------------------------------------------------ sort_by_path / sort_by_id keep the members *)
Lemma sort_by_path_perm rs fs : Permutation (sort_by_path rs fs) fs.
Proof.
  unfold sort_by_path. destruct rs as [|r rs].
  - apply isort_perm.
  - rewrite subgroups_perm. apply isort_perm.
Qed.

Lemma sort_by_id_perm fs : Permutation (sort_by_id fs) fs.
Proof. apply isort_perm. Qed.

Lemma sort_by_id_in fs f : In f (sort_by_id fs) <-> In f fs.
Proof. apply isort_in. Qed.
