(* Props_C14.v — property C14: a report is internally consistent in every output format.
   Statements only; proofs are `exact <lemma of ReportProofs>`.  The model (ReportModel.v) is
   applied by the correspondence check to the body the implementation actually printed. *)
From Coq Require Import Permutation Sorted.
From FV Require Import Base ReportModel ReportProofs ReportProofs2.
Open Scope N_scope.

(* Header statistics are sums over exactly the printed groups. *)
Theorem C14_stats_totals : forall flt gs,
  s_groups (stats_of flt gs) = N.of_nat (length gs) /\
  s_files (stats_of flt gs) = fold_right (fun g a => N.of_nat (length (gfiles g)) + a) 0 gs /\
  s_size (stats_of flt gs) = fold_right (fun g a => glen g * N.of_nat (length (gfiles g)) + a) 0 gs /\
  s_mis_files (stats_of flt gs) = fold_right (fun g a => missing_count g flt + a) 0 gs /\
  s_mis_size (stats_of flt gs) = fold_right (fun g a => glen g * missing_count g flt + a) 0 gs.
Proof. exact stats_totals. Qed.
Print Assumptions C14_stats_totals.

(* Redundant files/bytes are those of the sub-groups (replicas as the replication filter counts
   them: hard links of one file are one replica) beyond the first max(rf,1) — for every filter and
   every list of groups.  (Until fix 3bd9c91 the code's fast path counted paths: former finding K8.) *)
Theorem C14_stats_redundant : forall flt gs,
  s_red_files (stats_of flt gs) = fold_right (fun g a => redundant_spec g flt + a) 0 gs /\
  s_red_size (stats_of flt gs) = fold_right (fun g a => glen g * redundant_spec g flt + a) 0 gs.
Proof. exact stats_redundant_spec. Qed.
Print Assumptions C14_stats_redundant.

(* regression example of the former K8: a,b hard links + copy c, rf 1: one redundant file *)
Definition k8_group : group :=
  mkGroup 4 [1;2;3;4;5;6;7;8;9;10;11;12;13;14;15;16]
          [mkFile [[47];[97]] (1,1); mkFile [[47];[98]] (1,1); mkFile [[47];[99]] (1,2)].
Example C14_K8_regression : redundant_count k8_group (mkFilter (Over 1) [] true) = 1 /\
                            redundant_count k8_group (mkFilter (Over 1) [] false) = 2.
Proof. vm_compute. split; reflexivity. Qed.

(* The missing count is rf minus the replica count, and a group is reported by an
   under-replication filter iff something is missing; by an over-replication filter iff something
   is redundant. *)
Theorem C14_missing : forall g flt rf, repl flt = Under rf ->
  missing_count g flt = rf - subgroup_count g flt /\ (matches_strictly g flt = true <-> 0 < missing_count g flt).
Proof. exact missing_count_spec. Qed.
Print Assumptions C14_missing.

Theorem C14_reported_iff_redundant : forall g flt rf, repl flt = Over rf -> 1 <= rf ->
  (matches_strictly g flt = true <-> 0 < redundant_spec g flt).
Proof. exact redundant_spec_zero_iff. Qed.
Print Assumptions C14_reported_iff_redundant.

(* Groups are ordered by decreasing file size, equal sizes by decreasing 128-bit hash prefix, and
   sorting loses or invents nothing. *)
Theorem C14_sorted : forall flt gs,
  StronglySorted (fun g h => glen h < glen g \/ (glen g = glen h /\ hash_prefix (ghash h) <= hash_prefix (ghash g)))
                 (finalize flt gs)
  /\ Permutation (sort_groups gs) gs.
Proof. intros flt gs. split; [exact (finalize_sorted flt gs) | exact (sort_groups_perm gs)]. Qed.
Print Assumptions C14_sorted.

(* The order of the paths of a group depends only on the SET of paths (any arrival order gives the
   same list) ... *)
Theorem C14_path_order_set_only : forall rs l1 l2,
  NoDup (map fpath l1) -> Permutation l1 l2 -> sort_by_path rs l1 = sort_by_path rs l2.
Proof. exact sort_by_path_set_only. Qed.
Print Assumptions C14_path_order_set_only.

(* ... it is a permutation of the files, in the derived Path order when no roots are isolated ... *)
Theorem C14_paths_sorted : forall rs l,
  Permutation (sort_by_path rs l) l /\ StronglySorted (fun f g => path_leb (fpath f) (fpath g) = true) (sort_by_path [] l).
Proof. intros rs l. split; [exact (sort_by_path_perm rs l) | exact (sort_by_path_sorted_no_roots l)]. Qed.
Print Assumptions C14_paths_sorted.

(* ... and with --isolate the paths of one root stay together, roots in the order given, followed by
   the files under no root grouped by file id; each block in path order. *)
Theorem C14_roots_contiguous : forall r rs l,
  let s := isort file_leb l in
  sort_by_path (r :: rs) l =
    concat (map (fun i => filter (fun f => opt_nat_eqb (root_idx (r :: rs) (fpath f)) i) s) (seq 0 (length (r :: rs))))
    ++ concat (group_by_id (filter (fun f => is_none (root_idx (r :: rs) (fpath f))) s)).
Proof. exact sort_by_path_shape. Qed.
Print Assumptions C14_roots_contiguous.

(* The final ordering step is idempotent: a body is in final order iff it is a fixpoint of
   `finalize` — the predicate the correspondence check evaluates on every real report. *)
Theorem C14_finalize_idempotent : forall flt gs,
  Forall (fun g => NoDup (map fpath (gfiles g))) gs -> finalize flt (finalize flt gs) = finalize flt gs.
Proof. exact finalize_idempotent. Qed.
Print Assumptions C14_finalize_idempotent.

(* Every path listed under a group header is in exactly one sub-group (replica) of the filter: the
   replica sizes add up to the header's count, whatever the roots and the hard-link mode. *)
Theorem C14_subgroups_cover : forall files rs b,
  sum_lengths (subgroups files rs b) = N.of_nat (length files).
Proof. exact subgroups_total. Qed.
Print Assumptions C14_subgroups_cover.

(* The header can never claim more redundant files or bytes than it has files or bytes, and in a
   duplicates report (`Over rf`) at least one file of every listed group is not redundant. *)
Theorem C14_redundant_bounded : forall flt gs,
  s_red_files (stats_of flt gs) <= s_files (stats_of flt gs) /\
  s_red_size (stats_of flt gs) <= s_size (stats_of flt gs).
Proof. exact stats_red_le. Qed.
Print Assumptions C14_redundant_bounded.

Theorem C14_redundant_strict : forall g flt rf, repl flt = Over rf -> gfiles g <> [] ->
  redundant_spec g flt < N.of_nat (length (gfiles g)).
Proof. exact redundant_spec_lt. Qed.
Print Assumptions C14_redundant_strict.

(* Redundant and missing never both appear in one header: they belong to different filters. *)
Theorem C14_redundant_missing_exclusive : forall flt gs,
  match repl flt with
  | Over _ => s_mis_files (stats_of flt gs) = 0 /\ s_mis_size (stats_of flt gs) = 0
  | Under _ => s_red_files (stats_of flt gs) = 0 /\ s_red_size (stats_of flt gs) = 0
  end.
Proof. exact stats_exclusive. Qed.
Print Assumptions C14_redundant_missing_exclusive.

(* The final ordering step keeps the number of groups, and each group keeps its length, hash and
   set of files (hence its header count). *)
Theorem C14_finalize_keeps_counts : forall flt gs,
  length (finalize flt gs) = length gs /\
  Forall2 (fun g h => glen g = glen h /\ ghash g = ghash h /\ Permutation (gfiles g) (gfiles h))
          (finalize flt gs) (sort_groups gs).
Proof. exact finalize_keeps_counts. Qed.
Print Assumptions C14_finalize_keeps_counts.

(* Non-vacuity: a two-root report in final order; a group outside the K8 class with redundancy. *)
Definition ex_files : list file :=
  [mkFile [[47];[114;50];[120]] (1,5); mkFile [[47];[114;49];[122]] (1,3); mkFile [[47];[114;49];[97]] (1,4); mkFile [[47];[111]] (1,9)].
Example C14_isolate_example :
  map fpath (sort_by_path [[[47];[114;49]]; [[47];[114;50]]] ex_files)
  = [[[47];[114;49];[97]]; [[47];[114;49];[122]]; [[47];[114;50];[120]]; [[47];[111]]].
Proof. vm_compute. reflexivity. Qed.

