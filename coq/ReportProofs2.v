(* ReportProofs2.v — bounds between the header statistics (engine Rp, property C14):
   redundant files/bytes never exceed the totals, the sub-groups of a group account for every
   listed path exactly once, and an over-replication report has no missing files (and vice versa). *)
From Coq Require Import Permutation Sorted.
From FV Require Import Base ReportModel ReportProofs.
Open Scope N_scope.

Lemma sum_lengths_concat (l : list (list file)) : sum_lengths l = N.of_nat (length (concat l)).
Proof.
  unfold sum_lengths. induction l as [|sg l IH]; cbn [fold_right concat]; [reflexivity|].
  rewrite app_length, Nat2N.inj_add, IH. reflexivity.
Qed.

Lemma sum_lengths_skipn_le (k : nat) : forall l : list (list file), sum_lengths (skipn k l) <= sum_lengths l.
Proof.
  induction k as [|k IH]; intros l.
  - cbn [skipn]. lia.
  - destruct l as [|sg l]; [cbn; lia|]. cbn [skipn]. specialize (IH l).
    unfold sum_lengths in *. cbn [fold_right]. lia.
Qed.

(* every listed path is in exactly one sub-group: the sub-group sizes add up to the header count *)
Theorem subgroups_total files rs b : sum_lengths (subgroups files rs b) = N.of_nat (length files).
Proof.
  rewrite sum_lengths_concat. f_equal. apply Permutation_length.
  destruct b; [apply subgroups_perm | apply subgroups_perm_false].
Qed.

Theorem redundant_spec_le g flt : redundant_spec g flt <= file_count g.
Proof.
  unfold redundant_spec, file_count. destruct (repl flt) as [rf|rf]; [lia|].
  rewrite <- (subgroups_total (gfiles g) (roots flt) (by_id flt)). apply sum_lengths_skipn_le.
Qed.

Theorem redundant_count_le g flt : redundant_count g flt <= file_count g.
Proof. rewrite redundant_count_spec. apply redundant_spec_le. Qed.

(* with an over-replication filter at least one replica of every group is not redundant *)
Theorem redundant_spec_lt g flt rf : repl flt = Over rf -> gfiles g <> [] -> redundant_spec g flt < file_count g.
Proof.
  intros E Hne. unfold redundant_spec, file_count. rewrite E.
  rewrite <- (subgroups_total (gfiles g) (roots flt) (by_id flt)).
  set (sgs := subgroups (gfiles g) (roots flt) (by_id flt)).
  assert (Hall : Forall (fun sg : list file => sg <> []) sgs).
  { unfold sgs, subgroups. rewrite Forall_forall. intros sg Hsg. apply filter_In in Hsg as [_ Hsg].
    destruct sg; [discriminate|congruence]. }
  assert (Hpos : 0 < sum_lengths sgs).
  { unfold sgs. rewrite subgroups_total. destruct (gfiles g); [congruence|]. cbn [length]. lia. }
  destruct sgs as [|sg sgs]; [cbn in Hpos; lia|].
  assert (Hk : exists k, N.to_nat (N.max rf 1) = S k).
  { exists (pred (N.to_nat (N.max rf 1))). lia. }
  destruct Hk as [k Hk]. rewrite Hk. cbn [skipn].
  pose proof (sum_lengths_skipn_le k sgs) as Hle.
  inversion Hall as [|x xs Hsg _]; subst.
  unfold sum_lengths in *. cbn [fold_right]. destruct sg; [congruence|]. cbn [length]. lia.
Qed.

Theorem stats_red_le flt gs :
  s_red_files (stats_of flt gs) <= s_files (stats_of flt gs) /\
  s_red_size (stats_of flt gs) <= s_size (stats_of flt gs).
Proof.
  cbn [stats_of s_red_files s_red_size s_files s_size].
  induction gs as [|g gs [IH1 IH2]]; cbn [fold_right]; [lia|].
  pose proof (redundant_count_le g flt) as Hg.
  assert (Hm : glen g * redundant_count g flt <= total_size g).
  { unfold total_size. apply N.mul_le_mono_l. exact Hg. }
  lia.
Qed.

(* the two kinds of filter never both contribute: an over-replication report has no missing files,
   an under-replication report no redundant ones *)
Theorem stats_exclusive flt gs :
  match repl flt with
  | Over _ => s_mis_files (stats_of flt gs) = 0 /\ s_mis_size (stats_of flt gs) = 0
  | Under _ => s_red_files (stats_of flt gs) = 0 /\ s_red_size (stats_of flt gs) = 0
  end.
Proof.
  cbn [stats_of s_red_files s_red_size s_mis_files s_mis_size].
  unfold missing_count, redundant_count.
  destruct (repl flt) as [rf|rf]; induction gs as [|g gs [IH1 IH2]]; cbn [fold_right]; split; lia.
Qed.

(* the final ordering changes neither the number of groups nor any group's length, hash or file count *)
Theorem finalize_keeps_counts flt gs :
  length (finalize flt gs) = length gs /\
  Forall2 (fun g h => glen g = glen h /\ ghash g = ghash h /\ Permutation (gfiles g) (gfiles h))
          (finalize flt gs) (sort_groups gs).
Proof.
  unfold finalize. split.
  - rewrite map_length. apply Permutation_length, sort_groups_perm.
  - induction (sort_groups gs) as [|g l IH]; cbn [map]; constructor; auto.
    cbn. repeat split. apply sort_by_path_perm.
Qed.
