(* Props_C19.v — property C19: the task/open-file semaphore is safe and live under all
   interleavings.  Statements only; every proof is `exact <lemma of SemProofs>`.
   Quantification: any number of threads n, any initial permit count, any finite sequence of
   steps (reachable), every scheduling / notify-victim / spurious wake-up choice (labels). *)
From FV Require Import Base SemModel SemProofs.
Open Scope Z_scope.

(* Safety: permits are conserved; with a non-negative permit count the counter never goes
   negative and never more guards exist than permits. *)
Theorem C19_safety : forall (permits : Z) (n : nat) (s : st), reachable permits n s ->
  count s + holders s + cnt isPreInc (pcs s) = permits /\
  (0 <= permits -> 0 <= count s /\ holders s <= permits).
Proof. exact sem_safety. Qed.
Print Assumptions C19_safety.

(* The counter is only touched inside the mutex: at most one thread is in a critical section. *)
Theorem C19_mutual_exclusion : forall permits n s t u pt pu, reachable permits n s ->
  nth_error (pcs s) t = Some pt -> holdsMutex pt = true ->
  nth_error (pcs s) u = Some pu -> holdsMutex pu = true -> t = u /\ mutex s = Some t.
Proof. exact sem_mutual_exclusion. Qed.
Print Assumptions C19_mutual_exclusion.

(* No lost wake-up, invariant form. *)
Theorem C19_no_lost_wakeup : forall permits n s, reachable permits n s ->
  sleepers s > 0 -> Z.max (count s) 0 <= cnt isNot (pcs s) + cnt isK (pcs s).
Proof. exact sem_no_lost_wakeup. Qed.
Print Assumptions C19_no_lost_wakeup.

(* No lost wake-up, progress form: a free permit while somebody sleeps always leaves an enabled
   internal step (not a new operation, not a spurious wake-up). *)
Theorem C19_wakeup_progress : forall permits n s, reachable permits n s ->
  count s > 0 -> sleepers s > 0 -> exists s', istep s s'.
Proof. exact sem_wakeup_progress. Qed.
Print Assumptions C19_wakeup_progress.

(* Internal steps cannot go on forever, whatever the schedule ... *)
Theorem C19_internal_terminates : forall s, Acc (fun s' s => istep s s') s.
Proof. exact sem_internal_terminates. Qed.
Print Assumptions C19_internal_terminates.

(* ... and where they stop every thread is idle or asleep, and nobody sleeps while a permit is free:
   every waiting acquirer proceeds once a permit is released. *)
Theorem C19_settled : forall permits n s, reachable permits n s -> (forall s', ~ istep s s') ->
  (forall t q, nth_error (pcs s) t = Some q -> q = Idle \/ q = Sleep) /\
  (sleepers s > 0 -> count s <= 0).
Proof. exact sem_settled. Qed.
Print Assumptions C19_settled.

(* After all guards are dropped the full permit count is available again. *)
Theorem C19_restored : forall permits n s, reachable permits n s ->
  all_idle s -> holders s = 0 -> count s = permits.
Proof. exact sem_restored. Qed.
Print Assumptions C19_restored.

(* Tie to the trace validator used by the correspondence check: every accepted implementation
   trace is a path of the model, so the theorems above speak about the state it reaches. *)
Theorem C19_validated_traces_are_model_paths : forall permits n es s i s', reachable permits n s ->
  validate s es i = (None, s') -> reachable permits n s'.
Proof. exact validate_reachable. Qed.
Print Assumptions C19_validated_traces_are_model_paths.

(* Non-vacuity: a reachable state with a sleeper and a free permit exists (premises of
   C19_wakeup_progress), reached by: t1 acquires; t0 tries and sleeps; t1 releases up to the
   increment.  And one in which all threads are idle again with the permit restored. *)
Definition ex_trace : list label :=
  [LStartA 1; LLockA 1; LTake 1; LUnlockA 1; LStartA 0; LLockA 0; LWait 0; LStartR 1; LLockR 1; LInc 1]%nat.
Example C19_premises_inhabited :
  exists s, fire_all (init 1 2) ex_trace = Some s /\ count s > 0 /\ sleepers s > 0.
Proof. eexists. split; [vm_compute; reflexivity|]. vm_compute. split; reflexivity. Qed.
Example C19_restored_inhabited :
  exists s, fire_all (init 1 2) (ex_trace ++ [LNotify 1 (Some 0); LRelock 0; LTake 0; LUnlockA 0;
                                            LStartR 0; LLockR 0; LInc 0; LNotify 0 None])%nat = Some s
            /\ count s = 1 /\ holders s = 0.
Proof. eexists. split; [vm_compute; reflexivity|]. vm_compute. split; reflexivity. Qed.
