(* Pins_C20.v — the statements of Props_C20.v, pinned. *)
From FV Require Import Base FsModel AtomicModel AtomicProofs4 AtomicProofs6 Props_C20.
Open Scope N_scope.
Check C20_locked_untouched : forall (c : fcmd) (s : fs) (o : oracle) (i : nat) (i0 : N),
  norm (victim c) = victim c -> names s (victim c) = Some (NFile i0) -> locks s i0 = true ->
  not_unsupported o i -> not_unsupported o (S i) ->
  let r := run o i (prog_of true c) s in
  ofs r = s /\ ores r = IErr /\ owarn r = 0%nat /\ (oidx r = S i \/ oidx r = S (S i)).
Check C20_others_unaffected : forall (c : fcmd) (rest : list fcmd) (s : fs) (o : oracle) (i : nat) (i0 : N),
  norm (victim c) = victim c -> names s (victim c) = Some (NFile i0) -> locks s i0 = true ->
  not_unsupported o i -> not_unsupported o (S i) ->
  exists j, (j = S i \/ j = S (S i)) /\
    let t := run_script true o i (c :: rest) s in
    let t' := run_script true o j rest s in
    sfs t = sfs t' /\ sresults t = IErr :: sresults t' /\ processed_count t = processed_count t' /\
    swarn t = S (swarn t') /\ sidx t = sidx t'.
Check C20_no_lock_flag : forall (c : fcmd) (o : oracle) (i : nat) (s : fs) (l : N -> bool),
  let r := run o i (prog_of false c) s in let r' := run o i (prog_of false c) (set_locks s l) in
  ofs r' = set_locks (ofs r) l /\ ores r' = ores r /\ oidx r' = oidx r /\ owarn r' = owarn r /\ ofaults r' = ofaults r.
Check C20_all_locked_script : forall (o : oracle), (forall k, not_unsupported o k) ->
  forall (cs : list fcmd) (s : fs), Forall (locked_victim s) cs ->
  forall i, let t := run_script true o i cs s in
    sfs t = s /\ sresults t = repeat IErr (length cs) /\ processed_count t = 0%nat /\ swarn t = length cs.
