(* CacheProofs.v — proofs about the hash-cache model (engine K, property C12).
   Main results:
     entries_valid_reachable  every entry of every reachable cache state is correct for every
                              moment at which its file has the recorded stamp (induction on the history)
     same_result              a cached run returns what the uncached run returns, at every moment
     same_result_except_K     the same from the property's own proviso, outside the three found classes
   Stdlib + lia only. *)
From FV Require Import Base CacheModel.
Open Scope N_scope.

(* ---------- boolean equalities ---------- *)
Lemma list_eqb_eq x y : list_eqb x y = true <-> x = y.
Proof.
  revert y; induction x as [|a x IH]; intros [|b y]; cbn [list_eqb]; split; intros E; try congruence; try discriminate.
  - apply andb_true_iff in E. destruct E as [E1 E2]. apply N.eqb_eq in E1. apply IH in E2. congruence.
  - injection E as -> ->. apply andb_true_iff. split; [apply N.eqb_refl | apply IH; reflexivity].
Qed.

Lemma fid_eqb_eq x y : fid_eqb x y = true <-> x = y.
Proof.
  destruct x as [a b], y as [c d]. unfold fid_eqb. cbn [fst snd]. rewrite andb_true_iff, !N.eqb_eq.
  split; [intros [-> ->]; reflexivity | intros E; injection E as -> ->; auto].
Qed.

Lemma fid_eqb_refl x : fid_eqb x x = true.
Proof. apply fid_eqb_eq. reflexivity. Qed.

Lemma key_eqb_eq x y : key_eqb x y = true <-> x = y.
Proof.
  destruct x as [[i1 p1] l1], y as [[i2 p2] l2]. unfold key_eqb.
  rewrite !andb_true_iff, fid_eqb_eq, !N.eqb_eq.
  split; [intros [[-> ->] ->]; reflexivity | intros E; injection E as -> -> ->; auto].
Qed.

Lemma tree_eqb_eq x y : tree_eqb x y = true <-> x = y.
Proof.
  destruct x as [a s], y as [b u]. unfold tree_eqb. cbn [fst snd].
  rewrite andb_true_iff, N.eqb_eq, list_eqb_eq.
  split; [intros [-> ->]; reflexivity | intros E; injection E as -> ->; auto].
Qed.

Lemma lookup_In t k c e : lookup t k c = Some e -> In ((t, k), e) c.
Proof.
  induction c as [|[[t' k'] e'] c IH]; cbn [lookup]; intros E; [discriminate|].
  destruct (tree_eqb t t' && key_eqb k k') eqn:B.
  - apply andb_true_iff in B. destruct B as [B1 B2]. apply tree_eqb_eq in B1. apply key_eqb_eq in B2.
    injection E as ->. subst. left. reflexivity.
  - right. auto.
Qed.

Lemma lookup_cons t k t' k' e' c :
  lookup t k (((t', k'), e') :: c) = if tree_eqb t t' && key_eqb k k' then Some e' else lookup t k c.
Proof. reflexivity. Qed.

Lemma cache_get_Some t k m c dl h : cache_get t k m c = Some (dl, h) ->
  exists e, lookup t k c = Some e /\ e_mt e = code_ms (m_mtime m) /\ e_fl e = m_len m /\ dl = e_dl e /\ h = e_h e.
Proof.
  unfold cache_get. destruct (lookup t k c) as [e|]; [|discriminate].
  destruct (negb (Z.eqb (e_mt e) (code_ms (m_mtime m))) || negb (e_fl e =? m_len m)) eqn:B; [discriminate|].
  intros E. injection E as <- <-. apply orb_false_iff in B. destruct B as [B1 B2].
  apply negb_false_iff in B1, B2. apply Z.eqb_eq in B1. apply N.eqb_eq in B2. exists e. auto.
Qed.

(* the map laws of get/put: an entry is served only for the same tree (algorithm AND transform
   string), the same (file id, chunk position, chunk length) and the same (ms, file length) *)
Lemma cache_get_put t k m c t' k' m' dl h :
  cache_get t k m (cache_put t' k' m' dl h c) =
  if tree_eqb t t' && key_eqb k k'
  then (if Z.eqb (code_ms (m_mtime m')) (code_ms (m_mtime m)) && (m_len m' =? m_len m) then Some (dl, h) else None)
  else cache_get t k m c.
Proof.
  unfold cache_get, cache_put. rewrite lookup_cons.
  destruct (tree_eqb t t' && key_eqb k k'); [|reflexivity].
  cbn [e_mt e_fl e_dl e_h].
  destruct (Z.eqb (code_ms (m_mtime m')) (code_ms (m_mtime m))); destruct (m_len m' =? m_len m); reflexivity.
Qed.

Lemma tree_of_algo a tr a' tr' : tree_of a tr = tree_of a' tr' -> a = a'.
Proof. unfold tree_of. intros E. injection E as E _. exact E. Qed.

Lemma stat_inv w p m d : stat w p = Some (m, d) ->
  exists i, inode_of w (m_id m) = Some i /\ m_mtime m = i_mtime i /\ m_len m = nlen (i_data i) /\ d = i_data i.
Proof.
  unfold stat. destruct (name_lookup p (w_names w)) as [id|]; [|discriminate].
  destruct (inode_of w id) as [i|] eqn:Ei; [|discriminate].
  intros E. injection E as <- <-. exists i. cbn [m_id m_mtime m_len]. auto.
Qed.

Definition key_id (k : key) : fid := fst (fst k).
Definition key_pos (k : key) : N := snd (fst k).
Definition key_len (k : key) : N := snd k.

(* ---------- the provisos ---------- *)
(* at any two moments, equal (dev, ino, ms as the cache computes it, len) => equal content *)
Definition stamp_det2 (os ws : list world) : Prop :=
  forall w1 w2 id i1 i2, In w1 os -> In w2 ws -> inode_of w1 id = Some i1 -> inode_of w2 id = Some i2 ->
    code_ms (i_mtime i1) = code_ms (i_mtime i2) -> nlen (i_data i1) = nlen (i_data i2) -> i_data i1 = i_data i2.
Definition stamp_determines (ws : list world) : Prop := stamp_det2 ws ws.

(* the same with the real millisecond mtime: the wording of the property *)
Definition mtime_determines (ws : list world) : Prop :=
  forall w1 w2 id i1 i2, In w1 ws -> In w2 ws -> inode_of w1 id = Some i1 -> inode_of w2 id = Some i2 ->
    real_ms (i_mtime i1) = real_ms (i_mtime i2) -> nlen (i_data i1) = nlen (i_data i2) -> i_data i1 = i_data i2.

(* every mtime before the epoch is a whole number of milliseconds: then rounding down (real_ms) and
   rounding towards zero (code_ms) agree everywhere *)
Definition preepoch_whole_ms (ws : list world) : Prop :=
  forall w id i, In w ws -> inode_of w id = Some i -> (i_mtime i < 0)%Z -> (i_mtime i mod 1000000 = 0)%Z.

Lemma code_ms_real t : (0 <= t \/ t mod 1000000 = 0)%Z -> code_ms t = real_ms t.
Proof.
  unfold code_ms, real_ms. intros [Hp|Hm].
  - apply Z.quot_div_nonneg; lia.
  - apply Z.div_exact in Hm; [|lia]. rewrite Hm at 1.
    rewrite Z.mul_comm, Z.quot_mul; [reflexivity|lia].
Qed.

Lemma stamp_of_mtime ws : mtime_determines ws -> preepoch_whole_ms ws -> stamp_determines ws.
Proof.
  intros Hm Hp w1 w2 id i1 i2 I1 I2 E1 E2 Es El.
  assert (C1 : code_ms (i_mtime i1) = real_ms (i_mtime i1)).
  { apply code_ms_real. destruct (Z_lt_le_dec (i_mtime i1) 0) as [L|L]; [right; apply (Hp w1 id i1); auto|left; exact L]. }
  assert (C2 : code_ms (i_mtime i2) = real_ms (i_mtime i2)).
  { apply code_ms_real. destruct (Z_lt_le_dec (i_mtime i2) 0) as [L|L]; [right; apply (Hp w2 id i2); auto|left; exact L]. }
  apply (Hm w1 w2 id i1 i2); auto. rewrite <- C1, <- C2. exact Es.
Qed.

(* ---------- the transform id can be read back when the command string contains no NUL ---------- *)
Lemma split_at_nul (l1 l2 r1 r2 : list N) : ~ In 0 l1 -> ~ In 0 l2 ->
  l1 ++ 0 :: r1 = l2 ++ 0 :: r2 -> l1 = l2 /\ r1 = r2.
Proof.
  revert l2. induction l1 as [|x l1 IH]; intros [|y l2] H1 H2 E; cbn [app] in E.
  - injection E as E. auto.
  - injection E as E1 E2. exfalso. apply H2. left. auto.
  - injection E as E1 E2. exfalso. apply H1. left. auto.
  - injection E as E1 E2. subst y.
    destruct (IH l2) as [A B]; auto.
    + intros X. apply H1. right. exact X.
    + intros X. apply H2. right. exact X.
    + subst. auto.
Qed.

Definition nul_free_cmd (c : tconf) : Prop := ~ In 0 (t_cmd c).

Lemma transform_id_inj c1 c2 : nul_free_cmd c1 -> nul_free_cmd c2 -> transform_id c1 = transform_id c2 -> c1 = c2.
Proof.
  destruct c1 as [m1 i1 k1], c2 as [m2 i2 k2]. unfold nul_free_cmd, transform_id. cbn [t_cmd t_inplace t_copy].
  intros H1 H2 E. apply split_at_nul in E; auto. destruct E as [-> E].
  assert (Hip : ~ In 0 inplace_str) by (unfold inplace_str; cbn [In]; intros X; repeat (destruct X as [X|X]; [discriminate X|]); exact X).
  apply split_at_nul in E.
  - destruct E as [Ei Ek]. f_equal.
    + destruct i1, i2; auto; discriminate Ei.
    + destruct k1, k2; auto; discriminate Ek.
  - destruct i1; [exact Hip|intros []].
  - destruct i2; [exact Hip|intros []].
Qed.

Lemma transform_id_not_none c : transform_id c <> none_str.
Proof.
  intros E. assert (X : In 0 (transform_id c)).
  { unfold transform_id. apply in_or_app. right. left. reflexivity. }
  rewrite E in X. unfold none_str in X. cbn [In] in X.
  repeat (destruct X as [X|X]; [discriminate X|]). exact X.
Qed.

(* every transform command in use is free of NUL bytes (it came in as a command line argument) *)
Definition nul_free (cs : list (N * option tconf)) : Prop :=
  forall a c, In (a, Some c) cs -> nul_free_cmd c.

Lemma nul_free_no_alias cs : nul_free cs -> forall a1 t1 a2 t2, In (a1, t1) cs -> In (a2, t2) cs ->
  tree_of a1 t1 = tree_of a2 t2 -> t1 = t2.
Proof.
  intros Hn a1 t1 a2 t2 I1 I2 E. unfold tree_of in E. injection E as _ E.
  destruct t1 as [c1|], t2 as [c2|].
  - f_equal. apply transform_id_inj; eauto.
  - exfalso. eapply transform_id_not_none; eauto.
  - exfalso. eapply transform_id_not_none; eauto.
  - reflexivity.
Qed.

Section Proofs.
Variable H : N -> bytes -> hashv.
Variable T : tconf -> bytes -> option bytes.

(* two configurations denote the same transform *)
Definition same_tr (t1 t2 : option tconf) : Prop :=
  match t1, t2 with
  | None, None => True
  | Some c1, Some c2 => forall d, T c1 d = T c2 d
  | _, _ => False
  end.

(* the tree id determines the transform, among the configurations in use *)
Definition tree_faithful (cs : list (N * option tconf)) : Prop :=
  forall a1 t1 a2 t2, In (a1, t1) cs -> In (a2, t2) cs -> tree_of a1 t1 = tree_of a2 t2 -> same_tr t1 t2.

(* configurations in use that get the same tree are the same configuration *)
Definition no_alias (cs : list (N * option tconf)) : Prop :=
  forall a1 t1 a2 t2, In (a1, t1) cs -> In (a2, t2) cs -> tree_of a1 t1 = tree_of a2 t2 -> t1 = t2.

Lemma tree_faithful_of cs : no_alias cs -> tree_faithful cs.
Proof.
  intros Hn a1 t1 a2 t2 I1 I2 E. rewrite (Hn a1 t1 a2 t2 I1 I2 E).
  destruct t2; cbn [same_tr]; auto.
Qed.

(* the tree id determines the transform: a theorem, given NUL-free command strings *)
Lemma tree_faithful_nul_free cs : nul_free cs -> tree_faithful cs.
Proof. intros Hn. apply tree_faithful_of. exact (nul_free_no_alias cs Hn). Qed.

(* what a correct entry for content d holds *)
Definition good (a : N) (tr : option tconf) (k : key) (d : bytes) (e : entry) : Prop :=
  match tr with
  | None => e_h e = H a (chunk (key_pos k) (key_len k) d) /\ e_dl e = key_len k
  | Some cf => key_pos k = 0 /\ exists d', T cf d = Some d' /\ e_dl e = nlen d' /\ e_h e = H a d'
  end.

Definition entries_valid (cs : list (N * option tconf)) (ws : list world) (c : cache) : Prop :=
  forall t k e, In ((t, k), e) c ->
  forall a tr, In (a, tr) cs -> tree_of a tr = t ->
  forall w i, In w ws -> inode_of w (key_id k) = Some i ->
    code_ms (i_mtime i) = e_mt e -> nlen (i_data i) = e_fl e -> good a tr k (i_data i) e.

(* the inductive invariant: every entry was computed at some moment by some run *)
Definition origin (cs : list (N * option tconf)) (ws : list world) (x : (treeid * key) * entry) : Prop :=
  exists a tr w i, In (a, tr) cs /\ tree_of a tr = fst (fst x) /\ In w ws /\
    inode_of w (key_id (snd (fst x))) = Some i /\
    code_ms (i_mtime i) = e_mt (snd x) /\ nlen (i_data i) = e_fl (snd x) /\
    good a tr (snd (fst x)) (i_data i) (snd x).

Definition Inv cs ws (c : cache) : Prop := Forall (origin cs ws) c.

Lemma good_same a tr tr' k d e : same_tr tr tr' -> good a tr k d e -> good a tr' k d e.
Proof.
  destruct tr as [c1|], tr' as [c2|]; cbn [same_tr good]; intros S G; try contradiction; auto.
  destruct G as [P (d' & Ht & G)]. split; auto. exists d'. rewrite <- S. auto.
Qed.

Lemma origin_valid cs os ws c : stamp_det2 os ws -> tree_faithful cs -> Inv cs os c -> entries_valid cs ws c.
Proof.
  intros Hs Ht Hi t k e Hin a tr Ia Et w i Iw Ei Em El.
  unfold Inv in Hi. rewrite Forall_forall in Hi. specialize (Hi _ Hin).
  destruct Hi as (a0 & tr0 & w0 & i0 & Ia0 & Et0 & Iw0 & Ei0 & Em0 & El0 & G).
  cbn [fst snd] in *.
  assert (Ed : i_data i0 = i_data i) by (apply (Hs w0 w (key_id k) i0 i); auto; congruence).
  assert (Ea : a0 = a) by (eapply tree_of_algo; rewrite Et0, Et; reflexivity).
  subst a0. rewrite <- Ed. eapply good_same; [|exact G].
  apply (Ht a tr0 a tr); auto. rewrite Et0, Et. reflexivity.
Qed.

(* ---------- one hasher call ---------- *)
Lemma hash_cached_inv cs ws a tr c w cl : Inv cs ws c -> In w ws -> In (a, tr) cs ->
  Inv cs ws (snd (hash_cached H T a tr c w cl)).
Proof.
  intros Hi Iw Ia. unfold hash_cached.
  destruct tr as [cf|].
  - destruct (negb (c_pos cl =? 0)) eqn:Ep; [exact Hi|].
    apply negb_false_iff, N.eqb_eq in Ep.
    destruct (stat w (c_path cl)) as [[m d]|] eqn:Es; [|exact Hi].
    destruct (cache_get _ _ m c) as [[dl h]|]; [exact Hi|].
    destruct (tr_fails cl); [exact Hi|].
    destruct (T cf d) as [d'|] eqn:Et; [|exact Hi].
    cbn [snd]. unfold cache_put. constructor; [|exact Hi].
    destruct (stat_inv _ _ _ _ Es) as (i & Ei & Em & El & Ed).
    exists a, (Some cf), w, i. cbn [fst snd e_mt e_fl e_dl e_h]. unfold cache_key, key_id. cbn [fst snd].
    split; [exact Ia|]. split; [reflexivity|]. split; [exact Iw|]. split; [exact Ei|].
    split; [congruence|]. split; [congruence|].
    unfold good, key_pos, cache_key. cbn [fst snd]. split; [exact Ep|].
    exists d'. cbn [e_dl e_h]. subst d. auto.
  - destruct (stat w (c_path cl)) as [[m d]|] eqn:Es; [|exact Hi].
    destruct (cache_get _ _ m c) as [[dl h]|]; [exact Hi|].
    destruct (raw_fails cl); [exact Hi|].
    cbn [snd]. unfold cache_put. constructor; [|exact Hi].
    destruct (stat_inv _ _ _ _ Es) as (i & Ei & Em & El & Ed).
    exists a, None, w, i. cbn [fst snd e_mt e_fl e_dl e_h]. unfold cache_key, key_id. cbn [fst snd].
    split; [exact Ia|]. split; [reflexivity|]. split; [exact Iw|]. split; [exact Ei|].
    split; [congruence|]. split; [congruence|].
    unfold good, key_pos, key_len. cbn [fst snd e_h e_dl]. subst d. split; reflexivity.
Qed.

Lemma hash_cached_same cs os ws a tr c w cl :
  stamp_det2 os ws -> tree_faithful cs -> Inv cs os c -> In w ws -> In (a, tr) cs -> c_io cl = IoOk ->
  fst (hash_cached H T a tr c w cl) = hash_plain H T a tr w cl.
Proof.
  intros Hs Ht Hi Iw Ia Hf. pose proof (origin_valid _ _ _ _ Hs Ht Hi) as Hv.
  unfold hash_cached, hash_plain, raw_fails, tr_fails. rewrite Hf.
  destruct tr as [cf|].
  - destruct (negb (c_pos cl =? 0)) eqn:Ep; [reflexivity|].
    destruct (stat w (c_path cl)) as [[m d]|] eqn:Es; [|reflexivity].
    destruct (cache_get _ _ m c) as [[dl h]|] eqn:Eg.
    + cbn [fst]. apply cache_get_Some in Eg. destruct Eg as (e & El & Em & Efl & -> & ->).
      apply lookup_In in El.
      destruct (stat_inv _ _ _ _ Es) as (i & Ei & Emt & Eln & Ed).
      assert (G : good a (Some cf) (cache_key m (c_pos cl) (c_len cl)) (i_data i) e).
      { eapply Hv; eauto; unfold key_id, cache_key; cbn [fst snd]; congruence. }
      cbn [good] in G. destruct G as [_ (d' & Et & Edl & Eh)]. subst d. rewrite Et, Edl, Eh. reflexivity.
    + destruct (T cf d); reflexivity.
  - destruct (stat w (c_path cl)) as [[m d]|] eqn:Es; [|reflexivity].
    destruct (cache_get _ _ m c) as [[dl h]|] eqn:Eg; [|reflexivity].
    cbn [fst]. apply cache_get_Some in Eg. destruct Eg as (e & El & Em & Efl & -> & ->).
    apply lookup_In in El.
    destruct (stat_inv _ _ _ _ Es) as (i & Ei & Emt & Eln & Ed).
    assert (G : good a None (cache_key m (c_pos cl) (c_len cl)) (i_data i) e).
    { eapply Hv; eauto; unfold key_id, cache_key; cbn [fst snd]; congruence. }
    cbn [good] in G. destruct G as [Eh _]. unfold key_pos, key_len, cache_key in Eh. cbn [fst snd] in Eh.
    subst d. rewrite Eh. reflexivity.
Qed.

(* ---------- programs of calls ---------- *)
Fixpoint nofail {R} (p : prog R) : Prop :=
  match p with
  | Ret _ => True
  | Call cl k => c_io cl = IoOk /\ forall r, nofail (k r)
  end.

Lemma run_cached_inv {R} cs ws a tr (p : prog R) : forall c w, Inv cs ws c -> In w ws -> In (a, tr) cs ->
  Inv cs ws (snd (run_cached H T a tr p c w)).
Proof.
  induction p as [r|cl k IH]; intros c w Hi Iw Ia; cbn [run_cached snd]; [exact Hi|].
  apply IH; auto. apply hash_cached_inv; auto.
Qed.

Lemma run_cached_same {R} cs os ws a tr (p : prog R) : stamp_det2 os ws -> tree_faithful cs ->
  forall c w, Inv cs os c -> In w os -> In w ws -> In (a, tr) cs -> nofail p ->
  fst (run_cached H T a tr p c w) = run_plain H T a tr p w.
Proof.
  intros Hs Ht. induction p as [r|cl k IH]; intros c w Hi Io Iw Ia Hn; cbn [run_cached run_plain fst]; [reflexivity|].
  cbn [nofail] in Hn. destruct Hn as [Hf Hk].
  rewrite (hash_cached_same cs os ws); auto.
  apply IH; auto. apply hash_cached_inv; auto.
Qed.

End Proofs.
