(* Pins_C14.v — the statements of Props_C14.v, pinned. *)
From Coq Require Import Permutation Sorted.
From FV Require Import Base ReportModel ReportProofs ReportProofs2 Props_C14.
Open Scope N_scope.
Check C14_stats_totals : forall flt gs,
  s_groups (stats_of flt gs) = N.of_nat (length gs) /\
  s_files (stats_of flt gs) = fold_right (fun g a => N.of_nat (length (gfiles g)) + a) 0 gs /\
  s_size (stats_of flt gs) = fold_right (fun g a => glen g * N.of_nat (length (gfiles g)) + a) 0 gs /\
  s_mis_files (stats_of flt gs) = fold_right (fun g a => missing_count g flt + a) 0 gs /\
  s_mis_size (stats_of flt gs) = fold_right (fun g a => glen g * missing_count g flt + a) 0 gs.
Check C14_stats_redundant : forall flt gs,
  s_red_files (stats_of flt gs) = fold_right (fun g a => redundant_spec g flt + a) 0 gs /\
  s_red_size (stats_of flt gs) = fold_right (fun g a => glen g * redundant_spec g flt + a) 0 gs.
Check C14_missing : forall g flt rf, repl flt = Under rf ->
  missing_count g flt = rf - subgroup_count g flt /\ (matches_strictly g flt = true <-> 0 < missing_count g flt).
Check C14_reported_iff_redundant : forall g flt rf, repl flt = Over rf -> 1 <= rf ->
  (matches_strictly g flt = true <-> 0 < redundant_spec g flt).
Check C14_sorted : forall flt gs,
  StronglySorted (fun g h => glen h < glen g \/ (glen g = glen h /\ hash_prefix (ghash h) <= hash_prefix (ghash g)))
                 (finalize flt gs)
  /\ Permutation (sort_groups gs) gs.
Check C14_path_order_set_only : forall rs l1 l2,
  NoDup (map fpath l1) -> Permutation l1 l2 -> sort_by_path rs l1 = sort_by_path rs l2.
Check C14_paths_sorted : forall rs l,
  Permutation (sort_by_path rs l) l /\ StronglySorted (fun f g => path_leb (fpath f) (fpath g) = true) (sort_by_path [] l).
Check C14_roots_contiguous : forall r rs l,
  let s := isort file_leb l in
  sort_by_path (r :: rs) l =
    concat (map (fun i => filter (fun f => opt_nat_eqb (root_idx (r :: rs) (fpath f)) i) s) (seq 0 (length (r :: rs))))
    ++ concat (group_by_id (filter (fun f => is_none (root_idx (r :: rs) (fpath f))) s)).
Check C14_finalize_idempotent : forall flt gs,
  Forall (fun g => NoDup (map fpath (gfiles g))) gs -> finalize flt (finalize flt gs) = finalize flt gs.
Check C14_subgroups_cover : forall files rs b,
  sum_lengths (subgroups files rs b) = N.of_nat (length files).
Check C14_redundant_bounded : forall flt gs,
  s_red_files (stats_of flt gs) <= s_files (stats_of flt gs) /\
  s_red_size (stats_of flt gs) <= s_size (stats_of flt gs).
Check C14_redundant_strict : forall g flt rf, repl flt = Over rf -> gfiles g <> [] ->
  redundant_spec g flt < N.of_nat (length (gfiles g)).
Check C14_redundant_missing_exclusive : forall flt gs,
  match repl flt with
  | Over _ => s_mis_files (stats_of flt gs) = 0 /\ s_mis_size (stats_of flt gs) = 0
  | Under _ => s_red_files (stats_of flt gs) = 0 /\ s_red_size (stats_of flt gs) = 0
  end.
Check C14_finalize_keeps_counts : forall flt gs,
  length (finalize flt gs) = length gs /\
  Forall2 (fun g h => glen g = glen h /\ ghash g = ghash h /\ Permutation (gfiles g) (gfiles h))
          (finalize flt gs) (sort_groups gs).
