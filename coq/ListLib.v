(* ListLib.v — generic list functions used by the grouping model (engine G): stable insertion
   sort, ordered grouping (the observable behaviour of GroupMap = BTreeMap<K, SmallVec<V>>),
   consecutive runs (itertools group_by / dedup_by), first-occurrence de-duplication (itertools
   unique_by) and classes by first appearance (IndexMap<K, Vec<V>>).
   Definitions first (they are extracted); lemmas below.  Owned by engine G. *)
From Coq Require Import List NArith Bool Lia Permutation Arith.
Import ListNotations.

Section Defs.
  Context {A : Type}.

  (* stable insertion sort: [le x y = true] means x may stay before y *)
  Fixpoint insert (le : A -> A -> bool) (x : A) (l : list A) : list A :=
    match l with
    | [] => [x]
    | y :: r => if le x y then x :: y :: r else y :: insert le x r
    end.
  Definition isort (le : A -> A -> bool) (l : list A) : list A := fold_right (insert le) [] l.

  (* consecutive runs of equivalent elements (itertools group_by on a key, dedup_by) *)
  Fixpoint runs (eqb : A -> A -> bool) (l : list A) : list (list A) :=
    match l with
    | [] => []
    | x :: r => match runs eqb r with
                | (y :: ys) :: rs => if eqb x y then (x :: y :: ys) :: rs else [x] :: (y :: ys) :: rs
                | [] :: rs => [x] :: rs   (* unreachable: runs are never empty *)
                | [] => [[x]]
                end
    end.

  (* keep the first occurrence of every class (itertools unique_by) *)
  Fixpoint uniq_by (eqb : A -> A -> bool) (l : list A) : list A :=
    match l with
    | [] => []
    | x :: r => x :: filter (fun y => negb (eqb x y)) (uniq_by eqb r)
    end.

  (* classes in order of first appearance, members in input order (IndexMap<K, Vec<V>>) *)
  Definition classes (eqb : A -> A -> bool) (l : list A) : list (list A) :=
    map (fun x => filter (eqb x) l) (uniq_by eqb l).
End Defs.

Section GroupBy.
  Context {K V : Type}.
  (* GroupMap: keys ascending w.r.t. [le], every bucket holds the values of that key in insertion
     order *)
  Definition group_by (le : K -> K -> bool) (keqb : K -> K -> bool) (key : V -> K) (l : list V)
    : list (K * list V) :=
    map (fun k => (k, filter (fun v => keqb (key v) k) l)) (isort le (uniq_by keqb (map key l))).
End GroupBy.

(* lexicographic comparison of lists (derived Ord of Vec / Box<[u8]> / CString) *)
Fixpoint lex_cmp {A} (cmp : A -> A -> comparison) (a b : list A) : comparison :=
  match a, b with
  | [], [] => Eq
  | [], _ => Lt
  | _, [] => Gt
  | x :: a', y :: b' => match cmp x y with Eq => lex_cmp cmp a' b' | c => c end
  end.
Definition cmp_leb (c : comparison) : bool := match c with Gt => false | _ => true end.
Definition cmp_eqb (c : comparison) : bool := match c with Eq => true | _ => false end.

(* ------------------------------------------------------------------------------------------- *)
(* lemmas *)

Section SortLemmas.
  Context {A : Type} (le : A -> A -> bool).

  Lemma insert_perm x l : Permutation (insert le x l) (x :: l).
  Proof.
    induction l as [|y r IH]; cbn [insert]; auto.
    destruct (le x y); auto.
    rewrite IH. apply perm_swap.
  Qed.

  Lemma isort_perm l : Permutation (isort le l) l.
  Proof.
    induction l as [|x r IH]; cbn [isort fold_right]; auto.
    fold (isort le r). rewrite insert_perm. auto.
  Qed.

  Lemma isort_in x l : In x (isort le l) <-> In x l.
  Proof. split; apply Permutation_in; [|symmetry]; apply isort_perm. Qed.

  Lemma isort_length l : length (isort le l) = length l.
  Proof. apply Permutation_length, isort_perm. Qed.
End SortLemmas.

Section FilterLemmas.
  Context {A : Type}.

  Lemma filter_length_le (p : A -> bool) l : length (filter p l) <= length l.
  Proof. induction l as [|x r IH]; cbn [filter length]; auto. destruct (p x); cbn [length]; lia. Qed.

  Lemma filter_perm (p : A -> bool) l l' : Permutation l l' -> Permutation (filter p l) (filter p l').
  Proof.
    induction 1; cbn [filter]; auto.
    - destruct (p x); auto.
    - destruct (p x), (p y); auto. apply perm_swap.
    - etransitivity; eauto.
  Qed.

  Lemma filter_split_perm (p : A -> bool) l :
    Permutation (filter p l ++ filter (fun x => negb (p x)) l) l.
  Proof.
    induction l as [|x r IH]; cbn [filter]; auto.
    destruct (p x); cbn [negb app].
    - constructor. exact IH.
    - apply Permutation_sym. apply Permutation_cons_app. apply Permutation_sym. exact IH.
  Qed.

  Lemma filter_all_true (p : A -> bool) l : (forall x, In x l -> p x = true) -> filter p l = l.
  Proof.
    induction l as [|x r IH]; cbn [filter]; intros H; auto.
    rewrite (H x (or_introl eq_refl)). f_equal. apply IH. intros; apply H; right; auto.
  Qed.

  Lemma filter_all_false (p : A -> bool) l : (forall x, In x l -> p x = false) -> filter p l = [].
  Proof.
    induction l as [|x r IH]; cbn [filter]; intros H; auto.
    rewrite (H x (or_introl eq_refl)). apply IH. intros; apply H; right; auto.
  Qed.

  Lemma filter_filter (p q : A -> bool) l : filter p (filter q l) = filter (fun x => q x && p x) l.
  Proof.
    induction l as [|x r IH]; cbn [filter]; auto.
    destruct (q x); cbn [filter andb]; [destruct (p x)|]; rewrite IH; auto.
  Qed.

  Lemma filter_ext_in' (p q : A -> bool) l : (forall x, In x l -> p x = q x) -> filter p l = filter q l.
  Proof.
    induction l as [|x r IH]; cbn [filter]; intros H; auto.
    rewrite (H x (or_introl eq_refl)). rewrite IH; auto. intros; apply H; right; auto.
  Qed.
End FilterLemmas.

Section UniqLemmas.
  Context {A : Type} (eqb : A -> A -> bool).
  Hypothesis eqb_refl : forall x, eqb x x = true.
  Hypothesis eqb_sym : forall x y, eqb x y = eqb y x.
  Hypothesis eqb_trans : forall x y z, eqb x y = true -> eqb y z = true -> eqb x z = true.

  Lemma uniq_by_incl l x : In x (uniq_by eqb l) -> In x l.
  Proof.
    revert x; induction l as [|y r IH]; cbn [uniq_by]; intros x H; auto.
    destruct H as [->|H]; [left; auto|]. apply filter_In in H. right. apply IH. tauto.
  Qed.

  (* every element has an equivalent representative among the first occurrences *)
  Lemma uniq_by_covers l x : In x l -> exists y, In y (uniq_by eqb l) /\ eqb y x = true.
  Proof.
    induction l as [|z r IH]; cbn [uniq_by]; intros H; [destruct H|].
    destruct H as [->|H].
    - exists x. split; [left; auto|apply eqb_refl].
    - destruct (IH H) as (y & Hy & Hyx).
      destruct (eqb z y) eqn:E.
      + exists z. split; [left; auto|]. eapply eqb_trans; eauto.
      + exists y. split; auto. right. apply filter_In. split; auto. rewrite E. auto.
  Qed.

  (* representatives are pairwise inequivalent *)
  Inductive pairwise_neq : list A -> Prop :=
  | pn_nil : pairwise_neq []
  | pn_cons x l : (forall y, In y l -> eqb x y = false) -> pairwise_neq l -> pairwise_neq (x :: l).

  Lemma pairwise_neq_filter p l : pairwise_neq l -> pairwise_neq (filter p l).
  Proof.
    induction 1 as [|x l Hx Hl IH]; cbn [filter]; [constructor|].
    destruct (p x); auto. constructor; auto. intros y Hy. apply filter_In in Hy. apply Hx; tauto.
  Qed.

  Lemma uniq_by_pairwise l : pairwise_neq (uniq_by eqb l).
  Proof.
    induction l as [|x r IH]; cbn [uniq_by]; constructor.
    - intros y Hy. apply filter_In in Hy. destruct Hy as [_ Hy]. destruct (eqb x y); auto; discriminate.
    - apply pairwise_neq_filter; auto.
  Qed.

  Lemma pairwise_neq_NoDup l : pairwise_neq l -> NoDup l.
  Proof.
    induction 1 as [|x l Hx Hl IH]; constructor; auto.
    intros Hin. specialize (Hx x Hin). rewrite eqb_refl in Hx. discriminate.
  Qed.

  Lemma pairwise_neq_perm l l' : Permutation l l' -> pairwise_neq l -> pairwise_neq l'.
  Proof.
    induction 1 as [|x l l' Hp IH|x y l|l l' l'' H1 IH1 H2 IH2]; intros Hpn; auto.
    - inversion Hpn; subst. constructor; auto. intros y Hy. apply H1. eapply Permutation_in; [symmetry|]; eauto.
    - inversion Hpn as [|? ? Hy Hpn']; subst. inversion Hpn' as [|? ? Hx Hl]; subst.
      constructor; [|constructor; auto].
      + intros z [<-|Hz]; auto. rewrite eqb_sym. apply Hy. left; auto.
      + intros z Hz. apply Hy. right; auto.
  Qed.

  (* partition of a list into the classes of pairwise inequivalent covering representatives *)
  Lemma classes_partition_perm (reps l : list A) :
    pairwise_neq reps ->
    (forall x, In x l -> exists y, In y reps /\ eqb y x = true) ->
    Permutation (concat (map (fun y => filter (eqb y) l) reps)) l.
  Proof.
    revert l. induction reps as [|y reps IH]; intros l Hpn Hcov; cbn [map concat].
    - destruct l as [|x l]; auto. destruct (Hcov x (or_introl eq_refl)) as (? & [] & _).
    - inversion Hpn as [|? ? Hy Hpn']; subst.
      (* members equivalent to y are in no other class *)
      assert (E : map (fun y' => filter (eqb y') l) reps
                  = map (fun y' => filter (eqb y') (filter (fun x => negb (eqb y x)) l)) reps).
      { apply map_ext_in. intros y' Hy'. rewrite filter_filter. apply filter_ext_in'. intros x Hx.
        destruct (eqb y x) eqn:E1; cbn [negb andb]; auto.
        destruct (eqb y' x) eqn:E2; auto. exfalso.
        assert (eqb y y' = true). { apply (eqb_trans y x y'); auto. rewrite eqb_sym; auto. }
        rewrite (Hy y' Hy') in H. discriminate. }
      rewrite E. rewrite IH; auto.
      + apply filter_split_perm.
      + intros x Hx. apply filter_In in Hx. destruct Hx as [Hx Hn].
        destruct (Hcov x Hx) as (y' & [<-|Hy'] & Hyx).
        * rewrite Hyx in Hn. discriminate.
        * exists y'; auto.
  Qed.

  Lemma classes_perm l : Permutation (concat (classes eqb l)) l.
  Proof. apply classes_partition_perm; [apply uniq_by_pairwise|apply uniq_by_covers]. Qed.
End UniqLemmas.

Section GroupByLemmas.
  Context {K V : Type} (le : K -> K -> bool) (keqb : K -> K -> bool) (key : V -> K).
  Hypothesis keqb_spec : forall a b, keqb a b = true <-> a = b.

  Lemma keqb_refl a : keqb a a = true. Proof. apply keqb_spec; auto. Qed.
  Lemma keqb_sym a b : keqb a b = keqb b a.
  Proof.
    destruct (keqb a b) eqn:E1, (keqb b a) eqn:E2; auto.
    - apply keqb_spec in E1. subst. rewrite keqb_refl in E2. discriminate.
    - apply keqb_spec in E2. subst. rewrite keqb_refl in E1. discriminate.
  Qed.
  Lemma keqb_trans a b c : keqb a b = true -> keqb b c = true -> keqb a c = true.
  Proof. intros H1 H2. apply keqb_spec in H1, H2. subst. apply keqb_refl. Qed.

  Lemma group_by_bucket k vs l : In (k, vs) (group_by le keqb key l) ->
    vs = filter (fun v => keqb (key v) k) l /\ In k (map key l).
  Proof.
    unfold group_by. intros H. apply in_map_iff in H. destruct H as (k' & E & Hk). inversion E; subst.
    split; auto. apply isort_in in Hk. apply uniq_by_incl in Hk. auto.
  Qed.

  Lemma group_by_member k vs v l : In (k, vs) (group_by le keqb key l) -> In v vs -> In v l /\ key v = k.
  Proof.
    intros H Hv. apply group_by_bucket in H. destruct H as [-> _]. apply filter_In in Hv.
    destruct Hv as [H1 H2]. apply keqb_spec in H2. auto.
  Qed.

  Lemma group_by_nonempty k vs l : In (k, vs) (group_by le keqb key l) -> vs <> [].
  Proof.
    intros H. apply group_by_bucket in H. destruct H as [-> Hk]. apply in_map_iff in Hk.
    destruct Hk as (v & <- & Hv). intros E.
    assert (Hin : In v (filter (fun v0 => keqb (key v0) (key v)) l)).
    { apply filter_In. split; auto. apply keqb_refl. }
    rewrite E in Hin. destruct Hin.
  Qed.

  Lemma group_by_complete v l : In v l ->
    In (key v, filter (fun w => keqb (key w) (key v)) l) (group_by le keqb key l).
  Proof.
    intros Hv. unfold group_by.
    destruct (uniq_by_covers keqb keqb_refl keqb_trans (map key l) (key v)) as (k & Hk & E).
    { apply in_map; auto. }
    apply keqb_spec in E. subst k.
    apply in_map_iff. exists (key v). split; auto. apply isort_in. auto.
  Qed.

  Lemma group_by_keys_nodup l : NoDup (map fst (group_by le keqb key l)).
  Proof.
    unfold group_by. rewrite map_map. cbn [fst]. rewrite map_id.
    eapply Permutation_NoDup; [symmetry; apply isort_perm|].
    apply (pairwise_neq_NoDup keqb keqb_refl). apply uniq_by_pairwise.
  Qed.

  Lemma group_by_perm l : Permutation (concat (map snd (group_by le keqb key l))) l.
  Proof.
    unfold group_by. rewrite map_map. cbn [snd].
    set (keys := isort le (uniq_by keqb (map key l))).
    assert (Hpn : pairwise_neq keqb keys).
    { eapply (pairwise_neq_perm keqb keqb_sym); [symmetry; apply isort_perm|apply uniq_by_pairwise]. }
    assert (Hcov : forall v, In v l -> exists k, In k keys /\ keqb k (key v) = true).
    { intros v Hv. destruct (uniq_by_covers keqb keqb_refl keqb_trans (map key l) (key v)) as (k & Hk & E).
      { apply in_map; auto. }
      exists k. split; auto. apply isort_in; auto. }
    clearbody keys. revert l Hcov. induction keys as [|k keys IH]; intros l Hcov; cbn [map concat].
    - destruct l as [|v l]; auto. destruct (Hcov v (or_introl eq_refl)) as (? & [] & _).
    - inversion Hpn as [|? ? Hk Hpn']; subst.
      assert (E : map (fun k' => filter (fun v => keqb (key v) k') l) keys
                  = map (fun k' => filter (fun v => keqb (key v) k')
                                     (filter (fun v => negb (keqb (key v) k)) l)) keys).
      { apply map_ext_in. intros k' Hk'. rewrite filter_filter. apply filter_ext_in'. intros v Hv.
        destruct (keqb (key v) k) eqn:E1; cbn [negb andb]; auto.
        destruct (keqb (key v) k') eqn:E2; auto. exfalso.
        apply keqb_spec in E1, E2. pose proof (Hk k' Hk') as Hf. rewrite <- E1, <- E2 in Hf.
        rewrite keqb_refl in Hf. discriminate. }
      rewrite E. rewrite IH; auto.
      + apply (filter_split_perm (fun v => keqb (key v) k)).
      + intros v Hv. apply filter_In in Hv. destruct Hv as [Hv Hn].
        destruct (Hcov v Hv) as (k' & [<-|Hk'] & Hkv).
        * rewrite keqb_sym in Hkv. rewrite Hkv in Hn. discriminate.
        * exists k'; auto.
  Qed.
End GroupByLemmas.

Section RunsLemmas.
  Context {A : Type} (eqb : A -> A -> bool).

  Lemma runs_concat l : concat (runs eqb l) = l.
  Proof.
    induction l as [|x r IH]; cbn [runs]; auto.
    destruct (runs eqb r) as [|[|y ys] rs] eqn:E; cbn [concat app] in *.
    - subst r. auto.
    - subst r. auto.
    - destruct (eqb x y); cbn [concat app]; rewrite <- IH; auto.
  Qed.

  Lemma runs_nonempty l r : In r (runs eqb l) -> r <> [].
  Proof.
    revert r; induction l as [|x l IH]; cbn [runs]; intros r H; [destruct H|].
    destruct (runs eqb l) as [|[|y ys] rs] eqn:E.
    - destruct H as [<-|[]]. discriminate.
    - destruct H as [<-|H]; [discriminate|]. apply IH. right; auto.
    - destruct (eqb x y).
      + destruct H as [<-|H]; [discriminate|]. apply IH. right; auto.
      + destruct H as [<-|H]; [discriminate|]. apply IH. auto.
  Qed.

  (* all members of a run are chained to its head by eqb; with a transitive eqb: equivalent to the head *)
  Hypothesis eqb_trans : forall x y z, eqb x y = true -> eqb y z = true -> eqb x z = true.
  Hypothesis eqb_refl : forall x, eqb x x = true.

  Lemma runs_homogeneous l : forall r, In r (runs eqb l) ->
    match r with [] => False | h :: _ => forall y, In y r -> eqb h y = true end.
  Proof.
    induction l as [|x l IH]; cbn [runs]; intros r H; [destruct H|].
    destruct (runs eqb l) as [|[|y ys] rs] eqn:E.
    - destruct H as [<-|[]]. intros z [<-|[]]. auto.
    - destruct H as [<-|H]; [intros z [<-|[]]; auto|]. apply IH. right; auto.
    - destruct (eqb x y) eqn:Exy.
      + destruct H as [<-|H].
        * intros z [<-|Hz]; auto.
          specialize (IH (y :: ys) (or_introl eq_refl)). cbn in IH. eapply eqb_trans; eauto.
        * apply IH. right; auto.
      + destruct H as [<-|H].
        * intros z [<-|[]]. auto.
        * apply IH. auto.
  Qed.

  Lemma runs_in l r x : In r (runs eqb l) -> In x r -> In x l.
  Proof. intros Hr Hx. rewrite <- (runs_concat l). apply in_concat. eauto. Qed.

  Lemma in_runs l x : In x l -> exists r, In r (runs eqb l) /\ In x r.
  Proof. intros H. rewrite <- (runs_concat l) in H. apply in_concat in H. destruct H as (r & ? & ?). eauto. Qed.
End RunsLemmas.

Lemma concat_perm_map {A B} (f : A -> list B) l l' : Permutation l l' ->
  Permutation (concat (map f l)) (concat (map f l')).
Proof.
  induction 1; cbn [map concat]; auto.
  - apply Permutation_app_head; auto.
  - rewrite !app_assoc. apply Permutation_app_tail. apply Permutation_app_comm.
  - etransitivity; eauto.
Qed.

Lemma flat_map_perm {A B} (f : A -> list B) l l' : Permutation l l' ->
  Permutation (flat_map f l) (flat_map f l').
Proof. rewrite !flat_map_concat_map. apply concat_perm_map. Qed.

Lemma NoDup_map_inj_in {A B} (f : A -> B) l :
  (forall x y, In x l -> In y l -> f x = f y -> x = y) -> NoDup l -> NoDup (map f l).
Proof.
  induction l as [|a l IH]; intros Hinj Hnd; cbn [map]; constructor.
  - inversion Hnd; subst. intros Hin. apply in_map_iff in Hin. destruct Hin as (y & E & Hy).
    assert (y = a) by (apply Hinj; [right|left|]; auto). subst. contradiction.
  - inversion Hnd; subst. apply IH; auto. intros; apply Hinj; auto; right; auto.
Qed.
