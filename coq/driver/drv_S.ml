(* drv_S.ml — trace validator for the semaphore model.
   input line:  <permits> <nthreads> <event>*      events: A<t> R<t> L<t> U<t>:<v> W<t>:<v> N<t>:<u|-> S<t> G<t>:<u>
   output line: ok <count> <holders> <sleepers> <quiescent> <lost_wakeup> <over_admitted>
            or  bad <index of first rejected event> <count> <holders> <sleepers> ... (state before it) *)
let parse_event tok =
  let k = tok.[0] in
  let rest = String.sub tok 1 (String.length tok - 1) in
  let t, arg = match split_on ':' rest with
    | [a] -> nat_of_int (ios a), ""
    | [a; b] -> nat_of_int (ios a), b
    | _ -> failwith ("bad token " ^ tok) in
  match k with
  | 'A' -> EAcq t
  | 'R' -> ERel t
  | 'L' -> ELock t
  | 'U' -> EUnlock (t, z_of_int (ios arg))
  | 'W' -> EWait (t, z_of_int (ios arg))
  | 'N' -> ENotify (t, if arg = "-" then None else Some (nat_of_int (ios arg)))
  | 'S' -> ESpurious t
  | 'G' -> ESend (t, nat_of_int (ios arg))
  | _ -> failwith ("bad token " ^ tok)

let () = iter_lines (fun line ->
  match split_ws line with
  | p :: n :: evs ->
    let permits = z_of_int (ios p) in
    let s0 = init permits (nat_of_int (ios n)) in
    let (bad, s) = validate s0 (List.map parse_event evs) O in
    let tail = Printf.sprintf "%d %d %d %s %s %s" (int_of_z (count s)) (int_of_z (holders s))
        (int_of_z (sleepers s)) (sob (quiescent s)) (sob (lost_wakeup s)) (sob (over_admitted permits s)) in
    (match bad with
     | None -> "ok " ^ tail
     | Some i -> "bad " ^ soi (int_of_nat i) ^ " " ^ tail)
  | _ -> "EXN malformed line")
