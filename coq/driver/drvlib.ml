(* drvlib.ml — shared helpers for the line-protocol drivers of the extracted models.
   It is concatenated after `open Ex` (the extracted module) and before drv_<engine>.ml.
   Every Extract_<engine>.v must extract N.of_nat and Z.of_N so that nat/positive/n/z exist. *)
let rec nat_of_int i = if i <= 0 then O else S (nat_of_int (i - 1))
let int_of_nat n = let rec go acc = function O -> acc | S m -> go (acc + 1) m in go 0 n
let rec pos_of_int i =
  if i <= 1 then XH else if i land 1 = 0 then XO (pos_of_int (i lsr 1)) else XI (pos_of_int (i lsr 1))
let rec int_of_pos = function XH -> 1 | XO p -> 2 * int_of_pos p | XI p -> 2 * int_of_pos p + 1
let n_of_int i = if i = 0 then N0 else Npos (pos_of_int i)
let int_of_n = function N0 -> 0 | Npos p -> int_of_pos p
let z_of_int i = if i = 0 then Z0 else if i > 0 then Zpos (pos_of_int i) else Zneg (pos_of_int (- i))
let int_of_z = function Z0 -> 0 | Zpos p -> int_of_pos p | Zneg p -> - (int_of_pos p)

let split_ws s = List.filter (fun x -> x <> "") (String.split_on_char ' ' s)
let split_on c s = String.split_on_char c s
let ios = int_of_string
let soi = string_of_int
let sob b = if b then "1" else "0"

(* list of code points / bytes written as dot-separated decimals; "-" is the empty list *)
let ints_of_field f = if f = "-" || f = "" then [] else List.map ios (split_on '.' f)
let field_of_ints l = if l = [] then "-" else String.concat "." (List.map soi l)

let iter_lines f =
  try
    while true do
      let line = input_line stdin in
      (try print_string (f line) with e -> print_string ("EXN " ^ Printexc.to_string e));
      print_char '\n'
    done
  with End_of_file -> ()
