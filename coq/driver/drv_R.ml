(* drv_R.ml — the read-only model's I/O plan (engine R, C07).
   input line:   plan <in_place 0|1> <no_copy 0|1> <cache 0|1> <output 0|1> <toks> [failmk]     (failmk: create_dir_all of the temp dir fails)
                   toks = string over L (literal) I ($IN) O ($OUT) V (other $var); "-" = empty command;
                   "none" = no --transform at all
                 table          (the 16 combinations, the value of mode_table)
                 dry <output 0|1> <ncmds>
   output line:  err <E> run=<mutating calls of the whole run>
                 ok copy=<b> in=<kind>:<path> out=<kind>:<path> subs=<,-list> spawn=<stdin> file=<calls of one file> run=<mutating calls of the whole run, one file> left=<n>
   paths: ORIG TI<k> TO TDIR CACHE OUTFILE *)
let s_path = function
  | PTmpDir -> "TDIR"
  | PTmpIn (_, k) -> "TI" ^ soi (int_of_nat k)
  | PTmpOut _ -> "TO"
  | POrig _ -> "ORIG"
  | PCache -> "CACHE"
  | POutFile -> "OUTFILE"

let s_call = function
  | CMkdirAll p -> "mkdir:" ^ s_path p
  | CCopy (s, d) -> "copy:" ^ s_path s ^ ">" ^ s_path d
  | CMkfifo p -> "mkfifo:" ^ s_path p
  | COpenW p -> "openw:" ^ s_path p
  | COpenR p -> "openr:" ^ s_path p
  | CCreate p -> "create:" ^ s_path p
  | CDbWrite p -> "dbwrite:" ^ s_path p
  | CRemoveFile p -> "rm:" ^ s_path p
  | CRemoveDirAll p -> "rmall:" ^ s_path p

let s_list f l = if l = [] then "-" else String.concat "," (List.map f l)

let s_sub = function SLit -> "L" | SVar -> "V" | SPath p -> "P:" ^ s_path p
let s_in = function
  | InStdIn p -> "stdin:" ^ s_path p
  | InNamed p -> "named:" ^ s_path p
  | InCopied (_, t) -> "copied:" ^ s_path t
let s_out = function
  | OutStdOut -> "stdout:-"
  | OutNamed p -> "named:" ^ s_path p
  | OutInPlace p -> "in_place:" ^ s_path p
let s_stdin = function StdinNull -> "null" | StdinFile p -> "file:" ^ s_path p
let s_err = function
  | EOutConflictsInPlace -> "out_conflicts_in_place"
  | EInRequired -> "in_required"
  | EEmptyCommand -> "empty_command"
  | ENotRunnable -> "not_runnable"
  | ETmpDirFailed -> "tmp_dir_failed"

let toks_of s =
  if s = "-" then [] else
  List.init (String.length s) (fun i -> match s.[i] with
    | 'L' -> TLit | 'I' -> TIn | 'O' -> TOut | 'V' -> TVar | c -> failwith ("bad token " ^ String.make 1 c))

let calls evs = List.concat (List.map (function Call c -> [c] | _ -> []) evs)
let muts evs = List.filter mutating (calls evs)
let b s = s = "1"

let s_row = function
  | RErr e -> "err:" ^ s_err e
  | ROk (copy, i, o, m) -> Printf.sprintf "ok:%s:%s:%s:%s" (sob copy) (s_in i) (s_out o) (s_list s_call m)

let () = iter_lines (fun line ->
  match split_ws line with
  | ["table"] -> String.concat " " (List.map s_row mode_table)
  | ["dry"; output; n] ->
    let script = [ (O, List.init (ios n) (fun i -> if i mod 2 = 0 then FRemove (nat_of_int i) else FHardLink (O, nat_of_int i))) ] in
    let r = run_dedupe true (b output) script in
    Printf.sprintf "ok printed=%d run=%s" (List.length r.printed) (s_list s_call (muts r.d_events))
  | ["plan"; ip; nc; cache; output; "none"] ->
    let g = { g_transform = None; g_in_place = b ip; g_no_copy = b nc; g_cache = b cache; g_output = b output } in
    let evs = group_run no_fail g [ { fe_hit = false; fe_fails = no_fail } ] in
    Printf.sprintf "ok none run=%s left=%d" (s_list s_call (muts evs)) (List.length (exec_events true evs []))
  | "plan" :: ip :: nc :: cache :: output :: ts :: rest when rest = [] || rest = ["failmk"] ->
    let fl = if rest = [] then no_fail else fail_at (Some SMkTmp) in
    let toks = toks_of ts in
    (match build_transform fl toks (b ip) (b nc) with
     | (_, Err e) ->
       let g = { g_transform = Some toks; g_in_place = b ip; g_no_copy = b nc; g_cache = b cache; g_output = b output } in
       let evs = group_run fl g [ { fe_hit = false; fe_fails = no_fail } ] in
       Printf.sprintf "err %s run=%s" (s_err e) (s_list s_call (muts evs))
     | (_, Ok t) ->
       let (((args, i), o), _) = make_args t O toks in
       let (fevs, _) = run_file_ok t O toks no_fail in
       let sp = List.concat (List.map (function Spawn (_, sin) -> [s_stdin sin] | _ -> []) fevs) in
       let g = { g_transform = Some toks; g_in_place = b ip; g_no_copy = b nc; g_cache = b cache; g_output = b output } in
       let evs = group_run fl g [ { fe_hit = false; fe_fails = no_fail } ] in
       Printf.sprintf "ok copy=%s in=%s out=%s subs=%s spawn=%s file=%s run=%s left=%d"
         (sob t.t_copy) (s_in i) (s_out o) (s_list s_sub args) (String.concat "," sp)
         (s_list s_call (calls fevs)) (s_list s_call (muts evs)) (List.length (exec_events true evs [])))
  | _ -> "EXN malformed line")
