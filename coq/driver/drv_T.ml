(* drv_T.ml — line-protocol driver of the extracted text-codec model (engine T).
   One case per stdin line: <cmd> <field>*  ; a field is a byte string written as dot-separated
   decimals, "-" = empty.  The harness binary `txt` answers the same lines in the same format.
     q a            -> <quote a>
     j a1 a2 ..     -> <join [a1;a2;..]>
     s x            -> notstr | ok w1 w2 .. | err | panic              (split)
     qs a1 a2 ..    -> <join> | <split (join ..)>                      (both, separated by " | ")
     aqs a          -> <quote a> | <split (quote a)>                   (Arg::quote, the method)
     e a            -> <stfu8 encode a>
     d x            -> notstr | ok <bytes> | err                       (stfu8 decode of a &str)
     l a            -> <bytes of to_string_lossy a>
     u x            -> 1 | 0                                           (is x valid UTF-8)
     sp             -> SPECIAL_CHARS
     pqs a          -> <path_norm a> | <quote (path_norm a)> | <split of that>      (Path::quote)
     b x            -> ok w1 w2 .. | none                              (bash model; model only)
   C10 commands are further below. *)
let bytes_of_field f = List.map n_of_int (ints_of_field f)
let field_of_bytes l = field_of_ints (List.map int_of_n l)
let fields ws = String.concat " " (List.map field_of_bytes ws)

let show_sres = function
  | SOk ws -> if ws = [] then "ok" else "ok " ^ fields ws
  | SErr -> "err"
  | SPanic -> "panic"
  | SNotStr -> "notstr"

let show_dec x = match str_chars x with
  | None -> "notstr"
  | Some _ -> (match stfu8_decode x with Some b -> "ok " ^ field_of_bytes b | None -> "err")

let c17_cmd cmd args =
  match cmd, args with
  | "q", [a] -> Some (field_of_bytes (quote (bytes_of_field a)))
  | "j", l -> Some (field_of_bytes (join (List.map bytes_of_field l)))
  | "s", [x] -> Some (show_sres (split (bytes_of_field x)))
  | "qs", l -> let j = join (List.map bytes_of_field l) in
    Some (field_of_bytes j ^ " | " ^ show_sres (split j))
  | "aqs", [a] -> let q = quote (bytes_of_field a) in
    Some (field_of_bytes q ^ " | " ^ show_sres (split q))
  | "e", [a] -> Some (field_of_bytes (stfu8_encode (bytes_of_field a)))
  | "d", [x] -> Some (show_dec (bytes_of_field x))
  | "l", [a] -> Some (field_of_bytes (List.concat (lossy (bytes_of_field a))))
  | "u", [x] -> Some (match str_chars (bytes_of_field x) with Some _ -> "1" | None -> "0")
  | "pqs", [a] -> let n = path_norm (bytes_of_field a) in let q = quote n in
    Some (field_of_bytes n ^ " | " ^ field_of_bytes q ^ " | " ^ show_sres (split q))
  | "sp", [] -> Some (field_of_bytes sPECIAL_CHARS)
  | "b", [x] -> Some (match bash_words (bytes_of_field x) with
      | Some ws -> if ws = [] then "ok" else "ok " ^ fields ws
      | None -> "none")
  | _ -> None

(* ---------------------------------------------------------------------------------------------
   C10: reports.  Same line format as harness/src/bin/txt.rs:
     w <report> [| <n>:<ByteSize text of n> ...]   -> bytes of write_text
     r <bytes>                                      -> canonical read result
   <report> = <version> <timestamp text> <base dir> c<k> <arg>*k s<7 numbers|-> g<k> { <hash> <len> f<k> <path>*k }*k
   The section parameters of the model are instantiated here: a timestamp is its TIMESTAMP_FMT text
   (fmt_ts = identity, parse_ts = shape check of "%Y-%m-%d %H:%M:%S.%3f %z"); `human` is the table of
   ByteSize texts the implementation produced for the numbers of this report (given after `|`). *)
let n_of_dec s =
  let ten = n_of_int 10 in
  let acc = ref N0 in
  String.iter (fun ch -> acc := N.add (N.mul !acc ten) (n_of_int (Char.code ch - 48))) s; !acc
let string_of_bytes l = String.concat "" (List.map (fun b -> String.make 1 (Char.chr (int_of_n b))) l)
let dec_of_n n = string_of_bytes (dec n)

let ts_shape = Str.regexp "^[0-9][0-9][0-9][0-9]-[0-9][0-9]-[0-9][0-9] [0-9][0-9]:[0-9][0-9]:[0-9][0-9]\\.[0-9][0-9][0-9] [-+][0-9][0-9][0-9][0-9]$"
let parse_ts (l : n list) : n list option =
  let s = string_of_bytes l in
  if Str.string_match ts_shape s 0 then Some l else None

let sub1 s = String.sub s 1 (String.length s - 1)

let parse_report toks =
  let q = ref toks in
  let next () = match !q with x :: r -> q := r; x | [] -> failwith "short report line" in
  let version = bytes_of_field (next ()) in
  let ts = bytes_of_field (next ()) in
  let base = bytes_of_field (next ()) in
  let k = ios (sub1 (next ())) in
  let cmd = List.init k (fun _ -> bytes_of_field (next ())) in
  let st = next () in
  let stats = if st = "s-" then None else
      (match List.map n_of_dec (split_on ',' (sub1 st)) with
       | [a; b; c; d; e; f; g] ->
         Some { s_groups = a; s_total_count = b; s_total_size = c; s_red_count = d; s_red_size = e;
                s_miss_count = f; s_miss_size = g }
       | _ -> failwith "stats need 7 numbers") in
  let gk = ios (sub1 (next ())) in
  let groups = List.init gk (fun _ ->
      let hash = bytes_of_field (next ()) in
      let len = n_of_dec (next ()) in
      let fk = ios (sub1 (next ())) in
      let files = List.init fk (fun _ -> bytes_of_field (next ())) in
      { g_hash = hash; g_len = len; g_files = files }) in
  let table = match !q with
    | "|" :: r -> List.map (fun t -> match split_on ':' t with
        | [n; f] -> (n_of_dec n, bytes_of_field f) | _ -> failwith "bad human entry") r
    | [] -> []
    | _ -> failwith "trailing tokens" in
  let human n = try List.assoc n table with Not_found -> [n_of_int 63] in
  ({ h_version = version; h_ts = ts; h_command = cmd; h_base_dir = base; h_stats = stats }, groups, human)

let show_header h =
  let st = match h.h_stats with
    | None -> "s-"
    | Some s -> "s" ^ String.concat "," (List.map dec_of_n
        [s.s_groups; s.s_total_count; s.s_total_size; s.s_red_count; s.s_red_size; s.s_miss_count; s.s_miss_size]) in
  String.concat " " ([field_of_bytes h.h_version; field_of_bytes h.h_ts; field_of_bytes h.h_base_dir;
                      "c" ^ soi (List.length h.h_command)] @ List.map field_of_bytes h.h_command @ [st])

let show_groups gs =
  String.concat "" ((" g" ^ soi (List.length gs)) :: List.map (fun g ->
      " " ^ field_of_bytes g.g_hash ^ " " ^ dec_of_n g.g_len ^ " f" ^ soi (List.length g.g_files) ^
      String.concat "" (List.map (fun p -> " " ^ field_of_bytes p) g.g_files)) gs)

let c10_cmd cmd args =
  match cmd, args with
  | "w", toks ->
    let (h, gs, human) = parse_report toks in
    Some (field_of_bytes (write_text human (fun t -> t) h gs))
  | "r", [x] ->
    Some (match read_report parse_ts (bytes_of_field x) with
        | RepUnknown -> "unknown"
        | RepJson -> "json"
        | RepHeaderErr -> "hdr_err"
        | RepHeaderPanic -> "hdr_panic"
        | RepText (h, gs, e) ->
          "text " ^ show_header h ^ show_groups gs ^ " end=" ^
          (match e with GEnd -> "ok" | GErr -> "err" | GPanic -> "panic"))
  | "pn", [x] -> Some (field_of_bytes (path_norm (bytes_of_field x)))
  | "pd", [x] -> let b = bytes_of_field x in
    Some (match str_chars b with
        | None -> "notstr"
        | Some _ -> (match path_from_escaped b with
            | POk p -> "ok " ^ field_of_bytes p | PErr -> "err" | PPanic -> "panic"))
  | _ -> None

let () = iter_lines (fun line ->
  match split_ws line with
  | cmd :: args ->
    (match c17_cmd cmd args with
     | Some r -> r
     | None -> (match c10_cmd cmd args with
         | Some r -> r
         | None -> "EXN unknown command " ^ cmd))
  | [] -> "EXN empty line")
