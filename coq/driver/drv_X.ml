(* drv_X.ml — line-protocol driver of the whole-run model (engine X: C02, C11).

   One case per line, space separated key=value tokens.  Paths are percent-encoded as in drv_A.ml
   (only [A-Za-z0-9_.-] literal, "/" separates components, a leading "/" is the root component).

     run op=<rm|sl|hl|rl|mv:<dir>> sl=<0|1> n=<int> ml=<0|1> mb=<ns> prio=<-|i,i,..> iso=<-|path,..>
         order=<fwd|rev> sfx=<text> tree=<e>,<e>,.. aux=<ino>:<dev>:<atime>:<btime|-1>:<ctime_s>:<ctime_ns>,..
         groups=<glen>@<path>~<k><d><m>,<path>~...;<glen>@...      q=<path>,..
       tree entries   D<path> | F<ino>@<path> | L<target>@<path> | I<ino>:<mtime ns>:<hexbytes>
       member bits    k = should_keep(path), d = may_drop(path), m = are_on_same_mount(path, dir)
       prio           indices into Top Bottom Newest Oldest MRM LRM MRA LRA MRSC LRSC MostNested LeastNested
       n              the effective rf_over (own option or the recorded one), mb = modified_before
     output: cmds=<c>;<c>|<c>..  results=<ok|err>,..  processed=<n> reclaimed=<bytes> perm=<0|1>
             state=<view>,..   script=<hex line>,<hex line>..   dry=<count>:<bytes>
       cmds    per report group (groups separated by "|"), in script order:
               rm:<a>  sl:<t>><a>  hl:<t>><a>  rl:<t>><a>  mv:<a>><tgt>:<rn>
       view    - | D | L<target> | F<ino>:<mtime>:<hexbytes>      (files written by the run carry mtime -1)
       script  the lines log_script prints (arrival order of the groups = reversed: the printer must restore it)
     `dedupe` (rl): the sandbox's file system refuses FICLONE; the environment fault EOPNOTSUPP is
     delivered to the first CloneTo of every command (everything else fault-free). *)

let hexdig = "0123456789ABCDEF"
let pct_decode s =
  let b = Buffer.create (String.length s) in
  let n = String.length s in
  let i = ref 0 in
  while !i < n do
    if s.[!i] = '%' && !i + 2 < n + 0 then begin
      Buffer.add_char b (Char.chr (int_of_string ("0x" ^ String.sub s (!i + 1) 2)));
      i := !i + 3
    end else begin Buffer.add_char b s.[!i]; incr i end
  done;
  Buffer.contents b
let pct_encode s =
  let b = Buffer.create (String.length s) in
  String.iter (fun c ->
    if (c >= 'a' && c <= 'z') || (c >= 'A' && c <= 'Z') || (c >= '0' && c <= '9') || c = '_' || c = '.' || c = '-'
    then Buffer.add_char b c
    else begin Buffer.add_char b '%'; Buffer.add_char b hexdig.[Char.code c lsr 4]; Buffer.add_char b hexdig.[Char.code c land 15] end) s;
  Buffer.contents b

let comp_of_string s = List.init (String.length s) (fun i -> n_of_int (Char.code s.[i]))
let string_of_comp c = String.concat "" (List.map (fun x -> String.make 1 (Char.chr (int_of_n x))) c)
let path_of_text t =
  let parts = List.filter (fun x -> x <> "") (split_on '/' t) in
  let comps = List.map (fun x -> comp_of_string (pct_decode x)) parts in
  if String.length t > 0 && t.[0] = '/' then comp_of_string "/" :: comps else comps
let text_of_path p =
  match List.map string_of_comp p with
  | "/" :: rest -> "/" ^ String.concat "/" (List.map pct_encode rest)
  | l -> String.concat "/" (List.map pct_encode l)
let bytes_of_hex h =
  if h = "-" || h = "" then [] else List.init (String.length h / 2) (fun i -> n_of_int (int_of_string ("0x" ^ String.sub h (2 * i) 2)))
let hex_of_bytes l =
  if l = [] then "-" else String.concat "" (List.map (fun x -> Printf.sprintf "%02X" (int_of_n x)) l)

(* 63-bit safe conversions for nanosecond time stamps *)
let rec pos_of_int64 (i : int) = pos_of_int i
let z_of_string s = z_of_int (int_of_string s)

let kv tok = match String.index_opt tok '=' with
  | Some i -> (String.sub tok 0 i, String.sub tok (i + 1) (String.length tok - i - 1))
  | None -> (tok, "")
let list_field sep f = if f = "" || f = "-" then [] else split_on sep f

let build_tree ents =
  List.fold_left (fun s e ->
    let k = e.[0] and rest = String.sub e 1 (String.length e - 1) in
    match k with
    | 'D' -> set_name s (norm (path_of_text rest)) (Some NDir)
    | 'F' -> (match split_on '@' rest with
              | [i; p] -> set_name s (norm (path_of_text p)) (Some (NFile (n_of_int (ios i))))
              | _ -> failwith ("bad entry " ^ e))
    | 'L' -> (match split_on '@' rest with
              | [t; p] -> set_name s (norm (path_of_text p)) (Some (NLink (norm (path_of_text t))))
              | _ -> failwith ("bad entry " ^ e))
    | 'I' -> (match split_on ':' rest with
              | [i; mt; hx] ->
                let i = n_of_int (ios i) in
                let s = set_inode s i { ibytes = bytes_of_hex hx; imtime = z_of_string mt } in
                if int_of_n s.next <= int_of_n i then { s with next = n_of_int (int_of_n i + 1) } else s
              | _ -> failwith ("bad entry " ^ e))
    | _ -> failwith ("bad entry " ^ e)) empty_fs ents

let prio_of_int = function
  | 0 -> Top | 1 -> Bottom | 2 -> Newest | 3 -> Oldest | 4 -> MostRecentlyModified
  | 5 -> LeastRecentlyModified | 6 -> MostRecentlyAccessed | 7 -> LeastRecentlyAccessed
  | 8 -> MostRecentStatusChange | 9 -> LeastRecentStatusChange | 10 -> MostNested | 11 -> LeastNested
  | _ -> failwith "priority"

let show_view s q =
  match s.names q with
  | None -> "-"
  | Some NDir -> "D"
  | Some (NLink t) -> "L" ^ text_of_path t
  | Some (NFile i) ->
    (match s.inodes i with
     | Some d -> "F" ^ soi (int_of_n i) ^ ":" ^ soi (int_of_z d.imtime) ^ ":" ^ hex_of_bytes d.ibytes
     | None -> "F" ^ soi (int_of_n i) ^ ":?:?")

let show_cmd c =
  let p (m : meta) = text_of_path m.mpath in
  match c with
  | Remove m -> "rm:" ^ p m
  | SoftLink (t, l) -> "sl:" ^ p t ^ ">" ^ p l
  | HardLink (t, l) -> "hl:" ^ p t ^ ">" ^ p l
  | RefLink (t, l) -> "rl:" ^ p t ^ ">" ^ p l
  | Move (s, tgt, rn) -> "mv:" ^ p s ^ ">" ^ text_of_path tgt ^ ":" ^ sob rn

(* the index (among the calls of the fault class) of the first CloneTo the program issues fault-free *)
let first_clone sl c s =
  let sts = steps nofault O (prog_of sl c) s in
  let rec go k = function
    | [] -> None
    | st :: r ->
      if is_query st.scall then go k r
      else (match st.scall with CloneTo _ -> Some k | _ -> go (k + 1) r) in
  go 0 sts

let run_case toks =
  let get k = try List.assoc k toks with Not_found -> "" in
  let sl = get "sl" = "1" in
  let s0 = build_tree (list_field ',' (get "tree")) in
  let auxt = Hashtbl.create 17 in
  List.iter (fun e -> match split_on ':' e with
    | [i; dev; at; bt; cs; cn] -> Hashtbl.replace auxt (ios i) (ios dev, z_of_string at, ios bt, z_of_string cs, z_of_string cn)
    | _ -> failwith ("bad aux " ^ e)) (list_field ',' (get "aux"));
  let look i = Hashtbl.find_opt auxt (int_of_n i) in
  let ax = { adev = (fun i -> match look i with Some (d, _, _, _, _) -> n_of_int d | None -> N0);
             aatime = (fun i -> match look i with Some (_, a, _, _, _) -> Some a | None -> None);
             abtime = (fun i -> match look i with Some (_, _, b, _, _) -> if b < 0 then None else Some (z_of_int b) | None -> None);
             actime = (fun i -> match look i with Some (_, _, _, c, n) -> (c, n) | None -> (Z0, Z0)) } in
  let opt = get "op" in
  let op = if opt = "rm" then OpRemove else if opt = "sl" then OpSoftLink else if opt = "hl" then OpHardLink
    else if opt = "rl" then OpRefLink
    else if String.length opt > 3 && String.sub opt 0 3 = "mv:" then OpMove (path_of_text (String.sub opt 3 (String.length opt - 3)))
    else failwith "op" in
  (* members *)
  let bits = Hashtbl.create 17 in
  let groups = List.map (fun g ->
      match String.index_opt g '@' with
      | None -> failwith ("bad group " ^ g)
      | Some i ->
        let glen = n_of_int (ios (String.sub g 0 i)) in
        let ms = list_field ',' (String.sub g (i + 1) (String.length g - i - 1)) in
        let ps = List.map (fun m ->
            match String.rindex_opt m '~' with
            | Some j ->
              let p = path_of_text (String.sub m 0 j) in
              let b = String.sub m (j + 1) (String.length m - j - 1) in
              Hashtbl.replace bits p (b.[0] = '1', b.[1] = '1', b.[2] = '1'); p
            | None -> failwith ("bad member " ^ m)) ms in
        { glen = glen; gpaths = ps }) (list_field ';' (get "groups")) in
  let bit sel p = match Hashtbl.find_opt bits p with Some b -> sel b | None -> false in
  let cfg = { n_opt = Some (nat_of_int (ios (get "n")));
              keep = (fun p -> bit (fun (k, _, _) -> k) p);
              may_drop = (fun p -> match Hashtbl.find_opt bits p with Some (_, d, _) -> d | None -> true);
              iso = List.map path_of_text (list_field ',' (get "iso"));
              mlinks = (get "ml" = "1"); no_size = false;
              mbefore = Some (z_of_string (get "mb"));
              prio = List.map (fun x -> prio_of_int (ios x)) (list_field ',' (get "prio")) } in
  let sm p _ = bit (fun (_, _, m) -> m) p in
  let sfxc = comp_of_string (get "sfx") in
  let e = { sfx = (fun _ -> sfxc); clock = (fun _ -> z_of_int (-1)) } in
  let items = script_items ax op cfg sm s0 groups in
  let cs = List.concat items in
  let ordered = if get "order" = "rev" then List.rev cs else cs in
  let fcs = List.map (fcmd_of e) ordered in
  let envfault = (op = OpRefLink) in
  let final, results_rev =
    List.fold_left (fun (s, acc) c ->
        let o = if envfault then
            (match first_clone sl c s with
             | Some k -> (fun i -> if int_of_nat i = k then Some { ferr = EOPNOTSUPP; fpartial = None } else None)
             | None -> nofault)
          else nofault in
        let r = run o O (prog_of sl c) s in
        (r.ofs, r.ores :: acc)) (s0, []) fcs in
  let results = List.rev results_rev in
  let qs = List.map (fun t -> norm (path_of_text t)) (list_field ',' (get "q")) in
  let processed = List.length (List.filter (fun r -> r = IOk) results) in
  let recl = int_of_n (reclaimed ordered results) in
  (* the dry run: groups arrive in reversed order *)
  let lg = log_script e.sfx (List.rev (indexed_from O items)) in
  let hexline l = if l = [] then "00" else String.concat "" (List.map (fun x -> Printf.sprintf "%02X" (int_of_n x)) l) in
  Printf.sprintf "cmds=%s results=%s processed=%d reclaimed=%d state=%s script=%s dry=%d:%d"
    (let g = String.concat "|" (List.map (fun it -> String.concat ";" (List.map show_cmd it)) items) in if g = "" then "-" else g)
    (let r = String.concat "," (List.map (function IOk -> "ok" | IErr -> "err") results) in if r = "" then "-" else r)
    processed recl
    (let v = String.concat "," (List.map (show_view final) qs) in if v = "" then "-" else v)
    (let sc = String.concat "," (List.map hexline lg.lines) in if sc = "" then "-" else sc)
    (int_of_nat lg.lcount) (int_of_n lg.lbytes)

(* sh <tree> : lines=<hex>,<hex>.. tree=.. q=..   -> state after `bash script` according to the model (sh_run) *)
let run_sh toks =
  let get k = try List.assoc k toks with Not_found -> "" in
  let s0 = build_tree (list_field ',' (get "tree")) in
  let lines = List.map bytes_of_hex (list_field ',' (get "lines")) in
  let qs = List.map (fun t -> norm (path_of_text t)) (list_field ',' (get "q")) in
  match sh_run (z_of_int (-1)) lines s0 with
  | Some st -> "state=" ^ (let v = String.concat "," (List.map (show_view st) qs) in if v = "" then "-" else v)
  | None -> "state=UNPARSED"

(* printer n=<N> arrival=<i>,<i>,..   -> what log_loop prints when the groups (payload = their index) arrive in that order:
   order=ok | order=<pos>:<got>:<want>   printed=<count> *)
let run_printer toks =
  let get k = try List.assoc k toks with Not_found -> "" in
  let n = ios (get "n") in
  let arrival = List.map ios (list_field ',' (get "arrival")) in
  let out = log_loop (List.map (fun i -> (nat_of_int i, i)) arrival) [] O [] in
  let rec cmp pos got want = match got, want with
    | [], [] -> "ok"
    | g :: gr, w :: wr -> if g = w then cmp (pos + 1) gr wr else Printf.sprintf "%d:%d:%d" pos g w
    | g :: _, [] -> Printf.sprintf "%d:%d:-1" pos g
    | [], w :: _ -> Printf.sprintf "%d:-1:%d" pos w in
  Printf.sprintf "order=%s printed=%d" (cmp 0 out (List.init n (fun i -> i))) (List.length out)

let () = iter_lines (fun line ->
  match split_ws line with
  | "run" :: toks -> run_case (List.map kv toks)
  | "printer" :: toks -> run_printer (List.map kv toks)
  | "sh" :: toks -> run_sh (List.map kv toks)
  | ["quote"; h] -> hex_of_bytes (quote (bytes_of_hex h))
  | _ -> "EXN malformed line")
