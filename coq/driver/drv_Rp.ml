(* drv_Rp.ml — report consistency model.
   input : <O|U> <rf> <by_id> <nroots> <root>* <ngroups> ( <len> <hashbytes> <nfiles> ( <path> <dev> <ino> )* )*
           path = components joined by ':' ; component = dot-separated byte values ; hashbytes likewise
   output: <groups> <files> <size> <red_files> <red_size> <mis_files> <mis_size> <is_fixpoint> <all_reported> <red_spec_files>
           | <finalize: groups separated by ';' ; a group = len,path,path,...> *)
let path_of_field f = List.map (fun c -> List.map n_of_int (ints_of_field c)) (split_on ':' f)
let field_of_path p = String.concat ":" (List.map (fun c -> field_of_ints (List.map int_of_n c)) p)

let () = iter_lines (fun line ->
  let toks = ref (split_ws line) in
  let next () = match !toks with t :: r -> toks := r; t | [] -> failwith "short line" in
  let kind = next () in
  let rf = n_of_int (ios (next ())) in
  let byid = next () = "1" in
  let nroots = ios (next ()) in
  let roots = List.init nroots (fun _ -> path_of_field (next ())) in
  let flt = { repl = (if kind = "O" then Over rf else Under rf); roots = roots; by_id = byid } in
  let ngroups = ios (next ()) in
  let groups = List.init ngroups (fun _ ->
    let len = n_of_int (ios (next ())) in
    let hash = List.map n_of_int (ints_of_field (next ())) in
    let nfiles = ios (next ()) in
    let files = List.init nfiles (fun _ ->
      let p = path_of_field (next ()) in
      let dev = n_of_int (ios (next ())) in
      let ino = n_of_int (ios (next ())) in
      { fpath = p; fid = (dev, ino) }) in
    { glen = len; ghash = hash; gfiles = files }) in
  let s = stats_of flt groups in
  let red_spec = List.fold_left (fun a g -> a + int_of_n (redundant_spec g flt)) 0 groups in
  let fin = finalize flt groups in
  let show_g g = String.concat "," (soi (int_of_n g.glen) :: List.map (fun f -> field_of_path f.fpath) g.gfiles) in
  Printf.sprintf "%d %d %d %d %d %d %d %s %s %d | %s"
    (int_of_n s.s_groups) (int_of_n s.s_files) (int_of_n s.s_size) (int_of_n s.s_red_files) (int_of_n s.s_red_size)
    (int_of_n s.s_mis_files) (int_of_n s.s_mis_size) (sob (is_fixpoint flt groups)) (sob (all_reported flt groups))
    red_spec (String.concat ";" (List.map show_g fin)))
