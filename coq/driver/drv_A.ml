(* drv_A.ml — line-protocol driver of the extracted file-system / command model (engine A).

   One case per line, space separated key=value tokens (paths are percent-encoded: only
   [A-Za-z0-9_./-] literal; "/" separates components; a leading "/" is the root component):

     run  sl=<0|1> tree=<e>,<e>,.. cmds=<c>;<c>;.. oracle=<i>:<ERR>[:<n>],.. crash=<-|i:b|i:a|i:m<n>> q=<path>,..
       tree entries   D<path> | F<ino>@<path> | L<target>@<path> | I<ino>:<mtime>:<hexbytes> | K<ino>  (K = foreign lock)
       commands       rm:<a> | sl:<t>:<a>:<tmp> | hl:<t>:<a>:<tmp> | rl:<t>:<a>:<tmp>:<mt>:<pmt>:<now1>:<now2>
                      | mv:<src>:<tgt>:<rn>:<now>
       oracle         class index i (0-based over the whole script) fails with ERR; <n> = bytes a failing CopyTo wrote
                      (absent = target untouched)
       crash          state just before / after class call i, or inside a CopyTo after n bytes
     output: trace=<call>;..  results=<ok|err>,..  processed=<n> warn=<n> state=<view>,..  (views in the order of q)
       call   name(arg,..)=ok | name(arg,..)=ERR   with a trailing "!" when injected; queries are prefixed with "?"
       view   - | D | L<target> | F<ino>:<mtime>:<hexbytes>
     mt <dir> <path>      ->  move_target as a path
     norm <path>          ->  normalised path *)

let hexdig = "0123456789ABCDEF"
let pct_decode s =
  let b = Buffer.create (String.length s) in
  let n = String.length s in
  let i = ref 0 in
  while !i < n do
    if s.[!i] = '%' && !i + 2 < n + 0 then begin
      Buffer.add_char b (Char.chr (int_of_string ("0x" ^ String.sub s (!i + 1) 2)));
      i := !i + 3
    end else begin Buffer.add_char b s.[!i]; incr i end
  done;
  Buffer.contents b
let pct_encode s =
  let b = Buffer.create (String.length s) in
  String.iter (fun c ->
    if (c >= 'a' && c <= 'z') || (c >= 'A' && c <= 'Z') || (c >= '0' && c <= '9') || c = '_' || c = '.' || c = '-'
    then Buffer.add_char b c
    else begin Buffer.add_char b '%'; Buffer.add_char b hexdig.[Char.code c lsr 4]; Buffer.add_char b hexdig.[Char.code c land 15] end) s;
  Buffer.contents b

let comp_of_string s = List.init (String.length s) (fun i -> n_of_int (Char.code s.[i]))
let string_of_comp c = String.concat "" (List.map (fun x -> String.make 1 (Char.chr (int_of_n x))) c)

(* "/a/b" -> ["/";"a";"b"], "a/b" -> ["a";"b"]; empty components are dropped (as std::path does) *)
let path_of_text t =
  let parts = List.filter (fun x -> x <> "") (split_on '/' t) in
  let comps = List.map (fun x -> comp_of_string (pct_decode x)) parts in
  if String.length t > 0 && t.[0] = '/' then comp_of_string "/" :: comps else comps
let text_of_path p =
  match List.map string_of_comp p with
  | "/" :: rest -> "/" ^ String.concat "/" (List.map pct_encode rest)
  | l -> String.concat "/" (List.map pct_encode l)

let bytes_of_hex h =
  if h = "-" || h = "" then [] else List.init (String.length h / 2) (fun i -> n_of_int (int_of_string ("0x" ^ String.sub h (2 * i) 2)))
let hex_of_bytes l =
  if l = [] then "-" else String.concat "" (List.map (fun x -> Printf.sprintf "%02X" (int_of_n x)) l)

let err_of_string = function
  | "ENOENT" -> ENOENT | "EEXIST" -> EEXIST | "ENOTDIR" -> ENOTDIR | "EISDIR" -> EISDIR | "ELOOP" -> ELOOP
  | "EAGAIN" -> EAGAIN | "EINVAL" -> EINVAL | "EIO" -> EIO | "ENOSPC" -> ENOSPC | "EXDEV" -> EXDEV
  | "EPERM" -> EPERM | "EOPNOTSUPP" -> EOPNOTSUPP | _ -> EOTHER
let string_of_err = function
  | ENOENT -> "ENOENT" | EEXIST -> "EEXIST" | ENOTDIR -> "ENOTDIR" | EISDIR -> "EISDIR" | ELOOP -> "ELOOP"
  | EAGAIN -> "EAGAIN" | EINVAL -> "EINVAL" | EIO -> "EIO" | ENOSPC -> "ENOSPC" | EXDEV -> "EXDEV"
  | EPERM -> "EPERM" | EOPNOTSUPP -> "EOPNOTSUPP" | EOTHER -> "EOTHER"

let kv tok = match String.index_opt tok '=' with
  | Some i -> (String.sub tok 0 i, String.sub tok (i + 1) (String.length tok - i - 1))
  | None -> (tok, "")
let list_field sep f = if f = "" || f = "-" then [] else split_on sep f

let build_tree ents =
  List.fold_left (fun s e ->
    let k = e.[0] and rest = String.sub e 1 (String.length e - 1) in
    match k with
    | 'D' -> set_name s (norm (path_of_text rest)) (Some NDir)
    | 'F' -> (match split_on '@' rest with
              | [i; p] -> set_name s (norm (path_of_text p)) (Some (NFile (n_of_int (ios i))))
              | _ -> failwith ("bad entry " ^ e))
    | 'L' -> (match split_on '@' rest with
              | [t; p] -> set_name s (norm (path_of_text p)) (Some (NLink (norm (path_of_text t))))
              | _ -> failwith ("bad entry " ^ e))
    | 'I' -> (match split_on ':' rest with
              | [i; mt; hx] ->
                let i = n_of_int (ios i) in
                let s = set_inode s i { ibytes = bytes_of_hex hx; imtime = z_of_int (ios mt) } in
                if int_of_n s.next <= int_of_n i then { s with next = n_of_int (int_of_n i + 1) } else s
              | _ -> failwith ("bad entry " ^ e))
    | 'K' -> let i = ios rest in
             let old = s.locks in
             set_locks s (fun j -> if int_of_n j = i then true else old j)
    | _ -> failwith ("bad entry " ^ e)) empty_fs ents

let parse_cmd c =
  let zi x = z_of_int (ios x) in
  match split_on ':' c with
  | ["rm"; a] -> FRemove (path_of_text a)
  | ["sl"; t; a; tmp] -> FSoftLink (path_of_text t, path_of_text a, path_of_text tmp)
  | ["hl"; t; a; tmp] -> FHardLink (path_of_text t, path_of_text a, path_of_text tmp)
  | ["rl"; t; a; tmp; mt; pmt; n1; n2] -> FRefLink (path_of_text t, path_of_text a, path_of_text tmp, zi mt, zi pmt, zi n1, zi n2)
  | ["mv"; s; t; rn; now] -> FMove (path_of_text s, path_of_text t, rn = "1", zi now)
  | _ -> failwith ("bad command " ^ c)

let parse_oracle f : nat -> fault option =
  let tbl = Hashtbl.create 7 in
  List.iter (fun e -> match split_on ':' e with
    | [i; er] -> Hashtbl.replace tbl (ios i) { ferr = err_of_string er; fpartial = None }
    | [i; er; n] -> Hashtbl.replace tbl (ios i) { ferr = err_of_string er; fpartial = Some (n_of_int (ios n)) }
    | _ -> failwith ("bad oracle entry " ^ e)) (list_field ',' f);
  fun i -> Hashtbl.find_opt tbl (int_of_nat i)

let show_call c =
  let p = text_of_path in
  let zs z = soi (int_of_z z) in
  match ncall c with
  | Rename (a, b) -> "rename(" ^ p a ^ "," ^ p b ^ ")"
  | Link (a, b) -> "link(" ^ p a ^ "," ^ p b ^ ")"
  | Symlink (t, l) -> "symlink(" ^ p t ^ "," ^ p l ^ ")"
  | Unlink a -> "unlink(" ^ p a ^ ")"
  | Mkdir d -> "mkdir(" ^ p d ^ ")"
  | OpenW a -> "openw(" ^ p a ^ ")"
  | LockW a -> "lock(" ^ p a ^ ")"
  | UnlockW a -> "unlock(" ^ p a ^ ")"
  | Create (a, _) -> "create(" ^ p a ^ ")"
  | CloneTo (a, b, _) -> "clone(" ^ p a ^ "," ^ p b ^ ")"
  | CopyTo (a, b, _) -> "copy(" ^ p a ^ "," ^ p b ^ ")"
  | Utimes (a, mt) -> "utimes(" ^ p a ^ "," ^ zs mt ^ ")"
  | Exists a -> "?exists(" ^ p a ^ ")"
  | IsDir a -> "?isdir(" ^ p a ^ ")"
  | OpenR a -> "?openr(" ^ p a ^ ")"
  | LExists a -> "?lexists(" ^ p a ^ ")"

let show_view s q =
  match s.names q with
  | None -> "-"
  | Some NDir -> "D"
  | Some (NLink t) -> "L" ^ text_of_path t
  | Some (NFile i) ->
    (match s.inodes i with
     | Some d -> "F" ^ soi (int_of_n i) ^ ":" ^ soi (int_of_z d.imtime) ^ ":" ^ hex_of_bytes d.ibytes
     | None -> "F" ^ soi (int_of_n i) ^ ":?:?")

let run_case toks =
  let get k = try List.assoc k toks with Not_found -> "" in
  let sl = get "sl" = "1" in
  let s0 = build_tree (list_field ',' (get "tree")) in
  let cmds = List.map parse_cmd (list_field ';' (get "cmds")) in
  let o = parse_oracle (get "oracle") in
  let qs = List.map (fun t -> norm (path_of_text t)) (list_field ',' (get "q")) in
  let sts = script_steps sl o O cmds s0 in
  let out = run_script sl o O cmds s0 in
  let trace = String.concat ";" (List.map (fun st ->
      show_call st.scall ^ "=" ^ (match st.sres with ROk -> "ok" | RErr e -> string_of_err e) ^ (if st.sinj then "!" else "")) sts) in
  let final =
    match get "crash" with
    | "" | "-" -> out.sfs
    | c ->
      (match split_on ':' c with
       | [i; stage] ->
         let i = ios i in
         let cls = List.filter (fun st -> not (is_query st.scall)) sts in
         if i >= List.length cls then failwith "crash index beyond the model trace" else
         let st = List.nth cls i in
         if stage = "b" then st.spre
         else if stage = "a" then st.spost
         else if stage.[0] = 'm' then
           (match ncall st.scall with
            | CopyTo (a, b, now) -> partial_copy st.spre a b now (n_of_int (ios (String.sub stage 1 (String.length stage - 1))))
            | _ -> failwith "mid-call crash of a call that is not a copy")
         else failwith "bad crash stage"
       | _ -> failwith "bad crash spec") in
  Printf.sprintf "trace=%s results=%s processed=%d warn=%d state=%s" trace
    (String.concat "," (List.map (function IOk -> "ok" | IErr -> "err") out.sresults))
    (int_of_nat (processed_count out)) (int_of_nat out.swarn)
    (String.concat "," (List.map (show_view final) qs))

let () = iter_lines (fun line ->
  match split_ws line with
  | "run" :: toks -> run_case (List.map kv toks)
  | ["mt"; d; p] -> text_of_path (mv_target (path_of_text d) (path_of_text p))
  | ["mtraw"; d; p] ->
    (* components separated by "|" , each percent-encoded: shows "." components explicitly *)
    String.concat "|" (List.map (fun c -> pct_encode (string_of_comp c)) (mv_target (path_of_text d) (path_of_text p)))
  | ["norm"; p] -> text_of_path (norm (path_of_text p))
  | _ -> "EXN malformed line")
