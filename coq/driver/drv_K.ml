(* drv_K.ml — line-protocol driver of the hash-cache model (engine K, property C12).

   input line :  <id> <op> <op> ...        fields of an op are separated by ':'; byte strings are
                                           dot-separated decimals ("-" = empty); mtimes are signed ns
     world   c:P:BYTES:MT:INO   create P (INO = canonical number of the inode the kernel allocated, "-" = the
                                create failed)     w:P:BYTES:MT  rewrite in place     a:P:BYTES:MT  append
             t:P:N:MT  truncate/extend   u:P:MT  utimensat   r:P:Q  rename   d:P  unlink   l:P:Q  hard link
             m:P:MT:INO:LEN  mkdir P (an inode of LEN bytes whose every read fails: calls on P get c_fail = true;
                             the generator never renames / removes / rewrites it)
     cache   O:A:TR  HashCache::open(tree of algorithm A, transform TR | "-")   C  close
             P:P:POS:LEN:DL:HASHBYTES  put        G:P:POS:LEN  get
             HO:A:TR FileHasher::new_cached       HC drop
             H:P:POS:LEN  hash_file               X:P:POS:LEN  hash_transformed
   output line:  <id> | <one token per op> | sd=<b> md=<b> frac=<b> sw=<b> hits=<n>
     (sd/md/frac/sw: stamp_determines_b / mtime_determines_b / preepoch_fraction_b / stepwise_b over the worlds of the sequence;
      hits: calls answered from the cache)
     token:  "."  for world / open / close ops ("i<INO>" for c)
             "nofile" | "ok@META" (put) | "n@META" | "s:DL:HASH@META" (get)
             "err" | "ok:HASH@META" (H) | "ok:DL:HASH@META" (X) | "panic"
     META = INO,MT,LEN as the model's world has them;  HASH = hex bytes, or H<a>(<bytes>) for a hash the
     model computed with algorithm a over <bytes> (the check resolves it with the reference hasher).
   The transform table below is the same as in harness/src/bin/cache.rs and vlib/props/c12.py. *)

let n256 = n_of_int 256
let ints_of_ns l = List.map int_of_n l
let ns_of_ints l = List.map n_of_int l
let bytes_of_string s = List.init (String.length s) (fun i -> n_of_int (Char.code s.[i]))

let rec take k l = if k <= 0 then [] else match l with [] -> [] | x :: r -> x :: take (k - 1) r

let base64 (d : int list) : int list =
  let tbl = "ABCDEFGHIJKLMNOPQRSTUVWXYZabcdefghijklmnopqrstuvwxyz0123456789+/" in
  let c i = Char.code tbl.[i] in
  let rec go = function
    | [] -> []
    | [a] -> [c (a lsr 2); c ((a land 3) lsl 4); 61; 61]
    | [a; b] -> [c (a lsr 2); c (((a land 3) lsl 4) lor (b lsr 4)); c ((b land 15) lsl 2); 61]
    | a :: b :: e :: r ->
      c (a lsr 2) :: c (((a land 3) lsl 4) lor (b lsr 4)) :: c (((b land 15) lsl 2) lor (e lsr 6)) :: c (e land 63) :: go r
  in go d

(* index -> (command string, Transform.in_place, Transform.copy, the function the configuration computes)
   copy = "$IN occurs in the command" and not --no-copy; entry 10 has copy forced to true by the harness
   (API only; before ea68843 its id read "<none>").  11 / 12 used to get the same id "sed y/abc/xyz/ $IN --in-place":
   11 passes --in-place to sed (edits the temporary copy, prints nothing), 12 is fclones' --in-place around a sed
   that only prints (the file is read back unchanged).  Both are regression configurations now. *)
let sedmap d = List.map (fun b -> if b >= 97 && b <= 99 then b + 23 else b) d
let ttable : (string * bool * bool * (int list -> int list option)) array = [|
  ("cat", false, false, (fun d -> Some d));
  ("head -c 3", false, false, (fun d -> Some (take 3 d)));
  ("tr a-m n-z", false, false, (fun d -> Some (List.map (fun b -> if b >= 97 && b <= 109 then b + 13 else b) d)));
  ("base64 -w0", false, false, (fun d -> Some (base64 d)));
  ("false", false, false, (fun _ -> None));
  ("vk_failz", false, false, (fun d -> match d with 122 :: _ -> None | _ -> Some d));
  ("sed -i y/abc/xyz/ $IN", false, true, (fun _ -> Some []));
  ("sed -i y/abc/xyz/ $IN", true, true, (fun d -> Some (sedmap d)));
  ("cat $IN", false, true, (fun d -> Some d));
  ("cat $IN", false, false, (fun d -> Some d));
  ("<none>", false, true, (fun d -> Some (take 2 d)));
  ("sed y/abc/xyz/ $IN --in-place", false, true, (fun _ -> Some []));
  ("sed y/abc/xyz/ $IN", true, true, (fun d -> Some d));
  (* two DIFFERENT programs with the same file name in different directories (paths relative to the working
     directory of the harness / of fclones) and identical argument text: the verbatim command strings differ *)
  ("v1/vk_norm", false, false, (fun d -> Some (take 3 d)));
  ("v2/vk_norm", false, false, (fun d -> Some d));
  (* the same transforms as 1 and 0 spelled with other whitespace: other verbatim strings, so other trees *)
  ("head  -c 3", false, false, (fun d -> Some (take 3 d)));
  ("cat ", false, false, (fun d -> Some d));
|]

let tconf_of_index i =
  let (cmd, ip, cp, _) = ttable.(i) in { t_cmd = bytes_of_string cmd; t_inplace = ip; t_copy = cp }

let model_T (c : tconf) (d : n list) : n list option =
  let found = ref None in
  Array.iter (fun (cmd, ip, cp, f) ->
      if !found = None && bytes_of_string cmd = c.t_cmd && ip = c.t_inplace && cp = c.t_copy then found := Some f) ttable;
  match !found with
  | None -> failwith "unknown transform"
  | Some f -> (match f (ints_of_ns d) with None -> None | Some r -> Some (ns_of_ints r))

let model_H (a : n) (d : n list) : n list = n256 :: a :: d

let show_hash (h : n list) : string =
  match h with
  | m :: a :: d when m = n256 -> "H" ^ soi (int_of_n a) ^ "(" ^ field_of_ints (ints_of_ns d) ^ ")"
  | _ -> if h = [] then "-" else String.concat "" (List.map (fun b -> Printf.sprintf "%02x" (int_of_n b)) h)

let show_meta (m : meta) : string =
  Printf.sprintf "@%d,%d,%d" (int_of_n (snd m.m_id)) (int_of_z m.m_mtime) (int_of_n m.m_len)

let tr_of_field f = if f = "-" then None else Some (tconf_of_index (ios f))
let dev = n_of_int 1
let nf f = n_of_int (ios f)
let zf f = z_of_int (ios f)
let bf f = ns_of_ints (ints_of_field f)

let () = iter_lines (fun line ->
  match split_ws line with
  | [] -> "EXN empty line"
  | id :: ops ->
    let w = ref empty_world and c = ref [] in
    let ms = ref [empty_world] and cs = ref [] in
    let direct = ref None and hasher = ref None in
    let hits = ref 0 and dirs = ref [] in
    let edit e = w := apply_edit !w e; ms := !w :: !ms; "." in
    let out = List.map (fun tok ->
      match split_on ':' tok with
      | ["c"; p; b; mt; ino] ->
        if ino = "-" then "i-"
        else begin
          let before = !w in
          ignore (edit (ECreate (nf p, (dev, nf ino), bf b, zf mt)));
          if !w == before then "i!" else "i" ^ ino
        end
      | ["m"; p; mt; ino; len] ->
        if ino = "-" then "i-"
        else begin
          let before = !w in
          ignore (edit (ECreate (nf p, (dev, nf ino), List.init (ios len) (fun _ -> N0), zf mt)));
          dirs := nf p :: !dirs;
          if !w == before then "i!" else "i" ^ ino ^ "," ^ len
        end
      | ["w"; p; b; mt] -> edit (EWrite (nf p, bf b, zf mt))
      | ["a"; p; b; mt] -> edit (EAppend (nf p, bf b, zf mt))
      | ["t"; p; n; mt] -> edit (ETruncate (nf p, nf n, zf mt))
      | ["u"; p; mt] -> edit (ETouch (nf p, zf mt))
      | ["r"; p; q] -> edit (ERename (nf p, nf q))
      | ["d"; p] -> edit (EUnlink (nf p))
      | ["l"; p; q] -> edit (ELink (nf p, nf q))
      | ["O"; a; tr] -> direct := Some (nf a, tr_of_field tr); "."
      | ["C"] -> direct := None; "."
      | ["HO"; a; tr] -> hasher := Some (nf a, tr_of_field tr); cs := (nf a, tr_of_field tr) :: !cs; "."
      | ["HC"] -> hasher := None; "."
      | ["P"; p; pos; len; dl; h] ->
        (match !direct with
         | None -> "EXN no open cache"
         | Some (a, tr) ->
           (match stat !w (nf p) with
            | None -> "nofile"
            | Some (m, _) ->
              c := cache_put (tree_of a tr) (cache_key m (nf pos) (nf len)) m (nf dl) (bf h) !c;
              "ok" ^ show_meta m))
      | ["G"; p; pos; len] ->
        (match !direct with
         | None -> "EXN no open cache"
         | Some (a, tr) ->
           (match stat !w (nf p) with
            | None -> "nofile"
            | Some (m, _) ->
              (match cache_get (tree_of a tr) (cache_key m (nf pos) (nf len)) m !c with
               | None -> "n" ^ show_meta m
               | Some (dl, h) -> "s:" ^ soi (int_of_n dl) ^ ":" ^ show_hash h ^ show_meta m)))
      | [("H" | "X") as k; p; pos; len] ->
        (match !hasher with
         | None -> "EXN no hasher"
         | Some (a, tr) ->
           if (k = "H") <> (tr = None) then "EXN call does not fit the hasher" else
           let cl = { c_path = nf p; c_pos = nf pos; c_len = nf len; c_io = (if List.mem (nf p) !dirs then IoReadFails else IoOk) } in
           let (r, c') = hash_cached model_H model_T a tr !c !w cl in
           (match r with (RHash _ | RTHash _) when c' == !c -> incr hits | _ -> ());
           c := c';
           let meta = match stat !w (nf p) with None -> "" | Some (m, _) -> show_meta m in
           (match r with
            | RHash h -> "ok:" ^ show_hash h ^ meta
            | RTHash (dl, h) -> "ok:" ^ soi (int_of_n dl) ^ ":" ^ show_hash h ^ meta
            | RFail -> "err"
            | RPanic -> "panic"))
      | _ -> "EXN bad token " ^ tok) ops in
    let ws = List.rev !ms in
    Printf.sprintf "%s | %s | sd=%s md=%s frac=%s sw=%s hits=%d" id (String.concat " " out)
      (sob (stamp_determines_b ws)) (sob (mtime_determines_b ws)) (sob (preepoch_fraction_b ws)) (sob (stepwise_b ws)) !hits)
