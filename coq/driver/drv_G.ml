(* drv_G.ml — line-protocol driver of the staged-grouping model (engine G).
   One case per line, 13 space-separated fields:
     <ndmode> <transform 0|1> <skip 0|1> <repl O<n>|U<n>> <by_id 0|1> <maxprefix n|-> <maxsuffix n|->
     <minsize n> <maxsize n|-> <kinds [ush]*> <roots> <files> <hashes>
   path   : components separated by ',', each component hex-encoded bytes (the root component "/" is 2f)
   roots  : '-' or paths separated by ';'
   files  : '-' or entries separated by ';', each  path:dev:ino:devidx:len
   hashes : '-' or entries separated by ';', each  fileidx:pos:len:hex | fileidx:pos:len:!   (chunk hash / failed)
                                                  fileidx:T:outlen:hex | fileidx:T:!:!      (transformed)
   Output: groups separated by '|', each  len:hexhash:path;path;...   ('-' when there is no group)
   A chunk the model asks for that is not in the table makes the case fail with EXN Failure "MISSING ...".
   Second form:  Q <repl> <by_id> <roots> <files>   -> subgroup_count matches_strictly redundant missing unique_count(sorted) *)
let hexval c = match c with
  | '0'..'9' -> Char.code c - 48 | 'a'..'f' -> Char.code c - 87 | 'A'..'F' -> Char.code c - 55
  | _ -> failwith "bad hex"
let bytes_of_hex s =
  let n = String.length s / 2 in
  List.init n (fun i -> n_of_int (16 * hexval s.[2*i] + hexval s.[2*i+1]))
let hex_of_bytes l = String.concat "" (List.map (fun b -> Printf.sprintf "%02x" (int_of_n b)) l)
let path_of_field s = List.map bytes_of_hex (split_on ',' s)
let field_of_path p = String.concat "," (List.map hex_of_bytes p)
let list_field sep s = if s = "-" || s = "" then [] else split_on sep s
let opt_n s = if s = "-" then None else Some (n_of_int (ios s))
let kind_of_char = function 's' -> SSD | 'h' -> HDD | _ -> UnknownKind
let repl_of s =
  let n = n_of_int (ios (String.sub s 1 (String.length s - 1))) in
  if s.[0] = 'O' then Over n else Under n

let file_of_field s =
  match split_on ':' s with
  | [p; dev; ino; di; len] ->
    let di = n_of_int (ios di) and ino = n_of_int (ios ino) in
    { fpath = path_of_field p; fid = (n_of_int (ios dev), ino); fdev = di; floc = initial_loc di ino;
      flen = n_of_int (ios len); fdata = [] }
  | _ -> failwith ("bad file " ^ s)

let show_groups gs =
  if gs = [] then "-" else
  String.concat "|" (List.map (fun g ->
    Printf.sprintf "%d:%s:%s" (int_of_n g.glen) (hex_of_bytes g.ghash)
      (String.concat ";" (List.map (fun f -> field_of_path f.fpath) g.gfiles))) gs)

let mkcfg_of repl byid roots kinds maxp maxs minsz maxsz skip tr =
  let kinds_arr = Array.of_seq (String.to_seq kinds) in
  { max_prefix = maxp; max_suffix = maxs;
    dkind = (fun i -> let i = int_of_n i in if i < Array.length kinds_arr then kind_of_char kinds_arr.(i) else UnknownKind);
    repl = repl; roots = roots; by_id = byid; skip_content = skip; transform = tr;
    min_size = minsz; max_size = maxsz }

let () = iter_lines (fun line ->
  match split_ws line with
  | ["Q"; repl; byid; roots; files] ->
    let c = mkcfg_of (repl_of repl) (byid = "1") (List.map path_of_field (list_field ';' roots)) "" None None N0 None false false in
    let fs = List.map file_of_field (list_field ';' files) in
    let g = { glen = N0; ghash = []; gfiles = fs } in
    Printf.sprintf "%d %s %d %d %d" (int_of_n (subgroup_count c fs)) (sob (matches_strictly c g))
      (int_of_n (redundant_count c g)) (int_of_n (missing_count c g)) (int_of_n (unique_count (sort_by_id fs)))
  | [ndm; tr; skip; repl; byid; maxp; maxs; minsz; maxsz; kinds; roots; files; hashes] ->
    let fs = List.map file_of_field (list_field ';' files) in
    let farr = Array.of_list (list_field ';' files) in
    let key_of_idx i = List.hd (split_on ':' farr.(i)) in
    let chunks : (string * int * int, hash option) Hashtbl.t = Hashtbl.create 64 in
    let trans : (string, (n * hash) option) Hashtbl.t = Hashtbl.create 16 in
    List.iter (fun e ->
      match split_on ':' e with
      | [i; "T"; "!"; _] -> Hashtbl.replace trans (key_of_idx (ios i)) None
      | [i; "T"; l; h] -> Hashtbl.replace trans (key_of_idx (ios i)) (Some (n_of_int (ios l), bytes_of_hex h))
      | [i; pos; len; "!"] -> Hashtbl.replace chunks (key_of_idx (ios i), ios pos, ios len) None
      | [i; pos; len; h] -> Hashtbl.replace chunks (key_of_idx (ios i), ios pos, ios len) (Some (bytes_of_hex h))
      | _ -> failwith ("bad hash entry " ^ e)) (list_field ';' hashes);
    let o = { o_chunk = (fun f pos len ->
                let k = (field_of_path f.fpath, int_of_n pos, int_of_n len) in
                match Hashtbl.find_opt chunks k with
                | Some r -> r
                | None -> let (a, b, c) = k in failwith (Printf.sprintf "MISSING %s %d %d" a b c));
              o_trans = (fun f ->
                match Hashtbl.find_opt trans (field_of_path f.fpath) with
                | Some r -> r
                | None -> failwith ("MISSING T " ^ field_of_path f.fpath)) } in
    let c = mkcfg_of (repl_of repl) (byid = "1") (List.map path_of_field (list_field ';' roots)) kinds
        (opt_n maxp) (opt_n maxs) (n_of_int (ios minsz)) (opt_n maxsz) (skip = "1") (tr = "1") in
    show_groups (group_files_gen o c (nd_of_mode (n_of_int (ios ndm))) fs)
  | ["K"] ->
    String.concat " " (List.map (fun k -> Printf.sprintf "%d,%d,%d,%d" (int_of_n (min_prefix_len k)) (int_of_n (max_prefix_len k))
                                    (int_of_n (suffix_len k)) (int_of_n (suffix_threshold k))) [SSD; HDD; UnknownKind])
  | _ -> "EXN malformed line")
