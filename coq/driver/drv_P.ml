(* drv_P.ml — line-protocol driver of the pattern model (engine P); same protocol as
   harness/src/bin/glob.rs:
     D <ci> <glob> <path>*          -> ok <text> <res>* | err | panic | unsup | fuel
     S <ci> <base> <glob> <path>*   -> ok - <res>*      | err | ...
     M <ci> <base> <incs> <excs> <names> <path>*  -> ok - <res>* | err   (lists: comma separated, "_" = empty)
     F <regex text>                 -> fp <prefix> <max_suffix_len or ->
     L <c>                          -> low <to_lowercase(c)>
   strings are dot-separated decimal code points, "-" = empty *)
let str_of_field f = List.map n_of_int (ints_of_field f)
let field_of_str s = field_of_ints (List.map int_of_n s)
let bits l = String.concat "" (List.map sob l)

let direct ci glob paths =
  match compile_glob ci glob with
  | Ok p ->
    let res path =
      let qs = slash_prefixes path in
      sob (pat_matches p path) ^ sob (pat_matches_prefix p path) ^ ":"
      ^ bits (List.map (pat_matches_partially p) qs) ^ ":"
      ^ bits (List.map (pat_matches_prefix p) qs) ^ ":" ^ sob (pat_matches_partially p path) in
    String.concat " " (("ok " ^ field_of_str (pat_text p)) :: List.map res paths)
  | Err -> "err" | Panic -> "panic" | Unsup -> "unsup" | Fuel -> "fuel"

let selector ci base glob paths =
  match compile_glob ci glob with
  | Ok p ->
    let b = path_of_string base in
    let inc = include_paths (sel_new b) [p] in
    let exc = exclude_paths (sel_new b) [p] in
    let nam = include_names (sel_new b) [p] in
    let res path =
      let pp = path_of_string path in
      let ds = List.map path_of_string (ancestors path) in
      sob (matches_full_path inc pp) ^ sob (matches_full_path exc pp) ^ sob (matches_full_path nam pp) ^ ":"
      ^ bits (List.map (matches_dir inc) ds) ^ ":"
      ^ bits (List.map (matches_dir exc) ds) ^ ":" ^ sob (matches_dir inc pp) ^ sob (matches_dir exc pp) in
    String.concat " " ("ok -" :: List.map res paths)
  | Err -> "err" | Panic -> "panic" | Unsup -> "unsup" | Fuel -> "fuel"

let list_of_field f = if f = "_" then [] else List.map str_of_field (split_on ',' f)

let rec compile_all ci = function
  | [] -> Some []
  | g :: t -> (match compile_glob ci g, compile_all ci t with
               | Ok p, Some l -> Some (p :: l)
               | _ -> None)

let multi ci base incs excs names paths =
  match compile_all ci incs, compile_all ci excs, compile_all ci names with
  | Some i, Some e, Some n ->
    let b = path_of_string base in
    let sel0 = include_paths (include_names (sel_new b) n) i in
    let sel = exclude_paths sel0 e in
    let res path =
      let pp = path_of_string path in
      let ds = List.map path_of_string (ancestors path) in
      sob (matches_full_path sel pp) ^ sob (matches_full_path sel0 pp) ^ ":"
      ^ bits (List.map (matches_dir sel) ds) ^ ":" ^ bits (List.map (matches_dir sel0) ds) ^ ":"
      ^ sob (matches_dir sel pp) ^ sob (matches_dir sel0 pp) in
    String.concat " " ("ok -" :: List.map res paths)
  | _ -> "err"     (* some glob Err/Unsup/...: the python side compares only when every glob is in the fragment *)

let () = iter_lines (fun line ->
  match split_ws line with
  | "D" :: ci :: glob :: paths -> direct (ci = "1") (str_of_field glob) (List.map str_of_field paths)
  | "S" :: ci :: base :: glob :: paths ->
    selector (ci = "1") (str_of_field base) (str_of_field glob) (List.map str_of_field paths)
  | "M" :: ci :: base :: incs :: excs :: names :: paths ->
    multi (ci = "1") (str_of_field base) (list_of_field incs) (list_of_field excs) (list_of_field names)
      (List.map str_of_field paths)
  | ["F"; t] ->
    let (p, m) = get_fixed_prefix (str_of_field t) in
    "fp " ^ field_of_str p ^ " " ^ (match m with Some k -> soi (int_of_n k) | None -> "-")
  | ["L"; c] -> "low " ^ soi (int_of_n (lower (n_of_int (ios c))))
  | _ -> "EXN malformed line")
