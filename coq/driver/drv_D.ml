(* drv_D.ml — line-protocol driver of the dedupe model (engine D).

   G <op> <n> <mlinks> <nosize> <mbefore> <prio> <glen> <roots> <npat> | <member> ; <member> ; ...
   M <transform> <hmlinks> <rfover> <rfunder> <unique> <isolate> <inputs> <ts> # <same fields as G> | members
   H ...                          (history model of C04, see below)

     op       rm | sl | hl | rl | mv:<path>
     n        - | int                      mbefore  - | int (ns)
     prio     - | comma separated 0..11 (Top Bottom Newest Oldest MRM LRM MRA LRA MRSC LRSC MostNested LeastNested)
     roots    - | comma separated paths     path = components joined by '/', each component in hex
     npat     a,b,c,d = number of --keep-name, --keep-path, --name, --path patterns
     member   <path> !                                  (metadata unreadable)
              <path> <dev> <ino> <len> <isfile> <mtime|-> <atime|-> <btime|-> <ctime_s>,<ctime_ns>
                     <kn bits> <kp bits> <dn bits> <dp bits> <same_mount>     (bits: 0/1 string or -)

   output of G:   P <pres> ## S <parts>
     pres    nometa | ok K=i,i D=i,i | err:modified | err:sortkey | panic
     parts   - | <dev>:<cmd>,<cmd> || <dev>:...      (parts with commands only, ascending device; dev = * when
             the group is not split by device)   cmd = rm:i | sl:t>i | hl:t>i | rl:t>i | mv:i><path>:<0|1>
   output of M:   <pres of partition (merge h c)> ## <pres of partition (explicit h c)> *)

let hex_to_bytes s =
  let n = String.length s / 2 in
  List.init n (fun i -> n_of_int (int_of_string ("0x" ^ String.sub s (2 * i) 2)))
let bytes_to_hex l = String.concat "" (List.map (fun b -> Printf.sprintf "%02x" (int_of_n b)) l)
let parse_path s = List.map hex_to_bytes (split_on '/' s)
let print_path p = String.concat "/" (List.map bytes_to_hex p)
let parse_list f s = if s = "-" then [] else List.map f (split_on ',' s)
let opt f s = if s = "-" then None else Some (f s)
let bit s j = s <> "-" && j < String.length s && s.[j] = '1'

let prio_of_int = function
  | 0 -> Top | 1 -> Bottom | 2 -> Newest | 3 -> Oldest | 4 -> MostRecentlyModified
  | 5 -> LeastRecentlyModified | 6 -> MostRecentlyAccessed | 7 -> LeastRecentlyAccessed
  | 8 -> MostRecentStatusChange | 9 -> LeastRecentStatusChange | 10 -> MostNested | 11 -> LeastNested
  | _ -> failwith "priority"

type mem = { idx : int; pth : path; mt : meta option; kn : string; kp : string; dn : string; dp : string; sm : bool }

let parse_member idx s =
  match split_ws s with
  | [p; "!"] -> { idx; pth = parse_path p; mt = None; kn = "-"; kp = "-"; dn = "-"; dp = "-"; sm = false }
  | [p; dev; ino; len; isf; mt; at; bt; ct; kn; kp; dn; dp; sm] ->
    let pth = parse_path p in
    let cs, cn = match split_on ',' ct with [a; b] -> z_of_int (ios a), z_of_int (ios b) | _ -> failwith "ctime" in
    let zo = opt (fun x -> z_of_int (ios x)) in
    { idx; pth; kn; kp; dn; dp; sm = (sm = "1");
      mt = Some { mpath = pth; mdev = n_of_int (ios dev); mino = n_of_int (ios ino); mlen = n_of_int (ios len);
                  mfile = (isf = "1"); mmtime = zo mt; matime = zo at; mbtime = zo bt; mctime = (cs, cn) } }
  | _ -> failwith ("bad member: " ^ s)

let split_members s =
  List.filter (fun x -> String.trim x <> "") (split_on ';' s)

let find_mem mems p = List.find (fun m -> m.pth = p) mems
let idx_of mems (m : meta) = (find_mem mems m.mpath).idx

let parse_cfg mems = function
  | [op; n; ml; ns; mb; pr; glen; roots; npat] ->
    let op = if op = "rm" then OpRemove else if op = "sl" then OpSoftLink else if op = "hl" then OpHardLink
      else if op = "rl" then OpRefLink
      else if String.length op > 3 && String.sub op 0 3 = "mv:" then OpMove (parse_path (String.sub op 3 (String.length op - 3)))
      else failwith "op" in
    let a, b, c, d = match List.map ios (split_on ',' npat) with [a; b; c; d] -> a, b, c, d | _ -> failwith "npat" in
    let mk sel k = List.init k (fun j -> fun p -> try bit (sel (find_mem mems p)) j with Not_found -> false) in
    let cfg = { n_opt = opt (fun x -> nat_of_int (ios x)) n;
                keep = keep_rule (mk (fun m -> m.kn) a) (mk (fun m -> m.kp) b);
                may_drop = drop_rule (mk (fun m -> m.dn) c) (mk (fun m -> m.dp) d);
                iso = parse_list parse_path roots; mlinks = (ml = "1"); no_size = (ns = "1");
                mbefore = opt (fun x -> z_of_int (ios x)) mb;
                prio = parse_list (fun x -> prio_of_int (ios x)) pr } in
    (op, cfg, n_of_int (ios glen))
  | _ -> failwith "bad config fields"

let idxs mems l = if l = [] then "-" else String.concat "," (List.map (fun m -> soi (idx_of mems m)) l)
let print_pres mems = function
  | Ok (k, d) -> "ok K=" ^ idxs mems k ^ " D=" ^ idxs mems d
  | Err EModified -> "err:modified"
  | Err ESortKey -> "err:sortkey"
  | Panic -> "panic"
let print_cmd mems c =
  let i m = soi (idx_of mems m) in
  match c with
  | Remove m -> "rm:" ^ i m
  | SoftLink (t, l) -> "sl:" ^ i t ^ ">" ^ i l
  | HardLink (t, l) -> "hl:" ^ i t ^ ">" ^ i l
  | RefLink (t, l) -> "rl:" ^ i t ^ ">" ^ i l
  | Move (s, tgt, rn) -> "mv:" ^ i s ^ ">" ^ print_path tgt ^ ":" ^ sob rn

let run_g fields memstr =
  let mems = List.mapi parse_member (split_members memstr) in
  let op, cfg, glen = parse_cfg mems fields in
  let same_mount p _ = try (find_mem mems p).sm with Not_found -> false in
  let metas = List.map (fun m -> m.mt) mems in
  let pres =
    if List.exists (fun m -> m = None) metas then "nometa"
    else print_pres mems (d_partition cfg glen (List.map (function Some m -> m | None -> assert false) metas)) in
  let split = (match op with OpHardLink | OpRefLink -> true | _ -> false) in
  let sres = match dedupe_group op cfg same_mount glen metas with
    | GSkippedNoMetadata -> "-"
    | GParts parts ->
      let ps = List.filter_map (fun (_, s) ->
          match s with
          | Ok [] -> None
          | Ok (c :: cs) ->
            let dev = if split then int_of_n (cmd_victim c).mdev else -1 in
            Some (dev, String.concat "," (List.map (print_cmd mems) (c :: cs)))
          | Err _ -> None
          | Panic -> Some (-2, "panic")) parts in
      let ps = List.sort compare ps in
      if ps = [] then "-"
      else String.concat " || " (List.map (fun (d, s) -> (if d = -1 then "*" else if d = -2 then "!" else soi d) ^ ":" ^ s) ps) in
  "P " ^ pres ^ " ## S " ^ sres

let run_m hf fields memstr =
  let mems = List.mapi parse_member (split_members memstr) in
  let _, cfg, glen = parse_cfg mems fields in
  match hf with
  | [tr; hml; rfo; rfu; un; isol; inputs; ts] ->
    let h = { h_transform = (tr = "1"); h_mlinks = (hml = "1"); h_rf_over = opt (fun x -> nat_of_int (ios x)) rfo;
              h_rf_under = (rfu = "1"); h_unique = (un = "1"); h_isolate = (isol = "1");
              h_inputs = parse_list parse_path inputs; h_ts = z_of_int (ios ts) } in
    let metas = List.map (fun m -> match m.mt with Some x -> x | None -> failwith "nometa") mems in
    print_pres mems (d_partition (merge h cfg) glen metas) ^ " ## " ^ print_pres mems (d_partition (explicit h cfg) glen metas)
  | _ -> failwith "bad header fields"

(* H <op> <n> <mlinks> <nosize> <mbefore> <prio> <glen> <roots> [<npat>] <D hex|-> | <hmember> ; ...
     hmember  <path> <dev> <ino> <atime|-> <btime|-> <ctime_s>,<ctime_ns> <m0> <r> <same_mount> [<kn> <kp> <dn> <dp> bits] <ops>
     ops      - | comma separated <t>:<kind>[:<arg>]   kinds: w:<hex> a:<hex> tr:<n> touch unlink re:<hex> nonreg dangling
   output:  F <node> <node> ... ## S <parts>      node = M | N | F:<hex|->:<mtime>   (state of each path at the dedupe run) *)
let parse_data s = if s = "-" then [] else hex_to_bytes s
let print_data d = if d = [] then "-" else bytes_to_hex d
let parse_hop s =
  match split_on ':' s with
  | [t; "w"; d] -> (z_of_int (ios t), HWrite (parse_data d))
  | [t; "a"; d] -> (z_of_int (ios t), HAppend (parse_data d))
  | [t; "tr"; n] -> (z_of_int (ios t), HTruncate (nat_of_int (ios n)))
  | [t; "touch"] -> (z_of_int (ios t), HTouch)
  | [t; "unlink"] -> (z_of_int (ios t), HUnlink)
  | [t; "re"; d] -> (z_of_int (ios t), HRecreate (parse_data d))
  | [t; "nonreg"] -> (z_of_int (ios t), HReplaceNonReg)
  | [t; "dangling"] -> (z_of_int (ios t), HReplaceDangling)
  | _ -> failwith ("bad op " ^ s)

let run_h fields memstr =
  let parse_hm idx s =
    match split_ws s with
    | [p; dev; ino; at; bt; ct; m0; r; sm; ops] | [p; dev; ino; at; bt; ct; m0; r; sm; _; _; _; _; ops] ->
      let kn, kp, dn, dp = (match split_ws s with
          | [_; _; _; _; _; _; _; _; _; a; b; c; d; _] -> a, b, c, d
          | _ -> "-", "-", "-", "-") in
      let pth = parse_path p in
      let cs, cn = match split_on ',' ct with [a; b] -> z_of_int (ios a), z_of_int (ios b) | _ -> failwith "ctime" in
      let zo = opt (fun x -> z_of_int (ios x)) in
      let base = { mpath = pth; mdev = n_of_int (ios dev); mino = n_of_int (ios ino); mlen = N0; mfile = true;
                   mmtime = None; matime = zo at; mbtime = zo bt; mctime = (cs, cn) } in
      ({ idx; pth; mt = Some base; kn; kp; dn; dp; sm = (sm = "1") },
       { hbase = base; hr = z_of_int (ios r); hm0 = z_of_int (ios m0); hops = parse_list parse_hop ops })
    | _ -> failwith ("bad hmember: " ^ s) in
  let both = List.mapi parse_hm (split_members memstr) in
  let mems = List.map fst both and hms = List.map snd both in
  let fields = (match fields with
      | [op; n; ml; ns; mb; pr; glen; roots; d] -> [op; n; ml; ns; mb; pr; glen; roots; "0,0,0,0"; d]
      | f -> f) in
  match fields with
  | [op; n; ml; ns; mb; pr; glen; roots; npat; d] ->
    let op, cfg, glen = parse_cfg mems [op; n; ml; ns; mb; pr; glen; roots; npat] in
    let dd = parse_data d in
    let same_mount p _ = try (find_mem mems p).sm with Not_found -> false in
    let nodes = List.map (fun m -> match final dd m with
        | NMissing -> "M" | NNonReg -> "N"
        | NFile (x, mt) -> "F:" ^ print_data x ^ ":" ^ soi (int_of_z mt)) hms in
    let split = (match op with OpHardLink | OpRefLink -> true | _ -> false) in
    let sres = match hist_run dd hms op cfg same_mount glen with
      | GSkippedNoMetadata -> "-"
      | GParts parts ->
        let ps = List.filter_map (fun (_, s) ->
            match s with
            | Ok [] -> None
            | Ok (c :: cs) ->
              let dev = if split then int_of_n (cmd_victim c).mdev else -1 in
              Some (dev, String.concat "," (List.map (print_cmd mems) (c :: cs)))
            | Err _ -> None
            | Panic -> Some (-2, "panic")) parts in
        let ps = List.sort compare ps in
        if ps = [] then "-"
        else String.concat " || " (List.map (fun (d, s) -> (if d = -1 then "*" else if d = -2 then "!" else soi d) ^ ":" ^ s) ps) in
    "F " ^ String.concat " " nodes ^ " ## S " ^ sres
  | _ -> failwith "bad H fields"

let () = iter_lines (fun line ->
  match split_on '|' line with
  | [head; memstr] ->
    (match split_ws head with
     | "G" :: fields -> run_g fields memstr
     | "H" :: fields -> run_h fields memstr
     | "M" :: rest ->
       let rec cut acc = function "#" :: r -> (List.rev acc, r) | x :: r -> cut (x :: acc) r | [] -> failwith "no #" in
       let hf, fields = cut [] rest in
       run_m hf fields memstr
     | _ -> "EXN malformed line")
  | [head] -> "EXN malformed line"
  | _ -> "EXN malformed line")
