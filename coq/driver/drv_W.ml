(* drv_W.ml — line-protocol driver of the walk model (WalkModel.v).
   input line, fields separated by '|':
     0 config : depth hidden follow report no_ignore one_fs min max     (depth/max: integer or "inf")
     1 sched  : lifo | fifo | rand:<seed>
     2 roots  : ';'-separated raw input paths (already joined with the base dir, relative to the
                virtual root), each a ','-separated list of components, a component = dotted bytes;
                "-" = the virtual root itself; the whole field "" = no roots
     3 tree   : ';'-separated nodes  parent,name,dev,K[,...]   node 0 is the virtual root (parent -1)
                K = F,<len> | D | L,<a|r>,<components separated by ':'> | O
     4 sel_file bits (one character 0/1 per node)      5 sel_dir bits
     6 ignore table: ','-separated pairs d:p (ignore file of directory node d matches node p) or "-"
   output: ok <walk result: sorted node indices, dotted, with repetitions> | <scan result> | <bound>
       or  fuel *)
let comp_of_field f : comp = List.map n_of_int (ints_of_field f)
let key_of_comp (c : comp) = String.concat "." (List.map (fun x -> soi (int_of_n x)) c)
let key_of_path (p : path) = String.concat "/" (List.map key_of_comp p)

let big = n_of_int max_int
let num s = if s = "inf" then big else n_of_int (ios s)
let flag s = s = "1"

let () = iter_lines (fun line ->
  match List.map String.trim (split_on '|' line) with
  | [cfg; sch; roots; tree; selfb; seldb; ign] ->
    let cfg = match split_ws cfg with
      | [d; h; f; r; ni; ofs; mn; mx] ->
        { c_depth = num d; c_hidden = flag h; c_follow = flag f; c_report = flag r; c_no_ignore = flag ni;
          c_one_fs = flag ofs; c_min = num mn; c_max = num mx }
      | _ -> failwith "config" in
    let sched = match split_on ':' sch with
      | ["lifo"] -> sched_lifo
      | ["fifo"] -> sched_fifo
      | ["rand"; s] -> sched_rand (nat_of_int (ios s))
      | _ -> failwith "sched" in
    let parse_path f = if f = "-" then [] else List.map comp_of_field (split_on ',' f) in
    let roots = if roots = "" then [] else List.map parse_path (split_on ';' roots) in
    let nodes = Array.of_list (split_on ';' tree) in
    let n = Array.length nodes in
    let paths = Array.make n [] in
    let tbl = Hashtbl.create 97 in
    let t = ref [] in
    Array.iteri (fun i s ->
        match split_on ',' s with
        | par :: name :: dev :: k :: rest ->
          let par = ios par in
          let p = if par < 0 then [] else paths.(par) @ [comp_of_field name] in
          paths.(i) <- p;
          Hashtbl.replace tbl (key_of_path p) i;
          let kind = match k, rest with
            | "F", [len] -> KFile (num len)
            | "D", [] -> KDir
            | "L", [ab; tg] -> KLink (ab = "a", if tg = "" then [] else List.map comp_of_field (split_on ':' tg))
            | "O", [] -> KOther
            | _ -> failwith ("node " ^ s) in
          t := (p, { n_kind = kind; n_dev = n_of_int (ios dev) }) :: !t
        | _ -> failwith ("node " ^ s)) nodes;
    let t = List.rev !t in
    let idx p = Hashtbl.find_opt tbl (key_of_path p) in
    let bit s p = match idx p with Some i -> i < String.length s && s.[i] = '1' | None -> false in
    let igt = Hashtbl.create 97 in
    if ign <> "-" && ign <> "" then
      List.iter (fun pr -> match split_on ':' pr with
          | [d; p] -> Hashtbl.replace igt (ios d, ios p) ()
          | _ -> failwith "ign") (split_on ',' ign);
    let ign1 d p _isdir = match idx d, idx p with
      | Some a, Some b -> Hashtbl.mem igt (a, b)
      | _ -> false in
    let show = function
      | OutOfFuel -> None
      | Done l ->
        let ids = List.map (fun p -> match idx p with Some i -> i | None -> -1) l in
        Some (field_of_ints (List.sort compare ids)) in
    let w = show (walk (bit selfb) (bit seldb) ign1 t cfg sched roots) in
    let s = show (scan (bit selfb) (bit seldb) ign1 t cfg sched roots) in
    (match w, s with
     | Some w, Some s -> Printf.sprintf "ok %s | %s | %d" w s (int_of_nat (walk_bound t cfg roots))
     | _ -> "fuel")
  | _ -> "EXN malformed line")
