(* TempNameModel.v — dedupe.rs FsCommand::temp_file: the name a victim is parked under while it is replaced by a link
   (<name>.<24 random alphanumerics> in the same directory).  Since fix d75e85d a name longer than 230 bytes is shortened
   first — cut at 230 bytes, moved back while the byte AT the cut is a UTF-8 continuation byte — so that the result fits
   into NAME_MAX = 255.  Names are byte lists.  No proofs here. *)
From FV Require Import Base.
Open Scope N_scope.

Definition max_stem : nat := 230.          (* 255 - 25 *)

(* (b & 0xC0) == 0x80 *)
Definition is_cont (b : N) : bool := (128 <=? b) && (b <? 192).

(* `let mut cut = MAX_LEN; while cut > 0 && (bytes[cut] & 0xC0) == 0x80 { cut -= 1 }` *)
Fixpoint cut_at (bytes : list N) (cut : nat) : nat :=
  match cut with
  | O => O
  | S c => if is_cont (nth cut bytes 0) then cut_at bytes c else cut
  end.

Definition temp_stem (name : list N) : list N :=
  if (length name <=? max_stem)%nat then name else firstn (cut_at name max_stem) name.

(* the whole temporary name: stem, '.', the random suffix *)
Definition temp_name (name sfx : list N) : list N := temp_stem name ++ 46 :: sfx.
