(* GroupProofs8.v — engine G, part 8 (C15): the pipeline under read faults.
   For EVERY fault oracle (path-specific ones included): nothing is duplicated, content classes are never split
   among the files that are still present, and a class none of whose members ever fails is treated exactly as in a
   fault-free run (reported iff it qualifies, as exactly the class).  Since the repair of K5 (a run of one inode tries
   its members in turn and only drops the members whose own read failed) a file that can itself be read at every
   stage is never lost, whatever happens to other paths — of its inode or of other files. *)
From FV Require Import Base ListLib GroupModel GroupProofs GroupProofs2 GroupProofs3 GroupProofs6.
From Coq Require Import Permutation.
Open Scope N_scope.

(* ------------------------------------------------------------------ lists: sub-permutations *)
Lemma sub_perm_flat_map {A B} (F G : A -> list B) l :
  (forall x, In x l -> exists lx, Permutation (F x ++ lx) (G x)) ->
  exists l', Permutation (flat_map F l ++ l') (flat_map G l).
Proof.
  induction l as [|x l IH]; intros Hx; cbn [flat_map].
  - exists []. reflexivity.
  - destruct (Hx x (or_introl eq_refl)) as (lx & Hlx).
    destruct IH as (lr & Hlr); [intros; apply Hx; right; auto|].
    exists (lx ++ lr). rewrite <- Hlx, <- Hlr. rewrite <- !app_assoc. apply Permutation_app_head.
    rewrite !app_assoc. apply Permutation_app_tail. apply Permutation_app_comm.
Qed.

Lemma map_flat_map {A B C} (g : B -> C) (f : A -> list B) l : map g (flat_map f l) = flat_map (fun x => map g (f x)) l.
Proof. induction l as [|x l IH]; cbn [flat_map map]; auto. rewrite map_app, IH. auto. Qed.

Lemma sub_perm_NoDup {A} (a l' b : list A) : Permutation (a ++ l') b -> NoDup b -> NoDup a /\ incl a b.
Proof.
  intros Hp Hn. split.
  - apply (NoDup_app_remove_r a l'). eapply Permutation_NoDup; [symmetry; exact Hp|auto].
  - intros x Hx. eapply Permutation_in; [exact Hp|]. apply in_or_app. left; auto.
Qed.

Section Faulty.
  Variable H : list N -> hash.
  Variable T : list N -> option (list N).
  Variable c : gcfg.
  Variable n : nd.
  Variable scanned : list file.
  Hypothesis Hnd : wf_nd n.
  Hypothesis Hids : wf_ids scanned.
  Hypothesis Hlen : wf_len scanned.
  Hypothesis Hpaths : wf_paths scanned.

  Let o := oracle_of H T.
  Notation ok := (ok c scanned).
  Notation invA := (invA c scanned).

  (* no member of the class of f ever fails *)
  Definition clean (f : file) : Prop := forall x st, ok x -> fdata x = fdata f -> fails n st x = false.
  (* no class is split among the files present *)
  Definition invS (gs : list group) : Prop :=
    forall g g' f f', In g gs -> In g' gs -> In f (gfiles g) -> In f' (gfiles g') -> fdata f = fdata f' -> g = g'.
  (* this path can be read at every stage *)
  Definition readable (f : file) : Prop := forall st, fails n st f = false.
  (* a readable file of the class of a present file is present in the same group *)
  Definition invBc (gs : list group) : Prop :=
    forall g f f', In g gs -> In f (gfiles g) -> ok f' -> readable f' -> fdata f' = fdata f -> In f' (gfiles g).

  Lemma clean_readable f x : clean f -> ok x -> fdata x = fdata f -> readable x.
  Proof. intros Hc Hx E st. apply Hc; auto. Qed.

  Lemma clean_class f f' : clean f -> fdata f' = fdata f -> clean f'.
  Proof. intros Hc E x st Hx Ex. apply Hc; auto. congruence. Qed.

  Lemma invB_invS gs : invA gs -> invB c scanned gs -> invS gs.
  Proof.
    intros [A1 A2] HB g g' f f' Hg Hg' Hf Hf' E.
    assert (Hok' : ok f') by (apply A2; eapply all_files_in; eauto).
    assert (Hfg : In f' (gfiles g)) by (eapply HB; eauto).
    apply (NoDup_flat_map_unique gfiles gs g g' f' A1 Hg Hg' Hfg Hf').
  Qed.

  Lemma invSBc_sort gs : invS gs -> invBc gs -> invS (map sort_group_by_id gs) /\ invBc (map sort_group_by_id gs).
  Proof.
    intros HS HB. split.
    - intros g g' f f' Hg Hg' Hf Hf' E. apply in_map_iff in Hg, Hg'. destruct Hg as (g0 & <- & Hg0). destruct Hg' as (g0' & <- & Hg0').
      cbn [sort_group_by_id gfiles] in *. apply sort_by_id_in1 in Hf, Hf'. f_equal. eapply HS; eauto.
    - intros g f f' Hg Hf Hok Hr E. apply in_map_iff in Hg. destruct Hg as (g0 & <- & Hg0). cbn [sort_group_by_id gfiles] in *.
      apply sort_by_id_in. apply sort_by_id_in1 in Hf. eapply HB; eauto.
  Qed.

  Lemma invSBc_filter (p : group -> bool) gs : invS gs -> invBc gs -> invS (filter p gs) /\ invBc (filter p gs).
  Proof.
    intros HS HB. split.
    - intros g g' f f' Hg Hg'. apply filter_In in Hg, Hg'. apply HS; tauto.
    - intros g f f' Hg. apply filter_In in Hg. apply HB; tauto.
  Qed.

  (* ---------------------------------------------------------------- one stage under faults *)
  Section FStep.
    Variables (st : stage) (pre : group -> bool) (hf : hash_fn) (newh : file -> hash -> hash).
    Hypothesis Hhf : forall f old, hf f old = if fails n st f then None else Some (newh f old, flen f).
    Hypothesis Hclass : forall f f' old, ok f -> ok f' -> fdata f = fdata f' -> newh f old = newh f' old.
    Variable gs : list group.
    Hypothesis HA : invA gs.
    Hypothesis HS : invS gs.
    Hypothesis HBc : invBc gs.

    Let raw := rehash_raw n st pre hf gs.
    Let items := items_of (filter pre gs).

    Lemma fitems_scanned x : In x items -> In (snd x) scanned.
    Proof.
      destruct x as [h f]. intros Hx. apply in_items_of in Hx. destruct Hx as (g & Hg & _ & Hf).
      apply filter_In in Hg. destruct Hg as [Hg _]. destruct HA as [_ A2]. destruct (A2 f) as [Hs _]; auto.
      apply (all_files_in gs g f); auto.
    Qed.

    Lemma hf_some f old h len : hf f old = Some (h, len) -> fails n st f = false /\ h = newh f old /\ len = flen f.
    Proof. rewrite Hhf. destruct (fails n st f); [discriminate|]. intros E. inversion E. auto. Qed.

    Lemma frun_sub run : run_ok scanned run -> exists lx, Permutation (map snd (hash_run hf run) ++ lx) (map snd run).
    Proof.
      intros [Hin Hh]. destruct run as [|[old hd] tl]; [exists []; reflexivity|].
      change (hash_run hf ((old, hd) :: tl)) with (hash_from hf old ((old, hd) :: tl)).
      destruct (hash_from_spec hf old ((old, hd) :: tl)) as [[_ E]|(pre0 & rep & suf & h & len & E & _ & Hr & E0)].
      - exists (map snd ((old, hd) :: tl)). rewrite E. reflexivity.
      - exists (map snd pre0). rewrite E0.
        apply Permutation_trans with (map snd (pre0 ++ rep :: suf)); [|rewrite <- E; reflexivity].
        rewrite map_app, map_map. cbn [snd].
        destruct (hf_some _ _ _ _ Hr) as (_ & _ & ->).
        assert (Hsub : forall y, In y (rep :: suf) -> In y ((old, hd) :: tl)).
        { intros y Hy. rewrite E. apply in_or_app. right. exact Hy. }
        rewrite Permutation_app_comm. apply Permutation_app_head.
        erewrite map_ext_in; [reflexivity|]. intros x Hx. cbn beta.
        pose proof (Hh x (Hsub x Hx)) as H1. pose proof (Hh rep (Hsub rep (or_introl eq_refl))) as H2.
        unfold item_same_id in H1, H2. cbn [snd] in H1, H2. apply same_id_spec in H1, H2.
        destruct (Hids (snd rep) (snd x)) as [_ El]; [apply Hin, Hsub; left; auto|apply Hin, Hsub; auto|congruence|].
        rewrite El. apply set_len_same.
    Qed.

    Lemma fhashed_sub : exists l', Permutation (map snd (hashed_of n st hf items) ++ l') (map snd items).
    Proof.
      unfold hashed_of. rewrite map_flat_map.
      set (L := group_by N.leb N.eqb (fun x : item => fdev (snd x)) items).
      assert (HL : forall dv, In dv L -> forall x, In x (snd dv) -> In x items).
      { intros [d its] Hdv x Hx. cbn [snd] in Hx.
        destruct (group_by_member N.leb N.eqb _ N_eqb_spec' _ _ _ _ Hdv Hx); auto. }
      destruct (sub_perm_flat_map
                  (fun dv : N * list item => map snd (flat_map (hash_run hf) (runs item_same_id (order n st (fst dv) (snd dv)))))
                  (fun dv : N * list item => map snd (snd dv)) L) as (l' & Hl').
      - intros dv Hdv. rewrite map_flat_map.
        destruct (sub_perm_flat_map (fun r => map snd (hash_run hf r)) (fun r => map snd r)
                    (runs item_same_id (order n st (fst dv) (snd dv)))) as (lx & Hlx).
        + intros r Hr. apply frun_sub. apply (runs_ok scanned (order n st (fst dv) (snd dv))); auto.
          intros x Hx. apply fitems_scanned. apply (HL dv Hdv).
          eapply Permutation_in; [apply (proj1 Hnd)|]. exact Hx.
        + exists lx. rewrite Hlx. rewrite <- map_flat_map, flat_map_concat_map, map_id, runs_concat.
          apply Permutation_map. apply (proj1 Hnd).
      - exists l'. rewrite Hl'. rewrite <- map_flat_map. apply Permutation_map.
        rewrite flat_map_concat_map. apply group_by_perm. apply N_eqb_spec'.
    Qed.

    Lemma fstep_files : exists l', Permutation (all_files raw ++ l') (all_files gs).
    Proof.
      destruct fhashed_sub as (l' & Hl'). exists l'.
      unfold raw, rehash_raw. rewrite all_files_app. rewrite regroup_files.
      rewrite (Permutation_map snd (proj2 Hnd st _)). fold items.
      rewrite <- (flat_map_filter_split gfiles pre gs).
      change (flat_map gfiles (filter pre gs)) with (all_files (filter pre gs)).
      rewrite <- (map_snd_items_of (filter pre gs)). fold items.
      rewrite <- Hl'. rewrite <- !app_assoc. apply Permutation_app_head. apply Permutation_app_comm.
    Qed.

    Lemma fstep_A : invA raw.
    Proof.
      destruct HA as [A1 A2]. destruct fstep_files as (l' & Hl').
      destruct (sub_perm_NoDup _ _ _ Hl' A1) as [N1 Hi]. split; auto.
    Qed.

    Lemma fstep_keep f : In f (all_files raw) -> In f (all_files gs).
    Proof. destruct fstep_files as (l' & Hl'). intros Hf. eapply Permutation_in; [exact Hl'|]. apply in_or_app. left; auto. Qed.

    Lemma frep_same_group g0 f0 g1 rep : In g0 gs -> In f0 (gfiles g0) -> In g1 gs -> In rep (gfiles g1) ->
      fid rep = fid f0 -> g1 = g0 /\ fdata rep = fdata f0 /\ flen rep = flen f0 /\ ok rep /\ ok f0.
    Proof.
      intros Hg0 Hf0 Hg1 Hrep Hi. destruct HA as [A1 A2].
      assert (Hokf : ok f0) by (apply A2; apply (all_files_in gs g0 f0); auto).
      assert (Hokr : ok rep) by (apply A2; apply (all_files_in gs g1 rep); auto).
      destruct (Hids rep f0 (proj1 Hokr) (proj1 Hokf) Hi) as [Ed El].
      repeat split; auto; try apply Hokr; try apply Hokf. eapply HS; eauto.
    Qed.

    (* a file that comes out of the hashing was hashed (through a representative of its inode that did not fail)
       with the old hash of its own group *)
    Lemma fhashed_key h f : In (h, f) (hashed_of n st hf items) ->
      exists g0, In g0 gs /\ pre g0 = true /\ In f (gfiles g0) /\ h = newh f (ghash g0).
    Proof.
      intros Hin. apply (in_hashed _ _ _ _ _ _ Hnd) in Hin.
      destruct Hin as (old & hd & oldr & rep & [h0 f0] & len & Hhd & Hrep & Hx & Hih & _ & Hi & _ & Hh & ->). cbn [snd] in *.
      destruct (hf_some _ _ _ _ Hh) as (_ & -> & ->).
      apply in_items_of in Hrep. destruct Hrep as (g1 & Hg1 & -> & Hrep).
      apply in_items_of in Hhd. destruct Hhd as (gh & Hgh & -> & Hhd).
      apply in_items_of in Hx. destruct Hx as (g0 & Hg0 & -> & Hf0).
      apply filter_In in Hg1, Hg0, Hgh. destruct Hg1 as [Hg1 _]. destruct Hg0 as [Hg0 Hp0]. destruct Hgh as [Hgh _].
      destruct (frep_same_group g0 f0 g1 rep) as (-> & Ed & El & Hokr & Hokf); auto.
      destruct (frep_same_group g0 f0 gh hd) as (-> & _); auto; [congruence|].
      rewrite El, set_len_same. exists g0. repeat split; auto.
    Qed.

    (* every file that comes out of the hashing shares its inode with a path that was read successfully at this stage *)
    Lemma fhashed_rep h f : In (h, f) (hashed_of n st hf items) ->
      exists rep, In rep scanned /\ fid rep = fid f /\ fails n st rep = false.
    Proof.
      intros Hin. apply (in_hashed _ _ _ _ _ _ Hnd) in Hin.
      destruct Hin as (old & hd & oldr & rep & [h0 f0] & len & _ & Hrep & _ & _ & _ & Hi & _ & Hh & ->). cbn [snd] in *.
      destruct (hf_some _ _ _ _ Hh) as (Hnf & _ & _). exists rep. split; [apply (fitems_scanned (oldr, rep) Hrep)|].
      split; auto.
    Qed.

    (* a file that can itself be read at this stage is hashed, whatever happens to the other paths of its inode (K5) *)
    Lemma fhashed_has g0 f : In g0 gs -> pre g0 = true -> In f (gfiles g0) -> fails n st f = false ->
      In (newh f (ghash g0), f) (hashed_of n st hf items).
    Proof.
      intros Hg0 Hp0 Hf Hnf.
      assert (Hx : In (ghash g0, f) items).
      { apply in_items_of. exists g0. split; [apply filter_In; auto|auto]. }
      unfold hashed_of.
      pose proof (group_by_complete N.leb N.eqb (fun x : item => fdev (snd x)) N_eqb_spec' (ghash g0, f) items Hx) as Hb.
      cbn [snd] in Hb.
      set (its := filter (fun w : item => fdev (snd w) =? fdev f) items) in *.
      assert (Hxi : In (ghash g0, f) its) by (apply filter_In; split; auto; apply N.eqb_refl).
      assert (Hxo : In (ghash g0, f) (order n st (fdev f) its)).
      { eapply Permutation_in; [symmetry; apply (proj1 Hnd)|]. auto. }
      destruct (in_runs item_same_id _ _ Hxo) as (r & Hr & Hxr).
      assert (Hsub : forall y, In y r -> In y items).
      { intros y Hy. apply (runs_in item_same_id _ _ _ Hr) in Hy.
        apply (Permutation_in _ (proj1 Hnd st (fdev f) its)) in Hy. apply filter_In in Hy. tauto. }
      assert (Hok : run_ok scanned r).
      { apply (runs_ok scanned (order n st (fdev f) its)); auto. intros y Hy. apply fitems_scanned.
        apply (Permutation_in _ (proj1 Hnd st (fdev f) its)) in Hy. apply filter_In in Hy. tauto. }
      destruct r as [|[old hd] tl]; [destruct Hxr|].
      assert (Hidm : forall y, In y ((old, hd) :: tl) -> fid (snd y) = fid f).
      { intros y Hy. destruct Hok as [_ Hh]. pose proof (Hh _ Hxr) as H1. pose proof (Hh _ Hy) as H2.
        apply same_id_spec in H1, H2. cbn [snd] in *. congruence. }
      (* the old hash handed to every member is the one of the head, whose group is the group of f *)
      assert (Hold : old = ghash g0).
      { pose proof (Hsub _ (or_introl eq_refl)) as Hhi. apply in_items_of in Hhi. destruct Hhi as (gh & Hgh & -> & Hhd).
        apply filter_In in Hgh. destruct Hgh as [Hgh _].
        destruct (frep_same_group g0 f gh hd) as (-> & _); auto. apply (Hidm (ghash gh, hd)). left; auto. }
      subst old.
      apply in_flat_map. exists (fdev f, its). split; auto. cbn [fst snd].
      apply in_flat_map. exists ((ghash g0, hd) :: tl). split; auto.
      change (hash_run hf ((ghash g0, hd) :: tl)) with (hash_from hf (ghash g0) ((ghash g0, hd) :: tl)).
      destruct (hash_from_spec hf (ghash g0) ((ghash g0, hd) :: tl)) as [[Hall _]|(pre0 & rep & suf & h & len & E & Hpre & Hrp & E0)].
      - specialize (Hall _ Hxr). cbn [snd] in Hall. rewrite Hhf, Hnf in Hall. discriminate.
      - rewrite E0. assert (Hxr' : In (ghash g0, f) (pre0 ++ rep :: suf)) by (rewrite <- E; exact Hxr).
        apply in_app_or in Hxr'. destruct Hxr' as [Hxp|Hxs].
        + specialize (Hpre _ Hxp). cbn [snd] in Hpre. rewrite Hhf, Hnf in Hpre. discriminate.
        + apply in_map_iff. exists (ghash g0, f). split; auto. cbn [snd].
          destruct (hf_some _ _ _ _ Hrp) as (_ & -> & ->).
          pose proof (in_or_app pre0 (rep :: suf) rep (or_intror (or_introl eq_refl))) as Hrin. rewrite <- E in Hrin.
          pose proof (Hsub _ Hrin) as Hri. destruct rep as [oldr rp]. cbn [snd] in *.
          apply in_items_of in Hri. destruct Hri as (g1 & Hg1 & -> & Hrp1). apply filter_In in Hg1. destruct Hg1 as [Hg1 _].
          destruct (frep_same_group g0 f g1 rp) as (-> & Ed & El & Hokr & Hokf); auto.
          { apply (Hidm (ghash g1, rp)); auto. }
          rewrite El, set_len_same, (Hclass rp f (ghash g0) Hokr Hokf Ed). reflexivity.
    Qed.

    Lemma regroup_same_key l g g' : In g (regroup l) -> In g' (regroup l) -> glen g = glen g' -> ghash g = ghash g' -> g = g'.
    Proof.
      unfold regroup. intros Hg Hg' El Eh. apply in_map_iff in Hg, Hg'.
      destruct Hg as ([[k1 k2] its] & <- & Hk). destruct Hg' as ([[k1' k2'] its'] & <- & Hk').
      cbn [glen ghash fst snd] in *. subst.
      pose proof (group_by_keys_nodup key_leb key_eqb (fun x : item => (flen (snd x), fst x)) key_eqb_spec l) as Hn.
      assert (E : ((k1', k2'), its) = ((k1', k2'), its')) by (apply (NoDup_map_inj_eq fst _ _ _ Hn Hk Hk'); reflexivity).
      inversion E; subst. reflexivity.
    Qed.

    Lemma raw_cases g : In g raw ->
      (In g (regroup (arrive n st (hashed_of n st hf items))) \/ (In g gs /\ pre g = false)).
    Proof.
      unfold raw, rehash_raw. intros Hg. apply in_app_or in Hg. destruct Hg as [Hg|Hg]; [left; auto|right].
      apply filter_In in Hg. destruct Hg as [Hg Hp]. apply negb_true_iff in Hp. auto.
    Qed.

    Lemma regrouped_key g f : In g (regroup (arrive n st (hashed_of n st hf items))) -> In f (gfiles g) ->
      exists g0, In g0 gs /\ pre g0 = true /\ In f (gfiles g0) /\ ghash g = newh f (ghash g0) /\ glen g = flen f.
    Proof.
      intros Hg Hf. destruct (in_regroup _ _ Hg) as [_ Hall]. destruct (Hall f Hf) as [Hin El].
      apply (Permutation_in _ (proj2 Hnd st _)) in Hin.
      destruct (fhashed_key _ _ Hin) as (g0 & Hg0 & Hp0 & Hf0 & Eh). exists g0. repeat split; auto.
    Qed.

    Lemma fstep_S : invS raw.
    Proof.
      intros g g' f f' Hg Hg' Hf Hf' E.
      destruct HA as [A1 A2].
      destruct (raw_cases g Hg) as [Hr|[Hin Hp]]; destruct (raw_cases g' Hg') as [Hr'|[Hin' Hp']].
      - destruct (regrouped_key g f Hr Hf) as (g0 & Hg0 & Hp0 & Hf0 & Eh & El).
        destruct (regrouped_key g' f' Hr' Hf') as (g0' & Hg0' & Hp0' & Hf0' & Eh' & El').
        assert (g0 = g0') by (eapply HS; eauto). subst g0'.
        assert (Hokf : ok f) by (apply A2; apply (all_files_in gs g0 f); auto).
        assert (Hokf' : ok f') by (apply A2; apply (all_files_in gs g0 f'); auto).
        apply (regroup_same_key _ g g' Hr Hr').
        + rewrite El, El'. rewrite (Hlen f (proj1 Hokf)), (Hlen f' (proj1 Hokf')), E. reflexivity.
        + rewrite Eh, Eh'. apply Hclass; auto.
      - destruct (regrouped_key g f Hr Hf) as (g0 & Hg0 & Hp0 & Hf0 & _).
        assert (g0 = g') by (eapply HS; eauto). subst. congruence.
      - destruct (regrouped_key g' f' Hr' Hf') as (g0 & Hg0 & Hp0 & Hf0 & _).
        assert (g = g0) by (eapply HS; eauto). subst. congruence.
      - eapply HS; eauto.
    Qed.

    Lemma fstep_Bc : invBc raw.
    Proof.
      intros g f f' Hg Hf Hok' Hr' E. destruct HA as [A1 A2].
      destruct (raw_cases g Hg) as [Hr|[Hin Hp]].
      - destruct (regrouped_key g f Hr Hf) as (g0 & Hg0 & Hp0 & Hf0 & Eh & El).
        assert (Hokf : ok f) by (apply A2; apply (all_files_in gs g0 f); auto).
        assert (Hf0' : In f' (gfiles g0)) by (eapply HBc; eauto).
        assert (Hin' : In (newh f' (ghash g0), f') (hashed_of n st hf items)) by (apply fhashed_has; auto).
        rewrite (Hclass f' f (ghash g0) Hok' Hokf E), <- Eh in Hin'.
        apply (regroup_complete _ g (ghash g) f' Hr eq_refl).
        + rewrite El. rewrite (Hlen f (proj1 Hokf)), (Hlen f' (proj1 Hok')), E. reflexivity.
        + eapply Permutation_in; [symmetry; apply (proj2 Hnd st _)|]. exact Hin'.
      - eapply HBc; eauto.
    Qed.

    (* a file that can be read at this stage is never lost *)
    Lemma fstep_keep_readable f : In f (all_files gs) -> fails n st f = false -> In f (all_files raw).
    Proof.
      intros Hf Hc. destruct HA as [A1 A2]. pose proof (A2 f Hf) as Hokf.
      apply in_all_files in Hf. destruct Hf as (g0 & Hg0 & Hf0).
      destruct (pre g0) eqn:Hp0.
      - assert (Hin : In (newh f (ghash g0), f) (hashed_of n st hf items)) by (apply fhashed_has; auto).
        unfold raw, rehash_raw. rewrite all_files_app. apply in_or_app. left.
        eapply Permutation_in; [symmetry; apply regroup_files|]. apply in_map_iff. exists (newh f (ghash g0), f). split; auto.
        eapply Permutation_in; [symmetry; apply (proj2 Hnd st _)|]. exact Hin.
      - apply (all_files_in raw g0 f); auto. unfold raw, rehash_raw. apply in_or_app. right.
        apply filter_In. split; auto. rewrite Hp0. reflexivity.
    Qed.
    (* with an inode-determined fault oracle, whatever comes out of the hashing did not fail at this stage *)
    Lemma fhashed_notfail h f : (forall a b st', fid a = fid b -> fails n st' a = fails n st' b) ->
      In (h, f) (hashed_of n st hf items) -> fails n st f = false.
    Proof.
      intros Hdet Hin. apply (in_hashed _ _ _ _ _ _ Hnd) in Hin.
      destruct Hin as (old & hd & oldr & rep & [h0 f0] & len & _ & Hrep & Hx & _ & _ & Hi & _ & Hh & ->). cbn [snd] in *.
      destruct (hf_some _ _ _ _ Hh) as (Hnf & _ & _). rewrite <- Hnf. apply Hdet. rewrite set_len_fid. auto.
    Qed.
  End FStep.

  (* ---------------------------------------------------------------- the pipeline under faults (no transform) *)
  Hypothesis Hcf : collision_free H c scanned.
  Hypothesis Htr : transform c = false.
  Hypothesis Hskip : skip_content c = false.

  Let g1 := remove_same_files c (group_by_size c (filter (size_ok c) scanned)).
  Let P := prefix_len_of c g1.
  Let g2 := group_by_prefix o c n P g1.
  Let S := suffix_len_of c (map sort_group_by_id g2).
  Let thr := suffix_threshold_of c (map sort_group_by_id g2).
  Let g3 := rehash n StSuffix (pre_suffix thr S) (matches c) (hf_suffix o n S) (map sort_group_by_id g2).
  Let raw4 := rehash_raw n StContents (pre_contents P) (hf_contents o n) (map sort_group_by_id g3).
  Let g4 := filter (matches_strictly c) raw4.

  Lemma fpipeline_is_g4 : pipeline o c n scanned = g4.
  Proof. unfold pipeline. rewrite Htr, Hskip. reflexivity. Qed.

  (* the readable members R of the class cl of f are enough for the filter: more than rf replicas among them
     (over-replication search), resp. fewer than k replicas in the whole class (under-replication search) *)
  Definition qual_r (f : file) : Prop :=
    exists cl R, is_class c scanned f cl /\ NoDup R /\ (forall x, In x R <-> In x cl /\ readable x) /\
      match repl c with Over rf => rf < subgroup_count c R | Under k => subgroup_count c cl < k end.
  Definition invCc (gs : list group) : Prop :=
    forall f, ok f -> readable f -> qual_r f -> exists g, In g gs /\ In f (gfiles g).

  Lemma invA_sort gs : invA gs -> invA (map sort_group_by_id gs).
  Proof.
    intros [A1 A2]. split.
    - eapply Permutation_NoDup; [symmetry; apply all_files_sort|auto].
    - intros f Hf. apply A2. eapply Permutation_in; [apply all_files_sort|auto].
  Qed.
  Lemma invA_filter (p : group -> bool) gs : invA gs -> invA (filter p gs).
  Proof.
    intros [A1 A2]. split; [apply NoDup_flat_map_filter; auto|].
    intros f Hf. apply in_all_files in Hf. destruct Hf as (g & Hg & Hf). apply filter_In in Hg.
    apply A2. apply (all_files_in gs g f); tauto.
  Qed.

  Lemma hf_prefix_f f old : hf_prefix o c n P f old = if fails n StPrefix f then None else Some (Hpre H c P f, flen f).
  Proof. unfold hf_prefix, failing. destruct (fails n StPrefix f); reflexivity. Qed.
  Lemma hf_suffix_f f old : hf_suffix o n S f old = if fails n StSuffix f then None else Some (hxor old (Hsfx H S f), flen f).
  Proof. unfold hf_suffix, failing. destruct (fails n StSuffix f); reflexivity. Qed.
  Lemma hf_contents_f f old : hf_contents o n f old = if fails n StContents f then None else Some (Hfull H f, flen f).
  Proof. unfold hf_contents, failing. destruct (fails n StContents f); reflexivity. Qed.

  (* one stage with its post filter *)
  Lemma fstage st pre post hf newh gs :
    (forall f old, hf f old = if fails n st f then None else Some (newh f old, flen f)) ->
    (forall f f' old, ok f -> ok f' -> fdata f = fdata f' -> newh f old = newh f' old) ->
    invA gs -> invS gs -> invBc gs ->
    let raw := rehash_raw n st pre hf (map sort_group_by_id gs) in
    invA raw /\ invS raw /\ invBc raw /\ (forall f, In f (all_files gs) -> readable f -> In f (all_files raw)) /\
    invA (filter post raw) /\ invS (filter post raw) /\ invBc (filter post raw).
  Proof.
    intros Hhf Hcl HA HS HB raw.
    pose proof (invA_sort gs HA) as HA'. destruct (invSBc_sort gs HS HB) as [HS' HB'].
    pose proof (fstep_A st pre hf newh Hhf _ HA') as A.
    pose proof (fstep_S st pre hf newh Hhf Hcl _ HA' HS') as Sx.
    pose proof (fstep_Bc st pre hf newh Hhf Hcl _ HA' HS' HB') as B.
    destruct (invSBc_filter post _ Sx B) as [S2 B2].
    split; [exact A|]. split; [exact Sx|]. split; [exact B|]. split.
    - intros x Hx Hc. apply (fstep_keep_readable st pre hf newh Hhf Hcl _ HA' HS'); auto.
      eapply Permutation_in; [symmetry; apply all_files_sort|auto].
    - split; [exact (invA_filter post _ A)|]. split; [exact S2|exact B2].
  Qed.

  Lemma R_in_group gs g f cl R : invBc gs -> In g gs -> In f (gfiles g) -> is_class c scanned f cl ->
    (forall x, In x R <-> In x cl /\ readable x) -> incl R (gfiles g).
  Proof.
    intros HB Hg Hf [_ Hcl] HR x Hx. apply HR in Hx. destruct Hx as [Hx Hr]. apply Hcl in Hx. destruct Hx as [Hok E].
    eapply HB; eauto.
  Qed.

  Lemma matches_of_R g cl R : NoDup R -> incl R (gfiles g) ->
    match repl c with Over rf => rf < subgroup_count c R | Under k => subgroup_count c cl < k end -> matches c g = true.
  Proof.
    intros N Hi Hq. unfold matches. destruct (repl c) as [rf|k]; auto.
    apply N.ltb_lt. pose proof (subgroup_count_mono c R (gfiles g) N Hi). lia.
  Qed.

  Lemma fstage_C st pre hf newh gs :
    (forall f old, hf f old = if fails n st f then None else Some (newh f old, flen f)) ->
    (forall f f' old, ok f -> ok f' -> fdata f = fdata f' -> newh f old = newh f' old) ->
    invA gs -> invS gs -> invBc gs -> invCc gs ->
    invCc (rehash n st pre (matches c) hf (map sort_group_by_id gs)).
  Proof.
    intros Hhf Hcl HA HS HB HC f Hok Hr (cl & R & Hcls & NR & HR & Hq).
    destruct (fstage st pre (matches c) hf newh gs Hhf Hcl HA HS HB) as (A & Sx & B & Hkeep & _).
    destruct (HC f Hok Hr (ex_intro _ cl (ex_intro _ R (conj Hcls (conj NR (conj HR Hq)))))) as (g0 & Hg0 & Hf0).
    pose proof (Hkeep f (all_files_in gs g0 f Hg0 Hf0) Hr) as Hfr. apply in_all_files in Hfr. destruct Hfr as (g & Hg & Hf).
    exists g. split; auto. rewrite rehash_unfold. apply filter_In. split; auto.
    apply (matches_of_R g cl R NR); auto. apply (R_in_group _ g f cl R B Hg Hf Hcls HR).
  Qed.

  Lemma fg1_inv : invA g1 /\ invS g1 /\ invBc g1 /\ invCc g1.
  Proof.
    destruct (stage1_inv c scanned Hlen Hpaths) as (A & B & L & C). split; auto. split; [apply invB_invS; auto|]. split.
    - intros g f f' Hg Hf Hok _ E. eapply B; eauto.
    - intros f Hok Hr (cl & R & Hcls & NR & HR & Hq).
      (* the size group of f holds the whole class *)
      destruct (G0_has c scanned f Hok) as (g0 & Hg0 & El & Hall).
      assert (Hi0 : incl cl (gfiles g0)).
      { intros x Hx. apply (proj2 Hcls) in Hx. destruct Hx as [Hokx E]. apply Hall; auto. apply (same_data_len c scanned Hlen); auto. }
      assert (HiR : incl R (gfiles g0)) by (intros x Hx; apply Hi0; apply HR in Hx; tauto).
      assert (Hm0 : matches c g0 = true) by (apply (matches_of_R g0 cl R NR HiR Hq)).
      assert (Hwp : wf_paths (gfiles g0)).
      { intros a b Ha Hb. apply Hpaths; [destruct (G0_member c scanned g0 a Hg0 Ha) as [[? _] _]|destruct (G0_member c scanned g0 b Hg0 Hb) as [[? _] _]]; auto. }
      assert (Hi1 : incl R (gfiles (dedup_group g0))).
      { intros x Hx. cbn [dedup_group gfiles]. apply deduplicate_keeps; auto. }
      exists (dedup_group g0). split.
      + unfold g1. change (remove_same_files c (group_by_size c (filter (size_ok c) scanned)))
          with (filter (matches c) (map dedup_group (filter (matches c)
                 (map (fun kv : N * list file => mkgroup (fst kv) hash0 (snd kv)) (group_by N.leb N.eqb flen (filter (size_ok c) scanned)))))).
        apply filter_In. split; [apply in_map; apply filter_In; auto|]. apply (matches_of_R _ cl R NR Hi1 Hq).
      + cbn [dedup_group gfiles]. apply deduplicate_keeps; [exact Hwp|]. apply Hi0. apply (proj2 Hcls). split; auto.
  Qed.
  Lemma fg2_inv : invA g2 /\ invS g2 /\ invBc g2 /\ invCc g2.
  Proof.
    destruct fg1_inv as (A & Sx & B & C).
    assert (Hcl : forall f f' (old : hash), ok f -> ok f' -> fdata f = fdata f' -> Hpre H c P f = Hpre H c P f').
    { intros f f' _. apply (class_prefix H c scanned Hlen). }
    destruct (fstage StPrefix pre_multi (matches c) (hf_prefix o c n P) (fun f _ => Hpre H c P f) g1 hf_prefix_f Hcl A Sx B)
      as (_ & _ & _ & _ & A2 & S2 & B2).
    pose proof (fstage_C StPrefix pre_multi (hf_prefix o c n P) (fun f _ => Hpre H c P f) g1 hf_prefix_f Hcl A Sx B C) as C2.
    unfold g2, group_by_prefix. rewrite rehash_unfold in *. auto.
  Qed.
  Lemma fg3_inv : invA g3 /\ invS g3 /\ invBc g3 /\ invCc g3.
  Proof.
    destruct fg2_inv as (A & Sx & B & C).
    assert (Hcl : forall f f' old, ok f -> ok f' -> fdata f = fdata f' -> hxor old (Hsfx H S f) = hxor old (Hsfx H S f')).
    { intros f f' old Hf Hf' E. f_equal. apply (class_suffix H c scanned Hlen); auto. }
    destruct (fstage StSuffix (pre_suffix thr S) (matches c) (hf_suffix o n S) (fun f old => hxor old (Hsfx H S f)) g2 hf_suffix_f Hcl A Sx B)
      as (_ & _ & _ & _ & A2 & S2 & B2).
    pose proof (fstage_C StSuffix (pre_suffix thr S) (hf_suffix o n S) (fun f old => hxor old (Hsfx H S f)) g2 hf_suffix_f Hcl A Sx B C) as C2.
    unfold g3. rewrite rehash_unfold in *. auto.
  Qed.

  Lemma fraw4_inv : invA raw4 /\ invS raw4 /\ invBc raw4 /\ (forall f, In f (all_files g3) -> readable f -> In f (all_files raw4)).
  Proof.
    destruct fg3_inv as (A & Sx & B & C).
    destruct (fstage StContents (pre_contents P) (matches_strictly c) (hf_contents o n) (fun f _ => Hfull H f) g3) as (A4 & S4 & B4 & K4 & _); auto.
    - apply hf_contents_f.
    - intros f f' _. apply (class_contents H c scanned Hlen).
  Qed.

  Lemma fraw4_I3 g : In g raw4 -> I3 H c scanned P S g.
  Proof.
    intros Hg. apply (contents_stage_raw H T c n scanned Hnd Hids P S g3 g); auto.
    intros g3' Hg3'. apply (suffix_stage H T c n scanned Hnd Hids P S thr g2 g3'); auto.
    intros g2' Hg2'. apply (prefix_stage H T c n scanned Hnd Hids P S g1 g2'); auto.
    intros g0 Hg0. apply (early_gbase c scanned g0 Hg0).
  Qed.
  Lemma fraw4_same_data g f f' : In g raw4 -> In f (gfiles g) -> In f' (gfiles g) -> fdata f = fdata f'.
  Proof.
    intros Hg Hf Hf'.
    apply (I3_sound H c scanned Hids Hlen Hcf P S g (suffix_len_of_cands c _) (fraw4_I3 g Hg) f f' Hf Hf').
  Qed.

  (* members of a group of the last stage are members of the class; readable members of the class are in it *)
  Lemma fraw4_bounds g f cl : In g raw4 -> In f (gfiles g) -> is_class c scanned f cl ->
    NoDup (gfiles g) /\ incl (gfiles g) cl /\ (forall x, In x cl -> readable x -> In x (gfiles g)).
  Proof.
    intros Hg Hf [Ncl Hcl]. destruct fraw4_inv as ([A1 A2] & _ & B & _). split; [apply (NoDup_flat_map_member gfiles raw4 g A1 Hg)|]. split.
    - intros x Hx. apply Hcl. split; [apply A2; apply (all_files_in raw4 g x); auto|]. apply (fraw4_same_data g x f Hg Hx Hf).
    - intros x Hx Hr. apply Hcl in Hx. destruct Hx as [Hok E]. eapply B; eauto.
  Qed.

  Lemma is_class_strict f cl cl' : is_class c scanned f cl -> is_class c scanned f cl' ->
    matches_strictly c (mkgroup 0 [] cl) = matches_strictly c (mkgroup 0 [] cl').
  Proof.
    intros [N1 H1] [N2 H2]. apply (strict_of_class c cl' (mkgroup 0 [] cl)); auto.
    intros x. cbn [gfiles]. rewrite H1, H2. tauto.
  Qed.

  Lemma finalize_g4 g : In g (finalize c g4) ->
    exists g0, In g0 raw4 /\ matches_strictly c g0 = true /\ Permutation (gfiles g) (gfiles g0).
  Proof. intros Hg. apply finalize_in in Hg. destruct Hg as (g0 & Hg0 & _ & _ & Hp). apply filter_In in Hg0. exists g0. tauto. Qed.

  (* C15, K5 repaired: a file that can itself be read at every stage is never lost because of any other failure *)
  Theorem c15_readable :
    let out := group_files H T c n scanned in
    (forall f, ok f -> readable f ->
       (qual_r f -> exists g, In g out /\ In f (gfiles g)) /\
       (forall g, In g out -> In f (gfiles g) ->
          (forall x, ok x -> readable x -> fdata x = fdata f -> In x (gfiles g)) /\
          (forall x, In x (gfiles g) -> ok x /\ fdata x = fdata f) /\ matches_strictly c g = true)) /\
    (NoDup (all_files out) /\ forall f, In f (all_files out) -> ok f) /\
    (forall g g' f f', In g out -> In g' out -> In f (gfiles g) -> In f' (gfiles g') -> fdata f = fdata f' -> g = g').
  Proof.
    intros out. unfold out, group_files, group_files_gen. fold o. rewrite fpipeline_is_g4.
    destruct fraw4_inv as (A & Sx & B & K). destruct fg3_inv as (A3 & S3 & B3 & C3).
    pose proof (invA_filter (matches_strictly c) raw4 A) as [A41 A42].
    assert (HND : NoDup (all_files (finalize c g4)) /\ forall f, In f (all_files (finalize c g4)) -> ok f).
    { split.
      - eapply Permutation_NoDup; [symmetry; apply all_files_finalize|exact A41].
      - intros f Hf. apply A42. eapply Permutation_in; [apply all_files_finalize|exact Hf]. }
    split; [|split; [exact HND|]].
    - intros f Hok Hr. split.
      + intros (cl & R & Hcls & NR & HR & Hq).
        destruct (C3 f Hok Hr (ex_intro _ cl (ex_intro _ R (conj Hcls (conj NR (conj HR Hq)))))) as (g3' & Hg3' & Hf3).
        pose proof (K f (all_files_in g3 g3' f Hg3' Hf3) Hr) as Hfr. apply in_all_files in Hfr. destruct Hfr as (g0 & Hg0 & Hf0).
        destruct (fraw4_bounds g0 f cl Hg0 Hf0 Hcls) as (N0 & Hsub & Hsup).
        assert (Hg4 : In g0 g4).
        { apply filter_In. split; auto. unfold matches_strictly. destruct (repl c) as [rf|k].
          - apply N.ltb_lt. assert (HiR : incl R (gfiles g0)) by (intros x Hx; apply HR in Hx; apply Hsup; tauto).
            pose proof (subgroup_count_mono c R (gfiles g0) NR HiR). lia.
          - apply N.ltb_lt. pose proof (subgroup_count_mono c (gfiles g0) cl N0 Hsub). lia. }
        destruct (finalize_has c g4 g0 Hg4) as (g & Hg & _ & _ & Hp). exists g. split; auto.
        eapply Permutation_in; [symmetry; exact Hp|auto].
      + intros g Hg Hf. destruct (finalize_g4 g Hg) as (g0 & Hg0 & Hs & Hp).
        assert (Hf0 : In f (gfiles g0)) by (eapply Permutation_in; eauto).
        destruct A as [A1 A2]. split; [|split].
        * intros x Hx Hrx E. apply (Permutation_in x (Permutation_sym Hp)). eapply B; eauto.
        * intros x Hx. apply (Permutation_in x Hp) in Hx. split; [apply A2; apply (all_files_in raw4 g0 x); auto|].
          apply (fraw4_same_data g0 x f Hg0 Hx Hf0).
        * unfold matches_strictly in *. rewrite (subgroup_count_perm_any c (gfiles g) (gfiles g0)); auto.
    - intros g g' f f' Hg Hg' Hf Hf' E.
      destruct (finalize_g4 g Hg) as (g0 & Hg0 & _ & Hp). destruct (finalize_g4 g' Hg') as (g0' & Hg0' & _ & Hp').
      assert (g0 = g0') by (apply (Sx g0 g0' f f'); auto; eapply Permutation_in; eauto). subst g0'.
      destruct HND as [HN _].
      apply (NoDup_flat_map_unique gfiles _ g g' f HN Hg Hg' Hf).
      apply (Permutation_in f (Permutation_sym Hp')). apply (Permutation_in f Hp). exact Hf.
  Qed.

  (* corollary: a class none of whose members ever fails is reported exactly as without faults *)
  Theorem c15_isolated_clean :
    let out := group_files H T c n scanned in
    (forall f, ok f -> clean f ->
       ((exists g, In g out /\ In f (gfiles g)) <-> qualifies c scanned f) /\
       (forall g, In g out -> In f (gfiles g) -> is_class c scanned f (gfiles g))) /\
    (NoDup (all_files out) /\ forall f, In f (all_files out) -> ok f) /\
    (forall g g' f f', In g out -> In g' out -> In f (gfiles g) -> In f' (gfiles g') -> fdata f = fdata f' -> g = g').
  Proof.
    intros out. destruct c15_readable as (Hr & HND & HS). fold out in Hr, HND, HS. split; [|split; auto].
    intros f Hok Hc.
    assert (Hrf : readable f) by (apply (clean_readable f f Hc Hok eq_refl)).
    destruct (Hr f Hok Hrf) as [Hq Hg].
    assert (Hcls : forall g, In g out -> In f (gfiles g) -> is_class c scanned f (gfiles g)).
    { intros g Hgo Hf. destruct (Hg g Hgo Hf) as (Hsup & Hsub & _). split.
      - destruct HND as [HN _]. apply (NoDup_flat_map_member gfiles out g HN Hgo).
      - intros x. split; [apply Hsub|]. intros [Hx E]. apply Hsup; auto. apply (clean_readable f x Hc Hx E). }
    split; [split|exact Hcls].
    - intros (g & Hgo & Hf). destruct (Hg g Hgo Hf) as (_ & _ & Hs). exists (gfiles g). split; [apply Hcls; auto|]. exact Hs.
    - intros (cl & Hcl & Hs). apply Hq. exists cl, cl. split; auto. split; [apply Hcl|]. split.
      + intros x. split; [intros Hx; split; auto|tauto]. apply (proj2 Hcl) in Hx. destruct Hx as [Hx E]. apply (clean_readable f x Hc Hx E).
      + unfold matches_strictly in Hs. cbn [gfiles] in Hs. destruct (repl c); apply N.ltb_lt; exact Hs.
  Qed.
End Faulty.
