(* Pins_C05.v — the statements of Props_C05.v, pinned: weakening a theorem there breaks this file. *)
From FV Require Import Base FsModel AtomicModel TempNameModel TempNameProofs Props_C05.
Open Scope N_scope.
Check C05_crash_invariant : forall (sl : bool) (c : fcmd) (s : fs) (o : oracle) (i : nat) (st : fs),
  pre c s -> In st (states o i (prog_of sl c) s) ->
  (orig_at_path c s st \/ orig_at_temp c s st \/ replaced c s st) /\ retained_untouched c s st.
Check C05_single_fault_restores : forall (sl : bool) (c : fcmd) (s : fs) (o : oracle) (i : nat),
  pre c s ->
  let r := run o i (prog_of sl c) s in
  (ofaults r <= 1)%nat ->
  (ores r = IErr /\ restored c s (ofs r)) \/
  (ores r = IOk /\ replaced c s (ofs r) /\
   match cmd_tmp c with Some tmp => names (ofs r) tmp = None \/ (1 <= owarn r)%nat | None => True end).
Check C05_double_fault : forall (sl : bool) (c : fcmd) (s : fs) (o : oracle) (i : nat),
  pre c s ->
  let r := run o i (prog_of sl c) s in
  ores r = IErr -> ~ restored c s (ofs r) ->
  (2 <= ofaults r)%nat /\ (1 <= owarn r)%nat /\ err_double c s (ofs r).
Check C05_counted_iff_ok : forall (sl : bool) (o : oracle) (i : nat) (cs : list fcmd) (s : fs),
  let t := run_script sl o i cs s in
  processed_count t = length (filter is_ok (sresults t)) /\ length (sresults t) = length cs /\
  (length (filter (fun r => negb (is_ok r)) (sresults t)) <= swarn t)%nat /\
  (forall c rest, cs = c :: rest ->
     sresults t = ores (run o i (prog_of sl c) s)
                  :: sresults (run_script sl o (oidx (run o i (prog_of sl c) s)) rest (ofs (run o i (prog_of sl c) s)))).

Check C05_temp_name_fits :
  forall name sfx, length sfx = 24%nat -> (length (temp_name name sfx) <= 255)%nat.
Check C05_temp_name_prefix_of_victim :
  forall name, exists r, name = temp_stem name ++ r.
Check C05_temp_name_short_unchanged :
  forall name sfx, (length name <= 230)%nat -> temp_name name sfx = name ++ 46%N :: sfx.
Check C05_temp_name_cut_at_char_boundary :
  forall name, (max_stem < length name)%nat ->
    temp_stem name = [] \/ is_cont (nth (length (temp_stem name)) name 0%N) = false.
Check (eq_refl : temp_name = fun name sfx => temp_stem name ++ 46%N :: sfx).
Check (eq_refl : temp_stem = fun name => if (length name <=? max_stem)%nat then name else firstn (cut_at name max_stem) name).
Check (eq_refl : max_stem = 230%nat).
Check (eq_refl : is_cont = fun b => ((128 <=? b) && (b <? 192))%N).

