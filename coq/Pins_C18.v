(* Pins_C18.v — the statements of Props_C18.v, pinned. *)
From FV Require Import Base FsModel AtomicModel AtomicProofs AtomicProofs5 Props_C18.
Open Scope N_scope.
Check C18_injective : forall (d p p' : path), wf_abs p -> wf_abs p' -> mv_target d p = mv_target d p' -> p = p'.
Check C18_shape : forall (d rest : path),
  mv_target d (root_c :: rest) = d ++ dot_c :: (match rest with [] => [dot_c] | _ => rest end).
Check C18_no_overwrite : forall (sl : bool) (src tgt : path) (rn : bool) (now : Z) (s : fs),
  names s (norm tgt) <> None ->
  forall (o : oracle) (i : nat),
    (forall st, In st (states o i (prog_of sl (FMove src tgt rn now)) s) -> dirs_added s st) /\
    let r := run o i (prog_of sl (FMove src tgt rn now)) s in dirs_added s (ofs r) /\ ores r = IErr /\ owarn r = 0%nat.
Check C18_copy_then_delete : forall (sl : bool) (src tgt : path) (rn : bool) (now : Z) (s : fs) (o : oracle) (i : nat) (st : fs),
  pre (FMove src tgt rn now) s ->
  In st (states o i (prog_of sl (FMove src tgt rn now)) s) ->
  same_file s st src src \/ (file_bytes s src <> None /\ file_bytes st (norm tgt) = file_bytes s src).
Check C18_resolved_shape : forall (d rest : path), clean rest ->
  norm (mv_target d (root_c :: rest)) = norm d ++ rest.
Check C18_injective_resolved : forall (d p p' : path), wf_clean p -> wf_clean p' ->
  norm (mv_target d p) = norm (mv_target d p') -> p = p'.
Check C18_targets_nodup : forall (d : path) (srcs : list path), Forall wf_clean srcs -> NoDup srcs ->
  NoDup (map (fun p => norm (mv_target d p)) srcs).
