(* TextProofs3.v — engine T, proofs part 3 (C17_bash): the bash model decodes join (map quote as)
   to as, for non-empty NUL-free byte strings. *)
From FV Require Import Base TextModel TextProofs TextProofs2.
Open Scope N_scope.

Definition nul_free (a : list N) : Prop := Forall (fun b => b <> 0) a.
Definition barg_ok (a : list N) : Prop := arg_ok a /\ nul_free a.

Section Bash.

Lemma bash_delim_dollar r w words : bash_go (36 :: 39 :: r) BDelim w words = bash_go r BDQ [] words.
Proof. reflexivity. Qed.
Lemma bash_dq_close r word words : bash_go (39 :: r) BDQ word words = bash_go r BBare word words.
Proof. reflexivity. Qed.
Lemma bash_delim_sq r w words : bash_go (39 :: r) BDelim w words = bash_go r BSQ [] words.
Proof. reflexivity. Qed.
Lemma bash_sq_close r word words : bash_go (39 :: r) BSQ word words = bash_go r BBare word words.
Proof. reflexivity. Qed.
Lemma bash_bare_space r word words : bash_go (32 :: r) BBare word words = bash_go r BDelim [] (word :: words).
Proof. reflexivity. Qed.

Lemma existsb_eqb_subset b l1 l2 :
  forallb (fun x => existsb (N.eqb x) l2) l1 = true ->
  existsb (N.eqb b) l2 = false -> existsb (N.eqb b) l1 = false.
Proof.
  intros Hsub H2. induction l1 as [|a l1 IH]; [reflexivity|].
  cbn [forallb] in Hsub. apply andb_true_iff in Hsub as [Ha Hl].
  cbn [existsb]. rewrite (IH Hl). destruct (N.eqb_spec b a) as [->|Hn]; [|reflexivity].
  rewrite Ha in H2. discriminate.
Qed.

Lemma active_sub_special : forallb (fun x => existsb (N.eqb x) SPECIAL_CHARS) bash_active = true.
Proof. reflexivity. Qed.

Lemma bare_ok_neq b : bare_ok b = true -> (b =? 32) = false /\ (b =? 39) = false /\ (b =? 36) = false.
Proof.
  unfold bare_ok. intros H. b2p.
  assert (A : forall x, existsb (N.eqb x) bash_active = true -> (b =? x) = false).
  { intros x Hx. destruct (N.eqb_spec b x) as [->|]; [|reflexivity]. rewrite Hx in *. discriminate. }
  repeat split; [apply N.eqb_neq; lia|apply A; reflexivity|apply A; reflexivity].
Qed.

Lemma high_not_active b : 128 <= b -> existsb (N.eqb b) bash_active = false.
Proof.
  intros H. unfold bash_active. cbn [existsb].
  repeat (apply orb_false_iff; split); try reflexivity; apply N.eqb_neq; lia.
Qed.

Lemma high_bare_ok b : 128 <= b -> bare_ok b = true.
Proof.
  intros H. unfold bare_ok. rewrite (high_not_active b H).
  replace (33 <=? b) with true by (symmetry; apply N.leb_le; lia).
  replace (b =? 127) with false by (symmetry; apply N.eqb_neq; lia). reflexivity.
Qed.

(* the bytes of a character that quote leaves bare *)
Lemma bare_char_bytes c : good_char c -> needs_dollar c = false -> is_special c = false ->
  Forall (fun b => bare_ok b = true /\ b <> 126 /\ b <> 35) c.
Proof.
  intros [_ [[b [-> Hb]]|[Hl Hh]]] Hd Hs.
  - cbn [needs_dollar] in Hd. b2p.
    assert (S : existsb (N.eqb b) SPECIAL_CHARS = false) by exact Hs.
    assert (A : forall x, existsb (N.eqb x) SPECIAL_CHARS = true -> b <> x).
    { intros x Hx ->. rewrite Hx in S. discriminate. }
    constructor; [|constructor]. repeat split; [|apply A; reflexivity|apply A; reflexivity].
    unfold bare_ok. rewrite (existsb_eqb_subset b _ _ active_sub_special S).
    assert (b <> 32) by (apply A; reflexivity).
    replace (33 <=? b) with true by (symmetry; apply N.leb_le; lia).
    replace (b =? 127) with false by (symmetry; apply N.eqb_neq; lia). reflexivity.
  - eapply Forall_impl; [|exact Hh]. cbv beta. intros b Hb. repeat split; [apply high_bare_ok; assumption|lia|lia].
Qed.

Lemma bash_bare_run r words : forall l word, Forall (fun b => bare_ok b = true) l ->
  bash_go (l ++ r) BBare word words = bash_go r BBare (word ++ l) words.
Proof.
  induction l as [|b l IH]; intros word H; [rewrite app_nil_r; reflexivity|].
  inversion H as [|? ? Hb Hl]; subst. destruct (bare_ok_neq b Hb) as (E1 & E2 & E3).
  cbn [app bash_go]. rewrite E1, E2, E3, Hb. rewrite IH by assumption.
  rewrite <- app_assoc. reflexivity.
Qed.

Lemma bash_sq_run r words : forall l word, Forall (fun b => b <> 39) l ->
  bash_go (l ++ r) BSQ word words = bash_go r BSQ (word ++ l) words.
Proof.
  induction l as [|b l IH]; intros word H; [rewrite app_nil_r; reflexivity|].
  inversion H as [|? ? Hb Hl]; subst. apply N.eqb_neq in Hb.
  cbn [app bash_go]. rewrite Hb. rewrite IH by assumption. rewrite <- app_assoc. reflexivity.
Qed.

Lemma bash_dq_byte b r word words : b < 256 -> b <> 0 ->
  bash_go (escq (maybe_ascii b) ++ r) BDQ word words = bash_go r BDQ (word ++ [b]) words.
Proof.
  intros Hb Hz. destruct (maybe_ascii_shape b) as [->| ->| ->| ->|Hn Hr|Hn Hr]; try reflexivity.
  - assert (H1 : b / 16 < 16) by (apply N.div_lt_upper_bound; lia).
    assert (H2 : b mod 16 < 16) by (apply N.mod_lt; lia).
    pose proof (hexU_range _ H1) as R1. pose proof (hexU_range _ H2) as R2.
    unfold escq. cbn [flat_map app].
    change (92 =? 39) with false. change (120 =? 39) with false. cbv iota.
    replace (hexU (b / 16) =? 39) with false by (symmetry; apply N.eqb_neq; lia).
    replace (hexU (b mod 16) =? 39) with false by (symmetry; apply N.eqb_neq; lia).
    cbn [app bash_go].
    change (92 =? 39) with false. change (92 =? 92) with true. cbv iota.
    change (120 =? 92) with false. change (120 =? 39) with false. change (120 =? 110) with false.
    change (120 =? 116) with false. change (120 =? 114) with false. change (120 =? 120) with true. cbv iota.
    rewrite (unhex2_hexU b Hb). apply N.eqb_neq in Hz. rewrite Hz. reflexivity.
  - unfold escq. cbn [flat_map app]. destruct (b =? 39) eqn:E; cbn [app].
    + b2p. subst. reflexivity.
    + cbn [bash_go]. rewrite E. apply N.eqb_neq in Hn. rewrite Hn. reflexivity.
Qed.

Lemma bash_dq_flat r words : forall bs word, is_bytes bs -> nul_free bs ->
  bash_go (escq (flat_map maybe_ascii bs) ++ r) BDQ word words = bash_go r BDQ (word ++ bs) words.
Proof.
  induction bs as [|b bs IH]; intros word Hb Hz; [rewrite app_nil_r; reflexivity|].
  inversion Hb; inversion Hz; subst.
  cbn [flat_map]. rewrite escq_app, <- app_assoc, bash_dq_byte by assumption.
  rewrite IH by assumption. rewrite <- app_assoc. reflexivity.
Qed.

Lemma bash_dq_high r words : forall c word, Forall (fun b => 128 <= b) c ->
  bash_go (c ++ r) BDQ word words = bash_go r BDQ (word ++ c) words.
Proof.
  induction c as [|b c IH]; intros word H; [rewrite app_nil_r; reflexivity|].
  inversion H as [|? ? Hb Hc]; subst. cbn [app bash_go].
  replace (b =? 39) with false by (symmetry; apply N.eqb_neq; lia).
  replace (b =? 92) with false by (symmetry; apply N.eqb_neq; lia).
  rewrite IH by assumption. rewrite <- app_assoc. reflexivity.
Qed.

Lemma bash_dq_chunk ch r word words : chunk_ok ch -> is_bytes (cbytes ch) -> nul_free (cbytes ch) ->
  bash_go (escq (enc_chunk ch) ++ r) BDQ word words = bash_go r BDQ (word ++ cbytes ch) words.
Proof.
  destruct ch as [c|bs]; cbn [chunk_ok enc_chunk cbytes].
  - intros [_ [[b [-> Hb]]|[Hl Hh]]] Hby Hz.
    + apply bash_dq_byte; [lia|]. inversion Hz; assumption.
    + destruct c as [|b0 [|b1 c']]; [cbn in Hl; lia|cbn in Hl; lia|].
      rewrite escq_high by assumption. apply bash_dq_high. assumption.
  - intros _ Hby Hz. apply bash_dq_flat; assumption.
Qed.

Lemma bash_dq_chunks r words : forall chs word, Forall chunk_ok chs ->
  is_bytes (concat (map cbytes chs)) -> nul_free (concat (map cbytes chs)) ->
  bash_go (escq (flat_map enc_chunk chs) ++ r) BDQ word words =
  bash_go r BDQ (word ++ concat (map cbytes chs)) words.
Proof.
  induction chs as [|ch chs IH]; intros word Hok Hb Hz; [cbn; rewrite app_nil_r; reflexivity|].
  inversion Hok; subst. cbn [map concat flat_map] in *.
  apply is_bytes_app in Hb as [Hb1 Hb2]. apply Forall_app in Hz as [Hz1 Hz2].
  rewrite escq_app, <- app_assoc, bash_dq_chunk by assumption.
  rewrite IH by assumption. rewrite <- app_assoc. reflexivity.
Qed.

Lemma bash_dq_encode a r word words : is_bytes a -> nul_free a ->
  bash_go (escq (stfu8_encode a) ++ r) BDQ word words = bash_go r BDQ (word ++ a) words.
Proof.
  intros Hb Hz. unfold stfu8_encode.
  pose proof (bash_dq_chunks r words (seg true a) word (seg_ok true a)) as H.
  rewrite seg_concat in H. apply H; assumption.
Qed.

(* one quoted word *)
Lemma bash_word a r words : barg_ok a ->
  bash_go (quote a ++ r) BDelim [] words = bash_go r BBare a words.
Proof.
  intros [[Hne Hb] Hz]. unfold quote. destruct (existsb needs_dollar (lossy a)) eqn:E1.
  - cbn [app]. rewrite bash_delim_dollar, <- app_assoc, bash_dq_encode by assumption.
    cbn [app]. apply bash_dq_close.
  - pose proof (no_dollar_no_fffd _ E1) as Hnf. destruct (lossy_valid a Hnf) as [L1 L2].
    destruct (existsb is_special (lossy a)) eqn:E2.
    + cbn [app]. rewrite bash_delim_sq, L1, <- app_assoc, bash_sq_run.
      * cbn [app]. apply bash_sq_close.
      * rewrite <- L1. apply Forall_concat. apply Forall_forall. intros c Hc.
        destruct (not_dollar_chr c (existsb_false_in _ _ _ E1 Hc)) as [_ Hq].
        rewrite Forall_forall in L2. destruct (L2 c Hc) as [_ [[b [-> _]]|[_ Hh]]].
        -- constructor; [|constructor]. cbn in Hq. apply N.eqb_neq. assumption.
        -- eapply Forall_impl; [|exact Hh]. cbv beta. intros; lia.
    + assert (Hall : Forall (fun b => bare_ok b = true /\ b <> 126 /\ b <> 35) a).
      { rewrite <- L1. apply Forall_concat. apply Forall_forall. intros c Hc.
        rewrite Forall_forall in L2.
        apply bare_char_bytes; [apply L2; assumption| |]; eapply existsb_false_in; eassumption. }
      rewrite L1. destruct a as [|b0 a']; [contradiction|].
      inversion Hall as [|? ? (B1 & B2 & B3) Ha']; subst.
      destruct (bare_ok_neq b0 B1) as (N1 & N2 & N3).
      cbn [app bash_go]. rewrite N1, N2, N3.
      replace (b0 =? 126) with false by (symmetry; apply N.eqb_neq; assumption).
      replace (b0 =? 35) with false by (symmetry; apply N.eqb_neq; assumption).
      cbn [orb]. rewrite B1. rewrite bash_bare_run.
      * reflexivity.
      * eapply Forall_impl; [|exact Ha']. cbv beta. intros b [H _]. exact H.
Qed.

Lemma bash_join_go : forall l, l <> [] -> Forall barg_ok l -> forall words,
  bash_go (join l) BDelim [] words = Some (rev words ++ l).
Proof.
  induction l as [|a r IH]; intros Hne Hok words; [contradiction|].
  inversion Hok as [|? ? Ha Hr]; subst. destruct r as [|b r'].
  - rewrite join_one. rewrite <- (app_nil_r (quote a)), bash_word by assumption. reflexivity.
  - rewrite join_cons2, bash_word by assumption. cbn [app]. rewrite bash_bare_space.
    rewrite IH; [|discriminate|assumption]. cbn [rev]. rewrite <- app_assoc. reflexivity.
Qed.

Lemma bash_join l : Forall barg_ok l -> bash_words (join l) = Some l.
Proof.
  intros Hok. destruct l as [|a r]; [reflexivity|].
  unfold bash_words. apply (bash_join_go (a :: r) ltac:(discriminate) Hok []).
Qed.

(* the lemma the design asks for: a word that quote leaves bare does not start with a tilde (or a
   comment sign) and contains no character that is active in bash *)
Lemma bare_word_inactive a : arg_ok a -> quote a = a ->
  existsb needs_dollar (lossy a) = false -> existsb is_special (lossy a) = false ->
  hd_error a <> Some 126 /\ hd_error a <> Some 35 /\ Forall (fun b => bare_ok b = true) a.
Proof.
  intros [Hne Hb] _ E1 E2.
  pose proof (no_dollar_no_fffd _ E1) as Hnf. destruct (lossy_valid a Hnf) as [L1 L2].
  assert (Hall : Forall (fun b => bare_ok b = true /\ b <> 126 /\ b <> 35) a).
  { rewrite <- L1. apply Forall_concat. apply Forall_forall. intros c Hc.
    rewrite Forall_forall in L2.
    apply bare_char_bytes; [apply L2; assumption| |]; eapply existsb_false_in; eassumption. }
  destruct a as [|b0 a']; [contradiction|]. inversion Hall as [|? ? (B1 & B2 & B3) Ha']; subst.
  repeat split; cbn; try congruence.
  eapply Forall_impl; [|exact Hall]. cbv beta. intros b [H _]. exact H.
Qed.

End Bash.
