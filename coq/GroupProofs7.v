(* GroupProofs7.v — engine G, part 7 (C13): the partition into groups does not depend on the hash function, the
   prefix / suffix sizes or the device kinds (corollary of C01 + C03/C06); a counter model of the result
   channel of rehash (the collecting loop ends when every sender clone has been dropped). *)
From FV Require Import Base ListLib GroupModel GroupProofs GroupProofs2 GroupProofs3 GroupProofs5.
From Coq Require Import Permutation.
Open Scope N_scope.

(* two configurations that select and filter the same way *)
Definition same_selection (c1 c2 : gcfg) : Prop :=
  repl c1 = repl c2 /\ roots c1 = roots c2 /\ by_id c1 = by_id c2 /\ min_size c1 = min_size c2 /\ max_size c1 = max_size c2.

Lemma same_sel_ok c1 c2 s f : same_selection c1 c2 -> ok c1 s f -> ok c2 s f.
Proof. intros (_ & _ & _ & E1 & E2) [Hf Hk]. split; auto. unfold size_ok in *. rewrite <- E1, <- E2. auto. Qed.
Lemma same_sel_sym c1 c2 : same_selection c1 c2 -> same_selection c2 c1.
Proof. intros (A & B & C & D & E). repeat split; auto. Qed.
Lemma same_sel_strict c1 c2 g : same_selection c1 c2 -> matches_strictly c1 g = matches_strictly c2 g.
Proof. intros (A & B & C & _). unfold matches_strictly, subgroup_count. rewrite A, B, C. auto. Qed.
Lemma same_sel_class c1 c2 s f cl : same_selection c1 c2 -> is_class c1 s f cl -> is_class c2 s f cl.
Proof.
  intros Hs [N Hc]. split; auto. intros x. rewrite Hc. split; intros [Hok E]; split; auto.
  - eapply same_sel_ok; eauto.
  - eapply same_sel_ok; [apply same_sel_sym|]; eauto.
Qed.
Lemma same_sel_qualifies c1 c2 s f : same_selection c1 c2 -> qualifies c1 s f -> qualifies c2 s f.
Proof.
  intros Hs (cl & Hcl & Hm). exists cl. split; [eapply same_sel_class; eauto|]. rewrite <- (same_sel_strict c1 c2 _ Hs). auto.
Qed.

Section Partition.
  Variables H1 H2 : list N -> hash.
  Variables T1 T2 : list N -> option (list N).
  Variables c1 c2 : gcfg.
  Variables n1 n2 : nd.
  Variable s : list file.
  Hypothesis Hsel : same_selection c1 c2.
  Hypothesis Hnd1 : wf_nd n1.
  Hypothesis Hnd2 : wf_nd n2.
  Hypothesis Hnf1 : forall st f, fails n1 st f = false.
  Hypothesis Hnf2 : forall st f, fails n2 st f = false.
  Hypothesis Hids : wf_ids s.
  Hypothesis Hlen : wf_len s.
  Hypothesis Hpaths : wf_paths s.
  Hypothesis Hcf1 : collision_free H1 c1 s.
  Hypothesis Hcf2 : collision_free H2 c2 s.
  Hypothesis Htr1 : transform c1 = false.
  Hypothesis Htr2 : transform c2 = false.
  Hypothesis Hsk1 : skip_content c1 = false.
  Hypothesis Hsk2 : skip_content c2 = false.

  Lemma partition_le g f : In g (group_files H1 T1 c1 n1 s) -> In f (gfiles g) ->
    exists g', In g' (group_files H2 T2 c2 n2 s) /\ glen g' = glen g /\ Permutation (gfiles g) (gfiles g').
  Proof.
    intros Hg Hf.
    destruct (c06_reported_iff H1 T1 c1 n1 s Hnd1 Hnf1 Hids Hlen Hpaths Hcf1 Htr1 Hsk1) as [R1 C1].
    destruct (c06_reported_iff H2 T2 c2 n2 s Hnd2 Hnf2 Hids Hlen Hpaths Hcf2 Htr2 Hsk2) as [R2 C2].
    destruct (C1 g f Hg Hf) as [Hcl Hm].
    assert (Hok : ok c1 s f) by (apply (proj2 Hcl); auto).
    assert (Hq : qualifies c2 s f).
    { apply (same_sel_qualifies c1 c2 s f Hsel). exists (gfiles g). split; auto. }
    destruct (proj2 (R2 f (same_sel_ok c1 c2 s f Hsel Hok)) Hq) as (g' & Hg' & Hf').
    exists g'. split; auto.
    destruct (C2 g' f Hg' Hf') as [Hcl' _]. apply (same_sel_class c1 c2 s f _ Hsel) in Hcl.
    split.
    - destruct (c01_sound H1 T1 c1 n1 s Hnd1 Hids Hlen Hcf1 Hsk1 Htr1 g Hg f f Hf Hf) as [_ E1].
      destruct (c01_sound H2 T2 c2 n2 s Hnd2 Hids Hlen Hcf2 Hsk2 Htr2 g' Hg' f f Hf' Hf') as [_ E2]. congruence.
    - apply NoDup_Permutation; [apply Hcl|apply Hcl'|]. intros x. rewrite (proj2 Hcl x), (proj2 Hcl' x). tauto.
  Qed.
End Partition.

Theorem c13_partition_independent H1 H2 T1 T2 c1 c2 n1 n2 s :
  same_selection c1 c2 -> wf_nd n1 -> wf_nd n2 ->
  (forall st f, fails n1 st f = false) -> (forall st f, fails n2 st f = false) ->
  wf_ids s -> wf_len s -> wf_paths s -> collision_free H1 c1 s -> collision_free H2 c2 s ->
  transform c1 = false -> transform c2 = false -> skip_content c1 = false -> skip_content c2 = false ->
  (forall g f, In g (group_files H1 T1 c1 n1 s) -> In f (gfiles g) ->
     exists g', In g' (group_files H2 T2 c2 n2 s) /\ glen g' = glen g /\ Permutation (gfiles g) (gfiles g')) /\
  (forall g f, In g (group_files H2 T2 c2 n2 s) -> In f (gfiles g) ->
     exists g', In g' (group_files H1 T1 c1 n1 s) /\ glen g' = glen g /\ Permutation (gfiles g) (gfiles g')).
Proof.
  intros Hs W1 W2 F1 F2 Hi Hl Hp C1 C2 Tr1 Tr2 S1 S2. split.
  - apply (partition_le H1 H2 T1 T2 c1 c2 n1 n2 s); auto.
  - apply (partition_le H2 H1 T2 T1 c2 c1 n2 n1 s); auto. apply same_sel_sym; auto.
Qed.

(* ------------------------------------------------------------------ the result channel of rehash *)
(* std::sync::mpsc: `rx.recv()` returns Err exactly when the queue is empty and no Sender is alive.  rehash owns one
   Sender, clones it once per device thread and once per spawned task; a clone is dropped when its thread / task
   ends, the original right after the spawning loop.  Counter model: the state is (live senders, queued messages). *)
Inductive chan_ev := EvClone | EvDrop | EvSend | EvRecv.
Definition chan_step (st : nat * nat) (e : chan_ev) : option (nat * nat) :=
  let (live, queued) := st in
  match e with
  | EvClone => match live with O => None | _ => Some (S live, queued) end        (* only a live sender can be cloned *)
  | EvDrop => match live with O => None | S k => Some (k, queued) end
  | EvSend => match live with O => None | _ => Some (live, S queued) end          (* only a live sender can send *)
  | EvRecv => match queued with O => None | S q => Some (live, q) end
  end.
Fixpoint chan_run (st : nat * nat) (tr : list chan_ev) : option (nat * nat) :=
  match tr with
  | [] => Some st
  | e :: tr' => match chan_step st e with Some st' => chan_run st' tr' | None => None end
  end.
Definition count_ev (e : chan_ev) (tr : list chan_ev) : nat :=
  length (filter (fun x => match x, e with EvClone, EvClone | EvDrop, EvDrop | EvSend, EvSend | EvRecv, EvRecv => true | _, _ => false end) tr).

(* bookkeeping: live = initial + clones - drops, queued = initial + sends - receives *)
Lemma chan_run_counts tr : forall live queued live' queued', chan_run (live, queued) tr = Some (live', queued') ->
  (live' + count_ev EvDrop tr = live + count_ev EvClone tr /\ queued' + count_ev EvRecv tr = queued + count_ev EvSend tr)%nat.
Proof.
  induction tr as [|e tr IH]; intros live queued live' queued' Hr; cbn [chan_run] in Hr.
  - inversion Hr; subst. cbn. lia.
  - destruct (chan_step (live, queued) e) as [[l q]|] eqn:E; [|discriminate].
    specialize (IH _ _ _ _ Hr). unfold count_ev in *. destruct e; cbn [chan_step] in E; cbn [filter length].
    + destruct live; [discriminate|]. inversion E; subst. lia.
    + destruct live; [discriminate|]. inversion E; subst. lia.
    + destruct live; [discriminate|]. inversion E; subst. lia.
    + destruct queued; [discriminate|]. inversion E; subst. lia.
Qed.

(* if every clone that was made has been dropped (each device thread and each task ended) and the original too, no
   sender is alive; once the queue is drained the next recv fails and the collecting loop ends *)
Lemma rx_loop_ends tr live' queued' : chan_run (1%nat, 0%nat) tr = Some (live', queued') ->
  count_ev EvDrop tr = S (count_ev EvClone tr) -> count_ev EvRecv tr = count_ev EvSend tr ->
  live' = 0%nat /\ queued' = 0%nat /\ chan_step (live', queued') EvRecv = None /\ chan_step (live', queued') EvSend = None.
Proof.
  intros Hr Hd Hq. destruct (chan_run_counts _ _ _ _ _ Hr) as [E1 E2].
  assert (live' = 0%nat) by lia. assert (queued' = 0%nat) by lia. subst. auto.
Qed.
