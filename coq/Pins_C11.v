(* Pins_C11.v — the statements of Props_C11.v, pinned. *)
From Coq Require Import Permutation.
From FV Require Import Base SortLib TextModel.
From FV Require Import DedupeModel DedupeProofs.
From FV Require Import FsModel AtomicModel EffectsModel EffectsWitness ScriptModel ScriptProofs2 Props_C11.
Open Scope N_scope.
Check C11_one_script : forall ax e sl op c sm r s arrival order,
  exists script, script = script_items ax op c sm s r /\
    run_dedupe true ax e sl op c sm r s arrival order = DryRun (log_script (sfx e) (arrival (indexed_from 0 script))) /\
    run_dedupe false ax e sl op c sm r s arrival order =
      (let cs := order (concat script) in
       RealRun (whole_run sl (map (fcmd_of e) cs) s) (reclaimed cs (sresults (whole_run sl (map (fcmd_of e) cs) s)))).
Check C11_same_commands : forall e sl now s x,
  printable x -> cmd_paths_wf (sfx e) x -> cmd_ok sl s (fcmd_of e x) ->
  map bash_words (render (sfx e) x) = map Some (shell_words (sfx e) x) /\
  sh_run now (render (sfx e) x) s = Some (fst (exec sl (fcmd_of e x) s)).
Check C11_order : forall sfx (script : list (list cmd)) arrivals,
  Permutation arrivals (indexed_from 0 script) ->
  lines (log_script sfx arrivals) = flat_map (render sfx) (concat script).
Check C11_printer_order : forall (A : Type) (items : list A) arrivals,
  Permutation arrivals (indexed_from 0 items) -> log_loop arrivals [] 0 [] = items.
Check C11_summary : forall ax e sl op c sm s r, run_ok ax e sl op c sm s r ->
  forall arrivals cs', Permutation arrivals (indexed_from 0 (script_items ax op c sm s r)) ->
    Permutation (concat (script_items ax op c sm s r)) cs' ->
    let lo := log_script (sfx e) arrivals in
    let ro := whole_run sl (map (fcmd_of e) cs') s in
    lcount lo = processed_count ro /\ lbytes lo = reclaimed cs' (sresults ro).
Check C11_N6_witness :
  lcount (log_script (sfx w_env) (indexed_from 0 (script_items w_ax OpRemove (w_cfg []) w_sm n6_s n6_r))) = 2%nat /\
  processed_count (whole_run true (map (fcmd_of w_env) (run_cmds w_ax OpRemove (w_cfg []) w_sm n6_s n6_r)) n6_s) = 1%nat.
