(* Pins_C03.v — the statements of Props_C03.v, pinned. *)
From FV Require Import Base ListLib GroupModel GroupProofs GroupProofs2 GroupProofs3 GroupProofs4 GroupWitness Props_C03.
Open Scope N_scope.
Check C03_partition_partial_except_K11 :
  forall (H : list N -> hash) (T : list N -> option (list N)) (c : gcfg) (n : nd) (scanned : list file),
    wf_nd n -> (forall st f, fails n st f = false) ->
    wf_ids scanned -> wf_len scanned -> wf_paths scanned ->
    collision_free H c scanned -> ~ K11 c scanned -> transform c = false -> skip_content c = false ->
    let out := group_files H T c n scanned in
    (NoDup (all_files out) /\ forall f, In f (all_files out) -> ok c scanned f) /\
    (forall g f f', In g out -> In f (gfiles g) -> ok c scanned f' -> fdata f' = fdata f -> In f' (gfiles g)) /\
    (forall g g' f f', In g out -> In g' out -> In f (gfiles g) -> In f' (gfiles g') -> fdata f = fdata f' -> g = g') /\
    (forall f, ok c scanned f -> qualifies c scanned f -> exists g, In g out /\ In f (gfiles g)).
Check C03_K11_witness :
  exists (H : list N -> hash) (T : list N -> option (list N)) (c : gcfg) (n : nd) (scanned : list file),
    wf_nd n /\ (forall st f, fails n st f = false) /\ wf_ids scanned /\ wf_len scanned /\ wf_paths scanned /\
    collision_free H c scanned /\ skip_content c = false /\ transform c = false /\ K11 c scanned /\
    exists f, ok c scanned f /\ qualifies c scanned f /\ ~ exists g, In g (group_files H T c n scanned) /\ In f (gfiles g).
Check C03_filter_monotone :
  forall (c : gcfg) (fs fs' : list file), NoDup fs -> incl fs fs' -> subgroup_count c fs <= subgroup_count c fs'.
Check C03_deduplicate :
  forall fs, NoDup (deduplicate fs) /\ (forall f, In f (deduplicate fs) -> In f fs) /\
             (wf_paths fs -> forall f, In f fs -> In f (deduplicate fs)).
Check (eq_refl : ok = fun c scanned f => In f scanned /\ size_ok c f = true).
Check (eq_refl : is_class = fun c scanned f cl => NoDup cl /\ forall x, In x cl <-> ok c scanned x /\ fdata x = fdata f).
Check (eq_refl : qualifies = fun c scanned f =>
         exists cl, is_class c scanned f cl /\ matches_strictly c (mkgroup 0 [] cl) = true).
Check (eq_refl : wf_paths = fun fs => forall f f', In f fs -> In f' fs -> fpath f = fpath f' -> f = f').
