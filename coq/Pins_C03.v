(* Pins_C03.v — the statements of Props_C03.v, pinned. *)
From FV Require Import Base ListLib GroupModel GroupProofs GroupProofs2 GroupProofs3 GroupProofs4 GroupProofs5 GroupWitness Props_C03.
Open Scope N_scope.
Check C03_partition :
  forall (H : list N -> hash) (T : list N -> option (list N)) (c : gcfg) (n : nd) (scanned : list file),
    wf_nd n -> (forall st f, fails n st f = false) ->
    wf_ids scanned -> wf_len scanned -> wf_paths scanned ->
    collision_free H c scanned -> transform c = false -> skip_content c = false ->
    let out := group_files H T c n scanned in
    (NoDup (all_files out) /\ forall f, In f (all_files out) -> ok c scanned f) /\
    (forall g f f', In g out -> In f (gfiles g) -> ok c scanned f' -> fdata f' = fdata f -> In f' (gfiles g)) /\
    (forall g g' f f', In g out -> In g' out -> In f (gfiles g) -> In f' (gfiles g') -> fdata f = fdata f' -> g = g') /\
    (forall f, ok c scanned f -> qualifies c scanned f -> exists g, In g out /\ In f (gfiles g)).
Check C03_partition_transform :
  forall (H : list N -> hash) (T : list N -> option (list N)) (c : gcfg) (n : nd) (scanned : list file),
    wf_nd n -> (forall st f, fails n st f = false) ->
    wf_ids scanned -> wf_paths scanned -> collision_free_T H T scanned -> transform c = true ->
    let out := group_files H T c n scanned in
    (NoDup (all_files out) /\
     forall g f, In g out -> In f (gfiles g) ->
       exists f0, ok' c scanned f0 /\ hasT T f0 = true /\ f = set_len f0 (glen g) /\ glen g = tlen T f0) /\
    (forall g f0 f0', In g out -> In (tfile T f0) (gfiles g) -> ok' c scanned f0 -> ok' c scanned f0' ->
                      T (fdata f0') = T (fdata f0) -> In (tfile T f0') (gfiles g)) /\
    (forall g g' f0 f0', In g out -> In g' out -> ok' c scanned f0 -> ok' c scanned f0' ->
                         In (tfile T f0) (gfiles g) -> In (tfile T f0') (gfiles g') ->
                         T (fdata f0) = T (fdata f0') -> g = g') /\
    (forall f0, ok' c scanned f0 -> hasT T f0 = true ->
       ((exists g, In g out /\ In (tfile T f0) (gfiles g)) <-> qualifiesT T c scanned f0)) /\
    (forall g f0 cl, In g out -> ok' c scanned f0 -> In (tfile T f0) (gfiles g) -> is_classT T c scanned f0 cl ->
       Permutation.Permutation (gfiles g) (map (tfile T) cl)).
Check C03_filter_monotone :
  forall (c : gcfg) (fs fs' : list file), NoDup fs -> incl fs fs' -> subgroup_count c fs <= subgroup_count c fs'.
Check C03_deduplicate :
  forall fs, NoDup (deduplicate fs) /\ (forall f, In f (deduplicate fs) -> In f fs) /\
             (wf_paths fs -> forall f, In f fs -> In f (deduplicate fs)).
Check (eq_refl : ok = fun c scanned f => In f scanned /\ size_ok c f = true).
Check (eq_refl : is_class = fun c scanned f cl => NoDup cl /\ forall x, In x cl <-> ok c scanned x /\ fdata x = fdata f).
Check (eq_refl : qualifies = fun c scanned f =>
         exists cl, is_class c scanned f cl /\ matches_strictly c (mkgroup 0 [] cl) = true).
Check (eq_refl : wf_paths = fun fs => forall f f', In f fs -> In f' fs -> fpath f = fpath f' -> f = f').
Check (eq_refl : tfile = fun T f => set_len f (tlen T f)).
Check (eq_refl : tlen = fun T f => match T (fdata f) with Some out => N.of_nat (length out) | None => 0 end).
Check (eq_refl : hasT = fun T f => match T (fdata f) with Some _ => true | None => false end).
Check (eq_refl : is_classT = fun T c scanned f0 cl => NoDup cl /\ forall x, In x cl <-> ok' c scanned x /\ T (fdata x) = T (fdata f0)).
Check (eq_refl : qualifiesT = fun T c scanned f0 =>
         exists cl, is_classT T c scanned f0 cl /\ matches_strictly c (mkgroup 0 [] cl) = true).
