(* DedupeProofs.v — lemmas about DedupeModel.partition / script (engine D, property C08):
   structure of the sub-grouping, keep / drop-only-matching / atomicity / n, no panic, script. *)
From Coq Require Import Permutation Sorted.
From FV Require Import Base SortLib DedupeModel.

(* ------------------------------------------------------------------ specification vocabulary *)
(* a and b belong to the same sub-group: same isolated root, or (outside every root, without
   --match-links) the same file id *)
Definition same_sub (c : dcfg) (a b : meta) : bool :=
  match root_idx (iso c) (mpath a), root_idx (iso c) (mpath b) with
  | Some i, Some j => i =? j
  | None, None => negb (mlinks c) && same_id a b
  | _, _ => false
  end.

(* ------------------------------------------------------------------ small list facts *)
Lemma filter_split_perm {A} (p : A -> bool) l :
  Permutation (filter p l ++ filter (fun x => negb (p x)) l) l.
Proof.
  induction l as [|x l IH]; cbn [filter app]; auto.
  destruct (p x); cbn [negb app].
  - apply perm_skip, IH.
  - eapply perm_trans; [apply Permutation_sym, Permutation_middle|]. apply perm_skip, IH.
Qed.

Lemma partition_filter {A} (p : A -> bool) l :
  List.partition p l = (filter p l, filter (fun x => negb (p x)) l).
Proof.
  induction l as [|x l IH]; cbn [List.partition filter]; auto.
  rewrite IH. destruct (p x); reflexivity.
Qed.

Lemma concat_filter_nonempty {A} (l : list (list A)) : concat (filter nonempty l) = concat l.
Proof.
  induction l as [|g l IH]; cbn [filter concat]; auto.
  destruct g as [|x g]; cbn [nonempty concat app]; auto. rewrite IH. reflexivity.
Qed.

Lemma in_concat_iff {A} (l : list (list A)) x : In x (concat l) <-> exists g, In g l /\ In x g.
Proof.
  rewrite in_concat. split; intros (g & H1 & H2); exists g; auto.
Qed.

Lemma Permutation_concat {A} (l1 l2 : list (list A)) :
  Permutation l1 l2 -> Permutation (concat l1) (concat l2).
Proof.
  induction 1; cbn [concat]; auto.
  - apply Permutation_app_head; auto.
  - rewrite !app_assoc. apply Permutation_app_tail, Permutation_app_comm.
  - eapply perm_trans; eauto.
Qed.

Lemma skipn_min {A} (l : list A) k : skipn (Nat.min (length l) k) l = skipn k l.
Proof.
  destruct (Nat.le_ge_cases k (length l)) as [H|H].
  - rewrite Nat.min_r by lia. reflexivity.
  - rewrite Nat.min_l by lia. rewrite !skipn_all2 by lia. reflexivity.
Qed.
Lemma firstn_min {A} (l : list A) k : firstn (Nat.min (length l) k) l = firstn k l.
Proof.
  destruct (Nat.le_ge_cases k (length l)) as [H|H].
  - rewrite Nat.min_r by lia. reflexivity.
  - rewrite Nat.min_l by lia. rewrite !firstn_all2 by lia. reflexivity.
Qed.

Lemma NoDup_map_inj {A B} (f : A -> B) l x y :
  NoDup (map f l) -> In x l -> In y l -> f x = f y -> x = y.
Proof.
  induction l as [|a l IH]; cbn [map]; intros Hnd Hx Hy E; [contradiction|].
  inversion Hnd as [|? ? Hni Hnd']; subst.
  destruct Hx as [<-|Hx], Hy as [<-|Hy]; auto.
  - exfalso. apply Hni. rewrite E. apply in_map, Hy.
  - exfalso. apply Hni. rewrite <- E. apply in_map, Hx.
Qed.

(* ------------------------------------------------------------------ buckets by a numeric key *)
Lemma filter_ge_split {A} (key : A -> nat) n l :
  Permutation (filter (fun f => n <=? key f) l)
              (filter (fun f => key f =? n) l ++ filter (fun f => S n <=? key f) l).
Proof.
  induction l as [|x l IH]; cbn [filter app]; auto.
  destruct (Nat.leb_spec n (key x)) as [H|H].
  - destruct (Nat.eqb_spec (key x) n) as [E|E].
    + destruct (Nat.leb_spec (S n) (key x)); [lia|]. cbn [app]. apply perm_skip, IH.
    + destruct (Nat.leb_spec (S n) (key x)); [|lia].
      eapply perm_trans; [apply perm_skip, IH|]. apply Permutation_middle.
  - destruct (Nat.eqb_spec (key x) n); [lia|]. destruct (Nat.leb_spec (S n) (key x)); [lia|]. exact IH.
Qed.

Lemma buckets_perm {A} (key : A -> nat) l n :
  Permutation (concat (map (fun i => filter (fun f => key f =? i) l) (seq 0 n))
               ++ filter (fun f => n <=? key f) l) l.
Proof.
  induction n as [|n IH].
  - cbn [seq map concat app]. assert (E : filter (fun f => 0 <=? key f) l = l).
    { clear. induction l as [|x l IH]; cbn [filter]; auto. cbn [Nat.leb]. f_equal. exact IH. }
    rewrite E. apply Permutation_refl.
  - rewrite seq_S, map_app, concat_app. cbn [plus map concat]. rewrite app_nil_r.
    eapply perm_trans; [|exact IH]. rewrite <- app_assoc. apply Permutation_app_head.
    apply Permutation_sym, filter_ge_split.
Qed.

(* ------------------------------------------------------------------ root_idx *)
Definition ridx (roots : list path) (f : meta) : nat :=
  match root_idx roots (mpath f) with Some i => i | None => length roots end.

Lemma root_idx_lt roots p i : root_idx roots p = Some i -> i < length roots.
Proof.
  revert i. induction roots as [|r rs IH]; cbn [root_idx length]; intros i H; [discriminate|].
  destruct (is_prefix r p); [injection H as <-; lia|].
  destruct (root_idx rs p) as [j|]; cbn [option_map] in H; [|discriminate].
  injection H as <-. specialize (IH j eq_refl). lia.
Qed.

Lemma opt_nat_eqb_some roots f i :
  opt_nat_eqb (root_idx roots (mpath f)) (Some i) = true <-> root_idx roots (mpath f) = Some i.
Proof.
  destruct (root_idx roots (mpath f)) as [j|]; cbn [opt_nat_eqb]; split; intros H; try discriminate.
  - apply Nat.eqb_eq in H. congruence.
  - injection H as ->. apply Nat.eqb_refl.
Qed.
Lemma opt_nat_eqb_none roots f :
  opt_nat_eqb (root_idx roots (mpath f)) None = true <-> root_idx roots (mpath f) = None.
Proof.
  destruct (root_idx roots (mpath f)) as [j|]; cbn [opt_nat_eqb]; split; intros H; congruence.
Qed.

(* ------------------------------------------------------------------ id_groups *)
Definition fid (a : meta) : N * N := (mdev a, mino a).
Lemma same_id_fid a b : same_id a b = true <-> fid a = fid b.
Proof.
  unfold same_id, fid. rewrite andb_true_iff, !N.eqb_eq. split.
  - intros [-> ->]. reflexivity.
  - intros E. injection E as -> ->. auto.
Qed.

Definition ghead (g : sub) : option (N * N) := match g with x :: _ => Some (fid x) | [] => None end.
Definition IdInv (gs : list sub) : Prop :=
  NoDup (map ghead gs) /\ forall g, In g gs -> forall x, In x g -> ghead g = Some (fid x).

Lemma IdInv_nonempty gs g : IdInv gs -> In g gs -> g <> [] \/ g = [].
Proof. destruct g; auto. left. discriminate. Qed.

Lemma add_by_id_spec f gs : IdInv gs -> (forall g, In g gs -> g <> []) ->
  IdInv (add_by_id f gs) /\ (forall g, In g (add_by_id f gs) -> g <> []) /\
  Permutation (concat (add_by_id f gs)) (f :: concat gs) /\
  (forall k, In k (map ghead (add_by_id f gs)) -> k = Some (fid f) \/ In k (map ghead gs)).
Proof.
  induction gs as [|g gs IH]; intros [Hnd Hm] Hne.
  - cbn [add_by_id]. repeat split.
    + cbn [map]. constructor; [intros []|constructor].
    + intros g [<-|[]] x [<-|[]]. reflexivity.
    + intros g [<-|[]]. discriminate.
    + cbn [concat app]. apply Permutation_refl.
    + cbn [map]. intros k [<-|[]]. left. reflexivity.
  - cbn [add_by_id]. destruct g as [|x g'] eqn:Eg.
    { exfalso. apply (Hne []); [left; reflexivity|reflexivity]. }
    destruct (same_id x f) eqn:Es.
    + apply same_id_fid in Es. repeat split.
      * cbn [map ghead app] in *. exact Hnd.
      * intros g0 [<-|Hin] y Hy.
        -- cbn [ghead app]. apply in_app_or in Hy. destruct Hy as [Hy|[<-|[]]].
           ++ apply (Hm (x :: g') (or_introl eq_refl) y Hy).
           ++ f_equal. exact Es.
        -- apply (Hm g0 (or_intror Hin) y Hy).
      * intros g0 [<-|Hin]; [discriminate|]. apply Hne. right. exact Hin.
      * cbn [concat]. rewrite <- app_assoc. apply Permutation_sym.
        apply (Permutation_middle (x :: g') (concat gs) f).
      * cbn [map ghead app]. intros k Hk. right. exact Hk.
    + assert (Hinv' : IdInv gs).
      { split; [inversion Hnd; assumption|]. intros g0 Hin. apply Hm. right. exact Hin. }
      assert (Hne' : forall g0, In g0 gs -> g0 <> []) by (intros g0 Hin; apply Hne; right; exact Hin).
      destruct (IH Hinv' Hne') as ((Hnd2 & Hm2) & Hne2 & Hp2 & Hk2). repeat split.
      * cbn [map]. constructor; [|exact Hnd2].
        intros Hin. apply Hk2 in Hin. destruct Hin as [E|Hin].
        -- cbn [ghead] in E. assert (E' : fid x = fid f) by congruence.
           apply same_id_fid in E'. congruence.
        -- inversion Hnd; subst. auto.
      * intros g0 [<-|Hin]; [apply Hm; left; reflexivity|apply Hm2, Hin].
      * intros g0 [<-|Hin]; [discriminate|apply Hne2, Hin].
      * cbn [concat]. eapply perm_trans; [apply Permutation_app_head, Hp2|].
        apply Permutation_sym, Permutation_middle.
      * cbn [map]. intros k [<-|Hk]; [right; left; reflexivity|].
        apply Hk2 in Hk. destruct Hk; [left|right; right]; auto.
Qed.

Lemma id_groups_fold files gs0 : IdInv gs0 -> (forall g, In g gs0 -> g <> []) ->
  let r := fold_left (fun gs f => add_by_id f gs) files gs0 in
  IdInv r /\ (forall g, In g r -> g <> []) /\ Permutation (concat r) (concat gs0 ++ files).
Proof.
  revert gs0. induction files as [|f files IH]; intros gs0 Hinv Hne; cbn [fold_left].
  - repeat split; auto; try apply Hinv. rewrite app_nil_r. apply Permutation_refl.
  - destruct (add_by_id_spec f gs0 Hinv Hne) as (Hinv1 & Hne1 & Hp1 & _).
    destruct (IH _ Hinv1 Hne1) as (Hinv2 & Hne2 & Hp2). repeat split; auto; try apply Hinv2.
    eapply perm_trans; [exact Hp2|]. eapply perm_trans; [apply Permutation_app_tail, Hp1|].
    cbn [app]. apply Permutation_middle.
Qed.

Lemma id_groups_spec files :
  IdInv (id_groups files) /\ (forall g, In g (id_groups files) -> g <> []) /\
  Permutation (concat (id_groups files)) files.
Proof.
  assert (H0 : IdInv []) by (split; [constructor|intros g []]).
  destruct (id_groups_fold files [] H0 (fun g (H : In g []) => match H with end)) as (A & B & C).
  repeat split; auto; apply A.
Qed.

(* ------------------------------------------------------------------ subgroup: the four facts *)
Section Subgroup.
  Variable c : dcfg.
  Variable files : list meta.
  Let subs := subgroups c files.

  Lemma subgroups_perm : Permutation (concat subs) files.
  Proof.
    unfold subs, subgroups, subgroup. rewrite concat_filter_nonempty, concat_app.
    set (roots := iso c).
    assert (Erest : filter (fun f => opt_nat_eqb (root_idx roots (mpath f)) None) files
                    = filter (fun f => length roots <=? ridx roots f) files).
    { apply filter_ext. intros f. unfold ridx. destruct (root_idx roots (mpath f)) as [i|] eqn:E; cbn [opt_nat_eqb].
      - apply root_idx_lt in E. symmetry. apply Nat.leb_gt. exact E.
      - symmetry. apply Nat.leb_refl. }
    assert (Epg : map (fun i => filter (fun f => opt_nat_eqb (root_idx roots (mpath f)) (Some i)) files) (seq 0 (length roots))
                  = map (fun i => filter (fun f => ridx roots f =? i) files) (seq 0 (length roots))).
    { apply map_ext_in. intros i Hi. apply in_seq in Hi. apply filter_ext. intros f. unfold ridx.
      destruct (root_idx roots (mpath f)) as [j|] eqn:E; cbn [opt_nat_eqb]; [reflexivity|].
      symmetry. apply Nat.eqb_neq. lia. }
    rewrite Epg.
    eapply perm_trans; [|apply (buckets_perm (ridx roots) files (length roots))].
    apply Permutation_app_head. rewrite <- Erest.
    generalize (filter (fun f => opt_nat_eqb (root_idx roots (mpath f)) None) files). intros rest.
    destruct (negb (mlinks c)).
    - destruct (id_groups_spec rest) as (_ & _ & Hp). exact Hp.
    - induction rest as [|x l IH]; cbn [map concat app]; [apply perm_nil|apply perm_skip, IH].
  Qed.

  Lemma subgroups_nonempty g : In g subs -> g <> [].
  Proof.
    unfold subs, subgroups, subgroup. intros H. apply filter_In in H. destruct H as [_ H].
    destruct g; [discriminate|discriminate].
  Qed.

  (* where a sub-group comes from *)
  Lemma subgroups_cases g : In g subs ->
    (exists i, g = filter (fun f => opt_nat_eqb (root_idx (iso c) (mpath f)) (Some i)) files) \/
    (mlinks c = false /\ In g (id_groups (filter (fun f => opt_nat_eqb (root_idx (iso c) (mpath f)) None) files))) \/
    (mlinks c = true /\ exists f, g = [f] /\ In f files /\ root_idx (iso c) (mpath f) = None).
  Proof.
    unfold subs, subgroups, subgroup. intros H. apply filter_In in H. destruct H as [H _].
    apply in_app_or in H. destruct H as [H|H].
    - left. apply in_map_iff in H. destruct H as (i & <- & _). exists i. reflexivity.
    - right. destruct (mlinks c); cbn [negb] in H.
      + right. split; auto. apply in_map_iff in H. destruct H as (f & <- & Hf).
        apply filter_In in Hf. destruct Hf as [Hf Hr]. apply opt_nat_eqb_none in Hr. exists f. auto.
      + left. auto.
  Qed.

  Lemma subgroups_closed g a b : In g subs -> In a g -> In b files -> same_sub c a b = true -> In b g.
  Proof.
    intros Hg Ha Hb Hs. destruct (subgroups_cases g Hg) as [(i & ->)|[(Hml & Hid)|(Hml & f & -> & Hf & Hr)]].
    - apply filter_In in Ha. destruct Ha as [_ Ha]. apply opt_nat_eqb_some in Ha.
      apply filter_In. split; auto. apply opt_nat_eqb_some. unfold same_sub in Hs. rewrite Ha in Hs.
      destruct (root_idx (iso c) (mpath b)) as [j|]; [|discriminate]. apply Nat.eqb_eq in Hs. congruence.
    - set (rest := filter (fun f => opt_nat_eqb (root_idx (iso c) (mpath f)) None) files) in *.
      destruct (id_groups_spec rest) as ((Hnd & Hm) & Hne & Hp).
      assert (Har : In a rest).
      { apply (Permutation_in _ Hp). apply in_concat_iff. exists g. auto. }
      apply filter_In in Har. destruct Har as [_ Har]. apply opt_nat_eqb_none in Har.
      unfold same_sub in Hs. rewrite Har in Hs.
      destruct (root_idx (iso c) (mpath b)) as [j|] eqn:Hbr; [discriminate|].
      apply andb_true_iff in Hs. destruct Hs as [_ Hs]. apply same_id_fid in Hs.
      assert (Hbrest : In b rest) by (apply filter_In; split; auto; apply opt_nat_eqb_none; exact Hbr).
      apply (Permutation_in _ (Permutation_sym Hp)) in Hbrest. apply in_concat_iff in Hbrest.
      destruct Hbrest as (g' & Hg' & Hbg').
      assert (g = g') as ->; auto.
      apply (NoDup_map_inj ghead (id_groups rest)); auto.
      rewrite (Hm g Hid a Ha), (Hm g' Hg' b Hbg'). f_equal. exact Hs.
    - destruct Ha as [<-|[]]. unfold same_sub in Hs. rewrite Hr in Hs.
      destruct (root_idx (iso c) (mpath b)); [discriminate|]. rewrite Hml in Hs. discriminate.
  Qed.

  Lemma subgroups_homogeneous g a b : In g subs -> In a g -> In b g -> same_sub c a b = true \/ g = [a].
  Proof.
    intros Hg Ha Hb. destruct (subgroups_cases g Hg) as [(i & ->)|[(Hml & Hid)|(Hml & f & -> & Hf & Hr)]].
    - left. apply filter_In in Ha, Hb. destruct Ha as [_ Ha], Hb as [_ Hb].
      apply opt_nat_eqb_some in Ha, Hb. unfold same_sub. rewrite Ha, Hb. apply Nat.eqb_refl.
    - left. set (rest := filter (fun f => opt_nat_eqb (root_idx (iso c) (mpath f)) None) files) in *.
      destruct (id_groups_spec rest) as ((Hnd & Hm) & Hne & Hp).
      assert (Hr : forall x, In x g -> root_idx (iso c) (mpath x) = None).
      { intros x Hx. assert (Hxr : In x rest).
        { apply (Permutation_in _ Hp). apply in_concat_iff. exists g. auto. }
        apply filter_In in Hxr. destruct Hxr as [_ Hxr]. apply opt_nat_eqb_none in Hxr. exact Hxr. }
      unfold same_sub. rewrite (Hr a Ha), (Hr b Hb), Hml. cbn [negb andb].
      apply same_id_fid. pose proof (Hm g Hid a Ha) as E1. pose proof (Hm g Hid b Hb) as E2. congruence.
    - right. destruct Ha as [<-|[]]. reflexivity.
  Qed.
End Subgroup.

(* ------------------------------------------------------------------ sorting keeps the sub-groups *)
Lemma sort_by_perm p subs l : sort_by p subs = Some l -> Permutation l subs.
Proof.
  unfold sort_by. destruct p;
    try (destruct (_ && _); [discriminate|]); intros H; injection H as <-;
    try apply ssort_perm; try apply Permutation_refl.
  apply Permutation_sym, Permutation_rev.
Qed.

Lemma sort_all_perm ps subs l : sort_all ps subs = Some l -> Permutation l subs.
Proof.
  revert l. induction ps as [|p ps IH]; cbn [sort_all fold_right]; intros l H.
  - injection H as <-. apply Permutation_refl.
  - fold (sort_all ps subs) in H. destruct (sort_all ps subs) as [l'|]; [|discriminate].
    eapply perm_trans; [eapply sort_by_perm, H|]. apply IH. reflexivity.
Qed.

(* ------------------------------------------------------------------ anatomy of a successful partition *)
Record anatomy (c : dcfg) (glen : N) (ms : list meta) (kept dropped : list meta) (sorted : list sub) : Prop := {
  an_not_modified : match mbefore c with Some ts => was_modified ts (survivors c glen ms) = false | None => True end;
  an_sorted : sort_all (decisive (prio c)) (subgroups c (survivors c glen ms)) = Some sorted;
  an_kept : kept = concat (filter (forced c) sorted
                           ++ firstn (nkeep c - length (filter (forced c) sorted))
                                     (filter (fun g => negb (forced c g)) sorted));
  an_dropped : dropped = concat (skipn (nkeep c - length (filter (forced c) sorted))
                                       (filter (fun g => negb (forced c g)) sorted))
}.

Lemma partition_anatomy c glen ms kept dropped :
  partition c glen ms = Ok (kept, dropped) -> exists sorted, anatomy c glen ms kept dropped sorted.
Proof.
  unfold partition. intros H.
  destruct (match mbefore c with Some ts => was_modified ts (survivors c glen ms) | None => false end) eqn:Em;
    [discriminate|].
  destruct (sort_all (decisive (prio c)) (subgroups c (survivors c glen ms))) as [sorted|] eqn:Es; [|discriminate].
  rewrite partition_filter in H.
  destruct (_ || _) in H; [|discriminate]. injection H as <- <-.
  exists sorted. split; auto.
  - destruct (mbefore c); auto.
  - rewrite firstn_min. reflexivity.
  - rewrite skipn_min. reflexivity.
Qed.

Lemma partition_no_panic c glen ms : partition c glen ms <> Panic.
Proof.
  unfold partition.
  destruct (match mbefore c with Some ts => was_modified ts (survivors c glen ms) | None => false end);
    [discriminate|].
  destruct (sort_all (decisive (prio c)) (subgroups c (survivors c glen ms))) as [sorted|]; [|discriminate].
  rewrite partition_filter.
  set (retain := filter (forced c) sorted). set (drop := filter (fun g => negb (forced c g)) sorted).
  set (missing := Nat.min (length drop) (nkeep c - length retain)).
  destruct ((nkeep c <=? length (retain ++ firstn missing drop)) || negb (nonempty (skipn missing drop))) eqn:E;
    [discriminate|].
  exfalso. apply orb_false_iff in E. destruct E as [E1 E2].
  apply Nat.leb_gt in E1. rewrite app_length, firstn_length in E1.
  apply negb_false_iff in E2.
  destruct (skipn missing drop) as [|x r] eqn:Esk; [discriminate|].
  assert (Hlen : length (skipn missing drop) = length drop - missing) by apply skipn_length.
  rewrite Esk in Hlen. cbn [length] in Hlen. unfold missing in *. lia.
Qed.

Section Anatomy.
  Variables (c : dcfg) (glen : N) (ms kept dropped : list meta) (sorted : list sub).
  Hypothesis An : anatomy c glen ms kept dropped sorted.
  Let files := survivors c glen ms.
  Let subs := subgroups c files.
  Let retain := filter (forced c) sorted.
  Let drop := filter (fun g => negb (forced c g)) sorted.
  Let k := nkeep c - length retain.

  Lemma an_perm_sorted : Permutation sorted subs.
  Proof. apply (sort_all_perm (decisive (prio c))). apply An. Qed.

  Lemma an_split : Permutation ((retain ++ firstn k drop) ++ skipn k drop) subs.
  Proof.
    rewrite <- app_assoc, firstn_skipn. eapply perm_trans; [apply filter_split_perm|apply an_perm_sorted].
  Qed.

  Lemma an_dropped_sub a : In a dropped -> exists g, In g subs /\ In a g /\ forced c g = false.
  Proof.
    rewrite (an_dropped _ _ _ _ _ _ An). intros H. apply in_concat_iff in H. destruct H as (g & Hg & Ha).
    fold retain drop k in Hg.
    assert (Hd : In g drop).
    { rewrite <- (firstn_skipn k drop). apply in_or_app. right. exact Hg. }
    apply filter_In in Hd. destruct Hd as [Hs Hf]. apply negb_true_iff in Hf.
    exists g. repeat split; auto. apply (Permutation_in _ an_perm_sorted), Hs.
  Qed.

  Lemma an_kept_sub a : In a kept -> exists g, In g subs /\ In a g /\ In g (retain ++ firstn k drop).
  Proof.
    rewrite (an_kept _ _ _ _ _ _ An). intros H. apply in_concat_iff in H. destruct H as (g & Hg & Ha).
    fold retain drop k in Hg. exists g. repeat split; auto.
    apply (Permutation_in _ an_split). apply in_or_app. left. exact Hg.
  Qed.
End Anatomy.

(* ------------------------------------------------------------------ C08: keep / drop-only-matching / atomic / n *)
Lemma forced_false c g : forced c g = false ->
  (forall x, In x g -> keep c (mpath x) = false) /\ (forall x, In x g -> may_drop c (mpath x) = true).
Proof.
  unfold forced, sub_keep, sub_may_drop. intros H. apply orb_false_iff in H. destruct H as [H1 H2].
  apply negb_false_iff in H2. split; intros x Hx.
  - destruct (keep c (mpath x)) eqn:E; auto.
    assert (existsb (fun f => keep c (mpath f)) g = true) by (apply existsb_exists; exists x; auto). congruence.
  - rewrite forallb_forall in H2. apply H2, Hx.
Qed.

Lemma c08_keep c glen ms kept dropped : partition c glen ms = Ok (kept, dropped) ->
  forall a b, In a dropped -> In b (survivors c glen ms) -> b = a \/ same_sub c a b = true ->
  keep c (mpath b) = false.
Proof.
  intros H a b Ha Hb Hab. destruct (partition_anatomy _ _ _ _ _ H) as (sorted & An).
  destruct (an_dropped_sub _ _ _ _ _ _ An a Ha) as (g & Hg & Hag & Hf).
  apply forced_false in Hf. destruct Hf as [Hk _]. apply Hk.
  destruct Hab as [->|Hs]; auto. eapply subgroups_closed; eauto.
Qed.

Lemma c08_drop_only_matching c glen ms kept dropped : partition c glen ms = Ok (kept, dropped) ->
  forall a b, In a dropped -> In b (survivors c glen ms) -> b = a \/ same_sub c a b = true ->
  may_drop c (mpath b) = true.
Proof.
  intros H a b Ha Hb Hab. destruct (partition_anatomy _ _ _ _ _ H) as (sorted & An).
  destruct (an_dropped_sub _ _ _ _ _ _ An a Ha) as (g & Hg & Hag & Hf).
  apply forced_false in Hf. destruct Hf as [_ Hk]. apply Hk.
  destruct Hab as [->|Hs]; auto. eapply subgroups_closed; eauto.
Qed.

Lemma c08_atomic c glen ms kept dropped : partition c glen ms = Ok (kept, dropped) ->
  exists ks ds, kept = concat ks /\ dropped = concat ds /\
                Permutation (ks ++ ds) (subgroups c (survivors c glen ms)).
Proof.
  intros H. destruct (partition_anatomy _ _ _ _ _ H) as (sorted & An).
  eexists _, _. split; [apply An|]. split; [apply An|]. eapply an_split; eauto.
Qed.

Lemma c08_members c glen ms kept dropped : partition c glen ms = Ok (kept, dropped) ->
  Permutation (kept ++ dropped) (survivors c glen ms).
Proof.
  intros H. destruct (c08_atomic _ _ _ _ _ H) as (ks & ds & -> & -> & Hp).
  rewrite <- concat_app. eapply perm_trans; [apply Permutation_concat, Hp|]. apply subgroups_perm.
Qed.

Lemma c08_atomic_pairs c glen ms kept dropped : partition c glen ms = Ok (kept, dropped) ->
  forall a b, In b (survivors c glen ms) -> same_sub c a b = true ->
  (In a dropped -> In b dropped) /\ (In a kept -> In b kept).
Proof.
  intros H a b Hb Hs. destruct (partition_anatomy _ _ _ _ _ H) as (sorted & An). split; intros Ha.
  - rewrite (an_dropped _ _ _ _ _ _ An) in *. apply in_concat_iff in Ha. destruct Ha as (g & Hg & Ha).
    apply in_concat_iff. exists g. split; auto.
    assert (Hgs : In g (subgroups c (survivors c glen ms))).
    { apply (Permutation_in _ (an_split _ _ _ _ _ _ An)). apply in_or_app. right. exact Hg. }
    eapply subgroups_closed; eauto.
  - rewrite (an_kept _ _ _ _ _ _ An) in *. apply in_concat_iff in Ha. destruct Ha as (g & Hg & Ha).
    apply in_concat_iff. exists g. split; auto.
    assert (Hgs : In g (subgroups c (survivors c glen ms))).
    { apply (Permutation_in _ (an_split _ _ _ _ _ _ An)). apply in_or_app. left. exact Hg. }
    eapply subgroups_closed; eauto.
Qed.

Lemma c08_n c glen ms kept dropped : partition c glen ms = Ok (kept, dropped) ->
  exists ks ds, kept = concat ks /\ dropped = concat ds /\
                Permutation (ks ++ ds) (subgroups c (survivors c glen ms)) /\
                Nat.min (nkeep c) (length (subgroups c (survivors c glen ms))) <= length ks.
Proof.
  intros H. destruct (partition_anatomy _ _ _ _ _ H) as (sorted & An).
  eexists _, _. split; [apply An|]. split; [apply An|]. split; [eapply an_split; eauto|].
  pose proof (Permutation_length (an_perm_sorted _ _ _ _ _ _ An)) as Hl.
  pose proof (Permutation_length (filter_split_perm (forced c) sorted)) as Hl2.
  rewrite app_length in Hl2. rewrite app_length, firstn_length. lia.
Qed.

(* a dropped file always leaves a kept one *)
Lemma c08_kept_nonempty c glen ms kept dropped : partition c glen ms = Ok (kept, dropped) ->
  dropped <> [] -> kept <> [].
Proof.
  intros H Hd. destruct (c08_n _ _ _ _ _ H) as (ks & ds & -> & -> & Hp & Hn).
  assert (Hsub : length (subgroups c (survivors c glen ms)) >= 1).
  { pose proof (Permutation_length Hp) as Hl. rewrite app_length in Hl. unfold sub in *.
    destruct ds; [contradiction Hd; reflexivity|cbn [length] in Hl; lia]. }
  assert (Hk : nkeep c >= 1) by (unfold nkeep; lia).
  destruct ks as [|g ks]; [cbn [length] in Hn; lia|].
  assert (Hg : g <> []).
  { apply (subgroups_nonempty c (survivors c glen ms)). apply (Permutation_in _ Hp). left. reflexivity. }
  destruct g; [contradiction|]. cbn [concat app]. discriminate.
Qed.

(* ------------------------------------------------------------------ script *)
Definition cmd_target (x : cmd) : option meta :=
  match x with SoftLink t _ | HardLink t _ | RefLink t _ => Some t | _ => None end.

Lemma script_spec op sm kept dropped : (dropped <> [] -> kept <> []) ->
  exists cmds, script_o op sm kept dropped = Ok cmds /\ map cmd_victim cmds = dropped /\
               forall x t, In x cmds -> cmd_target x = Some t -> hd_error kept = Some t.
Proof.
  intros Hk. unfold script_o. destruct dropped as [|d ds].
  - exists []. repeat split; auto. intros x t [].
  - destruct kept as [|t0 ks]; [exfalso; apply Hk; [discriminate|reflexivity]|].
    eexists. split; [reflexivity|]. split.
    + rewrite map_map. rewrite <- (map_id (d :: ds)) at 2. apply map_ext. intros a. destruct op; reflexivity.
    + intros x t Hx Ht. apply in_map_iff in Hx. destruct Hx as (a & <- & _).
      destruct op; cbn [cmd_target] in Ht; try discriminate; injection Ht as <-; reflexivity.
Qed.

Lemma c08_script op sm c glen ms kept dropped : partition c glen ms = Ok (kept, dropped) ->
  exists cmds, script_o op sm kept dropped = Ok cmds /\ map cmd_victim cmds = dropped /\
               forall x t, In x cmds -> cmd_target x = Some t -> hd_error kept = Some t /\ In t kept.
Proof.
  intros H. destruct (script_spec op sm kept dropped (c08_kept_nonempty _ _ _ _ _ H)) as (cmds & A & B & C).
  exists cmds. repeat split; auto.
  - eapply C; eauto.
  - specialize (C x t H0 H1). destruct kept; cbn [hd_error] in C; [discriminate|]. injection C as <-. left. reflexivity.
Qed.

(* ------------------------------------------------------------------ header merge *)
Lemma c08_inherit h c glen ms :
  n_opt c = None -> iso c = [] -> mlinks c = false -> no_size c = false -> mbefore c = None ->
  partition (merge h c) glen ms = partition (explicit h c) glen ms.
Proof.
  intros H1 H2 H3 H4 H5. assert (E : merge h c = explicit h c).
  { unfold merge, explicit. rewrite H1, H2, H3, H4, H5. reflexivity. }
  rewrite E. reflexivity.
Qed.

Lemma c08_inherit_cli_wins h c :
  (forall n, n_opt c = Some n -> n_opt (merge h c) = Some n) /\
  (iso c <> [] -> iso (merge h c) = iso c) /\
  mlinks (merge h c) = (mlinks c || h_mlinks h) /\
  no_size (merge h c) = (no_size c || h_transform h) /\
  (forall t, mbefore c = Some t -> mbefore (merge h c) = Some t) /\
  (n_opt c = None -> nkeep (merge h c) = Nat.max 1 (group_rf_over h)) /\
  keep (merge h c) = keep c /\ may_drop (merge h c) = may_drop c /\ prio (merge h c) = prio c.
Proof.
  unfold merge, nkeep. cbn. repeat split; auto.
  - intros n ->. reflexivity.
  - destruct (iso c); [intros H; contradiction H; reflexivity|reflexivity].
  - intros t ->. reflexivity.
  - intros ->. reflexivity.
Qed.

(* ------------------------------------------------------------------ dedupe (one group) *)
Lemma add_by_dev_perm f gs : Permutation (concat (add_by_dev f gs)) (f :: concat gs).
Proof.
  induction gs as [|g gs IH]; cbn [add_by_dev]; [apply Permutation_refl|].
  destruct (match g with x :: _ => N.eqb (mdev x) (mdev f) | [] => false end).
  - cbn [concat]. rewrite <- app_assoc. apply Permutation_sym. apply (Permutation_middle g (concat gs) f).
  - cbn [concat]. eapply perm_trans; [apply Permutation_app_head, IH|]. apply Permutation_sym, Permutation_middle.
Qed.

Lemma by_device_perm files : Permutation (concat (by_device files)) files.
Proof.
  unfold by_device.
  assert (G : forall gs0, Permutation (concat (fold_left (fun gs f => add_by_dev f gs) files gs0)) (concat gs0 ++ files)).
  { induction files as [|f files IH]; intros gs0; cbn [fold_left].
    - rewrite app_nil_r. apply Permutation_refl.
    - eapply perm_trans; [apply IH|]. eapply perm_trans; [apply Permutation_app_tail, add_by_dev_perm|].
      cbn [app]. apply Permutation_middle. }
  apply (G []).
Qed.

Lemma c08_dedupe_group op c sm glen ms x : In x (group_cmds (dedupe_group op c sm glen ms)) ->
  exists files part kept dropped,
    opt_seq ms = Some files /\ (forall f, In f part -> In f files) /\
    partition c glen part = Ok (kept, dropped) /\ In (cmd_victim x) dropped /\
    (forall t, cmd_target x = Some t -> In t kept).
Proof.
  unfold dedupe_group. destruct (opt_seq ms) as [files|]; [|intros []].
  cbn [group_cmds]. intros H. apply in_flat_map in H. destruct H as (pr & Hpr & Hx).
  apply in_map_iff in Hpr. destruct Hpr as (part & <- & Hpart). cbn [snd] in Hx.
  destruct (partition c glen part) as [[kept dropped]| |] eqn:Ep; try (destruct Hx; fail).
  destruct (c08_script op sm _ _ _ _ _ Ep) as (cmds & Hs & Hv & Ht). rewrite Hs in Hx.
  exists files, part, kept, dropped. repeat split; auto.
  - intros f Hf. destruct (cross_device_disallowed op).
    + apply (Permutation_in _ (by_device_perm files)). apply in_concat_iff. exists part. auto.
    + destruct Hpart as [<-|[]]. exact Hf.
  - rewrite <- Hv. apply in_map, Hx.
  - intros t Hxt. eapply Ht; eauto.
Qed.
