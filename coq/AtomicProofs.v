(* AtomicProofs.v — engine A, part 1: basic facts about FsModel.v, inversion lemmas for the
   primitive calls, and the proof rule [safe] ("for EVERY fault oracle") with its soundness
   w.r.t. [states] / [run]. *)
From FV Require Import Base FsModel AtomicModel.
Open Scope N_scope.

(* ---------------------------------------------------------------- equality tests *)
Lemma comp_eqb_spec a b : reflect (a = b) (comp_eqb a b).
Proof.
  revert b; induction a as [|x a IH]; intros [|y b]; cbn [comp_eqb]; try (constructor; congruence).
  destruct (N.eqb_spec x y) as [->|Hn]; cbn [andb].
  - destruct (IH b) as [->|Hn]; constructor; congruence.
  - constructor; congruence.
Qed.
Lemma path_eqb_spec p q : reflect (p = q) (path_eqb p q).
Proof.
  revert q; induction p as [|x p IH]; intros [|y q]; cbn [path_eqb]; try (constructor; congruence).
  destruct (comp_eqb_spec x y) as [->|Hn]; cbn [andb].
  - destruct (IH q) as [->|Hn]; constructor; congruence.
  - constructor; congruence.
Qed.
Lemma path_eqb_refl p : path_eqb p p = true.
Proof. destruct (path_eqb_spec p p); congruence. Qed.
Lemma path_eqb_neq p q : p <> q -> path_eqb p q = false.
Proof. destruct (path_eqb_spec p q); congruence. Qed.
Lemma path_eqb_neq' p q : q <> p -> path_eqb p q = false.
Proof. destruct (path_eqb_spec p q); congruence. Qed.

Lemma upd_names_same f p v : upd_names f p v p = v.
Proof. unfold upd_names. now rewrite path_eqb_refl. Qed.
Lemma upd_names_other f p v q : p <> q -> upd_names f p v q = f q.
Proof. intros H. unfold upd_names. now rewrite path_eqb_neq. Qed.
Lemma upd_inodes_same f i v : upd_inodes f i v i = v.
Proof. unfold upd_inodes. now rewrite N.eqb_refl. Qed.
Lemma upd_inodes_other f i v j : i <> j -> upd_inodes f i v j = f j.
Proof. intros H. unfold upd_inodes. destruct (N.eqb_spec i j); congruence. Qed.

(* ---------------------------------------------------------------- normalisation *)
Definition clean_c (c : comp) : Prop := c <> dot_c /\ c <> dotdot_c.
Definition clean (p : path) : Prop := Forall clean_c p.

Lemma norm_step_clean acc c : Forall clean_c acc -> Forall clean_c (norm_step acc c).
Proof.
  intros H. unfold norm_step.
  destruct (comp_eqb_spec c dot_c) as [->|Hd]; auto.
  destruct (comp_eqb_spec c dotdot_c) as [->|Hdd].
  - destruct acc as [|r [|r' acc']]; auto.
    + destruct (comp_eqb r root_c); auto.
    + inversion H; auto.
  - constructor; auto. split; auto.
Qed.
Lemma fold_norm_clean p acc : Forall clean_c acc -> Forall clean_c (fold_left norm_step p acc).
Proof. revert acc; induction p as [|c p IH]; intros acc H; cbn [fold_left]; auto using norm_step_clean. Qed.
Lemma norm_clean p : clean (norm p).
Proof. unfold clean, norm. apply Forall_rev. apply fold_norm_clean. constructor. Qed.
Lemma fold_norm_of_clean p acc : Forall clean_c p -> fold_left norm_step p acc = rev p ++ acc.
Proof.
  revert acc; induction p as [|c p IH]; intros acc H; cbn [fold_left rev]; auto.
  inversion H as [|? ? [Hd Hdd] Hp]; subst. rewrite IH by auto.
  unfold norm_step. destruct (comp_eqb_spec c dot_c); [congruence|]. destruct (comp_eqb_spec c dotdot_c); [congruence|].
  now rewrite <- app_assoc.
Qed.
Lemma norm_of_clean p : clean p -> norm p = p.
Proof. intros H. unfold norm. rewrite fold_norm_of_clean by auto. rewrite app_nil_r. apply rev_involutive. Qed.
Lemma norm_idem p : norm (norm p) = norm p.
Proof. apply norm_of_clean, norm_clean. Qed.
Lemma clean_iff p : clean p <-> norm p = p.
Proof. split; [apply norm_of_clean|]. intros <-. apply norm_clean. Qed.
Lemma clean_removelast p : clean p -> clean (removelast p).
Proof.
  unfold clean. induction p as [|c p IH]; intros H; cbn [removelast]; auto.
  inversion H; subst. destruct p; auto.
Qed.
Lemma clean_parent p : clean p -> clean (parent p).
Proof. apply clean_removelast. Qed.
Lemma norm_parent_clean p : clean p -> norm (parent p) = parent p.
Proof. intros H. apply norm_of_clean, clean_parent, H. Qed.

(* ---------------------------------------------------------------- programs: unfolding lemmas *)
Lemma states_Ret {R} o i (r : R) s : states o i (Ret r) s = [s].
Proof. reflexivity. Qed.
Lemma states_Warn {R} o i (k : prog R) s : states o i (Warn k) s = states o i k s.
Proof. reflexivity. Qed.
Lemma states_Do {R} o i c (k : res -> prog R) s :
  states o i (Do c k) s =
  s :: mids c s ++ states o (next_idx i c) (k (fst (do_call (fault_for o i c) c s))) (snd (do_call (fault_for o i c) c s)).
Proof.
  unfold states, states_of. cbn [steps flat_map scall spre spost]. rewrite <- app_assoc. reflexivity.
Qed.

(* ---------------------------------------------------------------- the proof rule *)
Section Safe.
  Context {R : Type}.
  Variable P : fs -> Prop.                          (* must hold in every state a crash can expose *)
  Variable Q : fs -> R -> nat -> nat -> Prop.       (* final state, result, warnings, injected faults *)

  Fixpoint safe (p : prog R) (s : fs) (w nf : nat) : Prop :=
    match p with
    | Ret r => P s /\ Q s r w nf
    | Warn k => safe k s (S w) nf
    | Do c k =>
        P s /\ (forall m, In m (mids c s) -> P m) /\
        forall f : option fault, (is_query c = true -> f = None) ->
          safe (k (fst (do_call f c s))) (snd (do_call f c s)) w
               ((match f with Some _ => 1 | None => 0 end) + nf)%nat
    end.

  Lemma safe_sound p : forall s w nf, safe p s w nf ->
    forall o i, Forall P (states o i p s) /\
                let r := run_acc o i p s w nf in Q (ofs r) (ores r) (owarn r) (ofaults r).
  Proof.
    induction p as [r|c k IH|k IH]; intros s w nf H o i.
    - cbn [safe] in H. destruct H as [HP HQ]. rewrite states_Ret. split; [repeat constructor; auto|]. exact HQ.
    - cbn [safe] in H. destruct H as [HP [Hm Hk]].
      rewrite states_Do. cbn [run_acc].
      specialize (Hk (fault_for o i c)).
      assert (Hq : is_query c = true -> fault_for o i c = None) by (unfold fault_for; intros ->; reflexivity).
      specialize (Hk Hq).
      replace (match fault_for o i c with Some _ => 1%nat | None => 0%nat end) with (injected o i c) in Hk
        by reflexivity.
      destruct (IH _ _ _ _ Hk o (next_idx i c)) as [HF HQ].
      split; [|exact HQ].
      constructor; auto. apply Forall_app. split; auto.
      apply Forall_forall. exact Hm.
    - cbn [safe] in H. rewrite states_Warn. cbn [run_acc]. apply IH. exact H.
  Qed.

  Lemma safe_states p s : safe p s 0 0 -> forall o i st, In st (states o i p s) -> P st.
  Proof. intros H o i st Hin. destruct (safe_sound p s 0 0 H o i) as [HF _]. rewrite Forall_forall in HF. auto. Qed.
  Lemma safe_final p s : safe p s 0 0 -> forall o i,
    let r := run o i p s in Q (ofs r) (ores r) (owarn r) (ofaults r).
  Proof. intros H o i. destruct (safe_sound p s 0 0 H o i) as [_ HQ]. exact HQ. Qed.
End Safe.

(* monotonicity: weaken the two predicates *)
Lemma safe_weaken {R} (P P' : fs -> Prop) (Q Q' : fs -> R -> nat -> nat -> Prop) :
  (forall s, P s -> P' s) -> (forall s r w nf, Q s r w nf -> Q' s r w nf) ->
  forall p s w nf, safe P Q p s w nf -> safe P' Q' p s w nf.
Proof.
  intros HP HQ p. induction p as [r|c k IH|k IH]; intros s w nf H; cbn [safe] in *.
  - destruct H; split; auto.
  - destruct H as [H1 [H2 H3]]. split; [auto|]. split; [auto|]. intros f Hf. apply IH. apply H3. exact Hf.
  - apply IH. exact H.
Qed.

(* ---------------------------------------------------------------- calls: inversion lemmas *)
(* an injected fault: error result; the state is unchanged unless the call is a CopyTo with a partial write *)
Lemma do_call_fault ft c s : is_query c = false ->
  do_call (Some ft) c s = (RErr (ferr ft), fail_nstate (ncall c) ft s).
Proof. intros H. unfold do_call. now rewrite H. Qed.

Lemma fail_nstate_not_copy c ft s : (forall a b now, c <> CopyTo a b now) -> fail_nstate c ft s = s.
Proof. intros H. destruct c; cbn [fail_nstate]; try reflexivity. exfalso. eapply H. reflexivity. Qed.

(* Natural semantics, one lemma per primitive, on operands that are already normalised. *)
Lemma rename_nat a b s : clean a -> clean b ->
  let rs := do_call None (Rename a b) s in
  (exists e, rs = (RErr e, s)) \/
  (exists n, names s a = Some n /\ n <> NDir /\
     (rs = (ROk, set_name (set_name s a None) b (Some n)) \/
      (rs = (ROk, s) /\ names s b = Some n /\ exists i, n = NFile i))).
Proof.
  intros Ha Hb. cbn [do_call]. unfold nat_call. cbn [ncall]. rewrite !norm_of_clean by auto. cbn [nat_ncall].
  destruct (names s a) as [[i| |t]|] eqn:Ea; [| left; eauto | | left; eauto].
  - destruct (negb (is_dir s (parent b))); [left; eauto|].
    destruct (names s b) as [[j| |t']|] eqn:Eb.
    + cbn [node_is_file_same]. destruct (N.eqb_spec i j) as [->|Hn].
      * right. exists (NFile j). repeat split; try congruence. right. repeat split; eauto.
      * right. exists (NFile i). repeat split; try congruence. left. reflexivity.
    + left; eauto.
    + right. exists (NFile i). repeat split; try congruence. left. reflexivity.
    + right. exists (NFile i). repeat split; try congruence. left. reflexivity.
  - destruct (negb (is_dir s (parent b))); [left; eauto|].
    destruct (names s b) as [[j| |t']|] eqn:Eb; cbn [node_is_file_same].
    + right. exists (NLink t). repeat split; try congruence. left. reflexivity.
    + left; eauto.
    + right. exists (NLink t). repeat split; try congruence. left. reflexivity.
    + right. exists (NLink t). repeat split; try congruence. left. reflexivity.
Qed.

Lemma link_nat a b s : clean a -> clean b ->
  let rs := do_call None (Link a b) s in
  (exists e, rs = (RErr e, s)) \/
  (exists n, names s a = Some n /\ n <> NDir /\ names s b = None /\ rs = (ROk, set_name s b (Some n))).
Proof.
  intros Ha Hb. cbn [do_call]. unfold nat_call. cbn [ncall]. rewrite !norm_of_clean by auto. cbn [nat_ncall].
  destruct (names s a) as [[i| |t]|] eqn:Ea; [| left; eauto | | left; eauto];
    (destruct (names s b) eqn:Eb; [left; eauto|]; destruct (is_dir s (parent b)); [|left; eauto];
     right; eexists; repeat split; eauto; congruence).
Qed.

Lemma symlink_nat t l s : clean t -> clean l ->
  let rs := do_call None (Symlink t l) s in
  (exists e, rs = (RErr e, s)) \/ (names s l = None /\ rs = (ROk, set_name s l (Some (NLink t)))).
Proof.
  intros Ht Hl. cbn [do_call]. unfold nat_call. cbn [ncall]. rewrite !norm_of_clean by auto. cbn [nat_ncall].
  destruct (names s l) eqn:El; [left; eauto|]. destruct (is_dir s (parent l)); [right; auto|left; eauto].
Qed.

Lemma unlink_nat a s : clean a ->
  let rs := do_call None (Unlink a) s in
  (exists e, rs = (RErr e, s)) \/ (exists n, names s a = Some n /\ n <> NDir /\ rs = (ROk, set_name s a None)).
Proof.
  intros Ha. cbn [do_call]. unfold nat_call. cbn [ncall]. rewrite !norm_of_clean by auto. cbn [nat_ncall].
  destruct (names s a) as [[i| |t]|] eqn:Ea; [right|left; eauto|right|left; eauto]; eexists; repeat split; eauto; congruence.
Qed.

Lemma mkdir_nat d s : clean d ->
  let rs := do_call None (Mkdir d) s in
  (exists e, rs = (RErr e, s)) \/ (names s d = None /\ rs = (ROk, set_name s d (Some NDir))).
Proof.
  intros Hd. cbn [do_call]. unfold nat_call. cbn [ncall]. rewrite !norm_of_clean by auto. cbn [nat_ncall].
  destruct (names s d) eqn:Ed; [left; eauto|].
  destruct (names s (parent d)) as [[i| |t]|]; [left; eauto|right; auto|left; eauto|left; eauto].
Qed.

(* calls that never change the state *)
Lemma stateless_nat c s :
  match c with OpenW _ | LockW _ | UnlockW _ | Exists _ | IsDir _ | OpenR _ | LExists _ => True | _ => False end ->
  snd (do_call None c s) = s.
Proof.
  intros H. cbn [do_call]. unfold nat_call.
  destruct c; try contradiction; cbn [ncall nat_ncall];
    repeat (match goal with |- context [match ?x with _ => _ end] => destruct x end); reflexivity.
Qed.

Lemma lockw_nat a s : clean a ->
  fst (do_call None (LockW a) s) = ROk -> forall q i, follow s a = RFound q (NFile i) -> locks s i = false.
Proof.
  intros Ha. cbn [do_call]. unfold nat_call. cbn [ncall]. rewrite norm_of_clean by auto. cbn [nat_ncall].
  intros H q i E. rewrite E in H. destruct (locks s i); [discriminate|reflexivity].
Qed.
Lemma lockw_locked a s q i : clean a -> follow s a = RFound q (NFile i) -> locks s i = true ->
  do_call None (LockW a) s = (RErr EAGAIN, s).
Proof.
  intros Ha E L. cbn [do_call]. unfold nat_call. cbn [ncall]. rewrite norm_of_clean by auto. cbn [nat_ncall].
  now rewrite E, L.
Qed.

(* resolve on a path that is a regular file / absent *)
Lemma follow_file s p i : names s p = Some (NFile i) -> follow s p = RFound p (NFile i).
Proof. intros H. unfold follow, LINK_FUEL. cbn [resolve]. now rewrite H. Qed.
Lemma follow_dir s p : names s p = Some NDir -> follow s p = RFound p NDir.
Proof. intros H. unfold follow, LINK_FUEL. cbn [resolve]. now rewrite H. Qed.
Lemma follow_none s p : names s p = None -> follow s p = RDangling p.
Proof. intros H. unfold follow, LINK_FUEL. cbn [resolve]. now rewrite H. Qed.
Lemma follow_link s p t i : names s p = Some (NLink t) -> names s t = Some (NFile i) -> follow s p = RFound t (NFile i).
Proof. intros H1 H2. unfold follow, LINK_FUEL. cbn [resolve]. now rewrite H1, H2. Qed.

Lemma file_bytes_file s p i d : names s p = Some (NFile i) -> inodes s i = Some d -> file_bytes s p = Some (ibytes d).
Proof. intros H1 H2. unfold file_bytes. rewrite (follow_file _ _ _ H1), H2. reflexivity. Qed.

(* resolve never returns a link as the found node *)
Lemma resolve_found_not_link fuel s p q t : resolve fuel s p <> RFound q (NLink t).
Proof.
  revert p; induction fuel as [|f IH]; intros p; cbn [resolve];
    destruct (names s p) as [[i| |t']|]; try congruence; try apply IH.
Qed.
Lemma resolve_found_names fuel s p q n : resolve fuel s p = RFound q n -> names s q = Some n.
Proof.
  revert p; induction fuel as [|f IH]; intros p; cbn [resolve];
    destruct (names s p) as [[i| |t']|] eqn:E; try congruence; intros H; try (injection H as <- <-; exact E).
  eapply IH; eauto.
Qed.
Lemma resolve_dangling_names fuel s p q : resolve fuel s p = RDangling q -> names s q = None.
Proof.
  revert p; induction fuel as [|f IH]; intros p; cbn [resolve];
    destruct (names s p) as [[i| |t']|] eqn:E; try congruence; intros H; try (injection H as <-; exact E).
  eapply IH; eauto.
Qed.
