(* Props_C20.v — property C20: files locked by another process are left alone.
   Statements only; proofs are `exact <lemma of AtomicProofs4>`.

   locks s i = true : another process holds an fcntl lock — of ANY mode (read or write) on ANY byte range, inside or
   beyond the current end of file — on inode i.  LockW conflicts with every such lock because lock.rs requests a WRITE
   lock on the WHOLE file: struct flock { l_type = F_WRLCK, l_whence = SEEK_SET, l_start = 0, l_len = 0 }, and
   l_len = 0 means "up to the largest possible offset", so every range overlaps and a write lock conflicts with read
   locks too.  That is what makes a per-inode boolean a faithful lock table; the correspondence check reads the
   struct flock of every fcntl(F_SETLK) call from the shim's trace and requires exactly these values, and holds
   foreign read / write locks on [0,1), a middle byte, [EOF,EOF+1), [EOF,inf) and a sentinel byte at 1 GiB.
   Permissions are not modelled: if the probe's open(O_WRONLY) is refused (EACCES, e.g. a 0444 file without
   CAP_DAC_OVERRIDE) the model receives that refusal as a fault of the OpenW call; it is not Unsupported, so the
   command fails and the file is left alone (checked for real with the capabilities dropped).
   Stated boundary (not a finding): `let _ = maybe_lock(..)?` drops the guard at once, so the lock is a
   check-then-act probe (OpenW; LockW; UnlockW; then the command) — a lock taken by the other process after
   the probe is not seen.  maybe_lock swallows errors of kind Unsupported (EOPNOTSUPP / ENOTSUP from the open
   or the fcntl): [not_unsupported o i] excludes exactly the fault oracles that inject such an error into the
   two probe calls. *)
From FV Require Import Base FsModel AtomicModel AtomicProofs AtomicProofs2 AtomicProofs3 AtomicProofs4 AtomicProofs6.
Open Scope N_scope.

(* every operation: Err, file system unchanged (Leibniz), nothing logged but the error itself, at most the
   two probe calls consumed *)
Theorem C20_locked_untouched : forall (c : fcmd) (s : fs) (o : oracle) (i : nat) (i0 : N),
  norm (victim c) = victim c -> names s (victim c) = Some (NFile i0) -> locks s i0 = true ->
  not_unsupported o i -> not_unsupported o (S i) ->
  let r := run o i (prog_of true c) s in
  ofs r = s /\ ores r = IErr /\ owarn r = 0%nat /\ (oidx r = S i \/ oidx r = S (S i)).
Proof. exact c20_locked_cmd. Qed.
Print Assumptions C20_locked_untouched.

(* ... and run_script processes the remaining commands exactly as if that command were absent (same final
   state, same results, same count; one more warning; the oracle resumes after the probe calls) *)
Theorem C20_others_unaffected : forall (c : fcmd) (rest : list fcmd) (s : fs) (o : oracle) (i : nat) (i0 : N),
  norm (victim c) = victim c -> names s (victim c) = Some (NFile i0) -> locks s i0 = true ->
  not_unsupported o i -> not_unsupported o (S i) ->
  exists j, (j = S i \/ j = S (S i)) /\
    let t := run_script true o i (c :: rest) s in
    let t' := run_script true o j rest s in
    sfs t = sfs t' /\ sresults t = IErr :: sresults t' /\ processed_count t = processed_count t' /\
    swarn t = S (swarn t') /\ sidx t = sidx t'.
Proof. exact c20_locked_script. Qed.
Print Assumptions C20_others_unaffected.

(* --no-lock: the lock table is irrelevant (every oracle) *)
Theorem C20_no_lock_flag : forall (c : fcmd) (o : oracle) (i : nat) (s : fs) (l : N -> bool),
  let r := run o i (prog_of false c) s in let r' := run o i (prog_of false c) (set_locks s l) in
  ofs r' = set_locks (ofs r) l /\ ores r' = ores r /\ oidx r' = oidx r /\ owarn r' = owarn r /\ ofaults r' = ofaults r.
Proof. exact c20_no_lock_flag. Qed.
Print Assumptions C20_no_lock_flag.

(* a script of ANY length whose victims are all locked by other processes: the file system is the same state
   (Leibniz), every command reports Err, nothing is counted, one warning per command — for every oracle that
   injects no Unsupported error (locked_victim s c = the victim path is resolved and names a locked file in s) *)
Theorem C20_all_locked_script : forall (o : oracle), (forall k, not_unsupported o k) ->
  forall (cs : list fcmd) (s : fs), Forall (locked_victim s) cs ->
  forall i, let t := run_script true o i cs s in
    sfs t = s /\ sresults t = repeat IErr (length cs) /\ processed_count t = 0%nat /\ swarn t = length cs.
Proof. exact c20_all_locked. Qed.
Print Assumptions C20_all_locked_script.

(* ---------------------------------------------------------------- non-vacuity *)
Definition l_t : path := [root_c; [119]; [102; 49]].
Definition l_a : path := [root_c; [119]; [102; 50]].
Definition l_s0 : fs :=
  create_at (create_at (set_name (set_name empty_fs [root_c] (Some NDir)) [root_c; [119]] (Some NDir))
                       l_t (mkInode [104; 105] 100)) l_a (mkInode [104; 105] 101).
Definition l_s : fs := set_locks l_s0 (fun i => N.eqb i 2).
Example C20_hyp_inhabited :
  norm l_a = l_a /\ names l_s l_a = Some (NFile 2) /\ locks l_s 2 = true /\ not_unsupported nofault 0 /\ not_unsupported nofault 1.
Proof. repeat split; reflexivity. Qed.
(* the same command on the unlocked state succeeds, and with --no-lock it succeeds on the locked state too *)
Example C20_contrast :
  ores (run nofault 0 (prog_of true (FRemove l_a)) l_s0) = IOk /\
  ores (run nofault 0 (prog_of true (FRemove l_a)) l_s) = IErr /\
  ores (run nofault 0 (prog_of false (FRemove l_a)) l_s) = IOk /\
  (* an injected EOPNOTSUPP on the fcntl call makes maybe_lock proceed unlocked: the excluded oracle class *)
  ores (run (fun i => if Nat.eqb i 1 then Some (mkFault EOPNOTSUPP None) else None) 0 (prog_of true (FRemove l_a)) l_s) = IOk.
Proof. vm_compute. repeat split; reflexivity. Qed.
(* the hypothesis of C20_all_locked_script is satisfiable: two commands on the locked file *)
Example C20_all_locked_inhabited :
  Forall (locked_victim l_s) [FRemove l_a; FRemove l_a] /\ (forall k, not_unsupported nofault k).
Proof.
  split; [|intros k; exact (proj1 (proj2 (proj2 (proj2 C20_hyp_inhabited))))].
  repeat constructor; try (exists 2; split; reflexivity).
Qed.
