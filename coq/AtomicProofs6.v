(* AtomicProofs6.v — C20: a whole script of locked victims (any length) changes nothing. *)
From FV Require Import Base FsModel AtomicModel AtomicProofs AtomicProofs2 AtomicProofs3 AtomicProofs4.
Open Scope N_scope.

Definition locked_victim (s : fs) (c : fcmd) : Prop :=
  norm (victim c) = victim c /\ exists i0, names s (victim c) = Some (NFile i0) /\ locks s i0 = true.

Lemma c20_all_locked o : (forall k, not_unsupported o k) ->
  forall (cs : list fcmd) (s : fs), Forall (locked_victim s) cs ->
  forall i, let t := run_script true o i cs s in
    sfs t = s /\ sresults t = repeat IErr (length cs) /\ processed_count t = 0%nat /\ swarn t = length cs.
Proof.
  intros Hns cs s Hall. induction Hall as [|c rest Hc _ IH]; intros i.
  - cbn. auto.
  - destruct Hc as (Hn & i0 & Ea & Hl).
    destruct (c20_locked_script c rest s o i i0 Hn Ea Hl (Hns i) (Hns (S i))) as (j & _ & H).
    cbv zeta in H. destruct H as (H1 & H2 & H3 & H4 & _).
    destruct (IH j) as (I1 & I2 & I3 & I4).
    cbv zeta. rewrite H1, H2, H3, H4, I1, I2, I3, I4. cbn [length repeat]. auto.
Qed.
