(* Props_C16.v — property C16: globs match as documented; directory pruning is conservative.
   Statements only; every proof is `exact <lemma of GlobProofs*>`.

   Model: GlobModel.v (parse_glob = the nom grammar of pattern.rs glob_to_regex; to_re / show_re =
   the emitted regex and its text; compile_glob = Pattern::glob_with; get_fixed_prefix /
   partial_match = regex.rs; abs_pattern / matches_dir = selector.rs).
   rmatch (GlobProofs.v) = standard regex matching on the emitted fragment: what the `regex` crate
   is trusted to implement; gmatch (GlobProofs2.v) = the documented glob semantics.
   Quantification: every glob text (any length, any characters), every subject string, both
   values of --ignore-case.
   Fragment: a glob for which compile_glob answers Ok has only character classes made of literal
   characters and ranges without  \ ^ [ ] & ~ -  (other class bodies: Unsup, compared with the
   implementation differentially only) and no `!( )` (Err, as in the implementation).
   Case folding (ci = true) is `lower`: faithful for code points <= U+017E except U+0130
   (ci_modelled); U+0130 (two-character lower case), U+017F (folds with s/S in the regex crate),
   K/Kelvin sign, final sigma etc. (everything >= U+0180) are NOT modelled. *)
From FV Require Import Base GlobModel GlobProofs GlobProofs2 GlobProofs3 GlobProofs4.
Open Scope N_scope.

(* The executable matcher that is compared with the implementation on every run decides rmatch. *)
Theorem C16_matcher_decides_regex : forall ci s r, re_match ci r s = true <-> rmatch ci r s.
Proof. exact re_match_spec. Qed.
Print Assumptions C16_matcher_decides_regex.

(* Translation: for every glob text that compiles, the compiled pattern (executable matcher and
   regex semantics of the emitted expression) matches exactly the strings the documented
   semantics says: ? and * do not cross '/', ** does (newlines included), classes, {a,b}, @( ),
   ?( ), +( ), *( ), escapes. *)
Theorem C16_translate : forall ci txt p, compile_glob ci txt = Ok p -> forall s,
  (pat_matches p s = true <-> gmatch ci (pat_g p) s) /\
  (rmatch ci (to_re (pat_g p)) s <-> gmatch ci (pat_g p) s).
Proof. exact compile_translate. Qed.
Print Assumptions C16_translate.

(* The same for every well-formed AST, and every parsed glob is well-formed. *)
Theorem C16_translate_ast : forall ci g, wf g -> forall s, rmatch ci (to_re g) s <-> gmatch ci g s.
Proof. exact translate. Qed.
Print Assumptions C16_translate_ast.

Theorem C16_parse_wf : forall txt g, parse_glob txt = Ok g -> wf g.
Proof. exact parse_wf. Qed.
Print Assumptions C16_parse_wf.

(* regex_with's stripping of a leading ^ / trailing unescaped $ never changes emitted text: the
   pattern's text (Display) is the text of the emitted expression. *)
Theorem C16_emitted_text : forall g, strip_anchors (show_re (to_re g)) = show_re (to_re g).
Proof. exact strip_anchors_show. Qed.
Print Assumptions C16_emitted_text.

(* Literals: a glob made of characters outside the glob syntax (plain) and of escaped characters
   (any character at all after a backslash) compiles to the regex::escape of those characters and
   matches exactly that string. *)
Theorem C16_literal : forall l, toks_ok l ->
  let w := map snd l in
  compile_glob false (toks_text l) = Ok (mkpat false (map GLit w)) /\
  pat_text (mkpat false (map GLit w)) = escape w /\
  (forall s, pat_matches (mkpat false (map GLit w)) s = true <-> s = w) /\
  (forall s, gmatch false (map GLit w) s <-> s = w).
Proof. exact literal_exact. Qed.
Print Assumptions C16_literal.

(* --ignore-case: matching depends only on the case-folded pattern literals and the case-folded
   subject (so any case variant of the pattern matches any case variant of the subject). *)
Theorem C16_ignore_case : forall g s g' s',
  gmatch true g s -> fold_glob g' = fold_glob g -> map lower s' = map lower s -> gmatch true g' s'.
Proof. exact ignore_case. Qed.
Print Assumptions C16_ignore_case.

(* Pruning is conservative: the partial match (fixed prefix + max_suffix_len early exit of
   regex.rs) accepts EVERY prefix q of a string p matched by the glob — in particular d ++ "/"
   for every ancestor directory d of p, and p itself. *)
Theorem C16_partial_conservative : forall ci g p q r,
  gmatch ci g p -> p = q ++ r -> pat_matches_partially (mkpat ci g) q = true.
Proof. exact partial_conservative. Qed.
Print Assumptions C16_partial_conservative.

(* ... stated on compiled patterns and through abs_pattern (base dir literal + relative pattern) *)
Theorem C16_partial_conservative_compiled : forall pt p q r, wf (pat_g pt) ->
  pat_matches pt p = true -> p = q ++ r -> pat_matches_partially pt q = true.
Proof. exact pattern_conservative. Qed.
Print Assumptions C16_partial_conservative_compiled.

Theorem C16_partial_conservative_abs : forall base pt p q r, wf (pat_g pt) ->
  pat_matches (abs_pattern base pt) p = true -> p = q ++ r ->
  pat_matches_partially (abs_pattern base pt) q = true.
Proof. exact abs_pattern_conservative. Qed.
Print Assumptions C16_partial_conservative_abs.

(* what the fixed prefix of a compiled pattern is: its leading literal run; max_suffix_len is
   Some 0 exactly for all-literal patterns *)
Theorem C16_fixed_prefix : forall ci g,
  pat_fixed (mkpat ci g) = (lit_prefix g, if all_lit g then Some 0 else None).
Proof. exact pat_fixed_spec. Qed.
Print Assumptions C16_fixed_prefix.

(* selector level (includes only; the exclude rule is K3 / C09): matches_dir admits the path
   itself and every ancestor directory of a path accepted by matches_full_path *)
Theorem C16_matches_dir_conservative : forall s p d,
  sel_excl s = nil -> Forall (fun q => wf (pat_g q)) (sel_paths s) ->
  matches_full_path s p = true ->
  (with_absolute s d = with_absolute s p \/
   exists r, path_string (with_absolute s p) = append_sep (path_string (with_absolute s d)) ++ r) ->
  matches_dir s d = true.
Proof. exact matches_dir_conservative. Qed.
Print Assumptions C16_matches_dir_conservative.

(* the exclude rule's prefix match (pattern.rs matches_prefix since f55c3e7, for engine W): the
   pattern fully matches a prefix of the string that is followed by '/' or by the end, i.e. that
   ends at a path component boundary.  matches_dir calls it on `dir ++ "/"`, so exclude pruning
   rejects a directory only if the pattern fully matches that directory (with or without the
   trailing '/') or a component-aligned ancestor prefix of it. *)
Theorem C16_matches_prefix : forall ci txt p, compile_glob ci txt = Ok p -> forall s,
  pat_matches_prefix p s = true <->
  exists s1 s2, s = s1 ++ s2 /\ gmatch ci (pat_g p) s1 /\ (s2 = nil \/ exists t, s2 = 47 :: t).
Proof. exact compile_prefix. Qed.
Print Assumptions C16_matches_prefix.

(* ---- non-vacuity ---- *)
(* "a-1/ż/**/?(x)[!a].{jpg,p*}" *)
Definition ex_glob : str :=
  [97;45;49;47;380;47;42;42;47;63;40;120;41;91;33;97;93;46;123;106;112;103;44;112;42;125].
Definition ex_pat : pattern :=
  match compile_glob true ex_glob with Ok p => p | _ => mkpat false nil end.
(* "A-1/Ż/k\n/l/xb.PnG" *)
Definition ex_path : str := [65;45;49;47;379;47;107;10;47;108;47;120;98;46;80;110;71].

Example ex_compiles : exists p, compile_glob true ex_glob = Ok p /\ pat_g p <> nil.
Proof. eexists. split; [vm_compute; reflexivity|discriminate]. Qed.
Example ex_text : pat_text ex_pat =
  [97;92;45;49;47;380;47;40;63;115;58;46;42;41;47;40;120;41;63;91;94;97;93;92;46;40;106;112;103;124;112;91;94;47;93;42;41].
Proof. vm_compute. reflexivity. Qed.
Example ex_matches : pat_matches ex_pat ex_path = true.
Proof. vm_compute. reflexivity. Qed.
Example ex_gmatch : gmatch true (pat_g ex_pat) ex_path.
Proof.
  assert (C : compile_glob true ex_glob = Ok ex_pat) by (vm_compute; reflexivity).
  apply (proj1 (C16_translate true ex_glob ex_pat C ex_path)). exact ex_matches.
Qed.
Example ex_fixed : pat_fixed ex_pat = ([97;45;49;47;380;47], None).
Proof. vm_compute. reflexivity. Qed.
(* the ancestor "A-1/Ż/k\n/" passes the partial match, a sibling "A-1/z/" does not *)
Example ex_partial_yes : pat_matches_partially ex_pat [65;45;49;47;379;47;107;10;47] = true.
Proof. vm_compute. reflexivity. Qed.
Example ex_partial_no : pat_matches_partially ex_pat [65;45;49;47;122;47] = false.
Proof. vm_compute. reflexivity. Qed.
(* the max_suffix_len early exit is real: glob "a/b" admits "a/" and "a/b" but not "a/b/" *)
Example ex_suffix_exit :
  pat_fixed (mkpat false [GLit 97; GSep; GLit 98]) = ([97;47;98], Some 0) /\
  pat_matches_partially (mkpat false [GLit 97; GSep; GLit 98]) [97;47] = true /\
  pat_matches_partially (mkpat false [GLit 97; GSep; GLit 98]) [97;47;98] = true /\
  pat_matches_partially (mkpat false [GLit 97; GSep; GLit 98]) [97;47;98;47] = false.
Proof. vm_compute. auto. Qed.
(* literals: "a$" (ends in a dollar), "\*" *)
Example ex_literal_dollar : exists p, compile_glob false [97;36] = Ok p /\ pat_text p = [97;92;36]
  /\ pat_matches p [97;36] = true /\ pat_matches p [97;36;120] = false.
Proof. eexists. split; [vm_compute; reflexivity|vm_compute; auto]. Qed.
Example ex_toks_ok : toks_ok [(false, 97); (false, 36); (true, 42); (false, 380)].
Proof. intros c [H|[H|[H|[H|[]]]]]; inversion H; reflexivity. Qed.
(* ignore case: hypotheses satisfiable with a non-trivial variant *)
Example ex_ignore_case : gmatch true [GLit 65; GStar; GLit 380] [97; 66; 379].
Proof.
  apply (C16_ignore_case [GLit 97; GStar; GLit 379] [65; 98; 380]); [|reflexivity|reflexivity].
  change [65; 98; 380] with ([65] ++ [98] ++ [380] ++ nil).
  repeat constructor. intros [H|[]]. discriminate H.
Qed.
(* K3 regression: exclude "/x/b" does not prefix-match "/x/bar/" any more, but "/x/b/" and "/x/b/c/" *)
Example ex_K3_fixed :
  let p := mkpat false [GSep; GLit 120; GSep; GLit 98] in
  pat_matches_prefix p [47;120;47;98;97;114;47] = false /\
  pat_matches_prefix p [47;120;47;98;47] = true /\
  pat_matches_prefix p [47;120;47;98] = true /\
  pat_matches_prefix p [47;120;47;98;47;99;47] = true.
Proof. vm_compute. auto. Qed.
(* relative pattern anchored at /d-1/x.y/ż *)
Example ex_abs : pat_text (abs_pattern (path_of_string [47;100;45;49;47;120;46;121;47;380])
                                       (mkpat false [GStar; GLit 46; GLit 97])) =
  [47;100;92;45;49;47;120;92;46;121;47;380;47;91;94;47;93;42;92;46;97].
Proof. vm_compute. reflexivity. Qed.
