(* GroupProofs5.v — engine G, part 5: completeness of the --transform path (group_transformed: one rehash
   stage over a single group, strict final filter since e6af885), without read faults.  Files are keyed by
   (length, hash) of their transform output; a file whose transform fails leaves the stage. *)
From FV Require Import Base ListLib GroupModel GroupProofs GroupProofs2 GroupProofs3.
From Coq Require Import Permutation.
Open Scope N_scope.

(* ------------------------------------------------------------------ lists *)
Lemma flat_map_singletons {A B} (F : A -> list B) (G : A -> B) l : (forall x, In x l -> F x = [G x]) -> flat_map F l = map G l.
Proof.
  induction l as [|x l IH]; intros Hx; cbn [flat_map map]; auto.
  rewrite (Hx x (or_introl eq_refl)), IH; auto. intros; apply Hx; right; auto.
Qed.
Lemma flat_map_nils {A B} (F : A -> list B) l : (forall x, In x l -> F x = []) -> flat_map F l = [].
Proof.
  induction l as [|x l IH]; intros Hx; cbn [flat_map]; auto.
  rewrite (Hx x (or_introl eq_refl)), IH; auto. intros; apply Hx; right; auto.
Qed.
Lemma flat_map_concat' {A B} (F : A -> list B) ll : flat_map F (concat ll) = flat_map (flat_map F) ll.
Proof. induction ll as [|l ll IH]; cbn [concat flat_map]; auto. rewrite flat_map_app, IH. auto. Qed.
Lemma flat_map_map' {A B C} (f : B -> list C) (g : A -> B) l : flat_map f (map g l) = flat_map (fun x => f (g x)) l.
Proof. induction l as [|x l IH]; cbn [map flat_map]; auto. rewrite IH. auto. Qed.
Lemma filter_map_commute2 {A} (g : A -> A) (p q : A -> bool) l : (forall x, p (g x) = q x) ->
  filter p (map g l) = map g (filter q l).
Proof.
  intros Hp. induction l as [|x l IH]; [reflexivity|].
  change (map g (x :: l)) with (g x :: map g l). change (filter p (g x :: map g l)) with (if p (g x) then g x :: filter p (map g l) else filter p (map g l)).
  change (filter q (x :: l)) with (if q x then x :: filter q l else filter q l).
  rewrite Hp, IH. destruct (q x); reflexivity.
Qed.
Lemma filter_map_commute {A} (g : A -> A) (p : A -> bool) l : (forall x, p (g x) = p x) ->
  filter p (map g l) = map g (filter p l).
Proof. apply filter_map_commute2. Qed.
Lemma uniq_by_map {A} (g : A -> A) (eqb : A -> A -> bool) l : (forall x y, eqb (g x) (g y) = eqb x y) ->
  uniq_by eqb (map g l) = map g (uniq_by eqb l).
Proof.
  intros He. induction l as [|x l IH]; [reflexivity|].
  change (uniq_by eqb (map g (x :: l))) with (g x :: filter (fun y => negb (eqb (g x) y)) (uniq_by eqb (map g l))).
  change (uniq_by eqb (x :: l)) with (x :: filter (fun y => negb (eqb x y)) (uniq_by eqb l)).
  rewrite IH. change (map g (x :: filter (fun y => negb (eqb x y)) (uniq_by eqb l)))
    with (g x :: map g (filter (fun y => negb (eqb x y)) (uniq_by eqb l))). f_equal.
  apply filter_map_commute2. intros y. rewrite He. reflexivity.
Qed.
Lemma existsb_map' {A} (g : A -> A) (p : A -> bool) l : (forall x, p (g x) = p x) -> existsb p (map g l) = existsb p l.
Proof. intros Hp. induction l as [|x l IH]; cbn [map existsb]; auto. rewrite Hp, IH. auto. Qed.

(* the replica count only looks at paths and file ids *)
Lemma subgroup_count_map c (g : file -> file) fs :
  (forall f, fpath (g f) = fpath f) -> (forall f, fid (g f) = fid f) ->
  subgroup_count c (map g fs) = subgroup_count c fs.
Proof.
  intros Hp Hi. unfold subgroup_count. rewrite !subgroups_length. f_equal. f_equal.
  - unfold roots_hit. f_equal. apply filter_ext. intros i. apply existsb_map'. intros f. unfold in_root, first_root. rewrite Hp. auto.
  - unfold rest_count.
    rewrite (filter_map_commute g (no_root (roots c))) by (intros f; unfold no_root, first_root; rewrite Hp; auto).
    destruct (by_id c); [|rewrite map_length; auto].
    rewrite uniq_by_map, map_length; auto. intros x y. unfold same_id. rewrite !Hi. auto.
Qed.

Lemma regroup_has l h f : In (h, f) l -> exists g, In g (regroup l) /\ ghash g = h /\ glen g = flen f /\ In f (gfiles g).
Proof.
  intros Hin. unfold regroup.
  pose proof (group_by_complete key_leb key_eqb (fun x : item => (flen (snd x), fst x)) key_eqb_spec (h, f) l Hin) as Hb.
  cbn [fst snd] in Hb. eexists. split; [apply in_map_iff; eexists; split; [reflexivity|exact Hb]|]. cbn [fst snd glen ghash gfiles].
  repeat split; auto. apply in_map_iff. exists (h, f). split; auto. apply filter_In. split; auto. apply key_eqb_spec. auto.
Qed.

Section Transform.
  Variable H : list N -> hash.
  Variable T : list N -> option (list N).
  Variable c : gcfg.
  Variable n : nd.
  Variable scanned : list file.
  Hypothesis Hnd : wf_nd n.
  Hypothesis Hnofail : forall st f, fails n st f = false.
  Hypothesis Hids : wf_ids scanned.
  Hypothesis Hpaths : wf_paths scanned.
  Hypothesis HcfT : collision_free_T H T scanned.
  Hypothesis Htr : transform c = true.

  Let o := oracle_of H T.
  Definition tlen (f : file) : N := match T (fdata f) with Some out => N.of_nat (length out) | None => 0 end.
  Definition thash (f : file) : hash := match T (fdata f) with Some out => H out | None => hash0 end.
  Definition hasT (f : file) : bool := match T (fdata f) with Some _ => true | None => false end.
  Definition tfile (f : file) : file := set_len f (tlen f).
  Definition titem (x : item) : list item := if hasT (snd x) then [(thash (snd x), tfile (snd x))] else [].

  Lemma hf_transform_nofail f old : hf_transform o n f old = if hasT f then Some (thash f, tlen f) else None.
  Proof.
    unfold hf_transform, hasT, thash, tlen. rewrite Hnofail. cbn [o oracle_of o_trans].
    destruct (T (fdata f)); reflexivity.
  Qed.

  Lemma T_of_id f f' : In f scanned -> In f' scanned -> fid f = fid f' ->
    hasT f = hasT f' /\ thash f = thash f' /\ tlen f = tlen f'.
  Proof. intros Hf Hf' E. destruct (Hids f f' Hf Hf' E) as [Ed _]. unfold hasT, thash, tlen. rewrite Ed. auto. Qed.

  Lemma hash_run_T run : run_ok scanned run -> hash_run (hf_transform o n) run = flat_map titem run.
  Proof.
    intros [Hin Hh]. destruct run as [|[old rep] tl]; [reflexivity|].
    assert (Hrep : In rep scanned) by (apply (Hin (old, rep)); left; auto).
    assert (Hx : forall x, In x ((old, rep) :: tl) ->
              hasT (snd x) = hasT rep /\ thash (snd x) = thash rep /\ tlen (snd x) = tlen rep).
    { intros x Hx. specialize (Hh x Hx). unfold item_same_id in Hh. cbn [snd] in Hh. apply same_id_spec in Hh.
      apply T_of_id; auto. }
    destruct (hasT rep) eqn:E.
    - assert (Hs : hf_transform o n rep old = Some (thash rep, tlen rep)) by (rewrite hf_transform_nofail, E; reflexivity).
      rewrite (hash_run_head _ _ _ _ _ _ Hs). symmetry. apply flat_map_singletons. intros x Hx0. destruct (Hx x Hx0) as (E1 & E2 & E3).
      unfold titem, tfile. rewrite E1, E2, E3. reflexivity.
    - rewrite hash_run_all_fail.
      + symmetry. apply flat_map_nils. intros x Hx0. destruct (Hx x Hx0) as (E1 & _). unfold titem. rewrite E1. auto.
      + intros x Hx0. destruct (Hx x Hx0) as (E1 & _). rewrite hf_transform_nofail, E1. reflexivity.
  Qed.

  Lemma hashed_T items : (forall x, In x items -> In (snd x) scanned) ->
    Permutation (hashed_of n StTransform (hf_transform o n) items) (flat_map titem items).
  Proof.
    intros Hit. unfold hashed_of.
    rewrite <- (flat_map_perm titem _ _ (group_by_perm N.leb N.eqb (fun x : item => fdev (snd x)) N_eqb_spec' items)).
    set (L := group_by N.leb N.eqb (fun x : item => fdev (snd x)) items).
    assert (HL : forall dv, In dv L -> forall x, In x (snd dv) -> In x items).
    { intros [d its] Hdv x Hx. cbn [snd] in Hx.
      destruct (group_by_member N.leb N.eqb _ N_eqb_spec' _ _ _ _ Hdv Hx); auto. }
    rewrite flat_map_concat', flat_map_map'.
    apply flat_map_perm_pointwise. intros dv Hdv.
    assert (Hruns : forall rs, (forall r, In r rs -> run_ok scanned r) ->
              flat_map (hash_run (hf_transform o n)) rs = flat_map titem (concat rs)).
    { induction rs as [|r rs IH]; intros Hok; [reflexivity|].
      change (flat_map (hash_run (hf_transform o n)) (r :: rs))
        with (hash_run (hf_transform o n) r ++ flat_map (hash_run (hf_transform o n)) rs).
      change (concat (r :: rs)) with (r ++ concat rs). rewrite flat_map_app, hash_run_T, IH; auto.
      - intros; apply Hok; right; auto.
      - apply Hok; left; auto. }
    rewrite Hruns.
    - rewrite runs_concat. apply flat_map_perm. apply (proj1 Hnd).
    - apply runs_ok. intros x Hx. apply Hit. apply (HL dv Hdv).
      eapply Permutation_in; [apply (proj1 Hnd)|]. exact Hx.
  Qed.

  (* ---------------------------------------------------------------- the single stage *)
  Definition ok' (f : file) : Prop := ok c scanned f.
  Let fs0 := filter (size_ok c) scanned.
  Let D := sort_by_id (deduplicate fs0).
  Let gs0 := [mkgroup 0 hash0 D].
  Let raw := rehash_raw n StTransform (fun _ => true) (hf_transform o n) gs0.

  Lemma D_spec f : In f D <-> ok' f.
  Proof.
    unfold D, ok', ok. rewrite sort_by_id_in. split.
    - intros Hf. apply deduplicate_incl in Hf. unfold fs0 in Hf. apply filter_In in Hf. exact Hf.
    - intros [Hs Hk]. apply deduplicate_keeps.
      + intros a b Ha Hb. unfold fs0 in Ha, Hb. apply filter_In in Ha, Hb. apply Hpaths; tauto.
      + apply filter_In. auto.
  Qed.
  Lemma D_NoDup : NoDup D.
  Proof. unfold D. eapply Permutation_NoDup; [symmetry; apply sort_by_id_perm|apply deduplicate_NoDup]. Qed.

  Lemma items0 : items_of (filter (fun _ => true) gs0) = map (fun f => (hash0, f)) D.
  Proof. unfold gs0, items_of. cbn [filter flat_map ghash gfiles]. rewrite app_nil_r. reflexivity. Qed.

  Lemma raw_unfold : raw = regroup (arrive n StTransform (hashed_of n StTransform (hf_transform o n) (map (fun f => (hash0, f)) D))).
  Proof. unfold raw, rehash_raw. rewrite items0. cbn [filter negb gs0]. rewrite app_nil_r. reflexivity. Qed.

  Lemma hashed0 h f : In (h, f) (arrive n StTransform (hashed_of n StTransform (hf_transform o n) (map (fun f => (hash0, f)) D)))
    <-> exists f0, ok' f0 /\ hasT f0 = true /\ h = thash f0 /\ f = tfile f0.
  Proof.
    assert (Hsc : forall x, In x (map (fun f => (hash0, f)) D) -> In (snd x) scanned).
    { intros x Hx. apply in_map_iff in Hx. destruct Hx as (f0 & <- & Hf0). apply D_spec in Hf0. apply Hf0. }
    split.
    - intros Hin. apply (Permutation_in _ (proj2 Hnd _ _)) in Hin. apply (Permutation_in _ (hashed_T _ Hsc)) in Hin.
      apply in_flat_map in Hin. destruct Hin as (x & Hx & Hin). apply in_map_iff in Hx. destruct Hx as (f0 & <- & Hf0).
      unfold titem in Hin. cbn [snd] in Hin. destruct (hasT f0) eqn:E; [|destruct Hin]. destruct Hin as [Hin|[]].
      inversion Hin; subst. exists f0. split; [apply D_spec; auto|]. auto.
    - intros (f0 & Hok & Ht & -> & ->).
      eapply Permutation_in; [symmetry; apply (proj2 Hnd)|]. eapply Permutation_in; [symmetry; apply (hashed_T _ Hsc)|].
      apply in_flat_map. exists (hash0, f0). split; [apply in_map; apply D_spec; auto|].
      unfold titem. cbn [snd]. rewrite Ht. left; auto.
  Qed.

  Lemma raw_member g f : In g raw -> In f (gfiles g) ->
    exists f0, ok' f0 /\ hasT f0 = true /\ ghash g = thash f0 /\ glen g = tlen f0 /\ f = tfile f0.
  Proof.
    rewrite raw_unfold. intros Hg Hf. destruct (in_regroup _ _ Hg) as [_ Hall]. destruct (Hall f Hf) as [Hin El].
    apply hashed0 in Hin. destruct Hin as (f0 & Hok & Ht & Eh & ->). exists f0.
    split; [exact Hok|]. split; [exact Ht|]. split; [exact Eh|]. split; [|reflexivity]. rewrite <- El. reflexivity.
  Qed.

  Lemma raw_has f0 : ok' f0 -> hasT f0 = true ->
    exists g, In g raw /\ ghash g = thash f0 /\ glen g = tlen f0 /\ In (tfile f0) (gfiles g).
  Proof.
    intros Hok Ht. rewrite raw_unfold.
    destruct (regroup_has (arrive n StTransform (hashed_of n StTransform (hf_transform o n) (map (fun f => (hash0, f)) D)))
                (thash f0) (tfile f0)) as (g & Hg & Eh & El & Hf); [apply hashed0; exists f0; auto|].
    exists g. split; [exact Hg|]. split; [exact Eh|]. split; [exact El|exact Hf].
  Qed.

  Lemma raw_closed g f0 : In g raw -> ok' f0 -> hasT f0 = true -> ghash g = thash f0 -> glen g = tlen f0 ->
    In (tfile f0) (gfiles g).
  Proof.
    rewrite raw_unfold. intros Hg Hok Ht Eh El. apply (regroup_complete _ g (thash f0) (tfile f0) Hg); auto.
    apply hashed0. exists f0. auto.
  Qed.

  Lemma T_same f0 f0' : ok' f0 -> ok' f0' -> hasT f0 = true -> hasT f0' = true ->
    thash f0 = thash f0' -> tlen f0 = tlen f0' -> T (fdata f0) = T (fdata f0').
  Proof.
    unfold hasT, thash, tlen. intros [Hs _] [Hs' _].
    destruct (T (fdata f0)) as [a|] eqn:Ea; [|discriminate]. destruct (T (fdata f0')) as [b|] eqn:Eb; [|discriminate].
    intros _ _ Eh El. f_equal. apply (HcfT f0 f0' a b Hs Hs' Ea Eb); auto. apply Nat2N.inj. auto.
  Qed.
  Lemma T_eq_keys f0 f0' : T (fdata f0) = T (fdata f0') -> hasT f0 = hasT f0' /\ thash f0 = thash f0' /\ tlen f0 = tlen f0'.
  Proof. unfold hasT, thash, tlen. intros ->. auto. Qed.

  Lemma tfile_inj f f' : In f scanned -> In f' scanned -> tfile f = tfile f' -> f = f'.
  Proof. intros Hf Hf' E. apply Hpaths; auto. apply (f_equal fpath) in E. exact E. Qed.

  Lemma raw_files : Permutation (all_files raw) (map tfile (filter hasT D)).
  Proof.
    assert (Hsc : forall x, In x (map (fun f => (hash0, f)) D) -> In (snd x) scanned).
    { intros x Hx. apply in_map_iff in Hx. destruct Hx as (f0 & <- & Hf0). apply D_spec in Hf0. apply Hf0. }
    rewrite raw_unfold. rewrite regroup_files. rewrite (Permutation_map snd (proj2 Hnd _ _)).
    rewrite (Permutation_map snd (hashed_T _ Hsc)). clear Hsc.
    induction D as [|x l IH]; [reflexivity|].
    change (map (fun f => (hash0, f)) (x :: l)) with ((hash0, x) :: map (fun f => (hash0, f)) l).
    change (flat_map titem ((hash0, x) :: map (fun f => (hash0, f)) l)) with (titem (hash0, x) ++ flat_map titem (map (fun f => (hash0, f)) l)).
    change (filter hasT (x :: l)) with (if hasT x then x :: filter hasT l else filter hasT l).
    unfold titem at 1. cbn [snd]. rewrite map_app. destruct (hasT x); cbn [map app]; auto.
  Qed.

  Lemma raw_NoDup : NoDup (all_files raw).
  Proof.
    eapply Permutation_NoDup; [symmetry; apply raw_files|]. apply NoDup_map_inj_in.
    - intros x y Hx Hy. apply filter_In in Hx, Hy. apply tfile_inj; apply D_spec; tauto.
    - apply NoDup_filter'. apply D_NoDup.
  Qed.

  (* classes of the transform output *)
  Definition is_classT (f0 : file) (cl : list file) : Prop :=
    NoDup cl /\ forall x, In x cl <-> ok' x /\ T (fdata x) = T (fdata f0).
  Definition qualifiesT (f0 : file) : Prop :=
    exists cl, is_classT f0 cl /\ matches_strictly c (mkgroup 0 [] cl) = true.

  (* a group of the stage (before its filter) is exactly the image of a class *)
  Lemma raw_group_class g f0 cl : In g raw -> ok' f0 -> hasT f0 = true -> In (tfile f0) (gfiles g) -> is_classT f0 cl ->
    NoDup (gfiles g) /\ (forall x, In x (gfiles g) <-> In x (map tfile cl)).
  Proof.
    intros Hg Hok Ht Hf [Ncl Hcl]. split; [apply (NoDup_flat_map_member gfiles raw g raw_NoDup Hg)|].
    destruct (raw_member g _ Hg Hf) as (f1 & Hok1 & Ht1 & Eh & El & E1).
    apply tfile_inj in E1; [|apply Hok|apply Hok1]. subst f1.
    intros x. split.
    - intros Hx. destruct (raw_member g x Hg Hx) as (f2 & Hok2 & Ht2 & Eh2 & El2 & ->).
      apply in_map. apply Hcl. split; auto. apply T_same; auto; congruence.
    - intros Hx. apply in_map_iff in Hx. destruct Hx as (f2 & <- & Hf2). apply Hcl in Hf2. destruct Hf2 as [Hok2 ET].
      destruct (T_eq_keys f2 f0 ET) as (E1 & E2 & E3). apply raw_closed; auto; congruence.
  Qed.

  Lemma strict_raw g f0 cl : In g raw -> ok' f0 -> hasT f0 = true -> In (tfile f0) (gfiles g) -> is_classT f0 cl ->
    matches_strictly c g = matches_strictly c (mkgroup 0 [] cl).
  Proof.
    intros Hg Hok Ht Hf Hcl. destruct (raw_group_class g f0 cl Hg Hok Ht Hf Hcl) as [N1 Hiff].
    assert (N2 : NoDup (map tfile cl)).
    { apply NoDup_map_inj_in; [|apply Hcl]. intros x y Hx Hy. apply (proj2 Hcl) in Hx, Hy. apply tfile_inj; [apply Hx|apply Hy]. }
    rewrite (strict_of_class c (map tfile cl) g N2 N1 Hiff). unfold matches_strictly. cbn [gfiles].
    rewrite (subgroup_count_map c tfile cl); auto.
  Qed.

  Lemma pipeline_transform : pipeline o c n scanned = filter (matches_strictly c) raw.
  Proof. unfold pipeline. rewrite Htr. reflexivity. Qed.

  Theorem c03_transform :
    let out := group_files H T c n scanned in
    (NoDup (all_files out) /\
     forall g f, In g out -> In f (gfiles g) -> exists f0, ok' f0 /\ hasT f0 = true /\ f = set_len f0 (glen g) /\ glen g = tlen f0) /\
    (forall g f0 f0', In g out -> In (tfile f0) (gfiles g) -> ok' f0 -> ok' f0' -> T (fdata f0') = T (fdata f0) ->
                      In (tfile f0') (gfiles g)) /\
    (forall g g' f0 f0', In g out -> In g' out -> ok' f0 -> ok' f0' -> In (tfile f0) (gfiles g) -> In (tfile f0') (gfiles g') ->
                         T (fdata f0) = T (fdata f0') -> g = g') /\
    (forall f0, ok' f0 -> hasT f0 = true ->
       ((exists g, In g out /\ In (tfile f0) (gfiles g)) <-> qualifiesT f0)) /\
    (forall g f0 cl, In g out -> ok' f0 -> In (tfile f0) (gfiles g) -> is_classT f0 cl ->
       Permutation (gfiles g) (map tfile cl)).
  Proof.
    intros out. unfold out, group_files, group_files_gen. fold o. rewrite pipeline_transform.
    set (g4 := filter (matches_strictly c) raw).
    assert (Hin4 : forall g, In g (finalize c g4) -> exists g0, In g0 raw /\ matches_strictly c g0 = true /\
                      glen g = glen g0 /\ ghash g = ghash g0 /\ Permutation (gfiles g) (gfiles g0)).
    { intros g Hg. apply finalize_in in Hg. destruct Hg as (g0 & Hg0 & E1 & E2 & Hp). apply filter_In in Hg0.
      exists g0. tauto. }
    assert (HND : NoDup (all_files (finalize c g4))).
    { eapply Permutation_NoDup; [symmetry; apply all_files_finalize|]. apply NoDup_flat_map_filter. apply raw_NoDup. }
    assert (Hhas : forall f0, ok' f0 -> forall g, In g (finalize c g4) -> In (tfile f0) (gfiles g) -> hasT f0 = true).
    { intros f0 Hok g Hg Hf. destruct (Hin4 g Hg) as (g0 & Hg0 & _ & _ & _ & Hp).
      apply (Permutation_in _ Hp) in Hf. destruct (raw_member g0 _ Hg0 Hf) as (f1 & Hok1 & Ht1 & _ & _ & E).
      apply tfile_inj in E; [subst; auto|apply Hok|apply Hok1]. }
    assert (HB : forall g f0 f0', In g (finalize c g4) -> In (tfile f0) (gfiles g) -> ok' f0 -> ok' f0' ->
                   T (fdata f0') = T (fdata f0) -> In (tfile f0') (gfiles g)).
    { intros g f0 f0' Hg Hf Hok Hok' ET. pose proof (Hhas f0 Hok g Hg Hf) as Ht.
      destruct (Hin4 g Hg) as (g0 & Hg0 & _ & _ & _ & Hp).
      apply (Permutation_in _ Hp) in Hf. eapply Permutation_in; [symmetry; exact Hp|].
      destruct (raw_member g0 _ Hg0 Hf) as (f1 & Hok1 & Ht1 & Eh & El & E).
      apply tfile_inj in E; [|apply Hok|apply Hok1]. subst f1.
      destruct (T_eq_keys f0' f0 ET) as (E1 & E2 & E3). apply raw_closed; auto; congruence. }
    split; [split; [exact HND|]|split; [exact HB|split; [|split]]].
    - intros g f Hg Hf. destruct (Hin4 g Hg) as (g0 & Hg0 & _ & El & _ & Hp).
      apply (Permutation_in _ Hp) in Hf. destruct (raw_member g0 f Hg0 Hf) as (f0 & Hok & Ht & _ & El0 & ->).
      exists f0. split; [exact Hok|]. split; [exact Ht|]. split; [unfold tfile; rewrite El, El0; reflexivity|congruence].
    - intros g g' f0 f0' Hg Hg' Hok Hok' Hf Hf' ET.
      assert (Hf2 : In (tfile f0') (gfiles g)) by (apply (HB g f0 f0'); auto).
      apply (NoDup_flat_map_unique gfiles _ g g' (tfile f0') HND Hg Hg' Hf2 Hf').
    - intros f0 Hok Ht. split.
      + intros (g & Hg & Hf). destruct (Hin4 g Hg) as (g0 & Hg0 & Hs & _ & _ & Hp).
        apply (Permutation_in _ Hp) in Hf.
        (* the class, enumerated through the group itself *)
        set (cl := filter (fun x => existsb (fun y => path_eqb (fpath y) (fpath x)) (gfiles g0)) D).
        assert (Hcl : is_classT f0 cl).
        { split; [apply NoDup_filter'; apply D_NoDup|]. intros x. unfold cl. rewrite filter_In, D_spec. split.
          - intros [Hokx Hex]. split; auto. apply existsb_exists in Hex. destruct Hex as (y & Hy & Ep). apply path_eqb_spec in Ep.
            destruct (raw_member g0 y Hg0 Hy) as (f2 & Hok2 & Ht2 & Eh2 & El2 & ->).
            assert (f2 = x) by (apply Hpaths; [apply Hok2|apply Hokx|exact Ep]). subst f2.
            destruct (raw_member g0 _ Hg0 Hf) as (f1 & Hok1 & Ht1 & Eh1 & El1 & E1).
            apply tfile_inj in E1; [|apply Hok|apply Hok1]. subst f1. apply T_same; auto; congruence.
          - intros [Hokx ET]. split; auto. apply existsb_exists. exists (tfile x). split; [|apply path_eqb_spec; reflexivity].
            destruct (raw_member g0 _ Hg0 Hf) as (f1 & Hok1 & Ht1 & Eh1 & El1 & E1).
            apply tfile_inj in E1; [|apply Hok|apply Hok1]. subst f1.
            destruct (T_eq_keys x f0 ET) as (E1 & E2 & E3). apply raw_closed; auto; congruence. }
        exists cl. split; auto. rewrite <- (strict_raw g0 f0 cl Hg0 Hok Ht Hf Hcl). exact Hs.
      + intros (cl & Hcl & Hs). destruct (raw_has f0 Hok Ht) as (g0 & Hg0 & _ & _ & Hf0).
        assert (Hg4 : In g0 g4). { apply filter_In. split; auto. rewrite (strict_raw g0 f0 cl Hg0 Hok Ht Hf0 Hcl). exact Hs. }
        destruct (finalize_has c g4 g0 Hg4) as (g & Hg & _ & _ & Hp). exists g. split; auto.
        eapply Permutation_in; [symmetry; exact Hp|auto].
    - intros g f0 cl Hg Hok Hf Hcl. pose proof (Hhas f0 Hok g Hg Hf) as Ht.
      destruct (Hin4 g Hg) as (g0 & Hg0 & _ & _ & _ & Hp). rewrite Hp.
      apply (Permutation_in _ Hp) in Hf.
      destruct (raw_group_class g0 f0 cl Hg0 Hok Ht Hf Hcl) as [N1 Hiff].
      apply NoDup_Permutation; auto.
      apply NoDup_map_inj_in; [|apply Hcl]. intros x y Hx Hy. apply (proj2 Hcl) in Hx, Hy. apply tfile_inj; [apply Hx|apply Hy].
  Qed.
End Transform.
