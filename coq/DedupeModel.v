(* DedupeModel.v — executable model of the dedupe decisions of fclones (engine D).
   NO proofs here.  Mirrors, as the code is now:
     dedupe.rs   was_modified, should_keep, may_drop, FileSubGroup::{created, modified, accessed,
                 status_changed, min_nesting, max_nesting, should_keep, may_drop}, sort_by_priority,
                 partition, PartitionedFileGroup::{move_target, dedupe_script}, dedupe (metadata
                 all-or-nothing, per-device split for hard links / reflinks)
     group.rs    FileSubGroup::group           util.rs  try_sort_by_key, min_result, max_result
     main.rs     run_dedupe's merge of the recorded `group` configuration
     main.rs     run_group's time stamp (taken before the scan), group.rs write_report_at  (history model for C04)
   A [meta] is what fs::metadata (stat, FOLLOWING symlinks) returns for a report path. *)
From FV Require Import Base SortLib.

Definition path := list (list N).            (* components, each a byte string; "/" first if absolute *)

Inductive derr := EModified | ESortKey.
Inductive outcome (A : Type) : Type := Ok (a : A) | Err (e : derr) | Panic.
Arguments Ok {A} a. Arguments Err {A} e. Arguments Panic {A}.

Record meta := mkMeta {
  mpath : path;
  mdev : N; mino : N;                        (* FileId = (device, inode) *)
  mlen : N;
  mfile : bool;                              (* metadata.is_file() *)
  mmtime : option Z; matime : option Z; mbtime : option Z;   (* None = the accessor returns Err *)
  mctime : Z * Z                             (* (ctime, ctime_nsec) *)
}.

Inductive priority := Top | Bottom | Newest | Oldest | MostRecentlyModified | LeastRecentlyModified
  | MostRecentlyAccessed | LeastRecentlyAccessed | MostRecentStatusChange | LeastRecentStatusChange
  | MostNested | LeastNested.

Record dcfg := mkCfg {
  n_opt : option nat;                        (* rf_over *)
  keep : path -> bool;                       (* should_keep: any --keep-name / --keep-path matches *)
  may_drop : path -> bool;                   (* may_drop: no --name/--path given, or one matches *)
  iso : list path;                           (* isolated_roots *)
  mlinks : bool; no_size : bool;
  mbefore : option Z;                        (* modified_before *)
  prio : list priority
}.

(* ---------------------------------------------------------------- patterns -> keep / may_drop *)
(* should_keep / may_drop of dedupe.rs as combinations of the individual pattern matchers *)
Definition keep_rule (kname kpath : list (path -> bool)) (p : path) : bool :=
  existsb (fun f => f p) kname || existsb (fun f => f p) kpath.
Definition drop_rule (dname dpath : list (path -> bool)) (p : path) : bool :=
  (match dname, dpath with [], [] => true | _, _ => false end)
  || existsb (fun f => f p) dname || existsb (fun f => f p) dpath.

(* ---------------------------------------------------------------- was_modified *)
Definition modified_after (ts : Z) (m : meta) : bool :=
  match mmtime m with Some t => (ts <? t)%Z | None => true end.
Definition was_modified (ts : Z) (files : list meta) : bool := existsb (modified_after ts) files.

(* ---------------------------------------------------------------- FileSubGroup::group *)
Definition sub := list meta.

Definition comp_eqb (a b : list N) : bool :=
  (length a =? length b) && forallb (fun xy => N.eqb (fst xy) (snd xy)) (combine a b).
Fixpoint is_prefix (r p : path) : bool :=
  match r, p with
  | [], _ => true
  | _ :: _, [] => false
  | a :: r', b :: p' => comp_eqb a b && is_prefix r' p'
  end.
(* roots.iter().position(|r| r.is_prefix_of(path)) *)
Fixpoint root_idx (roots : list path) (p : path) : option nat :=
  match roots with
  | [] => None
  | r :: rs => if is_prefix r p then Some 0 else option_map S (root_idx rs p)
  end.
Definition opt_nat_eqb (a b : option nat) : bool :=
  match a, b with Some x, Some y => x =? y | None, None => true | _, _ => false end.

Definition same_id (a b : meta) : bool := N.eqb (mdev a) (mdev b) && N.eqb (mino a) (mino b).
(* IndexMap::entry(id).or_insert(empty).push(f): groups in order of first appearance *)
Fixpoint add_by_id (f : meta) (gs : list sub) : list sub :=
  match gs with
  | [] => [[f]]
  | g :: gs' => if (match g with x :: _ => same_id x f | [] => false end)
                then (g ++ [f]) :: gs' else g :: add_by_id f gs'
  end.
Definition id_groups (files : list meta) : list sub := fold_left (fun gs f => add_by_id f gs) files [].

Definition nonempty {A} (l : list A) : bool := match l with [] => false | _ => true end.
Definition subgroup (roots : list path) (by_id : bool) (files : list meta) : list sub :=
  let pg := map (fun i => filter (fun f => opt_nat_eqb (root_idx roots (mpath f)) (Some i)) files)
                (seq 0 (length roots)) in
  let rest := filter (fun f => opt_nat_eqb (root_idx roots (mpath f)) None) files in
  let tail := if by_id then id_groups rest else map (fun f => [f]) rest in
  filter nonempty (pg ++ tail).

(* ---------------------------------------------------------------- sort keys *)
Fixpoint opt_seq {A} (l : list (option A)) : option (list A) :=
  match l with
  | [] => Some []
  | None :: _ => None
  | Some x :: r => match opt_seq r with Some r' => Some (x :: r') | None => None end
  end.
Definition fold1 {A} (f : A -> A -> A) (l : list A) : option A :=
  match l with [] => None | x :: r => Some (fold_left f r x) end.
(* min_result / max_result: Err if any accessor failed *)
Definition opt_fold (f : Z -> Z -> Z) (l : list (option Z)) : option Z :=
  match opt_seq l with Some l' => fold1 f l' | None => None end.

Definition kle (a b : Z * Z) : bool :=     (* derived Ord of a pair *)
  ((fst a <? fst b) || ((fst a =? fst b) && (snd a <=? snd b)))%Z.
Definition kmax (a b : Z * Z) : Z * Z := if kle a b then b else a.
Definition nesting (m : meta) : nat := length (mpath m).        (* Path::component_count *)

Definition lift (o : option Z) : option (Z * Z) := option_map (fun z => (z, 0%Z)) o.
Definition sg_created (g : sub) := lift (opt_fold Z.min (map mbtime g)).
Definition sg_modified (g : sub) := lift (opt_fold Z.max (map mmtime g)).
Definition sg_accessed (g : sub) := lift (opt_fold Z.max (map matime g)).
Definition sg_status (g : sub) : option (Z * Z) := fold1 kmax (map mctime g).
Definition sg_min_nesting (g : sub) := lift (option_map Z.of_nat (fold1 Nat.min (map nesting g))).
Definition sg_max_nesting (g : sub) := lift (option_map Z.of_nat (fold1 Nat.max (map nesting g))).

(* the key a priority sorts by (every key type embedded in Z*Z), and whether it is wrapped in Reverse *)
Definition pkey (p : priority) (g : sub) : option (Z * Z) :=
  match p with
  | Top | Bottom => Some (0, 0)%Z
  | Newest | Oldest => sg_created g
  | MostRecentlyModified | LeastRecentlyModified => sg_modified g
  | MostRecentlyAccessed | LeastRecentlyAccessed => sg_accessed g
  | MostRecentStatusChange | LeastRecentStatusChange => sg_status g
  | MostNested => sg_max_nesting g
  | LeastNested => sg_min_nesting g
  end.
Definition prev (p : priority) : bool :=
  match p with
  | Oldest | LeastRecentlyModified | LeastRecentlyAccessed | LeastRecentStatusChange | LeastNested => true
  | _ => false
  end.
(* order of Option<K> / Option<Reverse<K>>: None first *)
Definition ple (p : priority) (a b : sub) : bool :=
  match pkey p a, pkey p b with
  | None, _ => true
  | Some _, None => false
  | Some x, Some y => if prev p then kle y x else kle x y
  end.
Definition is_tb (p : priority) : bool := match p with Top | Bottom => true | _ => false end.

(* sort_by_priority; None = the error vector is non-empty (a key accessor failed; the key closure runs
   only when there are at least two elements) *)
Definition sort_by (p : priority) (subs : list sub) : option (list sub) :=
  match p with
  | Top => Some (rev subs)
  | Bottom => Some subs
  | _ => if (2 <=? length subs) && existsb (fun g => match pkey p g with None => true | _ => false end) subs
         then None else Some (ssort (ple p) subs)
  end.
(* decisive_count: the priority list is cut after its first top / bottom (they refer to the order in the input and
   leave no ties, so what follows them is ignored and they see the ORIGINAL order) - /repo 7054be1 *)
Fixpoint decisive (ps : list priority) : list priority :=
  match ps with
  | [] => []
  | p :: r => if is_tb p then [p] else p :: decisive r
  end.
(* for priority in config.priority[..decisive_count].iter().rev() *)
Definition sort_all (ps : list priority) (subs : list sub) : option (list sub) :=
  fold_right (fun p acc => match acc with Some l => sort_by p l | None => None end) (Some subs) ps.

(* ---------------------------------------------------------------- partition *)
Definition sub_keep (c : dcfg) (g : sub) : bool := existsb (fun f => keep c (mpath f)) g.
Definition sub_may_drop (c : dcfg) (g : sub) : bool := forallb (fun f => may_drop c (mpath f)) g.
Definition forced (c : dcfg) (g : sub) : bool := sub_keep c g || negb (sub_may_drop c g).

(* the two `retain`s *)
Definition survivors (c : dcfg) (glen : N) (ms : list meta) : list meta :=
  let f1 := filter mfile ms in
  if no_size c then f1 else filter (fun m => N.eqb (mlen m) glen) f1.
Definition subgroups (c : dcfg) (files : list meta) : list sub := subgroup (iso c) (negb (mlinks c)) files.
Definition nkeep (c : dcfg) : nat := Nat.max 1 (match n_opt c with Some n => n | None => 1 end).

Definition partition (c : dcfg) (glen : N) (ms : list meta) : outcome (list meta * list meta) :=
  let files := survivors c glen ms in
  if (match mbefore c with Some ts => was_modified ts files | None => false end) then Err EModified
  else
    match sort_all (decisive (prio c)) (subgroups c files) with
    | None => Err ESortKey
    | Some sorted =>
      let '(retain, drop) := List.partition (forced c) sorted in
      let missing := Nat.min (length drop) (nkeep c - length retain) in
      let retain' := retain ++ firstn missing drop in
      let drop' := skipn missing drop in
      if (nkeep c <=? length retain') || negb (nonempty drop')      (* the assert! *)
      then Ok (concat retain', concat drop') else Panic
    end.

(* ---------------------------------------------------------------- dedupe_script *)
Inductive dop := OpRemove | OpMove (dir : path) | OpSoftLink | OpHardLink | OpRefLink.
Inductive cmd :=
| Remove (m : meta)
| SoftLink (t l : meta) | HardLink (t l : meta) | RefLink (t l : meta)
| Move (s : meta) (tgt : path) (rn : bool).

Definition root_comp : list N := [47%N].       (* "/" *)
Definition dot_comp : list N := [46%N].        (* "." *)
(* PartitionedFileGroup::move_target on Unix: root "/" with the separators removed is "", and
   Path::from("") is the one-component path "." *)
Definition move_target (dir p : path) : path :=
  match p with
  | c :: rest => if comp_eqb c root_comp
                 then dir ++ dot_comp :: (match rest with [] => [dot_comp] | _ => rest end)
                 else dir ++ p
  | [] => dir
  end.

(* [same_mount src dir] = are_on_same_mount(devices, src, target_dir) *)
Definition script_o (op : dop) (same_mount : path -> path -> bool) (kept dropped : list meta)
  : outcome (list cmd) :=
  match dropped with
  | [] => Ok []
  | _ :: _ =>
    match kept with
    | [] => Panic                                  (* assert!(!to_keep.is_empty()) *)
    | t :: _ =>
      Ok (map (fun d => match op with
                        | OpSoftLink => SoftLink t d
                        | OpHardLink => HardLink t d
                        | OpRefLink => RefLink t d
                        | OpRemove => Remove d
                        | OpMove dir => Move d (move_target dir (mpath d)) (same_mount (mpath d) dir)
                        end) dropped)
    end
  end.
Definition script (op : dop) (same_mount : path -> path -> bool) (kept dropped : list meta) : list cmd :=
  match script_o op same_mount kept dropped with Ok l => l | _ => [] end.

(* file_to_remove *)
Definition cmd_victim (c : cmd) : meta :=
  match c with Remove m => m | SoftLink _ l => l | HardLink _ l => l | RefLink _ l => l | Move s _ _ => s end.

(* ---------------------------------------------------------------- dedupe (one group) *)
(* partition_by_key(device_id): classes in order of first appearance here; the code iterates a
   HashMap, so the order of the classes is unspecified (the correspondence compares per class) *)
Fixpoint add_by_dev (f : meta) (gs : list (list meta)) : list (list meta) :=
  match gs with
  | [] => [[f]]
  | g :: gs' => if (match g with x :: _ => N.eqb (mdev x) (mdev f) | [] => false end)
                then (g ++ [f]) :: gs' else g :: add_by_dev f gs'
  end.
Definition by_device (files : list meta) : list (list meta) := fold_left (fun gs f => add_by_dev f gs) files [].

Definition cross_device_disallowed (op : dop) : bool :=
  match op with OpHardLink | OpRefLink => true | _ => false end.

Inductive gres := GSkippedNoMetadata | GParts (parts : list (outcome (list meta * list meta) * outcome (list cmd))).

(* [ms]: one entry per report path, None = fs::metadata failed (fetch_files_metadata is all-or-nothing) *)
Definition dedupe_group (op : dop) (c : dcfg) (same_mount : path -> path -> bool) (glen : N)
  (ms : list (option meta)) : gres :=
  match opt_seq ms with
  | None => GSkippedNoMetadata
  | Some files =>
    let parts := if cross_device_disallowed op then by_device files else [files] in
    GParts (map (fun g => let r := partition c glen g in
                          (r, match r with
                              | Ok (k, d) => script_o op same_mount k d
                              | Err e => Err e
                              | Panic => Panic
                              end)) parts)
  end.
Definition group_cmds (r : gres) : list cmd :=
  match r with
  | GSkippedNoMetadata => []
  | GParts parts => flat_map (fun p => match snd p with Ok l => l | _ => [] end) parts
  end.

(* ---------------------------------------------------------------- run_dedupe's merge *)
(* what the recorded `group` command contributes *)
Record hdr := mkHdr {
  h_transform : bool;                 (* --transform given *)
  h_mlinks : bool;                    (* --match-links *)
  h_rf_over : option nat; h_rf_under : bool; h_unique : bool;
  h_isolate : bool;
  h_inputs : list path;               (* canonical_input_paths() *)
  h_ts : Z                            (* header.timestamp *)
}.
(* GroupConfig::rf_over *)
Definition group_rf_over (h : hdr) : nat :=
  if h_rf_under h || h_unique h then 0 else match h_rf_over h with Some n => n | None => 1 end.
Definition merge (h : hdr) (c : dcfg) : dcfg :=
  {| n_opt := match n_opt c with Some n => Some n | None => Some (group_rf_over h) end;
     keep := keep c; may_drop := may_drop c;
     iso := match iso c with [] => if h_isolate h then h_inputs h else [] | _ => iso c end;
     mlinks := mlinks c || h_mlinks h;
     no_size := no_size c || h_transform h;
     mbefore := match mbefore c with Some t => Some t | None => Some (h_ts h) end;
     prio := prio c |}.
(* the same options written on the dedupe command line *)
Definition explicit (h : hdr) (c : dcfg) : dcfg :=
  {| n_opt := Some (group_rf_over h);
     keep := keep c; may_drop := may_drop c;
     iso := if h_isolate h then h_inputs h else [];
     mlinks := h_mlinks h;
     no_size := h_transform h;
     mbefore := Some (h_ts h);
     prio := prio c |}.

(* ---------------------------------------------------------------- histories (property C04) *)
(* What a report path names when the dedupe run stats it.  A symlink is seen through (fs::metadata
   follows links): dangling = NMissing, link to a directory / fifo = NNonReg.  A symlink to a regular
   file outside the group is NOT modelled: stat shows that file's own, unstamped mtime and length, so
   it is an mtime-preserving replacement like `cp -p` (outside the guarantee of C04). *)
Definition data := list N.
Inductive node := NMissing | NNonReg | NFile (d : data) (mt : Z).

(* ordinary operations; each one stamps mtime := the time it happens *)
Inductive hop :=
| HWrite (d : data)                 (* rewrite with any bytes, same or different length *)
| HAppend (d : data) | HTruncate (n : nat) | HTouch
| HUnlink | HRecreate (d : data)    (* unlink; (unlink and) create a new file *)
| HReplaceNonReg                    (* by a directory, a fifo, a symlink to one of those *)
| HReplaceDangling.                 (* by a symlink to nothing *)

Definition apply_op (n : node) (to : Z * hop) : node :=
  let '(t, o) := to in
  match o, n with
  | HWrite d, NFile _ _ => NFile d t
  | HAppend d, NFile d0 _ => NFile (d0 ++ d) t
  | HTruncate k, NFile d0 _ => NFile (firstn k d0) t
  | HTouch, NFile d0 _ => NFile d0 t
  | HUnlink, _ => NMissing
  | HRecreate d, _ => NFile d t
  | HReplaceNonReg, _ => NNonReg
  | HReplaceDangling, _ => NMissing
  | _, n' => n'                      (* write / append / truncate / touch of something that is not a file *)
  end.

(* a member of the group: [hbase] supplies path, id and the times the history does not constrain;
   `group` read (hashed) it at time [hr] when its bytes were the group's content D and its mtime [hm0] *)
Record hmember := mkHm { hbase : meta; hr : Z; hm0 : Z; hops : list (Z * hop) }.

Definition final (D : data) (m : hmember) : node := fold_left apply_op (hops m) (NFile D (hm0 m)).

Definition stat_of (m : hmember) (n : node) : option meta :=
  let b := hbase m in
  match n with
  | NMissing => None
  | NNonReg => Some (mkMeta (mpath b) (mdev b) (mino b) (mlen b) false (mmtime b) (matime b) (mbtime b) (mctime b))
  | NFile d mt => Some (mkMeta (mpath b) (mdev b) (mino b) (N.of_nat (length d)) true (Some mt)
                               (matime b) (mbtime b) (mctime b))
  end.

(* the dedupe run on the report group, at the end of the history *)
Definition hist_run (D : data) (members : list hmember) (op : dop) (c : dcfg)
  (same_mount : path -> path -> bool) (glen : N) : gres :=
  dedupe_group op c same_mount glen (map (fun m => stat_of m (final D m)) members).

(* main.rs run_group (since 8227c8a): `start_time = Local::now()` is taken BEFORE group_files and recorded by
   write_report_at, so the header's time stamp is not later than the read of any member.  (Before that commit
   it was taken in write_report, after all reads: finding K1.)  A library user calling write_report, which
   stamps the time of the call, does not get this ordering. *)
Definition stamped_before_reads (ts : Z) (members : list hmember) : Prop :=
  forall m, In m members -> (ts <= hr m)%Z.

(* the text report keeps milliseconds: TIMESTAMP_FMT "%Y-%m-%d %H:%M:%S.%3f %z" (times in ns) *)
Definition trunc_ms (t : Z) : Z := (t / 1000000 * 1000000)%Z.
