(* WalkProofs5.v — with --follow-links the walk delivers every path AT MOST ONCE, whatever the schedule.

   The visited set of walk.rs is a concurrent set whose `insert` is one atomic test-and-set; the model's
   visit_entry looks the entry up and records it in the same step.  Invariant of `run`: everything sent to
   the consumer so far is in the visited set, and a path is sent only in the step that records it, so the
   output never repeats a path — for every tree (cycles, several links to one directory, overlapping input
   paths), every configuration with c_follow = true and EVERY scheduler.  (Without follow_links the walk may
   repeat paths of overlapping input paths; group.rs deduplicate removes them: scan_nodup.)

   This is the walk-level half of "no path is listed twice" (C03) and of "the body does not depend on the
   interleaving of the walker threads" (C13) for link-following scans. *)
From FV Require Import Base WalkModel.
Open Scope N_scope.

Lemma nodup_snoc {A} (l : list A) (x : A) : NoDup l -> ~ In x l -> NoDup (l ++ [x]).
Proof.
  induction l as [|a l IH]; cbn [app]; intros Hnd Hx.
  - constructor; [intros []|constructor].
  - inversion Hnd as [|a' l' Ha Hl]; subst. constructor.
    + intros Hin. apply in_app_or in Hin. destruct Hin as [Hin|[Hin|[]]]; [now apply Ha|].
      apply Hx. left. symmetry. exact Hin.
    + apply IH; [exact Hl|]. intros Hin. apply Hx. right. exact Hin.
Qed.

Lemma mem_false_not_in (p : path) (l : list path) : mem p l = false -> ~ In p l.
Proof. unfold mem. destruct (in_dec path_eq_dec p l) as [H|H]; [discriminate|intros _; exact H]. Qed.

Section FollowNoDup.
  Variable sel_file : path -> bool.
  Variable sel_dir : path -> bool.
  Variable ign1 : path -> path -> bool -> bool.
  Variable t : tree.
  Variable c : config.
  Hypothesis Hfollow : c_follow c = true.

  (* what one step may send: nothing, or the path of the task itself, freshly recorded *)
  Definition fresh_out (vis vis' : list path) (p : path) (o : list path) : Prop :=
    o = [] \/ (o = [p] /\ ~ In p vis /\ In p vis').

  Lemma visit_file_shape p : visit_file sel_file p = [] \/ visit_file sel_file p = [p].
  Proof. unfold visit_file. destruct (sel_file p); [right|left]; reflexivity. Qed.

  Lemma visit_link_out p ab tg lvl stk dev :
    snd (visit_link sel_file t c p ab tg lvl stk dev) = [] \/
    snd (visit_link sel_file t c p ab tg lvl stk dev) = [p].
  Proof.
    unfold visit_link.
    destruct (c_follow c || c_report c); [|left; reflexivity].
    destruct (resolve_link t p ab tg) as [[target nd]|]; [|left; reflexivity].
    destruct (is_file_kind nd && c_report c); [cbn [snd]; apply visit_file_shape|].
    destruct (c_follow c && (negb (c_one_fs c) || same_fs t target dev)); left; reflexivity.
  Qed.

  Lemma visit_entry_fresh vis p nd lvl stk dev new vis' o :
    visit_entry sel_file sel_dir ign1 t c vis p nd lvl stk dev = (new, vis', o) ->
    incl vis vis' /\ fresh_out vis vis' p o.
  Proof.
    unfold visit_entry. rewrite Hfollow. cbn [andb].
    destruct (negb (c_hidden c) && (0 <? lvl) && name_hidden p).
    { intros H. inversion H; subst. split; [apply incl_refl|left; reflexivity]. }
    destruct (mem p vis) eqn:Hm.
    { intros H. inversion H; subst. split; [apply incl_refl|left; reflexivity]. }
    apply mem_false_not_in in Hm.
    assert (Hincl : incl vis (p :: vis)) by (apply incl_tl, incl_refl).
    assert (Hin : In p (p :: vis)) by (left; reflexivity).
    destruct (negb (c_no_ignore c) && ignored ign1 stk p (is_dir_kind nd)).
    { intros H. inversion H; subst. split; [exact Hincl|left; reflexivity]. }
    destruct (n_kind nd) as [len| |ab tg|].
    - intros H. inversion H; subst. split; [exact Hincl|].
      destruct (visit_file_shape p) as [E|E]; rewrite E; [left; reflexivity|right; auto].
    - intros H. inversion H; subst. split; [exact Hincl|left; reflexivity].
    - intros H. inversion H; subst. split; [exact Hincl|].
      destruct (visit_link_out p ab tg lvl stk dev) as [E|E]; rewrite E; [left; reflexivity|right; auto].
    - intros H. inversion H; subst. split; [exact Hincl|left; reflexivity].
  Qed.

  Lemma step_fresh vis tk new vis' o :
    step sel_file sel_dir ign1 t c vis tk = (new, vis', o) ->
    incl vis vis' /\ fresh_out vis vis' (t_path tk) o.
  Proof.
    unfold step. destruct (lookup t (t_path tk)) as [nd|].
    - destruct (t_kind tk).
      + destruct (filter_ok sel_dir nd (t_path tk)).
        * apply visit_entry_fresh.
        * intros H. inversion H; subst. split; [apply incl_refl|left; reflexivity].
      + apply visit_entry_fresh.
    - intros H. inversion H; subst. split; [apply incl_refl|left; reflexivity].
  Qed.

  Variable sched : list task -> list path -> nat.

  (* the invariant: the output is duplicate free and inside the visited set *)
  Lemma run_nodup fuel : forall pending vis out l,
    NoDup out -> incl out vis ->
    run sel_file sel_dir ign1 t c sched fuel pending vis out = Done l -> NoDup l.
  Proof.
    induction fuel as [|f IH]; intros pending vis out l Hnd Hin Hrun.
    - destruct pending; cbn [run] in Hrun; [inversion Hrun; subst; exact Hnd|discriminate].
    - destruct pending as [|tk0 rest0]; cbn [run] in Hrun; [inversion Hrun; subst; exact Hnd|].
      destruct (pick sched tk0 rest0 vis) as [tk rest].
      destruct (step sel_file sel_dir ign1 t c vis tk) as [[new vis'] o] eqn:Hs.
      apply step_fresh in Hs. destruct Hs as [Hincl Hfr].
      eapply IH; [| |exact Hrun].
      + destruct Hfr as [E|(E & Hnot & _)]; subst o.
        * rewrite app_nil_r. exact Hnd.
        * apply nodup_snoc; [exact Hnd|]. intros Hp. apply Hnot. apply Hin. exact Hp.
      + intros x Hx. apply in_app_or in Hx. destruct Hx as [Hx|Hx].
        * apply Hincl, Hin, Hx.
        * destruct Hfr as [E|(E & _ & Hv)]; subst o; [destruct Hx|].
          destruct Hx as [Hx|[]]. subst x. exact Hv.
  Qed.
End FollowNoDup.

(* every tree, configuration with follow_links, list of input paths, selector, ignore oracle, scheduler *)
Theorem stmt_follow_walk_nodup :
  forall sel_file sel_dir ign1 t c sched roots l,
    c_follow c = true ->
    walk sel_file sel_dir ign1 t c sched roots = Done l -> NoDup l.
Proof.
  intros sel_file sel_dir ign1 t c sched roots l Hf Hw. unfold walk in Hw.
  eapply run_nodup; [exact Hf| | |exact Hw]; [constructor|intros x []].
Qed.

(* whatever the walk delivers, the scan result (after group.rs deduplicate) lists no path twice — all configurations *)
Theorem stmt_scan_nodup :
  forall sel_file sel_dir ign1 t c sched roots l,
    scan sel_file sel_dir ign1 t c sched roots = Done l -> NoDup l.
Proof.
  intros sel_file sel_dir ign1 t c sched roots l Hs. unfold scan in Hs.
  destruct (walk sel_file sel_dir ign1 t c sched roots) as [found|]; [|discriminate].
  inversion Hs; subst. unfold deduplicate. apply NoDup_nodup.
Qed.

(* with follow_links the deduplication pass has nothing to remove: the scan result is the filtered walk output itself *)
Theorem stmt_follow_scan_is_walk :
  forall sel_file sel_dir ign1 t c sched roots found,
    c_follow c = true ->
    walk sel_file sel_dir ign1 t c sched roots = Done found ->
    scan sel_file sel_dir ign1 t c sched roots = Done (filter (size_ok t c) found).
Proof.
  intros sel_file sel_dir ign1 t c sched roots found Hf Hw. unfold scan. rewrite Hw. f_equal.
  unfold deduplicate. apply nodup_fixed_point. apply NoDup_filter.
  eapply stmt_follow_walk_nodup; eauto.
Qed.

(* Non-vacuity: a directory /d with a file, reachable directly and through TWO links /a/l1 and /a/l2; with follow_links the
   file is delivered exactly once under the LIFO, the FIFO and a pseudo-random schedule. *)
Definition w5D : comp := [100].
Definition w5A : comp := [97].
Definition w5F : comp := [102].
Definition w5tree : tree :=
  [ ([], mkNode KDir 1); ([w5D], mkNode KDir 1); ([w5A], mkNode KDir 1);
    ([w5D; w5F], mkNode (KFile 2) 1);
    ([w5A; [108; 49]], mkNode (KLink false [dotdot; w5D]) 1);
    ([w5A; [108; 50]], mkNode (KLink true [w5D]) 1) ].
Definition w5cfg : config := mkConfig 18446744073709551615 false true false true false 0 18446744073709551615.
Definition w5all (p : path) : bool := true.
Definition w5ign (d p : path) (b : bool) : bool := false.

Example ex_follow_two_links :
  c_follow w5cfg = true /\
  walk w5all w5all w5ign w5tree w5cfg sched_lifo [[]] = Done [[w5D; w5F]] /\
  walk w5all w5all w5ign w5tree w5cfg sched_fifo [[]] = Done [[w5D; w5F]] /\
  walk w5all w5all w5ign w5tree w5cfg (sched_rand 7) [[]] = Done [[w5D; w5F]].
Proof. repeat split; vm_compute; reflexivity. Qed.

(* An input path that cannot be stat-ed (vanished, dangling) contributes nothing and changes nothing for the others:
   the walk and the scan are those of the remaining input paths - every position in the list, every schedule. *)
Theorem stmt_missing_root_ignored :
  forall sel_file sel_dir ign1 t c sched r1 bad r2,
    stat t (absolute t bad) = None ->
    walk sel_file sel_dir ign1 t c sched (r1 ++ bad :: r2) = walk sel_file sel_dir ign1 t c sched (r1 ++ r2) /\
    scan sel_file sel_dir ign1 t c sched (r1 ++ bad :: r2) = scan sel_file sel_dir ign1 t c sched (r1 ++ r2).
Proof.
  intros sel_file sel_dir ign1 t c sched r1 bad r2 Hbad.
  assert (E : root_tasks t c (r1 ++ bad :: r2) = root_tasks t c (r1 ++ r2)).
  { unfold root_tasks. rewrite !flat_map_app. cbn [flat_map]. unfold root_task at 2. rewrite Hbad. reflexivity. }
  assert (W : walk sel_file sel_dir ign1 t c sched (r1 ++ bad :: r2) = walk sel_file sel_dir ign1 t c sched (r1 ++ r2)).
  { unfold walk, walk_bound. rewrite E. reflexivity. }
  split; [exact W|]. unfold scan. rewrite W. reflexivity.
Qed.
