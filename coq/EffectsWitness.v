(* EffectsWitness.v — engine X: concrete states for the known findings K2, K7 and the observation N6 (all by
   computation), and a non-trivial state that satisfies every hypothesis of the C02 / C11 theorems. *)
From Coq Require Import Permutation.
From FV Require Import Base SortLib TextModel.
From FV Require Import DedupeModel DedupeProofs.
From FV Require Import FsModel AtomicModel AtomicProofs AtomicProofs2 AtomicProofs3 AtomicProofs4.
From FV Require Import EffectsModel EffectsProofs EffectsProofs2 EffectsProofs3 EffectsProofs4 EffectsProofs5 ScriptModel.
Open Scope N_scope.

(* paths: "/" = 47; one-letter components *)
Definition P1 (a : N) : path := [root_c; [a]].
Definition P2 (a b : N) : path := [root_c; [a]; [b]].
Definition P3 (a b c : N) : path := [root_c; [a]; [b]; [c]].
Definition dirs (l : list path) (s : fs) : fs := fold_left (fun st d => set_name st d (Some NDir)) l s.
Definition CONTENT : list N := [1; 2].
Definition w_ax : aux := mkAux (fun _ => 1) (fun _ => Some 0%Z) (fun _ => Some 0%Z) (fun _ => (0%Z, 0%Z)).
Definition w_env : env := mkEnv (fun _ => [116]) (fun _ => (-1)%Z).
Definition w_cfg (iso : list path) : dcfg := mkCfg (Some 1%nat) (fun _ => false) (fun _ => true) iso false false None [].
Definition w_sm : path -> path -> bool := fun _ _ => true.

(* ---------------------------------------------------------------- K2: group -S --isolate r1 r2, r1/L -> r2/T *)
(* r = 114, 1 = 49, 2 = 50, L = 76, T = 84 *)
Definition k2_s : fs :=
  set_name (create_at (dirs [[root_c]; P1 49; P1 50] empty_fs) (P2 50 84) (mkInode CONTENT 5%Z)) (P2 49 76) (Some (NLink (P2 50 84))).
Definition k2_r : report := [mkGroup 2 [P2 49 76; P2 50 84]].
Definition k2_cfg : dcfg := w_cfg [P1 49; P1 50].
Definition k2_cmds : list fcmd := map (fcmd_of w_env) (run_cmds w_ax OpRemove k2_cfg w_sm k2_s k2_r).

Lemma k2_cmds_eq : k2_cmds = [FRemove (P2 50 84)].
Proof. vm_compute. reflexivity. Qed.

Lemma k2_names p n : names k2_s p = Some n ->
  (p = P2 49 76 /\ n = NLink (P2 50 84)) \/ (p = P2 50 84 /\ n = NFile 1) \/ n = NDir.
Proof.
  unfold k2_s, dirs. cbn [fold_left]. intros H.
  destruct (path_eqb_spec (P2 49 76) p) as [<-|N1]; [rewrite names_set_same in H; injection H as <-; auto|].
  rewrite names_set_other in H by auto.
  destruct (path_eqb_spec (P2 50 84) p) as [<-|N2]; [rewrite names_create_same in H; injection H as <-; cbn; auto|].
  rewrite names_create_other in H by auto.
  destruct (path_eqb_spec (P1 50) p) as [<-|N3]; [rewrite names_set_same in H; injection H as <-; auto|].
  rewrite names_set_other in H by auto.
  destruct (path_eqb_spec (P1 49) p) as [<-|N4]; [rewrite names_set_same in H; injection H as <-; auto|].
  rewrite names_set_other in H by auto.
  destruct (path_eqb_spec [root_c] p) as [<-|N5]; [rewrite names_set_same in H; injection H as <-; auto|].
  rewrite names_set_other in H by auto. discriminate.
Qed.

Lemma k2_report_ok : report_ok k2_s k2_r.
Proof.
  split; [|split].
  - vm_compute. repeat constructor; cbn; intuition discriminate.
  - intros p [<-|[<-|[]]]; vm_compute; auto.
  - intros g [<-|[]]. exists CONTENT. intros p [<-|[<-|[]]]; vm_compute; reflexivity.
Qed.

Lemma k2_is_K2 : K2 k2_s k2_r k2_cmds.
Proof.
  rewrite k2_cmds_eq. exists (mkGroup 2 [P2 49 76; P2 50 84]), (P2 49 76), (P2 50 84), (P2 50 84), 1.
  split; [left; reflexivity|]. split; [left; reflexivity|]. split; [vm_compute; reflexivity|]. split.
  - cbn. intros [E|[]]. discriminate.
  - split; [vm_compute; reflexivity|left; reflexivity].
Qed.

Lemma k2_loses_content sl : stored k2_s CONTENT /\ ~ stored (final_fs sl k2_cmds k2_s) CONTENT.
Proof.
  split.
  - exists (P2 50 84), 1, (mkInode CONTENT 5%Z). vm_compute. auto.
  - rewrite k2_cmds_eq. rewrite final_fs_ev. cbn [ev_script fst].
    assert (Hl : lock_ok sl k2_s (P2 50 84)).
    { right. exists (P2 50 84), 1. split; vm_compute; reflexivity. }
    rewrite (ev_remove sl (P2 50 84) k2_s (NFile 1)); [|apply clean_norm; vm_compute; reflexivity|vm_compute; reflexivity|discriminate|exact Hl].
    cbn [fst]. intros (p & i & d & Ep & _).
    destruct (path_eqb_spec (P2 50 84) p) as [<-|Hne]; [rewrite names_set_same in Ep; discriminate|].
    rewrite names_set_other in Ep by auto. destruct (k2_names _ _ Ep) as [[_ E]|[[E _]|E]]; congruence.
Qed.

(* ---------------------------------------------------------------- K7: a/L -> ../b/T (relative), b/T, c/d/F; link *)
(* a = 97, b = 98, c = 99, d = 100, L = 76, T = 84, F = 70 *)
Definition k7_s : fs :=
  set_name (create_at (create_at (dirs [[root_c]; P1 97; P1 98; P1 99; P2 99 100] empty_fs) (P2 98 84) (mkInode CONTENT 5%Z))
                      (P3 99 100 70) (mkInode CONTENT 6%Z))
           (P2 97 76) (Some (NLink [dotdot_c; [98]; [84]])).
Definition k7_r : report := [mkGroup 2 [P2 97 76; P2 98 84; P3 99 100 70]].
Definition k7_cmds : list fcmd := map (fcmd_of w_env) (run_cmds w_ax OpHardLink (w_cfg []) w_sm k7_s k7_r).

Lemma k7_cmds_eq : k7_cmds = [FHardLink (P2 97 76) (P3 99 100 70) [root_c; [99]; [100]; [70; 46; 116]]].
Proof. vm_compute. reflexivity. Qed.

Lemma k7_report_ok : report_ok k7_s k7_r.
Proof.
  split; [|split].
  - vm_compute. repeat constructor; cbn; intuition discriminate.
  - intros p [<-|[<-|[<-|[]]]]; vm_compute; auto.
  - intros g [<-|[]]. exists CONTENT. intros p [<-|[<-|[<-|[]]]]; vm_compute; reflexivity.
Qed.

Lemma k7_is_K7 : K7 k7_s k7_cmds.
Proof.
  rewrite k7_cmds_eq. eexists _, (P2 97 76), _. split; [left; reflexivity|]. split; [reflexivity|]. vm_compute. reflexivity.
Qed.

Lemma k7_not_read_back :
  names k7_s (P3 99 100 70) = Some (NFile 2) /\ rread k7_s (P3 99 100 70) = Some CONTENT /\
  rread (final_fs true k7_cmds k7_s) (P3 99 100 70) = None /\
  names (final_fs true k7_cmds k7_s) (P3 99 100 70) = Some (NLink [dotdot_c; [98]; [84]]).
Proof. vm_compute. auto. Qed.

(* ---------------------------------------------------------------- N6: y/f and its symlink y/l are both dropped, lock on *)
(* x = 120, y = 121, g = 103, f = 102, l = 108 *)
Definition n6_s : fs :=
  set_name (create_at (create_at (dirs [[root_c]; P1 120; P1 121] empty_fs) (P2 120 103) (mkInode CONTENT 5%Z))
                      (P2 121 102) (mkInode CONTENT 6%Z))
           (P2 121 108) (Some (NLink (P2 121 102))).
Definition n6_r : report := [mkGroup 2 [P2 120 103; P2 121 102; P2 121 108]].
Definition n6_cmds : list cmd := run_cmds w_ax OpRemove (w_cfg []) w_sm n6_s n6_r.

Lemma n6_cmds_eq : map (fcmd_of w_env) n6_cmds = [FRemove (P2 121 102); FRemove (P2 121 108)].
Proof. vm_compute. reflexivity. Qed.

Lemma n6_order_dependent :
  names (final_fs true [FRemove (P2 121 102); FRemove (P2 121 108)] n6_s) (P2 121 108) = Some (NLink (P2 121 102)) /\
  names (final_fs true [FRemove (P2 121 108); FRemove (P2 121 102)] n6_s) (P2 121 108) = None /\
  processed_count (whole_run true [FRemove (P2 121 102); FRemove (P2 121 108)] n6_s) = 1%nat /\
  processed_count (whole_run true [FRemove (P2 121 108); FRemove (P2 121 102)] n6_s) = 2%nat.
Proof. vm_compute. auto. Qed.

Lemma n6_dry_vs_real :
  lcount (log_script (sfx w_env) (indexed_from 0 (script_items w_ax OpRemove (w_cfg []) w_sm n6_s n6_r))) = 2%nat /\
  processed_count (whole_run true (map (fcmd_of w_env) n6_cmds) n6_s) = 1%nat.
Proof. vm_compute. auto. Qed.

(* ---------------------------------------------------------------- the hypotheses are satisfiable (and hold in the witnesses) *)
Lemma wf_dirs l s : wf s -> wf (dirs l s).
Proof. revert s; induction l as [|d l IH]; intros s H; cbn [dirs fold_left]; auto. apply IH. now apply wf_set_dir. Qed.

Lemma k2_wf : wf k2_s.
Proof. unfold k2_s. apply wf_set_link. apply wf_create. apply wf_dirs. apply wf_empty. Qed.
Lemma k7_wf : wf k7_s.
Proof. unfold k7_s. apply wf_set_link. apply wf_create. apply wf_create. apply wf_dirs. apply wf_empty. Qed.

Lemma k2_run_ok sl : run_ok w_ax w_env sl OpRemove k2_cfg w_sm k2_s k2_r.
Proof.
  split; [apply k2_report_ok|]. split; [|split; [apply k2_wf|split; [reflexivity|split]]].
  - split; [vm_compute; repeat constructor; cbn; intuition discriminate|].
    intros p [<-|[<-|[]]]; vm_compute; repeat split; auto; intuition discriminate.
  - right. intros x Hx. assert (E : run_cmds w_ax OpRemove k2_cfg w_sm k2_s k2_r = [Remove (mkMeta (P2 50 84) 1 1 2 true (Some 5%Z) (Some 0%Z) (Some 0%Z) (0%Z, 0%Z))]) by (vm_compute; reflexivity).
    rewrite E in Hx. destruct Hx as [<-|[]]. exists 1. vm_compute. auto.
  - intros t l Hx. exfalso.
    assert (E : run_cmds w_ax OpRemove k2_cfg w_sm k2_s k2_r = [Remove (mkMeta (P2 50 84) 1 1 2 true (Some 5%Z) (Some 0%Z) (Some 0%Z) (0%Z, 0%Z))]) by (vm_compute; reflexivity).
    rewrite E in Hx. destruct Hx as [Hx|[]]. discriminate.
Qed.

Definition k7_cmd : cmd :=
  HardLink (mkMeta (P2 97 76) 1 1 2 true (Some 5%Z) (Some 0%Z) (Some 0%Z) (0%Z, 0%Z))
           (mkMeta (P3 99 100 70) 1 2 2 true (Some 6%Z) (Some 0%Z) (Some 0%Z) (0%Z, 0%Z)).
Lemma k7_run_cmds : run_cmds w_ax OpHardLink (w_cfg []) w_sm k7_s k7_r = [k7_cmd].
Proof. vm_compute. reflexivity. Qed.

Lemma k7_run_ok : run_ok w_ax w_env true OpHardLink (w_cfg []) w_sm k7_s k7_r.
Proof.
  split; [apply k7_report_ok|]. split; [|split; [apply k7_wf|split; [reflexivity|split]]].
  - split; [vm_compute; repeat constructor; cbn; intuition discriminate|].
    intros p [<-|[<-|[<-|[]]]]; vm_compute; repeat split; auto; intuition discriminate.
  - right. intros x Hx. rewrite k7_run_cmds in Hx. destruct Hx as [<-|[]]. exists 2. vm_compute. auto.
  - intros t l Hx. exfalso. rewrite k7_run_cmds in Hx. destruct Hx as [Hx|[]]. discriminate.
Qed.

(* a plain state: b/T and c/d/F with the same bytes, e/U with other bytes; link *)
Definition ex_s : fs :=
  create_at (create_at (create_at (dirs [[root_c]; P1 98; P1 99; P2 99 100; P1 101] empty_fs) (P2 98 84) (mkInode CONTENT 5%Z))
                       (P3 99 100 70) (mkInode CONTENT 6%Z)) (P2 101 85) (mkInode [9] 7%Z).
Definition ex_r : report := [mkGroup 2 [P2 98 84; P3 99 100 70]].
Definition ex_cmd (op : dop) : cmd :=
  let t := mkMeta (P2 98 84) 1 1 2 true (Some 5%Z) (Some 0%Z) (Some 0%Z) (0%Z, 0%Z) in
  let l := mkMeta (P3 99 100 70) 1 2 2 true (Some 6%Z) (Some 0%Z) (Some 0%Z) (0%Z, 0%Z) in
  match op with OpRemove => Remove l | OpSoftLink => SoftLink t l | OpHardLink => HardLink t l | OpRefLink => RefLink t l
              | OpMove d => Move l (move_target d (P3 99 100 70)) true end.
Lemma ex_run_cmds op : run_cmds w_ax op (w_cfg []) w_sm ex_s ex_r = [ex_cmd op].
Proof. destruct op; vm_compute; reflexivity. Qed.
Lemma ex_wf : wf ex_s.
Proof. unfold ex_s. repeat apply wf_create. apply wf_dirs. apply wf_empty. Qed.
Lemma ex_report_ok : report_ok ex_s ex_r.
Proof.
  split; [|split].
  - vm_compute. repeat constructor; cbn; intuition discriminate.
  - intros p [<-|[<-|[]]]; vm_compute; auto.
  - intros g [<-|[]]. exists CONTENT. intros p [<-|[<-|[]]]; vm_compute; reflexivity.
Qed.
Lemma ex_run_ok sl op : is_move op = false -> run_ok w_ax w_env sl op (w_cfg []) w_sm ex_s ex_r.
Proof.
  intros Hop. split; [apply ex_report_ok|]. split; [|split; [apply ex_wf|split; [exact Hop|split]]].
  - split; [vm_compute; repeat constructor; cbn; intuition discriminate|].
    intros p [<-|[<-|[]]]; vm_compute; repeat split; auto; intuition discriminate.
  - right. intros x Hx. rewrite ex_run_cmds in Hx. destruct Hx as [<-|[]]. exists 2. destruct op; vm_compute; auto.
  - intros t l Hx. rewrite ex_run_cmds in Hx. destruct Hx as [Hx|[]]. destruct op; cbn [ex_cmd] in Hx; try discriminate.
    injection Hx as <- <-. exists 2, 1. vm_compute. repeat split; auto. discriminate.
Qed.
Lemma ex_no_K2 op : ~ K2 ex_s ex_r (map (fcmd_of w_env) (run_cmds w_ax op (w_cfg []) w_sm ex_s ex_r)).
Proof.
  intros (g & p & t & q & i & Hg & Hp & En & _). destruct Hg as [<-|[]]. destruct Hp as [<-|[<-|[]]]; vm_compute in En; discriminate.
Qed.
Lemma ex_no_K7 op : ~ K7 ex_s (map (fcmd_of w_env) (run_cmds w_ax op (w_cfg []) w_sm ex_s ex_r)).
Proof.
  rewrite ex_run_cmds. intros (c & t & x & Hc & Er & En). destruct Hc as [<-|[]].
  destruct op; cbn [ex_cmd map fcmd_of cmd_retained mpath] in Er; try discriminate; injection Er as <-; vm_compute in En; discriminate.
Qed.
