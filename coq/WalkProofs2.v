(* WalkProofs2.v — the work list of WalkModel.run: what it reports for every scheduler (soundness),
   that it reports everything when links are not followed (no shared state), and that the fuel
   `walk_bound` always suffices (termination, including symlink cycles). *)
From FV Require Import Base WalkModel WalkProofs.
From Coq Require Import Permutation.
Open Scope N_scope.

Lemma take_nth_perm {A} (i : nat) (l : list A) x r : take_nth i l = Some (x, r) -> Permutation l (x :: r).
Proof.
  revert i x r. induction l as [|a l IH]; intros i x r H; destruct i as [|i]; cbn in H; try discriminate.
  - injection H as <- <-. apply Permutation_refl.
  - destruct (take_nth i l) as [[y r']|] eqn:E; [|discriminate]. injection H as <- <-.
    specialize (IH _ _ _ E). eapply perm_trans; [apply perm_skip, IH|apply perm_swap].
Qed.

(* ---------------------------------------------------------------------------------------------- *)
(* counting lemmas for the termination measure *)

Lemma NoDup_app_intro {A} (a b : list A) :
  NoDup a -> NoDup b -> (forall x, In x a -> In x b -> False) -> NoDup (a ++ b).
Proof.
  induction a as [|x a IH]; intros Ha Hb Hd; cbn; auto.
  inversion Ha as [|? ? Hx Ha']; subst. constructor.
  - rewrite in_app_iff. intros [H|H]; [auto|]. apply (Hd x); auto. now left.
  - apply IH; auto. intros y Hy. apply Hd. now right.
Qed.

Lemma filter_length_le {A} (f g : A -> bool) l :
  (forall x, In x l -> f x = true -> g x = true) -> (length (filter f l) <= length (filter g l))%nat.
Proof.
  induction l as [|a l IH]; intros H; cbn; [lia|].
  assert (IH' := IH (fun x Hx => H x (or_intror Hx))).
  destruct (f a) eqn:Ef.
  - rewrite (H a (or_introl eq_refl) Ef). cbn. lia.
  - destruct (g a); cbn; lia.
Qed.

Lemma filter_or_length {A} (f g : A -> bool) l :
  (forall x, In x l -> f x = true -> g x = true -> False) ->
  length (filter (fun x => f x || g x) l) = (length (filter f l) + length (filter g l))%nat.
Proof.
  induction l as [|a l IH]; intros H; cbn; [lia|].
  assert (IH' := IH (fun x Hx => H x (or_intror Hx))).
  destruct (f a) eqn:Ef, (g a) eqn:Eg; cbn; try lia.
  exfalso. exact (H a (or_introl eq_refl) Ef Eg).
Qed.

Lemma filter_eq_NoDup (q : path) l : NoDup l -> In q l -> length (filter (path_eqb q) l) = 1%nat.
Proof.
  induction l as [|a l IH]; intros Hnd Hin; [destruct Hin|].
  inversion Hnd as [|? ? Hna Hnd']; subst. cbn.
  destruct (path_eqb q a) eqn:E.
  - apply path_eqb_true in E. subst a. cbn. f_equal.
    assert (filter (path_eqb q) l = []) as ->; [|reflexivity].
    clear IH Hnd Hnd' Hin. induction l as [|b l IHl]; cbn; auto.
    destruct (path_eqb q b) eqn:E2.
    + apply path_eqb_true in E2. subst. elim Hna. now left.
    + apply IHl. intros H. apply Hna. now right.
  - destruct Hin as [->|Hin].
    + assert (path_eqb q q = true) by now apply path_eqb_true. congruence.
    + now apply IH.
Qed.

Lemma strict_prefix_spec p q : strict_prefix p q = true <-> exists r, r <> [] /\ q = p ++ r.
Proof.
  unfold strict_prefix. rewrite andb_true_iff, Nat.ltb_lt, path_eqb_true. split.
  - intros [Hl Hf]. exists (skipn (length p) q). split.
    + intros E. assert (length (skipn (length p) q) = 0%nat) by now rewrite E.
      rewrite skipn_length in H. lia.
    + rewrite <- Hf at 1. symmetry. apply firstn_skipn.
  - intros (r & Hr & ->). split.
    + rewrite app_length. destruct r; [congruence|cbn; lia].
    + rewrite firstn_app, Nat.sub_diag, firstn_all. cbn. now rewrite app_nil_r.
Qed.

Definition pe (q x : path) : bool := path_eqb q x || strict_prefix q x.

Lemma pe_spec q x : pe q x = true <-> prefix q x.
Proof.
  unfold pe, prefix. rewrite orb_true_iff, path_eqb_true, strict_prefix_spec. split.
  - intros [->|(r & _ & ->)]; [exists []; now rewrite app_nil_r|now exists r].
  - intros [r ->]. destruct r as [|a r]; [left; now rewrite app_nil_r|right; exists (a :: r); split; congruence].
Qed.

Section Run.
  Variable sel_file : path -> bool.
  Variable sel_dir : path -> bool.
  Variable ign1 : path -> path -> bool -> bool.
  Variable t : tree.
  Variable c : config.
  Variable sched : list task -> list path -> nat.

  Notation step := (step sel_file sel_dir ign1 t c).
  Notation run := (run sel_file sel_dir ign1 t c sched).
  Notation news0 := (news0 sel_file sel_dir ign1 t c).
  Notation outs0 := (outs0 sel_file sel_dir ign1 t c).
  Notation edge := (edge sel_dir ign1 t c).
  Notation emits := (emits sel_file sel_dir ign1 t c).
  Notation visits := (visits sel_dir ign1 t c).
  Notation selected := (selected sel_file sel_dir ign1 t c).

  Lemma pick_perm tk0 rest0 vis tk rest :
    pick sched tk0 rest0 vis = (tk, rest) -> Permutation (tk0 :: rest0) (tk :: rest).
  Proof.
    unfold pick. destruct (take_nth _ _) as [[y r]|] eqn:E.
    - intros H. injection H as <- <-. eapply take_nth_perm; eauto.
    - intros H. injection H as <- <-. apply Permutation_refl.
  Qed.

  (* everything a task can lead to, in the task graph of the visited-set-free step *)
  Inductive produces : task -> path -> Prop :=
  | P_emit tk x : emits true tk x -> produces tk x
  | P_step tk tk' x : edge true tk tk' -> produces tk' x -> produces tk x.

  Lemma produces_selected roots x :
    (exists tk0, In tk0 (root_tasks t c roots) /\ produces tk0 x) <-> selected true roots x.
  Proof.
    split.
    - intros (tk0 & Hin & Hp).
      assert (Hv : visits true roots tk0) by now apply V_root.
      clear Hin. induction Hp as [tk x He | tk tk' x Hed Hp IH].
      + now exists tk.
      + apply IH. eapply V_step; eauto.
    - intros (tk & Hv & He).
      assert (Hp : produces tk x) by now apply P_emit.
      clear He. induction Hv as [tk Hin | tk tk' Hv IH Hed].
      + now exists tk.
      + apply IH. eapply P_step; eauto.
  Qed.

  (* soundness, for every configuration and scheduler *)
  Lemma run_sound f : forall pending vis out l,
    run f pending vis out = Done l ->
    forall x, In x l -> In x out \/ exists tk, In tk pending /\ produces tk x.
  Proof.
    induction f as [|f IH]; intros pending vis out l H x Hx; destruct pending as [|tk0 rest0]; cbn [WalkModel.run] in H.
    - injection H as <-. now left.
    - discriminate.
    - injection H as <-. now left.
    - destruct (pick sched tk0 rest0 vis) as [tk rest] eqn:Ep.
      destruct (step vis tk) as [[new vis'] o] eqn:Es.
      pose proof (pick_perm _ _ _ _ _ Ep) as Hperm.
      assert (Htk : In tk (tk0 :: rest0)).
      { eapply Permutation_in; [apply Permutation_sym, Hperm|now left]. }
      assert (Hrest : forall y, In y rest -> In y (tk0 :: rest0)).
      { intros y Hy. eapply Permutation_in; [apply Permutation_sym, Hperm|now right]. }
      destruct (IH _ _ _ _ H x Hx) as [Ho | (tk' & Hin & Hp)].
      + apply in_app_iff in Ho. destruct Ho as [Ho|Ho]; [now left|].
        right. exists tk. split; auto. apply P_emit. apply outs0_emits.
        destruct (step_sub _ _ _ _ _ _ _ _ _ _ Es) as [(_ & -> & _) | (_ & -> & _)]; [destruct Ho|exact Ho].
      + apply in_app_iff in Hin. destruct Hin as [Hin|Hin].
        * right. exists tk'. auto.
        * right. exists tk. split; auto. eapply P_step; [|exact Hp]. apply (news0_edge sel_file sel_dir ign1 t c).
          destruct (step_sub _ _ _ _ _ _ _ _ _ _ Es) as [(-> & _) | (-> & _)]; [destruct Hin|exact Hin].
  Qed.

  (* completeness when links are not followed: tasks are independent *)
  Lemma run_complete_nofollow f : c_follow c = false -> forall pending vis out l,
    run f pending vis out = Done l ->
    forall x, (In x out \/ exists tk, In tk pending /\ produces tk x) -> In x l.
  Proof.
    intros Hnf. induction f as [|f IH]; intros pending vis out l H x Hx; destruct pending as [|tk0 rest0]; cbn [WalkModel.run] in H.
    - injection H as <-. destruct Hx as [Hx | (tk & [] & _)]; auto.
    - discriminate.
    - injection H as <-. destruct Hx as [Hx | (tk & [] & _)]; auto.
    - destruct (pick sched tk0 rest0 vis) as [tk rest] eqn:Ep.
      rewrite (step_nofollow _ _ _ _ _ vis tk Hnf) in H.
      pose proof (pick_perm _ _ _ _ _ Ep) as Hperm.
      apply (IH _ _ _ _ H x).
      destruct Hx as [Hx | (tk' & Hin & Hp)]; [left; apply in_app_iff; now left|].
      apply (Permutation_in _ Hperm) in Hin. destruct Hin as [<- | Hin].
      + inversion Hp as [? ? He | ? tk2 ? Hed Hp2]; subst.
        * left. apply in_app_iff. right. now apply outs0_emits.
        * right. exists tk2. split; auto. apply in_app_iff. right. now apply (news0_edge sel_file sel_dir ign1 t c).
      + right. exists tk'. split; auto. apply in_app_iff. now left.
  Qed.

  (* ------------------------------------------------------------------------------------------ *)
  (* termination *)

  Notation potential := (potential t c).
  Notation wsum := (wsum t).
  Notation weight := (weight t).
  Notation ndesc := (ndesc t).

  Definition tsum (l : list task) : nat := fold_right (fun tk s => (S (ndesc (t_path tk)) + s)%nat) O l.

  Lemma tsum_app a b : tsum (a ++ b) = (tsum a + tsum b)%nat.
  Proof. induction a as [|x a IH]; cbn [tsum fold_right app]; [reflexivity|]. fold (tsum (a ++ b)). fold (tsum a). lia. Qed.

  Lemma tsum_perm a b : Permutation a b -> tsum a = tsum b.
  Proof.
    induction 1 as [|x a b H IH|x y a|a b d H1 IH1 H2 IH2]; cbn [tsum fold_right]; try lia.
    fold (tsum a). fold (tsum b). lia.
  Qed.

  Lemma kinds_exclusive q :
    (kind_at t is_dir_kind q = true -> kind_at t is_link_kind q = true -> False) /\
    (kind_at t is_dir_kind q = true -> kind_at t is_file_kind q = true -> False) /\
    (kind_at t is_link_kind q = true -> kind_at t is_file_kind q = true -> False).
  Proof.
    unfold kind_at, is_dir_kind, is_link_kind, is_file_kind.
    destruct (lookup t q) as [nd|]; [destruct (n_kind nd)|]; repeat split; intros; discriminate.
  Qed.

  Lemma sorted_entries_length d : (length (sorted_entries t d) <= length (children t d))%nat.
  Proof.
    unfold sorted_entries. generalize (children t d) as l. intros l. rewrite !app_length.
    induction l as [|a l IH]; cbn; [lia|].
    destruct (kinds_exclusive a) as (H1 & H2 & H3).
    destruct (kind_at t is_dir_kind a) eqn:Ea, (kind_at t is_link_kind a) eqn:Eb, (kind_at t is_file_kind a) eqn:Ec;
      cbn; try lia; exfalso; auto.
  Qed.

  Lemma sorted_entries_NoDup d : NoDup (sorted_entries t d).
  Proof.
    unfold sorted_entries. pose proof (children_NoDup t d) as Hnd.
    assert (Hsub : forall f x, In x (filter f (children t d)) -> f x = true) by (intros f x Hx; now apply filter_In in Hx).
    apply NoDup_app_intro.
    - now apply NoDup_filter.
    - apply NoDup_app_intro; [now apply NoDup_filter|now apply NoDup_filter|].
      intros x H1 H2. apply Hsub in H1, H2. destruct (kinds_exclusive x) as (_ & _ & H). auto.
    - intros x H1 H2. apply Hsub in H1. apply in_app_iff in H2.
      destruct (kinds_exclusive x) as (Ha & Hb & _).
      destruct H2 as [H2|H2]; apply Hsub in H2; auto.
  Qed.

  (* --- follow_links: every processed entry is new in `visited`; weight = 1 + number of its children --- *)
  Definition gsum (ks vis : list path) : nat := fold_right (fun p s => (weight vis p + s)%nat) O ks.

  Lemma weight_cons_other p q vis : q <> p -> weight (p :: vis) q = weight vis q.
  Proof.
    intros Hne. unfold WalkModel.weight.
    destruct (mem q (p :: vis)) eqn:E1, (mem q vis) eqn:E2; auto.
    - apply mem_true in E1. apply mem_false in E2. destruct E1 as [->|E1]; [congruence|tauto].
    - apply mem_false in E1. apply mem_true in E2. elim E1. now right.
  Qed.

  Lemma gsum_notin ks p vis : ~ In p ks -> gsum ks (p :: vis) = gsum ks vis.
  Proof.
    induction ks as [|a ks IH]; intros Hn; cbn [gsum fold_right]; auto.
    fold (gsum ks (p :: vis)). fold (gsum ks vis).
    rewrite IH by (intros H; apply Hn; now right).
    rewrite weight_cons_other; auto. intros ->. apply Hn. now left.
  Qed.

  Lemma gsum_insert ks p vis : NoDup ks -> In p ks -> ~ In p vis ->
    gsum ks vis = (gsum ks (p :: vis) + S (length (children t p)))%nat.
  Proof.
    induction ks as [|a ks IH]; intros Hnd Hin Hnv; [destruct Hin|].
    inversion Hnd as [|? ? Hna Hnd']; subst. cbn [gsum fold_right].
    fold (gsum ks (p :: vis)). fold (gsum ks vis).
    destruct (path_eq_dec a p) as [->|Hne].
    - rewrite gsum_notin by auto. unfold WalkModel.weight.
      assert (mem p vis = false) as -> by now apply mem_false.
      assert (mem p (p :: vis) = true) as -> by (apply mem_true; now left). lia.
    - destruct Hin as [Hin|Hin]; [congruence|].
      rewrite (IH Hnd' Hin Hnv). rewrite weight_cons_other by auto. lia.
  Qed.

  Lemma pre_b_lookup tk nd : pre_b sel_dir t c tk = Some nd -> lookup t (t_path tk) = Some nd.
  Proof.
    unfold pre_b. destruct (lookup t (t_path tk)); [|discriminate].
    destruct (_ && _); [auto|discriminate].
  Qed.

  Lemma news0_length tk : (length (news0 tk) <= S (length (children t (t_path tk))))%nat.
  Proof.
    rewrite news0_eq. destruct (pre_b sel_dir t c tk) as [nd|]; [|cbn; lia].
    unfold body. destruct (ign_b ign1 c tk nd); [cbn; lia|].
    destruct (n_kind nd) as [len| |ab tg|]; cbn [fst length]; try lia.
    - unfold visit_dir.
      destruct (c_depth c <=? t_level tk); [cbn; lia|].
      destruct (negb (sel_dir (t_path tk))); [cbn; lia|].
      destruct (c_one_fs c && negb (same_fs t (t_path tk) (t_dev tk))); [cbn; lia|].
      rewrite map_length. pose proof (sorted_entries_length (t_path tk)). lia.
    - unfold visit_link.
      destruct (c_follow c || c_report c); [|cbn; lia].
      destruct (resolve_link t (t_path tk) ab tg) as [[target tnd]|]; [|cbn; lia].
      destruct (is_file_kind tnd && c_report c); [cbn; lia|].
      destruct (c_follow c && (negb (c_one_fs c) || same_fs t target (t_dev tk))); cbn; lia.
  Qed.

  (* --- no link following: a task stands for the sub tree below its path --- *)
  Definition csum (qs : list path) : nat := fold_right (fun q s => (S (ndesc q) + s)%nat) O qs.
  Definition cover (qs : list path) (x : path) : bool := existsb (fun q => pe q x) qs.

  Lemma tsum_map_entries qs lvl stk dev :
    tsum (map (fun q => mkTask TEntry q lvl stk dev) qs) = csum qs.
  Proof.
    induction qs as [|q qs IH]; cbn [map tsum csum fold_right]; auto.
  Qed.

  Lemma child_prefix_unique p q1 q2 x :
    In q1 (children t p) -> In q2 (children t p) -> pe q1 x = true -> pe q2 x = true -> q1 = q2.
  Proof.
    rewrite !children_spec, !pe_spec. intros [_ [n1 ->]] [_ [n2 ->]] [r1 ->] [r2 H].
    rewrite <- !app_assoc in H. apply app_inv_head in H. cbn in H. congruence.
  Qed.

  Lemma csum_cover qs p : NoDup qs -> (forall q, In q qs -> In q (children t p)) ->
    csum qs = length (filter (cover qs) (keys t)).
  Proof.
    induction qs as [|q qs IH]; intros Hnd Hsub.
    - cbn [csum fold_right]. unfold cover. cbn [existsb].
      induction (keys t) as [|a l IHl]; cbn; auto.
    - inversion Hnd as [|? ? Hnq Hnd']; subst.
      cbn [csum fold_right]. fold (csum qs).
      rewrite (IH Hnd') by (intros q' Hq'; apply Hsub; now right).
      change (filter (cover (q :: qs)) (keys t)) with (filter (fun x => pe q x || cover qs x) (keys t)).
      rewrite filter_or_length.
      2:{ intros x _ H1 H2. unfold cover in H2. apply existsb_exists in H2. destruct H2 as (q' & Hq' & H2).
          assert (q = q') by (eapply child_prefix_unique; eauto; apply Hsub; [now left|now right]).
          subst. auto. }
      unfold pe at 1.
      rewrite filter_or_length.
      2:{ intros x _ H1 H2. apply path_eqb_true in H1. subst x.
          apply strict_prefix_spec in H2. destruct H2 as (r & Hr & H2).
          rewrite <- (app_nil_r q) in H2 at 1. apply app_inv_head in H2. congruence. }
      rewrite filter_eq_NoDup; [|apply keys_NoDup|].
      2:{ specialize (Hsub q (or_introl eq_refl)). apply children_spec in Hsub. tauto. }
      unfold WalkModel.ndesc. lia.
  Qed.

  Lemma csum_le qs p : NoDup qs -> (forall q, In q qs -> In q (children t p)) -> (csum qs <= ndesc p)%nat.
  Proof.
    intros Hnd Hsub. rewrite (csum_cover qs p Hnd Hsub). unfold WalkModel.ndesc.
    apply filter_length_le. intros x _ H. unfold cover in H. apply existsb_exists in H.
    destruct H as (q & Hq & H). apply Hsub, children_spec in Hq. destruct Hq as [_ [n ->]].
    apply pe_spec in H. destruct H as [r ->]. apply strict_prefix_spec.
    exists (n :: r). split; [discriminate|]. now rewrite <- app_assoc.
  Qed.

  Lemma news0_tsum tk : c_follow c = false -> (tsum (news0 tk) <= ndesc (t_path tk))%nat.
  Proof.
    intros Hnf. rewrite news0_eq. destruct (pre_b sel_dir t c tk) as [nd|]; [|cbn; lia].
    unfold body. destruct (ign_b ign1 c tk nd); [cbn; lia|].
    destruct (n_kind nd) as [len| |ab tg|]; cbn [fst tsum fold_right]; try lia.
    - unfold visit_dir.
      destruct (c_depth c <=? t_level tk); [cbn; lia|].
      destruct (negb (sel_dir (t_path tk))); [cbn; lia|].
      destruct (c_one_fs c && negb (same_fs t (t_path tk) (t_dev tk))); [cbn; lia|].
      rewrite tsum_map_entries. apply csum_le; [apply sorted_entries_NoDup|].
      intros q Hq. unfold sorted_entries in Hq. rewrite !in_app_iff, !filter_In in Hq. tauto.
    - unfold visit_link. rewrite Hnf. cbn [orb andb].
      destruct (c_report c); [|cbn; lia].
      destruct (resolve_link t (t_path tk) ab tg) as [[target tnd]|]; [|cbn; lia].
      destruct (is_file_kind tnd && true); cbn; lia.
  Qed.

  Lemma potential_step tk0 rest0 vis tk rest new vis' o :
    pick sched tk0 rest0 vis = (tk, rest) -> step vis tk = (new, vis', o) ->
    (potential (rest ++ new) vis' < potential (tk0 :: rest0) vis)%nat.
  Proof.
    intros Ep Es. pose proof (pick_perm _ _ _ _ _ Ep) as Hperm.
    unfold WalkModel.potential. destruct (c_follow c) eqn:Ef.
    - rewrite (Permutation_length Hperm). cbn [length]. rewrite app_length.
      destruct (step_sub _ _ _ _ _ _ _ _ _ _ Es) as [(-> & _ & ->) | (-> & _ & -> & Hnv & (nd & Hpre))].
      + cbn. lia.
      + rewrite Ef. specialize (Hnv Ef).
        pose proof (lookup_in_keys _ _ _ (pre_b_lookup _ _ Hpre)) as Hk.
        change (wsum vis) with (gsum (keys t) vis). change (wsum (t_path tk :: vis)) with (gsum (keys t) (t_path tk :: vis)).
        rewrite (gsum_insert (keys t) (t_path tk) vis (keys_NoDup t) Hk Hnv).
        pose proof (news0_length tk). lia.
    - change (fold_right (fun tk1 s => (S (ndesc (t_path tk1)) + s)%nat) 0%nat (rest ++ new)) with (tsum (rest ++ new)).
      change (fold_right (fun tk1 s => (S (ndesc (t_path tk1)) + s)%nat) 0%nat (tk0 :: rest0)) with (tsum (tk0 :: rest0)).
      rewrite (tsum_perm _ _ Hperm), tsum_app.
      rewrite (step_nofollow _ _ _ _ _ vis tk Ef) in Es. injection Es as <- _ _.
      pose proof (news0_tsum tk Ef). cbn [tsum fold_right]. fold (tsum rest). lia.
  Qed.

  (* with enough fuel the walk never stops for lack of fuel — whatever the tree (cycles included),
     the configuration and the scheduler *)
  Lemma run_terminates f : forall pending vis out,
    (potential pending vis < f)%nat -> exists l, run f pending vis out = Done l.
  Proof.
    induction f as [|f IH]; intros pending vis out Hlt; [lia|].
    destruct pending as [|tk0 rest0]; [eexists; reflexivity|].
    cbn [WalkModel.run].
    destruct (pick sched tk0 rest0 vis) as [tk rest] eqn:Ep.
    destruct (step vis tk) as [[new vis'] o] eqn:Es.
    apply IH. pose proof (potential_step _ _ _ _ _ _ _ _ Ep Es). lia.
  Qed.

  Lemma walk_terminates roots : exists l, walk sel_file sel_dir ign1 t c sched roots = Done l.
  Proof. unfold walk, walk_bound. apply run_terminates. lia. Qed.
End Run.
