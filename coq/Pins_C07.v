(* Pins_C07.v — the statements of Props_C07.v, pinned: weakening a theorem there breaks this file. *)
From FV Require Import Base ReadOnlyModel ReadOnlyProofs Props_C07.
Check C07_transform_paths : forall fails toks in_place no_copy files c,
  In (Call c) (transform_events fails toks in_place no_copy files) ->
  mutating c = true -> class (target c) = Tmp.
Check C07_transform_paths_16 : forall has_in has_out in_place no_copy (fs : option stage),
  let toks := cmd_of has_in has_out in
  let fails := fail_at fs in
  let evs := group_run fails (mkG (Some toks) in_place no_copy false false) [mkFE false fails] in
  (forall c, In (Call c) evs -> mutating c = true -> class (target c) = Tmp) /\
  (handed_orig evs = true -> has_in = true /\ no_copy = true) /\
  (fs = None -> handed_orig evs = (has_in && no_copy)%bool).
Check C07_mode_table : mode_table =
  [ ROk false (InStdIn (POrig 0)) OutStdOut [];
    ROk false (InStdIn (POrig 0)) OutStdOut [];
    RErr EInRequired;
    RErr EInRequired;
    ROk false (InStdIn (POrig 0)) (OutNamed (PTmpOut 0))
        [CMkfifo (PTmpOut 0); COpenW (PTmpOut 0); CRemoveFile (PTmpOut 0)];
    ROk false (InStdIn (POrig 0)) (OutNamed (PTmpOut 0))
        [CMkfifo (PTmpOut 0); COpenW (PTmpOut 0); CRemoveFile (PTmpOut 0)];
    RErr EInRequired;
    RErr EInRequired;
    ROk true (InCopied (POrig 0) (PTmpIn 0 0)) OutStdOut
        [CCopy (POrig 0) (PTmpIn 0 0); CRemoveFile (PTmpIn 0 0)];
    ROk false (InNamed (POrig 0)) OutStdOut [];
    ROk true (InCopied (POrig 0) (PTmpIn 0 0)) (OutInPlace (PTmpIn 0 0))
        [CCopy (POrig 0) (PTmpIn 0 0); CRemoveFile (PTmpIn 0 0)];
    ROk false (InNamed (POrig 0)) (OutInPlace (POrig 0)) [];
    ROk true (InCopied (POrig 0) (PTmpIn 0 0)) (OutNamed (PTmpOut 0))
        [CCopy (POrig 0) (PTmpIn 0 0); CMkfifo (PTmpOut 0); COpenW (PTmpOut 0);
         CRemoveFile (PTmpIn 0 0); CRemoveFile (PTmpOut 0)];
    ROk false (InNamed (POrig 0)) (OutNamed (PTmpOut 0))
        [CMkfifo (PTmpOut 0); COpenW (PTmpOut 0); CRemoveFile (PTmpOut 0)];
    ROk true (InCopied (POrig 0) (PTmpIn 0 0)) (OutInPlace (PTmpIn 0 0))
        [CRemoveFile (PTmpOut 0); CCopy (POrig 0) (PTmpIn 0 0); CRemoveFile (PTmpIn 0 0)];
    ROk false (InNamed (POrig 0)) (OutInPlace (POrig 0)) [CRemoveFile (PTmpOut 0)] ].
Check C07_group_paths : forall fails g files c,
  In (Call c) (group_run fails g files) -> mutating c = true ->
  class (target c) = Tmp \/
  (g_cache g = true /\ class (target c) = CacheDir) \/
  (g_output g = true /\ class (target c) = OutFile).
Check C07_group_never_writes_scanned_file : forall fails g files c,
  In (Call c) (group_run fails g files) -> mutating c = true -> class (target c) <> Orig.
Check C07_no_copy_exception : forall fails0 toks in_place no_copy evs0 t,
  build_transform fails0 toks in_place no_copy = (evs0, Ok t) ->
  forall f fails args sin, In (Spawn args sin) (run_file t f toks fails) ->
  (In (SPath (POrig f)) args <-> existsb is_in toks = true /\ no_copy = true) /\
  (forall p, In (SPath p) args -> p = POrig f \/ class p = Tmp) /\
  (sin = StdinNull \/ (sin = StdinFile (POrig f) /\ existsb is_in toks = false)).
Check C07_dry_run_pure : forall script output,
  printed (run_dedupe true output script) = log_script script /\
  (forall c, In (Call c) (d_events (run_dedupe true output script)) -> output = true /\ c = CCreate POutFile) /\
  (forall args sin, ~ In (Spawn args sin) (d_events (run_dedupe true output script))).
Check C07_tmp_cleaned : forall fails g files,
  fails SMkTmp = false -> exec_events true (group_run fails g files) [] = [].
Check C07_tmp_dir_failure_aborts : forall fails g toks files,
  g_transform g = Some toks -> fails SMkTmp = true ->
  (exists e, snd (build_transform fails toks (g_in_place g) (g_no_copy g)) = Err e) /\
  (forall c, In (Call c) (group_run fails g files) ->
     c = CMkdirAll PTmpDir \/ (g_output g = true /\ c = CCreate POutFile)) /\
  (forall args sin, In (Spawn args sin) (group_run fails g files) -> args = [] /\ sin = StdinNull).
Check C07_tmp_cleaned_per_file : forall t f toks fails,
  exec_events false (run_file t f toks fails) [] = [].
