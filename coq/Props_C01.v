(* Props_C01.v — property C01: every reported group contains only files with byte-identical content
   (identical transform output under --transform) and the printed length is that length.
   Statements only; proofs are `exact <lemma of GroupProofs2 / GroupWitness>`.
   Quantification: every hash function H (collision-free on the final keys of the contents present —
   an explicit hypothesis), every transform T, every configuration c (prefix / suffix sizes, device
   kinds, replication mode, roots, --match-links; --skip-content-hash excluded as in the property),
   every nondeterminism record n (processing order per device = runs and representatives, arrival
   order, AND every read-fault pattern `fails`), every scanned file table with
   wf_ids (one inode = one content and length) and wf_len (flen = length of the content). *)
From FV Require Import Base ListLib GroupModel GroupProofs GroupProofs2 GroupWitness.
Open Scope N_scope.

(* (K11, found by this development and repaired by f4a00ae: the suffix stage is now skipped when the suffix would
   cover the whole file; `k11_regression` in GroupWitness.v is the former counterexample.) *)
Theorem C01_sound :
  forall (H : list N -> hash) (T : list N -> option (list N)) (c : gcfg) (n : nd) (scanned : list file),
    wf_nd n -> wf_ids scanned -> wf_len scanned -> collision_free H c scanned ->
    skip_content c = false -> transform c = false ->
    forall g, In g (group_files H T c n scanned) ->
    forall f f', In f (gfiles g) -> In f' (gfiles g) ->
      fdata f = fdata f' /\ glen g = N.of_nat (length (fdata f)).
Proof. exact c01_sound. Qed.
Print Assumptions C01_sound.

(* --transform: all members of a group have the same transform output, and the printed length is its
   length (the whole stream is hashed, F4/F5 repaired). *)
Theorem C01_transform :
  forall (H : list N -> hash) (T : list N -> option (list N)) (c : gcfg) (n : nd) (scanned : list file),
    wf_nd n -> wf_ids scanned -> collision_free_T H T scanned -> transform c = true ->
    forall g, In g (group_files H T c n scanned) ->
    forall f f', In f (gfiles g) -> In f' (gfiles g) ->
      exists out, T (fdata f) = Some out /\ T (fdata f') = Some out /\ glen g = N.of_nat (length out).
Proof. exact c01_transform. Qed.
Print Assumptions C01_transform.

(* Non-vacuity: the hypotheses are satisfiable by a table whose report is not empty — two equal 6-byte
   files and two hard links of a file that differs in the last byte only (prefix length 4): the
   contents stage separates them, the hard-linked pair is one replica and is dropped. *)
Example C01_hypotheses_inhabited :
  wf_nd (nd_of_mode 0) /\ wf_ids ex_files /\ wf_len ex_files /\ collision_free toyH ex_cfg ex_files /\
  shows (group_files toyH idT ex_cfg (nd_of_mode 0) ex_files) = [(6, [[[47]; [97]]; [[47]; [98]]])].
Proof.
  split; [exact wf_nd_mode0|]. split; [exact (wf_ids_b_sound _ ex_ids)|]. split; [exact (wf_len_b_sound _ ex_len)|].
  split; [exact (cf_b_sound _ _ _ ex_cf)|exact ex_output].
Qed.
Example C01_transform_inhabited :
  collision_free_T toyH head5 ex_files /\
  shows (group_files toyH head5 ex_cfgT (nd_of_mode 0) ex_files)
  = [(5, [[[47]; [97]]; [[47]; [98]]; [[47]; [99]]; [[47]; [100]]])].
Proof. split; [exact (cfT_b_sound _ _ _ ex_cfT)|exact ex_outputT]. Qed.

(* regression instance of K11: two pairs of 65536-byte files, SSD, --max-prefix-size = --max-suffix-size = 70000
   (every hypothesis of C01_sound holds): two groups, not one *)
Example C01_K11_regression :
  wf_ids k11_files /\ wf_len k11_files /\ collision_free toyH k11_cfg k11_files /\
  shows (group_files toyH idT k11_cfg (nd_of_mode 0) k11_files)
  = [(65536, [[[47]; [99]]; [[47]; [100]]]); (65536, [[[47]; [97]]; [[47]; [98]]])].
Proof.
  split; [exact (wf_ids_b_sound _ k11_ids)|]. split; [exact (wf_len_b_sound _ k11_len)|].
  split; [exact (cf_b_sound _ _ _ k11_cf)|exact k11_regression].
Qed.
