(* GroupProofs4.v — engine G, part 4: the replica-counting rule spelled out (C06_count and its
   corollaries) and the remaining witnesses of the known findings K10 / K11 for C03 and C06. *)
From FV Require Import Base ListLib GroupModel GroupProofs GroupProofs2 GroupProofs3 GroupWitness.
From Coq Require Import Permutation.
Open Scope N_scope.

(* ------------------------------------------------------------------ the counting rule *)
Lemma is_prefix_of_spec r p : is_prefix_of r p = true <-> exists q, p = r ++ q.
Proof.
  revert p. induction r as [|a r IH]; intros p; cbn [is_prefix_of].
  - split; [intros _; exists p; reflexivity|auto].
  - destruct p as [|b p].
    + split; [discriminate|]. intros (q & E). discriminate.
    + rewrite andb_true_iff, bytes_eqb_spec, IH. split.
      * intros [-> (q & ->)]. exists q. reflexivity.
      * intros (q & E). inversion E; subst. eauto.
Qed.

Lemma no_root_iff rs f : no_root rs f = true <-> forall r, In r rs -> is_prefix_of r (fpath f) = false.
Proof.
  unfold no_root, first_root. split.
  - destruct (first_root_from 0 rs (fpath f)) eqn:E; [discriminate|]. intros _. eapply first_root_none; eauto.
  - intros Hall. destruct (first_root_from 0 rs (fpath f)) as [j|] eqn:E; auto.
    apply first_root_from_spec in E. destruct E as (r & Hn & Hp & _).
    rewrite (Hall r) in Hp; [discriminate|]. eapply nth_error_In; eauto.
Qed.

Lemma c06_count c fs :
  subgroup_count c fs = N.of_nat (roots_hit (roots c) fs + rest_count (roots c) (by_id c) fs).
Proof. unfold subgroup_count. rewrite subgroups_length. reflexivity. Qed.

Lemma c06_rest_by_id rs fs : distinct_ids (filter (no_root rs) fs) (rest_count rs true fs).
Proof. apply distinct_ids_uniq. Qed.

Lemma filter_true {A} (l : list A) : filter (fun _ => true) l = l.
Proof. apply filter_all_true. auto. Qed.

Lemma roots_hit_nil fs : roots_hit [] fs = 0%nat. Proof. reflexivity. Qed.
Lemma rest_nil fs : filter (no_root []) fs = fs.
Proof. apply filter_all_true. intros; reflexivity. Qed.

Lemma roots_hit_le rs fs : (roots_hit rs fs <= length rs)%nat.
Proof. unfold roots_hit. etransitivity; [apply filter_length_le|]. rewrite seq_length. auto. Qed.

(* hard links (and file symlinks under -S: FileInfo ids come from stat) are one replica *)
Lemma c06_links_one_replica c fs : roots c = [] -> by_id c = true -> fs <> [] -> one_id fs -> subgroup_count c fs = 1.
Proof.
  intros Hr Hb Hne Ho. rewrite c06_count, Hr, Hb, roots_hit_nil. unfold rest_count. rewrite rest_nil.
  destruct fs as [|f fs]; [congruence|].
  assert (Hd : distinct_ids (f :: fs) 1%nat).
  { exists [fid f]. split; [constructor; [intros []|constructor]|]. split; auto.
    intros i. split.
    - intros [<-|[]]. exists f. split; [left|]; auto.
    - intros (x & Hx & <-). left. apply Ho; [left|]; auto. }
  rewrite (distinct_ids_fun _ _ _ (distinct_ids_uniq (f :: fs)) Hd). reflexivity.
Qed.

(* --match-links counts every path *)
Lemma c06_match_links_counts_paths c fs : roots c = [] -> by_id c = false ->
  subgroup_count c fs = N.of_nat (length fs).
Proof. intros Hr Hb. rewrite c06_count, Hr, Hb, roots_hit_nil. unfold rest_count. rewrite rest_nil. reflexivity. Qed.

(* --isolate: at most one replica per input root *)
Lemma c06_isolate_bound c fs : (forall f, In f fs -> no_root (roots c) f = false) ->
  subgroup_count c fs <= N.of_nat (length (roots c)).
Proof.
  intros Hall. rewrite c06_count.
  assert (E : filter (no_root (roots c)) fs = []) by (apply filter_all_false; auto).
  unfold rest_count. rewrite E. pose proof (roots_hit_le (roots c) fs).
  destruct (by_id c); cbn [uniq_by length]; lia.
Qed.

(* ------------------------------------------------------------------ witnesses *)
Definition K10 (c : gcfg) : Prop := transform c = true /\ exists k, repl c = Under k.

(* K10: --transform --unique, two copies: the pair is reported although its replica count is 2 *)
Definition k10_cfg : gcfg := mkcfg None None (fun _ => SSD) (Under 2) [] true false true 0 None.
Definition k10_files : list file := [mkf 97 1 3 [1;2;3]; mkf 98 2 3 [1;2;3]].
Definition has_nonmatching (c : gcfg) (gs : list group) : bool := existsb (fun g => negb (matches_strictly c g)) gs.
Lemma k10_ids : wf_ids_b k10_files = true. Proof. vm_compute. reflexivity. Qed.
Lemma k10_len : wf_len_b k10_files = true. Proof. vm_compute. reflexivity. Qed.
Lemma k10_cfT : cfT_b toyH idT k10_files = true. Proof. vm_compute. reflexivity. Qed.
Lemma k10_bad : has_nonmatching k10_cfg (group_files toyH idT k10_cfg (nd_of_mode 0) k10_files) = true.
Proof. vm_compute. reflexivity. Qed.

Lemma k10_witness :
  exists (H : list N -> hash) (T : list N -> option (list N)) (c : gcfg) (n : nd) (scanned : list file),
    wf_nd n /\ (forall st f, fails n st f = false) /\ wf_ids scanned /\ wf_len scanned /\
    collision_free_T H T scanned /\ K10 c /\
    exists g, In g (group_files H T c n scanned) /\ matches_strictly c g = false.
Proof.
  exists toyH, idT, k10_cfg, (nd_of_mode 0), k10_files.
  split; [exact wf_nd_mode0|]. split; [reflexivity|]. split; [exact (wf_ids_b_sound _ k10_ids)|].
  split; [exact (wf_len_b_sound _ k10_len)|]. split; [exact (cfT_b_sound _ _ _ k10_cfT)|].
  split; [split; [reflexivity|exists 2; reflexivity]|].
  pose proof k10_bad as Hb. unfold has_nonmatching in Hb. apply existsb_exists in Hb.
  destruct Hb as (g & Hg & Hn). exists g. split; [exact Hg|]. apply negb_true_iff. exact Hn.
Qed.

(* K11 for C06: the merged group is not the content class of its members *)
Lemma k11_witness_c06 :
  exists (H : list N -> hash) (T : list N -> option (list N)) (c : gcfg) (n : nd) (scanned : list file),
    wf_nd n /\ (forall st f, fails n st f = false) /\ wf_ids scanned /\ wf_len scanned /\ collision_free H c scanned /\
    skip_content c = false /\ transform c = false /\ K11 c scanned /\
    exists g f, In g (group_files H T c n scanned) /\ In f (gfiles g) /\ ~ is_class c scanned f (gfiles g).
Proof.
  exists toyH, idT, k11_cfg, (nd_of_mode 0), k11_files.
  split; [exact wf_nd_mode0|]. split; [reflexivity|]. split; [exact (wf_ids_b_sound _ k11_ids)|].
  split; [exact (wf_len_b_sound _ k11_len)|]. split; [exact (cf_b_sound _ _ _ k11_cf)|].
  split; [reflexivity|]. split; [reflexivity|]. split; [exact (K11_b_sound _ _ k11_k)|].
  destruct (has_mixed_group_spec _ k11_mixed) as (g & f & f' & Hg & Hf & Hf' & Hne).
  exists g, f. split; [exact Hg|]. split; [exact Hf|]. intros [_ Hcl]. apply Hne. symmetry.
  exact (proj2 (proj1 (Hcl f') Hf')).
Qed.

(* K11 for C03: with --rf-under 3 the two pairs qualify (2 replicas each) but the merged group of 4 does not
   pass the final filter: a qualifying class is dropped *)
Definition k11_cfg_under : gcfg :=
  mkcfg (Some 70000) (Some 70000) (fun _ => SSD) (Under 3) [] true false false 0 None.
Definition paths_distinct_b (fs : list file) : bool :=
  forallb (fun f => Nat.eqb (length (filter (same_path f) fs)) 1) fs.
Definition class_list (c : gcfg) (fs : list file) (f : file) : list file :=
  filter (fun x => size_ok c x && bytes_eqb (fdata x) (fdata f)) fs.

Lemma paths_distinct_b_sound fs : paths_distinct_b fs = true -> NoDup fs /\ wf_paths fs.
Proof.
  unfold paths_distinct_b. intros Hb. rewrite forallb_forall in Hb.
  assert (Huniq : forall f f', In f fs -> In f' fs -> fpath f = fpath f' -> f = f' /\ True).
  { intros f f' Hf Hf' E. specialize (Hb f Hf). apply Nat.eqb_eq in Hb.
    assert (H1 : In f (filter (same_path f) fs)) by (apply filter_In; split; auto; apply same_path_refl).
    assert (H2 : In f' (filter (same_path f) fs)) by (apply filter_In; split; auto; apply same_path_spec; auto).
    destruct (filter (same_path f) fs) as [|a [|b l]]; cbn [length] in Hb; try discriminate.
    destruct H1 as [<-|[]]. destruct H2 as [<-|[]]. auto. }
  split.
  - clear Huniq. induction fs as [|a fs IH]; constructor.
    + intros Hin. specialize (Hb a (or_introl eq_refl)). cbn [filter] in Hb. rewrite same_path_refl in Hb.
      cbn [length] in Hb. apply Nat.eqb_eq in Hb. inversion Hb as [Hl].
      assert (Ha : In a (filter (same_path a) fs)) by (apply filter_In; split; auto; apply same_path_refl).
      destruct (filter (same_path a) fs); [destruct Ha|discriminate].
    + apply IH. intros f Hf. specialize (Hb f (or_intror Hf)). cbn [filter] in Hb.
      destruct (same_path f a) eqn:E; auto. cbn [length] in Hb. apply Nat.eqb_eq in Hb. inversion Hb as [Hl].
      assert (Hf' : In f (filter (same_path f) fs)) by (apply filter_In; split; auto; apply same_path_refl).
      destruct (filter (same_path f) fs); [destruct Hf'|discriminate].
  - intros f f' Hf Hf' E. apply Huniq; auto.
Qed.

Lemma class_list_is_class c fs f : NoDup fs -> is_class c fs f (class_list c fs f).
Proof.
  intros Hnd. split; [apply NoDup_filter'; auto|].
  intros x. unfold class_list, ok. rewrite filter_In, andb_true_iff, bytes_eqb_spec. tauto.
Qed.

Lemma k11u_paths : paths_distinct_b k11_files = true. Proof. vm_compute. reflexivity. Qed.
Lemma k11u_cf : cf_b toyH k11_cfg_under k11_files = true. Proof. vm_compute. reflexivity. Qed.
Lemma k11u_k : K11_b k11_cfg_under k11_files = true. Proof. vm_compute. reflexivity. Qed.
Lemma k11u_qual : matches_strictly k11_cfg_under
                    (mkgroup 0 [] (class_list k11_cfg_under k11_files (mkf 97 1 65536 k11_d1))) = true.
Proof. vm_compute. reflexivity. Qed.
Lemma k11u_out : group_files toyH idT k11_cfg_under (nd_of_mode 0) k11_files = [].
Proof. vm_compute. reflexivity. Qed.

Lemma k11_witness_c03 :
  exists (H : list N -> hash) (T : list N -> option (list N)) (c : gcfg) (n : nd) (scanned : list file),
    wf_nd n /\ (forall st f, fails n st f = false) /\ wf_ids scanned /\ wf_len scanned /\ wf_paths scanned /\
    collision_free H c scanned /\ skip_content c = false /\ transform c = false /\ K11 c scanned /\
    exists f, ok c scanned f /\ qualifies c scanned f /\ ~ exists g, In g (group_files H T c n scanned) /\ In f (gfiles g).
Proof.
  destruct (paths_distinct_b_sound _ k11u_paths) as [Hnd Hwp].
  exists toyH, idT, k11_cfg_under, (nd_of_mode 0), k11_files.
  split; [exact wf_nd_mode0|]. split; [reflexivity|]. split; [exact (wf_ids_b_sound _ k11_ids)|].
  split; [exact (wf_len_b_sound _ k11_len)|]. split; [exact Hwp|]. split; [exact (cf_b_sound _ _ _ k11u_cf)|].
  split; [reflexivity|]. split; [reflexivity|]. split; [exact (K11_b_sound _ _ k11u_k)|].
  exists (mkf 97 1 65536 k11_d1). split; [split; [left; reflexivity|reflexivity]|]. split.
  - exists (class_list k11_cfg_under k11_files (mkf 97 1 65536 k11_d1)).
    split; [exact (class_list_is_class _ _ _ Hnd)|exact k11u_qual].
  - rewrite k11u_out. intros (g & [] & _).
Qed.
