(* GroupProofs4.v — engine G, part 4: the replica-counting rule spelled out (C06_count and its
   corollaries), checkers for class / path hypotheses, regression instance of K10 (repaired by e6af885). *)
From FV Require Import Base ListLib GroupModel GroupProofs GroupProofs2 GroupProofs3 GroupWitness.
From Coq Require Import Permutation.
Open Scope N_scope.

(* ------------------------------------------------------------------ the counting rule *)
Lemma is_prefix_of_spec r p : is_prefix_of r p = true <-> exists q, p = r ++ q.
Proof.
  revert p. induction r as [|a r IH]; intros p; cbn [is_prefix_of].
  - split; [intros _; exists p; reflexivity|auto].
  - destruct p as [|b p].
    + split; [discriminate|]. intros (q & E). discriminate.
    + rewrite andb_true_iff, bytes_eqb_spec, IH. split.
      * intros [-> (q & ->)]. exists q. reflexivity.
      * intros (q & E). inversion E; subst. eauto.
Qed.

Lemma no_root_iff rs f : no_root rs f = true <-> forall r, In r rs -> is_prefix_of r (fpath f) = false.
Proof.
  unfold no_root, first_root. split.
  - destruct (first_root_from 0 rs (fpath f)) eqn:E; [discriminate|]. intros _. eapply first_root_none; eauto.
  - intros Hall. destruct (first_root_from 0 rs (fpath f)) as [j|] eqn:E; auto.
    apply first_root_from_spec in E. destruct E as (r & Hn & Hp & _).
    rewrite (Hall r) in Hp; [discriminate|]. eapply nth_error_In; eauto.
Qed.

Lemma c06_count c fs :
  subgroup_count c fs = N.of_nat (roots_hit (roots c) fs + rest_count (roots c) (by_id c) fs).
Proof. unfold subgroup_count. rewrite subgroups_length. reflexivity. Qed.

Lemma c06_rest_by_id rs fs : distinct_ids (filter (no_root rs) fs) (rest_count rs true fs).
Proof. apply distinct_ids_uniq. Qed.

Lemma filter_true {A} (l : list A) : filter (fun _ => true) l = l.
Proof. apply filter_all_true. auto. Qed.

Lemma roots_hit_nil fs : roots_hit [] fs = 0%nat. Proof. reflexivity. Qed.
Lemma rest_nil fs : filter (no_root []) fs = fs.
Proof. apply filter_all_true. intros; reflexivity. Qed.

Lemma roots_hit_le rs fs : (roots_hit rs fs <= length rs)%nat.
Proof. unfold roots_hit. etransitivity; [apply filter_length_le|]. rewrite seq_length. auto. Qed.

(* hard links (and file symlinks under -S: FileInfo ids come from stat) are one replica *)
Lemma c06_links_one_replica c fs : roots c = [] -> by_id c = true -> fs <> [] -> one_id fs -> subgroup_count c fs = 1.
Proof.
  intros Hr Hb Hne Ho. rewrite c06_count, Hr, Hb, roots_hit_nil. unfold rest_count. rewrite rest_nil.
  destruct fs as [|f fs]; [congruence|].
  assert (Hd : distinct_ids (f :: fs) 1%nat).
  { exists [fid f]. split; [constructor; [intros []|constructor]|]. split; auto.
    intros i. split.
    - intros [<-|[]]. exists f. split; [left|]; auto.
    - intros (x & Hx & <-). left. apply Ho; [left|]; auto. }
  rewrite (distinct_ids_fun _ _ _ (distinct_ids_uniq (f :: fs)) Hd). reflexivity.
Qed.

(* --match-links counts every path *)
Lemma c06_match_links_counts_paths c fs : roots c = [] -> by_id c = false ->
  subgroup_count c fs = N.of_nat (length fs).
Proof. intros Hr Hb. rewrite c06_count, Hr, Hb, roots_hit_nil. unfold rest_count. rewrite rest_nil. reflexivity. Qed.

(* --isolate: at most one replica per input root *)
Lemma c06_isolate_bound c fs : (forall f, In f fs -> no_root (roots c) f = false) ->
  subgroup_count c fs <= N.of_nat (length (roots c)).
Proof.
  intros Hall. rewrite c06_count.
  assert (E : filter (no_root (roots c)) fs = []) by (apply filter_all_false; auto).
  unfold rest_count. rewrite E. pose proof (roots_hit_le (roots c) fs).
  destruct (by_id c); cbn [uniq_by length]; lia.
Qed.

(* ------------------------------------------------------------------ checkers, regression instance of K10 *)
Definition paths_distinct_b (fs : list file) : bool :=
  forallb (fun f => Nat.eqb (length (filter (same_path f) fs)) 1) fs.
Definition class_list (c : gcfg) (fs : list file) (f : file) : list file :=
  filter (fun x => size_ok c x && bytes_eqb (fdata x) (fdata f)) fs.

Lemma paths_distinct_b_sound fs : paths_distinct_b fs = true -> NoDup fs /\ wf_paths fs.
Proof.
  unfold paths_distinct_b. intros Hb. rewrite forallb_forall in Hb.
  assert (Huniq : forall f f', In f fs -> In f' fs -> fpath f = fpath f' -> f = f' /\ True).
  { intros f f' Hf Hf' E. specialize (Hb f Hf). apply Nat.eqb_eq in Hb.
    assert (H1 : In f (filter (same_path f) fs)) by (apply filter_In; split; auto; apply same_path_refl).
    assert (H2 : In f' (filter (same_path f) fs)) by (apply filter_In; split; auto; apply same_path_spec; auto).
    destruct (filter (same_path f) fs) as [|a [|b l]]; cbn [length] in Hb; try discriminate.
    destruct H1 as [<-|[]]. destruct H2 as [<-|[]]. auto. }
  split.
  - clear Huniq. induction fs as [|a fs IH]; constructor.
    + intros Hin. specialize (Hb a (or_introl eq_refl)). cbn [filter] in Hb. rewrite same_path_refl in Hb.
      cbn [length] in Hb. apply Nat.eqb_eq in Hb. inversion Hb as [Hl].
      assert (Ha : In a (filter (same_path a) fs)) by (apply filter_In; split; auto; apply same_path_refl).
      destruct (filter (same_path a) fs); [destruct Ha|discriminate].
    + apply IH. intros f Hf. specialize (Hb f (or_intror Hf)). cbn [filter] in Hb.
      destruct (same_path f a) eqn:E; auto. cbn [length] in Hb. apply Nat.eqb_eq in Hb. inversion Hb as [Hl].
      assert (Hf' : In f (filter (same_path f) fs)) by (apply filter_In; split; auto; apply same_path_refl).
      destruct (filter (same_path f) fs); [destruct Hf'|discriminate].
  - intros f f' Hf Hf' E. apply Huniq; auto.
Qed.

Lemma class_list_is_class c fs f : NoDup fs -> is_class c fs f (class_list c fs f).
Proof.
  intros Hnd. split; [apply NoDup_filter'; auto|].
  intros x. unfold class_list, ok. rewrite filter_In, andb_true_iff, bytes_eqb_spec. tauto.
Qed.

(* --transform --unique on two copies: before e6af885 the pair was reported although its replica count is 2 *)
Definition k10_cfg : gcfg := mkcfg None None (fun _ => SSD) (Under 2) [] true false true 0 None.
Definition k10_files : list file := [mkf 97 1 3 [1;2;3]; mkf 98 2 3 [1;2;3]; mkf 99 3 3 [1;2;4]].
Lemma k10_regression : shows (group_files toyH idT k10_cfg (nd_of_mode 0) k10_files) = [(3, [[[47]; [99]]])].
Proof. vm_compute. reflexivity. Qed.
