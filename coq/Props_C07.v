(* Props_C07.v — property C07: `group` and `--dry-run` never modify the scanned tree.
   Statements only; every proof is `exact <lemma of ReadOnlyProofs>`.

   What is quantified: every command string (as its token sequence: any number of $IN / $OUT / other
   variables in any order — this strictly contains the 16 combinations of ($IN?, $OUT?, --in-place,
   --no-copy)), every flag combination, every list of scanned files, every cache state (hit / miss per
   file), and every pattern of failing steps ([fails : stage -> bool]: probe spawn, create_dir_all,
   copy, open, mkfifo, spawn, wait).  What is NOT in the model: what the external program does with the
   paths it is handed (C07_no_copy_exception says exactly which paths these are) and atime. *)
From FV Require Import Base ReadOnlyModel ReadOnlyProofs.

(* Every mutating file-system call fclones itself issues on behalf of --transform (Transform::new,
   make_args and the Drops of replaced handles, build_command, execute, Drop of Input / Output /
   Transform) targets a path under the per-run temp dir. *)
Theorem C07_transform_paths : forall fails toks in_place no_copy files c,
  In (Call c) (transform_events fails toks in_place no_copy files) ->
  mutating c = true -> class (target c) = Tmp.
Proof. exact transform_paths. Qed.
Print Assumptions C07_transform_paths.

(* The same for the 16 combinations x {no failure, failure at each single step}, by exhaustive
   evaluation (sweep_ok = true by vm_compute, lifted with forallb_forall); bound: 16 x 9 runs of one
   file with the canonical command `prog [$IN] [$OUT]`. *)
Theorem C07_transform_paths_16 : forall has_in has_out in_place no_copy (fs : option stage),
  let toks := cmd_of has_in has_out in
  let fails := fail_at fs in
  let evs := group_run fails (mkG (Some toks) in_place no_copy false false) [mkFE false fails] in
  (forall c, In (Call c) evs -> mutating c = true -> class (target c) = Tmp) /\
  (handed_orig evs = true -> has_in = true /\ no_copy = true) /\
  (fs = None -> handed_orig evs = (has_in && no_copy)%bool).
Proof. exact sixteen_modes. Qed.
Print Assumptions C07_transform_paths_16.

(* The plan table itself (order: has_in, has_out, in_place, no_copy, each false then true), the one the
   correspondence check compares with Transform::new + verif::plan() of the implementation. *)
Theorem C07_mode_table : mode_table =
  [ ROk false (InStdIn (POrig 0)) OutStdOut [];
    ROk false (InStdIn (POrig 0)) OutStdOut [];
    RErr EInRequired;
    RErr EInRequired;
    ROk false (InStdIn (POrig 0)) (OutNamed (PTmpOut 0))
        [CMkfifo (PTmpOut 0); COpenW (PTmpOut 0); CRemoveFile (PTmpOut 0)];
    ROk false (InStdIn (POrig 0)) (OutNamed (PTmpOut 0))
        [CMkfifo (PTmpOut 0); COpenW (PTmpOut 0); CRemoveFile (PTmpOut 0)];
    RErr EInRequired;
    RErr EInRequired;
    ROk true (InCopied (POrig 0) (PTmpIn 0 0)) OutStdOut
        [CCopy (POrig 0) (PTmpIn 0 0); CRemoveFile (PTmpIn 0 0)];
    ROk false (InNamed (POrig 0)) OutStdOut [];
    ROk true (InCopied (POrig 0) (PTmpIn 0 0)) (OutInPlace (PTmpIn 0 0))
        [CCopy (POrig 0) (PTmpIn 0 0); CRemoveFile (PTmpIn 0 0)];
    ROk false (InNamed (POrig 0)) (OutInPlace (POrig 0)) [];
    ROk true (InCopied (POrig 0) (PTmpIn 0 0)) (OutNamed (PTmpOut 0))
        [CCopy (POrig 0) (PTmpIn 0 0); CMkfifo (PTmpOut 0); COpenW (PTmpOut 0);
         CRemoveFile (PTmpIn 0 0); CRemoveFile (PTmpOut 0)];
    ROk false (InNamed (POrig 0)) (OutNamed (PTmpOut 0))
        [CMkfifo (PTmpOut 0); COpenW (PTmpOut 0); CRemoveFile (PTmpOut 0)];
    ROk true (InCopied (POrig 0) (PTmpIn 0 0)) (OutInPlace (PTmpIn 0 0))
        [CRemoveFile (PTmpOut 0); CCopy (POrig 0) (PTmpIn 0 0); CRemoveFile (PTmpIn 0 0)];
    ROk false (InNamed (POrig 0)) (OutInPlace (POrig 0)) [CRemoveFile (PTmpOut 0)] ].
Proof. exact mode_table_eq. Qed.
Print Assumptions C07_mode_table.

(* `fclones group` as a whole (with or without transform, cache, -o): a mutating call goes to the temp
   dir, to the cache dir (only with --cache) or to the -o file (only with -o) — never to a scanned file. *)
Theorem C07_group_paths : forall fails g files c,
  In (Call c) (group_run fails g files) -> mutating c = true ->
  class (target c) = Tmp \/
  (g_cache g = true /\ class (target c) = CacheDir) \/
  (g_output g = true /\ class (target c) = OutFile).
Proof. exact group_run_classes. Qed.
Print Assumptions C07_group_paths.

Theorem C07_group_never_writes_scanned_file : forall fails g files c,
  In (Call c) (group_run fails g files) -> mutating c = true -> class (target c) <> Orig.
Proof. exact group_never_orig. Qed.
Print Assumptions C07_group_never_writes_scanned_file.

(* The documented exception, exactly: the external program receives the path of the scanned file as an
   argument iff the command contains $IN and --no-copy is given; every other path argument is under the
   temp dir; otherwise the only access to the original it gets is a read-only descriptor on stdin
   (and only when there is no $IN). *)
Theorem C07_no_copy_exception : forall fails0 toks in_place no_copy evs0 t,
  build_transform fails0 toks in_place no_copy = (evs0, Ok t) ->
  forall f fails args sin, In (Spawn args sin) (run_file t f toks fails) ->
  (In (SPath (POrig f)) args <-> existsb is_in toks = true /\ no_copy = true) /\
  (forall p, In (SPath p) args -> p = POrig f \/ class p = Tmp) /\
  (sin = StdinNull \/ (sin = StdinFile (POrig f) /\ existsb is_in toks = false)).
Proof. exact no_copy_exception. Qed.
Print Assumptions C07_no_copy_exception.

(* --dry-run: main.rs takes the log_script branch: the output is a function of the script alone, no
   external program is started and the only file-system call is the creation of the -o file.
   (Trivial in the model — the model of log_script has no way to issue a call; the weight of this
   clause is on the correspondence check, which traces the real binary.) *)
Theorem C07_dry_run_pure : forall script output,
  printed (run_dedupe true output script) = log_script script /\
  (forall c, In (Call c) (d_events (run_dedupe true output script)) -> output = true /\ c = CCreate POutFile) /\
  (forall args sin, ~ In (Spawn args sin) (d_events (run_dedupe true output script))).
Proof. exact dry_run_pure. Qed.
Print Assumptions C07_dry_run_pure.

(* After `group`, in every mode and under every failure pattern (except a create_dir_all of the temp dir
   that fails half-way), no temp path is left, the temp dir included — even assuming the external program
   created a file at every temp path it was handed (prog = true). *)
Theorem C07_tmp_cleaned : forall fails g files,
  fails SMkTmp = false -> exec_events true (group_run fails g files) [] = [].
Proof. exact group_run_cleaned. Qed.
Print Assumptions C07_tmp_cleaned.

(* If the temp dir cannot be created (TMPDIR unusable), `group --transform` is rejected ("Invalid transform") and
   the only calls of the whole run are the failed create_dir_all itself, the probe of the program, and the -o file
   created up front: no copy, no pipe, no other location is tried, no file is processed. *)
Theorem C07_tmp_dir_failure_aborts : forall fails g toks files,
  g_transform g = Some toks -> fails SMkTmp = true ->
  (exists e, snd (build_transform fails toks (g_in_place g) (g_no_copy g)) = Err e) /\
  (forall c, In (Call c) (group_run fails g files) ->
     c = CMkdirAll PTmpDir \/ (g_output g = true /\ c = CCreate POutFile)) /\
  (forall args sin, In (Spawn args sin) (group_run fails g files) -> args = [] /\ sin = StdinNull).
Proof. exact tmp_dir_failure_aborts. Qed.
Print Assumptions C07_tmp_dir_failure_aborts.

(* Per file: whatever step fails, every temp file fclones itself created for the file (copy of the
   input, named pipe) has been removed again by the Drops of Input / Output when Transform::run's
   Execution is dropped — the temp dir does not grow with the number of files. *)
Theorem C07_tmp_cleaned_per_file : forall t f toks fails,
  exec_events false (run_file t f toks fails) [] = [].
Proof. exact run_file_balanced. Qed.
Print Assumptions C07_tmp_cleaned_per_file.

(* ---- non-vacuity ---------------------------------------------------------------------------- *)
(* `dd if=$IN of=$OUT` on two files, the second one failing at mkfifo: there are mutating calls *)
Example C07_paths_inhabited :
  mutating_calls (transform_events no_fail [TLit; TIn; TOut] false false
                    [mkFE false no_fail; mkFE false (fail_at (Some SMkfifo))]) =
  [CMkdirAll PTmpDir;
   CCopy (POrig 0) (PTmpIn 0 0); CMkfifo (PTmpOut 0); COpenW (PTmpOut 0);
   CRemoveFile (PTmpIn 0 0); CRemoveFile (PTmpOut 0);
   CCopy (POrig 1) (PTmpIn 1 0); CMkfifo (PTmpOut 1); CRemoveFile (PTmpOut 1); CRemoveFile (PTmpIn 1 0);
   CRemoveDirAll PTmpDir].
Proof. vm_compute. reflexivity. Qed.

(* `$IN` twice: two fresh names, the first handle is dropped before anything was copied *)
Example C07_in_twice :
  mutating_calls (run_file (mkT true false) 0 [TLit; TIn; TIn] no_fail) =
  [CRemoveFile (PTmpIn 0 0); CCopy (POrig 0) (PTmpIn 0 1); CRemoveFile (PTmpIn 0 1)].
Proof. vm_compute. reflexivity. Qed.

(* the exception is real: with --no-copy the program is handed the original *)
Example C07_exception_inhabited :
  exists evs0 t, build_transform no_fail [TLit; TIn] true true = (evs0, Ok t) /\
  In (Spawn [SLit; SPath (POrig 0)] StdinNull) (run_file t 0 [TLit; TIn] no_fail).
Proof. eexists; eexists; split; [vm_compute; reflexivity|vm_compute; tauto]. Qed.

(* on unix `--in-place` with `$OUT` is accepted (the validation notices $OUT only on windows) *)
Example C07_in_place_with_out_accepted :
  snd (build_transform no_fail [TLit; TIn; TOut] true false) = Ok (mkT true true).
Proof. vm_compute. reflexivity. Qed.

(* without --dry-run the same script does touch scanned files: C07_dry_run_pure is about a real branch *)
Example C07_real_run_touches : forall g cmds rest output, cmds <> [] ->
  exists c, In (Call c) (d_events (run_dedupe false output ((g, cmds) :: rest))) /\
            mutating c = true /\ class (target c) = Orig.
Proof. exact real_run_touches. Qed.

(* the temp dir is really created and removed in a transform run *)
Example C07_cleaned_inhabited :
  In (Call (CMkdirAll PTmpDir)) (group_run no_fail (mkG (Some [TLit; TIn]) false false true true) [mkFE false no_fail]) /\
  In (Call (CRemoveDirAll PTmpDir)) (group_run no_fail (mkG (Some [TLit; TIn]) false false true true) [mkFE false no_fail]).
Proof. eapply group_run_creates_tmp; vm_compute; reflexivity. Qed.

(* the temp-dir failure is reachable with an otherwise valid configuration *)
Example C07_tmp_dir_failure_inhabited :
  group_run (fail_at (Some SMkTmp)) (mkG (Some [TLit; TIn; TOut]) false false true true) [mkFE false no_fail] =
  [Call (CCreate POutFile); Spawn [] StdinNull; Call (CMkdirAll PTmpDir)].
Proof. vm_compute. reflexivity. Qed.
