(* GroupProofs2.v — engine G, part 2: what a group coming out of rehash is made of (soundness of
   regrouping), the stage invariants of the pipeline and C01 (groups contain only files with
   identical bytes / identical transform output; the printed length is that length). *)
From FV Require Import Base ListLib GroupModel GroupProofs.
From Coq Require Import Permutation.
Open Scope N_scope.

Definition wf_nd (n : nd) : Prop :=
  (forall st d l, Permutation (order n st d l) l) /\ (forall st l, Permutation (arrive n st l) l).

Definition wf_ids (fs : list file) : Prop :=
  forall f f', In f fs -> In f' fs -> fid f = fid f' -> fdata f = fdata f' /\ flen f = flen f'.
Definition wf_len (fs : list file) : Prop :=
  forall f, In f fs -> flen f = N.of_nat (length (fdata f)).

Lemma sort_by_id_in1 fs f : In f (sort_by_id fs) -> In f fs.
Proof. apply sort_by_id_in. Qed.

(* ------------------------------------------------------------------ rehash, unfolded *)
Definition items_of (gs : list group) : list item :=
  flat_map (fun g => map (fun f => (ghash g, f)) (gfiles g)) gs.
Definition hashed_of (n : nd) (st : stage) (hf : hash_fn) (items : list item) : list item :=
  flat_map (fun dv : N * list item =>
              flat_map (hash_run hf) (runs item_same_id (order n st (fst dv) (snd dv))))
           (group_by N.leb N.eqb (fun x : item => fdev (snd x)) items).
Definition regroup (l : list item) : list group :=
  map (fun kv : key * list item => mkgroup (fst (fst kv)) (snd (fst kv)) (map snd (snd kv)))
      (group_by key_leb key_eqb (fun x : item => (flen (snd x), fst x)) l).

Definition rehash_raw (n : nd) (st : stage) (pre : group -> bool) (hf : hash_fn) (gs : list group) : list group :=
  regroup (arrive n st (hashed_of n st hf (items_of (filter pre gs)))) ++ filter (fun g => negb (pre g)) gs.

Lemma rehash_unfold n st pre post hf gs :
  rehash n st pre post hf gs = filter post (rehash_raw n st pre hf gs).
Proof. reflexivity. Qed.

Lemma in_items_of gs h f : In (h, f) (items_of gs) <-> exists g, In g gs /\ h = ghash g /\ In f (gfiles g).
Proof.
  unfold items_of. rewrite in_flat_map. split.
  - intros (g & Hg & Hin). apply in_map_iff in Hin. destruct Hin as (f' & E & Hf). inversion E; subst. eauto.
  - intros (g & Hg & -> & Hf). exists g. split; auto. apply in_map_iff. eauto.
Qed.

Lemma item_same_id_refl x : item_same_id x x = true. Proof. apply same_id_refl. Qed.
Lemma item_same_id_trans x y z : item_same_id x y = true -> item_same_id y z = true -> item_same_id x z = true.
Proof. apply same_id_trans. Qed.

(* what a run turns into: the maximal failing prefix is dropped, the first member that hashes represents the rest *)
Lemma hash_from_spec hf old run :
  ((forall x, In x run -> hf (snd x) old = None) /\ hash_from hf old run = []) \/
  (exists pre rep suf h len, run = pre ++ rep :: suf /\ (forall x, In x pre -> hf (snd x) old = None) /\
      hf (snd rep) old = Some (h, len) /\
      hash_from hf old run = map (fun y => (h, set_len (snd y) len)) (rep :: suf)).
Proof.
  induction run as [|x tl IH]; cbn [hash_from].
  - left. split; [intros x []|reflexivity].
  - destruct (hf (snd x) old) as [[h len]|] eqn:E.
    + right. exists [], x, tl, h, len. repeat split; auto. intros y [].
    + destruct IH as [[Hall E0]|(pre & rep & suf & h & len & -> & Hpre & Hrep & E0)].
      * left. split; auto. intros y [<-|Hy]; auto.
      * right. exists (x :: pre), rep, suf, h, len. repeat split; auto. intros y [<-|Hy]; auto.
Qed.

Lemma hash_run_head hf old rep tl h len : hf rep old = Some (h, len) ->
  hash_run hf ((old, rep) :: tl) = map (fun x => (h, set_len (snd x) len)) ((old, rep) :: tl).
Proof. intros E. cbn [hash_run hash_from snd]. rewrite E. reflexivity. Qed.

Lemma hash_run_all_fail hf old hd tl : (forall x, In x ((old, hd) :: tl) -> hf (snd x) old = None) ->
  hash_run hf ((old, hd) :: tl) = [].
Proof.
  intros Hall. change (hash_run hf ((old, hd) :: tl)) with (hash_from hf old ((old, hd) :: tl)). destruct (hash_from_spec hf old ((old, hd) :: tl)) as [[_ E]|(pre & rep & suf & h & len & E & _ & Hr & _)]; auto.
  rewrite (Hall rep) in Hr; [discriminate|]. rewrite E. apply in_or_app. right. left. auto.
Qed.

Lemma in_hash_run hf run h f : In (h, f) (hash_run hf run) ->
  exists old hd tl rep len x, run = (old, hd) :: tl /\ In rep run /\ hf (snd rep) old = Some (h, len) /\ In x run /\
                              f = set_len (snd x) len.
Proof.
  destruct run as [|[old hd] tl]; [intros []|].
  change (hash_run hf ((old, hd) :: tl)) with (hash_from hf old ((old, hd) :: tl)).
  destruct (hash_from_spec hf old ((old, hd) :: tl)) as [[_ E]|(pre & rep & suf & h' & len & E & _ & Hr & E0)].
  - rewrite E. intros [].
  - rewrite E0. intros Hin. apply in_map_iff in Hin. destruct Hin as (x & Ex & Hx). inversion Ex; subst.
    assert (Hsub : forall y, In y (rep :: suf) -> In y ((old, hd) :: tl)).
    { intros y Hy. rewrite E. apply in_or_app. right. exact Hy. }
    exists old, hd, tl, rep, len, x. split; [reflexivity|]. split; [apply Hsub; left; reflexivity|].
    split; [exact Hr|]. split; [apply Hsub; exact Hx|reflexivity].
Qed.

Lemma in_hashed n st hf items h f : wf_nd n -> In (h, f) (hashed_of n st hf items) ->
  exists old hd oldr rep x len,
    In (old, hd) items /\ In (oldr, rep) items /\ In x items /\
    fid hd = fid rep /\ fdev hd = fdev rep /\ fid rep = fid (snd x) /\ fdev rep = fdev (snd x) /\
    hf rep old = Some (h, len) /\ f = set_len (snd x) len.
Proof.
  intros [Hord _] Hin. unfold hashed_of in Hin. apply in_flat_map in Hin.
  destruct Hin as ([d its] & Hdv & Hin). cbn [fst snd] in Hin.
  apply in_flat_map in Hin. destruct Hin as (run & Hrun & Hin).
  apply in_hash_run in Hin. destruct Hin as (old & hd & tl & [oldr rep] & len & x & -> & Hrep & Hhf & Hx & ->). cbn [snd] in *.
  pose proof (runs_homogeneous item_same_id item_same_id_trans item_same_id_refl _ _ Hrun) as Hhom.
  cbn in Hhom. pose proof (Hhom x Hx) as Hhx. pose proof (Hhom (oldr, rep) Hrep) as Hhr.
  unfold item_same_id in Hhx, Hhr. cbn [snd] in Hhx, Hhr. apply same_id_spec in Hhx, Hhr.
  assert (Hmem : forall y, In y ((old, hd) :: tl) -> In y items /\ fdev (snd y) = d).
  { intros y Hy. eapply runs_in in Hy; eauto.
    eapply Permutation_in in Hy; [|apply Hord].
    exact (group_by_member N.leb N.eqb _ N_eqb_spec' _ _ _ _ Hdv Hy). }
  destruct (Hmem x Hx) as [Hxi Hxd]. destruct (Hmem (old, hd) (or_introl eq_refl)) as [Hhi Hhd]. destruct (Hmem (oldr, rep) Hrep) as [Hri Hrd].
  cbn [snd] in Hhd, Hrd.
  exists old, hd, oldr, rep, x, len. repeat split; auto; congruence.
Qed.

Lemma in_regroup l g : In g (regroup l) ->
  gfiles g <> [] /\ forall f, In f (gfiles g) -> In (ghash g, f) l /\ flen f = glen g.
Proof.
  unfold regroup. intros H. apply in_map_iff in H. destruct H as ([[len h] its] & <- & Hk). cbn [fst snd glen ghash gfiles].
  split.
  - pose proof (group_by_nonempty key_leb key_eqb _ key_eqb_spec _ _ _ Hk) as Hne.
    destruct its; [congruence|discriminate].
  - intros f Hf. apply in_map_iff in Hf. destruct Hf as ([h' f'] & E & Hx). cbn [snd] in E. subst f'.
    destruct (group_by_member key_leb key_eqb _ key_eqb_spec _ _ _ _ Hk Hx) as [Hin Hkey].
    cbn [fst snd] in Hkey. inversion Hkey; subst. auto.
Qed.

(* what a group in the output of rehash (before the post filter) is made of *)
Definition regrouped_from (pre : group -> bool) (hf : hash_fn) (gs : list group) (g : group) : Prop :=
  gfiles g <> [] /\ forall f, In f (gfiles g) ->
      exists g0 f0 g1 rep gh hd, In g0 gs /\ pre g0 = true /\ In f0 (gfiles g0) /\
                           In g1 gs /\ pre g1 = true /\ In rep (gfiles g1) /\
                           In gh gs /\ pre gh = true /\ In hd (gfiles gh) /\
                           fid rep = fid f0 /\ fdev rep = fdev f0 /\ fid hd = fid rep /\ fdev hd = fdev rep /\
                           hf rep (ghash gh) = Some (ghash g, glen g) /\ f = set_len f0 (glen g).

Lemma rehash_raw_sound n st pre hf gs g : wf_nd n -> In g (rehash_raw n st pre hf gs) ->
  (In g gs /\ pre g = false) \/ regrouped_from pre hf gs g.
Proof.
  intros Hnd Hin. unfold rehash_raw in Hin.
  apply in_app_or in Hin. destruct Hin as [Hin|Hin].
  - right. apply in_regroup in Hin. destruct Hin as [Hne Hall]. split; auto.
    intros f Hf. destruct (Hall f Hf) as [Hi Hlen].
    eapply Permutation_in in Hi; [|apply (proj2 Hnd)].
    apply (in_hashed _ _ _ _ _ _ Hnd) in Hi.
    destruct Hi as (old & hd & oldr & rep & [h0 f0] & len & Hhd & Hrep & Hx & Hih & Hdh & Hid & Hdev & Hhf & ->). cbn [snd] in *.
    apply in_items_of in Hrep. destruct Hrep as (g1 & Hg1 & -> & Hrep1).
    apply in_items_of in Hhd. destruct Hhd as (gh & Hgh & -> & Hhd1).
    apply in_items_of in Hx. destruct Hx as (g0 & Hg0 & -> & Hf0).
    apply filter_In in Hg1, Hg0, Hgh. cbn [set_len flen] in Hlen. subst len.
    exists g0, f0, g1, rep, gh, hd. tauto.
  - left. apply filter_In in Hin. destruct Hin as [Hin Hp]. apply negb_true_iff in Hp. auto.
Qed.

Lemma rehash_sound n st pre post hf gs g : wf_nd n -> In g (rehash n st pre post hf gs) ->
  post g = true /\ ((In g gs /\ pre g = false) \/ regrouped_from pre hf gs g).
Proof.
  intros Hnd Hin. rewrite rehash_unfold in Hin. apply filter_In in Hin. destruct Hin as [Hin Hpost]. split; auto.
  eapply rehash_raw_sound; eauto.
Qed.

Lemma rehash_in_raw n st pre post hf gs g : In g (rehash n st pre post hf gs) -> In g (rehash_raw n st pre hf gs).
Proof. rewrite rehash_unfold. intros H. apply filter_In in H. tauto. Qed.

(* ------------------------------------------------------------------ unique_count and one_id *)
Definition one_id (fs : list file) : Prop := forall f f', In f fs -> In f' fs -> fid f = fid f'.

Lemma runs_single_homog fs : (length (runs same_id fs) <= 1)%nat -> one_id fs.
Proof.
  intros Hl.
  assert (Hh := runs_homogeneous same_id same_id_trans same_id_refl fs).
  assert (Hc := runs_concat same_id fs).
  revert Hl Hh Hc. destruct (runs same_id fs) as [|r [|r' rs]]; intros Hl Hh Hc; cbn [length] in Hl; try lia.
  - cbn in Hc. subst fs. intros f f' [].
  - cbn [concat] in Hc. rewrite app_nil_r in Hc. subst r.
    specialize (Hh fs (or_introl eq_refl)). destruct fs as [|h t]; [intros f f' []|].
    intros f f' Hf Hf'. apply Hh in Hf, Hf'. apply same_id_spec in Hf, Hf'. congruence.
Qed.

Lemma one_id_runs fs : one_id fs -> (length (runs same_id fs) <= 1)%nat.
Proof.
  induction fs as [|x r IH]; intros Ho; cbn [runs length]; auto.
  assert (Hr : one_id r). { intros f f' Hf Hf'. apply Ho; right; auto. }
  specialize (IH Hr).
  assert (Hc := runs_concat same_id r).
  revert IH Hc. destruct (runs same_id r) as [|[|y ys] rs]; intros IH Hc; cbn [length] in *; auto.
  assert (Hy : In y r). { rewrite <- Hc. cbn [concat]. apply in_or_app. left. left. auto. }
  assert (Hxy : same_id x y = true). { apply same_id_spec. apply Ho; [left|right]; auto. }
  rewrite Hxy. cbn [length]. lia.
Qed.

Lemma unique_count_le1 fs : (1 <? unique_count fs) = false <-> one_id fs.
Proof.
  unfold unique_count. rewrite N.ltb_ge. split.
  - intros H. apply runs_single_homog. lia.
  - intros H. apply one_id_runs in H. lia.
Qed.

Lemma one_id_perm fs fs' : Permutation fs fs' -> one_id fs -> one_id fs'.
Proof. intros Hp Ho f f' Hf Hf'. apply Ho; eapply Permutation_in; try symmetry; eauto. Qed.

(* ------------------------------------------------------------------ chunks *)
Lemma chunk_all d len : N.of_nat (length d) <= len -> chunk d 0 len = d.
Proof. intros H. unfold chunk. cbn [N.to_nat skipn]. apply firstn_all2. lia. Qed.

(* ------------------------------------------------------------------ the early stages *)
Lemma group_by_size_in c fs g : In g (group_by_size c fs) ->
  forall f, In f (gfiles g) -> In f fs /\ flen f = glen g.
Proof.
  unfold group_by_size. intros H. apply filter_In in H. destruct H as [H _].
  apply in_map_iff in H. destruct H as ([len b] & <- & Hb). cbn [fst snd glen gfiles].
  intros f Hf. eapply (group_by_member N.leb N.eqb flen N_eqb_spec') in Hf; eauto.
Qed.

Lemma deduplicate_incl fs f : In f (deduplicate fs) -> In f fs.
Proof.
  unfold deduplicate. intros H. apply in_flat_map in H. destruct H as ([loc b] & Hb & Hf). cbn [snd] in Hf.
  apply uniq_by_incl in Hf. eapply (group_by_member N.leb N.eqb floc N_eqb_spec') in Hf; eauto. tauto.
Qed.

Lemma remove_same_files_in c gs g : In g (remove_same_files c gs) ->
  exists g0, In g0 gs /\ glen g = glen g0 /\ ghash g = ghash g0 /\ forall f, In f (gfiles g) -> In f (gfiles g0).
Proof.
  unfold remove_same_files. intros H. apply filter_In in H. destruct H as [H _].
  apply in_map_iff in H. destruct H as (g0 & <- & Hg0). exists g0. cbn. repeat split; auto.
  intros f. apply deduplicate_incl.
Qed.

Lemma finalize_in c gs g : In g (finalize c gs) ->
  exists g0, In g0 gs /\ glen g = glen g0 /\ ghash g = ghash g0 /\ Permutation (gfiles g) (gfiles g0).
Proof.
  unfold finalize. intros H. apply in_map_iff in H. destruct H as (g0 & <- & Hg0).
  apply isort_in in Hg0. exists g0. cbn. repeat split; auto. apply sort_by_path_perm.
Qed.

(* ------------------------------------------------------------------ C01, no transform *)
Section Sound.
  Variable H : list N -> hash.
  Variable T : list N -> option (list N).
  Variable c : gcfg.
  Variable n : nd.
  Variable scanned : list file.
  Hypothesis Hnd : wf_nd n.
  Hypothesis Hids : wf_ids scanned.
  Hypothesis Hlen : wf_len scanned.

  Let o := oracle_of H T.

  (* base invariant of a group: members are scanned files of the group's length *)
  Definition gbase (g : group) : Prop := forall f, In f (gfiles g) -> In f scanned /\ flen f = glen g.

  Lemma gbase_sort g : gbase g -> gbase (sort_group_by_id g).
  Proof. intros Hb f Hf. cbn in Hf. apply sort_by_id_in1 in Hf. apply Hb in Hf. exact Hf. Qed.

  Section Stages.
    Variables P S : N.
    Definition plen (f : file) : N := if flen f <=? P then P else min_prefix_len (dkind c (fdev f)).
    Definition Hpre (f : file) : hash := H (chunk (fdata f) 0 (plen f)).
    Definition slen (f : file) : N := N.min S (flen f).
    Definition Hsfx (f : file) : hash := H (chunk (fdata f) (flen f - slen f) (slen f)).
    Definition Hfull (f : file) : hash := H (chunk (fdata f) 0 (flen f)).

    Definition all_hash (g : group) (hh : file -> hash) : Prop := forall f, In f (gfiles g) -> ghash g = hh f.
    Definition I1 (g : group) : Prop := gbase g /\ (one_id (gfiles g) \/ all_hash g Hpre).
    Definition over_thr (g : group) : Prop := forall f, In f (gfiles g) -> S < flen f.
    Definition xor_keyed (g : group) : Prop := all_hash g (fun f => hxor (Hpre f) (Hsfx f)) /\ over_thr g.
    Definition I2 (g : group) : Prop :=
      gbase g /\ (one_id (gfiles g) \/ all_hash g Hpre \/ xor_keyed g).
    Definition I3 (g : group) : Prop :=
      gbase g /\ (one_id (gfiles g) \/ all_hash g Hfull \/ (glen g < P /\ (all_hash g Hpre \/ xor_keyed g))).

    (* same inode => same everything a hash depends on *)
    Lemma same_inode f f' : In f scanned -> In f' scanned -> fid f = fid f' -> fdev f = fdev f' ->
      Hpre f = Hpre f' /\ Hsfx f = Hsfx f' /\ Hfull f = Hfull f' /\ flen f = flen f'.
    Proof.
      intros Hf Hf' Hi Hd. destruct (Hids f f' Hf Hf' Hi) as [Ed El].
      unfold Hpre, Hsfx, Hfull, plen, slen. rewrite Ed, El, Hd. auto.
    Qed.

    Lemma I1_sort g : I1 g -> I1 (sort_group_by_id g).
    Proof.
      intros [Hb Hk]. split; [apply gbase_sort; auto|]. destruct Hk as [Hk|Hk]; [left|right].
      - eapply one_id_perm; [symmetry; apply sort_by_id_perm|]; auto.
      - intros f Hf. cbn in Hf. apply sort_by_id_in1 in Hf. apply Hk; auto.
    Qed.
    Lemma I2_sort g : I2 g -> I2 (sort_group_by_id g).
    Proof.
      intros [Hb Hk]. split; [apply gbase_sort; auto|]. destruct Hk as [Hk|[Hk|Hk]]; [left|right; left|right; right].
      - eapply one_id_perm; [symmetry; apply sort_by_id_perm|]; auto.
      - intros f Hf. cbn in Hf. apply sort_by_id_in1 in Hf. apply Hk; auto.
      - destruct Hk as [Hk1 Hk2]. split; intros f Hf; cbn in Hf; apply sort_by_id_in1 in Hf; auto.
    Qed.

    (* the regrouped branch of rehash_sound, specialised to hash functions that keep the length and
       whose result is [newh rep old] *)
    Lemma regrouped_files (hf : hash_fn) (newh : file -> hash -> hash) pre gs g :
      (forall f old h l, hf f old = Some (h, l) -> h = newh f old /\ l = flen f) ->
      (forall a b old, In a scanned -> In b scanned -> fid a = fid b -> fdev a = fdev b -> newh a old = newh b old) ->
      (forall g0, In g0 gs -> gbase g0) ->
      regrouped_from pre hf gs g ->
      gbase g /\ forall f, In f (gfiles g) ->
        exists g1 rep, In g1 gs /\ pre g1 = true /\ In rep (gfiles g1) /\ In rep scanned /\
                       fid rep = fid f /\ fdev rep = fdev f /\ ghash g = newh rep (ghash g1) /\
                       exists g0, In g0 gs /\ pre g0 = true /\ In f (gfiles g0).
    Proof.
      intros Hhf Hnewh Hgs [_ Hall].
      assert (Hx : forall f, In f (gfiles g) -> In f scanned /\ flen f = glen g /\
                exists g1 rep, In g1 gs /\ pre g1 = true /\ In rep (gfiles g1) /\ In rep scanned /\
                               fid rep = fid f /\ fdev rep = fdev f /\ ghash g = newh rep (ghash g1) /\
                               exists g0, In g0 gs /\ pre g0 = true /\ In f (gfiles g0)).
      { intros f Hf.
        destruct (Hall f Hf) as (g0 & f0 & g1 & rep & gh & hd & Hg0 & Hp0 & Hf0 & Hg1 & Hp1 & Hrep & Hgh & Hph & Hhd & Hi & Hd & Hih & Hdh & Hh & ->).
        destruct (Hhf _ _ _ _ Hh) as [Eh El].
        destruct (Hgs g0 Hg0 f0 Hf0) as [Hs0 _]. destruct (Hgs g1 Hg1 rep Hrep) as [Hsr _]. destruct (Hgs gh Hgh hd Hhd) as [Hsh _].
        destruct (Hids rep f0 Hsr Hs0 Hi) as [_ Ell].
        rewrite El, Ell, set_len_same. repeat split; auto; try congruence.
        exists gh, hd. repeat split; auto; try congruence.
        - rewrite Eh. symmetry. apply Hnewh; auto.
        - exists g0. auto. }
      split.
      - intros f Hf. destruct (Hx f Hf) as (? & ? & _). auto.
      - intros f Hf. destruct (Hx f Hf) as (_ & _ & ?). auto.
    Qed.

    Lemma hf_prefix_spec f old h l : hf_prefix o c n P f old = Some (h, l) -> h = Hpre f /\ l = flen f.
    Proof.
      unfold hf_prefix, failing. cbn [o oracle_of o_chunk].
      destruct (fails n StPrefix f); cbn [option_map]; [discriminate|]. intros E. inversion E. auto.
    Qed.
    Lemma hf_suffix_spec f old h l : hf_suffix o n S f old = Some (h, l) -> h = hxor old (Hsfx f) /\ l = flen f.
    Proof.
      unfold hf_suffix, failing. cbn [o oracle_of o_chunk].
      destruct (fails n StSuffix f); cbn [option_map]; [discriminate|]. intros E. inversion E. auto.
    Qed.
    Lemma hf_contents_spec f old h l : hf_contents o n f old = Some (h, l) -> h = Hfull f /\ l = flen f.
    Proof.
      unfold hf_contents, failing. cbn [o oracle_of o_chunk].
      destruct (fails n StContents f); cbn [option_map]; [discriminate|]. intros E. inversion E. auto.
    Qed.

    Lemma prefix_stage_raw gs g : (forall g0, In g0 gs -> gbase g0) ->
      In g (rehash_raw n StPrefix pre_multi (hf_prefix o c n P) (map sort_group_by_id gs)) -> I1 g.
    Proof.
      intros Hgs Hin.
      apply (rehash_raw_sound _ _ _ _ _ _ Hnd) in Hin. destruct Hin as [[Hin Hpre']|Hreg].
      - apply in_map_iff in Hin. destruct Hin as (g0 & <- & Hg0). split; [apply gbase_sort; auto|].
        left. apply unique_count_le1. exact Hpre'.
      - apply (regrouped_files (hf_prefix o c n P) (fun f _ => Hpre f) pre_multi (map sort_group_by_id gs) g) in Hreg.
        + destruct Hreg as [Hb Hall]. split; auto. right. intros f Hf.
          destruct (Hall f Hf) as (g1 & rep & _ & _ & _ & Hrs & Hi & Hd & -> & _).
          destruct (Hb f Hf) as [Hfs _]. apply (same_inode rep f); auto.
        + apply hf_prefix_spec.
        + intros a b _ Ha Hb Ei Ed. apply (same_inode a b); auto.
        + intros g0 Hg0. apply in_map_iff in Hg0. destruct Hg0 as (g0' & <- & ?). apply gbase_sort; auto.
    Qed.

    Lemma prefix_stage gs g : (forall g0, In g0 gs -> gbase g0) ->
      In g (group_by_prefix o c n P gs) -> I1 g.
    Proof. intros Hgs Hin. apply (prefix_stage_raw gs g Hgs). apply rehash_in_raw in Hin. exact Hin. Qed.

    Lemma suffix_stage_raw thr gs g : (forall g0, In g0 gs -> I1 g0) ->
      In g (rehash_raw n StSuffix (pre_suffix thr S) (hf_suffix o n S) (map sort_group_by_id gs)) -> I2 g.
    Proof.
      intros Hgs Hin.
      assert (Hgs' : forall g0, In g0 (map sort_group_by_id gs) -> I1 g0).
      { intros g0 Hg0. apply in_map_iff in Hg0. destruct Hg0 as (g0' & <- & ?). apply I1_sort; auto. }
      apply (rehash_raw_sound _ _ _ _ _ _ Hnd) in Hin. destruct Hin as [[Hin Hpre']|Hreg].
      - destruct (Hgs' g Hin) as [Hb Hk]. split; auto. tauto.
      - apply (regrouped_files (hf_suffix o n S) (fun f old => hxor old (Hsfx f)) (pre_suffix thr S) (map sort_group_by_id gs) g) in Hreg.
        + destruct Hreg as [Hb Hall]. split; auto. right. right. split; intros f Hf.
          * destruct (Hall f Hf) as (g1 & rep & Hg1 & Hp1 & Hrep & Hrs & Hi & Hd & -> & _).
            destruct (Hb f Hf) as [Hfs _]. destruct (same_inode rep f Hrs Hfs Hi Hd) as (E1 & E2 & _).
            destruct (Hgs' g1 Hg1) as [_ [Ho|Hh]].
            -- unfold pre_suffix in Hp1. apply andb_true_iff in Hp1. destruct Hp1 as [_ Hp1].
               apply unique_count_le1 in Ho. unfold pre_multi in Hp1. congruence.
            -- rewrite (Hh rep Hrep). congruence.
          * destruct (Hall f Hf) as (_ & _ & _ & _ & _ & _ & _ & _ & _ & g0 & Hg0 & Hp0 & Hf0).
            unfold pre_suffix in Hp0. apply andb_true_iff in Hp0. destruct Hp0 as [Hp0 _].
            apply andb_true_iff in Hp0. destruct Hp0 as [_ Hp0]. apply N.ltb_lt in Hp0.
            destruct (Hgs' g0 Hg0) as [Hb0 _]. destruct (Hb0 f Hf0) as [_ El0]. lia.
        + apply hf_suffix_spec.
        + intros a b old Ha Hb Ei Ed. f_equal. apply (same_inode a b); auto.
        + intros g0 Hg0. apply Hgs'; auto.
    Qed.

    Lemma suffix_stage thr gs g : (forall g0, In g0 gs -> I1 g0) ->
      In g (rehash n StSuffix (pre_suffix thr S) (matches c) (hf_suffix o n S) (map sort_group_by_id gs)) -> I2 g.
    Proof. intros Hgs Hin. apply (suffix_stage_raw thr gs g Hgs). apply rehash_in_raw in Hin. exact Hin. Qed.

    Lemma contents_stage_raw gs g : (forall g0, In g0 gs -> I2 g0) ->
      In g (rehash_raw n StContents (pre_contents P) (hf_contents o n) (map sort_group_by_id gs)) -> I3 g.
    Proof.
      intros Hgs Hin.
      assert (Hgs' : forall g0, In g0 (map sort_group_by_id gs) -> I2 g0).
      { intros g0 Hg0. apply in_map_iff in Hg0. destruct Hg0 as (g0' & <- & ?). apply I2_sort; auto. }
      apply (rehash_raw_sound _ _ _ _ _ _ Hnd) in Hin. destruct Hin as [[Hin Hpre']|Hreg].
      - destruct (Hgs' g Hin) as [Hb Hk]. split; auto.
        unfold pre_contents in Hpre'. apply andb_false_iff in Hpre'. destruct Hpre' as [Hu|Hp].
        + left. apply unique_count_le1. auto.
        + apply N.leb_gt in Hp. destruct Hk as [Hk|Hk]; [left; auto|right; right; auto].
      - apply (regrouped_files (hf_contents o n) (fun f _ => Hfull f) (pre_contents P) (map sort_group_by_id gs) g) in Hreg.
        + destruct Hreg as [Hb Hall]. split; auto. right. left. intros f Hf.
          destruct (Hall f Hf) as (g1 & rep & _ & _ & _ & Hrs & Hi & Hd & -> & _).
          destruct (Hb f Hf) as [Hfs _]. apply (same_inode rep f); auto.
        + apply hf_contents_spec.
        + intros a b _ Ha Hb Ei Ed. apply (same_inode a b); auto.
        + intros g0 Hg0. destruct (Hgs' g0 Hg0). auto.
    Qed.

    Lemma contents_stage gs g : (forall g0, In g0 gs -> I2 g0) ->
      In g (group_by_contents o c n P gs) -> I3 g.
    Proof. intros Hgs Hin. apply (contents_stage_raw gs g Hgs). apply rehash_in_raw in Hin. exact Hin. Qed.
  End Stages.

  (* the hash keys that can decide a final group: the hash of the whole file, or, for files shorter
     than the prefix length that pass the suffix threshold, the whole-file hash XOR the hash of the
     last s bytes, s the configured / device suffix length (s < len: the suffix stage skips shorter files) *)
  Definition sfx (s : N) (d : list N) : list N :=
    let l := N.of_nat (length d) in chunk d (l - N.min s l) (N.min s l).
  Definition suffix_cands : list N :=
    match max_suffix c with
    | Some s => [s]
    | None => [suffix_len SSD; suffix_len HDD; suffix_len UnknownKind]
    end.
  Definition collision_free : Prop :=
    forall f f', In f scanned -> In f' scanned -> flen f = flen f' ->
      (H (fdata f) = H (fdata f') \/
       exists s, In s suffix_cands /\ s < flen f /\
                 hxor (H (fdata f)) (H (sfx s (fdata f))) = hxor (H (fdata f')) (H (sfx s (fdata f')))) ->
      fdata f = fdata f'.
  Hypothesis Hcf : collision_free.

  Lemma Hfull_whole f : In f scanned -> Hfull f = H (fdata f).
  Proof. intros Hf. unfold Hfull. rewrite chunk_all; auto. rewrite (Hlen f Hf). lia. Qed.
  Lemma Hpre_whole P f : In f scanned -> flen f < P -> Hpre P f = H (fdata f).
  Proof.
    intros Hf Hlt. unfold Hpre, plen. replace (flen f <=? P) with true by (symmetry; apply N.leb_le; lia).
    rewrite chunk_all; auto. rewrite <- (Hlen f Hf). lia.
  Qed.
  Lemma Hsfx_sfx S f : In f scanned -> Hsfx S f = H (sfx S (fdata f)).
  Proof. intros Hf. unfold Hsfx, sfx, slen. rewrite <- (Hlen f Hf). auto. Qed.

  Lemma max_dev_prop_in (prop : disk_kind -> N) fs :
    In (max_dev_prop c prop fs) [prop SSD; prop HDD; prop UnknownKind].
  Proof.
    assert (Hk : forall k, In (prop k) [prop SSD; prop HDD; prop UnknownKind]).
    { intros []; cbn; auto. }
    unfold max_dev_prop. destruct fs as [|y fs]; [apply Hk|].
    assert (Hgen : forall l : list file, l <> [] ->
              In (fold_right N.max 0 (map (fun f => prop (dkind c (fdev f))) l)) [prop SSD; prop HDD; prop UnknownKind]).
    { induction l as [|x l IH]; [congruence|]. intros _. cbn [map fold_right].
      destruct l as [|x' l].
      - cbn [map fold_right]. rewrite N.max_0_r. apply Hk.
      - assert (IH' := IH ltac:(discriminate)).
        destruct (N.max_spec (prop (dkind c (fdev x))) (fold_right N.max 0 (map (fun f => prop (dkind c (fdev f))) (x' :: l))))
          as [[_ ->]|[_ ->]]; auto. }
    apply Hgen. discriminate.
  Qed.

  Lemma I3_sound P S g : In S suffix_cands ->
    I3 P S g -> forall f f', In f (gfiles g) -> In f' (gfiles g) ->
    fdata f = fdata f' /\ glen g = N.of_nat (length (fdata f)).
  Proof.
    intros HSc [Hb Hk] f f' Hf Hf'. destruct (Hb f Hf) as [Hs Hl]. destruct (Hb f' Hf') as [Hs' Hl'].
    split; [|rewrite <- Hl; apply Hlen; auto].
    destruct Hk as [Ho|[Hh|[Hlt [Hh|[Hh Hthr]]]]].
    - apply (Hids f f'); auto.
    - apply Hcf; auto; [congruence|]. left. rewrite <- !Hfull_whole; auto. rewrite <- (Hh f), <- (Hh f'); auto.
    - apply Hcf; auto; [congruence|]. left. rewrite <- (Hpre_whole P f), <- (Hpre_whole P f'); auto; try lia.
      rewrite <- (Hh f), <- (Hh f'); auto.
    - specialize (Hthr f Hf).
      apply Hcf; auto; [congruence|]. right. exists S. split; auto. split; auto.
      rewrite <- (Hpre_whole P f), <- (Hpre_whole P f'), <- !Hsfx_sfx; auto; try lia.
      rewrite <- (Hh f), <- (Hh f'); auto.
  Qed.

  Lemma early_gbase g : In g (remove_same_files c (group_by_size c (filter (size_ok c) scanned))) -> gbase g.
  Proof.
    intros Hin f Hf. apply remove_same_files_in in Hin. destruct Hin as (g0 & Hg0 & El & _ & Hsub).
    destruct (group_by_size_in _ _ _ Hg0 f (Hsub f Hf)) as [Hfs Hfl]. apply filter_In in Hfs. split; [tauto|congruence].
  Qed.

  Lemma suffix_len_of_cands gs : In (suffix_len_of c gs) suffix_cands.
  Proof.
    unfold suffix_len_of, suffix_cands. destruct (max_suffix c) as [s0|]; [left; auto|apply max_dev_prop_in].
  Qed.

  Theorem c01_sound : skip_content c = false -> transform c = false ->
    forall g, In g (group_files H T c n scanned) ->
    forall f f', In f (gfiles g) -> In f' (gfiles g) ->
      fdata f = fdata f' /\ glen g = N.of_nat (length (fdata f)).
  Proof.
    intros Hskip Htr g Hg f f' Hf Hf'. unfold group_files, group_files_gen in Hg.
    apply finalize_in in Hg. destruct Hg as (g0 & Hg0 & El & _ & Hp).
    unfold pipeline in Hg0. rewrite Htr, Hskip in Hg0.
    set (g1 := remove_same_files c (group_by_size c (filter (size_ok c) scanned))) in *.
    set (P := prefix_len_of c g1) in *.
    set (g2 := group_by_prefix (oracle_of H T) c n P g1) in *.
    unfold group_by_suffix in Hg0.
    set (S := suffix_len_of c (map sort_group_by_id g2)) in *.
    set (thr := suffix_threshold_of c (map sort_group_by_id g2)) in *.
    assert (H1 : forall g', In g' g2 -> I1 P g').
    { intros g' Hg'. apply (prefix_stage P S g1 g'); auto. intros g1' Hg1'. apply early_gbase; auto. }
    assert (H3 : I3 P S g0).
    { apply (contents_stage P S (rehash n StSuffix (pre_suffix thr S) (matches c) (hf_suffix (oracle_of H T) n S)
                                        (map sort_group_by_id g2)) g0); [|exact Hg0].
      intros g3 Hg3. apply (suffix_stage P S thr g2 g3); auto. }
    rewrite El.
    apply (I3_sound P S g0 (suffix_len_of_cands _) H3); eapply Permutation_in; eauto.
  Qed.

  (* ---------------------------------------------------------------- C01 under --transform *)
  Definition collision_free_T : Prop :=
    forall f f' out out', In f scanned -> In f' scanned -> T (fdata f) = Some out -> T (fdata f') = Some out' ->
      length out = length out' -> H out = H out' -> out = out'.

  Theorem c01_transform : collision_free_T -> transform c = true ->
    forall g, In g (group_files H T c n scanned) ->
    forall f f', In f (gfiles g) -> In f' (gfiles g) ->
      exists out, T (fdata f) = Some out /\ T (fdata f') = Some out /\ glen g = N.of_nat (length out).
  Proof.
    intros HcfT Htr g Hg f f' Hf Hf'. unfold group_files, group_files_gen in Hg.
    apply finalize_in in Hg. destruct Hg as (g0 & Hg0 & El & _ & Hp).
    unfold pipeline in Hg0. rewrite Htr in Hg0. unfold group_transformed in Hg0.
    apply (rehash_sound _ _ _ _ _ _ _ Hnd) in Hg0. destruct Hg0 as [_ [[_ Hpre']|[_ Hall]]]; [discriminate|].
    assert (Hx : forall x, In x (gfiles g0) -> exists x0 out, In x0 scanned /\ fdata x = fdata x0 /\ T (fdata x0) = Some out /\
                                                       glen g0 = N.of_nat (length out) /\ ghash g0 = H out).
    { intros x Hx0. destruct (Hall x Hx0) as (ga & x0 & gb & rep & gh & hd & Hga & _ & Hx0' & Hgb & _ & Hrep & _ & _ & _ & Hi & _ & _ & _ & Hh & ->).
      destruct Hga as [<-|[]]. destruct Hgb as [<-|[]]. cbn [gfiles] in *.
      apply sort_by_id_in1, deduplicate_incl, filter_In in Hx0'. apply sort_by_id_in1, deduplicate_incl, filter_In in Hrep.
      destruct Hx0' as [Hx0s _]. destruct Hrep as [Hreps _].
      destruct (Hids rep x0 Hreps Hx0s Hi) as [Ed _].
      unfold hf_transform in Hh. destruct (fails n StTransform rep); [discriminate|]. cbn [oracle_of o_trans] in Hh.
      destruct (T (fdata rep)) as [out|] eqn:ET; [|discriminate]. cbn [option_map fst snd] in Hh. inversion Hh.
      exists x0, out. rewrite <- Ed. repeat split; auto. }
    destruct (Hx f) as (f0 & out & Hs & Ed & ET & Eg & Eh); [eapply Permutation_in; eauto|].
    destruct (Hx f') as (f0' & out' & Hs' & Ed' & ET' & Eg' & Eh'); [eapply Permutation_in; eauto|].
    assert (out = out').
    { apply (HcfT f0 f0' out out'); auto.
      - apply Nat2N.inj. congruence.
      - congruence. }
    subst out'. exists out. rewrite Ed, Ed', El. auto.
  Qed.
End Sound.
