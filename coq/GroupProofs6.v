(* GroupProofs6.v — engine G, part 6 (C13): total orders of the model (file ids, regrouping keys, the derived
   Ord of Path), uniqueness of sorted permutations, and the relation "same groups in the same order, members
   up to permutation" that every stage of the pipeline preserves for ANY two nondeterminism records. *)
From FV Require Import Base ListLib GroupModel GroupProofs GroupProofs2 GroupProofs3 GroupProofs5.
From FV Require ReportProofs.
From Coq Require Import Permutation Sorted.
Open Scope N_scope.

(* ------------------------------------------------------------------ comparisons that are total orders *)
Record good_cmp {A} (c : A -> A -> comparison) : Prop :=
  { c_eq : forall x y, c x y = Eq <-> x = y;
    c_anti : forall x y, c y x = CompOpp (c x y);
    c_trans : forall x y z, c x y = Lt -> c y z = Lt -> c x z = Lt }.

Lemma good_N : good_cmp N.compare.
Proof.
  split.
  - intros; apply N.compare_eq_iff.
  - intros; apply N.compare_antisym.
  - intros x y z H1 H2. rewrite N.compare_lt_iff in *. lia.
Qed.

Lemma lex_cmp_good {A} (c : A -> A -> comparison) : good_cmp c -> good_cmp (lex_cmp c).
Proof.
  intros [Heq Hanti Htr]. split.
  - apply lex_cmp_eq. exact Heq.
  - induction x as [|a x IH]; destruct y as [|b y]; cbn [lex_cmp CompOpp]; auto.
    rewrite (Hanti a b). destruct (c a b); cbn [CompOpp]; auto.
  - induction x as [|a x IH]; destruct y as [|b y]; destruct z as [|d z]; cbn [lex_cmp]; try congruence.
    destruct (c a b) eqn:E1; destruct (c b d) eqn:E2; try discriminate.
    + apply Heq in E1. apply Heq in E2. subst. assert (c d d = Eq) as -> by (apply Heq; auto). apply IH.
    + apply Heq in E1. subst. rewrite E2. auto.
    + apply Heq in E2. subst. rewrite E1. auto.
    + rewrite (Htr _ _ _ E1 E2). auto.
Qed.

Lemma good_bytes : good_cmp bytes_cmp. Proof. apply lex_cmp_good, good_N. Qed.

(* lexicographic pair *)
Lemma pair_cmp_good {A B} (ca : A -> A -> comparison) (cb : B -> B -> comparison) :
  good_cmp ca -> good_cmp cb ->
  good_cmp (fun (x y : A * B) => match ca (fst x) (fst y) with Eq => cb (snd x) (snd y) | r => r end).
Proof.
  intros [Aeq Aanti Atr] [Beq Banti Btr]. split.
  - intros [a b] [a' b']. cbn [fst snd]. destruct (ca a a') eqn:E.
    + apply Aeq in E. subst. rewrite Beq. split; [intros ->; auto|intros H; inversion H; auto].
    + split; [discriminate|]. intros H. inversion H; subst. assert (ca a' a' = Eq) by (apply Aeq; auto). congruence.
    + split; [discriminate|]. intros H. inversion H; subst. assert (ca a' a' = Eq) by (apply Aeq; auto). congruence.
  - intros [a b] [a' b']. cbn [fst snd]. rewrite (Aanti a a'). destruct (ca a a'); cbn [CompOpp]; auto.
  - intros [a b] [a' b'] [a'' b'']. cbn [fst snd].
    destruct (ca a a') eqn:E1; destruct (ca a' a'') eqn:E2; try discriminate.
    + apply Aeq in E1. apply Aeq in E2. subst. assert (ca a'' a'' = Eq) as -> by (apply Aeq; auto). apply Btr.
    + apply Aeq in E1. subst. rewrite E2. auto.
    + apply Aeq in E2. subst. rewrite E1. auto.
    + rewrite (Atr _ _ _ E1 E2). auto.
Qed.

Lemma good_key : good_cmp key_cmp. Proof. apply (pair_cmp_good N.compare bytes_cmp good_N good_bytes). Qed.
Lemma good_fid : good_cmp fid_cmp. Proof. apply (pair_cmp_good N.compare N.compare good_N good_N). Qed.

(* derived Ord of Path on leaf-first component lists: the parent decides first *)
Lemma good_rpath : good_cmp rpath_cmp.
Proof.
  destruct good_bytes as [Beq Banti Btr]. split.
  - induction x as [|a x IH]; destruct y as [|b y]; cbn [rpath_cmp]; try (split; congruence).
    destruct (rpath_cmp x y) eqn:E.
    + apply IH in E. subst. rewrite Beq. split; [intros ->; auto|intros H; inversion H; auto].
    + split; [discriminate|]. intros H. inversion H; subst. assert (rpath_cmp y y = Eq) by (apply IH; auto). congruence.
    + split; [discriminate|]. intros H. inversion H; subst. assert (rpath_cmp y y = Eq) by (apply IH; auto). congruence.
  - induction x as [|a x IH]; destruct y as [|b y]; cbn [rpath_cmp CompOpp]; auto.
    rewrite (IH y). destruct (rpath_cmp x y); cbn [CompOpp]; auto.
  - assert (Hrefl : forall p, rpath_cmp p p = Eq).
    { induction p as [|a p IH]; cbn [rpath_cmp]; auto. rewrite IH. apply Beq. auto. }
    assert (Heq : forall p q, rpath_cmp p q = Eq -> p = q).
    { induction p as [|a p IH]; destruct q as [|b q]; cbn [rpath_cmp]; try congruence.
      destruct (rpath_cmp p q) eqn:E; try discriminate. intros Hb. apply Beq in Hb. apply IH in E. congruence. }
    induction x as [|a x IH]; destruct y as [|b y]; destruct z as [|d z]; cbn [rpath_cmp]; try congruence.
    destruct (rpath_cmp x y) eqn:E1; destruct (rpath_cmp y z) eqn:E2; try discriminate.
    + apply Heq in E1. apply Heq in E2. subst. rewrite Hrefl. apply Btr.
    + apply Heq in E1. subst. rewrite E2. auto.
    + apply Heq in E2. subst. rewrite E1. auto.
    + rewrite (IH _ _ E1 E2). auto.
Qed.

Lemma good_path : good_cmp path_cmp.
Proof.
  destruct good_rpath as [Req Ranti Rtr]. unfold path_cmp. split.
  - intros x y. rewrite Req. split; [intros E; apply (f_equal (@rev comp)) in E; rewrite !rev_involutive in E; auto|intros ->; auto].
  - intros x y. apply Ranti.
  - intros x y z. apply Rtr.
Qed.

Section CmpLeb.
  Context {A} (c : A -> A -> comparison) (G : good_cmp c).
  Definition cle (x y : A) : bool := cmp_leb (c x y).
  Lemma cle_total x y : cle x y = true \/ cle y x = true.
  Proof. unfold cle. rewrite (c_anti c G x y). destruct (c x y); cbn; auto. Qed.
  Lemma cle_trans x y z : cle x y = true -> cle y z = true -> cle x z = true.
  Proof.
    unfold cle. intros H1 H2. destruct (c x y) eqn:E1; [| |discriminate].
    - apply (c_eq c G) in E1. subst. auto.
    - destruct (c y z) eqn:E2; [| |discriminate].
      + apply (c_eq c G) in E2. subst. rewrite E1. auto.
      + rewrite (c_trans c G _ _ _ E1 E2). auto.
  Qed.
  Lemma cle_antisym x y : cle x y = true -> cle y x = true -> x = y.
  Proof.
    unfold cle. rewrite (c_anti c G x y). destruct (c x y) eqn:E; cbn; try discriminate.
    intros _ _. apply (c_eq c G). auto.
  Qed.
End CmpLeb.

(* ------------------------------------------------------------------ sorted permutations are unique *)
Section SortUnique.
  Context {A : Type} (le : A -> A -> bool).
  Hypothesis le_total : forall x y, le x y = true \/ le y x = true.
  Hypothesis le_trans : forall x y z, le x y = true -> le y z = true -> le x z = true.
  Let leP (x y : A) : Prop := le x y = true.

  Lemma insert_sorted x l : StronglySorted leP l -> StronglySorted leP (insert le x l).
  Proof.
    induction 1 as [|y t Ht IH Hy]; cbn [insert].
    - constructor; constructor.
    - destruct (le x y) eqn:E.
      + constructor; [constructor; auto|]. constructor; [exact E|].
        rewrite Forall_forall in *. intros z Hz. eapply le_trans; [exact E|]. apply Hy; auto.
      + constructor; auto. rewrite Forall_forall in *. intros z Hz.
        apply (Permutation_in _ (insert_perm le x t)) in Hz. destruct Hz as [<-|Hz]; [|auto].
        destruct (le_total x y); [congruence|auto].
  Qed.

  Lemma isort_sorted l : StronglySorted leP (isort le l).
  Proof. induction l as [|x l IH]; cbn [isort fold_right]; [constructor|]. apply insert_sorted. exact IH. Qed.

  Lemma isort_unique l l' : (forall x y, In x l -> In y l -> le x y = true -> le y x = true -> x = y) ->
    Permutation l l' -> isort le l = isort le l'.
  Proof.
    intros Hanti Hp. apply (ReportProofs.sorted_perm_unique leP).
    - intros x y Hx Hy. apply Hanti; apply (isort_in le); auto.
    - apply isort_sorted.
    - apply isort_sorted.
    - rewrite !isort_perm. exact Hp.
  Qed.
End SortUnique.

(* ------------------------------------------------------------------ Forall2 helpers *)
Lemma Forall2_filter {A B} (R : A -> B -> Prop) (p : A -> bool) (q : B -> bool) l l' :
  (forall x y, R x y -> p x = q y) -> Forall2 R l l' -> Forall2 R (filter p l) (filter q l').
Proof.
  intros Hpq. induction 1 as [|x y l l' Hxy Hl IH]; cbn [filter]; [constructor|].
  rewrite (Hpq x y Hxy). destruct (q y); auto.
Qed.
Lemma Forall2_map {A B C D} (R : A -> B -> Prop) (S : C -> D -> Prop) (f : A -> C) (g : B -> D) l l' :
  (forall x y, R x y -> S (f x) (g y)) -> Forall2 R l l' -> Forall2 S (map f l) (map g l').
Proof. intros Hfg. induction 1; cbn [map]; constructor; auto. Qed.
Lemma Forall2_in_l {A B} (R : A -> B -> Prop) l l' x : Forall2 R l l' -> In x l -> exists y, In y l' /\ R x y.
Proof.
  induction 1 as [|a b l l' Hab Hl IH]; intros Hx; [destruct Hx|].
  destruct Hx as [<-|Hx]; [exists b; split; [left|]; auto|]. destruct (IH Hx) as (y & Hy & Hr). exists y. split; [right|]; auto.
Qed.
Lemma Forall2_in_r {A B} (R : A -> B -> Prop) l l' y : Forall2 R l l' -> In y l' -> exists x, In x l /\ R x y.
Proof.
  induction 1 as [|a b l l' Hab Hl IH]; intros Hy; [destruct Hy|].
  destruct Hy as [<-|Hy]; [exists a; split; [left|]; auto|]. destruct (IH Hy) as (x & Hx & Hr). exists x. split; [right|]; auto.
Qed.
Lemma Forall2_eq {A} (l l' : list A) : Forall2 eq l l' -> l = l'.
Proof. induction 1; congruence. Qed.
Lemma Forall2_refl_in {A} (R : A -> A -> Prop) l : (forall x, In x l -> R x x) -> Forall2 R l l.
Proof. induction l as [|x l IH]; intros H; constructor; [apply H; left; auto|apply IH; intros; apply H; right; auto]. Qed.
Lemma Forall2_flat_map_perm {A B C} (R : A -> B -> Prop) (f : A -> list C) (g : B -> list C) l l' :
  (forall x y, R x y -> Permutation (f x) (g y)) -> Forall2 R l l' -> Permutation (flat_map f l) (flat_map g l').
Proof. intros Hfg. induction 1; cbn [flat_map]; auto. apply Permutation_app; auto. Qed.

(* a stable sort whose comparison only looks at related components keeps the relation *)
Lemma Forall2_insert {A B} (R : A -> B -> Prop) (le : A -> A -> bool) (le' : B -> B -> bool) x y l l' :
  (forall a b a' b', R a b -> R a' b' -> le a a' = le' b b') ->
  R x y -> Forall2 R l l' -> Forall2 R (insert le x l) (insert le' y l').
Proof.
  intros Hle Hxy. induction 1 as [|a b l l' Hab Hl IH]; cbn [insert]; [repeat constructor; auto|].
  rewrite (Hle x y a b Hxy Hab). destruct (le' y b); repeat constructor; auto.
Qed.
Lemma Forall2_isort {A B} (R : A -> B -> Prop) (le : A -> A -> bool) (le' : B -> B -> bool) l l' :
  (forall a b a' b', R a b -> R a' b' -> le a a' = le' b b') ->
  Forall2 R l l' -> Forall2 R (isort le l) (isort le' l').
Proof.
  intros Hle. induction 1 as [|a b l l' Hab Hl IH]; cbn [isort fold_right]; [constructor|].
  apply Forall2_insert; auto.
Qed.

(* ------------------------------------------------------------------ uniq_by / group_by under permutation *)
Lemma uniq_by_perm {A} (eqb : A -> A -> bool) l l' : (forall a b, eqb a b = true <-> a = b) ->
  Permutation l l' -> Permutation (uniq_by eqb l) (uniq_by eqb l').
Proof.
  intros Hspec Hp.
  assert (Hr : forall x, eqb x x = true) by (intros; apply Hspec; auto).
  assert (Ht : forall x y z, eqb x y = true -> eqb y z = true -> eqb x z = true).
  { intros x y z H1 H2. apply Hspec in H1, H2. subst. auto. }
  assert (Hmem : forall m x, In x (uniq_by eqb m) <-> In x m).
  { intros m x. split; [apply uniq_by_incl|]. intros Hx.
    destruct (uniq_by_covers eqb Hr Ht m x Hx) as (y & Hy & E). apply Hspec in E. subst. auto. }
  apply NoDup_Permutation.
  - apply (pairwise_neq_NoDup eqb Hr). apply uniq_by_pairwise.
  - apply (pairwise_neq_NoDup eqb Hr). apply uniq_by_pairwise.
  - intros x. rewrite !Hmem. split; apply Permutation_in; [|symmetry]; auto.
Qed.

Definition bucket_eq {K V} (a b : K * list V) : Prop := fst a = fst b /\ Permutation (snd a) (snd b).

Lemma group_by_perm2 {K V} (le : K -> K -> bool) (keqb : K -> K -> bool) (key : V -> K) l l' :
  (forall x y, le x y = true \/ le y x = true) -> (forall x y z, le x y = true -> le y z = true -> le x z = true) ->
  (forall x y, le x y = true -> le y x = true -> x = y) ->
  (forall a b, keqb a b = true <-> a = b) -> Permutation l l' ->
  Forall2 bucket_eq (group_by le keqb key l) (group_by le keqb key l').
Proof.
  intros Htot Htr Hanti Hspec Hp. unfold group_by.
  assert (E : isort le (uniq_by keqb (map key l)) = isort le (uniq_by keqb (map key l'))).
  { apply isort_unique; auto. apply uniq_by_perm; auto. apply Permutation_map. auto. }
  rewrite E. apply Forall2_map with (R := eq).
  - intros k k' <-. split; [reflexivity|]. cbn [snd]. apply filter_perm. auto.
  - apply Forall2_refl_in. auto.
Qed.

Lemma Nleb_total x y : N.leb x y = true \/ N.leb y x = true.
Proof. rewrite !N.leb_le. lia. Qed.
Lemma Nleb_trans x y z : N.leb x y = true -> N.leb y z = true -> N.leb x z = true.
Proof. rewrite !N.leb_le. lia. Qed.
Lemma Nleb_antisym x y : N.leb x y = true -> N.leb y x = true -> x = y.
Proof. rewrite !N.leb_le. lia. Qed.
Lemma key_leb_total x y : key_leb x y = true \/ key_leb y x = true. Proof. apply (cle_total key_cmp good_key). Qed.
Lemma key_leb_trans x y z : key_leb x y = true -> key_leb y z = true -> key_leb x z = true.
Proof. apply (cle_trans key_cmp good_key). Qed.
Lemma key_leb_antisym x y : key_leb x y = true -> key_leb y x = true -> x = y.
Proof. apply (cle_antisym key_cmp good_key). Qed.

(* ------------------------------------------------------------------ the replica count does not depend on the order *)
Lemma rest_count_perm rs b fs fs' : Permutation fs fs' -> rest_count rs b fs = rest_count rs b fs'.
Proof.
  intros Hp. unfold rest_count. pose proof (filter_perm (no_root rs) _ _ Hp) as Hf. destruct b.
  - rewrite <- (map_length fid (uniq_by same_id (filter (no_root rs) fs))).
    rewrite <- (map_length fid (uniq_by same_id (filter (no_root rs) fs'))).
    apply Nat.le_antisymm; apply NoDup_incl_length; try apply uniq_ids_NoDup; intros i Hi;
      apply uniq_ids_spec in Hi; destruct Hi as (f & Hf' & E); apply uniq_ids_spec; exists f; split; auto.
    + eapply Permutation_in; eauto.
    + eapply Permutation_in; [symmetry|]; eauto.
  - apply Permutation_length. auto.
Qed.
Lemma roots_hit_perm rs fs fs' : Permutation fs fs' -> roots_hit rs fs = roots_hit rs fs'.
Proof.
  intros Hp. apply Nat.le_antisymm; apply roots_hit_mono; intros x; apply Permutation_in; [|symmetry]; auto.
Qed.
Lemma subgroup_count_perm_any c fs fs' : Permutation fs fs' -> subgroup_count c fs = subgroup_count c fs'.
Proof.
  intros Hp. unfold subgroup_count. rewrite !subgroups_length.
  rewrite (roots_hit_perm _ _ _ Hp), (rest_count_perm _ _ _ _ Hp). auto.
Qed.

(* ------------------------------------------------------------------ groups up to the order of their members *)
Definition geq (g g' : group) : Prop := glen g = glen g' /\ ghash g = ghash g' /\ Permutation (gfiles g) (gfiles g').
Definition gseq (gs gs' : list group) : Prop := Forall2 geq gs gs'.

Lemma matches_geq c g g' : geq g g' -> matches c g = matches c g'.
Proof. intros (_ & _ & Hp). unfold matches. rewrite (subgroup_count_perm_any c _ _ Hp). auto. Qed.
Lemma matches_strictly_geq c g g' : geq g g' -> matches_strictly c g = matches_strictly c g'.
Proof. intros (_ & _ & Hp). unfold matches_strictly. rewrite (subgroup_count_perm_any c _ _ Hp). auto. Qed.
Lemma pre_multi_geq g g' : geq g g' -> pre_multi g = pre_multi g'.
Proof.
  intros (_ & _ & Hp). unfold pre_multi.
  destruct (1 <? unique_count (gfiles g)) eqn:E1, (1 <? unique_count (gfiles g')) eqn:E2; auto.
  - apply unique_count_le1 in E2. apply (one_id_perm _ _ (Permutation_sym Hp)) in E2. apply unique_count_le1 in E2. congruence.
  - apply unique_count_le1 in E1. apply (one_id_perm _ _ Hp) in E1. apply unique_count_le1 in E1. congruence.
Qed.
Lemma sort_geq g g' : geq g g' -> geq (sort_group_by_id g) (sort_group_by_id g').
Proof.
  intros (E1 & E2 & Hp). repeat split; auto. cbn [sort_group_by_id gfiles]. rewrite !sort_by_id_perm. auto.
Qed.
Lemma gseq_sort gs gs' : gseq gs gs' -> gseq (map sort_group_by_id gs) (map sort_group_by_id gs').
Proof. apply Forall2_map. apply sort_geq. Qed.
Lemma gseq_all_files gs gs' : gseq gs gs' -> Permutation (all_files gs) (all_files gs').
Proof. apply Forall2_flat_map_perm. intros g g' (_ & _ & Hp). auto. Qed.
Lemma gseq_app a a' b b' : gseq a a' -> gseq b b' -> gseq (a ++ b) (a' ++ b').
Proof. apply Forall2_app. Qed.

Lemma max_dev_prop_perm c prop fs fs' : Permutation fs fs' -> max_dev_prop c prop fs = max_dev_prop c prop fs'.
Proof.
  intros Hp. unfold max_dev_prop.
  destruct fs as [|a fs], fs' as [|b fs']; auto.
  - apply Permutation_nil in Hp. discriminate.
  - apply Permutation_sym, Permutation_nil in Hp. discriminate.
  - revert Hp. generalize (a :: fs) (b :: fs'). intros l l' Hp.
    induction Hp; cbn [map fold_right]; auto; lia.
Qed.

(* regrouping permuted item lists *)
Lemma regroup_gseq l l' : Permutation l l' -> gseq (regroup l) (regroup l').
Proof.
  intros Hp. unfold regroup.
  apply Forall2_map with (R := bucket_eq).
  - intros [k its] [k' its'] [E Hpi]. cbn [fst snd] in *. subst k'. repeat split; auto. cbn [gfiles]. apply Permutation_map. auto.
  - apply group_by_perm2; auto.
    + apply key_leb_total.
    + apply key_leb_trans.
    + apply key_leb_antisym.
    + apply key_eqb_spec.
Qed.

Lemma Forall2_map_in {A B C D} (R : A -> B -> Prop) (S : C -> D -> Prop) (f : A -> C) (g : B -> D) l l' :
  (forall x y, In x l -> R x y -> S (f x) (g y)) -> Forall2 R l l' -> Forall2 S (map f l) (map g l').
Proof.
  intros Hfg H. induction H as [|x y l l' Hxy Hl IH]; cbn [map]; constructor.
  - apply Hfg; [left|]; auto.
  - apply IH. intros a b Ha. apply Hfg. right; auto.
Qed.

(* ------------------------------------------------------------------ de-duplication and final sorts *)
Lemma deduplicate_perm fs fs' : wf_paths fs -> Permutation fs fs' -> Permutation (deduplicate fs) (deduplicate fs').
Proof.
  intros Hw Hp.
  assert (Hw' : wf_paths fs').
  { intros a b Ha Hb. apply Hw; eapply Permutation_in; try (symmetry; exact Hp); auto. }
  apply NoDup_Permutation; try apply deduplicate_NoDup.
  intros x. split; intros Hx.
  - apply deduplicate_keeps; auto. eapply Permutation_in; [exact Hp|]. apply deduplicate_incl; auto.
  - apply deduplicate_keeps; auto. eapply Permutation_in; [symmetry; exact Hp|]. apply deduplicate_incl; auto.
Qed.

Definition path_le (a b : file) : bool := cmp_leb (path_cmp (fpath a) (fpath b)).
Lemma sort_by_path_perm_eq rs l l' : (forall a b, In a l -> In b l -> fpath a = fpath b -> a = b) ->
  Permutation l l' -> sort_by_path rs l = sort_by_path rs l'.
Proof.
  intros Hinj Hp. unfold sort_by_path.
  assert (E : isort (fun a b => cmp_leb (path_cmp (fpath a) (fpath b))) l
              = isort (fun a b => cmp_leb (path_cmp (fpath a) (fpath b))) l').
  { apply isort_unique; auto.
    - intros x y. apply (cle_total path_cmp good_path).
    - intros x y z. apply (cle_trans path_cmp good_path).
    - intros x y Hx Hy H1 H2. apply Hinj; auto. apply (cle_antisym path_cmp good_path); auto. }
  rewrite E. reflexivity.
Qed.

Lemma finalize_gseq c gs gs' :
  (forall g a b, In g gs -> In a (gfiles g) -> In b (gfiles g) -> fpath a = fpath b -> a = b) ->
  gseq gs gs' -> finalize c gs = finalize c gs'.
Proof.
  intros Hinj Hs. unfold finalize. apply Forall2_eq.
  apply Forall2_map_in with (R := geq).
  - intros g g' Hg (E1 & E2 & Hp). apply (proj1 (isort_in final_before g gs)) in Hg.
    rewrite E1, E2. f_equal. apply sort_by_path_perm_eq; auto. intros a b. apply (Hinj g); auto.
  - apply Forall2_isort; auto.
    intros a b a' b' (E1 & E2 & _) (E1' & E2' & _). unfold final_before. rewrite E1, E2, E1', E2'. reflexivity.
Qed.

(* ------------------------------------------------------------------ two runs of one stage *)
Lemma wf_ids_perm s s' : Permutation s s' -> wf_ids s -> wf_ids s'.
Proof. intros Hp Hw f f' Hf Hf'. apply Hw; eapply Permutation_in; try (symmetry; exact Hp); auto. Qed.
Lemma wf_len_perm s s' : Permutation s s' -> wf_len s -> wf_len s'.
Proof. intros Hp Hw f Hf. apply Hw; eapply Permutation_in; try (symmetry; exact Hp); auto. Qed.
Lemma wf_paths_perm s s' : Permutation s s' -> wf_paths s -> wf_paths s'.
Proof. intros Hp Hw f f' Hf Hf'. apply Hw; eapply Permutation_in; try (symmetry; exact Hp); auto. Qed.
Lemma ok_perm c s s' f : Permutation s s' -> ok c s f -> ok c s' f.
Proof. intros Hp [Hf Hk]. split; auto. eapply Permutation_in; eauto. Qed.

Section TwoRuns.
  Variable H : list N -> hash.
  Variable T : list N -> option (list N).
  Variable c : gcfg.
  Variables n1 n2 : nd.
  Variables s1 s2 : list file.
  Hypothesis Hnd1 : wf_nd n1.
  Hypothesis Hnd2 : wf_nd n2.
  Hypothesis Hnf1 : forall st f, fails n1 st f = false.
  Hypothesis Hnf2 : forall st f, fails n2 st f = false.
  Hypothesis Hperm : Permutation s1 s2.
  Hypothesis Hids : wf_ids s1.
  Hypothesis Hlen : wf_len s1.
  Hypothesis Hpaths : wf_paths s1.

  Let o := oracle_of H T.
  Let Hids2 := wf_ids_perm _ _ Hperm Hids.
  Let Hlen2 := wf_len_perm _ _ Hperm Hlen.
  Let Hpaths2 := wf_paths_perm _ _ Hperm Hpaths.

  Lemma stage_gseq st (pre1 pre2 post : group -> bool) (hf1 hf2 : hash_fn) (newh : file -> hash -> hash) gs1 gs2 :
    (forall f old, hf1 f old = Some (newh f old, flen f)) ->
    (forall f old, hf2 f old = Some (newh f old, flen f)) ->
    (forall f f' old, ok c s1 f -> ok c s1 f' -> fdata f = fdata f' -> newh f old = newh f' old) ->
    (forall g g', geq g g' -> pre1 g = pre2 g') -> (forall g g', geq g g' -> post g = post g') ->
    invA c s1 gs1 -> invB c s1 gs1 -> invA c s2 gs2 -> invB c s2 gs2 -> gseq gs1 gs2 ->
    gseq (rehash n1 st pre1 post hf1 gs1) (rehash n2 st pre2 post hf2 gs2).
  Proof.
    intros Hhf1 Hhf2 Hcl Hpre Hpost A1 B1 A2 B2 Hs. rewrite !rehash_unfold.
    apply Forall2_filter; [exact Hpost|]. unfold rehash_raw. apply gseq_app.
    - apply regroup_gseq.
      assert (Hcl2 : forall f f' old, ok c s2 f -> ok c s2 f' -> fdata f = fdata f' -> newh f old = newh f' old).
      { intros f f' old Hf Hf'. apply Hcl; eapply ok_perm; try (symmetry; exact Hperm); eauto. }
      rewrite (proj2 Hnd1 st _), (proj2 Hnd2 st _).
      assert (Hsc1 : forall x, In x (items_of (filter pre1 gs1)) -> In (snd x) s1).
      { intros [h f] Hx. apply in_items_of in Hx. destruct Hx as (g & Hg & _ & Hf). apply filter_In in Hg.
        destruct A1 as [_ A1]. apply (A1 f). eapply all_files_in; [apply Hg|exact Hf]. }
      assert (Hsc2 : forall x, In x (items_of (filter pre2 gs2)) -> In (snd x) s2).
      { intros [h f] Hx. apply in_items_of in Hx. destruct Hx as (g & Hg & _ & Hf). apply filter_In in Hg.
        destruct A2 as [_ A2]. apply (A2 f). eapply all_files_in; [apply Hg|exact Hf]. }
      apply NoDup_Permutation.
      + eapply NoDup_map_NoDup. eapply Permutation_NoDup; [symmetry; apply (hashed_files n1 st hf1 newh s1 Hnd1 Hhf1 Hids _ Hsc1)|].
        rewrite map_snd_items_of. apply NoDup_flat_map_filter. apply A1.
      + eapply NoDup_map_NoDup. eapply Permutation_NoDup; [symmetry; apply (hashed_files n2 st hf2 newh s2 Hnd2 Hhf2 Hids2 _ Hsc2)|].
        rewrite map_snd_items_of. apply NoDup_flat_map_filter. apply A2.
      + intros [h f]. split; intros Hin.
        * destruct (hashed_key c n1 s1 Hnd1 Hids st pre1 hf1 newh Hhf1 Hcl gs1 A1 B1 h f Hin) as (g0 & Hg0 & Hp0 & Hf0 & ->).
          destruct (Forall2_in_l _ _ _ _ Hs Hg0) as (g0' & Hg0' & Hgeq). destruct Hgeq as (E1 & E2 & Hpf).
          rewrite E2. apply (hashed_has c n2 s2 Hnd2 Hids2 st pre2 hf2 newh Hhf2 Hcl2 gs2 A2 B2 g0' f Hg0').
          -- rewrite <- (Hpre g0 g0'); auto. repeat split; auto.
          -- eapply Permutation_in; eauto.
        * destruct (hashed_key c n2 s2 Hnd2 Hids2 st pre2 hf2 newh Hhf2 Hcl2 gs2 A2 B2 h f Hin) as (g0 & Hg0 & Hp0 & Hf0 & ->).
          destruct (Forall2_in_r _ _ _ _ Hs Hg0) as (g0' & Hg0' & Hgeq). destruct Hgeq as (E1 & E2 & Hpf).
          rewrite <- E2. apply (hashed_has c n1 s1 Hnd1 Hids st pre1 hf1 newh Hhf1 Hcl gs1 A1 B1 g0' f Hg0').
          -- rewrite (Hpre g0' g0); auto. repeat split; auto.
          -- eapply Permutation_in; [symmetry|]; eauto.
    - apply Forall2_filter; auto. intros g g' Hg. rewrite (Hpre g g' Hg). reflexivity.
  Qed.
End TwoRuns.

(* ------------------------------------------------------------------ the whole pipeline, two runs *)
Section Schedule.
  Variable H : list N -> hash.
  Variable T : list N -> option (list N).
  Variable c : gcfg.
  Variables n1 n2 : nd.
  Variables s1 s2 : list file.
  Hypothesis Hnd1 : wf_nd n1.
  Hypothesis Hnd2 : wf_nd n2.
  Hypothesis Hnf1 : forall st f, fails n1 st f = false.
  Hypothesis Hnf2 : forall st f, fails n2 st f = false.
  Hypothesis Hperm : Permutation s1 s2.
  Hypothesis Hids : wf_ids s1.
  Hypothesis Hlen : wf_len s1.
  Hypothesis Hpaths : wf_paths s1.

  Let o := oracle_of H T.
  Let Hids2 := wf_ids_perm _ _ Hperm Hids.
  Let Hlen2 := wf_len_perm _ _ Hperm Hlen.
  Let Hpaths2 := wf_paths_perm _ _ Hperm Hpaths.

  Definition G1 (s : list file) : list group := remove_same_files c (group_by_size c (filter (size_ok c) s)).
  Definition PP (s : list file) : N := prefix_len_of c (G1 s).
  Definition G2 (n : nd) (s : list file) : list group := group_by_prefix o c n (PP s) (G1 s).
  Definition G3 (n : nd) (s : list file) : list group := group_by_suffix o c n (G2 n s).
  Definition G4 (n : nd) (s : list file) : list group := group_by_contents o c n (PP s) (G3 n s).

  Lemma G1_gseq : gseq (G1 s1) (G1 s2).
  Proof.
    unfold G1, remove_same_files, group_by_size.
    assert (Hfs : Permutation (filter (size_ok c) s1) (filter (size_ok c) s2)) by (apply filter_perm; auto).
    apply Forall2_filter; [intros; apply matches_geq; auto|].
    apply Forall2_map_in with (R := geq).
    - intros g g' Hg (E1 & E2 & Hp). repeat split; auto. cbn [gfiles]. apply deduplicate_perm; auto.
      intros a b Ha Hb. apply Hpaths.
      + apply filter_In in Hg. destruct Hg as [Hg _]. apply in_map_iff in Hg. destruct Hg as ([k bk] & <- & Hk). cbn [gfiles] in *.
        destruct (group_by_member N.leb N.eqb flen N_eqb_spec' _ _ _ _ Hk Ha) as [Hin _]. apply filter_In in Hin. tauto.
      + apply filter_In in Hg. destruct Hg as [Hg _]. apply in_map_iff in Hg. destruct Hg as ([k bk] & <- & Hk). cbn [gfiles] in *.
        destruct (group_by_member N.leb N.eqb flen N_eqb_spec' _ _ _ _ Hk Hb) as [Hin _]. apply filter_In in Hin. tauto.
    - apply Forall2_filter; [intros; apply matches_geq; auto|].
      apply Forall2_map with (R := bucket_eq).
      + intros [k b] [k' b'] [E Hp]. cbn [fst snd] in *. subst. repeat split; auto.
      + apply group_by_perm2; auto.
        * apply Nleb_total.
        * apply Nleb_trans.
        * apply Nleb_antisym.
        * apply N_eqb_spec'.
  Qed.

  Lemma PP_eq : PP s1 = PP s2.
  Proof.
    unfold PP, prefix_len_of. destruct (max_prefix c); auto.
    apply max_dev_prop_perm. apply gseq_all_files. apply G1_gseq.
  Qed.

  Lemma G1_inv1 : invA c s1 (G1 s1) /\ invB c s1 (G1 s1) /\ invL (G1 s1).
  Proof. destruct (stage1_inv c s1 Hlen Hpaths) as (A & B & L & _). auto. Qed.
  Lemma G1_inv2 : invA c s2 (G1 s2) /\ invB c s2 (G1 s2) /\ invL (G1 s2).
  Proof. destruct (stage1_inv c s2 Hlen2 Hpaths2) as (A & B & L & _). auto. Qed.

  Lemma G2_gseq : gseq (G2 n1 s1) (G2 n2 s2).
  Proof.
    unfold G2, group_by_prefix. rewrite <- PP_eq.
    destruct G1_inv1 as (A1 & B1 & L1). destruct G1_inv2 as (A2 & B2 & L2).
    destruct (inv_sort c s1 _ A1 B1 L1) as (A1' & B1' & _). destruct (inv_sort c s2 _ A2 B2 L2) as (A2' & B2' & _).
    apply (stage_gseq c n1 n2 s1 s2 Hnd1 Hnd2 Hperm Hids StPrefix pre_multi pre_multi (matches c)
             (hf_prefix o c n1 (PP s1)) (hf_prefix o c n2 (PP s1)) (fun f _ => Hpre H c (PP s1) f)); auto.
    - intros f old. apply (nofail_prefix H T c n1 Hnf1).
    - intros f old. apply (nofail_prefix H T c n2 Hnf2).
    - intros f f' _. apply (class_prefix H c s1 Hlen).
    - apply pre_multi_geq.
    - intros; apply matches_geq; auto.
    - apply gseq_sort. apply G1_gseq.
  Qed.

  Lemma G2_inv1 : invA c s1 (G2 n1 s1) /\ invB c s1 (G2 n1 s1) /\ invL (G2 n1 s1).
  Proof. destruct (g2_inv H T c n1 s1 Hnd1 Hnf1 Hids Hlen Hpaths) as (A & B & L & _). auto. Qed.
  Lemma G2_inv2 : invA c s2 (G2 n2 s2) /\ invB c s2 (G2 n2 s2) /\ invL (G2 n2 s2).
  Proof. destruct (g2_inv H T c n2 s2 Hnd2 Hnf2 Hids2 Hlen2 Hpaths2) as (A & B & L & _). auto. Qed.

  Lemma suffix_params_eq :
    suffix_len_of c (map sort_group_by_id (G2 n1 s1)) = suffix_len_of c (map sort_group_by_id (G2 n2 s2)) /\
    suffix_threshold_of c (map sort_group_by_id (G2 n1 s1)) = suffix_threshold_of c (map sort_group_by_id (G2 n2 s2)).
  Proof.
    pose proof (gseq_all_files _ _ (gseq_sort _ _ G2_gseq)) as Hp.
    unfold suffix_len_of, suffix_threshold_of. split; [destruct (max_suffix c); auto|]; apply max_dev_prop_perm; auto.
  Qed.

  Lemma pre_suffix_geq thr S g g' : geq g g' -> pre_suffix thr S g = pre_suffix thr S g'.
  Proof. intros Hg. unfold pre_suffix. rewrite (pre_multi_geq g g' Hg). destruct Hg as (-> & _). reflexivity. Qed.
  Lemma pre_contents_geq P g g' : geq g g' -> pre_contents P g = pre_contents P g'.
  Proof. intros Hg. unfold pre_contents. rewrite (pre_multi_geq g g' Hg). destruct Hg as (-> & _). reflexivity. Qed.

  Lemma G3_gseq : gseq (G3 n1 s1) (G3 n2 s2).
  Proof.
    unfold G3, group_by_suffix. destruct suffix_params_eq as [ES ET]. rewrite <- ES, <- ET.
    destruct G2_inv1 as (A1 & B1 & L1). destruct G2_inv2 as (A2 & B2 & L2).
    destruct (inv_sort c s1 _ A1 B1 L1) as (A1' & B1' & _). destruct (inv_sort c s2 _ A2 B2 L2) as (A2' & B2' & _).
    set (S := suffix_len_of c (map sort_group_by_id (G2 n1 s1))).
    set (thr := suffix_threshold_of c (map sort_group_by_id (G2 n1 s1))).
    apply (stage_gseq c n1 n2 s1 s2 Hnd1 Hnd2 Hperm Hids StSuffix (pre_suffix thr S) (pre_suffix thr S) (matches c)
             (hf_suffix o n1 S) (hf_suffix o n2 S) (fun f old => hxor old (Hsfx H S f))); auto.
    - intros f old. apply (nofail_suffix H T n1 Hnf1).
    - intros f old. apply (nofail_suffix H T n2 Hnf2).
    - intros f f' old Hf Hf' E. f_equal. apply (class_suffix H c s1 Hlen); auto.
    - apply pre_suffix_geq.
    - intros; apply matches_geq; auto.
    - apply gseq_sort. apply G2_gseq.
  Qed.

  Lemma G3_inv1 : invA c s1 (G3 n1 s1) /\ invB c s1 (G3 n1 s1) /\ invL (G3 n1 s1).
  Proof. destruct (g3_inv H T c n1 s1 Hnd1 Hnf1 Hids Hlen Hpaths) as (A & B & L & _). auto. Qed.
  Lemma G3_inv2 : invA c s2 (G3 n2 s2) /\ invB c s2 (G3 n2 s2) /\ invL (G3 n2 s2).
  Proof. destruct (g3_inv H T c n2 s2 Hnd2 Hnf2 Hids2 Hlen2 Hpaths2) as (A & B & L & _). auto. Qed.

  Lemma G4_gseq : gseq (G4 n1 s1) (G4 n2 s2).
  Proof.
    unfold G4, group_by_contents. rewrite <- PP_eq.
    destruct G3_inv1 as (A1 & B1 & L1). destruct G3_inv2 as (A2 & B2 & L2).
    destruct (inv_sort c s1 _ A1 B1 L1) as (A1' & B1' & _). destruct (inv_sort c s2 _ A2 B2 L2) as (A2' & B2' & _).
    apply (stage_gseq c n1 n2 s1 s2 Hnd1 Hnd2 Hperm Hids StContents (pre_contents (PP s1)) (pre_contents (PP s1))
             (matches_strictly c) (hf_contents o n1) (hf_contents o n2) (fun f _ => Hfull H f)); auto.
    - intros f old. apply (nofail_contents H T n1 Hnf1).
    - intros f old. apply (nofail_contents H T n2 Hnf2).
    - intros f f' _. apply (class_contents H c s1 Hlen).
    - apply pre_contents_geq.
    - intros; apply matches_strictly_geq; auto.
    - apply gseq_sort. apply G3_gseq.
  Qed.

  Lemma G4_paths g a b : In g (G4 n1 s1) -> In a (gfiles g) -> In b (gfiles g) -> fpath a = fpath b -> a = b.
  Proof.
    intros Hg Ha Hb. unfold G4, group_by_contents in Hg. apply rehash_in_raw in Hg.
    destruct G3_inv1 as (A1 & B1 & L1). destruct (inv_sort c s1 _ A1 B1 L1) as (A1' & _).
    pose proof (step_A c n1 s1 Hnd1 Hids StContents (pre_contents (PP s1)) (hf_contents o n1) (fun f _ => Hfull H f)
                  (nofail_contents H T n1 Hnf1) _ A1') as [_ A].
    apply Hpaths; apply A; eapply all_files_in; eauto.
  Qed.
  Lemma G3_paths g a b : In g (G3 n1 s1) -> In a (gfiles g) -> In b (gfiles g) -> fpath a = fpath b -> a = b.
  Proof.
    intros Hg Ha Hb. destruct G3_inv1 as ([_ A] & _). apply Hpaths; apply A; eapply all_files_in; eauto.
  Qed.

  Lemma pipeline_plain n s : transform c = false ->
    pipeline o c n s = if skip_content c then G3 n s else G4 n s.
  Proof. intros Htr. unfold pipeline. rewrite Htr. reflexivity. Qed.

  (* --transform *)
  Lemma transform_gseq : transform c = true ->
    gseq (pipeline o c n1 s1) (pipeline o c n2 s2) /\
    (forall g a b, In g (pipeline o c n1 s1) -> In a (gfiles g) -> In b (gfiles g) -> fpath a = fpath b -> a = b).
  Proof.
    intros Htr. unfold o. rewrite !pipeline_transform by auto. rewrite !raw_unfold. split.
    - apply Forall2_filter; [intros; apply matches_strictly_geq; auto|]. apply regroup_gseq.
      assert (ND : forall n s, wf_nd n -> (forall st f, fails n st f = false) -> wf_ids s -> wf_paths s ->
                NoDup (arrive n StTransform (hashed_of n StTransform (hf_transform (oracle_of H T) n)
                         (map (fun f => (hash0, f)) (sort_by_id (deduplicate (filter (size_ok c) s))))))).
      { intros n s Wn Wf Wi Wp. eapply NoDup_map_NoDup. eapply Permutation_NoDup; [apply regroup_files|].
        rewrite <- raw_unfold. apply (raw_NoDup H T c n s Wn Wf Wi Wp). }
      apply NoDup_Permutation; [apply ND; auto|apply ND; auto|].
      intros [h f]. rewrite (hashed0 H T c n1 s1 Hnd1 Hnf1 Hids Hpaths), (hashed0 H T c n2 s2 Hnd2 Hnf2 Hids2 Hpaths2).
      split; intros (f0 & Hok & Hr); exists f0; (split; [|exact Hr]); unfold ok' in *.
      + eapply ok_perm; eauto.
      + eapply ok_perm; [symmetry|]; eauto.
    - intros g a b Hg Ha Hb E. apply filter_In in Hg. destruct Hg as [Hg _]. rewrite <- raw_unfold in Hg.
      pose proof (raw_NoDup H T c n1 s1 Hnd1 Hnf1 Hids Hpaths) as ND.
      destruct (raw_member H T c n1 s1 Hnd1 Hnf1 Hids Hpaths g a Hg Ha) as (a0 & Hoa & _ & _ & _ & ->).
      destruct (raw_member H T c n1 s1 Hnd1 Hnf1 Hids Hpaths g b Hg Hb) as (b0 & Hob & _ & _ & _ & ->).
      cbn in E. assert (a0 = b0) by (apply Hpaths; [apply Hoa|apply Hob|exact E]). subst. reflexivity.
  Qed.

  Theorem c13_schedule_independent : group_files H T c n1 s1 = group_files H T c n2 s2.
  Proof.
    unfold group_files, group_files_gen. fold o.
    destruct (transform c) eqn:Htr.
    - destruct (transform_gseq Htr) as [Hs Hp]. apply finalize_gseq; auto.
    - rewrite !pipeline_plain by auto. destruct (skip_content c).
      + apply finalize_gseq; [apply G3_paths|apply G3_gseq].
      + apply finalize_gseq; [apply G4_paths|apply G4_gseq].
  Qed.
End Schedule.
