(* WalkModel.v — executable model of the directory walk / file selection of fclones
   (walk.rs run, absolute, visit_path, visit_entry, visit_file, visit_link, visit_dir, sorted_entries,
   resolve_link, same_fs; group.rs scan_files size filter and deduplicate).  NO proofs in this file.

   * A tree is an association list from canonical paths (component lists below a virtual root []) to
     nodes File len | Dir | Link abs target | Other, each with a device number.  The entries of a
     directory are the keys whose parent it is, in list order (the harness dumps siblings in inode
     order, which is the order of walk.rs sort_dir_entries_by_inode).
   * The walk of walk.rs is a rayon task pool: every `scope.spawn` (one per root, one per directory
     entry) is a task, tasks share only the `visited` set (used only with follow_links).  The model is
     a work list of tasks with an explicit scheduler `sched` choosing the next task; a link hop
     (visit_link -> visit_path) is posted as a task of its own, which is equivalent because the only
     shared effect is the atomic test-and-insert on `visited`.  With one worker thread rayon runs the
     tasks LIFO: sched = "last pending task" reproduces the implementation exactly.
   * The selector is a pair of abstract functions sel_file (matches_full_path) and sel_dir
     (matches_dir); ignore files are an oracle ign1 d p is_dir = "the ignore file of directory d
     matches path p" (IgnoreStack.matches = exists over the stack of directories entered on the way).
     IgnoreStack.push is modelled as pushing every entered directory (ign1 d is constantly false for a
     directory without ignore file); the global gitignore is assumed empty.
   * Path.hash128 (key of the visited set) is assumed collision free. *)
From FV Require Import Base.
Open Scope N_scope.

Definition comp := list N.          (* one file name, as bytes *)
Definition path := list comp.       (* canonical absolute path below the virtual root; [] is the root *)

Definition comp_eq_dec : forall a b : comp, {a = b} + {a <> b} := list_eq_dec N.eq_dec.
Definition path_eq_dec : forall a b : path, {a = b} + {a <> b} := list_eq_dec comp_eq_dec.
Definition comp_eqb (a b : comp) : bool := if comp_eq_dec a b then true else false.
Definition path_eqb (a b : path) : bool := if path_eq_dec a b then true else false.
Definition mem (p : path) (l : list path) : bool := if in_dec path_eq_dec p l then true else false.

Inductive kind :=
| KFile (len : N)
| KDir
| KLink (absolute : bool) (target : list comp)   (* the link text, split in components; may hold . and .. *)
| KOther.
Record node := mkNode { n_kind : kind; n_dev : N }.
Definition tree := list (path * node).

Fixpoint lookup (t : tree) (p : path) : option node :=
  match t with
  | [] => None
  | (q, nd) :: t' => if path_eq_dec q p then Some nd else lookup t' p
  end.

Definition keys (t : tree) : list path := nodup path_eq_dec (map fst t).

Definition parent_is (d q : path) : bool :=
  match q with [] => false | _ => path_eqb (removelast q) d end.
Definition children (t : tree) (d : path) : list path := filter (parent_is d) (keys t).

Definition is_file_kind (nd : node) : bool := match n_kind nd with KFile _ => true | _ => false end.
Definition is_dir_kind (nd : node) : bool := match n_kind nd with KDir => true | _ => false end.
Definition is_link_kind (nd : node) : bool := match n_kind nd with KLink _ _ => true | _ => false end.
Definition kind_at (t : tree) (f : node -> bool) (p : path) : bool :=
  match lookup t p with Some nd => f nd | None => false end.

Definition dot : comp := [46].
Definition dotdot : comp := [46; 46].
(* walk.rs visit_entry: the file name of the entry starts with '.'; the root has no file name *)
Definition name_hidden (p : path) : bool :=
  match last p [] with 46 :: _ => true | _ => false end.

(* ---------------------------------------------------------------------------------------------- *)
(* realpath(3) on the tree: what dunce::canonicalize / fs::metadata do with a component list.
   `links` is the kernel's budget of symlink expansions (40, then ELOOP). *)
Fixpoint realpath (fuel links : nat) (t : tree) (cur : path) (rest : list comp) : option path :=
  match fuel with
  | O => None
  | S f =>
    match rest with
    | [] => Some cur
    | c :: rest' =>
      if comp_eqb c dot then realpath f links t cur rest'
      else if comp_eqb c dotdot then realpath f links t (removelast cur) rest'
      else match lookup t (cur ++ [c]) with
           | None => None
           | Some nd =>
             match n_kind nd with
             | KDir => realpath f links t (cur ++ [c]) rest'
             | KLink ab tg =>
               match links with
               | O => None
               | S l => realpath f l t (if ab then [] else cur) (tg ++ rest')
               end
             | _ => match rest' with [] => Some (cur ++ [c]) | _ => None end
             end
           end
    end
  end.

Definition target_len (x : path * node) : nat :=
  match n_kind (snd x) with KLink _ tg => length tg | _ => O end.
Definition max_target (t : tree) : nat := fold_right (fun x m => Nat.max (target_len x) m) O t.
Definition rp_fuel (t : tree) (raw : list comp) : nat := (S (length raw) + 41 * S (max_target t))%nat.

Definition canon (t : tree) (raw : list comp) : option path := realpath (rp_fuel t raw) 40 t [] raw.
(* fs::metadata: follows links *)
Definition stat (t : tree) (raw : list comp) : option node :=
  match canon t raw with Some q => lookup t q | None => None end.

(* walk.rs absolute (the path is already joined with the base dir): for something that is a file
   after following links keep the last name and canonicalize the parent, otherwise canonicalize
   everything; Path::canonicalize keeps the path unchanged when canonicalization fails. *)
Definition absolute (t : tree) (raw : list comp) : path :=
  let is_file := match stat t raw with Some nd => is_file_kind nd | None => false end in
  if is_file then
    match canon t (removelast raw) with
    | Some q => q ++ [last raw []]
    | None => raw
    end
  else match canon t raw with Some q => q | None => raw end.

(* ---------------------------------------------------------------------------------------------- *)
Record config := mkConfig {
  c_depth : N;          (* usize::MAX when --depth is absent *)
  c_hidden : bool;
  c_follow : bool;      (* -L / --follow-links *)
  c_report : bool;      (* -S / --symbolic-links *)
  c_no_ignore : bool;
  c_one_fs : bool;
  c_min : N;            (* --min, 0 by default *)
  c_max : N             (* --max, u64::MAX when absent *)
}.

Inductive tkind := TPath | TEntry.     (* a pending visit_path / visit_entry call *)
Record task := mkTask {
  t_kind : tkind; t_path : path; t_level : N; t_stack : list path; t_dev : N }.

Inductive outcome := Done (found : list path) | OutOfFuel.

Fixpoint take_nth {A} (i : nat) (l : list A) : option (A * list A) :=
  match l with
  | [] => None
  | x :: l' =>
    match i with
    | O => Some (x, l')
    | S j => match take_nth j l' with Some (y, r) => Some (y, x :: r) | None => None end
    end
  end.

Section Walk.
  Variable sel_file : path -> bool.                  (* PathSelector::matches_full_path *)
  Variable sel_dir : path -> bool.                   (* PathSelector::matches_dir *)
  Variable ign1 : path -> path -> bool -> bool.      (* ignore file of dir d matches path p (is_dir) *)
  Variable t : tree.
  Variable c : config.

  (* IgnoreStack::matches *)
  Definition ignored (stk : list path) (p : path) (isdir : bool) : bool :=
    existsb (fun d => ign1 d p isdir) stk.

  Definition same_fs (p : path) (dev : N) : bool :=
    match stat t p with Some nd => N.eqb (n_dev nd) dev | None => false end.

  (* resolve_link: read_link, metadata of the link (follows; fails for dangling / looping links),
     relative targets are joined to the parent of the link, then `absolute` *)
  Definition resolve_link (p : path) (ab : bool) (tg : list comp) : option (path * node) :=
    match stat t p with
    | None => None
    | Some nd => Some (absolute t (if ab then tg else removelast p ++ tg), nd)
    end.

  Definition visit_file (p : path) : list path := if sel_file p then [p] else [].

  (* sorted_entries: directories, then links, then files; other entry types are dropped *)
  Definition sorted_entries (d : path) : list path :=
    let cs := children t d in
    filter (kind_at t is_dir_kind) cs ++ filter (kind_at t is_link_kind) cs ++ filter (kind_at t is_file_kind) cs.

  Definition visit_dir (p : path) (lvl : N) (stk : list path) (dev : N) : list task :=
    if c_depth c <=? lvl then []
    else if negb (sel_dir p) then []
    else if c_one_fs c && negb (same_fs p dev) then []
    else
      let stk' := if c_no_ignore c then stk else stk ++ [p] in
      map (fun q => mkTask TEntry q (lvl + 1) stk' dev) (sorted_entries p).

  Definition visit_link (p : path) (ab : bool) (tg : list comp) (lvl : N) (stk : list path) (dev : N)
    : list task * list path :=
    if c_follow c || c_report c then
      match resolve_link p ab tg with
      | Some (target, nd) =>
        if is_file_kind nd && c_report c then ([], visit_file p)
        else if c_follow c && (negb (c_one_fs c) || same_fs target dev)
             then ([mkTask TPath target lvl stk dev], [])
             else ([], [])
      | None => ([], [])
      end
    else ([], []).

  (* visit_entry: hidden (only below the input paths: level > 0), visited (only with follow_links),
     ignore, then by entry type.
     Result: spawned tasks, new visited set, paths sent to the consumer. *)
  Definition visit_entry (vis : list path) (p : path) (nd : node) (lvl : N) (stk : list path) (dev : N)
    : list task * list path * list path :=
    if negb (c_hidden c) && (0 <? lvl) && name_hidden p then ([], vis, [])
    else if c_follow c && mem p vis then ([], vis, [])
    else
      let vis' := if c_follow c then p :: vis else vis in
      if negb (c_no_ignore c) && ignored stk p (is_dir_kind nd) then ([], vis', [])
      else match n_kind nd with
           | KFile _ => ([], vis', visit_file p)
           | KDir => (visit_dir p lvl stk dev, vis', [])
           | KLink ab tg => let r := visit_link p ab tg lvl stk dev in (fst r, vis', snd r)
           | KOther => ([], vis', [])
           end.

  (* visit_path stats first (symlink_metadata) and then applies the directory filter matches_dir to the
     parent of a regular file or of a symbolic link (no parent: not filtered) and to the path itself
     for the other types (directory, other) *)
  Definition filter_parent (p : path) : bool :=
    match p with [] => true | _ => sel_dir (removelast p) end.
  Definition filter_ok (nd : node) (p : path) : bool :=
    match n_kind nd with
    | KFile _ => filter_parent p
    | KLink _ _ => filter_parent p
    | _ => sel_dir p
    end.

  (* one task: visit_path = symlink_metadata, directory filter, visit_entry *)
  Definition step (vis : list path) (tk : task) : list task * list path * list path :=
    match lookup t (t_path tk) with
    | None => ([], vis, [])
    | Some nd =>
      match t_kind tk with
      | TPath => if filter_ok nd (t_path tk) then visit_entry vis (t_path tk) nd (t_level tk) (t_stack tk) (t_dev tk)
                 else ([], vis, [])
      | TEntry => visit_entry vis (t_path tk) nd (t_level tk) (t_stack tk) (t_dev tk)
      end
    end.

  (* Walk::run: one task per input path that can be stat-ed; a directory root is skipped when depth = 0 *)
  Definition root_task (raw : list comp) : list task :=
    let p := absolute t raw in
    match stat t p with
    | Some nd => if is_dir_kind nd && (c_depth c =? 0) then [] else [mkTask TPath p 0 [] (n_dev nd)]
    | None => []
    end.
  Definition root_tasks (roots : list (list comp)) : list task := flat_map root_task roots.

  (* the scheduler sees the pending tasks and the visited set and returns an index (taken modulo) *)
  Variable sched : list task -> list path -> nat.

  Definition pick (tk0 : task) (rest0 : list task) (vis : list path) : task * list task :=
    let pending := tk0 :: rest0 in
    match take_nth (sched pending vis mod length pending) pending with
    | Some x => x
    | None => (tk0, rest0)
    end.

  Fixpoint run (fuel : nat) (pending : list task) (vis out : list path) : outcome :=
    match pending with
    | [] => Done out
    | tk0 :: rest0 =>
      match fuel with
      | O => OutOfFuel
      | S f =>
        let '(tk, rest) := pick tk0 rest0 vis in
        let '(new, vis', o) := step vis tk in
        run f (rest ++ new) vis' (out ++ o)
      end
    end.

  (* fuel that always suffices (WalkProofs.run_terminates) *)
  Definition strict_prefix (p q : path) : bool :=
    (length p <? length q)%nat && path_eqb (firstn (length p) q) p.
  Definition ndesc (p : path) : nat := length (filter (strict_prefix p) (keys t)).
  Definition weight (vis : list path) (p : path) : nat :=
    if mem p vis then O else S (length (children t p)).
  Definition wsum (vis : list path) : nat := fold_right (fun p s => (weight vis p + s)%nat) O (keys t).
  Definition potential (pending : list task) (vis : list path) : nat :=
    if c_follow c then (length pending + wsum vis)%nat
    else fold_right (fun tk s => (S (ndesc (t_path tk)) + s)%nat) O pending.
  Definition walk_bound (roots : list (list comp)) : nat := S (potential (root_tasks roots) []).

  Definition walk (roots : list (list comp)) : outcome := run (walk_bound roots) (root_tasks roots) [] [].

  (* group.rs scan_files: FileInfo::new (fs::metadata, follows links) and the size filter;
     group.rs deduplicate: repeated paths are removed *)
  Definition size_ok (p : path) : bool :=
    match stat t p with
    | Some nd => match n_kind nd with KFile len => (c_min c <=? len) && (len <=? c_max c) | _ => false end
    | None => false
    end.
  Definition deduplicate (l : list path) : list path := nodup path_eq_dec l.
  Definition scan (roots : list (list comp)) : outcome :=
    match walk roots with
    | Done l => Done (deduplicate (filter size_ok l))
    | OutOfFuel => OutOfFuel
    end.
End Walk.

(* schedulers used by the correspondence driver *)
Definition sched_lifo (pending : list task) (vis : list path) : nat := pred (length pending).
Definition sched_fifo (pending : list task) (vis : list path) : nat := O.
(* a pseudo-random one: linear congruential on (seed, #pending, #visited) *)
Definition sched_rand (seed : nat) (pending : list task) (vis : list path) : nat :=
  ((seed + 7 * length pending + 13 * length vis) * 31 + 11)%nat.
