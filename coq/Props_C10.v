(* Props_C10.v — property C10: reports round-trip losslessly; a report cut inside a group is rejected.
   Statements only; every proof is `exact <lemma of TextProofs*>` (witnesses by vm_compute).
   Model: coq/TextModel.v part 2 (report.rs write_as_text, TextReportReader::read_header,
   TextReportIterator, open_report detection; path.rs escaped strings; stfu8).
   Parameters of the model that are NOT modelled, with the hypotheses the theorems need (they are
   premises of the statements, never axioms; the check tests them on every generated case):
     human   : ByteSize Display            — non-empty printable ASCII without '*', ')' and ':'
     fmt_ts / parse_ts : chrono format / parse_from_str with TIMESTAMP_FMT — printable ASCII and
               parse (trim (format t)) = t for the timestamps called ts_ok (millisecond precision)
   Well-formed data (definitions in TextProofs5.v):
     path_ok p    bytes < 256, NUL-free, absolute, in std::path normal form (path_norm p = p)
     group_ok g   non-empty hash bytes, len and file count fit u64, every path path_ok
     header_ok h  version d+.d+.d+, ts_ok timestamp, arguments non-empty byte strings, base dir
                  path_ok, stats present with u64 fields
   K4 (a cut inside the last path line of a group was accepted with the shortened path) was repaired in
   /repo commit 2eccdb7: read_paths requires the line feed of every path line.  The truncation theorem is
   now the full statement; the old witness is kept as a regression Example. *)
From FV Require Import Base TextModel TextProofs TextProofs2 TextProofs3 TextProofs4 TextProofs5 TextProofs6.
Open Scope N_scope.

(* STFU-8: decode_u8 (encode_u8 b) = Ok b for every byte string *)
Theorem C10_stfu8 : forall b : list N,
  Forall (fun x => x < 256) b -> stfu8_decode (stfu8_encode b) = Some b.
Proof. exact stfu8_roundtrip. Qed.
Print Assumptions C10_stfu8.

(* JSON format, STFU-8 layer (serde_json assumed to transport strings unchanged): paths and
   arguments are written as escaped strings and decoded back to the same value *)
Theorem C10_json_roundtrip : forall p : list N,
  path_ok p -> path_from_escaped (path_to_escaped p) = POk p.
Proof. exact json_path_roundtrip. Qed.
Print Assumptions C10_json_roundtrip.

(* Text format: reading what write_as_text wrote gives back exactly the header and the groups,
   and a clean end of the report. *)
Theorem C10_text_roundtrip :
  forall (human : N -> list N) (TS : Type) (fmt_ts : TS -> list N) (parse_ts : list N -> option TS)
         (ts_ok : TS -> Prop),
  (forall n, human n <> [] /\
             Forall (fun b => 32 <= b < 127 /\ b <> 42 /\ b <> 41 /\ b <> 58) (human n)) ->
  (forall t, ts_ok t -> Forall (fun b => 32 <= b < 127) (fmt_ts t) /\
                        parse_ts (str_trim (fmt_ts t)) = Some t) ->
  forall (h : header TS) (gs : list group),
  header_ok TS ts_ok h -> Forall group_ok gs ->
  read_report TS parse_ts (write_text human TS fmt_ts h gs) = RepText TS h gs GEnd.
Proof. exact text_roundtrip. Qed.
Print Assumptions C10_text_roundtrip.

(* Truncation: EVERY proper prefix of a written report that ends strictly inside the text of a group (at
   least one byte of the group present, at least one missing — including a missing final line feed) is read
   as: the header, exactly the complete groups before the cut, then an error. *)
Theorem C10_truncation :
  forall (human : N -> list N) (TS : Type) (fmt_ts : TS -> list N) (parse_ts : list N -> option TS)
         (ts_ok : TS -> Prop),
  (forall n, human n <> [] /\
             Forall (fun b => 32 <= b < 127 /\ b <> 42 /\ b <> 41 /\ b <> 58) (human n)) ->
  (forall t, ts_ok t -> Forall (fun b => 32 <= b < 127) (fmt_ts t) /\
                        parse_ts (str_trim (fmt_ts t)) = Some t) ->
  forall (h : header TS) (gs : list group) (g : group) (k : nat),
  header_ok TS ts_ok h -> Forall group_ok gs -> group_ok g -> g_files g <> [] ->
  (0 < k < length (write_group human g))%nat ->
  read_report TS parse_ts
    (write_header human TS fmt_ts h ++ flat_map (write_group human) gs ++ firstn k (write_group human g))
  = RepText TS h gs GErr.
Proof. exact truncation. Qed.
Print Assumptions C10_truncation.

(* Regression for K4: the old witness (one path /ab, cut before the final "b" and the line feed, k = 27) and
   the same report with only the final line feed missing (k = 28, e.g. a hand-edited file) are rejected. *)
Example C10_K4_regression :
  read_report unit parse_demo
    (write_header human_demo unit fmt_demo k4_header ++ firstn 27%nat (write_group human_demo k4_group))
  = RepText unit k4_header [] GErr /\
  read_report unit parse_demo
    (write_header human_demo unit fmt_demo k4_header ++ firstn 28%nat (write_group human_demo k4_group))
  = RepText unit k4_header [] GErr /\
  read_report unit parse_demo
    (write_header human_demo unit fmt_demo k4_header ++ write_group human_demo k4_group)
  = RepText unit k4_header [k4_group] GEnd.
Proof. vm_compute. repeat split. Qed.

(* Non-vacuity: the hypotheses are satisfiable and the theorems apply to a non-trivial report
   (paths with trailing space, line feed, invalid UTF-8; an argument that needs $'...' quoting). *)
Definition ex_header : header unit :=
  mkHeader unit [48; 46; 51; 53; 46; 48] tt [[102; 99]; [97; 39; 10; 255]] [47; 119; 32]
           (Some (mkStats 2 3 82 1 41 0 0)).
Definition ex_groups : list group :=
  [mkGroup [73; 22; 171] 41 [[47; 97; 32]; [47; 98; 10; 99; 47; 255]]; mkGroup [1] 0 [[47; 46; 46; 47; 197; 188]]].
Example C10_ex_roundtrip :
  read_report unit parse_demo (write_text human_demo unit fmt_demo ex_header ex_groups)
  = RepText unit ex_header ex_groups GEnd.
Proof. vm_compute. reflexivity. Qed.
Example C10_ex_cut_in_first_group :
  read_report unit parse_demo
    (write_header human_demo unit fmt_demo ex_header ++ firstn 30%nat (write_group human_demo (hd k4_group ex_groups)))
  = RepText unit ex_header [] GErr.
Proof. vm_compute. reflexivity. Qed.
Example C10_ex_path_norm :
  path_norm [47; 97; 47; 47; 98; 47; 46; 47; 99; 47] = [47; 97; 47; 98; 47; 99] /\
  path_norm [47; 97; 32] = [47; 97; 32] /\ path_from_escaped [47; 92; 120; 48; 48] = PPanic.
Proof. vm_compute. repeat split. Qed.
