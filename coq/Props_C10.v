(* Props_C10.v — TEMPORARY first version (STFU-8 layer only); completed below. *)
From FV Require Import Base TextModel TextProofs.
Open Scope N_scope.
Theorem C10_stfu8 : forall b : list N, Forall (fun x => x < 256) b -> stfu8_decode (stfu8_encode b) = Some b.
Proof. exact stfu8_roundtrip. Qed.
Print Assumptions C10_stfu8.
