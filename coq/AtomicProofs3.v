(* AtomicProofs3.v — engine A, part 3: RefLink (linux_reflink) and Move (move_rename / move_copy,
   create_dir_all), plus the resolve lemmas they need. *)
From FV Require Import Base FsModel AtomicModel AtomicProofs AtomicProofs2.
Open Scope N_scope.

(* ---------------------------------------------------------------- more natural-semantics lemmas *)
Lemma safe_Do_query_eval {R} (P : fs -> Prop) (Q : fs -> R -> nat -> nat -> Prop) c k s w nf :
  is_query c = true -> P s ->
  safe P Q (k (fst (do_call None c s))) s w nf ->
  safe P Q (Do c k) s w nf.
Proof.
  intros Hq HP Hn. cbn [safe]. split; [exact HP|]. split.
  - rewrite mids_nocopy. + intros m []. + intros a b now. destruct c; cbn [is_query] in Hq; congruence.
  - intros f Hf. rewrite (Hf Hq).
    assert (E : snd (do_call None c s) = s).
    { cbn [do_call]. unfold nat_call. destruct c; cbn [is_query] in Hq; try discriminate; cbn [ncall nat_ncall]; reflexivity. }
    rewrite E. exact Hn.
Qed.

Lemma exists_eval a s : clean a -> fst (do_call None (Exists a) s) = if exists_follow s a then ROk else RErr ENOENT.
Proof. intros Ha. cbn [do_call]. unfold nat_call. cbn [ncall]. rewrite norm_of_clean by auto. reflexivity. Qed.
Lemma exists_eval_norm a s : fst (do_call None (Exists a) s) = if exists_follow s (norm a) then ROk else RErr ENOENT.
Proof. reflexivity. Qed.
Lemma lexists_eval_norm a s : fst (do_call None (LExists a) s) = if lexists s (norm a) then ROk else RErr ENOENT.
Proof. reflexivity. Qed.
Lemma openr_file a s i : clean a -> names s a = Some (NFile i) -> fst (do_call None (OpenR a) s) = ROk.
Proof.
  intros Ha Ea. cbn [do_call]. unfold nat_call. cbn [ncall]. rewrite norm_of_clean by auto. cbn [nat_ncall fst].
  now rewrite (follow_file _ _ _ Ea).
Qed.
Lemma exists_dir a s : clean a -> names s a = Some NDir -> fst (do_call None (Exists a) s) = ROk.
Proof.
  intros Ha Ea. rewrite exists_eval by auto. unfold exists_follow. now rewrite (follow_dir _ _ Ea).
Qed.
Lemma utimes_dir a mt s : clean a -> names s a = Some NDir -> do_call None (Utimes a mt) s = (ROk, s).
Proof.
  intros Ha Ea. cbn [do_call]. unfold nat_call. cbn [ncall]. rewrite norm_of_clean by auto. cbn [nat_ncall].
  now rewrite (follow_dir _ _ Ea).
Qed.
Lemma utimes_file a mt s i d : clean a -> names s a = Some (NFile i) -> inodes s i = Some d ->
  do_call None (Utimes a mt) s = (ROk, set_inode s i (mkInode (ibytes d) mt)).
Proof.
  intros Ha Ea Ed. cbn [do_call]. unfold nat_call. cbn [ncall]. rewrite norm_of_clean by auto. cbn [nat_ncall].
  now rewrite (follow_file _ _ _ Ea), Ed.
Qed.
Lemma create_new a now s : clean a -> names s a = None -> is_dir s (parent a) = true ->
  do_call None (Create a now) s = (ROk, create_at s a (mkInode [] now)).
Proof.
  intros Ha Ea Hd. cbn [do_call]. unfold nat_call. cbn [ncall]. rewrite norm_of_clean by auto. cbn [nat_ncall].
  unfold write_target. now rewrite (follow_none _ _ Ea), Hd.
Qed.
Lemma create_existing a now s i : clean a -> names s a = Some (NFile i) -> do_call None (Create a now) s = (ROk, s).
Proof.
  intros Ha Ea. cbn [do_call]. unfold nat_call. cbn [ncall]. rewrite norm_of_clean by auto. cbn [nat_ncall].
  unfold write_target. now rewrite (follow_file _ _ _ Ea).
Qed.
Lemma clone_ok a b now s i d j : clean a -> clean b -> names s a = Some (NFile i) -> inodes s i = Some d ->
  names s b = Some (NFile j) -> do_call None (CloneTo a b now) s = (ROk, set_inode s j (mkInode (ibytes d) now)).
Proof.
  intros Ha Hb Ea Ed Eb. cbn [do_call]. unfold nat_call. cbn [ncall]. rewrite !norm_of_clean by auto. cbn [nat_ncall].
  unfold src_bytes. rewrite (file_bytes_file _ _ _ _ Ea Ed), (follow_file _ _ _ Eb). reflexivity.
Qed.
Lemma rename_over a b s i j : clean a -> clean b -> names s a = Some (NFile i) -> names s b = Some (NFile j) -> i <> j ->
  is_dir s (parent b) = true -> do_call None (Rename a b) s = (ROk, set_name (set_name s a None) b (Some (NFile i))).
Proof.
  intros Ha Hb Ea Eb Hij Hd. cbn [do_call]. unfold nat_call. cbn [ncall]. rewrite !norm_of_clean by auto. cbn [nat_ncall].
  rewrite Ea, Eb, Hd. cbn [negb node_is_file_same]. destruct (N.eqb_spec i j); [contradiction|reflexivity].
Qed.

(* create_at *)
Lemma names_create_same s p d : names (create_at s p d) p = Some (NFile (next s)).
Proof. cbn [names create_at]. apply upd_names_same. Qed.
Lemma names_create_other s p d q : p <> q -> names (create_at s p d) q = names s q.
Proof. intros H. cbn [names create_at]. now apply upd_names_other. Qed.
Lemma inodes_create_same s p d : inodes (create_at s p d) (next s) = Some d.
Proof. cbn [inodes create_at]. apply upd_inodes_same. Qed.
Lemma inodes_create_other s p d i : next s <> i -> inodes (create_at s p d) i = inodes s i.
Proof. intros H. cbn [inodes create_at]. now apply upd_inodes_other. Qed.

(* ---------------------------------------------------------------- resolve under state changes *)
(* a dangling chain ends at the newly created file *)
Lemma resolve_create fuel s p q d : resolve fuel s p = RDangling q ->
  resolve fuel (create_at s q d) p = RFound q (NFile (next s)).
Proof.
  revert p; induction fuel as [|f IH]; intros p; cbn [resolve].
  - destruct (names s p) as [[i| |t]|] eqn:E; try discriminate. intros H; injection H as <-.
    now rewrite names_create_same.
  - destruct (names s p) as [[i| |t]|] eqn:E; try discriminate.
    + intros H. pose proof (resolve_dangling_names _ _ _ _ H) as Hq.
      assert (q <> p) by congruence. rewrite names_create_other, E by auto. apply IH; auto.
    + intros H; injection H as <-. now rewrite names_create_same.
Qed.

(* removing a name that is not a link and not the end of the chain does not disturb the resolution *)
Lemma resolve_unlink_other fuel s p q n x nx : resolve fuel s p = RFound q n -> names s x = Some nx ->
  (forall t, nx <> NLink t) -> x <> q -> resolve fuel (set_name s x None) p = RFound q n.
Proof.
  intros H Hx Hnl Hxq. revert p H; induction fuel as [|f IH]; intros p; cbn [resolve].
  - destruct (names s p) as [[i| |t]|] eqn:E; try discriminate; intros H; injection H as <- <-;
      rewrite names_set_other, E by congruence; reflexivity.
  - destruct (names s p) as [[i| |t]|] eqn:E; try discriminate.
    + intros H; injection H as <- <-. rewrite names_set_other, E by congruence; reflexivity.
    + intros H; injection H as <- <-. rewrite names_set_other, E by congruence; reflexivity.
    + intros H. assert (x <> p) by (intros ->; rewrite E in Hx; injection Hx as <-; eapply Hnl; reflexivity).
      rewrite names_set_other, E by auto. apply IH; auto.
Qed.

(* only directories were added since the base state: a path that did not resolve there cannot resolve to a
   regular file now *)
Lemma dirs_added_refl s : dirs_added s s.
Proof. repeat split; auto. Qed.
Lemma dirs_added_trans a b c : dirs_added a b -> dirs_added b c -> dirs_added a c.
Proof.
  intros (H1 & I1 & L1 & N1) (H2 & I2 & L2 & N2). repeat split; try congruence.
  intros q. destruct (H1 q) as [E1|[E1 E1']], (H2 q) as [E2|[E2 E2']]; try (left; congruence); right; split; congruence.
Qed.
Lemma dirs_added_mkdir b s d : dirs_added b s -> names s d = None -> dirs_added b (set_name s d (Some NDir)).
Proof.
  intros (H1 & I1 & L1 & N1) Hd. repeat split; auto. intros q.
  destruct (path_eqb_spec d q) as [->|Hn].
  - rewrite names_set_same. destruct (H1 q) as [E|[E E']]; [right; split; congruence|congruence].
  - rewrite names_set_other by auto. apply H1.
Qed.
Lemma dirs_added_keeps b s q n : dirs_added b s -> names b q = Some n -> names s q = Some n.
Proof. intros (H1 & _) E. destruct (H1 q) as [E1|[E1 _]]; congruence. Qed.

Lemma resolve_dirs_added fuel b s p : dirs_added b s ->
  (forall q n, resolve fuel b p <> RFound q n) -> forall q i, resolve fuel s p <> RFound q (NFile i).
Proof.
  intros Hd. revert p; induction fuel as [|f IH]; intros p Hb q i; cbn [resolve] in *.
  - destruct Hd as (H1 & _). destruct (H1 p) as [E|[E E']].
    + rewrite E. destruct (names b p) as [[j| |t]|]; try congruence; exfalso; eapply Hb; reflexivity.
    + rewrite E'. congruence.
  - pose proof Hd as (H1 & _). destruct (H1 p) as [E|[E E']].
    + rewrite E. destruct (names b p) as [[j| |t]|]; try congruence; try (exfalso; eapply Hb; reflexivity).
      apply IH. exact Hb.
    + rewrite E'. congruence.
Qed.
Lemma not_lexists_no_file b s p : dirs_added b s -> lexists b p = false -> forall q i, follow s p <> RFound q (NFile i).
Proof.
  intros Hd He q i. unfold lexists in He. destruct (names b p) eqn:E; [discriminate|].
  destruct Hd as (H1 & _). unfold follow, LINK_FUEL. cbn [resolve]. destruct (H1 p) as [E1|[_ E1]]; rewrite E1, ?E; congruence.
Qed.
Lemma not_exists_no_file b s p : dirs_added b s -> exists_follow b p = false -> forall q i, follow s p <> RFound q (NFile i).
Proof.
  intros Hd He. apply resolve_dirs_added with (b := b); auto.
  intros q n Hc. unfold exists_follow, follow in He. rewrite Hc in He. discriminate.
Qed.

(* ---------------------------------------------------------------- RefLink *)
Section RefLink.
  Variables (s : fs) (t a tmp : path) (mt pmt now1 now2 : Z) (i0 : N) (d0 : inode) (it : N) (dt : inode).
  Let c := FRefLink t a tmp mt pmt now1 now2.
  Hypothesis Ea : names s a = Some (NFile i0).
  Hypothesis Ed : inodes s i0 = Some d0.
  Hypothesis Ca : clean a.
  Hypothesis Ct : clean t.
  Hypothesis Ctmp : clean tmp.
  Hypothesis Etmp : names s tmp = None.
  Hypothesis Hta : t <> a.
  Hypothesis Httmp : t <> tmp.
  Hypothesis Hatmp : a <> tmp.
  Hypothesis Hpa : parent a <> a.
  Hypothesis Hptmp : parent a <> tmp.
  Hypothesis Hpp : parent tmp = parent a.
  Hypothesis Hdir : is_dir s (parent a) = true.
  Hypothesis Et : names s t = Some (NFile it).
  Hypothesis Edt : inodes s it = Some dt.
  Hypothesis Eb : ibytes dt = ibytes d0.
  Hypothesis Hwf : wf s.
  Hypothesis Hiti0 : it <> i0.

  Let nx := next s.
  Lemma i0_lt : i0 <> nx. Proof. destruct Hwf as [H _]. specialize (H _ _ Ea). unfold nx. lia. Qed.
  Lemma it_lt : it <> nx. Proof. destruct Hwf as [H _]. specialize (H _ _ Et). unfold nx. lia. Qed.
  Lemma pa_dir : names s (parent a) = Some NDir.
  Proof. unfold is_dir in Hdir. destruct (names s (parent a)) as [[| |]|]; congruence. Qed.

  Definition RG (st : fs) : Prop :=
    (forall q, q <> a -> q <> tmp -> names st q = names s q) /\
    (forall i, i <> i0 -> i <> nx -> inodes st i = inodes s i) /\
    (exists j dj, names st a = Some (NFile j) /\ inodes st j = Some dj /\ ibytes dj = ibytes d0).

  Lemma RG_P st : RG st -> Pc c s st.
  Proof.
    intros (Hn & Hi & j & dj & Eaj & Edj & Ebj). split.
    - right; right. exists (ibytes d0). split; [eapply file_bytes_file; eauto|].
      cbn. rewrite (file_bytes_file st a j dj) by auto. now rewrite Ebj.
    - cbn. split; [apply Hn; auto|]. intros i Hi'. rewrite Et in Hi'. injection Hi' as <-.
      apply Hi; [exact Hiti0|exact it_lt].
  Qed.
  Lemma RG_view st : RG st -> view_of st a = view_of s a.
  Proof.
    intros (_ & _ & j & dj & Eaj & Edj & Ebj). unfold view_of. rewrite Eaj, Edj, Ea, Ed. now rewrite Ebj.
  Qed.
  Lemma RG_pdir st : RG st -> names st (parent a) = Some NDir.
  Proof. intros (Hn & _). rewrite Hn by auto. apply pa_dir. Qed.
  Lemma RG_repl st : RG st -> replaced c s st.
  Proof. intros H. destruct (RG_P st H) as [[H1|[H1|H1]] _]; auto.
    - destruct H as (_ & _ & j & dj & Eaj & Edj & Ebj). exists (ibytes d0). split; [eapply file_bytes_file; eauto|].
      cbn. rewrite (file_bytes_file st a j dj) by auto. now rewrite Ebj.
    - destruct H as (_ & _ & j & dj & Eaj & Edj & Ebj). exists (ibytes d0). split; [eapply file_bytes_file; eauto|].
      cbn. rewrite (file_bytes_file st a j dj) by auto. now rewrite Ebj.
  Qed.

  Lemma QErr_clean st w nf : RG st -> names st tmp = None -> Qc c s st IErr w nf.
  Proof. intros H E. split; [discriminate|]. intros _. left. split; [apply RG_view; auto|exact E]. Qed.
  Lemma QErr_dirty st w nf : RG st -> (1 <= w)%nat -> (2 <= nf)%nat -> Qc c s st IErr w nf.
  Proof. intros H Hw Hf. split; [discriminate|]. intros _. right. repeat split; auto. apply RG_view; auto. Qed.
  Lemma QOk_clean st w nf : RG st -> names st tmp = None -> Qc c s st IOk w nf.
  Proof. intros H E. split; [|discriminate]. intros _. split; [apply RG_repl; auto|]. cbn. auto. Qed.
  Lemma QOk_dirty st w nf : RG st -> (1 <= w)%nat -> Qc c s st IOk w nf.
  Proof. intros H Hw. split; [|discriminate]. intros _. split; [apply RG_repl; auto|]. cbn. auto. Qed.

  Definition rl_finish (res0 : io) : prog io :=
    Do (Utimes (parent a) pmt) (fun ru => match ru with ROk => Ret res0 | RErr _ => Warn (Ret res0) end).

  Lemma finish_safe st res0 w nf : RG st ->
    (forall w' nf', (w <= w')%nat -> (nf <= nf')%nat -> Qc c s st res0 w' nf') ->
    safe (Pc c s) (Qc c s) (rl_finish res0) st w nf.
  Proof.
    intros HR HQ. unfold rl_finish.
    apply safe_Do_nocopy; try (intros; discriminate); try reflexivity; [apply RG_P; auto| |].
    - intros ft. cbn [safe]. split; [apply RG_P; auto|apply HQ; lia].
    - rewrite utimes_dir by (auto using clean_parent, RG_pdir). cbn [fst snd safe].
      split; [apply RG_P; auto|apply HQ; lia].
  Qed.

  (* the states of linux_reflink *)
  Let s1 := create_at s tmp (mkInode [] now1).
  Let s1u := set_name s1 tmp None.
  Let s2 := set_inode s1 nx (mkInode (ibytes d0) now1).
  Let s3 := set_name (set_name s2 tmp None) a (Some (NFile nx)).
  Let s4 := set_inode s2 i0 (mkInode (ibytes dt) now2).
  Let s5 := set_name s4 tmp None.

  Ltac rgnames := intros; unfold s5, s4, s3, s2, s1u, s1; nsimp; rewrite ?names_create_other by (auto; congruence); nsimp; auto.
  Ltac rginodes := intros; unfold s5, s4, s3, s2, s1u, s1; nsimp;
    rewrite ?inodes_set_inode_other by (auto; congruence); nsimp;
    rewrite ?inodes_set_inode_other by (auto; congruence); nsimp;
    rewrite ?inodes_create_other by (auto; congruence); auto.

  Lemma RG_s : RG s.
  Proof. split; [auto|]. split; [auto|]. eauto. Qed.
  Lemma s1_a' : names s1 a = Some (NFile i0). Proof. unfold s1. rewrite names_create_other by congruence. exact Ea. Qed.
  Lemma s1_i0 : inodes s1 i0 = Some d0. Proof. unfold s1. rewrite inodes_create_other by (apply not_eq_sym, i0_lt). exact Ed. Qed.
  Lemma s1_tmp' : names s1 tmp = Some (NFile nx). Proof. unfold s1. apply names_create_same. Qed.
  Lemma RG_s1 : RG s1.
  Proof.
    split; [rgnames|]. split; [rginodes|]. exists i0, d0. auto using s1_a', s1_i0.
  Qed.
  Lemma RG_s1u : RG s1u.
  Proof.
    split; [rgnames|]. split; [rginodes|]. exists i0, d0. split; [unfold s1u; nsimp; apply s1_a'|]. split; [apply s1_i0|auto].
  Qed.
  Lemma s2_a : names s2 a = Some (NFile i0). Proof. apply s1_a'. Qed.
  Lemma s2_tmp : names s2 tmp = Some (NFile nx). Proof. apply s1_tmp'. Qed.
  Lemma s2_i0 : inodes s2 i0 = Some d0.
  Proof. unfold s2. rewrite inodes_set_inode_other by (apply not_eq_sym, i0_lt). apply s1_i0. Qed.
  Lemma s2_t : names s2 t = Some (NFile it). Proof. unfold s2, s1. nsimp. rewrite names_create_other by congruence. exact Et. Qed.
  Lemma s2_it : inodes s2 it = Some dt.
  Proof. unfold s2, s1. rewrite inodes_set_inode_other by (apply not_eq_sym, it_lt).
    rewrite inodes_create_other by (apply not_eq_sym, it_lt). exact Edt. Qed.
  Lemma s2_dir : is_dir s2 (parent a) = true.
  Proof. unfold is_dir, s2, s1. nsimp. rewrite names_create_other by congruence. now rewrite pa_dir. Qed.
  Lemma RG_s2 : RG s2.
  Proof. split; [rgnames|]. split; [rginodes|]. exists i0, d0. auto using s2_a, s2_i0. Qed.
  Lemma RG_s3 : RG s3.
  Proof.
    split; [rgnames|]. split; [rginodes|]. exists nx, (mkInode (ibytes d0) now1).
    split; [unfold s3; now nsimp|]. split; [|reflexivity]. unfold s3, s2. nsimp. apply inodes_set_inode_same.
  Qed.
  Lemma s3_tmp : names s3 tmp = None. Proof. unfold s3. now nsimp. Qed.
  Lemma s4_a : names s4 a = Some (NFile i0). Proof. apply s1_a'. Qed.
  Lemma s4_i0 : inodes s4 i0 = Some (mkInode (ibytes dt) now2). Proof. unfold s4. apply inodes_set_inode_same. Qed.
  Lemma s4_tmp : names s4 tmp = Some (NFile nx). Proof. apply s1_tmp'. Qed.
  Lemma RG_s4 : RG s4.
  Proof. split; [rgnames|]. split; [rginodes|]. exists i0, (mkInode (ibytes dt) now2). auto using s4_a, s4_i0. Qed.
  Lemma RG_s5 : RG s5.
  Proof.
    split; [rgnames|]. split; [rginodes|]. exists i0, (mkInode (ibytes dt) now2).
    split; [unfold s5; nsimp; apply s4_a|]. split; [apply s4_i0|exact Eb].
  Qed.
  Lemma RG_utimes st d : RG st -> names st a = Some (NFile i0) -> ibytes d = ibytes d0 -> RG (set_inode st i0 d).
  Proof.
    intros (Hn & Hi & _) E Hb. split; [intros; nsimp; auto|]. split.
    - intros i H1 H2. rewrite inodes_set_inode_other by congruence. auto.
    - exists i0, d. nsimp. split; [exact E|]. split; [apply inodes_set_inode_same|exact Hb].
  Qed.

  Lemma reflink_body_safe w nf : safe (Pc c s) (Qc c s) (reflink t a tmp mt pmt now1 now2) s w nf.
  Proof.
    assert (Cpa : clean (parent a)) by auto using clean_parent.
    unfold reflink.
    apply safe_Do_query_eval; [reflexivity|apply RG_P, RG_s|].
    rewrite (exists_dir _ _ Cpa pa_dir).
    fold (rl_finish IErr). unfold linux_reflink.
    (* the tails *)
    assert (Tail_rm : forall st w nf, RG st ->
              (names st tmp = None \/ exists n, names st tmp = Some n /\ n <> NDir) ->
              (names st tmp = None \/ (1 <= nf)%nat) ->
              safe (Pc c s) (Qc c s) (remove_temporary tmp (rl_finish IErr)) st w nf).
    { intros st w0 nf0 HR Hcase Hnf. unfold remove_temporary.
      apply safe_Do_nocopy; try (intros; discriminate); try reflexivity; [apply RG_P; auto| |].
      - intros ft. cbn [safe]. apply finish_safe; auto. intros w' nf' Hw Hf.
        destruct Hnf as [E|Hnf]; [apply QErr_clean; auto|apply QErr_dirty; auto; lia].
      - destruct Hcase as [E|(n & E & Hn)].
        + (* nothing to remove: ENOENT, warning *)
          assert (Hu : do_call None (Unlink tmp) st = (RErr ENOENT, st)).
          { cbn [do_call]. unfold nat_call. cbn [ncall]. rewrite norm_of_clean by auto. cbn [nat_ncall]. now rewrite E. }
          rewrite Hu. cbn [fst snd safe]. apply finish_safe; auto. intros; apply QErr_clean; auto.
        + rewrite (unlink_ok _ _ _ Ctmp E Hn). cbn [fst snd].
          assert (HR' : RG (set_name st tmp None)).
          { destruct HR as (Hn' & Hi & j & dj & Eaj & Edj & Ebj). split; [intros; nsimp; auto|]. split; [auto|].
            exists j, dj. nsimp. auto. }
          apply finish_safe; auto. intros; apply QErr_clean; auto. now nsimp. }
    assert (Tail_undo : forall w nf, (1 <= nf)%nat -> safe (Pc c s) (Qc c s) (undo_dedupe tmp a (rl_finish IErr)) s2 w nf).
    { intros w0 nf0 Hnf. unfold undo_dedupe.
      apply safe_Do_nocopy; try (intros; discriminate); try reflexivity; [apply RG_P, RG_s2| |].
      - intros ft. cbn [safe]. apply finish_safe; [apply RG_s2|]. intros; apply QErr_dirty; [apply RG_s2|lia|lia].
      - rewrite (rename_over tmp a s2 nx i0) by (auto using s2_tmp, s2_a, s2_dir; apply not_eq_sym, i0_lt).
        cbn [fst snd]. fold s3. apply finish_safe; [apply RG_s3|]. intros; apply QErr_clean; [apply RG_s3|apply s3_tmp]. }
    (* OpenR a *)
    apply safe_Do_query_eval; [reflexivity|apply RG_P, RG_s|].
    rewrite (openr_file _ _ _ Ca Ea).
    (* Create tmp *)
    apply safe_Do_nocopy; try (intros; discriminate); try reflexivity; [apply RG_P, RG_s| |].
    { intros ft. apply Tail_rm; auto using RG_s. }
    rewrite create_new by (auto; rewrite Hpp; auto). cbn [fst snd]. fold s1.
    (* Clone a -> tmp *)
    apply safe_Do_nocopy; try (intros; discriminate); try reflexivity; [apply RG_P, RG_s1| |].
    { intros ft. apply Tail_rm; [apply RG_s1|right; exists (NFile nx); split; [apply s1_tmp'|discriminate]|right; lia]. }
    rewrite (clone_ok a tmp now1 s1 i0 d0 nx) by auto using s1_a', s1_i0, s1_tmp'. cbn [fst snd]. fold s2.
    (* OpenR t *)
    apply safe_Do_query_eval; [reflexivity|apply RG_P, RG_s2|].
    rewrite (openr_file _ _ _ Ct s2_t).
    (* Create a (exists) *)
    apply safe_Do_nocopy; try (intros; discriminate); try reflexivity; [apply RG_P, RG_s2| |].
    { intros ft. apply Tail_undo. lia. }
    rewrite (create_existing a now2 s2 i0) by auto using s2_a. cbn [fst snd].
    (* Clone t -> a *)
    apply safe_Do_nocopy; try (intros; discriminate); try reflexivity; [apply RG_P, RG_s2| |].
    { intros ft. apply Tail_undo. lia. }
    rewrite (clone_ok t a now2 s2 it dt i0) by auto using s2_t, s2_it, s2_a. cbn [fst snd]. fold s4.
    (* success: remove the temp, restore the timestamps *)
    assert (Tail_ok : forall st w nf, RG st -> names st a = Some (NFile i0) ->
              inodes st i0 = Some (mkInode (ibytes dt) now2) -> (names st tmp = None \/ ((1 <= w)%nat /\ (1 <= nf)%nat)) ->
              safe (Pc c s) (Qc c s) (Do (Utimes a mt) (fun ru => rl_finish (ok_of ru))) st w nf).
    { intros st w0 nf0 HR Eaa Ei Hc.
      apply safe_Do_nocopy; try (intros; discriminate); try reflexivity; [apply RG_P; auto| |].
      - intros ft. cbn [ok_of]. apply finish_safe; auto. intros w' nf' Hw Hf.
        destruct Hc as [E|[Hw0 Hf0]]; [apply QErr_clean; auto|apply QErr_dirty; auto; lia].
      - rewrite (utimes_file a mt st i0 _ Ca Eaa Ei). cbn [fst snd ok_of ibytes].
        assert (HR' : RG (set_inode st i0 (mkInode (ibytes dt) mt))) by (apply RG_utimes; auto).
        apply finish_safe; auto. intros w' nf' Hw Hf.
        destruct Hc as [E|[Hw0 Hf0]]; [apply QOk_clean; auto|apply QOk_dirty; auto; lia]. }
    unfold remove_temporary.
    apply safe_Do_nocopy; try (intros; discriminate); try reflexivity; [apply RG_P, RG_s4| |].
    - intros ft. cbn [safe]. apply Tail_ok; [apply RG_s4|apply s4_a|apply s4_i0|right; lia].
    - rewrite (unlink_ok tmp s4 (NFile nx)) by (auto using s4_tmp; discriminate). cbn [fst snd]. fold s5.
      apply Tail_ok; [apply RG_s5|unfold s5; nsimp; apply s4_a|apply s4_i0|left; unfold s5; now nsimp].
  Qed.
End RefLink.

Lemma reflink_safe sl t a tmp mt pmt now1 now2 s : pre (FRefLink t a tmp mt pmt now1 now2) s ->
  safe (Pc (FRefLink t a tmp mt pmt now1 now2) s) (Qc (FRefLink t a tmp mt pmt now1 now2) s)
       (prog_of sl (FRefLink t a tmp mt pmt now1 now2)) s 0 0.
Proof.
  intros (i0 & d0 & Ea & Ed & Hn & Hl & Hwf & Hti). cbn [victim] in *.
  pose proof (sr_facts s t a tmp d0 Hl) as (Ct & Ctmp & Etmp & Hta & Httmp & Hatmp & Hpa & Hptmp & Hpp & Hdir).
  pose proof (clean_norm _ Hn) as Ca.
  destruct Hl as (_ & _ & _ & _ & _ & _ & _ & _ & _ & _ & it & dt & Et & Edt & Eb).
  assert (Hiti0 : it <> i0) by (intros ->; apply Hti; exact Et).
  pose proof (RG_s s a tmp i0 d0 Ea Ed) as HR.
  cbn [prog_of]. eapply safe_prelude; eauto.
  - eapply RG_P; eauto.
  - intros nf'. eapply QErr_clean; eauto.
  - intros nf' _. eapply reflink_body_safe; eauto.
Qed.

(* ---------------------------------------------------------------- create_dir_all *)
Section Mkdirs.
  Context {R : Type}.
  Variables (P : fs -> Prop) (Q : fs -> R -> nat -> nat -> Prop) (b : fs) (k : res -> prog R).
  Hypothesis HP : forall st, dirs_added b st -> P st.
  Hypothesis HK : forall st r w nf, dirs_added b st -> safe P Q (k r) st w nf.

  Lemma mk_up_safe : forall pending, Forall clean pending ->
    forall st w nf, dirs_added b st -> safe P Q (mk_up pending k) st w nf.
  Proof.
    induction pending as [|d rest IH]; intros HF st w nf Hd; cbn [mk_up].
    - apply HK; auto.
    - inversion HF as [|? ? Cd Cr]; subst.
      assert (Herr : forall e w nf, safe P Q (match RErr e with
                 | ROk => mk_up rest k
                 | RErr EEXIST => Do (IsDir d) (fun q => match q with ROk => mk_up rest k | RErr _ => k (RErr EEXIST) end)
                 | RErr e0 => k (RErr e0) end) st w nf).
      { intros e w0 nf0. destruct e; try (apply HK; auto).
        apply safe_Do_query; [reflexivity|apply HP; auto|]. intros [|e']; [apply IH; auto|apply HK; auto]. }
      apply safe_Do_nocopy; try (intros; discriminate); try reflexivity; [apply HP; auto| |].
      + intros ft. apply Herr.
      + destruct (mkdir_nat d st Cd) as [[e He]|[Hn He]]; rewrite He; cbn [fst snd].
        * apply Herr.
        * apply IH; auto. apply dirs_added_mkdir; auto.
  Qed.

  Lemma mk_down_safe : forall fuel d pending, clean d -> Forall clean pending ->
    forall st w nf, dirs_added b st -> safe P Q (mk_down fuel d pending k) st w nf.
  Proof.
    induction fuel as [|f IH]; intros d pending Cd Cp st w nf Hd.
    - destruct d as [|c1 [|c2 d']]; cbn [mk_down]; try (apply mk_up_safe; auto).
      set (dd := c1 :: c2 :: d') in *.
      assert (Herr : forall e w nf, safe P Q (match RErr e with
                 | ROk => mk_up pending k
                 | RErr ENOENT => mk_up (dd :: pending) k
                 | RErr EEXIST => Do (IsDir dd) (fun q => match q with ROk => mk_up pending k | RErr _ => k (RErr EEXIST) end)
                 | RErr e0 => k (RErr e0) end) st w nf).
      { intros e w0 nf0. destruct e; try (apply HK; auto).
        - apply mk_up_safe; auto.
        - apply safe_Do_query; [reflexivity|apply HP; auto|]. intros [|e']; [apply mk_up_safe; auto|apply HK; auto]. }
      apply safe_Do_nocopy; try (intros; discriminate); try reflexivity; [apply HP; auto| |].
      + intros ft. apply Herr.
      + destruct (mkdir_nat dd st Cd) as [[e He]|[Hn He]]; rewrite He; cbn [fst snd].
        * apply Herr.
        * apply mk_up_safe; auto. apply dirs_added_mkdir; auto.
    - destruct d as [|c1 [|c2 d']]; cbn [mk_down]; try (apply mk_up_safe; auto).
      set (dd := c1 :: c2 :: d') in *.
      assert (Herr : forall e w nf, safe P Q (match RErr e with
                 | ROk => mk_up pending k
                 | RErr ENOENT => mk_down f (parent dd) (dd :: pending) k
                 | RErr EEXIST => Do (IsDir dd) (fun q => match q with ROk => mk_up pending k | RErr _ => k (RErr EEXIST) end)
                 | RErr e0 => k (RErr e0) end) st w nf).
      { intros e w0 nf0. destruct e; try (apply HK; auto).
        - apply IH; auto using clean_parent.
        - apply safe_Do_query; [reflexivity|apply HP; auto|]. intros [|e']; [apply mk_up_safe; auto|apply HK; auto]. }
      apply safe_Do_nocopy; try (intros; discriminate); try reflexivity; [apply HP; auto| |].
      + intros ft. apply Herr.
      + destruct (mkdir_nat dd st Cd) as [[e He]|[Hn He]]; rewrite He; cbn [fst snd].
        * apply Herr.
        * apply mk_up_safe; auto. apply dirs_added_mkdir; auto.
  Qed.

  Lemma mkdirs_of_safe tgt st w nf : dirs_added b st -> safe P Q (mkdirs_of tgt k) st w nf.
  Proof. intros Hd. unfold mkdirs_of, mkdirs. apply mk_down_safe; auto. apply norm_clean. Qed.
End Mkdirs.

(* ---------------------------------------------------------------- Move *)
Section Move.
  Variables (s : fs) (src tgt : path) (rn : bool) (now : Z) (i0 : N) (d0 : inode).
  Let c := FMove src tgt rn now.
  Let tg := norm tgt.
  Hypothesis Ea : names s src = Some (NFile i0).
  Hypothesis Ed : inodes s i0 = Some d0.
  Hypothesis Ca : clean src.
  Hypothesis Hwf : wf s.

  Lemma mv_i0 : i0 <> next s. Proof. destruct Hwf as [H _]. specialize (H _ _ Ea). lia. Qed.

  (* phase A: only directories were created so far *)
  Lemma A_src st : dirs_added s st -> names st src = Some (NFile i0) /\ inodes st i0 = Some d0 /\ next st = next s.
  Proof. intros Hd. split; [eapply dirs_added_keeps; eauto|]. destruct Hd as (_ & -> & _ & ->). auto. Qed.
  Lemma A_same st : dirs_added s st -> same_file s st src src.
  Proof.
    intros Hd. destruct (A_src st Hd) as (E & _). split; [congruence|]. intros i _. destruct Hd as (_ & -> & _). reflexivity.
  Qed.
  Lemma A_P st : dirs_added s st -> Pc c s st.
  Proof. intros Hd. split; [left; apply A_same; auto|exact I]. Qed.
  Lemma A_QErr st w nf : dirs_added s st -> Qc c s st IErr w nf.
  Proof. intros Hd. split; [discriminate|]. intros _. left. apply A_same; auto. Qed.

  (* a state in which the original is still in place (possibly with a partial copy somewhere new) *)
  Definition keeps_src (st : fs) : Prop := same_file s st src src.
  Lemma K_P st : keeps_src st -> Pc c s st.
  Proof. intros H. split; [left; exact H|exact I]. Qed.
  Lemma K_QErr st w nf : keeps_src st -> Qc c s st IErr w nf.
  Proof. intros H. split; [discriminate|]. intros _. left. exact H. Qed.

  Lemma repl_P st : file_bytes st tg = Some (ibytes d0) -> Pc c s st.
  Proof.
    intros H. split; [|exact I]. right; right. exists (ibytes d0). split; [eapply file_bytes_file; eauto|exact H].
  Qed.
  Lemma repl_QOk st w nf : file_bytes st tg = Some (ibytes d0) -> Qc c s st IOk w nf.
  Proof.
    intros H. split; [|discriminate]. intros _. split; [|exact I].
    exists (ibytes d0). split; [eapply file_bytes_file; eauto|exact H].
  Qed.

  (* what a (partial or complete) copy can do in a phase-A state in which the target does not resolve to a file *)
  Lemma created_keeps st q d : dirs_added s st -> names st q = None -> keeps_src (create_at st q d).
  Proof.
    intros Hd Hq. destruct (A_src st Hd) as (E & Ei & En).
    assert (q <> src) by congruence.
    split.
    - rewrite names_create_other by auto. congruence.
    - intros i Hi. rewrite Ea in Hi. injection Hi as <-. rewrite inodes_create_other by (rewrite En; apply not_eq_sym, mv_i0). congruence.
  Qed.

  Lemma partial_cases st n : dirs_added s st -> (forall q i, follow st tg <> RFound q (NFile i)) ->
    partial_copy st src tg now n = st \/
    exists q, names st q = None /\ partial_copy st src tg now n = create_at st q (mkInode (take n (ibytes d0)) now).
  Proof.
    intros Hd Hnf. destruct (A_src st Hd) as (E & Ei & En).
    unfold partial_copy. rewrite (follow_file _ _ _ E), Ei. unfold write_target.
    destruct (follow st tg) as [q [j| |t']|q|] eqn:F; auto.
    - exfalso. eapply Hnf. reflexivity.
    - destruct (is_dir st (parent q)); auto. right. exists q. split; [|reflexivity].
      eapply resolve_dangling_names. exact F.
  Qed.

  Lemma copy_cases st : dirs_added s st -> (forall q i, follow st tg <> RFound q (NFile i)) ->
    (exists e, do_call None (CopyTo src tgt now) st = (RErr e, st)) \/
    exists q, names st q = None /\ follow st tg = RDangling q /\
              do_call None (CopyTo src tgt now) st = (ROk, create_at st q (mkInode (ibytes d0) now)).
  Proof.
    intros Hd Hnf. destruct (A_src st Hd) as (E & Ei & En).
    cbn [do_call]. unfold nat_call. cbn [ncall]. rewrite (norm_of_clean src) by auto. fold tg. cbn [nat_ncall].
    rewrite (follow_file _ _ _ E), Ei. unfold write_target.
    destruct (follow st tg) as [q [j| |t']|q|] eqn:F; eauto.
    - exfalso. eapply Hnf. reflexivity.
    - destruct (is_dir st (parent q)); eauto. right. exists q. split; [|split; reflexivity].
      eapply resolve_dangling_names. exact F.
  Qed.

  Lemma move_copy_safe st w nf : dirs_added s st -> safe (Pc c s) (Qc c s) (move_copy src tgt now) st w nf.
  Proof.
    intros Hd. unfold move_copy.
    apply (mkdirs_of_safe (Pc c s) (Qc c s) st).
    - intros st' Hd'. apply A_P. eapply dirs_added_trans; eauto.
    - intros st' r w' nf' Hd'.
      assert (Hd2 : dirs_added s st') by (eapply dirs_added_trans; eauto).
      destruct r as [|e]; [|cbn [safe]; split; [apply A_P; auto|apply A_QErr; auto]].
      apply safe_Do_query_eval; [reflexivity|apply A_P; auto|].
      rewrite lexists_eval_norm. fold tg. destruct (lexists st' tg) eqn:Hex.
      { cbn [safe]. split; [apply A_P; auto|apply A_QErr; auto]. }
      pose proof (not_lexists_no_file st' st' tg (dirs_added_refl st') Hex) as Hnf.
      (* the copy *)
      cbn [safe]. split; [apply A_P; auto|]. split.
      + intros m Hm. unfold mids in Hm. cbn [ncall] in Hm. rewrite (norm_of_clean src) in Hm by auto. fold tg in Hm.
        apply in_map_iff in Hm. destruct Hm as (n & <- & _).
        destruct (partial_cases st' (N.of_nat n) Hd2 Hnf) as [->|(q & Hq & ->)]; [apply A_P; auto|].
        apply K_P. apply created_keeps; auto.
      + intros [ft|] _.
        * rewrite do_call_fault by reflexivity. cbn [fst snd ncall fail_nstate]. rewrite (norm_of_clean src) by auto. fold tg.
          destruct (fpartial ft) as [n|]; [|cbn [safe]; split; [apply A_P; auto|apply A_QErr; auto]].
          destruct (partial_cases st' n Hd2 Hnf) as [->|(q & Hq & ->)]; cbn [safe].
          -- split; [apply A_P; auto|apply A_QErr; auto].
          -- split; [apply K_P|apply K_QErr]; apply created_keeps; auto.
        * destruct (copy_cases st' Hd2 Hnf) as [(e & ->)|(q & Hq & Fq & ->)]; cbn [fst snd].
          { cbn [safe]. split; [apply A_P; auto|apply A_QErr; auto]. }
          set (st2 := create_at st' q (mkInode (ibytes d0) now)).
          assert (K2 : keeps_src st2) by (apply created_keeps; auto).
          assert (F2 : follow st2 tg = RFound q (NFile (next st'))) by (apply resolve_create; exact Fq).
          assert (B2 : file_bytes st2 tg = Some (ibytes d0)).
          { unfold file_bytes. rewrite F2. unfold st2. rewrite inodes_create_same. reflexivity. }
          destruct (A_src st' Hd2) as (E' & Ei' & En').
          assert (Esrc2 : names st2 src = Some (NFile i0)) by (destruct K2 as [K2 _]; congruence).
          (* delete the source *)
          apply safe_Do_nocopy; try (intros; discriminate); try reflexivity; [apply K_P; auto| |].
          -- intros ft. cbn [ok_of safe]. split; [apply K_P; auto|apply K_QErr; auto].
          -- rewrite (unlink_ok src st2 (NFile i0)) by (auto; discriminate). cbn [fst snd ok_of safe].
             assert (B3 : file_bytes (set_name st2 src None) tg = Some (ibytes d0)).
             { unfold file_bytes, follow.
               rewrite (resolve_unlink_other LINK_FUEL st2 tg q (NFile (next st')) src (NFile i0)); auto; try discriminate.
               - nsimp. unfold st2. rewrite inodes_create_same. reflexivity.
               - congruence. }
             split; [apply repl_P; auto|apply repl_QOk; auto].
    - apply dirs_added_refl.
  Qed.

  Lemma move_body_safe (b : bool) w nf :
    safe (Pc c s) (Qc c s)
      (if b then move_rename src tgt (fun r => match r with IOk => Ret IOk | IErr => move_copy src tgt now end)
       else move_copy src tgt now) s w nf.
  Proof.
    destruct b; [|apply move_copy_safe, dirs_added_refl].
    unfold move_rename.
    apply (mkdirs_of_safe (Pc c s) (Qc c s) s); [intros; apply A_P; auto| |apply dirs_added_refl].
    intros st r w' nf' Hd. destruct r as [|e']; [|apply move_copy_safe; auto].
    apply safe_Do_query; [reflexivity|apply A_P; auto|].
    intros [|e]; [apply move_copy_safe; auto|].
    destruct (A_src st Hd) as (E & Ei & En).
    apply safe_Do_nocopy; try (intros; discriminate); try reflexivity; [apply A_P; auto| |].
    - intros ft. cbn [ok_of]. apply move_copy_safe; auto.
    - assert (Ctg : clean tg) by apply norm_clean.
      assert (Hren : do_call None (Rename src tgt) st = do_call None (Rename src tg) st).
      { cbn [do_call]. unfold nat_call. cbn [ncall]. unfold tg. now rewrite norm_idem. }
      rewrite Hren.
      destruct (rename_nat src tg st Ca Ctg) as [(e' & ->)|(n & En' & Hnd & [->|(-> & Etg & i & Hi)])]; cbn [fst snd ok_of].
      + apply move_copy_safe; auto.
      + rewrite E in En'. injection En' as <-.
        assert (B : file_bytes (set_name (set_name st src None) tg (Some (NFile i0))) tg = Some (ibytes d0)).
        { eapply file_bytes_file; [now nsimp|]. nsimp. exact Ei. }
        cbn [safe]. split; [apply repl_P; auto|apply repl_QOk; auto].
      + rewrite E in En'. injection En' as <-.
        assert (B : file_bytes st tg = Some (ibytes d0)) by (eapply file_bytes_file; eauto).
        cbn [safe]. split; [apply repl_P; auto|apply repl_QOk; auto].
  Qed.
End Move.

Lemma move_safe sl src tgt rn now s : pre (FMove src tgt rn now) s ->
  safe (Pc (FMove src tgt rn now) s) (Qc (FMove src tgt rn now) s) (prog_of sl (FMove src tgt rn now)) s 0 0.
Proof.
  intros (i0 & d0 & Ea & Ed & Hn & Hwf). cbn [victim] in *. pose proof (clean_norm _ Hn) as Ca.
  cbn [prog_of]. eapply safe_prelude; eauto.
  - eapply A_P; eauto using dirs_added_refl.
  - intros nf'. eapply A_QErr; eauto using dirs_added_refl.
  - intros nf' _. eapply move_body_safe; eauto.
Qed.

(* ---------------------------------------------------------------- all six command programs *)
Theorem cmd_safe sl c s : pre c s -> safe (Pc c s) (Qc c s) (prog_of sl c) s 0 0.
Proof.
  destruct c; intros H.
  - apply remove_safe; auto.
  - apply softlink_safe; auto.
  - apply hardlink_safe; auto.
  - apply reflink_safe; auto.
  - apply move_safe; auto.
Qed.
