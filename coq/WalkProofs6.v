(* WalkProofs6.v — the scan depends on the input paths only through walk.rs `absolute` (canonical parent, physical `..`),
   and the spellings `r/.`, `r/x/..` (x a real sub-directory), and any two spellings that canonicalise to the same directory
   (through a symbolic link, with `./`) name the same scanned root — the spelling clause of C06 at the level of the walk.
   `..` is resolved PHYSICALLY (after following links: realpath), never lexically: ex_link_dotdot_physical. *)
From FV Require Import Base WalkModel.
Open Scope N_scope.

(* a directory node at p *)
Definition dir_at (t : tree) (p : path) : Prop := exists nd, lookup t p = Some nd /\ n_kind nd = KDir.

Lemma comp_eqb_refl c : comp_eqb c c = true.
Proof. unfold comp_eqb. destruct (comp_eq_dec c c); congruence. Qed.

Lemma dot_not_dotdot : comp_eqb dotdot dot = false.
Proof. reflexivity. Qed.

(* appending "." to a path that resolves to a directory *)
Lemma realpath_app_dot t : forall f l cur rest p,
  realpath f l t cur rest = Some p -> dir_at t p ->
  realpath (S f) l t cur (rest ++ [dot]) = Some p.
Proof.
  induction f as [|f IH]; intros l cur rest p H Hd; [discriminate|].
  destruct rest as [|c rest'].
  - cbn [realpath] in H. inversion H; subst. cbn [app realpath]. rewrite comp_eqb_refl.
    destruct f; reflexivity.
  - cbn [realpath] in H. change ((c :: rest') ++ [dot]) with (c :: (rest' ++ [dot])).
    cbn [realpath]. fold realpath.
    destruct (comp_eqb c dot); [apply IH; assumption|].
    destruct (comp_eqb c dotdot); [apply IH; assumption|].
    destruct (lookup t (cur ++ [c])) as [nd|] eqn:L; [|discriminate].
    destruct (n_kind nd) as [len| |ab tg|] eqn:K.
    + destruct rest'; [|discriminate]. inversion H; subst.
      destruct Hd as (nd' & L' & K'). rewrite L in L'. inversion L'; subst. congruence.
    + apply IH; assumption.
    + destruct l as [|l']; [discriminate|]. rewrite app_assoc. apply IH; assumption.
    + destruct rest'; [|discriminate]. inversion H; subst.
      destruct Hd as (nd' & L' & K'). rewrite L in L'. inversion L'; subst. congruence.
Qed.

(* appending "x/.." where x is a real sub-directory (a directory entry, not a link) of the directory the path resolves to *)
Lemma realpath_app_dir_up t x : forall f l cur rest p,
  realpath f l t cur rest = Some p -> dir_at t p -> dir_at t (p ++ [x]) ->
  comp_eqb x dot = false -> comp_eqb x dotdot = false ->
  realpath (S (S f)) l t cur (rest ++ [x; dotdot]) = Some p.
Proof.
  intros f l cur rest p H Hp Hd Hx1 Hx2. revert l cur rest H.
  induction f as [|f IH]; intros l cur rest H; [discriminate|].
  destruct rest as [|c rest'].
  - cbn [realpath] in H. inversion H; subst. cbn [app]. cbn [realpath]. rewrite Hx1, Hx2.
    destruct Hd as (nd & L & K). rewrite L, K. fold realpath.
    cbn [realpath]. rewrite dot_not_dotdot, comp_eqb_refl. rewrite removelast_last.
    reflexivity.
  - cbn [realpath] in H. change ((c :: rest') ++ [x; dotdot]) with (c :: (rest' ++ [x; dotdot])).
    cbn [realpath]. fold realpath.
    destruct (comp_eqb c dot); [apply IH; assumption|].
    destruct (comp_eqb c dotdot); [apply IH; assumption|].
    destruct (lookup t (cur ++ [c])) as [nd|] eqn:L; [|discriminate].
    destruct (n_kind nd) as [len| |ab tg|] eqn:K.
    + destruct rest'; [|discriminate]. inversion H; subst.
      destruct Hp as (nd' & L' & K'). rewrite L in L'. inversion L'; subst. congruence.
    + apply IH; assumption.
    + destruct l as [|l']; [discriminate|]. rewrite app_assoc. apply IH; assumption.
    + destruct rest'; [|discriminate]. inversion H; subst.
      destruct Hp as (nd' & L' & K'). rewrite L in L'. inversion L'; subst. congruence.
Qed.

(* appending ".." to a path that resolves to a directory q: the result is the PARENT OF q (of what the path resolves to,
   after every link before the ".." has been followed) - not the path with its last component dropped *)
Lemma realpath_app_dotdot t : forall f l cur rest q,
  realpath f l t cur rest = Some q -> dir_at t q ->
  realpath (S f) l t cur (rest ++ [dotdot]) = Some (removelast q).
Proof.
  induction f as [|f IH]; intros l cur rest q H Hd; [discriminate|].
  destruct rest as [|c rest'].
  - cbn [realpath] in H. inversion H; subst. cbn [app realpath]. rewrite dot_not_dotdot, comp_eqb_refl.
    destruct f; reflexivity.
  - cbn [realpath] in H. change ((c :: rest') ++ [dotdot]) with (c :: (rest' ++ [dotdot])).
    cbn [realpath]. fold realpath.
    destruct (comp_eqb c dot); [apply IH; assumption|].
    destruct (comp_eqb c dotdot); [apply IH; assumption|].
    destruct (lookup t (cur ++ [c])) as [nd|] eqn:L; [|discriminate].
    destruct (n_kind nd) as [len| |ab tg|] eqn:K.
    + destruct rest'; [|discriminate]. inversion H; subst.
      destruct Hd as (nd' & L' & K'). rewrite L in L'. inversion L'; subst. congruence.
    + apply IH; assumption.
    + destruct l as [|l']; [discriminate|]. rewrite app_assoc. apply IH; assumption.
    + destruct rest'; [|discriminate]. inversion H; subst.
      destruct Hd as (nd' & L' & K'). rewrite L in L'. inversion L'; subst. congruence.
Qed.

(* ---- canon / stat / absolute ---- *)
Lemma rp_fuel_app t raw extra : rp_fuel t (raw ++ extra) = (length extra + rp_fuel t raw)%nat.
Proof. unfold rp_fuel. rewrite app_length. lia. Qed.

Lemma canon_app_dot t raw p : canon t raw = Some p -> dir_at t p -> canon t (raw ++ [dot]) = Some p.
Proof.
  unfold canon. intros H Hd. rewrite rp_fuel_app. cbn [length Nat.add]. apply realpath_app_dot; assumption.
Qed.

Lemma canon_app_dir_up t raw x p :
  canon t raw = Some p -> dir_at t p -> dir_at t (p ++ [x]) -> comp_eqb x dot = false -> comp_eqb x dotdot = false ->
  canon t (raw ++ [x; dotdot]) = Some p.
Proof.
  unfold canon. intros H Hp Hd H1 H2. rewrite rp_fuel_app. cbn [length Nat.add]. apply realpath_app_dir_up; assumption.
Qed.

Theorem canon_app_dotdot t raw q : canon t raw = Some q -> dir_at t q -> canon t (raw ++ [dotdot]) = Some (removelast q).
Proof.
  unfold canon. intros H Hd. rewrite rp_fuel_app. cbn [length Nat.add]. apply realpath_app_dotdot; assumption.
Qed.

Lemma absolute_of_dir t raw p : canon t raw = Some p -> dir_at t p -> absolute t raw = p.
Proof.
  intros H (nd & L & K). unfold absolute, stat. rewrite H, L. unfold is_file_kind. rewrite K. reflexivity.
Qed.

(* the spellings `r/.` and `r/x/..` (x a real sub-directory) of a directory root name the same scanned root *)
Theorem absolute_dot t raw p : canon t raw = Some p -> dir_at t p -> absolute t (raw ++ [dot]) = absolute t raw.
Proof.
  intros H Hd. rewrite (absolute_of_dir t raw p H Hd).
  apply absolute_of_dir; [apply canon_app_dot; assumption|exact Hd].
Qed.

Theorem absolute_dir_up t raw x p :
  canon t raw = Some p -> dir_at t p -> dir_at t (p ++ [x]) -> comp_eqb x dot = false -> comp_eqb x dotdot = false ->
  absolute t (raw ++ [x; dotdot]) = absolute t raw.
Proof.
  intros H Hp Hd H1 H2. rewrite (absolute_of_dir t raw p H Hp).
  apply absolute_of_dir; [apply canon_app_dir_up; assumption|exact Hp].
Qed.

(* ---- the walk sees the input paths only through `absolute` ---- *)
Section Spelling.
  Variable sel_file : path -> bool.
  Variable sel_dir : path -> bool.
  Variable ign1 : path -> path -> bool -> bool.
  Variable t : tree.
  Variable c : config.
  Variable sched : list task -> list path -> nat.

  Lemma root_tasks_spelling roots1 roots2 :
    map (absolute t) roots1 = map (absolute t) roots2 -> root_tasks t c roots1 = root_tasks t c roots2.
  Proof.
    revert roots2. induction roots1 as [|a r1 IH]; intros [|b r2] H; try discriminate; [reflexivity|].
    cbn [map] in H. inversion H as [[Ha Hr]]. unfold root_tasks. cbn [flat_map].
    fold (root_tasks t c r1). fold (root_tasks t c r2). rewrite (IH r2 Hr).
    unfold root_task. rewrite Ha. reflexivity.
  Qed.

  Theorem walk_spelling roots1 roots2 :
    map (absolute t) roots1 = map (absolute t) roots2 ->
    walk sel_file sel_dir ign1 t c sched roots1 = walk sel_file sel_dir ign1 t c sched roots2 /\
    scan sel_file sel_dir ign1 t c sched roots1 = scan sel_file sel_dir ign1 t c sched roots2.
  Proof.
    intros H. apply root_tasks_spelling in H.
    assert (W : walk sel_file sel_dir ign1 t c sched roots1 = walk sel_file sel_dir ign1 t c sched roots2).
    { unfold walk, walk_bound. rewrite H. reflexivity. }
    split; [exact W|]. unfold scan. rewrite W. reflexivity.
  Qed.
End Spelling.

(* any two spellings that canonicalise to the same directory *)
Theorem absolute_same_canon t raw1 raw2 p :
  canon t raw1 = Some p -> canon t raw2 = Some p -> dir_at t p -> absolute t raw1 = absolute t raw2.
Proof. intros H1 H2 Hd. rewrite (absolute_of_dir t raw1 p H1 Hd), (absolute_of_dir t raw2 p H2 Hd). reflexivity. Qed.

(* Witness: /t/lnk -> /far/away/inner.  `t/lnk/..` is /far/away (the parent of the link's TARGET), not /t;
   `t/.`, `t/sub/..` and the link `/lt -> /t` are spellings of /t. *)
Definition s6 (s : list N) : comp := s.
Definition n_t : comp := [116].
Definition n_far : comp := [102; 97; 114].
Definition n_away : comp := [97; 119].
Definition n_inner : comp := [105; 110].
Definition n_lnk : comp := [108].
Definition n_sub : comp := [115].
Definition n_lt : comp := [108; 116].
Definition s6tree : tree :=
  [ ([], mkNode KDir 1); ([n_t], mkNode KDir 1); ([n_t; n_sub], mkNode KDir 1); ([n_far], mkNode KDir 1);
    ([n_far; n_away], mkNode KDir 1); ([n_far; n_away; n_inner], mkNode KDir 1);
    ([n_t; n_lnk], mkNode (KLink true [n_far; n_away; n_inner]) 1);
    ([n_lt], mkNode (KLink true [n_t]) 1);
    ([n_t; [102]], mkNode (KFile 3) 1); ([n_far; n_away; [103]], mkNode (KFile 3) 1) ].

Example ex_link_dotdot_physical :
  canon s6tree [n_t; n_lnk; dotdot] = Some [n_far; n_away] /\
  absolute s6tree [n_t; n_lnk; dotdot] = [n_far; n_away] /\
  absolute s6tree [n_t; dot] = [n_t] /\ absolute s6tree [n_t; n_sub; dotdot] = [n_t] /\
  absolute s6tree [n_lt] = [n_t] /\ absolute s6tree [dot; n_t] = [n_t] /\
  canon s6tree [n_t] = Some [n_t] /\ dir_at s6tree [n_t] /\ dir_at s6tree ([n_t] ++ [n_sub]).
Proof.
  repeat split; try (vm_compute; reflexivity).
  - exists (mkNode KDir 1). split; reflexivity.
  - exists (mkNode KDir 1). split; reflexivity.
Qed.
