(* Pins_C01.v — the statements of Props_C01.v, pinned. *)
From FV Require Import Base ListLib GroupModel GroupProofs GroupProofs2 GroupWitness Props_C01.
Open Scope N_scope.
Check C01_sound :
  forall (H : list N -> hash) (T : list N -> option (list N)) (c : gcfg) (n : nd) (scanned : list file),
    wf_nd n -> wf_ids scanned -> wf_len scanned -> collision_free H c scanned ->
    skip_content c = false -> transform c = false ->
    forall g, In g (group_files H T c n scanned) ->
    forall f f', In f (gfiles g) -> In f' (gfiles g) ->
      fdata f = fdata f' /\ glen g = N.of_nat (length (fdata f)).
Check C01_transform :
  forall (H : list N -> hash) (T : list N -> option (list N)) (c : gcfg) (n : nd) (scanned : list file),
    wf_nd n -> wf_ids scanned -> collision_free_T H T scanned -> transform c = true ->
    forall g, In g (group_files H T c n scanned) ->
    forall f f', In f (gfiles g) -> In f' (gfiles g) ->
      exists out, T (fdata f) = Some out /\ T (fdata f') = Some out /\ glen g = N.of_nat (length out).
(* the definitions the statements rest on, pinned as well *)
Check (eq_refl : collision_free = fun H c scanned =>
    forall f f', In f scanned -> In f' scanned -> flen f = flen f' ->
      (H (fdata f) = H (fdata f') \/
       exists s, In s (suffix_cands c) /\ s < flen f /\
                 hxor (H (fdata f)) (H (sfx s (fdata f))) = hxor (H (fdata f')) (H (sfx s (fdata f')))) ->
      fdata f = fdata f').
Check (eq_refl : wf_ids = fun fs => forall f f', In f fs -> In f' fs -> fid f = fid f' -> fdata f = fdata f' /\ flen f = flen f').
Check (eq_refl : wf_nd = fun n => (forall st d l, Permutation.Permutation (order n st d l) l) /\
                                  (forall st l, Permutation.Permutation (arrive n st l) l)).
