(* ReportModel.v — executable model of what `fclones group` prints (engine Rp, property C14).

   Modelled code (fclones/src/group.rs, file.rs, path.rs):
     FileSubGroup::group            -> subgroups
     FileGroup::{subgroup_count, matches_strictly, missing_count, redundant_count (with its
       `roots.is_empty() && !group_by_id` fast path), reported_count, file_count, total_size}
     FileGroup::sort_by_path        -> sort_by_path   (derived `Ord` of Path: parent first, then component)
     FileHash::u128_prefix          -> hash_prefix    (first 16 bytes, little endian)
     group_files tail               -> finalize       (par_sort_by_key Reverse((len, u128_prefix)), stable;
                                                       then sort_by_path in every group)
     write_report statistics        -> stats_of
   No proofs in this file. *)
From FV Require Import Base.
Open Scope N_scope.

Definition path := list (list N).          (* components; an absolute path starts with the component [47] *)
Record file := mkFile { fpath : path; fid : N * N }.   (* (device, inode) *)
Record group := mkGroup { glen : N; ghash : list N; gfiles : list file }.
Inductive replication := Under (rf : N) | Over (rf : N).
Record gfilter := mkFilter { repl : replication; roots : list path; by_id : bool }.

(* ---- comparisons ---- *)
(* lexicographic comparison of lists (shorter prefix first), as `Ord` for slices / CString / Vec *)
Fixpoint lcmp {A} (c : A -> A -> comparison) (a b : list A) : comparison :=
  match a, b with
  | [], [] => Eq
  | [], _ :: _ => Lt
  | _ :: _, [] => Gt
  | x :: a', y :: b' => match c x y with Eq => lcmp c a' b' | r => r end
  end.
Definition bytes_cmp : list N -> list N -> comparison := lcmp N.compare.
Definition comps_cmp : path -> path -> comparison := lcmp bytes_cmp.

(* derived Ord on `struct Path { parent: Option<Arc<Path>>, component }`: parents are compared first
   (None < Some), so a path with fewer components sorts before any path with more components;
   among equally deep paths the components decide, root component first. *)
Definition path_cmp (a b : path) : comparison :=
  match Nat.compare (length a) (length b) with
  | Eq => comps_cmp a b
  | c => c
  end.

Definition path_leb (a b : path) : bool := match path_cmp a b with Gt => false | _ => true end.
Definition file_leb (f g : file) : bool := path_leb (fpath f) (fpath g).

Definition id_eqb (a b : N * N) : bool := (fst a =? fst b) && (snd a =? snd b).

(* ---- stable insertion sort ---- *)
Section Sort.
  Context {A : Type} (leb : A -> A -> bool).
  Fixpoint insert (x : A) (l : list A) : list A :=
    match l with
    | [] => [x]
    | y :: t => if leb y x then y :: insert x t else x :: l   (* x goes after every y <= x: stable *)
    end.
  Fixpoint isort_aux (l acc : list A) : list A :=
    match l with [] => acc | x :: t => isort_aux t (insert x acc) end.
  Definition isort (l : list A) : list A := isort_aux l [].
End Sort.

(* ---- FileSubGroup::group ---- *)
Fixpoint is_prefix_of (r p : path) : bool :=
  match r, p with
  | [], _ => true
  | _ :: _, [] => false
  | x :: r', y :: p' => match bytes_cmp x y with Eq => is_prefix_of r' p' | _ => false end
  end.

Fixpoint root_idx_from (i : nat) (rs : list path) (p : path) : option nat :=
  match rs with
  | [] => None
  | r :: rs' => if is_prefix_of r p then Some i else root_idx_from (S i) rs' p
  end.
Definition root_idx (rs : list path) (p : path) : option nat := root_idx_from 0 rs p.

Definition opt_nat_eqb (a : option nat) (b : nat) : bool :=
  match a with Some x => Nat.eqb x b | None => false end.
Definition is_none {A} (a : option A) : bool := match a with None => true | Some _ => false end.

(* IndexMap<FileId, FileSubGroup>: keys in order of first insertion, members in insertion order *)
Fixpoint add_by_id (f : file) (gs : list (list file)) : list (list file) :=
  match gs with
  | [] => [[f]]
  | g :: gs' => match g with
                | h :: _ => if id_eqb (fid h) (fid f) then (g ++ [f]) :: gs' else g :: add_by_id f gs'
                | [] => g :: add_by_id f gs'
                end
  end.
Definition group_by_id (l : list file) : list (list file) := fold_left (fun acc f => add_by_id f acc) l [].

Definition nonempty {A} (l : list A) : bool := match l with [] => false | _ => true end.

Definition subgroups (files : list file) (rs : list path) (byid : bool) : list (list file) :=
  let under i := filter (fun f => opt_nat_eqb (root_idx rs (fpath f)) i) files in
  let rest := filter (fun f => is_none (root_idx rs (fpath f))) files in
  let rootgs := map under (seq 0 (length rs)) in
  let restgs := if byid then group_by_id rest else map (fun f => [f]) rest in
  filter nonempty (rootgs ++ restgs).

Definition subgroup_count (g : group) (flt : gfilter) : N :=
  N.of_nat (length (subgroups (gfiles g) (roots flt) (by_id flt))).

Definition file_count (g : group) : N := N.of_nat (length (gfiles g)).
Definition total_size (g : group) : N := glen g * file_count g.

Definition matches_strictly (g : group) (flt : gfilter) : bool :=
  match repl flt with
  | Over rf => rf <? subgroup_count g flt
  | Under rf => subgroup_count g flt <? rf
  end.

Definition missing_count (g : group) (flt : gfilter) : N :=
  match repl flt with
  | Over _ => 0
  | Under rf => rf - subgroup_count g flt        (* saturating: N subtraction truncates at 0 *)
  end.

Definition sum_lengths (l : list (list file)) : N :=
  fold_right (fun sg a => N.of_nat (length sg) + a) 0 l.

(* the code as it is: fast path when no roots are configured and every path counts as a replica (--match-links) *)
Definition redundant_count (g : group) (flt : gfilter) : N :=
  match repl flt with
  | Under _ => 0
  | Over rf =>
      let rf := N.max rf 1 in
      match roots flt, by_id flt with
      | [], false => file_count g - rf
      | _, _ => sum_lengths (skipn (N.to_nat rf) (subgroups (gfiles g) (roots flt) (by_id flt)))
      end
  end.

(* the documented rule ("the last N - r subgroups are considered redundant") *)
Definition redundant_spec (g : group) (flt : gfilter) : N :=
  match repl flt with
  | Under _ => 0
  | Over rf => sum_lengths (skipn (N.to_nat (N.max rf 1)) (subgroups (gfiles g) (roots flt) (by_id flt)))
  end.

(* ---- statistics of write_report ---- *)
Record stats := mkStats { s_groups : N; s_files : N; s_size : N;
                          s_red_files : N; s_red_size : N; s_mis_files : N; s_mis_size : N }.

Definition stats_of (flt : gfilter) (gs : list group) : stats :=
  mkStats (N.of_nat (length gs))
          (fold_right (fun g a => file_count g + a) 0 gs)
          (fold_right (fun g a => total_size g + a) 0 gs)
          (fold_right (fun g a => redundant_count g flt + a) 0 gs)
          (fold_right (fun g a => glen g * redundant_count g flt + a) 0 gs)
          (fold_right (fun g a => missing_count g flt + a) 0 gs)
          (fold_right (fun g a => glen g * missing_count g flt + a) 0 gs).

(* ---- ordering of the report body ---- *)
Definition sort_by_path (rs : list path) (files : list file) : list file :=
  let s := isort file_leb files in
  match rs with
  | [] => s
  | _ => concat (subgroups s rs true)
  end.

(* u128 little-endian value of the first 16 bytes (missing bytes count as 0; the code panics on a
   hash shorter than 16 bytes, which no hash function of fclones produces) *)
Fixpoint le_value (l : list N) (n : nat) : N :=
  match n with
  | O => 0
  | S n' => match l with [] => 0 | b :: t => b + 256 * le_value t n' end
  end.
Definition hash_prefix (h : list N) : N := le_value h 16.

(* Reverse((len, prefix)): g sorts before h iff (len g, prefix g) >= (len h, prefix h) *)
Definition group_geb (g h : group) : bool :=
  if glen h <? glen g then true
  else if glen g <? glen h then false
  else hash_prefix (ghash h) <=? hash_prefix (ghash g).

Definition sort_groups (gs : list group) : list group := isort group_geb gs.

Definition finalize (flt : gfilter) (gs : list group) : list group :=
  map (fun g => mkGroup (glen g) (ghash g) (sort_by_path (roots flt) (gfiles g))) (sort_groups gs).

(* consistency predicate evaluated by the harness on a parsed report *)
Fixpoint lists_eqb {A} (eqb : A -> A -> bool) (a b : list A) : bool :=
  match a, b with
  | [], [] => true
  | x :: a', y :: b' => eqb x y && lists_eqb eqb a' b'
  | _, _ => false
  end.
Definition bytes_eqb := lists_eqb N.eqb.
Definition path_eqb := lists_eqb bytes_eqb.
Definition file_eqb (f g : file) : bool := path_eqb (fpath f) (fpath g) && id_eqb (fid f) (fid g).
Definition group_eqb (g h : group) : bool :=
  (glen g =? glen h) && bytes_eqb (ghash g) (ghash h) && lists_eqb file_eqb (gfiles g) (gfiles h).
Definition is_fixpoint (flt : gfilter) (gs : list group) : bool := lists_eqb group_eqb (finalize flt gs) gs.
Definition all_reported (flt : gfilter) (gs : list group) : bool := forallb (fun g => matches_strictly g flt) gs.
