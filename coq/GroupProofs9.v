(* GroupProofs9.v — engine G, part 9 (C15): for every fault oracle, every member of a group keyed by a stage shares its
   inode with a path that was read successfully at that stage; with an inode-determined oracle a file whose read failed
   at a stage is therefore in no group keyed by that stage.  Regression instance of K5 (repaired): a path-specific
   failure on the first member of a hard-link run no longer drops the other links; and the remaining blind spot: a path
   AFTER the representative is never read, so its own unreadability goes unnoticed. *)
From FV Require Import Base ListLib GroupModel GroupProofs GroupProofs2 GroupProofs3 GroupProofs5 GroupWitness.
From Coq Require Import Permutation.
Open Scope N_scope.

Definition inode_determined (n : nd) : Prop := forall a b st, fid a = fid b -> fails n st a = fails n st b.

Section NotDuplicate.
  Variable H : list N -> hash.
  Variable T : list N -> option (list N).
  Variable c : gcfg.
  Variable n : nd.
  Variable scanned : list file.
  Hypothesis Hnd : wf_nd n.
  Let o := oracle_of H T.

  (* some path of the inode of every member was read successfully at stage st *)
  Definition ok_at (st : stage) (fs : list file) : Prop :=
    forall f, In f fs -> exists rep, fid rep = fid f /\ fails n st rep = false.
  Definition QP (g : group) : Prop := one_id (gfiles g) \/ ok_at StPrefix (gfiles g).
  Definition QC (P : N) (g : group) : Prop :=
    one_id (gfiles g) \/ (ok_at StPrefix (gfiles g) /\ (P <= glen g -> ok_at StContents (gfiles g))).

  Lemma QP_sort g : QP g -> QP (sort_group_by_id g).
  Proof.
    intros [Ho|Hk]; [left|right].
    - eapply one_id_perm; [symmetry; apply sort_by_id_perm|auto].
    - intros f Hf. cbn in Hf. apply sort_by_id_in1 in Hf. auto.
  Qed.

  Lemma hf_prefix_ok P rep old h l : hf_prefix o c n P rep old = Some (h, l) -> fails n StPrefix rep = false.
  Proof. unfold hf_prefix, failing. destruct (fails n StPrefix rep); [discriminate|auto]. Qed.
  Lemma hf_contents_ok rep old h l : hf_contents o n rep old = Some (h, l) -> fails n StContents rep = false.
  Proof. unfold hf_contents, failing. destruct (fails n StContents rep); [discriminate|auto]. Qed.
  Lemma hf_transform_ok rep old h l : hf_transform o n rep old = Some (h, l) -> fails n StTransform rep = false.
  Proof. unfold hf_transform. destruct (fails n StTransform rep); [discriminate|auto]. Qed.

  Lemma pre_multi_not_one g : pre_multi g = true -> ~ one_id (gfiles g).
  Proof. unfold pre_multi. intros Hp Ho. apply unique_count_le1 in Ho. congruence. Qed.

  (* files regrouped by a later stage came from groups with several inodes, hence were read at the prefix stage *)
  Lemma regrouped_QP pre hf gs g : (forall g0, In g0 gs -> QP g0) -> (forall g0, pre g0 = true -> pre_multi g0 = true) ->
    regrouped_from pre hf gs g -> ok_at StPrefix (gfiles g).
  Proof.
    intros Hgs Hpre [_ Hall] f Hf.
    destruct (Hall f Hf) as (g0 & f0 & _ & _ & _ & _ & Hg0 & Hp0 & Hf0 & _ & _ & _ & _ & _ & _ & _ & _ & _ & _ & _ & ->).
    destruct (Hgs g0 Hg0) as [Ho|Hk]; [exfalso; apply (pre_multi_not_one g0); auto|].
    destruct (Hk f0 Hf0) as (rep & Ei & Hr). exists rep. rewrite set_len_fid. auto.
  Qed.

  Lemma prefix_QP P gs g : In g (group_by_prefix o c n P gs) -> QP g.
  Proof.
    intros Hin. unfold group_by_prefix in Hin. apply rehash_in_raw in Hin.
    apply (rehash_raw_sound _ _ _ _ _ _ Hnd) in Hin. destruct Hin as [[Hin Hp]|[_ Hall]].
    - left. apply unique_count_le1. exact Hp.
    - right. intros f Hf.
      destruct (Hall f Hf) as (g0 & f0 & g1 & rep & gh & hd & _ & _ & _ & _ & _ & _ & _ & _ & _ & Hi & _ & _ & _ & Hh & ->).
      exists rep. rewrite set_len_fid. split; auto. eapply hf_prefix_ok; eauto.
  Qed.

  Lemma later_QP st pre post hf gs g : (forall g0, In g0 gs -> QP g0) -> (forall g0, pre g0 = true -> pre_multi g0 = true) ->
    In g (rehash n st pre post hf (map sort_group_by_id gs)) -> QP g.
  Proof.
    intros Hgs Hpre Hin. apply rehash_in_raw in Hin.
    assert (Hgs' : forall g0, In g0 (map sort_group_by_id gs) -> QP g0).
    { intros g0 Hg0. apply in_map_iff in Hg0. destruct Hg0 as (g0' & <- & ?). apply QP_sort; auto. }
    apply (rehash_raw_sound _ _ _ _ _ _ Hnd) in Hin. destruct Hin as [[Hin Hp]|Hreg].
    - apply Hgs'; auto.
    - right. eapply regrouped_QP; eauto.
  Qed.

  Lemma contents_QC P gs g : (forall g0, In g0 gs -> QP g0) -> In g (group_by_contents o c n P gs) -> QC P g.
  Proof.
    intros Hgs Hin. unfold group_by_contents in Hin. apply rehash_in_raw in Hin.
    assert (Hgs' : forall g0, In g0 (map sort_group_by_id gs) -> QP g0).
    { intros g0 Hg0. apply in_map_iff in Hg0. destruct Hg0 as (g0' & <- & ?). apply QP_sort; auto. }
    assert (Hpre : forall g0, pre_contents P g0 = true -> pre_multi g0 = true).
    { intros g0 Hp. unfold pre_contents in Hp. apply andb_true_iff in Hp. tauto. }
    apply (rehash_raw_sound _ _ _ _ _ _ Hnd) in Hin. destruct Hin as [[Hin Hp]|Hreg].
    - destruct (Hgs' g Hin) as [Ho|Hk]; [left; auto|].
      unfold pre_contents in Hp. apply andb_false_iff in Hp. destruct Hp as [Hu|Hl].
      + left. apply unique_count_le1. exact Hu.
      + right. split; auto. intros Hle. apply N.leb_gt in Hl. lia.
    - right. split; [eapply regrouped_QP; eauto|]. intros _ f Hf. destruct Hreg as [_ Hall].
      destruct (Hall f Hf) as (g0 & f0 & g1 & rep & gh & hd & _ & _ & _ & _ & _ & _ & _ & _ & _ & Hi & _ & _ & _ & Hh & ->).
      exists rep. rewrite set_len_fid. split; auto. eapply hf_contents_ok; eauto.
  Qed.

  Theorem c15_keyed_has_readable_path : transform c = false -> skip_content c = false ->
    forall g, In g (group_files H T c n scanned) ->
      QC (prefix_len_of c (remove_same_files c (group_by_size c (filter (size_ok c) scanned)))) g.
  Proof.
    intros Htr Hskip g Hg. unfold group_files, group_files_gen in Hg.
    apply finalize_in in Hg. destruct Hg as (g0 & Hg0 & El & _ & Hp).
    unfold pipeline in Hg0. rewrite Htr, Hskip in Hg0. fold o in Hg0.
    set (g1 := remove_same_files c (group_by_size c (filter (size_ok c) scanned))) in *.
    set (P := prefix_len_of c g1) in *.
    assert (HQ : QC P g0).
    { apply (contents_QC P (group_by_suffix o c n (group_by_prefix o c n P g1)) g0); [|exact Hg0].
      intros g3 Hg3. unfold group_by_suffix in Hg3.
      apply (later_QP _ _ _ _ (group_by_prefix o c n P g1) g3) in Hg3; auto.
      - intros g2 Hg2. apply (prefix_QP P g1 g2 Hg2).
      - intros gx Hx. unfold pre_suffix in Hx. apply andb_true_iff in Hx. tauto. }
    destruct HQ as [Ho|[Hk1 Hk2]]; [left|right].
    - eapply one_id_perm; [symmetry; exact Hp|auto].
    - rewrite El. split; [|intros Hle]; intros f Hf; [apply Hk1|apply Hk2; auto]; eapply Permutation_in; eauto.
  Qed.

  Theorem c15_transform_has_readable_path : transform c = true ->
    forall g f, In g (group_files H T c n scanned) -> In f (gfiles g) ->
      exists rep, fid rep = fid f /\ fails n StTransform rep = false.
  Proof.
    intros Htr g f Hg Hf. unfold group_files, group_files_gen in Hg.
    apply finalize_in in Hg. destruct Hg as (g0 & Hg0 & _ & _ & Hp).
    unfold pipeline in Hg0. rewrite Htr in Hg0. unfold group_transformed in Hg0. fold o in Hg0.
    apply (Permutation_in _ Hp) in Hf.
    apply (rehash_sound _ _ _ _ _ _ _ Hnd) in Hg0. destruct Hg0 as [_ [[_ Hpre]|[_ Hall]]]; [discriminate|].
    destruct (Hall f Hf) as (ga & f0 & gb & rep & gh & hd & _ & _ & _ & _ & _ & _ & _ & _ & _ & Hi & _ & _ & _ & Hh & ->).
    exists rep. rewrite set_len_fid. split; auto. eapply hf_transform_ok; eauto.
  Qed.

  (* with an inode-determined oracle: a file whose own read fails at a stage is in no group keyed by that stage *)
  Theorem c15_failed_not_duplicate : inode_determined n -> transform c = false -> skip_content c = false ->
    forall g, In g (group_files H T c n scanned) ->
      one_id (gfiles g) \/
      ((forall f, In f (gfiles g) -> fails n StPrefix f = false) /\
       (prefix_len_of c (remove_same_files c (group_by_size c (filter (size_ok c) scanned))) <= glen g ->
        forall f, In f (gfiles g) -> fails n StContents f = false)).
  Proof.
    intros Hdet Htr Hskip g Hg. destruct (c15_keyed_has_readable_path Htr Hskip g Hg) as [Ho|[H1 H2]]; [left; auto|right].
    split; [|intros Hle]; intros f Hf; [destruct (H1 f Hf) as (rep & Ei & Hr)|destruct (H2 Hle f Hf) as (rep & Ei & Hr)];
      rewrite <- Hr; symmetry; apply Hdet; auto.
  Qed.

  Theorem c15_failed_not_reported_transform : inode_determined n -> transform c = true ->
    forall g f, In g (group_files H T c n scanned) -> In f (gfiles g) -> fails n StTransform f = false.
  Proof.
    intros Hdet Htr g f Hg Hf. destruct (c15_transform_has_readable_path Htr g f Hg Hf) as (rep & Ei & Hr).
    rewrite <- Hr. symmetry. apply Hdet; auto.
  Qed.
End NotDuplicate.

(* ------------------------------------------------------------------ K5, repaired *)
(* /a and /b are hard links of one inode, /c is a copy.  Only the path /a cannot be read.  The run of the inode tries /a,
   leaves it out, hashes /b and reports {/b, /c} (before the repair `None` for /a removed the whole run and nothing was
   reported).  Second instance: the links arrive in the order /b, /a: /b is the representative, /a is never read and is
   reported with /b's hash although it could not have been read — its own unreadability goes unnoticed. *)
Definition k5_a := mkf 97 1 3 [1;2;3].
Definition k5_b := mkf 98 1 3 [1;2;3].
Definition k5_c := mkf 99 2 3 [1;2;3].
Definition k5_cfg : gcfg := mkcfg None None (fun _ => SSD) (Over 1) [] true false false 0 None.
Definition k5_nd : nd :=
  mknd (fun _ _ l => isort loc_leb l) (fun _ l => l) (fun _ f => path_eqb (fpath f) [[47]; [97]]).
Definition k5_nd_rev : nd :=
  mknd (fun _ _ l => rev (isort loc_leb l)) (fun _ l => l) (fun _ f => path_eqb (fpath f) [[47]; [97]]).

Lemma k5_wf_nd : wf_nd k5_nd.
Proof. split; intros; cbn; [apply isort_perm|apply Permutation_refl]. Qed.
Lemma k5_wf_nd_rev : wf_nd k5_nd_rev.
Proof. split; intros; cbn; [rewrite <- Permutation_rev; apply isort_perm|apply Permutation_refl]. Qed.
Lemma k5_only_a st f : fails k5_nd st f = true -> fpath f = fpath k5_a.
Proof. cbn [k5_nd fails]. intros E. apply path_eqb_spec in E. exact E. Qed.
Lemma k5_regression : shows (group_files toyH idT k5_cfg k5_nd [k5_a; k5_b; k5_c]) = [(3, [[[47]; [98]]; [[47]; [99]]])].
Proof. vm_compute. reflexivity. Qed.
Lemma k5_unread_path_reported :
  shows (group_files toyH idT k5_cfg k5_nd_rev [k5_a; k5_b; k5_c]) = [(3, [[[47]; [97]]; [[47]; [98]]; [[47]; [99]]])].
Proof. vm_compute. reflexivity. Qed.
Lemma k5_not_inode_determined : ~ inode_determined k5_nd.
Proof. intros Hd. specialize (Hd k5_a k5_b StPrefix eq_refl). vm_compute in Hd. discriminate. Qed.
