(* TempNameProofs.v — the temporary name always fits, stays a prefix of the victim's name, is the old name for short names, and
   the cut never splits a UTF-8 sequence. *)
From FV Require Import Base TempNameModel.
Open Scope N_scope.

Lemma cut_at_le bytes cut : (cut_at bytes cut <= cut)%nat.
Proof. induction cut as [|c IH]; cbn [cut_at]; [lia|]. destruct (is_cont (nth (S c) bytes 0)); lia. Qed.

Lemma temp_stem_le name : (length (temp_stem name) <= max_stem)%nat.
Proof.
  unfold temp_stem. destruct (length name <=? max_stem)%nat eqn:E.
  - apply Nat.leb_le in E. exact E.
  - rewrite firstn_length. pose proof (cut_at_le name max_stem). lia.
Qed.

(* the parked name never exceeds NAME_MAX, whatever the victim's name *)
Theorem temp_name_fits name sfx : length sfx = 24%nat -> (length (temp_name name sfx) <= 255)%nat.
Proof.
  intros H. unfold temp_name. rewrite app_length. cbn [length]. rewrite H.
  pose proof (temp_stem_le name). unfold max_stem in *. lia.
Qed.

(* it is the victim's name (or a prefix of it) followed by '.' and the suffix: same directory entry family, never another name *)
Theorem temp_stem_prefix name : exists r, name = temp_stem name ++ r.
Proof.
  unfold temp_stem. destruct (length name <=? max_stem)%nat.
  - exists []. now rewrite app_nil_r.
  - exists (skipn (cut_at name max_stem) name). now rewrite firstn_skipn.
Qed.

(* names of at most 230 bytes are untouched: <name>.<suffix> as before the fix *)
Theorem temp_name_short name sfx : (length name <= 230)%nat -> temp_name name sfx = name ++ 46 :: sfx.
Proof.
  intros H. unfold temp_name, temp_stem, max_stem. apply Nat.leb_le in H. rewrite H. reflexivity.
Qed.

(* the cut is at a character boundary: the first byte that is dropped is not a continuation byte (unless the cut reached 0,
   which needs 230 continuation bytes in a row: not a name in any encoding) *)
Lemma cut_at_boundary bytes cut : cut_at bytes cut = O \/ is_cont (nth (cut_at bytes cut) bytes 0) = false.
Proof.
  induction cut as [|c IH]; cbn [cut_at]; [left; reflexivity|].
  destruct (is_cont (nth (S c) bytes 0)) eqn:E; [exact IH|right; exact E].
Qed.

Theorem temp_stem_boundary name :
  (max_stem < length name)%nat ->
  temp_stem name = [] \/ is_cont (nth (length (temp_stem name)) name 0) = false.
Proof.
  intros H. unfold temp_stem. assert (E : (length name <=? max_stem)%nat = false) by (apply Nat.leb_gt; exact H).
  rewrite E. pose proof (cut_at_le name max_stem) as L.
  rewrite firstn_length, Nat.min_l by lia.
  destruct (cut_at_boundary name max_stem) as [Z|B].
  - left. rewrite Z. reflexivity.
  - right. exact B.
Qed.

(* the stem is not empty when the name starts a character within its first 231 bytes (every real name does) *)
Theorem temp_stem_nonempty name k :
  (max_stem < length name)%nat -> (0 < k <= max_stem)%nat -> is_cont (nth k name 0) = false ->
  (k <= length (temp_stem name))%nat.
Proof.
  intros H Hk Hc. unfold temp_stem. assert (E : (length name <=? max_stem)%nat = false) by (apply Nat.leb_gt; exact H).
  rewrite E. rewrite firstn_length, Nat.min_l by (pose proof (cut_at_le name max_stem); lia).
  assert (G : forall cut, (k <= cut)%nat -> (k <= cut_at name cut)%nat).
  { induction cut as [|c IH]; intros Hle; [lia|]. cbn [cut_at].
    destruct (Nat.eq_dec k (S c)) as [->|Hne]; [rewrite Hc; lia|].
    destruct (is_cont (nth (S c) name 0)); [apply IH; lia|lia]. }
  apply G. lia.
Qed.

(* Non-vacuity: a 240-byte name whose bytes 229..231 are the 3-byte sequence E2 82 AC is cut before that sequence *)
Definition long_name : list N := repeat 97 229 ++ [226; 130; 172] ++ repeat 98 8.
Example temp_stem_example :
  length long_name = 240%nat /\ temp_stem long_name = repeat 97 229 /\
  temp_stem (repeat 97 255) = repeat 97 230 /\ temp_stem (repeat 97 230) = repeat 97 230 /\
  length (temp_name long_name (repeat 65 24)) = 254%nat.
Proof. repeat split; vm_compute; reflexivity. Qed.
