(* AtomicProofs5.v — C18: move targets stay distinct AFTER the kernel's path resolution
   (the "." component that Path::from("") contributes disappears, DIR itself may contain "." and ".."). *)
From FV Require Import Base FsModel AtomicModel AtomicProofs AtomicProofs4.
Open Scope N_scope.

(* an absolute path without "." and ".." components: what `group` writes into a report *)
Definition wf_clean (p : path) : Prop := exists rest, p = root_c :: rest /\ clean rest.

Lemma wf_clean_abs p : wf_clean p -> wf_abs p.
Proof.
  intros (rest & -> & Hc). exists rest. split; [reflexivity|]. intros Hin.
  unfold clean in Hc. rewrite Forall_forall in Hc. destruct (Hc _ Hin) as [Hd _]. congruence.
Qed.

Lemma norm_app_clean d x : clean x -> norm (d ++ x) = norm d ++ x.
Proof.
  intros Hx. unfold norm. rewrite fold_left_app. rewrite fold_norm_of_clean by exact Hx.
  rewrite rev_app_distr, rev_involutive. reflexivity.
Qed.

Lemma norm_app_dot d x : norm (d ++ dot_c :: x) = norm (d ++ x).
Proof. unfold norm. rewrite !fold_left_app. cbn [fold_left]. reflexivity. Qed.

(* the resolved target is the resolved DIR followed by the source path without its root *)
Lemma c18_resolved_shape d rest : clean rest -> norm (mv_target d (root_c :: rest)) = norm d ++ rest.
Proof.
  intros Hc. rewrite c18_shape. rewrite norm_app_dot. destruct rest as [|c rest].
  - change [dot_c] with (dot_c :: []). rewrite norm_app_dot, app_nil_r, app_nil_r. reflexivity.
  - apply norm_app_clean, Hc.
Qed.

Lemma c18_injective_resolved d p p' : wf_clean p -> wf_clean p' ->
  norm (mv_target d p) = norm (mv_target d p') -> p = p'.
Proof.
  intros (r & -> & Hr) (r' & -> & Hr'). rewrite !c18_resolved_shape by assumption.
  intros H. apply app_inv_head in H. now rewrite H.
Qed.

Lemma NoDup_map_inj_in {A B} (f : A -> B) (l : list A) :
  (forall x y, In x l -> In y l -> f x = f y -> x = y) -> NoDup l -> NoDup (map f l).
Proof.
  induction l as [|a l IH]; intros Hinj Hnd; cbn [map]; [constructor|].
  inversion Hnd as [|? ? Hna Hnd']; subst. constructor.
  - intros Hin. apply in_map_iff in Hin as (y & Hy & Hyin).
    assert (y = a) by (apply Hinj; [right; exact Hyin | left; reflexivity | exact Hy]). subst. contradiction.
  - apply IH; [|exact Hnd']. intros x y Hx Hy. apply Hinj; right; assumption.
Qed.

(* any number of distinct sources: their resolved targets are pairwise distinct, and none of them is
   one of the sources' own places unless DIR resolves to "/" *)
Lemma c18_targets_nodup d srcs : Forall wf_clean srcs -> NoDup srcs ->
  NoDup (map (fun p => norm (mv_target d p)) srcs).
Proof.
  intros Hwf Hnd. apply NoDup_map_inj_in; [|exact Hnd].
  rewrite Forall_forall in Hwf. intros x y Hx Hy. apply c18_injective_resolved; auto.
Qed.

(* the resolved target lies under the resolved DIR *)
Lemma c18_target_under_dir d p : wf_clean p -> exists rest, norm (mv_target d p) = norm d ++ rest /\ p = root_c :: rest.
Proof. intros (rest & -> & Hc). exists rest. split; [apply c18_resolved_shape, Hc | reflexivity]. Qed.
