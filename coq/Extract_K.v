(* Extract_K.v — extraction of the hash-cache model for the correspondence harness. *)
From Coq Require Import Extraction ExtrOcamlBasic.
From FV Require Import Base CacheModel.
Extraction Language OCaml.
Extraction "extracted/ex_K.ml" empty_world apply_edit stat cache_key cache_get cache_put lookup tree_of
  hash_plain hash_cached stamp_determines_b mtime_determines_b preepoch_fraction_b stepwise_b
  code_ms N.of_nat Z.of_N.
